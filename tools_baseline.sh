#!/bin/bash
# Runs the pinned suite on /repo (guard off) and compares with BASELINE.json: prints tests that
# are in stable_pass but did not pass.  Usage: tools_baseline.sh [logdir]
D=${1:-/tmp/skv_baseline}; mkdir -p $D
cd /repo && env -u SKOOLKIT_VERIF /venv/bin/python -m pytest -q -p no:cacheprovider --timeout=900 -n 12 --continue-on-collection-errors --junitxml=$D/junit.xml > $D/log.txt 2>&1
/venv/bin/python - "$D/junit.xml" <<'PY'
import sys, json, xml.etree.ElementTree as ET
b = json.load(open('/root/.vp/BASELINE.json'))
passed = set()
for tc in ET.parse(sys.argv[1]).getroot().iter('testcase'):
    if not any(c.tag in ('failure', 'error', 'skipped') for c in tc):
        passed.add(f"{tc.get('classname')}::{tc.get('name')}")
missing = sorted(set(b['stable_pass']) - passed)
print(f'passed={len(passed)} stable_pass={len(b["stable_pass"])} missing={len(missing)}')
for m in missing[:40]:
    print('  NOT PASSING:', m)
sys.exit(1 if missing else 0)
PY
