-- Root of the `SkoolVerif` library: every model, proof and property module.
import SkoolVerif.Model.Z80Rle
