-- Root of the `SkoolVerif` library: every model, proof and property module.
import SkoolVerif.Model.Z80Rle
import SkoolVerif.Prelude.Proto
import SkoolVerif.Prelude.SimProto
import SkoolVerif.Props.C09
import SkoolVerif.Proofs.SimFrame
import SkoolVerif.Proofs.SimWf
import SkoolVerif.Props.C18
import SkoolVerif.Props.C16
import SkoolVerif.Props.C14
import SkoolVerif.Props.C11
import SkoolVerif.Props.C04
import SkoolVerif.Props.C03
import SkoolVerif.Props.C08
import SkoolVerif.Gen.CDispatch
import SkoolVerif.Props.C15
