/-! Line-protocol helpers shared by the drivers (core Lean only). -/
namespace Proto

def words (line : String) : List String :=
  (line.splitOn " ").filter (· ≠ "") |>.map (fun s => s.trimAscii.toString) |>.filter (· ≠ "")

def nats? (ws : List String) : Option (List Nat) := ws.mapM String.toNat?

def int? (s : String) : Option Int := s.toInt?

def ints? (ws : List String) : Option (List Int) := ws.mapM String.toInt?

def showNats (l : List Nat) : String := " ".intercalate (l.map toString)
def showInts (l : List Int) : String := " ".intercalate (l.map toString)

/-- Read lines from stdin until EOF, print `f line` for each. -/
partial def loop (f : String → String) : IO Unit := do
  let h ← IO.getStdin
  let out ← IO.getStdout
  let rec go : IO Unit := do
    let line ← h.getLine
    if line.isEmpty then return ()
    out.putStrLn (f line)
    go
  go
  out.flush

/-- Stateful variant. -/
partial def loopSt {σ : Type} (init : σ) (f : σ → String → σ × String) : IO Unit := do
  let h ← IO.getStdin
  let out ← IO.getStdout
  let rec go (s : σ) : IO Unit := do
    let line ← h.getLine
    if line.isEmpty then return ()
    let (s', o) := f s line
    out.putStrLn o
    go s'
  go init
  out.flush

end Proto
