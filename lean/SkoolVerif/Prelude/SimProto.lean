import SkoolVerif.Prelude.Proto
import SkoolVerif.Prelude.Machine
/-! Line protocol shared by the simulator drivers (plain / contended). -/
namespace SimProto
open Z80 Proto

/-- Driver-side memory: sparse initial contents + write log (most recent first).
Reads see the latest write; every write is recorded, so the harness can compare
the exact write sequence with the real simulator. `paged` = 128K behaviour of
`contend`/`io_contention` is exercised through `o7ffd`. -/
structure MemLog where
  base : List (Int × Int)
  writes : List (Int × Int)
  o7ffd : Int
  trOut7ffd : Int
  is128 : Bool

def lookup (l : List (Int × Int)) (a : Int) : Option Int :=
  match l with
  | [] => none
  | (k, v) :: rest => if k = a then some v else lookup rest a

instance : MemLike MemLog where
  get m a := match lookup m.writes a with
    | some v => v
    | none => (lookup m.base a).getD 0
  set m a v := { m with writes := (a, v) :: m.writes }
  portOut m port value :=
    if m.is128 ∧ PyInt.land port 0x8002 = 0 ∧ PyInt.land m.trOut7ffd 32 = 0 then
      { m with o7ffd := value, trOut7ffd := value }
    else m
  o7ffd m := m.o7ffd
  is128 m := m.is128

def splitOnSemi (line : String) : List (List String) :=
  (line.splitOn ";").map words

def parsePairs (ws : List String) : Option (List (Int × Int)) :=
  ws.mapM fun w => match w.splitOn ":" with
    | [a, v] => do let a ← a.toInt?; let v ← v.toInt?; pure (a, v)
    | _ => none

def showPairs (l : List (Int × Int)) : String :=
  " ".intercalate (l.map fun (a, v) => s!"{a}:{v}")

/-- `<in_a_n in_r_c ini out> <frame> <int_active> <t0> <t1> <is128> <o7ffd> ; regs(24) ; pc t iff im halt memptr ; ins ; mem pairs` -/
def runLine (stepFn : Cfg → St MemLog → St MemLog) (line : String) : String :=
  match splitOnSemi line with
  | [c, r, f, i, m] =>
    match ints? c, ints? r, ints? f, ints? i, parsePairs m with
    | some [ta, tr, ti, to, fd, ia, t0, t1, is128, o7], some regs, some [pc, t, iff, im, halt, memptr], some ins, some mem =>
      if regs.length ≠ 24 then "bad-op regs" else
      let cfg : Cfg := { frame_duration := fd, int_active := ia, t0 := t0, t1 := t1,
                         in_a_n_tracer := ta ≠ 0, in_r_c_tracer := tr ≠ 0, ini_tracer := ti ≠ 0, out_tracer := to ≠ 0 }
      let s : St MemLog := { reg := regs.toArray, mem := { base := mem, writes := [], o7ffd := o7, trOut7ffd := o7, is128 := is128 ≠ 0 },
                             pc := pc, t := t, iff := iff, im := im, halt := halt, memptr := memptr,
                             ins := ins, outs := [], inLog := [] }
      let s' := stepFn cfg s
      s!"{showInts s'.reg.toList} ; {s'.pc} {s'.t} {s'.iff} {s'.im} {s'.halt} {s'.memptr} ; {showPairs s'.outs.reverse} ; {showInts s'.inLog.reverse} ; {showPairs s'.mem.writes.reverse} ; {s'.mem.o7ffd}"
    | _, _, _, _, _ => "bad-op parse"
  | _ => "bad-op shape"

end SimProto
