import SkoolVerif.Prelude.LoopAttrs
/-! What the loop translators (`translate/cloop2lean.py`, `translate/pyloop2lean.py`) emit besides `Int` arithmetic
(core Lean only): how one pass of a loop body ended, and the little that the C loops ask of a Python object argument. -/
namespace Z80

/-- how one pass of a translated C loop body ended: fell through to the next pass, `break`, or `return v` -/
inductive LoopExit (ρ : Type) where
  | continue_
  | break_
  | return_ (v : ρ)
  deriving Repr, DecidableEq, Inhabited

/-- A translated loop: at most `fuel` passes of the translated iteration function `body` over the loop state `σ`
(machine state and locals); `.continue_` in the result: the fuel ran out before the loop was left.  (Generic in `body`, so
that unfolding one pass never unfolds a particular body.) -/
def iterate {σ ρ : Type} (body : σ → σ × LoopExit ρ) : Nat → σ → σ × LoopExit ρ
  | 0, x => (x, .continue_)
  | fuel + 1, x =>
    match (body x).2 with
    | .continue_ => iterate body fuel (body x).1
    | _ => body x

theorem iterate_zero {σ ρ : Type} (body : σ → σ × LoopExit ρ) (x : σ) : iterate body 0 x = (x, .continue_) := rfl

theorem iterate_continue {σ ρ : Type} (body : σ → σ × LoopExit ρ) (n : Nat) (x : σ) (h : (body x).2 = .continue_) :
    iterate body (n + 1) x = iterate body n (body x).1 := by
  simp only [iterate, h]

theorem iterate_exit {σ ρ : Type} (body : σ → σ × LoopExit ρ) (n : Nat) (x : σ) (h : (body x).2 ≠ .continue_) :
    iterate body (n + 1) x = body x := by
  simp only [iterate]

/-- a `PyObject*` argument of a C entry point, as far as the loops look at it: `x != Py_None`, `PyLong_Check(x)`,
`PyLong_AsLong(x)`; any other object (a callable, a set, a list) is `other` -/
inductive PyObj where
  | none
  | int (v : Int)
  | other
  deriving Repr, DecidableEq, Inhabited

namespace PyObj
/-- `PyLong_Check(x)` -/
def isInt : PyObj → Bool
  | .int _ => true
  | _ => false
/-- the integer `PyLong_AsLong(x)` converts (meaningful under `isInt`) -/
def intVal : PyObj → Int
  | .int v => v
  | _ => 0
end PyObj

end Z80
