/-!
Python integer operations on Lean `Int` (core Lean only).

* `//` and `%` with a positive divisor are Lean's `/` and `%` on `Int`
  (Euclidean = floor for positive divisors); the translator only emits them
  for positive literal divisors or the frame duration.
* `&`, `|`, `^` are two's-complement on unbounded integers, defined here by
  cases on the sign using the kernel-accelerated `Nat` bit operations.
-/
namespace PyInt

/-- Python `a & b`. -/
def land : Int → Int → Int
  | .ofNat m, .ofNat n => .ofNat (m &&& n)
  | .ofNat m, .negSucc n => .ofNat (m - (m &&& n))        -- m & ~n
  | .negSucc m, .ofNat n => .ofNat (n - (n &&& m))        -- ~m & n
  | .negSucc m, .negSucc n => .negSucc (m ||| n)          -- ~m & ~n = ~(m | n)

/-- Python `a | b`. -/
def lor : Int → Int → Int
  | .ofNat m, .ofNat n => .ofNat (m ||| n)
  | .ofNat m, .negSucc n => .negSucc (n - (n &&& m))      -- m | ~n = ~(n & ~m)
  | .negSucc m, .ofNat n => .negSucc (m - (m &&& n))
  | .negSucc m, .negSucc n => .negSucc (m &&& n)          -- ~m | ~n = ~(m & n)

/-- Python `a ^ b`. -/
def xor : Int → Int → Int
  | .ofNat m, .ofNat n => .ofNat (m ^^^ n)
  | .ofNat m, .negSucc n => .negSucc (m ^^^ n)
  | .negSucc m, .ofNat n => .negSucc (m ^^^ n)
  | .negSucc m, .negSucc n => .ofNat (m ^^^ n)

/-- Python `a << k` for `k ≥ 0` (the translator rejects other uses). -/
def shl (a k : Int) : Int := a * (2 : Int) ^ k.toNat

/-- Python `a >> k` for `k ≥ 0`. -/
def shr (a k : Int) : Int := a / (2 : Int) ^ k.toNat

/-- `int(p)` for a Python bool. -/
@[inline] def p2i (p : Prop) [Decidable p] : Int := if p then 1 else 0

def popcountNat : Nat → Nat → Nat
  | 0, _ => 0
  | fuel + 1, n => if n = 0 then 0 else n % 2 + popcountNat fuel (n / 2)

/-- `bin(r).count('1')` for `r ≥ 0`. -/
def popcount (r : Int) : Int := Int.ofNat (popcountNat 64 r.toNat)

end PyInt
