import SkoolVerif.Prelude.Machine
import SkoolVerif.Gen.SimTblEnums
/-!
C integer semantics on Lean `Int`, as emitted by `translate/c2lean.py` (core Lean only).

A C value of an integer type is represented by its mathematical value.  After every arithmetic
operation, and at every conversion that the C standard does not guarantee to be value preserving from
the types alone, the translator emits the wrap of the destination type:

* `u8`  : `unsigned char` (the file's `byte`), modulo 2^8
* `u32` : `unsigned`, modulo 2^32
* `u64` : `unsigned long long` (the register cells), modulo 2^64
* `i32` : `int`: wrap to [-2^31, 2^31) (signed overflow is undefined in ISO C; gcc wraps in practice and
  the harness compiles with `-fwrapv`; conversion unsigned -> int is implementation-defined = wrap in gcc)
* `i64` : `long` (only for `PyLong_AsLong` results)
-/
namespace CInt

def u8 (x : Int) : Int := x % 256
def u32 (x : Int) : Int := x % 4294967296
def u64 (x : Int) : Int := x % 18446744073709551616
def i32 (x : Int) : Int := (x + 2147483648) % 4294967296 - 2147483648
def i64 (x : Int) : Int := (x + 9223372036854775808) % 18446744073709551616 - 9223372036854775808

/-- The C dispatch tables pass the R-register increment as an `int` (1 or 2) where Python passes the
table `R1`/`R2` (`translate/cdispatch.py` maps 1 ↦ `.R1`, 2 ↦ `.R2`); this is the inverse.  The other
tables of the same shape have no C counterpart (excluded by `cArgsOk`). -/
def rInc : TblI1 → Int
  | .R1 => 1
  | .R2 => 2
  | _ => 0

/-- total T-states of a contention pattern: what `contend_48k/128k` add to `*t` besides the delays -/
def patT (l : List (Int × Int)) : Int := l.foldl (fun acc p => acc + p.2) 0

end CInt
