import Lean.Meta.Tactic.Simp.RegisterCommand
/-! Simp sets collecting the loop definitions generated from the Python sources (`translate/pyloop2lean.py`:
`loop_def`) and from `c/csimulator.c` (`translate/cloop2lean.py`: `cloop_def`), so that proof files can unfold
"whatever the loops are now" without naming their parts. -/
register_simp_attr loop_def
register_simp_attr cloop_def
