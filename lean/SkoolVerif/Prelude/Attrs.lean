import Lean.Meta.Tactic.Simp.RegisterCommand
/-! Simp set collecting the generated handler definitions, so that proof files can unfold
"whatever handlers the source has now" without naming them. -/
register_simp_attr sim_handler
