import SkoolVerif.Prelude.PyInt
/-!
Machine state shared by the generated simulator models (core Lean only).

Layout follows `skoolkit/simutils.py`: the Python `registers` list has 30
slots.  Slots 0..23 (A,F,B,C,D,E,H,L,IXh,IXl,IYh,IYl,SP,SP2,I,R and the shadow
registers) are addressed through closure parameters in the Python source and
stay in the array `reg`; the slots the source only ever addresses with a
literal index (24 PC, 25 T, 26 IFF, 27 IM, 28 HALT, 29 MEMPTR) are fields.
The translator rejects any closure that addresses 24..29 through a parameter,
and `Gen/SimDispatch` carries a kernel-checked theorem that no dispatch-table
argument used as a register index is ≥ 24.
-/
namespace Z80

/-- What the simulators need from `memory`: `__getitem__`, `__setitem__`, and
the effect a port write has on it via `PagingTracer.write_port`. -/
class MemLike (μ : Type) where
  get : μ → Int → Int
  set : μ → Int → Int → μ
  portOut : μ → Int → Int → μ
  o7ffd : μ → Int
  is128 : μ → Bool

/-- 48K memory: a Python list of 65536 ints. -/
structure Mem48 where
  cells : Array Int
  deriving Inhabited

instance : MemLike Mem48 where
  get m a := m.cells.getD a.toNat 0
  set m a v := if 0 ≤ a then ⟨m.cells.setIfInBounds a.toNat v⟩ else m
  portOut m _ _ := m
  o7ffd _ := 0
  is128 _ := false

/-- 128K memory: `pagingtracer.Memory` (8 RAM banks, 2 ROMs, last accepted
0x7FFD value) together with the tracer's own copy of the 0x7FFD value, which
is what `PagingTracer.write_port` tests for the lock bit. -/
structure Mem128 where
  roms : Array (Array Int)
  banks : Array (Array Int)
  o7ffd : Int
  trOut7ffd : Int
  deriving Inhabited

namespace Mem128
/-- `self.memory[index // 0x4000]` as (isRom, index). -/
def slot (m : Mem128) (a : Int) : Bool × Nat :=
  let q := a / 16384
  if q = 0 then (true, ((m.o7ffd % 32) / 16).toNat)
  else if q = 1 then (false, 5)
  else if q = 2 then (false, 2)
  else (false, (m.o7ffd % 8).toNat)

def get (m : Mem128) (a : Int) : Int :=
  let (isRom, i) := m.slot a
  let off := (a % 16384).toNat
  if isRom then (m.roms.getD i #[]).getD off 0 else (m.banks.getD i #[]).getD off 0

def set (m : Mem128) (a v : Int) : Mem128 :=
  let (isRom, i) := m.slot a
  let off := (a % 16384).toNat
  if isRom then { m with roms := m.roms.setIfInBounds i ((m.roms.getD i #[]).setIfInBounds off v) }
  else { m with banks := m.banks.setIfInBounds i ((m.banks.getD i #[]).setIfInBounds off v) }

/-- `PagingTracer.write_port`, memory part. -/
def portOut (m : Mem128) (port value : Int) : Mem128 :=
  if PyInt.land port 0x8002 = 0 ∧ PyInt.land m.trOut7ffd 32 = 0 then
    { m with o7ffd := value, trOut7ffd := value }
  else m
end Mem128

instance : MemLike Mem128 where
  get := Mem128.get
  set := Mem128.set
  portOut := Mem128.portOut
  o7ffd m := m.o7ffd
  is128 _ := true

/-- Simulator configuration (`Simulator.__init__`, `set_tracer`, and for the
contended simulator `t0`, `t1`). -/
structure Cfg where
  frame_duration : Int := 69888
  int_active : Int := 32
  t0 : Int := 14335 - 23
  t1 : Int := 57245
  in_a_n_tracer : Bool := false
  in_r_c_tracer : Bool := false
  ini_tracer : Bool := false
  out_tracer : Bool := false
  deriving Repr

/-- CPU + tracer-visible state.  `ins` is the stream of values the tracer's
`read_port` will return (head first; 255 once exhausted), `outs` the log of
`write_port(port, value)` calls, most recent first, `inLog` the ports read. -/
structure St (μ : Type) where
  reg : Array Int
  mem : μ
  pc : Int
  t : Int
  iff : Int
  im : Int
  halt : Int
  memptr : Int
  ins : List Int
  outs : List (Int × Int)
  inLog : List Int

@[inline] def rget (r : Array Int) (i : Int) : Int := if 0 ≤ i then r.getD i.toNat 0 else 0
@[inline] def rset (r : Array Int) (i : Int) (v : Int) : Array Int :=
  if 0 ≤ i then r.setIfInBounds i.toNat v else r

@[inline] def mget {μ} [MemLike μ] (m : μ) (a : Int) : Int := MemLike.get m a
@[inline] def mset {μ} [MemLike μ] (m : μ) (a v : Int) : μ := MemLike.set m a v

/-- tracer `read_port(registers, port)`: next value of the input stream. -/
def readPort (ins : List Int) : Int × List Int :=
  match ins with
  | [] => (255, [])
  | v :: rest => (v, rest)

end Z80
