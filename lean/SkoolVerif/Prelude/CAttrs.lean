import Lean.Meta.Tactic.Simp.RegisterCommand
/-! Simp set collecting the handler definitions generated from `c/csimulator.c`
(`translate/c2lean.py`), so that proof files can unfold "whatever C handlers the source has now"
without naming them. -/
register_simp_attr csim_handler
