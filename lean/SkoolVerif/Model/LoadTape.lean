import SkoolVerif.Model.LoadAccel
/-!
Hand model of the tape side of `skoolkit/loadtracer.py` (core Lean only): the tracer `state`
list, `next_block`, `stop_tape`, the tape part of the `run` loop (edge index advance, end of
tape, block change), the stop conditions, and `_read_port.func` with accelerator matching.

Python raises `IndexError` where a list index is out of range; here that is `none`
(never a default value).  Printing (`write_line`) is modelled as a list of message tags.
-/
namespace LoadTape
open Z80 LoadAccel

/-- one `skoolkit.loadsample.Accelerator` (the `ACCELERATORS` table is dumped into
`Gen/Accelerators.lean` by `translate/gen_c13.py`); `none` in `code` = the `BYTE` wildcard. -/
structure Accel where
  name : String
  code : List (Option Int)
  c0 : Int
  c1 : Int
  counter : Int
  inc : Int
  loopTime : Int
  loopRInc : Int
  ear : Int
  earMask : Int
  polarity : Int
  deriving Repr, DecidableEq

/-- `tape.DataBlock` as far as the tracer reads it: start, end, `len(data)`, fast_load, `keys is not None` -/
structure Block where
  start : Int
  stop : Int
  dataLen : Int
  fastLoad : Bool
  hasKeys : Bool
  deriving Repr

/-- `LoadTracer.state[0..9]` plus `block_index`, `block_data_index`, `keys is not None` -/
structure TS where
  nextEdge : Int      -- state[0]
  index : Int         -- state[1]
  ended : Int         -- state[2]
  blockEnd : Int      -- state[3]
  running : Int       -- state[4]
  custom : Int        -- state[5]
  endTime : Int       -- state[6]
  announce : Int      -- state[7]
  nextInt : Int       -- state[8]
  lastFrame : Int     -- state[9]
  blockIndex : Int
  blockDataIndex : Int
  hasKeys : Bool
  deriving Repr

structure TapeCfg where
  edges : Array Int
  blocks : Array Block
  pause : Bool
  inMinAddr : Int
  frameDuration : Int
  intActive : Int
  out7ffd : Int
  outfffd : Int
  ay : Array Int

/-- Python list indexing (negative indices wrap once, otherwise `IndexError`) -/
def pyGet {α : Type} (a : Array α) (i : Int) : Option α :=
  if 0 ≤ i then a[i.toNat]? else if -(a.size : Int) ≤ i then a[(i + a.size).toNat]? else none

def TapeCfg.maxIndex (c : TapeCfg) : Int := (c.edges.size : Int) - 1

/-- `LoadTracer.stop_tape` -/
def stopTape (c : TapeCfg) (ts : TS) (tstates : Int) : TS × List String :=
  let ts := { ts with blockIndex := c.blocks.size, ended := ts.ended + 1 }
  if ts.ended = 1 then
    ({ ts with endTime := tstates, running := 0 }, ["Tape finished"])
  else ({ ts with running := 0 }, [])

/-- `LoadTracer.next_block` -/
def nextBlock (c : TapeCfg) (ts : TS) (tstates : Int) : Option (TS × List String) :=
  let ts := { ts with blockIndex := ts.blockIndex + 1 }
  if ts.blockIndex ≥ (c.blocks.size : Int) then some (stopTape c ts tstates)
  else do
    let idx := ts.blockEnd + 1
    let e ← pyGet c.edges idx
    let b ← pyGet c.blocks ts.blockIndex
    some ({ ts with index := idx, nextEdge := e, blockDataIndex := b.start, hasKeys := b.hasKeys, blockEnd := b.stop,
                    running := if c.pause then 0 else 1, announce := 1 }, [])

/-- `while index < max_index and edges[index + 1] < tstates: index += 1` (fuel = number of edges) -/
def advIdx (edges : Array Int) (maxIndex : Int) : Nat → Int → Int → Option Int
  | 0, index, _ => some index
  | fuel + 1, index, tstates =>
    if index < maxIndex then
      match pyGet edges (index + 1) with
      | none => none
      | some e => if e < tstates then advIdx edges maxIndex fuel (index + 1) tstates else some index
    else some index

/-- the tape section of the `run` loop, executed after every instruction; the `Bool` is
"tape paused for key presses" (`stop_cond = 5`) -/
def tapeAdvance (c : TapeCfg) (ts : TS) (tstates : Int) : Option (TS × List String × Bool) :=
  if ts.running ≠ 0 ∧ tstates ≥ ts.nextEdge then do
    let index ← advIdx c.edges c.maxIndex c.edges.size ts.index tstates
    let ts := { ts with index := index }
    if index = c.maxIndex then do
      let e ← pyGet c.edges index
      if tstates - e > 3500 then
        let (ts, m) := stopTape c ts tstates
        some (ts, m, false)
      else some (ts, [], false)
    else if index > ts.blockEnd then do
      let (ts, m) ← nextBlock c ts tstates
      some (ts, m, ts.hasKeys)
    else do
      let e ← pyGet c.edges (index + 1)
      some ({ ts with nextEdge := e }, [], false)
  else some (ts, [], false)

/-- frame / interrupt bookkeeping of the `run` loop (without accepting the interrupt and
without drawing); `true` = an interrupt would be accepted now if IFF is set -/
def frameAdvance (c : TapeCfg) (ts : TS) (tstates : Int) : TS × Bool :=
  if tstates ≥ ts.nextInt then
    if tstates < ts.nextInt + c.intActive then (ts, true)
    else ({ ts with nextInt := ((tstates + c.frameDuration - c.intActive) / c.frameDuration) * c.frameDuration,
                    lastFrame := tstates / c.frameDuration }, false)
  else (ts, false)

/-- stop conditions checked at the end of each iteration when no fast load happened
(`stop = none` ↔ Python `None`): 0 = PC at start address, 1 = end of tape (custom loader),
2 = PC in RAM, 3 = tape ended 1 s ago, 4 = timed out -/
def stopCond (ts : TS) (stop : Option Int) (finishTape : Bool) (timeout pc tstates : Int) : Option Nat :=
  if some pc = stop ∧ (ts.ended ≠ 0 ∨ ¬ finishTape) then some 0
  else if ts.ended ≠ 0 ∧ stop = none ∧ ts.custom ≠ 0 then some 1
  else if ts.ended ≠ 0 ∧ stop = none ∧ pc > 0x3FFF then some 2
  else if ts.ended ≠ 0 ∧ stop = none ∧ tstates - ts.endTime > 3500000 then some 3
  else if tstates > timeout then some 4
  else none

/-! ### `_read_port.func` -/

/-- `memory[pc - acc.c0 : pc + acc.c1] == acc.code` on a 65536-entry list (or `SliceableMemory`):
a slice that starts below 0 or is cut at 65536 has the wrong length and compares unequal. -/
def sigMatchPy (get : Int → Int) (pc : Int) (a : Accel) : Bool :=
  if pc - a.c0 < 0 ∨ pc + a.c1 > 65536 then false
  else (a.code.zipIdx).all fun (b, i) => match b with
    | none => true
    | some v => get (pc - a.c0 + i) == v

/-- the C loop: `c < 256 && c != PEEK(ADDR(pc + j))` with 16-bit address wrap-around -/
def sigMatchC (get : Int → Int) (pc : Int) (a : Accel) : Bool :=
  (a.code.zipIdx).all fun (b, i) => match b with
    | none => true
    | some v => get ((pc - a.c0 + i) % 65536) == v

def findAccel (m : Accel → Bool) : List Accel → Option Accel
  | [] => none
  | a :: rest => if m a then some a else findAccel m rest

structure PortResult where
  value : Int
  regs : Array Int
  t : Int
  ts : TS
  msgs : List String
  miss : Bool          -- `tsl_misses += 1`
  hit : Option String  -- name of the accelerator whose `hits` was incremented
  loops : Int          -- iterations fast-forwarded (0 = none)

/-- `ffwd`: the loop will go round again (the EAR bit still equals the level the loop waits out) -/
def ffwdCond (a : Accel) (regs : Array Int) (index : Int) : Bool :=
  if a.earMask ≠ 0 then decide (PyInt.land (rget regs a.ear) a.earMask = ((index - a.polarity) % 2) * a.earMask)
  else decide ((index - a.polarity) % 2 ≠ 0)

/-- the fast-forward branch for one matched accelerator; returns (regs, t, index, loops) -/
def accelerate (a : Accel) (ts : TS) (regs : Array Int) (t index : Int) : Option (Array Int × Int × Int × Int) :=
  if ffwdCond a regs index = true ∧ ts.nextEdge > t then
    let counter := rget regs a.counter
    let loops := tslLoops (a.inc ≠ 0) ts.nextEdge t a.loopTime counter
    if loops ≠ 0 then
      match tslFfwd (a.inc ≠ 0) a.loopTime a.loopRInc counter (rget regs 15) t loops with
      | none => none
      | some st =>
        let regs := rset regs a.counter st.1
        let regs := rset regs 1 st.2.1
        let regs := rset regs 15 st.2.2.1
        some (regs, st.2.2.2, if st.2.2.2 > ts.nextEdge then index + 1 else index, loops)
    else some (regs, t, index, 0)
  else some (regs, t, index, 0)

/-- `_read_port.func(registers, port)`; `sigMatch` is `sigMatchPy get` or `sigMatchC get`,
`accs` the accelerator list in search order. -/
def readPort (c : TapeCfg) (accs : List Accel) (sigMatch : Int → Accel → Bool) (ts : TS) (regs : Array Int)
    (pc t iff port : Int) : Option PortResult :=
  if port % 256 = 0xFE then
    if pc ≥ c.inMinAddr ∨ (0x0562 ≤ pc ∧ pc ≤ 0x05F1 ∧ PyInt.land c.out7ffd 0x10 ≠ 0) then
      let ts := { ts with custom := 1 }
      let index := ts.index
      let fin (r : PortResult) (index : Int) : PortResult := { r with value := if index % 2 = 0 then 191 else 255 }
      if ts.announce ≠ 0 ∧ ts.ended = 0 then do
        let e ← pyGet c.edges index
        let b ← pyGet c.blocks ts.blockIndex
        let ts := { ts with announce := 0, running := 1,
                            nextInt := ((e + c.frameDuration - c.intActive) / c.frameDuration) * c.frameDuration, lastFrame := 0 }
        some (fin { value := 0, regs := regs, t := e, ts := ts, msgs := if b.dataLen ≠ 0 then [s!"Data ({b.dataLen} bytes)"] else [],
                    miss := false, hit := none, loops := 0 } index)
      else if index = c.maxIndex then
        let (ts, m) := stopTape c ts t
        some (fin { value := 0, regs := regs, t := t, ts := ts, msgs := m, miss := false, hit := none, loops := 0 } index)
      else if ts.running ≠ 0 ∧ iff = 0 ∧ index < ts.blockEnd - 1 then
        match findAccel (sigMatch pc) accs with
        | none => some (fin { value := 0, regs := regs, t := t, ts := ts, msgs := [], miss := true, hit := none, loops := 0 } index)
        | some a =>
          match accelerate a ts regs t index with
          | none => none
          | some (regs', t', index', loops) =>
            some (fin { value := 0, regs := regs', t := t', ts := ts, msgs := [], miss := false, hit := some a.name, loops := loops } index')
      else some (fin { value := 0, regs := regs, t := t, ts := ts, msgs := [], miss := false, hit := none, loops := 0 } index)
    else some { value := 255, regs := regs, t := t, ts := ts, msgs := [], miss := false, hit := none, loops := 0 }
  else if PyInt.land port 0xC002 = 0xC000 ∧ c.outfffd < 16 then
    if c.outfffd = 14 ∧ pc = 0x08B2 then
      some { value := 0, regs := regs, t := t, ts := ts, msgs := [], miss := false, hit := none, loops := 0 }
    else do
      let v ← pyGet c.ay c.outfffd
      some { value := v, regs := regs, t := t, ts := ts, msgs := [], miss := false, hit := none, loops := 0 }
  else some { value := 255, regs := regs, t := t, ts := ts, msgs := [], miss := false, hit := none, loops := 0 }

end LoadTape
