/-!
Hand model of the memory-editing functions of `skoolkit/snapshot.py`:
`_get_page`, `poke`, `move`, `patch` (and the pieces of `Memory.__getitem__` / `Memory.__setitem__`
and of `skoolkit.get_int_param` they use), on

* (a) a flat Python list (`sna2img.py`, `trace.py`, `tap2sna.py` pass one): `hasattr(snapshot,
  'banks')` is false, so every spec with a bank prefix is silently ignored, and `snapshot[i:j] = v`
  is *list slice assignment* (it grows or shrinks the list when a range runs past the end);
* (b) a `Memory` object (`snapmod.py`, `bin2sna.py`): a list `banks` of optional 16K lists and the
  four 16K windows `memory[0..3]` of the 64K address space, three of which *alias* banks.

Numbers are `Nat`: the documented domain of the options (decimal or `0x` hexadecimal numerals).
Cells hold arbitrary naturals (a POKE with a value > 255 really stores it).
Core Lean only; also used by the line-protocol driver.
-/
namespace SnapEdit

/-- Python exceptions that leave `poke`/`move`/`patch`. -/
inductive Err
  | index      -- IndexError (list index out of range / `self.memory[4]`)
  | type       -- TypeError (`None[...]`, `None % 8`)
  | stepZero   -- ValueError: range() arg 3 must not be zero
  | noValue    -- SkoolKitError: Value missing in poke spec
  | badPage    -- SkoolKitError: Invalid page number in … spec
  | badValue   -- SkoolKitError: Invalid value in poke spec
  | badRange   -- SkoolKitError: Invalid address range in poke spec
  | fewArgs    -- SkoolKitError: Not enough arguments in move spec
  | badInt     -- SkoolKitError: Invalid integer in move spec
  | noFile     -- SkoolKitError: Filename missing in patch spec
  | badAddr    -- SkoolKitError: Invalid address in patch spec
  deriving DecidableEq, Repr

/-! ### Python list primitives for non-negative indices -/

/-- `l[i:j]` -/
def pySlice (l : List Nat) (i j : Nat) : List Nat := (l.take j).drop i

/-- `l[i:j] = v` (list slice assignment: the slice is *replaced*, whatever the length of `v`) -/
def pySliceSet (l : List Nat) (i j : Nat) (v : List Nat) : List Nat :=
  l.take i ++ v ++ l.drop (max i j)

/-- `list(range(start, stop, step))` for `step > 0` -/
def pyRange (start stop step : Nat) : List Nat :=
  (List.range ((stop - start + step - 1) / step)).map (fun k => start + k * step)

/-- `list(range(start, stop))` -/
def upto (start stop : Nat) : List Nat := (List.range (stop - start)).map (fun k => start + k)

/-- `f` applied `n` times -/
def iter (f : Nat → Nat) : Nat → Nat → Nat
  | 0, x => x
  | n + 1, x => iter f n (f x)

/-! ### Specs -/

inductive PokeOp | set | xor | add
  deriving DecidableEq, Repr

/-- `poke_f` -/
def pokeF (op : PokeOp) (value b : Nat) : Nat :=
  match op with
  | .set => value
  | .xor => b ^^^ value
  | .add => (b + value) &&& 255

structure PokeSpec where
  page : Option Nat
  addr1 : Nat
  addr2 : Nat
  step : Nat
  op : PokeOp
  value : Nat
  deriving DecidableEq, Repr

/-- `destPage` is the value of `dest_page` *after* `_get_page(dest, 'move', param_str, src_page)`. -/
structure MoveSpec where
  srcPage : Option Nat
  destPage : Option Nat
  src : Nat
  length : Nat
  dest : Nat
  deriving DecidableEq, Repr

structure PatchSpec where
  page : Option Nat
  addr : Nat
  fname : List Char
  deriving DecidableEq, Repr

/-! ### Spec text (`get_int_param`, `_get_page`, the `split`/`partition` calls) -/

def digitVal (c : Char) : Option Nat :=
  if '0' ≤ c ∧ c ≤ '9' then some (c.toNat - 48)
  else if 'a' ≤ c ∧ c ≤ 'f' then some (c.toNat - 87)
  else if 'A' ≤ c ∧ c ≤ 'F' then some (c.toNat - 55)
  else none

def parseDigits (base : Nat) : List Char → Nat → Option Nat
  | [], acc => some acc
  | c :: cs, acc =>
    match digitVal c with
    | some d => if d < base then parseDigits base cs (acc * base + d) else none
    | none => none

/-- `int(s, base)` restricted to plain digit strings (no sign, white space, underscore, prefix):
the numerals the documentation allows. -/
def parseNum (base : Nat) (s : List Char) : Option Nat :=
  if s = [] then none else parseDigits base s 0

/-- `get_int_param(num_str, accept0x)`: decimal; `$` hexadecimal; `0x` hexadecimal when accepted;
`%` binary.  (The `"c"` character form is not modelled; the driver never receives a `"`.) -/
def getIntParam (s : List Char) (accept0x : Bool) : Option Nat :=
  match parseNum 10 s with
  | some n => some n
  | none =>
    match s with
    | '$' :: r => parseNum 16 r
    | '0' :: 'x' :: r => if accept0x then parseNum 16 r else none
    | '%' :: r => parseNum 2 r
    | _ => none

/-- `s.split(c, 1)` / `s.partition(c)`: the text before and after the first `c`. -/
def splitFirst (c : Char) : List Char → Option (List Char × List Char)
  | [] => none
  | x :: xs =>
    if x = c then some ([], xs)
    else match splitFirst c xs with
      | some (a, b) => some (x :: a, b)
      | none => none

/-- `_get_page(param, desc, spec, default)` -/
def getPage (param : List Char) (default : Option Nat) : Except Err (Option Nat × List Char) :=
  match splitFirst ':' param with
  | some (page, v) =>
    match getIntParam page false with
    | some p => .ok (some p, v)
    | none => .error .badPage
  | none => .ok (default, param)

/-- The part of `poke` before the memory is touched. -/
def parsePoke (spec : List Char) : Except Err PokeSpec :=
  match splitFirst ',' spec with
  | none => .error .noValue
  | some (addr, val) =>
    match getPage addr none with
    | .error e => .error e
    | .ok (page, addr) =>
      let opv : Option (PokeOp × Nat) :=
        match val with
        | '^' :: r => (getIntParam r true).map (fun v => (PokeOp.xor, v))
        | '+' :: r => (getIntParam r true).map (fun v => (PokeOp.add, v))
        | _ => (getIntParam val true).map (fun v => (PokeOp.set, v))
      match opv with
      | none => .error .badValue
      | some (op, value) =>
        -- `addr.split('-', 2)`
        let parts : List (List Char) :=
          match splitFirst '-' addr with
          | none => [addr]
          | some (a, r) =>
            match splitFirst '-' r with
            | none => [a, r]
            | some (b, c) => [a, b, c]
        match parts.mapM (fun p => getIntParam p true) with
        | some [a] => .ok ⟨page, a, a, 1, op, value⟩
        | some [a, b] => .ok ⟨page, a, b, 1, op, value⟩
        | some [a, b, c] => .ok ⟨page, a, b, c, op, value⟩
        | _ => .error .badRange

/-- The part of `move` before the memory is touched. -/
def parseMove (spec : List Char) : Except Err MoveSpec :=
  match splitFirst ',' spec with
  | none => .error .fewArgs
  | some (src, r) =>
    match splitFirst ',' r with
    | none => .error .fewArgs
    | some (length, dest) =>
      match getPage src none with
      | .error e => .error e
      | .ok (srcPage, src) =>
        match getPage dest srcPage with
        | .error e => .error e
        | .ok (destPage, dest) =>
          match getIntParam src true, getIntParam length true, getIntParam dest true with
          | some s, some n, some d => .ok ⟨srcPage, destPage, s, n, d⟩
          | _, _, _ => .error .badInt

/-- The part of `patch` before the file is read. -/
def parsePatch (spec : List Char) : Except Err PatchSpec :=
  match splitFirst ',' spec with
  | none => .error .noFile
  | some (addr, fname) =>
    match getPage addr none with
    | .error e => .error e
    | .ok (page, addr) =>
      match getIntParam addr true with
      | some a => .ok ⟨page, a, fname⟩
      | none => .error .badAddr

/-! ### The loops on one Python list -/

/-- `for i in idxs: l[i] = f(l[i])` -/
def pokeList (f : Nat → Nat) : List Nat → List Nat → Except Err (List Nat)
  | [], l => .ok l
  | i :: is, l =>
    if h : i < l.length then pokeList f is (l.set i (f l[i])) else .error .index

/-! ### (a) flat list: `hasattr(snapshot, 'banks')` is false -/

def pokeFlat (l : List Nat) (s : PokeSpec) : Except Err (List Nat) :=
  match s.page with
  | none =>
    if s.step = 0 then .error .stepZero
    else pokeList (pokeF s.op s.value) (pyRange s.addr1 (s.addr2 + 1) s.step) l
  | some _ => .ok l

def moveFlat (l : List Nat) (s : MoveSpec) : List Nat :=
  match s.srcPage with
  | none => pySliceSet l s.dest (s.dest + s.length) (pySlice l s.src (s.src + s.length))
  | some _ => l

/-- `data` is the content of the patch file; `read_bin_file(fname, 0xC000)` keeps 49152 bytes. -/
def patchFlat (l : List Nat) (s : PatchSpec) (data : List Nat) : List Nat :=
  let data := data.take 49152
  match s.page with
  | none => pySliceSet l s.addr (s.addr + data.length) data
  | some _ => l

/-! ### (b) `Memory` -/

/-- A `Memory` object.  `rom` is `memory[0]` (a scratch list of zeros that is written to but never
saved), `banks` is `self.banks`; `memory[1]`, `memory[2]`, `memory[3]` *are* the list objects
`banks[s1]`, `banks[s2]`, `banks[s3]` (`Memory(banks=…, page=p)`: 5, 2, p; `page=None`: 5, 1, 2).
A `Memory` built from a flat 64K list (`banks = [None]*8`, private windows) is represented with the
three windows at indices 8, 9, 10, which `page % 8` cannot reach. -/
structure Mem where
  rom : List Nat
  banks : List (Option (List Nat))
  s1 : Nat
  s2 : Nat
  s3 : Nat
  deriving DecidableEq, Repr

/-- A list object reachable from a `Memory`. -/
inductive Obj | rom | bank (k : Nat)
  deriving DecidableEq, Repr

/-- `self.memory[q]` as an object name (`none`: IndexError). -/
def Mem.slot (m : Mem) (q : Nat) : Option Obj :=
  match q with
  | 0 => some .rom
  | 1 => some (.bank m.s1)
  | 2 => some (.bank m.s2)
  | 3 => some (.bank m.s3)
  | _ => none

/-- The list behind an object name (`none`: Python `None`). -/
def Mem.obj (m : Mem) : Obj → Option (List Nat)
  | .rom => some m.rom
  | .bank k => match m.banks[k]? with
    | some (some l) => some l
    | _ => none

def Mem.setObj (m : Mem) (o : Obj) (l : List Nat) : Mem :=
  match o with
  | .rom => { m with rom := l }
  | .bank k => { m with banks := m.banks.set k (some l) }

/-- `Memory.__getitem__(int)` -/
def Mem.get (m : Mem) (a : Nat) : Except Err Nat :=
  match m.slot (a / 0x4000) with
  | none => .error .index
  | some o =>
    match m.obj o with
    | none => .error .type
    | some l => if h : a % 0x4000 < l.length then .ok l[a % 0x4000] else .error .index

/-- `Memory.__setitem__(int, value)` -/
def Mem.set (m : Mem) (a v : Nat) : Except Err Mem :=
  match m.slot (a / 0x4000) with
  | none => .error .index
  | some o =>
    match m.obj o with
    | none => .error .type
    | some l => if a % 0x4000 < l.length then .ok (m.setObj o (l.set (a % 0x4000) v)) else .error .index

/-- `[self.memory[a // 0x4000][a % 0x4000] for a in addrs]` -/
def Mem.getAll (m : Mem) : List Nat → Except Err (List Nat)
  | [] => .ok []
  | a :: as =>
    match m.get a with
    | .error e => .error e
    | .ok v => match m.getAll as with
      | .error e => .error e
      | .ok vs => .ok (v :: vs)

/-- `Memory.__getitem__(slice(start, stop))` -/
def Mem.getSlice (m : Mem) (start stop : Nat) : Except Err (List Nat) :=
  m.getAll (upto start (min stop 0x10000))

/-- `for a, b in zip(addrs, values): self.memory[a // 0x4000][a % 0x4000] = b` -/
def Mem.setAll (m : Mem) : List Nat → List Nat → Except Err Mem
  | a :: as, v :: vs =>
    match m.set a v with
    | .error e => .error e
    | .ok m' => m'.setAll as vs
  | _, _ => .ok m

/-- `Memory.__setitem__(slice(start, stop), value)` -/
def Mem.setSlice (m : Mem) (start stop : Nat) (value : List Nat) : Except Err Mem :=
  m.setAll (upto start stop) value

/-- `for a in addrs: snapshot[a] = poke_f(snapshot[a])` -/
def Mem.pokeAll (f : Nat → Nat) (m : Mem) : List Nat → Except Err Mem
  | [] => .ok m
  | a :: as =>
    match m.get a with
    | .error e => .error e
    | .ok b => match m.set a (f b) with
      | .error e => .error e
      | .ok m' => Mem.pokeAll f m' as

/-- `poke(snapshot, param_str)` on a `Memory`, after parsing. -/
def pokeMem (m : Mem) (s : PokeSpec) : Except Err Mem :=
  match s.page with
  | none =>
    if s.step = 0 then .error .stepZero
    else Mem.pokeAll (pokeF s.op s.value) m (pyRange s.addr1 (s.addr2 + 1) s.step)
  | some p =>
    match m.banks[p % 8]? with
    | none => .error .index
    | some none => .ok m                     -- `if bank:` (None)
    | some (some bank) =>
      if bank = [] then .ok m                -- `if bank:` (empty list)
      else if s.step = 0 then .error .stepZero
      else
        match pokeList (pokeF s.op s.value)
            ((pyRange s.addr1 (s.addr2 + 1) s.step).map (· % 0x4000)) bank with
        | .error e => .error e
        | .ok bank' => .ok (m.setObj (.bank (p % 8)) bank')

/-- `length = min(length, 0x4000 - s, 0x4000 - d)`: a bank-prefixed block ends with its bank. -/
def moveLen (s : MoveSpec) : Nat :=
  min s.length (min (0x4000 - s.src % 0x4000) (0x4000 - s.dest % 0x4000))

/-- `move(snapshot, param_str)` on a `Memory`, after parsing. -/
def moveMem (m : Mem) (s : MoveSpec) : Except Err Mem :=
  match s.srcPage with
  | none =>
    match m.getSlice s.src (s.src + s.length) with
    | .error e => .error e
    | .ok vals => m.setSlice s.dest (s.dest + s.length) vals
  | some sp =>
    match m.banks[sp % 8]? with
    | none => .error .index
    | some srcBank =>
      match s.destPage with
      | none => .error .type                 -- `None % 8`; unreachable after `parseMove`
      | some dp =>
        match m.banks[dp % 8]? with
        | none => .error .index
        | some destBank =>
          match srcBank, destBank with
          | some sb, some db =>
            if sb = [] ∨ db = [] then .ok m  -- `if src_bank and dest_bank:`
            else
              let s0 := s.src % 0x4000
              let d0 := s.dest % 0x4000
              let n := moveLen s
              .ok (m.setObj (.bank (dp % 8)) (pySliceSet db d0 (d0 + n) (pySlice sb s0 (s0 + n))))
          | _, _ => .ok m

/-- `patch(snapshot, spec)` on a `Memory`, after parsing and reading the file. -/
def patchMem (m : Mem) (s : PatchSpec) (data : List Nat) : Except Err Mem :=
  let data := data.take 49152
  match s.page with
  | none => m.setSlice s.addr (s.addr + data.length) data
  | some p =>
    match m.banks[p % 8]? with
    | none => .error .index
    | some none => .error .type              -- no `if bank:` guard here: `None[dest:dest+size] = …`
    | some (some bank) =>
      let dest := s.addr % 0x4000
      let size := min (0x4000 - dest) data.length
      .ok (m.setObj (.bank (p % 8)) (pySliceSet bank dest (dest + size) (data.take size)))

/-! ### Constructors used by the tools -/

/-- `Memory(banks=banks, page=page)` with `page` given (SZX, SNA, Z80 128K, Z80 v1). -/
def Mem.ofBanksPage (rom : List Nat) (banks : List (Option (List Nat))) (page : Nat) : Mem :=
  ⟨rom, banks, 5, 2, page⟩

/-- `Memory(banks=banks)` with `page=None` (Z80 v2/v3 48K: pages 4, 5, 8 are "banks" 1, 2, 5). -/
def Mem.ofBanks48 (rom : List Nat) (banks : List (Option (List Nat))) : Mem :=
  ⟨rom, banks, 5, 1, 2⟩

/-- `Memory(snapshot)` for a flat 64K list (bin2sna without `--page`). -/
def Mem.ofFlat (rom w1 w2 w3 : List Nat) : Mem :=
  ⟨rom, List.replicate 8 none ++ [some w1, some w2, some w3], 8, 9, 10⟩

/-- Observation used by the theorems: cell `j` of object `o` (`none`: no such cell). -/
def Mem.cell (m : Mem) (o : Obj) (j : Nat) : Option Nat :=
  match m.obj o with
  | some l => l[j]?
  | none => none

/-- Where flat address `a` lives. -/
def Mem.loc (m : Mem) (a : Nat) : Option (Obj × Nat) :=
  (m.slot (a / 0x4000)).map (fun o => (o, a % 0x4000))

end SnapEdit
