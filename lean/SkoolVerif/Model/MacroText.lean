/-
Text utilities for the skool-macro model (C17).  Text is `List Char`; each
function mirrors one Python `str` method as used by skoolkit/skoolmacro.py.
No imports: also used by the line-protocol driver.
-/
namespace MacroText

abbrev Text := List Char

def ofString (s : String) : Text := s.toList

/-- Python's `str.isspace` for one character (all 29 Unicode code points). -/
def isSpace (c : Char) : Bool :=
  let n := c.toNat
  (9 ≤ n && n ≤ 13) || (28 ≤ n && n ≤ 32) || n = 0x85 || n = 0xA0 || n = 0x1680 ||
  (0x2000 ≤ n && n ≤ 0x200A) || n = 0x2028 || n = 0x2029 || n = 0x202F || n = 0x205F || n = 0x3000

def isDigit (c : Char) : Bool := '0' ≤ c && c ≤ '9'
def isUpper (c : Char) : Bool := 'A' ≤ c && c ≤ 'Z'
def isLower (c : Char) : Bool := 'a' ≤ c && c ≤ 'z'
def isAlpha (c : Char) : Bool := isUpper c || isLower c
def isAlnum (c : Char) : Bool := isAlpha c || isDigit c
def isHexDigit (c : Char) : Bool :=
  isDigit c || ('a' ≤ c && c ≤ 'f') || ('A' ≤ c && c ≤ 'F')
def isAscii (c : Char) : Bool := c.toNat < 128

def dropSpaces : Text → Text
  | [] => []
  | c :: t => if isSpace c then dropSpaces t else c :: t

/-- `str.lstrip()` -/
def lstrip (s : Text) : Text := dropSpaces s
/-- `str.rstrip()` -/
def rstrip (s : Text) : Text := (dropSpaces s.reverse).reverse
/-- `str.strip()` -/
def strip (s : Text) : Text := rstrip (lstrip s)

/-- `s.startswith(p)` -/
def startsWith (p s : Text) : Bool := p.isPrefixOf s

/-- `s.find(pat)` : index of the first occurrence, `none` for -1. -/
def find (pat : Text) : Text → Option Nat
  | [] => if pat.isEmpty then some 0 else none
  | c :: t => if pat.isPrefixOf (c :: t) then some 0 else (find pat t).map (· + 1)

/-- `pat in s` -/
def contains (pat s : Text) : Bool := (find pat s).isSome

/-- `s.split(c)` for a one-character separator: always at least one piece. -/
def splitChar (sep : Char) : Text → List Text
  | [] => [[]]
  | c :: t =>
    if c = sep then [] :: splitChar sep t
    else match splitChar sep t with
      | [] => [[c]]            -- unreachable
      | p :: ps => (c :: p) :: ps

/-- `s.partition(c)`: `(before, found, after)`. -/
def partitionChar (sep : Char) : Text → Text × Bool × Text
  | [] => ([], false, [])
  | c :: t =>
    if c = sep then ([], true, t)
    else let (a, f, b) := partitionChar sep t; (c :: a, f, b)

/-- Worker for `replace` with a non-empty `old`: `skip` characters of a
match that was just replaced are still to be dropped. -/
def replaceGo (old new : Text) : Nat → Text → Text
  | _, [] => []
  | skip + 1, _ :: t => replaceGo old new skip t
  | 0, c :: t =>
    if old.isPrefixOf (c :: t) then new ++ replaceGo old new (old.length - 1) t
    else c :: replaceGo old new 0 t

/-- Python `s.replace(old, new)`, including the empty-`old` behaviour
(`'ab'.replace('', 'x') == 'xaxbx'`). -/
def replace (old new s : Text) : Text :=
  if old.isEmpty then new ++ s.flatMap (fun c => c :: new)
  else replaceGo old new 0 s

/-- `sep.join(parts)` -/
def join (sep : Text) : List Text → Text
  | [] => []
  | [p] => p
  | p :: q :: ps => p ++ sep ++ join sep (q :: ps)

/-- ASCII `str.lower()` / `str.upper()`. -/
def lowerC (c : Char) : Char := if isUpper c then Char.ofNat (c.toNat + 32) else c
def upperC (c : Char) : Char := if isLower c then Char.ofNat (c.toNat - 32) else c
def lower (s : Text) : Text := s.map lowerC
def upper (s : Text) : Text := s.map upperC

/-- Decimal digits of a natural number (`str(n)`), most significant first.
`fuel` bounds the number of digits; `natDigits b n` uses `n + 1`. -/
def digitChar (d : Nat) (lowerCase : Bool) : Char :=
  if d < 10 then Char.ofNat (48 + d)
  else if lowerCase then Char.ofNat (87 + d) else Char.ofNat (55 + d)

def natDigitsAux (b : Nat) (lc : Bool) : Nat → Nat → Text → Text
  | 0, _, acc => acc
  | fuel + 1, n, acc =>
    if n < b then digitChar n lc :: acc
    else natDigitsAux b lc fuel (n / b) (digitChar (n % b) lc :: acc)

/-- Digits of `n` in base `b` (2 ≤ b ≤ 16), no padding. -/
def natDigits (b : Nat) (lc : Bool) (n : Nat) : Text := natDigitsAux b lc (n + 1) n []

/-- `str(n)` for a Python int. -/
def intStr (n : Int) : Text :=
  if n < 0 then '-' :: natDigits 10 false n.natAbs else natDigits 10 false n.natAbs

end MacroText
