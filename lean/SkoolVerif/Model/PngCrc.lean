/-
Hand model of the PNG container code in skoolkit/pngwriter.py:
  `PngWriter._create_crc_table`, `_get_crc`, `_to_bytes`, `_write_chunk`,
  `_write_img_data_chunk`, `_write_ihdr_chunk`, `_write_plte_chunk`,
  `_write_fctl_chunk`, `_get_bit_depth`, the literal chunks `ACTL_CHUNK` /
  `IEND_CHUNK`, and the chunk sequence emitted by `PngWriter.write_image`
  (the zlib streams are opaque byte lists here).  Bytes are `Nat`s.
  No imports: this file is also used by the line-protocol driver.
-/
namespace PngCrc

/-- The reflected CRC-32 polynomial, `3988292384` in `_create_crc_table`. -/
def POLY : Nat := 3988292384

/-- `CRC_MASK` -/
def CRC_MASK : Nat := 4294967295

/-- Body of `for k in range(8)` in `_create_crc_table`. -/
def shiftStep (c : Nat) : Nat :=
  if c &&& 1 ≠ 0 then POLY ^^^ (c >>> 1) else c >>> 1

/-- `k` iterations of the inner loop. -/
def shiftN : Nat → Nat → Nat
  | 0, c => c
  | k + 1, c => shiftN k (shiftStep c)

/-- Entry `i` of `self.crc_table`. -/
def tableEntry (i : Nat) : Nat := shiftN 8 i

/-- `self.crc_table` (256 entries). -/
def crcTable : Array Nat := Array.ofFn (n := 256) (fun i => tableEntry i.val)

/-- One iteration of the loop in `_get_crc`:
`crc = self.crc_table[(crc ^ b) & 255] ^ (crc >> 8)`. -/
def crcStep (crc b : Nat) : Nat :=
  crcTable[(crc ^^^ b) &&& 255]! ^^^ (crc >>> 8)

/-- `_to_bytes(num)`; note that the first byte is not masked. -/
def toBytes (num : Nat) : List Nat :=
  [num >>> 24, (num >>> 16) &&& 255, (num >>> 8) &&& 255, num &&& 255]

/-- The running CRC register after the loop of `_get_crc`. -/
def crcReg (bytes : List Nat) : Nat := bytes.foldl crcStep CRC_MASK

/-- `_get_crc(byte_list)` -/
def getCrc (bytes : List Nat) : List Nat := toBytes (crcReg bytes ^^^ CRC_MASK)

/-- `_write_chunk(img_file, chunk_data)` / `_write_img_data_chunk`: the bytes
written for a chunk whose type and payload are `data` (type = first four
bytes).  `len(chunk_data) - 4` is never negative in the real code because
the type is always present. -/
def chunk (data : List Nat) : List Nat :=
  toBytes (data.length - 4) ++ data ++ getCrc data

def PNG_SIGNATURE : List Nat := [137, 80, 78, 71, 13, 10, 26, 10]
def IHDR : List Nat := [73, 72, 68, 82]
def PLTE : List Nat := [80, 76, 84, 69]
def TRNS : List Nat := [116, 82, 78, 83]
def ACTL : List Nat := [97, 99, 84, 76]
def FCTL : List Nat := [102, 99, 84, 76]
def IDAT : List Nat := [73, 68, 65, 84]
def FDAT : List Nat := [102, 100, 65, 84]
def IEND : List Nat := [73, 69, 78, 68]
/-- The literal `ACTL_CHUNK` (length, type, num_frames = 2, num_plays = 0 and a
pre-computed CRC). -/
def ACTL_CHUNK : List Nat := [0, 0, 0, 8, 97, 99, 84, 76, 0, 0, 0, 2, 0, 0, 0, 0, 243, 141, 147, 112]
/-- The literal `IEND_CHUNK` with its pre-computed CRC. -/
def IEND_CHUNK : List Nat := [0, 0, 0, 0, 73, 69, 78, 68, 174, 66, 96, 130]
/-- `FDAT2`: the fdAT type followed by sequence number 2. -/
def FDAT2 : List Nat := [102, 100, 65, 84, 0, 0, 0, 2]

/-- Chunk data built by `_write_ihdr_chunk`. -/
def ihdrData (width height bitDepth : Nat) : List Nat :=
  IHDR ++ toBytes width ++ toBytes height ++ [bitDepth, 3] ++ [0, 0, 0]

/-- Chunk data built by `_write_plte_chunk`. -/
def plteData (palette : List Nat) : List Nat := PLTE ++ palette

/-- Chunk data built by `_write_fctl_chunk`. -/
def fctlData (seq delay width height xOff yOff : Nat) : List Nat :=
  FCTL ++ toBytes seq ++ toBytes width ++ toBytes height ++ toBytes xOff ++ toBytes yOff
    ++ [delay / 256, delay % 256] ++ [0, 100] ++ [0] ++ [0]

/-- `_get_bit_depth(palette)`: `(bit_depth, palette_size)`. -/
def getBitDepth (palette : List Nat) : Nat × Nat :=
  let paletteSize := palette.length / 3
  let bitDepth := if paletteSize > 4 then 4 else if paletteSize > 2 then 2 else 1
  (bitDepth, paletteSize)

/-- What `write_image` needs to know about a frame: `width`, `height`,
`delay`, `x_offset`, `y_offset` and its compressed image data. -/
structure FrameInfo where
  width : Nat
  height : Nat
  delay : Nat
  xOff : Nat
  yOff : Nat
  data : List Nat
  deriving Repr

/-- Loop `for frame in frames[1:]` of `write_image`; `seq` is `seq_num`. -/
def restFrames : Nat → List FrameInfo → List (List Nat)
  | _, [] => []
  | seq, f :: fs =>
    fctlData (seq + 1) f.delay f.width f.height f.xOff f.yOff
      :: (FDAT ++ toBytes (seq + 2) ++ f.data)
      :: restFrames (seq + 2) fs

/-- What `write_image` writes: either a literal byte string
(`img_file.write(ACTL_CHUNK)`) or a chunk built by `_write_chunk` /
`_write_img_data_chunk` from `type ++ payload`. -/
inductive Piece
  | lit (bytes : List Nat)
  | ch (data : List Nat)
  deriving Repr

def Piece.bytes : Piece → List Nat
  | .lit b => b
  | .ch d => chunk d

/-- `alpha` in `write_image`: `self.alpha` if `frame1.alpha < 0` (`none`), else
`frame1.alpha & 255`. -/
def effAlpha (alpha1 : Option Nat) (walpha : Nat) : Nat :=
  match alpha1 with
  | none => walpha
  | some a => a &&& 255

/-- The pieces `write_image` emits after the signature, in order.  `alpha1`
is `frame1.alpha` (`none` when negative), `walpha` is `self.alpha`; `flash`
is `flash_rect` together with frame 2's image data. -/
def imagePieces (f1 : FrameInfo) (rest : List FrameInfo) (palette : List Nat)
    (hasTrans : Bool) (alpha1 : Option Nat) (walpha : Nat)
    (flash : Option (Nat × Nat × Nat × Nat × List Nat)) : List Piece :=
  let bitDepth := (getBitDepth palette).1
  let nframes := 1 + rest.length
  let alpha := effAlpha alpha1 walpha
  let trns := if hasTrans && alpha != 255 then [Piece.ch (TRNS ++ [alpha])] else []
  let actl :=
    if nframes == 1 && flash.isSome then [Piece.lit ACTL_CHUNK]
    else if nframes > 1 then [Piece.ch (ACTL ++ [0, 0, 0, nframes, 0, 0, 0, 0])]
    else []
  let fctl1 :=
    if nframes > 1 || flash.isSome then [Piece.ch (fctlData 0 f1.delay f1.width f1.height 0 0)] else []
  let frame2 := match flash with
    | some (fx, fy, fw, fh, data2) =>
      if nframes == 1 then [Piece.ch (fctlData 1 f1.delay fw fh fx fy), Piece.ch (FDAT2 ++ data2)] else []
    | none => []
  [Piece.ch (ihdrData f1.width f1.height bitDepth), Piece.ch (plteData palette)] ++ trns ++ actl ++ fctl1
    ++ [Piece.ch (IDAT ++ f1.data)] ++ frame2 ++ (restFrames 0 rest).map Piece.ch
    ++ [Piece.lit IEND_CHUNK]

/-- All bytes written by `write_image`. -/
def writeImage (f1 : FrameInfo) (rest : List FrameInfo) (palette : List Nat)
    (hasTrans : Bool) (alpha1 : Option Nat) (walpha : Nat)
    (flash : Option (Nat × Nat × Nat × Nat × List Nat)) : List Nat :=
  PNG_SIGNATURE ++ (imagePieces f1 rest palette hasTrans alpha1 walpha flash).flatMap Piece.bytes

end PngCrc
