/-
Hand model of the operand-text layer of the DISASSEMBLER
(skoolkit/disassembler.py): `OperandFormatter._num_str` / `format_byte` /
`format_word` / `is_char`, `Disassembler.get_message`, `defb_items`,
`index_offset`, `jr_arg` (target computation), `_defw_lines` (item list) and
`defs_range` (item list).

Text is a list of code points (`Nat`), not `String`: every function below is
total, structurally recursive (or fuelled) and kernel-evaluable.  No imports:
this file is also used by the line-protocol driver.
-/
namespace OpText

abbrev Txt := List Nat

/-! ### digits -/

/-- One digit of `format(v, 'X')` / `'x'` / `'d'` / `'b'`. -/
def digitChar (upper : Bool) (d : Nat) : Nat :=
  if d < 10 then 48 + d else (if upper then 55 else 87) + d

/-- Little-endian digits of `n` in base `b` (fuel = any bound `> log_b n`;
`n + 1` is always enough). -/
def digitsLE (b : Nat) : Nat → Nat → List Nat
  | 0, _ => []
  | fuel + 1, n => if n < b then [n] else (n % b) :: digitsLE b fuel (n / b)

/-- Big-endian digits (most significant first); `toDigits b 0 = [0]`. -/
def toDigits (b n : Nat) : List Nat := (digitsLE b (n + 1) n).reverse

/-- Python zero padding to a minimum width. -/
def padLeft (w : Nat) (l : List Nat) : List Nat := List.replicate (w - l.length) 0 ++ l

/-- `'{:0<w>d|b|X|x}'.format(v)` for a Python int `v` (sign-aware zero
padding: the `-` counts towards the width). -/
def fmtInt (b w : Nat) (upper : Bool) (v : Int) : Txt :=
  if v < 0 then 45 :: (padLeft (w - 1) (toDigits b v.natAbs)).map (digitChar upper)
  else (padLeft w (toDigits b v.natAbs)).map (digitChar upper)

/-! ### `OperandFormatter` -/

/-- Base indicator (`ctlparser.BASES`); `n` is `DEFAULT_BASE`. -/
inductive Base | b | c | d | h | m | n
  deriving DecidableEq, Repr

/-- `config.asm_hex`, `config.asm_lower`. -/
structure Cfg where
  hex : Bool
  lower : Bool
  deriving DecidableEq, Repr

/-- `'${:02X}'` / `'${:04X}'` (lower-case digits when `asm_lower`). -/
def hexFmt (cfg : Cfg) (word : Bool) (v : Int) : Txt :=
  36 :: fmtInt 16 (if word then 4 else 2) (!cfg.lower) v

/-- `self.byte_formats[base].format(v)` (`word = false`) and
`self.word_formats[base].format(v)` (`word = true`) after `__init__` has
patched the tables for `asm_hex` / `asm_lower`.  `base` is never `c` here. -/
def fmtNum (cfg : Cfg) (base : Base) (word : Bool) (v : Int) : Txt :=
  match base with
  | .b => 37 :: fmtInt 2 (if word then 16 else 8) true v
  | .d => fmtInt 10 0 true v
  | .h => hexFmt cfg word v
  | .m => 45 :: (if cfg.hex then hexFmt cfg word v else fmtInt 10 0 true v)
  | .n | .c => if cfg.hex then hexFmt cfg word v else fmtInt 10 0 true v

/-- `OperandFormatter.is_char`. -/
def isChar (v : Nat) : Bool := 32 ≤ v && v < 127 && v != 94 && v != 96

/-- Tail of `_num_str` after the `'c'` branch (base ≠ c). -/
def numStrNC (cfg : Cfg) (value nbytes : Nat) (base : Base) : Txt :=
  let v : Int :=
    if base = .m ∧ value ≠ 0 then
      (if nbytes = 1 then 256 else 65536) - (value : Int)
    else value
  fmtNum cfg base (decide (v > 255) || decide (nbytes > 1)) v

/-- `OperandFormatter._num_str(value, num_bytes, base)`. -/
def numStr (cfg : Cfg) (value nbytes : Nat) (base : Base) : Txt :=
  if base = .c then
    if value < 256 ∧ isChar (value % 128) = true then
      let suffix : Txt := if value ≥ 128 then 43 :: numStrNC cfg 128 1 .n else []
      let ch := value % 128
      if ch = 34 ∨ ch = 92 then [34, 92, ch, 34] ++ suffix
      else [34, ch, 34] ++ suffix
    else numStrNC cfg value nbytes .n
  else numStrNC cfg value nbytes base

/-- `format_byte(value, base)`. -/
def formatByte (cfg : Cfg) (value : Nat) (base : Base) : Txt := numStr cfg value 1 base
/-- `format_word(value, base)`. -/
def formatWord (cfg : Cfg) (value : Nat) (base : Base) : Txt := numStr cfg value 2 base

/-! ### `Disassembler` operand helpers -/

/-- `index_offset`: the text between `(IX` and `)`. -/
def indexOffset (cfg : Cfg) (i : Nat) (base : Base) : Txt :=
  if i < 128 then 43 :: formatByte cfg i base
  else 45 :: formatByte cfg (256 - i) base

/-- `jr_arg`: the jump target, or `none` when it falls outside 0..65535 (the
instruction is then rendered as a two-byte DEFB). -/
def jrTarget (a offset : Nat) : Option Nat :=
  let address : Int := if offset < 128 then (a : Int) + 2 + offset else (a : Int) + offset - 254
  if 0 ≤ address ∧ address < 65536 then some address.toNat else none

/-- Loop state of `get_message`: finished items (in order) and the currently
open quoted item (without its closing quote), if any. -/
structure MsgSt where
  done : List Txt
  cur : Option Txt

/-- One iteration of `for b in data:` in `get_message`. -/
def msgStep (cfg : Cfg) (s : MsgSt) (b : Nat) : MsgSt :=
  if isChar b then
    let ch : Txt := if b = 34 ∨ b = 92 then [92, b] else [b]
    match s.cur with
    | some q => { s with cur := some (q ++ ch) }
    | none => { s with cur := some (34 :: ch) }
  else
    match s.cur with
    | some q => { done := s.done ++ [q ++ [34], formatByte cfg b .n], cur := none }
    | none => { done := s.done ++ [formatByte cfg b .n], cur := none }

/-- `get_message(data)` as the list of comma-separated items (Python joins
them with `','`).  `data` is non-empty in every call the disassembler makes. -/
def getMessage (cfg : Cfg) (data : List Nat) : List Txt :=
  let s := data.foldl (msgStep cfg) { done := [], cur := none }
  match s.cur with
  | some q => s.done ++ [q ++ [34]]
  | none => s.done

/-- `defb_items(data, sublengths)` as the list of items; `total` is
`len(data)` of the whole statement (a sublength size of 0 is replaced by it),
the second argument is `data[i:]`. -/
def defbItemsAux (cfg : Cfg) (total : Nat) : List Nat → List (Nat × Base) → List Txt
  | _, [] => []
  | data, (size, base) :: subs =>
    let size := if size = 0 then total else size
    let chunk := data.take size
    let items := if base = .c ∧ size > 1 then getMessage cfg chunk
                 else chunk.map (fun b => formatByte cfg b base)
    items ++ defbItemsAux cfg total (data.drop size) subs

def defbItems (cfg : Cfg) (data : List Nat) (subs : List (Nat × Base)) : List Txt :=
  defbItemsAux cfg data.length data subs

/-- `sep.join(items)`. -/
def joinSep (sep : Nat) : List Txt → Txt
  | [] => []
  | [x] => x
  | x :: y :: rest => x ++ sep :: joinSep sep (y :: rest)

/-- `'DEFB '`, `'DEFM '`, `'DEFS '`, `'DEFW '` (lower-cased with `asm_lower`). -/
def directive (cfg : Cfg) (third : Nat) : Txt :=
  if cfg.lower then [100, 101, 102, third + 32, 32] else [68, 69, 70, third, 32]

/-- `defb_dir(data, sublengths, defm)`. -/
def defbDir (cfg : Cfg) (defm : Bool) (data : List Nat) (subs : List (Nat × Base)) : Txt :=
  directive cfg (if defm then 77 else 66) ++ joinSep 44 (defbItems cfg data subs)

/-- Words of an even-length byte list (little endian). -/
def wordsOf : List Nat → List Nat
  | lo :: hi :: rest => (lo + 256 * hi) :: wordsOf rest
  | _ => []

/-- The DEFW statement `_defw_lines` emits for an even-length chunk rendered
in one base. -/
def defwDir (cfg : Cfg) (data : List Nat) (base : Base) : Txt :=
  directive cfg 87 ++ joinSep 44 ((wordsOf data).map (fun w => formatWord cfg w base))

/-- The DEFS statement `defs_range` emits for `count` copies of `value`:
`sizeBase` renders the size, `valBase` (if a second sublength was given) the
value; without it a non-zero value is rendered in the default base. -/
def defsDir (cfg : Cfg) (count value : Nat) (sizeBase : Base) (valBase : Option Base) : Txt :=
  let items := [formatByte cfg count sizeBase] ++
    (match valBase with
     | some vb => [formatByte cfg value vb]
     | none => if value ≠ 0 then [formatByte cfg value .n] else [])
  directive cfg 83 ++ joinSep 44 items

end OpText
