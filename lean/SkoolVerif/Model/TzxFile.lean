import SkoolVerif.Model.TapeFiles
/-
Hand model of the TZX reader in skoolkit/tape.py: `parse_tzx` and `_get_tzx_block`
on the path that feeds `get_edges` (`info=False, timings=True`, as called by tap2sna and
`tapinfo -a`).  The `info` text is not modelled.

As in `TapeFiles`, the model walks the suffix `data[i:]`.  Exceptions are results:
`IndexError` (truncated file), `SkoolKitError` for a bad signature, a missing version
number or an unknown block ID.
-/
namespace TzxFile
open Edges TapeFiles

inductive TzxErr | index | notTzx | noVersion | unknownId (id : Nat)
  deriving DecidableEq, Repr

/-- What `_get_tzx_block` returns, minus the text.  `unsupported` stands for
`timings.error` being set (blocks 0x16-0x19). -/
structure TzxBlock where
  id : Nat
  tapeData : Option (List Nat)
  timings : Option Timings
  unsupported : Bool
  standard : Bool
  blockData : Option (List Nat)
  deriving DecidableEq, Repr

def byte? (l : List Nat) (k : Nat) : Except TzxErr Nat :=
  match l[k]? with
  | some a => .ok a
  | none => .error .index

def w? (l : List Nat) (k : Nat) : Except TzxErr Nat :=
  match l[k]?, l[k + 1]? with
  | some a, some b => .ok (a + 256 * b)
  | _, _ => .error .index

def w3? (l : List Nat) (k : Nat) : Except TzxErr Nat :=
  match l[k]?, l[k + 1]?, l[k + 2]? with
  | some a, some b, some c => .ok (a + 256 * b + 65536 * c)
  | _, _, _ => .error .index

def dw? (l : List Nat) (k : Nat) : Except TzxErr Nat :=
  match l[k]?, l[k + 1]?, l[k + 2]?, l[k + 3]? with
  | some a, some b, some c, some d => .ok (a + 256 * b + 65536 * c + 16777216 * d)
  | _, _, _, _ => .error .index

/-- The sample bits of a direct-recording block in the order the loop visits them:
`for j, b in enumerate(data[i+8:i+8+num_bytes], 1)`, 8 bits if `j < num_bytes` else `used_bits`. -/
def drBits (usedBits numBytes : Nat) : Nat → List Nat → List Bool
  | _, [] => []
  | j, b :: rest =>
    let n := if j < numBytes then 8 else usedBits
    ((List.range n).map fun k => (b * 2 ^ k).testBit 7) ++ drBits usedBits numBytes (j + 1) rest

/-- The run-length loop of block 0x15: state `(prev_bit, bit_count, pulses)`. -/
def drRuns (tps : Nat) : Bool → Nat → List Bool → List (Nat × Nat)
  | _, count, [] => [(1, count * tps)]                       -- `pulses.append((1, bit_count * tps))`
  | prev, count, bit :: rest =>
    if bit = prev then drRuns tps prev (count + 1) rest
    else (1, count * tps) :: drRuns tps bit 1 rest

/-- The pulses of a direct recording: a zero-length pulse first if the first sample is high. -/
def drPulses (tps : Nat) (first : Bool) (bits : List Bool) : List (Nat × Nat) :=
  (if first then [(1, 0)] else []) ++ drRuns tps first 0 bits

def mk (id : Nat) (tapeData : Option (List Nat)) (timings : Option Timings) (unsupported := false)
    (standard := false) (blockData : Option (List Nat) := none) : TzxBlock :=
  ⟨id, tapeData, timings, unsupported, standard, blockData⟩

/-- `_get_tzx_block(data, i, block_num, get_info=False, get_timings=True)` on `rest = data[i:]`
(non-empty): returns `(data[new_i:], block)`. -/
def getTzxBlock (rest : List Nat) : Except TzxErr (List Nat × TzxBlock) :=
  match rest with
  | [] => .error .index
  | id :: body =>
    if id = 0x10 then do
      let pause ← w? body 0
      let length ← w? body 2
      let tapeData := (body.drop 4).take length
      let timings := match tapeData with
        | [] => none
        | b :: _ => some (romTimings b (pause * 3500))
      pure (body.drop (4 + length), mk id (some tapeData) timings false true)
    else if id = 0x11 then do
      let pilot ← w? body 0
      let sync1 ← w? body 2
      let sync2 ← w? body 4
      let zeroP ← w? body 6
      let oneP ← w? body 8
      let pilotLen ← w? body 10
      let usedBits ← byte? body 12
      let pause ← w? body 13
      let length ← w3? body 15
      let timings : Timings := { pulses := [(pilotLen, pilot), (1, sync1), (1, sync2)], zero := [zeroP, zeroP],
                                 one := [oneP, oneP], pause := pause * 3500, usedBits := usedBits }
      pure (body.drop (18 + length), mk id (some ((body.drop 18).take length)) (some timings))
    else if id = 0x12 then do
      let pulseLen ← w? body 0
      let numPulses ← w? body 2
      pure (body.drop 4, mk id none (some { pulses := [(numPulses, pulseLen)] }))
    else if id = 0x13 then do
      let numPulses ← byte? body 0
      let lens ← (List.range numPulses).mapM fun k => w? body (1 + 2 * k)
      pure (body.drop (1 + 2 * numPulses), mk id none (some { pulses := lens.map fun d => (1, d) }))
    else if id = 0x14 then do
      let zeroP ← w? body 0
      let oneP ← w? body 2
      let usedBits ← byte? body 4
      let pause ← w? body 5
      let length ← w3? body 7
      let timings : Timings := { zero := [zeroP, zeroP], one := [oneP, oneP], pause := pause * 3500, usedBits := usedBits }
      pure (body.drop (length + 10), mk id (some ((body.drop 10).take length)) (some timings))
    else if id = 0x15 then do
      let tps ← w? body 0
      let pause ← w? body 2
      let usedBits ← byte? body 4
      let numBytes ← w3? body 5
      let firstByte ← byte? body 8                           -- `data[i + 8] & 0x80`
      let bits := drBits usedBits numBytes 1 ((body.drop 8).take numBytes)
      let timings : Timings := { pulses := drPulses tps (firstByte.testBit 7) bits, pause := pause * 3500, isData := true }
      pure (body.drop (8 + numBytes), mk id (some []) (some timings))
    else if id = 0x16 ∨ id = 0x17 ∨ id = 0x18 ∨ id = 0x19 then do
      let n ← dw? body 0
      pure (body.drop (n + 4), mk id none (some {}) true)
    else if id = 0x20 then do
      let pause ← w? body 0
      pure (body.drop 2, mk id none (some { pause := pause * 3500 }))
    else if id = 0x21 then do
      let length ← byte? body 0
      pure (body.drop (length + 1), mk id none none)
    else if id = 0x22 ∨ id = 0x25 ∨ id = 0x27 then
      pure (body, mk id none none)
    else if id = 0x23 then do
      let _ ← w? body 0
      pure (body.drop 2, mk id none none)
    else if id = 0x24 then
      pure (body.drop 2, mk id none none false false (some (body.take 2)))
    else if id = 0x26 then do
      let n ← w? body 0
      pure (body.drop (n * 2 + 2), mk id none none)
    else if id = 0x28 ∨ id = 0x32 then do
      let n ← w? body 0
      pure (body.drop (n + 2), mk id none none)
    else if id = 0x2A then pure (body.drop 4, mk id none none)
    else if id = 0x2B then pure (body.drop 5, mk id none none)
    else if id = 0x30 then do
      let length ← byte? body 0
      pure (body.drop (length + 1), mk id none none)
    else if id = 0x31 then do
      let length ← byte? body 1
      pure (body.drop (length + 2), mk id none none)
    else if id = 0x33 then do
      let n ← byte? body 0
      pure (body.drop (n * 3 + 1), mk id none none)
    else if id = 0x34 then pure (body.drop 8, mk id none none)
    else if id = 0x35 then do
      let length ← dw? body 16
      pure (body.drop (length + 20), mk id none none)
    else if id = 0x40 then do
      let n ← w3? body 1
      pure (body.drop (n + 4), mk id none none)
    else if id = 0x5A then pure (body.drop 9, mk id none none)
    else .error (.unknownId id)

/-- The `while i < len(tzx)` loop of `parse_tzx`. -/
def tzxLoop (start stop : Int) (skip : List Nat) :
    Nat → List Nat → Nat → List (Nat × TzxBlock) → Except TzxErr (List (Nat × TzxBlock))
  | 0, _, _, acc => .ok acc
  | fuel + 1, rest, bn, acc =>
    if rest = [] then .ok acc
    else if (bn : Int) ≥ stop ∧ stop > 0 then .ok acc
    else
      match getTzxBlock rest with
      | .error e => .error e
      | .ok (next, blk) =>
        let acc' := if (bn : Int) ≥ start ∧ bn ∉ skip then acc ++ [(bn, blk)] else acc
        tzxLoop start stop skip fuel next (bn + 1) acc'

def tzxSignature : List Nat := [90, 88, 84, 97, 112, 101, 33, 26]        -- b'ZXTape!\x1a'

/-- `parse_tzx(tzx, start, stop, skip, info=False, timings=True)` → `[(block.number, block)]`. -/
def parseTzx (tzx : List Nat) (start : Int := 1) (stop : Int := 0) (skip : List Nat := []) :
    Except TzxErr (List (Nat × TzxBlock)) :=
  if tzx.take 8 ≠ tzxSignature then .error .notTzx
  else if tzx.length < 10 then .error .noVersion
  else tzxLoop start stop skip (tzx.length + 1) (tzx.drop 10) 1 []

/-- The blocks `tap2sna`/`tapinfo -a` pass on to `get_edges`: those with timings. -/
def edgeBlocks (blocks : List (Nat × TzxBlock)) : List Block :=
  blocks.filterMap fun nb => match nb.2.timings with
    | some t => some { timings := t, data := nb.2.tapeData.getD [], keys := none }
    | none => none

end TzxFile
