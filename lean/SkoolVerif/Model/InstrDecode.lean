/-!
Models of the four table-driven instruction decoders of SkoolKit (core Lean only), used by C07:

* `Disassembler.disassemble` (one iteration of its loop) with the decoder methods `no_arg`, `byte_arg`,
  `word_arg`, `jr_arg`, `rst_arg`, `index`, `index_arg`, `cb_arg`, `ed_arg`, `dd_arg`, `fd_arg`,
  `ddcb_arg`, `defb4`, `_defb` of `skoolkit/disassembler.py`, the additional-opcode overlays of
  `Disassembler.__init__` and the `asm_lower` variant;
* `traceutils.disassemble` with `operation`, `byte`, `word`, `jump_offset`, `offset`, `offset_byte`,
  `rst`, `defb` of `skoolkit/traceutils.py`;
* one iteration of `opcodes.decode` (`_opcode`, `_after_cb`, `_after_ed`, `_after_dd`, `_after_ddcb`,
  `_defb` of `skoolkit/opcodes.py`) — the size;
* `z80.get_timing`.

The tables themselves are not here: they are dumped from the Python modules on every run into
`Gen/C07Tables.lean` and passed in as parameters.

Shape of the disassembler model.  Every Python decoder method is one Lean function, but a decoder does
not read memory: it returns the operation with its operand reads *deferred* (`SPiece.byteAt off` =
"`format_byte(snapshot[(a + off) & 65535])`", offsets relative to the address of the instruction).
`evalOp` then performs the reads at a concrete address.  This splits every decoder into a part that
depends on the opcode bytes and the tables only (decided by the kernel for all 1792 opcode slots in
`Props/C07`) and a part that depends on operand bytes and address (proved for all memories and addresses).
Operand formatting (`OperandFormatter`, `prefix`/`byte_fmt`/`word_fmt`) is abstracted: an operation is a
list of `Piece`s — literal text (code points), byte operand, word operand — and `render` / `renderT` turn
it into text under arbitrary formatter functions.
-/
namespace InstrDec

/-! ### rendered operations -/

/-- a rendered operation: literal text (Unicode code points) and numeric operands still to be formatted -/
inductive Piece where
  | lit (cs : List Nat)
  | byte (v : Nat)
  | word (v : Nat)
  deriving DecidableEq, Repr, Inhabited

/-- the text of an operation under a byte formatter and a word formatter -/
def render (fb fw : Nat → List Nat) : List Piece → List Nat
  | [] => []
  | .lit cs :: r => cs ++ render fb fw r
  | .byte v :: r => fb v ++ render fb fw r
  | .word v :: r => fw v ++ render fb fw r

abbrev Mem := Nat → Nat

/-- `snapshot[lo:hi]` on a 65536-element list (`lo ≤ 65536`) -/
def slice (mem : Mem) (lo hi : Nat) : List Nat :=
  (List.range (min hi 65536 - lo)).map (fun i => mem (lo + i))

def lower1 (c : Nat) : Nat := if 65 ≤ c ∧ c ≤ 90 then c + 32 else c
/-- `str.lower()` (ASCII; the tables contain ASCII only — checked in `Props/C07`) -/
def lowerCs (cs : List Nat) : List Nat := cs.map lower1

/-- `s.replace(a1 a2, b1 b2)` for a two-character pattern -/
def replace2 (a1 a2 b1 b2 : Nat) : List Nat → List Nat
  | x :: y :: r => if x = a1 ∧ y = a2 then b1 :: b2 :: replace2 a1 a2 b1 b2 r else x :: replace2 a1 a2 b1 b2 (y :: r)
  | l => l

/-- `.replace('IX', 'IY').replace('ix', 'iy')` -/
def ixToIy (cs : List Nat) : List Nat := replace2 105 120 105 121 (replace2 73 88 73 89 cs)

def joinWith (sep : List Nat) : List (List Nat) → List Nat
  | [] => []
  | [x] => x
  | x :: r => x ++ sep ++ joinWith sep r

/-! ### 256-entry tables

A Python table indexed by a byte (dict with byte keys, or a 256-tuple) is dumped as a complete binary
tree of depth 8 (leaf `k` = entry of key `k`, `none` leaves for absent dict keys), so that a lookup costs
the kernel eight steps instead of a walk along a 256-element list. -/

inductive T256 (α : Type) where
  | leaf (a : α)
  | node (l r : T256 α)
  deriving Repr

/-- entry `i` of a tree of depth `k` -/
def T256.get {α : Type} : T256 α → Nat → Nat → α
  | .leaf a, _, _ => a
  | .node l r, k, i => if i / 2 ^ (k - 1) % 2 = 1 then r.get (k - 1) i else l.get (k - 1) i

/-- `table[i]` for a byte-indexed table: `none` = IndexError / KeyError for `i ≥ 256` -/
def T256.at? {α : Type} (t : T256 α) (i : Nat) : Option α := if i < 256 then some (t.get 8 i) else none

/-- all 256 entries in key order -/
def T256.toList {α : Type} : T256 α → List α
  | .leaf a => [a]
  | .node l r => l.toList ++ r.toList

/-! ### Disassembler -/

inductive DKind where
  | no_arg | byte_arg | word_arg | jr_arg | rst_arg | index | index_arg
  | cb_arg | ed_arg | dd_arg | fd_arg | ddcb_arg | defb4
  deriving DecidableEq, Repr, Inhabited

/-- one entry of `ops` / `after_DD` / `after_ED` / `after_DDCB`: decoder method, the template split at its
`{}` fields (`[[]]` for `''`), `int(template[4:])` for `rst_arg` entries, the flags (third element) -/
structure DEntry where
  kind : DKind
  segs : List (List Nat)
  num : Nat
  flags : Nat
  deriving DecidableEq, Repr, Inhabited

/-- an assignment made by one additional-opcode option: `tbl` 0 = `after_ED`, 1 = `after_DDCB` -/
structure Overlay where
  opt : Nat
  tbl : Nat
  key : Nat
  e : DEntry
  deriving Repr

structure DTables where
  ops : T256 DEntry
  afterCB : T256 (List Nat)
  afterDD : T256 (Option DEntry)
  afterED : T256 (Option DEntry)
  afterDDCB : T256 (Option DEntry)
  overlays : List Overlay
  defb : List Nat

/-- disassembler configuration: which additional-opcode options are on (bit `n` = option `n`),
`asm_lower`, `wrap` -/
structure DCfg where
  opts : Nat := 0
  lower : Bool := false
  wrap : Bool := false
  deriving Repr

inductive DErr where
  | key      -- KeyError (missing table entry)
  | format   -- IndexError raised by str.format (more fields than arguments)
  | type     -- TypeError / ValueError: decoder called with the wrong shape
  deriving DecidableEq, Repr

/-- an operation piece whose memory read is deferred; offsets are relative to the instruction address -/
inductive SPiece where
  | lit (cs : List Nat)
  | byteAt (off : Nat)     -- format_byte(snapshot[(a + off) & 65535], base)
  | wordAt (off : Nat)     -- format_word(snapshot[(a + off) & 65535] + 256 * snapshot[(a + off + 1) & 65535], base)
  | idxAt (off : Nat)      -- index_offset / traceutils.offset: '+' byte d, or '-' byte (256 - d)
  | const (v : Nat)        -- format_byte(v, base) of a constant
  | rstAt                  -- traceutils.rst: byte (memory[a] - 0xC7)
  | relAt (off : Nat)      -- traceutils.jump_offset: word of the wrapped target
  deriving DecidableEq, Repr, Inhabited

inductive SOp where
  /-- a filled template and the decoder's length -/
  | tmpl (ps : List SPiece) (len : Nat)
  /-- `jr_arg(template, a + off, base)`: the filled template and 2 when the target is within 0..65535,
  else `_defb(a + off, 2)` -/
  | jr (pre post : List Nat) (hole : Bool) (off : Nat)
  /-- `_defb(a + off, n)` -/
  | defb (off n : Nat)
  deriving DecidableEq, Repr, Inhabited

/-- result of the table-dependent part of a decoder: the operation, what the callers add to its length
(`length + 1`), a length override (`ddcb_arg` returns 4 whatever the inner decoder said), the flags -/
structure SOut where
  op : SOp
  add : Nat := 0
  fixedLen : Option Nat := none
  flags : Nat := 0
  deriving DecidableEq, Repr, Inhabited

/-- `template.format(*args)` on a template split at `{}` -/
def fill : List (List Nat) → List (List SPiece) → Except DErr (List SPiece)
  | [], _ => .ok []
  | [s], _ => .ok [.lit s]
  | s :: rest, a :: as => do let r ← fill rest as; pure (.lit s :: a ++ r)
  | _ :: _ :: _, [] => .error .format

def isTemplateKind : DKind → Bool
  | .no_arg | .byte_arg | .word_arg | .jr_arg | .rst_arg | .index | .index_arg => true
  | _ => false

/-- the template decoders `decoder(template, a + off, base)` -/
def callTemplate (e : DEntry) (off : Nat) : Except DErr SOp :=
  match e.kind with
  | .no_arg => .ok (.tmpl [.lit (joinWith [123, 125] e.segs)] 1)
  | .byte_arg => do let ps ← fill e.segs [[.byteAt (off + 1)]]; pure (.tmpl ps 2)
  | .word_arg => do let ps ← fill e.segs [[.wordAt (off + 1)]]; pure (.tmpl ps 3)
  | .index => do let ps ← fill e.segs [[.idxAt (off + 1)]]; pure (.tmpl ps 2)
  | .index_arg => do let ps ← fill e.segs [[.idxAt (off + 1)], [.byteAt (off + 2)]]; pure (.tmpl ps 3)
  | .rst_arg => .ok (.tmpl [.lit ((joinWith [123, 125] e.segs).take 4), .const e.num] 1)
  | .jr_arg =>
    match e.segs with
    | [s] => .ok (.jr s [] false off)
    | [s, t] => .ok (.jr s t true off)
    | _ => .error .format
  | _ => .error .type

def optOn (c : DCfg) (n : Nat) : Bool := c.opts.testBit n

/-- a table entry after the overlays of the enabled options (`tbl` 0 = after_ED, 1 = after_DDCB) -/
def overlaid (T : DTables) (c : DCfg) (tbl key : Nat) (base : Option DEntry) : Option DEntry :=
  match T.overlays.find? (fun o => o.tbl == tbl && o.key == key && optOn c o.opt) with
  | some o => some o.e
  | none => base

def lowerEntry (c : DCfg) (e : DEntry) : DEntry :=
  if c.lower then { e with segs := e.segs.map lowerCs } else e

def getOps (T : DTables) (c : DCfg) (b : Nat) : Option DEntry := (T.ops.at? b).map (lowerEntry c)
def getCB (T : DTables) (c : DCfg) (b : Nat) : Option (List Nat) :=
  (T.afterCB.at? b).map (fun s => if c.lower then lowerCs s else s)
def getDD (T : DTables) (c : DCfg) (b : Nat) : Option DEntry := ((T.afterDD.at? b).getD none).map (lowerEntry c)
def getED (T : DTables) (c : DCfg) (b : Nat) : Option DEntry :=
  (overlaid T c 0 b ((T.afterED.at? b).getD none)).map (lowerEntry c)
def getDDCB (T : DTables) (c : DCfg) (b : Nat) : Option DEntry :=
  (overlaid T c 1 b ((T.afterDDCB.at? b).getD none)).map (lowerEntry c)

/-- `cb_arg`, given `after_CB.get(b1)` -/
def cbArgE (e : Option (List Nat)) : Except DErr SOut :=
  match e with
  | some s => .ok { op := .tmpl [.lit s] 2 }
  | none => .error .key

/-- `ed_arg`, given `after_ED.get(b1)` -/
def edArgE (e : Option DEntry) : Except DErr SOut :=
  match e with
  | some e =>
    if e.segs ≠ [[]] then do
      let op ← callTemplate e 1
      pure { op := op, add := 1, flags := e.flags }
    else if e.kind = .defb4 then .ok { op := .defb 0 4, flags := e.flags }
    else .error .type
  | none => .ok { op := .defb 0 2 }

/-- `ddcb_arg`, given `after_DDCB.get(b3)` -/
def ddcbArgE (e : Option DEntry) : Except DErr SOut :=
  match e with
  | some e =>
    if e.segs ≠ [[]] then do
      let op ← callTemplate e 1
      pure { op := op, fixedLen := some 4, flags := e.flags }
    else .ok { op := .defb 0 4 }
  | none => .ok { op := .defb 0 4 }

/-- `dd_arg`, given `after_DD.get(b1)`, `after_CB.get(b1)` and `after_DDCB.get(b3)` -/
def ddArgE (e : Option DEntry) (ecb : Option (List Nat)) (eddcb : Option DEntry) : Except DErr SOut :=
  match e with
  | some e =>
    if e.segs ≠ [[]] then do
      let op ← callTemplate e 1
      pure { op := op, add := 1 }
    else if e.kind = .ddcb_arg then ddcbArgE eddcb
    else if e.kind = .cb_arg then cbArgE ecb
    else .error .type
  | none => .ok { op := .defb 0 1 }

def cbArg (T : DTables) (c : DCfg) (b1 : Nat) : Except DErr SOut := cbArgE (getCB T c b1)
def edArg (T : DTables) (c : DCfg) (b1 : Nat) : Except DErr SOut := edArgE (getED T c b1)
def ddcbArg (T : DTables) (c : DCfg) (b3 : Nat) : Except DErr SOut := ddcbArgE (getDDCB T c b3)
def ddArg (T : DTables) (c : DCfg) (b1 b3 : Nat) : Except DErr SOut :=
  ddArgE (getDD T c b1) (getCB T c b1) (getDDCB T c b3)

def mapLit (f : List Nat → List Nat) : SPiece → SPiece
  | .lit cs => .lit (f cs)
  | p => p

def mapOpLit (f : List Nat → List Nat) : SOp → SOp
  | .tmpl ps n => .tmpl (ps.map (mapLit f)) n
  | .jr a b h o => .jr (f a) (f b) h o
  | .defb o n => .defb o n

/-- `fd_arg` (the replacement acts on the literal text of the operation) -/
def fdArg (T : DTables) (c : DCfg) (b1 b3 : Nat) : Except DErr SOut := do
  let r ← ddArg T c b1 b3
  pure { r with op := mapOpLit ixToIy r.op }

/-- the table-dependent part of one iteration of `Disassembler.disassemble`: what the opcode bytes
`b0 = snapshot[a]`, `b1 = snapshot[(a+1) & 65535]`, `b3 = snapshot[(a+3) & 65535]` select -/
def disSym (T : DTables) (c : DCfg) (b0 b1 b3 : Nat) : Except DErr SOut :=
  match getOps T c b0 with
  | none => .error .key
  | some e =>
    if e.segs = [[]] then
      match e.kind with
      | .cb_arg => cbArg T c b1
      | .ed_arg => edArg T c b1
      | .dd_arg => ddArg T c b1 b3
      | .fd_arg => fdArg T c b1 b3
      | .ddcb_arg => ddcbArg T c b3
      | _ => .error .type
    else do
      let op ← callTemplate e 0
      pure { op := op }

def evalPiece (mem : Mem) (a : Nat) : SPiece → List Piece
  | .lit cs => [.lit cs]
  | .byteAt off => [.byte (mem ((a + off) % 65536))]
  | .wordAt off => [.word (mem ((a + off) % 65536) + 256 * mem ((a + off + 1) % 65536))]
  | .idxAt off =>
    let d := mem ((a + off) % 65536)
    if d < 128 then [.lit [43], .byte d] else [.lit [45], .byte (256 - d)]
  | .const v => [.byte v]
  | .rstAt => [.byte (mem a - 0xC7)]
  | .relAt off =>
    let o := mem ((a + off + 1) % 65536)
    [.word (if o < 128 then (a + off + 2 + o) % 65536 else (a + off + 65536 - 254 + o) % 65536)]

def evalPieces (mem : Mem) (a : Nat) (ps : List SPiece) : List Piece := ps.flatMap (evalPiece mem a)

/-- `defb_dir(data)` with the default sublengths: the directive and the bytes separated by commas -/
def defbPieces (directive : List Nat) : List Nat → List Piece
  | [] => [.lit directive]
  | b :: r => .lit directive :: .byte b :: r.flatMap (fun x => [.lit [44], .byte x])

/-- perform the deferred reads of an operation at address `a`: the operation and the decoder's length -/
def evalOp (directive : List Nat) (mem : Mem) (a : Nat) : SOp → List Piece × Nat
  | .tmpl ps len => (evalPieces mem a ps, len)
  | .defb off n => let data := slice mem (a + off) (a + off + n); (defbPieces directive data, data.length)
  | .jr pre post hole off =>
    let o := mem ((a + off + 1) % 65536)
    -- address = a + 2 + offset if offset < 128 else a + offset - 254  (as an integer)
    if (o < 128 ∧ a + off + 2 + o < 65536) ∨ (128 ≤ o ∧ 254 ≤ a + off + o ∧ a + off + o - 254 < 65536) then
      let t := if o < 128 then a + off + 2 + o else a + off + o - 254
      (if hole then [.lit pre, .word t, .lit post] else [.lit pre], 2)
    else
      let data := slice mem (a + off) (a + off + 2); (defbPieces directive data, data.length)

/-- one instruction object made by `Disassembler.disassemble` -/
structure DOut where
  op : List Piece      -- instruction.operation
  bytes : List Nat     -- instruction.bytes
  length : Nat         -- the address advance
  variant : Nat        -- instruction.variant
  deriving DecidableEq, Repr

def directiveOf (T : DTables) (c : DCfg) : List Nat := if c.lower then lowerCs T.defb else T.defb

/-- the address-dependent part of one iteration of `Disassembler.disassemble`: perform the deferred reads,
then build the instruction (the three cases `address + length <= 65536`, `self.wrap`, neither) -/
def finish (T : DTables) (c : DCfg) (mem : Mem) (a : Nat) (so : SOut) : DOut :=
  let r := evalOp (directiveOf T c) mem a so.op
  let length := match so.fixedLen with
    | some n => n
    | none => r.2 + so.add
  let variant := so.flags % 2
  if a + length ≤ 65536 then
    { op := r.1, bytes := slice mem a (a + length), length := length, variant := variant }
  else if c.wrap then
    { op := r.1, bytes := slice mem a 65536 ++ slice mem 0 ((a + length) % 65536), length := length, variant := variant }
  else
    { op := defbPieces (directiveOf T c) (slice mem a 65536), bytes := slice mem a 65536, length := length,
      variant := variant }

/-- one iteration of the loop of `Disassembler.disassemble` at `address = a < 65536` (no RST handler) -/
def disasm (T : DTables) (c : DCfg) (mem : Mem) (a : Nat) : Except DErr DOut :=
  match disSym T c (mem a) (mem ((a + 1) % 65536)) (mem ((a + 3) % 65536)) with
  | .ok so => .ok (finish T c mem a so)
  | .error e => .error e

/-! ### traceutils.disassemble -/

inductive TKind where
  | operation | byte | word | jump_offset | offset | offset_byte | rst | defb
  deriving DecidableEq, Repr, Inhabited

/-- a piece of a traceutils template: literal text, `{p}`, `{n:{b}}`, `{n:{w}}`, `{s}`, `{d:{b}}` -/
inductive TPiece where
  | lit (cs : List Nat) | P | NB | NW | S | DB
  deriving DecidableEq, Repr, Inhabited

structure TEntry where
  kind : Option TKind
  tmpl : List TPiece
  size : Nat
  deriving DecidableEq, Repr, Inhabited

structure TTables where
  main : T256 TEntry
  cb : T256 TEntry
  ed : T256 TEntry
  dd : T256 TEntry
  fd : T256 TEntry
  ddcb : T256 TEntry
  fdcb : T256 TEntry

inductive TErr where
  | index   -- IndexError (table shorter than 256)
  | key     -- KeyError raised by str.format (field not supplied by the function)
  | type    -- TypeError (func is None)
  deriving DecidableEq, Repr

/-- the `(func, operation, size)` triple `traceutils.disassemble` ends up with -/
def traceEntry (T : TTables) (b0 b1 b3 : Nat) : Except TErr TEntry := do
  let get (t : T256 TEntry) (i : Nat) : Except TErr TEntry := match t.at? i with
    | some e => .ok e
    | none => .error .index
  let e ← get T.main b0
  if e.kind.isSome then pure e
  else if b0 = 0xCB then get T.cb b1
  else if b0 = 0xED then get T.ed b1
  else if b0 = 0xDD then do
    let e ← get T.dd b1
    if e.kind.isNone then get T.ddcb b3 else pure e
  else do
    let e ← get T.fd b1
    if e.kind.isNone then get T.fdcb b3 else pure e

/-- output pieces of traceutils: literal, the prefix `p`, a value formatted with `byte_fmt` / `word_fmt` -/
inductive TOut where
  | lit (cs : List Nat) | pfx | bval (v : Nat) | wval (v : Nat)
  deriving DecidableEq, Repr, Inhabited

/-- does the function supply the field? (`p` to all but `operation`/`defb`, which never format) -/
def tSupplies (k : TKind) (p : TPiece) : Bool :=
  match p with
  | .lit _ => true
  | .P => true
  | .NB => k = .byte ∨ k = .offset_byte ∨ k = .rst
  | .NW => k = .word ∨ k = .jump_offset
  | .S => k = .offset ∨ k = .offset_byte
  | .DB => k = .offset ∨ k = .offset_byte

/-- evaluate one template piece of function `k` at address `a` -/
def tEvalPiece (k : TKind) (size : Nat) (mem : Mem) (a : Nat) : TPiece → List TOut
  | .lit cs => [.lit cs]
  | .P => [.pfx]
  | .NB => match k with
    | .byte => [.bval (mem ((a + size - 1) % 65536))]
    | .offset_byte => [.bval (mem ((a + 3) % 65536))]
    | _ => [.bval (mem a - 0xC7)]
  | .NW => match k with
    | .word => [.wval (mem ((a + size - 2) % 65536) + 256 * mem ((a + size - 1) % 65536))]
    | _ =>
      let o := mem ((a + 1) % 65536)
      [.wval (if o < 128 then (a + 2 + o) % 65536 else (a + 65536 - 254 + o) % 65536)]
  | .S => if mem ((a + 2) % 65536) < 128 then [.lit [43]] else [.lit [45]]
  | .DB => let d := mem ((a + 2) % 65536); if d < 128 then [.bval d] else [.bval (256 - d)]

/-- `func(memory, address, operation, size, prefix, byte_fmt, word_fmt)` -/
def traceCall (e : TEntry) (mem : Mem) (a : Nat) : Except TErr (List TOut × Nat) :=
  match e.kind with
  | none => .error .type
  | some .operation => .ok (e.tmpl.flatMap (fun p => match p with | .lit cs => [TOut.lit cs] | _ => []), e.size)
  | some .defb =>
    if e.size = 1 then .ok ([.lit [68, 69, 70, 66, 32], .pfx, .bval (mem a)], 1)
    else .ok ([.lit [68, 69, 70, 66, 32], .pfx, .bval (mem a), .lit [44], .pfx, .bval (mem ((a + 1) % 65536))], 2)
  | some k =>
    if e.tmpl.all (tSupplies k) then
      .ok (e.tmpl.flatMap (tEvalPiece k e.size mem a),
           match k with
           | .jump_offset => 2
           | .offset_byte => 4
           | .rst => 1
           | _ => e.size)
    else .error .key

/-- `traceutils.disassemble(memory, address, prefix, byte_fmt, word_fmt)` before formatting -/
def traceDis (T : TTables) (mem : Mem) (a : Nat) : Except TErr (List TOut × Nat) := do
  let e ← traceEntry T (mem a) (mem ((a + 1) % 65536)) (mem ((a + 3) % 65536))
  traceCall e mem a

/-- the text under a prefix and two value formatters -/
def renderT (p : List Nat) (fb fw : Nat → List Nat) : List TOut → List Nat
  | [] => []
  | .lit cs :: r => cs ++ renderT p fb fw r
  | .pfx :: r => p ++ renderT p fb fw r
  | .bval v :: r => fb v ++ renderT p fb fw r
  | .wval v :: r => fw v ++ renderT p fb fw r

/-! ### opcodes.decode -/

structure CTables where
  main : T256 (Option Nat)
  cb : T256 (Option Nat)
  ed : T256 (Option Nat)
  dd : T256 (Option Nat)
  fd : T256 (Option Nat)
  ddcb : T256 (Option Nat)
  fdcb : T256 (Option Nat)

/-- sizes only.  `isDefb`: the entry came from `_defb` -/
structure COut where
  size : Nat
  isDefb : Bool
  deriving DecidableEq, Repr

def cGet (t : T256 (Option Nat)) (i : Nat) : Option Nat := (t.at? i).getD none

/-- `_after_ddcb(snapshot, addr, value)` with `addr = a + 2` -/
def afterDdcb (T : CTables) (mem : Mem) (a : Nat) (value : Nat) : COut :=
  if a + 2 < 65535 then
    match cGet (if value = 0xDD then T.ddcb else T.fdcb) (mem (a + 3)) with
    | some n => ⟨n, false⟩
    | none => ⟨4, true⟩
  else ⟨65538 - (a + 2), true⟩

/-- one iteration of `opcodes.decode` at `addr = a < 65536` without an RST handler.  `none` = KeyError
(`OPCODES[value]` / `AFTER_CB[...]` are indexed without a guard) -/
def decodeStep (T : CTables) (mem : Mem) (a : Nat) : Option COut :=
  let value := mem a
  if value = 0xCB then
    -- _after_cb(snapshot, a + 1)
    if a + 1 < 65536 then (cGet T.cb (mem (a + 1))).map (⟨·, false⟩) else some ⟨1, true⟩
  else if value = 0xED then
    -- _after_ed(snapshot, a + 1)
    if a + 1 < 65536 then
      match cGet T.ed (mem (a + 1)) with
      | some n => if a + 1 + n < 65538 then some ⟨n, false⟩ else some ⟨65537 - (a + 1), true⟩
      | none => some ⟨2, true⟩
    else some ⟨65537 - (a + 1), true⟩
  else if value = 0xDD ∨ value = 0xFD then
    -- _after_dd(snapshot, a + 1, value)
    if a + 1 < 65536 then
      let value2 := mem (a + 1)
      let r : Option COut :=
        if value2 = 0xCB then some (afterDdcb T mem a value)
        else (cGet (if value = 0xDD then T.dd else T.fd) value2).map (⟨·, false⟩)
      match r with
      | some r => if a + 1 + r.size < 65538 then some r else some ⟨65537 - (a + 1), true⟩
      | none => some ⟨1, true⟩
    else some ⟨65537 - (a + 1), true⟩
  else
    -- _opcode(snapshot, a, value)
    match cGet T.main value with
    | some n => if a + n < 65537 then some ⟨n, false⟩ else some ⟨65536 - a, true⟩
    | none => none

/-! ### z80.get_timing -/

inductive Timing where
  | one (t : Int)
  | two (t1 t2 : Int)
  deriving DecidableEq, Repr, Inhabited

def Timing.toList : Timing → List Int
  | .one t => [t]
  | .two a b => [a, b]

structure ZTables where
  main : T256 (Option Timing)
  cb : T256 (Option Timing)
  ed : T256 (Option Timing)
  dd : T256 (Option Timing)
  ddcb : T256 (Option Timing)

inductive ZRes where
  | none_                 -- returns None (DEF* statement or no bytes)
  | timing (t : Timing)
  | keyError
  | indexError
  deriving DecidableEq, Repr

def zGet (t : T256 (Option Timing)) (i : Nat) : ZRes :=
  match (t.at? i).getD none with
  | some x => .timing x
  | none => .keyError

/-- `get_timing(instruction)`: `isDef` = `instruction.operation.upper().startswith('DEF')` -/
def getTiming (T : ZTables) (isDef : Bool) (bytes : List Nat) : ZRes :=
  if isDef then .none_ else
  match bytes with
  | [] => .none_
  | opcode :: rest =>
    if opcode = 0xCB then
      match rest with
      | b1 :: _ => zGet T.cb b1
      | [] => .indexError
    else if opcode = 0xED then
      match rest with
      | b1 :: _ => zGet T.ed b1
      | [] => .indexError
    else if opcode = 0xDD ∨ opcode = 0xFD then
      match rest with
      | [] => .indexError
      | opcode2 :: rest2 =>
        if opcode2 = 0xCB then
          match rest2 with
          | _ :: b3 :: _ => zGet T.ddcb b3
          | _ => .indexError
        else zGet T.dd opcode2
    else zGet T.main opcode

/-- does the operation start with `DEF` (any case)? -/
def startsWithDef : List Piece → Bool
  | .lit (d :: e :: f :: _) :: _ => (d = 68 ∨ d = 100) ∧ (e = 69 ∨ e = 101) ∧ (f = 70 ∨ f = 102)
  | _ => false

end InstrDec
