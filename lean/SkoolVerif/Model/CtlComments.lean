/-
Hand model of how comments travel through skool -> ctl -> skool (C03).

* blank / dots-only multi-instruction comments:
    `CtlWriter.write_body` (escape)                -> `escapeComment`
    `SkoolWriter._format_instruction_comments`     -> `unescapeComment`, `multiLine`
* paragraphs of titles/descriptions/mid-block/end comments:
    `SkoolWriter.write_paragraphs` (+ `wrap`)      -> `writeParas` (`wrapGreedy`)
    `skoolutils.join_comments(split=True)`         -> `splitParas`
* line-preserving instruction comments (skool2ctl -k):
    `CtlWriter.write_sub_block` (pop trailing blank groups) + `_write_lines(grouped=True)`
                                                   -> `writeGrouped`
    `SkoolWriter._format_instruction_comments` (drop the empty directive text)
      + `_set_instruction_comments`                -> `readKeep`
    and the pre-fix writer (`index < len(lines) - 1` on the popped list) -> `writeGroupedOld`
No imports: also used by the line-protocol driver.
-/
namespace CtlComments

/-! ### blank and dots-only comments -/

/-- `not text.replace('.', '')` -/
def allDots (t : List Char) : Bool := t.all (· == '.')

/-- `CtlWriter.write_body`, `keep_lines` off: `if comment.rowspan > 1 and not
comment.text.replace('.', ''): comment_text = '.' + comment_text`;
`write_comment = comment_text != ''`.  `none` = no comment is written. -/
def escapeComment (rowspan : Nat) (text : List Char) : Option (List Char) :=
  let t := if rowspan > 1 ∧ allDots text = true then '.' :: text else text
  if t = [] then none else some t

/-- `multi_line` of `_format_instruction_comments` for a directive with a
one-line comment and no repeat flag: `len(block.instructions) > 1 and comment`. -/
def multiLine (nInstr : Nat) (c : Option (List Char)) : Bool :=
  decide (nInstr > 1) && (c.getD []) != []

/-- `if multi_line and len(block.comment) == 1 and not comment.replace('.', ''):
comment = comment[1:]`. -/
def unescapeComment (nInstr : Nat) (c : Option (List Char)) : List Char :=
  let comment := c.getD []
  if multiLine nInstr c = true ∧ allDots comment = true then comment.tail else comment

/-! ### paragraphs -/

variable {ω : Type} [DecidableEq ω]

/-- Greedy filling of `textwrap.TextWrapper(break_long_words=False,
break_on_hyphens=False)` on whitespace-separated words of lengths `len`:
`cur` is the current line (reversed), `n` its length in characters. -/
def wrapGo (len : ω → Nat) (width : Nat) : List ω → Nat → List ω → List (List ω)
  | cur, _, [] => if cur = [] then [] else [cur.reverse]
  | cur, n, w :: ws =>
    if cur = [] then wrapGo len width [w] (len w) ws
    else if n + 1 + len w ≤ width then wrapGo len width (w :: cur) (n + 1 + len w) ws
    else cur.reverse :: wrapGo len width [w] (len w) ws

def wrapGreedy (len : ω → Nat) (width : Nat) (ws : List ω) : List (List ω) := wrapGo len width [] 0 ws

/-- `SkoolWriter.write_paragraphs`: the comment lines of a paragraph list;
`dot` is the word '.', a line is the list of its words; `wrap` is the
wrapping function (`SkoolWriter.wrap` for plain text). -/
def writeParas (dot : ω) (wrap : List ω → List (List ω)) : List (List ω) → List (List ω)
  | [] => []
  | [p] => wrap p
  | p :: q :: r => wrap p ++ [[dot]] ++ writeParas dot wrap (q :: r)

/-- One line of `join_comments(comments, split=True)`; `secs` reversed, each section
a word list (`' '.join` of the stripped lines = concatenation of their words). -/
def splitStep (dot : ω) (secs : List (List ω)) (line : List ω) : List (List ω) :=
  if line = [dot] then [] :: secs
  else match secs with
    | s :: r => (s ++ line) :: r
    | [] => [line]

/-- `join_comments(comments, True)`: `[' '.join(s) for s in sections if s]`. -/
def splitParas (dot : ω) (lines : List (List ω)) : List (List ω) :=
  ((lines.foldl (splitStep dot) [[]]).reverse).filter (· ≠ [])

/-! ### line-preserving instruction comments (-k) -/

variable {α : Type} [DecidableEq α]

/-- `while len(comment) > min_comments and comment[-1] == ['']: comment.pop()` on the reversed list. -/
def popBlankRev (blank : α) (minC : Nat) : List (List α) → List (List α)
  | g :: r => if (g :: r).length > minC ∧ g = [blank] then popBlankRev blank minC r else g :: r
  | [] => []

def popBlank (blank : α) (minC : Nat) (groups : List (List α)) : List (List α) :=
  (popBlankRev blank minC groups.reverse).reverse

/-- The lines of one group: first line '.', the others ':' when `colon`. `true` = ':'. -/
def emitGroup (colon : Bool) : List α → List (Bool × α)
  | [] => []
  | l :: ls => (false, l) :: ls.map (fun x => (colon, x))

/-- `_write_lines(lines, ..., grouped=True, rowspan)`: `if line_no and index < rowspan - 1`. -/
def emit (rowspan : Nat) : Nat → List (List α) → List (Bool × α)
  | _, [] => []
  | idx, g :: rest => emitGroup (decide (idx < rowspan - 1)) g ++ emit rowspan (idx + 1) rest

/-- `write_sub_block` for a grouped (keep_lines) comment: one group of lines per instruction. -/
def writeGrouped (blank : α) (groups : List (List α)) : List (Bool × α) :=
  let rowspan := groups.length
  emit rowspan 0 (popBlank blank (min (rowspan - 1) 1) groups)

/-- The writer before the fix: `min_comments` from `len(instructions)` (`nInstr`; 1 for an M directive)
and ':' decided against the *popped* list. -/
def writeGroupedOld (blank : α) (nInstr : Nat) (groups : List (List α)) : List (Bool × α) :=
  let kept := popBlank blank (min (nInstr - 1) 1) groups
  emit kept.length 0 kept

/-- `while block.comment and block.comment[0][0]: instruction.comment.append(...)`. -/
def takeColons : List (Bool × α) → List α × List (Bool × α)
  | (true, l) :: r => let p := takeColons r; (l :: p.1, p.2)
  | r => ([], r)

/-- `_set_instruction_comments` (no repeat, no generated comments) over `n` instructions:
each takes one line and the ':' lines after it, an instruction without lines gets the
blank comment, the last one also takes whatever is left. -/
def distr (blank : α) : Nat → List (Bool × α) → List (List α)
  | 0, _ => []
  | n + 1, [] => [blank] :: distr blank n []
  | n + 1, (_, l) :: r =>
    let p := takeColons r
    if n = 0 then [(l :: p.1) ++ p.2.map (·.2)] else (l :: p.1) :: distr blank n p.2

/-- Reading a directive whose text is empty and which is followed by `lines`:
no lines = no comment (`none`); otherwise the empty directive text is dropped and the lines distributed. -/
def readKeep (blank : α) (n : Nat) (lines : List (Bool × α)) : Option (List (List α)) :=
  if lines = [] then none else some (distr blank n lines)

end CtlComments
