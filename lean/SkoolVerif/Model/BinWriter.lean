import SkoolVerif.Model.Statements
/-
Hand model of `skoolkit/skool2bin.py` for skool files as sna2skool writes them (no `@*sub`/`@*fix`
directives, no `@if`, no banks): `BinWriter._parse_skool` / `_parse_instruction` / `_add_instructions`
/ `_get_size` (the address counter), `_relocate` / `_poke` (the pokes, `Memory.__setitem__` wraps
modulo 65536), `write` (`base_address`, `end_address`, the slice written to the file).

The quirk that matters: the skool address of an instruction line is only used when the address
counter is `None` (at the start and after `@org`); otherwise an instruction is placed where the
previous one ended.  A blank operation (the line of an ignored block) does not advance the counter.
-/
namespace BinW
open Stmts

inductive Item
  /-- `@org` (`none`) or `@org=a` -/
  | org (a : Option Nat)
  /-- an instruction line: skool address, whether the operation is blank, and the bytes the
  assembler (or an `@bytes` directive) gives for it -/
  | ins (skoolAddr : Nat) (blank : Bool) (data : List Nat)
  deriving Repr, DecidableEq

inductive Err
  /-- `SkoolParsingError("Failed to assemble")`: a non-blank operation of size 0 -/
  | failed (address : Nat)
  deriving Repr, DecidableEq

/-- `_parse_skool`: the instructions kept (`self.start <= address < self.end` with the default
`start=-1`, `end=65537`), as `(real_address, data)` in file order. -/
def place : Option Nat → List Item → Except Err (List (Nat × List Nat))
  | _, [] => .ok []
  | _, .org a :: rest => place a rest
  | address, .ins skoolAddr blank data :: rest =>
    let a := address.getD skoolAddr              -- `if address is None: address = skool_address`
    if blank then place (some a) rest            -- `if operation:` is false
    else if data.isEmpty then .error (.failed a)
    else do
      let r ← place (some (a + data.length)) rest
      pure (if a < 65537 then (a, data) :: r else r)

def Item.isIns : Item → Bool
  | .ins _ _ _ => true
  | .org _ => false

/-- `_parse_skool` over the blocks `read_skool` yields (separated by blank lines): a block without
an instruction line is a non-entry block and is skipped, together with any `@org` in it. -/
def placeBlocks (blocks : List (List Item)) : Except Err (List (Nat × List Nat)) :=
  place none ((blocks.filter (fun b => b.any Item.isIns)).flatten)

/-- memory of `skoolutils.Memory`: address (below 65536) to byte -/
abbrev Mem := Nat → Nat

/-- `snapshot[address:address + len(data)] = data` -/
def poke (m : Mem) : Nat → List Nat → Mem
  | _, [] => m
  | a, b :: bs => poke (fun x => if x = a % 65536 then b else m x) (a + 1) bs

/-- `_relocate`: all pokes in order, starting from an all-zero memory -/
def pokeAll (m : Mem) : List (Nat × List Nat) → Mem
  | [] => m
  | (a, d) :: rest => pokeAll (poke m a d) rest

/-- `base_address` and `end_address` after `_relocate` -/
def bounds (placed : List (Nat × List Nat)) : Nat × Nat :=
  placed.foldl (fun (be : Nat × Nat) p => (min be.1 p.1, max be.2 (p.1 + p.2.length))) (65536, 0)

/-- `write` with the default options: `(base_address, bytes written)` -/
def writeFile (placed : List (Nat × List Nat)) : Nat × List Nat :=
  let (b, e) := bounds placed
  let b := min b e
  (b, (List.range' b (e - b)).map (fun a => pokeAll (fun _ => 0) placed (a % 65536)))

/-- the items of a skool file written by sna2skool for a list of statements: `@org` only at the
top, every statement one instruction line -/
def itemsOf (asm : Nat → List Nat) (stmts : List Stmt) : List Item :=
  stmts.map (fun s => .ins s.addr (s.op == .blank) (s.op.assemble asm))

/-- sna2skool output through skool2bin: the resulting memory -/
def binImage (asm : Nat → List Nat) (stmts : List Stmt) : Except Err Mem :=
  (place none (itemsOf asm stmts)).map (pokeAll (fun _ => 0))

end BinW
