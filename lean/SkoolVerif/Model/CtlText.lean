import SkoolVerif.Model.CtlCompose
/-
Text layer of the C03 models: spelling of operands (`OperandFormatter` format strings), splitting
an operation on unquoted commas (`textutils.split_unquoted`), `z80.eval_string`, `skoolkit.get_int_param`,
`skoolctl._get_base`, the string forms of composed sublengths and `ctlparser._parse_length` /
`_parse_sublengths`.  Nothing here is proved; every function is tied to the real one by the
correspondence check (harness/props/c03.py).  Characters are `Char`s, strings `List Char`.
-/
namespace CtlText
open CtlCompose

abbrev Str := List Char

def s (x : String) : Str := x.toList

/-! ### spelling of tokens (ctl -> skool) -/

def padLeft (n : Nat) (c : Char) (l : Str) : Str := List.replicate (n - l.length) c ++ l

def hexDigits (lower : Bool) (v : Nat) : Str :=
  let d := Nat.toDigits 16 v
  if lower then d else d.map Char.toUpper

/-- byte_formats / word_formats: a value above 255 uses the word format. -/
def showHex (lower : Bool) (v : Nat) : Str := '$' :: padLeft (if v > 255 then 4 else 2) '0' (hexDigits lower v)
def showBin (v : Nat) : Str := '%' :: padLeft (if v > 255 then 16 else 8) '0' (Nat.toDigits 2 v)
def showDec (v : Nat) : Str := (toString v).toList

def showChar (c : Nat) : Str :=
  if c = 34 ∨ c = 92 then ['\\', Char.ofNat c] else [Char.ofNat c]

def showTok (cfg : Cfg) (lower : Bool) : Tok → Str
  | .blank => []
  | .bin v => showBin v
  | .dec v => showDec v
  | .hex v => showHex lower v
  | .neg hx v => '-' :: (if hx then showHex lower v else showDec v)
  | .str cs => ['"'] ++ cs.flatMap showChar ++ ['"']
  | .chrHi c => ['"'] ++ showChar c ++ ['"', '+'] ++ (if cfg.hex then showHex lower 128 else showDec 128)

def joinWith (sep : Str) : List Str → Str
  | [] => []
  | [x] => x
  | x :: r => x ++ sep ++ joinWith sep r

/-- `defb_dir`: "DEFB " / "DEFM " (lower-cased with asm_lower) + the operands. -/
def showStatement (cfg : Cfg) (lower : Bool) (kind : Kind) (toks : List Tok) : Str :=
  let d := match kind with | .B => s "DEFB " | .T => s "DEFM "
  (if lower then d.map Char.toLower else d) ++ joinWith [','] (toks.map (showTok cfg lower))

/-! ### reading an operation (skool -> ctl) -/

/-- `textutils.split_unquoted(text, sep)` (no maxsplit): the quote state machine. -/
def splitUnquoted (sep : Char) (text : Str) : List Str :=
  let rec go (cur : Str) (quoted esc : Bool) : Str → List Str
    | [] => [cur.reverse]
    | c :: r =>
      if esc then go (c :: cur) quoted false r
      else if c = '"' then go (c :: cur) (!quoted) false r
      else if c = '\\' ∧ quoted then go (c :: cur) quoted true r
      else if c = sep ∧ !quoted then cur.reverse :: go [] false false r
      else go (c :: cur) quoted false r
  go [] false false text

def isSpace (c : Char) : Bool := c = ' ' ∨ c = '\t' ∨ c = '\n' ∨ c = '\r'
def strip (t : Str) : Str := ((t.dropWhile isSpace).reverse.dropWhile isSpace).reverse

def digitVal (c : Char) : Option Nat :=
  if '0' ≤ c ∧ c ≤ '9' then some (c.toNat - 48)
  else if 'a' ≤ c ∧ c ≤ 'f' then some (c.toNat - 87)
  else if 'A' ≤ c ∧ c ≤ 'F' then some (c.toNat - 55)
  else none

def parseBase (b : Nat) (t : Str) : Option Nat :=
  if t = [] then none else
  t.foldl (fun acc c => match acc, digitVal c with
    | some a, some d => if d < b then some (a * b + d) else none
    | _, _ => none) (some 0)

/-- `skoolkit.get_int_param` on the forms the tools write: decimal, `$hex`, `%binary`, `"c"`, `"\c"`
(Python's `int()` extras — signs, underscores, surrounding blanks — are not modelled: `none`). -/
def getIntParam (t : Str) : Option Nat :=
  match t with
  | '$' :: r => parseBase 16 r
  | '%' :: r => parseBase 2 r
  | ['"', c, '"'] => some c.toNat
  | ['"', '\\', c, '"'] => some c.toNat
  | _ => parseBase 10 t

/-- `z80.eval_string`: `none` = ValueError. -/
def evalString (t : Str) : Option (List Nat) :=
  match t with
  | '"' :: r =>
    if t.getLast? = some '"' then
      -- characters strictly between the first and the last position
      let inner := r.take (r.length - 1)
      let rec go : Str → Option (List Nat)
        | [] => some []
        | c :: rest =>
          if c = '"' then none
          else if c = '\\' then
            match rest with
            | d :: rest2 => (go rest2).map (d.toNat :: ·)
            | [] => some [34]          -- the escape swallows the closing quote: `text[i]` is that quote
          else (go rest).map (c.toNat :: ·)
      if r = [] then some [] else go inner
    else none
  | _ => none

/-- The one `eval_int` expression sna2skool writes: `"c"+N` / `"\c"+N` (N decimal or $hex). -/
def isCharPlus (t : Str) : Bool :=
  match t with
  | '"' :: '\\' :: _ :: '"' :: '+' :: r => (getIntParam r).isSome
  | '"' :: _ :: '"' :: '+' :: r => (getIntParam r).isSome
  | _ => false

inductive LexErr | unsupported
  deriving Repr

/-- `_parse_string` + `_get_base(item, preserve_base)`. -/
def classifyText (pb : Bool) (item : Str) : Except LexErr Item :=
  match evalString item with
  | some data => .ok (.str data.length)
  | none =>
    if item.head? = some '"' ∧ item.getLast? ≠ some '"' then
      if isCharPlus item then .ok (.str 1) else .error .unsupported     -- general `eval_int` not modelled
    else
      .ok (.num (match item.head? with
        | some '%' => .b
        | some '"' => .c
        | some '$' => if pb then .h else .d
        | some '-' => .m
        | _ => .d))

def baseChar : Base → Char
  | .b => 'b' | .c => 'c' | .d => 'd' | .h => 'h' | .m => 'm' | .n => 'n'

def showSeg (sg : Seg) : Str := (match sg.1 with | some b => [baseChar b] | none => []) ++ showDec sg.2

/-- `_get_defw_length`: run-length of the operand bases, two bytes each (no 'c' -> 'd' folding here). -/
def composeW (pb : Bool) (bases : List Base) : Nat × List Seg :=
  let fmt : Base → Option Base := fun b => if pb then some b else (if b = .d ∨ b = .h then none else some b)
  let rec go (prev : Option Base) (len : Nat) (acc : List Seg) (full : Nat) : List Base → Nat × List Seg
    | [] => (full + len, (acc.reverse ++ [(fmt (prev.getD .d), len)]))
    | b :: r =>
      if prev ≠ some b ∧ len ≠ 0 then go (some b) 2 ((fmt (prev.getD .d), len) :: acc) (full + len) r
      else go (some b) (len + 2) acc full r
  go none 0 [] 0 bases

def baseOfText (pb : Bool) (item : Str) : Base :=
  match item.head? with
  | some '%' => .b
  | some '"' => .c
  | some '$' => if pb then .h else .d
  | some '-' => .m
  | _ => .d

inductive ComposeErr | unsupported | invalidInt
  deriving Repr

/-- `ControlDirectiveComposer.compose` for DEFB/DEFM/DEFS/DEFW statements: (ctl, length, sublengths). -/
def composeText (pb : Bool) (operation : Str) : Except ComposeErr (Char × Nat × Str) :=
  let op := operation.map Char.toUpper
  let items := (splitUnquoted ',' (operation.drop 5)).map strip
  let defbm (kind : Kind) : Except ComposeErr (Char × Nat × Str) :=
    match items.mapM (classifyText pb) with
    | .error _ => .error .unsupported
    | .ok its =>
      let r := compose kind pb its
      .ok ((match kind with | .B => 'B' | .T => 'T'), r.1, joinWith [':'] (r.2.map showSeg))
  if op.take 4 = s "DEFB" then defbm .B
  else if op.take 4 = s "DEFM" then defbm .T
  else if op.take 4 = s "DEFW" then
    let r := composeW pb (items.map (baseOfText pb))
    .ok ('W', r.1, joinWith [':'] (r.2.map showSeg))
  else if op.take 4 = s "DEFS" then
    match items with
    | [] => .error .invalidInt
    | it0 :: rest =>
      match getIntParam it0 with
      | none => .error .unsupported         -- `eval_int` expressions are not modelled
      | some size =>
        let fmt : Base → Str := fun b => if pb then [baseChar b] else (if b = .d ∨ b = .h then [] else [baseChar b])
        let sizeFmt := fmt (baseOfText pb it0) ++ it0
        match rest with
        | [] => .ok ('S', size, sizeFmt)
        | it1 :: _ =>
          let vb := baseOfText pb it1
          let vb := if (vb = .d ∨ vb = .h) ∧ !pb then Base.n else vb
          .ok ('S', size, sizeFmt ++ [':', baseChar vb])
  else .error .unsupported

/-! ### ctl -> sublengths -/

def baseOfChar (c : Char) : Option Base :=
  if c = 'b' then some .b else if c = 'c' then some .c else if c = 'd' then some .d
  else if c = 'h' then some .h else if c = 'm' then some .m else if c = 'n' then some .n else none

inductive ParseErr | invalidInt
  deriving Repr

/-- `_parse_length(length, default_base, required)`: (value, base letters).  A two-letter base
keeps both letters (used for two-operand instructions). -/
def parseLength (t : Str) (dflt : Str) (required : Bool) : Except ParseErr (Nat × Str) :=
  match t with
  | c :: r =>
    if (baseOfChar c).isSome then
      let base : Str := match r with
        | c2 :: _ => if (baseOfChar c2).isSome then [c, c2] else [c]
        | [] => [c]
      let rest := t.drop base.length
      if required ∨ rest ≠ [] then
        match getIntParam rest with
        | some v => .ok (v, base)
        | none => .error .invalidInt
      else .ok (0, base)
    else
      match getIntParam t with
      | some v => .ok (v, dflt)
      | none => .error .invalidInt
  | [] => if required then .error .invalidInt else .ok (0, dflt)

/-- `_parse_sublengths(spec, subctl, default_base)`: (length, [(sublength, base)]). -/
def parseSublengths (spec : Str) (subctl : Char) (dflt : Str) : Except ParseErr (Nat × List (Nat × Str)) :=
  let parts := if subctl = 'C' then [spec] else splitUnquoted ':' spec
  let rec go (required : Bool) (len : Nat) (acc : List (Nat × Str)) : List Str → Except ParseErr (Nat × List (Nat × Str))
    | [] => .ok (len, acc.reverse)
    | p :: r =>
      match parseLength p dflt required with
      | .error e => .error e
      | .ok (v, b) =>
        go (subctl ≠ 'S') (if required ∨ v ≠ 0 then len + v else len) ((v, b) :: acc) r
  match go true 0 [] parts with
  | .error e => .error e
  | .ok (len, ls) => .ok ((if subctl = 'S' then (ls.head?.map (·.1)).getD 0 else len), ls)

/-- Token-level base of a parsed sublength (first letter, as `format_byte` does with `base[:1]`). -/
def baseOfStr (b : Str) : Base := (b.head?.bind baseOfChar).getD .n

end CtlText
