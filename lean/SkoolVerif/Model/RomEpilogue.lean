/-
The bytes of the 48K ROM that run after `LoadTracer.fast_load` hands control back: the `RET`
that ends LD-BYTES (0x05E2) and SA/LD-RET (0x053F-0x0555).  Data, not a model of code in /repo:
harness/props/c12.py compares it with skoolkit/resources/48.rom on every run.
-/
namespace RomEpilogue

def ldBytesRetAddr : Nat := 0x05E2
def ldBytesRet : Nat := 0xC9          -- RET

def saLdRetAddr : Nat := 0x053F
/-- SA/LD-RET, 0x053F-0x0555 -/
def saLdRet : List Nat :=
  [0xF5,              -- PUSH AF
   0x3A, 0x48, 0x5C,  -- LD A,(BORDCR)
   0xE6, 0x38,        -- AND $38
   0x0F, 0x0F, 0x0F,  -- RRCA x3
   0xD3, 0xFE,        -- OUT ($FE),A
   0x3E, 0x7F,        -- LD A,$7F
   0xDB, 0xFE,        -- IN A,($FE)
   0x1F,              -- RRA
   0xFB,              -- EI
   0x38, 0x02,        -- JR C,SA/LD-END
   0xCF, 0x0C,        -- RST 8 / DEFB 12 (BREAK - CONT repeats)
   0xF1,              -- SA/LD-END: POP AF
   0xC9]              -- RET

end RomEpilogue
