import SkoolVerif.Model.PathAlg
/-
Hand model of the part of skoolkit/skoolhtml.py that decides *which files are
written, which anchors they define and what every hyperlink to a disassembly
page looks like*:

  * `HtmlWriter.get_code_path`, `_get_asm_page_id`, `asm_fname`,
    `_asm_relpath`, `asm_anchor`                      (link construction)
  * `HtmlWriter.expand_r` + `SkoolParser.get_container`   (#R macro)
  * `InstructionUtility.calculate_references` (which entry an operand refers to)
    and the hyperlink branch of `HtmlWriter._get_asm_entry`  (operand links)
  * `write_entry` / `_write_asm_single_page` / `write_map` /
    `_should_write_map`                                (files and their anchors)

The site is described *after parsing*: entries with their instruction
addresses, `@remote` entries, the `[Paths]` values as path strings
(`PathAlg.Path`), the `AddressAnchor` and `CodeFiles` format strings as
functions of the address.  HTML templates are not modelled: a page is the list
of anchors (`id=`) it defines and the list of hrefs it contains.

`ι` = disassembly (code) ids, `α` = path component names, `β` = anchor names.
No imports outside `SkoolVerif.Model`: also used by the driver.
-/
namespace HtmlSite
open PathAlg

/-- Mnemonic class of an instruction with an address operand
(`calculate_references`: CALL, DEFW, DJNZ, JP, JR, 'LD ', RST). -/
inductive OpKind | call | defw | djnz | jp | jr | ld | rst
  deriving DecidableEq, Repr

structure Instr where
  addr : Nat
  /-- `(kind, address)` when the operation is one of the seven kinds above, is
  not an 8-bit LD, `get_address` finds an address operand and `@keep` does not
  protect it. -/
  operand : Option (OpKind × Nat)
  deriving DecidableEq, Repr

/-- `SkoolEntry` (`ctl` is the character code of the control directive). -/
structure Entry where
  addr : Nat
  ctl : Nat
  instrs : List Instr
  deriving DecidableEq, Repr

def ctlI : Nat := 105    -- 'i'
def ctlC : Nat := 99     -- 'c'

def Entry.addrs (e : Entry) : List Nat := e.instrs.map (·.addr)

/-- `RemoteEntry` created by `@remote=asm_id:address[,address…]`. -/
structure Remote (ι : Type) where
  asmId : ι
  addr : Nat
  addrs : List Nat       -- addresses of its instructions (the first one is `addr`)
  deriving Repr

/-- One `[MemoryMap:*]` page of a writer. -/
structure MapDef (α : Type) where
  path : Path α          -- paths[map_name]
  types : List Nat       -- EntryTypes
  includes : List Nat    -- Includes (already resolved to entry addresses)
  write : Bool           -- Write != '0'
  force : Bool           -- written unconditionally (the index page of an [OtherCode:*])

/-- One disassembly = one `HtmlWriter` (the main one or a clone made for an `[OtherCode:id]`). -/
structure Code (ι α : Type) where
  id : ι                          -- self.code_id
  codePath : Path α               -- paths['CodePath'] / paths[id-CodePath]
  singlePath : Path α             -- paths['AsmSinglePage'] / paths[id-AsmSinglePage]
  mapPath : Path α                -- `map_file` of write_entries: paths['MemoryMap'] / paths[id-Index]
  entries : List Entry            -- parser.memory_map, file order, 'i' entries included
  remotes : List (Remote ι)       -- parser._remote_entries, file order
  labels : List Nat               -- addresses whose first instruction has an ASM label
  maps : List (MapDef α)          -- [MemoryMap:*] sections this writer may write

structure Site (ι α β : Type) where
  base : List α                   -- os.getcwd()
  single : Bool                   -- asm_single_page
  mainId : ι                      -- 'main'
  lower : ι → ι                   -- str.lower
  fileOf : Nat → α                -- format_template(paths['CodeFiles'], address=…)
  anchorOf : Nat → β              -- format_template(game_vars['AddressAnchor'], address=…)
  linkOps : List OpKind           -- game_vars['LinkOperands']
  linkInternal : Bool             -- LinkInternalOperands != '0'
  lioMin : Nat                    -- LinkInternalOperandsMinDistance
  main : Code ι α
  others : List (Code ι α)

inductive Frag (β : Type) where
  | fmt (b : β)          -- an anchor produced by `asm_anchor`
  | raw (n : Nat)        -- a numeric `#name` typed in a #R macro, left as typed
  deriving DecidableEq, Repr

/-- A hyperlink: path part ('' for a same-page link) and fragment. -/
structure Href (α β : Type) where
  path : Path α
  frag : Option (Frag β)
  deriving DecidableEq, Repr

inductive HrefErr
  | notFound    -- MacroParsingError('Address not found')
  | noCode      -- SkoolKitError("Cannot find code path for … disassembly")
  | keyError    -- KeyError: paths[page id] in single-page mode
  | relErr      -- ValueError from posixpath.relpath('')
  deriving DecidableEq, Repr

/-- A written HTML file with the element ids the model accounts for. -/
structure Page (α β : Type) where
  path : Path α
  anchors : List β

variable {ι α β : Type} [DecidableEq ι] [DecidableEq α]

def Site.codes (s : Site ι α β) : List (Code ι α) := s.main :: s.others

/-- `HtmlWriter.memory_map`: the entries that get pages (no 'i' blocks). -/
def Code.mm (c : Code ι α) : List Entry := c.entries.filter (fun e => e.ctl != ctlI)

/-- `HtmlWriter.get_code_path(code_id)`. -/
def codePathOf (s : Site ι α β) (cid : ι) : Except HrefErr (Path α) :=
  if s.lower cid = s.lower s.mainId then .ok s.main.codePath
  else match s.others.find? (fun c => s.lower c.id = s.lower cid) with
    | some c => .ok c.codePath
    | none => .error .noCode

/-- `self.paths[self._get_asm_page_id(code_id)]` in single-page mode. -/
def singlePathOf (s : Site ι α β) (cid : ι) : Except HrefErr (Path α) :=
  if cid = s.mainId then .ok s.main.singlePath
  else match s.others.find? (fun c => c.id = cid) with
    | some c => .ok c.singlePath
    | none => .error .keyError

/-- `HtmlWriter.relpath(cwd, target)`. -/
def rel (s : Site ι α β) (cwd target : Path α) : Except HrefErr (Path α) :=
  match relpath s.base target cwd with
  | .ok r => .ok r
  | .error _ => .error .relErr

/-- `HtmlWriter.asm_fname(address)` = `normpath(join('', fname))`. -/
def asmFname (s : Site ι α β) (a : Nat) : Path α :=
  normpath (join [[.empty], [.name (s.fileOf a)]])

/-- Path of the page of the entry at `a` in directory `cp`: `join(cwd, asm_fname(a))`. -/
def entryPath (s : Site ι α β) (cp : Path α) (a : Nat) : Path α := join [cp, asmFname s a]

/-- `HtmlWriter._asm_relpath(cwd, address, code_id)` of the writer of `c`
(`cid = none`: the argument is falsy, `self.code_id` is used). -/
def asmRelpath (s : Site ι α β) (c : Code ι α) (cwd : Path α) (a : Nat) (cid : Option ι) :
    Except HrefErr (Href α β) :=
  let cid := cid.getD c.id
  if s.single then
    match singlePathOf s cid with
    | .error e => .error e
    | .ok p => match rel s cwd p with
      | .error e => .error e
      | .ok r => .ok ⟨r, some (.fmt (s.anchorOf a))⟩
  else
    match codePathOf s cid with
    | .error e => .error e
    | .ok cp => match rel s cwd (entryPath s cp a) with
      | .error e => .error e
      | .ok r => .ok ⟨r, none⟩

/-- `parser.get_container(address, '')`: first local entry with an instruction at `a`. -/
def localContainer (c : Code ι α) (a : Nat) : Option Entry :=
  c.entries.find? (fun e => e.addrs.contains a)

/-- `parser.get_container(address, code_id)` for a non-empty code id: first
remote entry whose asm id matches case-insensitively. -/
def remoteContainer (s : Site ι α β) (c : Code ι α) (a : Nat) (cid : ι) : Option (Remote ι) :=
  c.remotes.find? (fun r => s.lower r.asmId = s.lower cid && r.addrs.contains a)

/-- `HtmlWriter.expand_r`: the href of `#Raddr[@code][#anchor]` expanded by the
writer of `c` with working directory `cwd`.  `anchor` is the value of a
numeric `#name`. -/
def rHref (s : Site ι α β) (c : Code ι α) (cwd : Path α) (a : Nat) (cid : Option ι)
    (anchor : Option Nat) : Except HrefErr (Href α β) :=
  let cont : Option Nat := match cid with
    | none => (localContainer c a).map (·.addr)
    | some i => (remoteContainer s c a i).map (·.addr)
  if (cid.isNone || cid == some c.id) && cont.isNone then .error .notFound
  else if s.single then asmRelpath s c cwd a cid
  else
    let ca := cont.getD a
    let frag : Option (Frag β) := match anchor with
      | some n => if n = ca then some (.fmt (s.anchorOf ca)) else some (.raw n)
      | none => if a ≠ ca then some (.fmt (s.anchorOf a)) else none
    match asmRelpath s c cwd ca cid with
    | .error e => .error e
    | .ok h => .ok ⟨h.path, frag⟩

/-- What an operand refers to (`Reference`): the entry, its asm id (`none` for
an entry of this skool file) and the address. -/
structure Ref (ι : Type) where
  entryAddr : Nat
  asmId : Option ι
  addr : Nat

/-- `InstructionUtility.calculate_references` for one operand: the dictionary
`{i.address: (i, e) for e in remote_entries + entries for i in e.instructions}`
makes the *last* local entry win, then the last remote entry. -/
def resolveRef (c : Code ι α) (op : OpKind) (a : Nat) : Option (Ref ι) :=
  match c.entries.reverse.find? (fun e => e.addrs.contains a) with
  | some e =>
    if e.ctl != ctlI && (e.ctl == ctlC || op == .defw || op == .ld) then some ⟨e.addr, none, a⟩
    else none
  | none =>
    match c.remotes.reverse.find? (fun r => r.addrs.contains a) with
    | some r => some ⟨r.addr, some r.asmId, a⟩
    | none => none

def absDiff (a b : Nat) : Nat := if a ≤ b then b - a else a - b

/-- The hyperlink branch of `HtmlWriter._get_asm_entry` for the instruction at
`ia` of entry `e`: `none` = the operand is left as plain text.  The
single-page branch is the code after the fix in /repo (commit "fix:
single-page HTML operand links to entries in other disassemblies"): a
reference into another disassembly goes through `_asm_relpath`; before the
fix it was the same-page fragment `#anchor`, which no element of the page
defines (re-detected by the end-to-end check under the key
`single-page-operand-link-to-remote-entry`). -/
def operandHref (s : Site ι α β) (c : Code ι α) (cwd : Path α) (e : Entry) (ia : Nat)
    (op : OpKind) (target : Nat) : Option (Except HrefErr (Href α β)) :=
  match resolveRef c op target with
  | none => none
  | some ref =>
    if !s.linkOps.contains op then none
    else
      let hasLabel := c.labels.contains ref.addr
      let external := !(ref.asmId.isNone && ref.entryAddr == e.addr)
      let linkIo := s.linkInternal && decide (absDiff ia ref.addr ≥ s.lioMin)
      if !(hasLabel || external || linkIo) then none
      else if s.single then
        match ref.asmId with
        | some i => some (asmRelpath s c cwd ref.addr (some i))
        | none => some (.ok ⟨[.empty], some (.fmt (s.anchorOf ref.addr))⟩)
      else
        match asmRelpath s c cwd ref.entryAddr ref.asmId with
        | .error er => some (.error er)
        | .ok h =>
          if !(external && ref.addr == ref.entryAddr) then
            some (.ok ⟨h.path, some (.fmt (s.anchorOf ref.addr))⟩)
          else some (.ok h)

/-- `entry_dict['href']` (memory maps, Prev/Next). -/
def entryHref (s : Site ι α β) (c : Code ι α) (cwd : Path α) (e : Entry) : Except HrefErr (Href α β) :=
  asmRelpath s c cwd e.addr none

/-- `entry_dict['map_href']` ('Up'). -/
def mapHref (s : Site ι α β) (c : Code ι α) (cwd : Path α) (e : Entry) : Except HrefErr (Href α β) :=
  match rel s cwd c.mapPath with
  | .error er => .error er
  | .ok r => .ok ⟨r, some (.fmt (s.anchorOf e.addr))⟩

/-! ### Files written -/

/-- `write_map`: `entry.ctl in entry_types or entry.address in Includes`. -/
def inMap (m : MapDef α) (e : Entry) : Bool := m.types.contains e.ctl || m.includes.contains e.addr

/-- `_should_write_map` (or the unconditional `write_map` of an other-code index). -/
def shouldWrite (c : Code ι α) (m : MapDef α) : Bool :=
  m.force || (m.write && (!m.includes.isEmpty || c.mm.any (fun e => m.types.contains e.ctl)))

def mapPages (s : Site ι α β) (c : Code ι α) : List (Page α β) :=
  (c.maps.filter (shouldWrite c)).map
    (fun m => ⟨m.path, (c.mm.filter (inMap m)).map (fun e => s.anchorOf e.addr)⟩)

/-- `write_entries`: one page per entry, or the single page. -/
def asmPages (s : Site ι α β) (c : Code ι α) : List (Page α β) :=
  if s.single then
    [⟨c.singlePath, c.mm.flatMap (fun e => s.anchorOf e.addr :: e.addrs.map s.anchorOf)⟩]
  else
    c.mm.map (fun e => ⟨entryPath s c.codePath e.addr, e.addrs.map s.anchorOf⟩)

def codePages (s : Site ι α β) (c : Code ι α) : List (Page α β) := asmPages s c ++ mapPages s c

def pages (s : Site ι α β) : List (Page α β) := s.codes.flatMap (codePages s)

/-- The directory that link construction uses for the page of entry `e`
(`write_entries(cwd=code_path, …)`), for the single page and for a map page
(`_set_cwd`: `os.path.dirname(fname)`). -/
def asmCwd (s : Site ι α β) (c : Code ι α) : Path α :=
  if s.single then dirname c.singlePath else c.codePath

/-! ### The structural links of the written pages (templates `asm`, `asm_single_page`, `memory_map`) -/

inductive LinkKind | prev | next | up | operand | mapEntry
  deriving DecidableEq, Repr

structure Link (α β : Type) where
  page : Path α                          -- the file that contains the link
  kind : LinkKind
  href : Except HrefErr (Href α β)

/-- Each entry with its predecessor and successor in `memory_map` (`write_entry`: `index - 1`, `index + 1`). -/
def withNeighbours : Option Entry → List Entry → List (Option Entry × Entry × Option Entry)
  | _, [] => []
  | p, e :: rest => (p, e, rest.head?) :: withNeighbours (some e) rest

/-- The hyperlinked operands of the instructions of `e` (`_get_asm_entry`). -/
def operandLinks (s : Site ι α β) (c : Code ι α) (pp cwd : Path α) (e : Entry) : List (Link α β) :=
  e.instrs.filterMap (fun i => match i.operand with
    | some (op, t) => (operandHref s c cwd e i.addr op t).map (fun r => ⟨pp, .operand, r⟩)
    | none => none)

/-- Links of the disassembly pages of one writer: Prev / Up / Next and operand links of every
entry page, or the operand links of the single page (its template has no navigation). -/
def asmLinks (s : Site ι α β) (c : Code ι α) : List (Link α β) :=
  let cwd := asmCwd s c
  if s.single then c.mm.flatMap (operandLinks s c c.singlePath cwd)
  else (withNeighbours none c.mm).flatMap (fun (p, e, n) =>
    let pp := entryPath s c.codePath e.addr
    (match p with | some x => [⟨pp, .prev, entryHref s c cwd x⟩] | none => [])
      ++ [⟨pp, .up, mapHref s c cwd e⟩]
      ++ (match n with | some x => [⟨pp, .next, entryHref s c cwd x⟩] | none => [])
      ++ operandLinks s c pp cwd e)

/-- Links of the memory-map pages: one per listed entry (`write_map`, cwd = dirname of the page). -/
def mapLinks (s : Site ι α β) (c : Code ι α) : List (Link α β) :=
  (c.maps.filter (shouldWrite c)).flatMap (fun m =>
    (c.mm.filter (inMap m)).map (fun e => ⟨m.path, .mapEntry, entryHref s c (dirname m.path) e⟩))

def siteLinks (s : Site ι α β) : List (Link α β) := s.codes.flatMap (fun c => asmLinks s c ++ mapLinks s c)

/-- Executable form of the well-formedness predicate `WF` the theorems assume
(SkoolVerif/Proofs/HtmlSiteLemmas.lean proves `wfCheck s = true → WF s`); the correspondence check
evaluates it on every site extracted from a real run. -/
def wfCheck (s : Site ι α β) : Bool :=
  decide (∀ c ∈ s.codes, IsRel c.codePath)
  && decide (∀ c ∈ s.codes, IsRel c.singlePath ∧ isEmptyStr c.singlePath = false)
  && decide (∀ c ∈ s.codes, IsRel c.mapPath ∧ isEmptyStr c.mapPath = false)
  && decide (s.main.id = s.mainId)
  && decide (s.codes.Pairwise (fun a b => s.lower a.id ≠ s.lower b.id))
  && decide (∀ c ∈ s.codes, ∀ e ∈ c.entries, e.addr ∈ e.addrs)
  && decide (∀ c ∈ s.codes, (c.entries.flatMap Entry.addrs).Nodup)
  && decide (∀ c ∈ s.codes, ∀ r ∈ c.remotes, ∃ d ∈ s.codes, d.id = r.asmId ∧
      ∃ e ∈ d.mm, e.addr = r.addr ∧ ∀ a ∈ r.addrs, a ∈ e.addrs)
  && decide (∀ c ∈ s.codes, ∀ m ∈ c.maps, IsRel m.path)
  && decide (∀ c ∈ s.codes, ∃ m ∈ c.maps, m.path = c.mapPath ∧ shouldWrite c m = true ∧
      ∀ e ∈ c.mm, inMap m e = true)

/-- The file a reference found in page `page` points at. -/
def targetOf (page : Path α) (h : Href α β) : Path α :=
  if isEmptyStr h.path then page else posixJoin (dirname page) h.path

end HtmlSite
