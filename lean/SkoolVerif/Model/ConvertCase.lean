/-
Hand model of `z80.Assembler.convert_case(operation, lower, trim=False)` as used by
`skoolparser.InstructionUtility._convert_case` for skool2asm's -l / -u options (C04):

    convert = True
    while i < len(operation):
        c = operation[i]
        if c == '"':                    convert = not convert
        elif c == '\\' and not convert: converted += operation[i:i + 2]; i += 2; continue
        if convert:
            if c.isspace():  converted += ' '          # (trim=False)
            elif lower:      converted += c.lower()
            else:            converted += c.upper()
        else:                converted += c
        i += 1

Text is a `List Char`, ASCII only (Python's `upper()` may change the length of non-ASCII text).
Core Lean only (the driver imports this file).
-/
namespace ConvertCase

def isSpace (c : Char) : Bool := c == ' ' || c == '\t' || c == '\n' || c == '\r' || c == '\x0b' || c == '\x0c'

def lowerC (c : Char) : Char := if 'A' ≤ c && c ≤ 'Z' then Char.ofNat (c.toNat + 32) else c
def upperC (c : Char) : Char := if 'a' ≤ c && c ≤ 'z' then Char.ofNat (c.toNat - 32) else c

/-- A character outside a string. -/
def conv1 (lower : Bool) (c : Char) : Char :=
  if isSpace c then ' ' else if lower then lowerC c else upperC c

/-- Automaton state: outside a string (`convert = True`), inside a string, inside a string right
after a backslash (the `operation[i:i + 2]` copy of the escaped character). -/
inductive Q | out | str | esc
  deriving DecidableEq, Repr

def go (lower : Bool) : Q → List Char → List Char
  | _, [] => []
  | .out, c :: cs =>
    if c == '"' then c :: go lower .str cs          -- opening quote: copied as it is
    else conv1 lower c :: go lower .out cs
  | .str, c :: cs =>
    if c == '"' then conv1 lower c :: go lower .out cs   -- closing quote (goes through the convert branch)
    else if c == '\\' then c :: go lower .esc cs
    else c :: go lower .str cs
  | .esc, c :: cs => c :: go lower .str cs

/-- `Assembler.convert_case(operation, lower)`. -/
def convertCase (lower : Bool) (s : List Char) : List Char := go lower .out s

/-- Which characters are inside a string (quotes and escapes included): computed by the same
automaton. -/
def mask : Q → List Char → List Bool
  | _, [] => []
  | .out, c :: cs => if c == '"' then true :: mask .str cs else false :: mask .out cs
  | .str, c :: cs =>
    if c == '"' then true :: mask .out cs
    else if c == '\\' then true :: mask .esc cs
    else true :: mask .str cs
  | .esc, _ :: cs => true :: mask .str cs

end ConvertCase
