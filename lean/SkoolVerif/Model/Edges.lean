/-
Hand model of the tape edge generator `get_edges` (and `_check_polarity`,
`_get_tape_block_timings`, `DataBlock.adjust`) in skoolkit/tape.py.

Timestamps (T-states) are `Int` (`first_edge` is an arbitrary Python int and
`tail` starts at `first_edge - 1`); pulse durations, counts and bytes are `Nat`
(every parser produces non-negative values).  The `analyse=True` printing is
not modelled (it does not influence the returned values, except that
`analysis.pop()` runs next to `edges.pop()`).

No imports: this file is also used by the line-protocol driver.
-/
namespace Edges

/-- `TapeBlockTimings` (the `error` field is handled by the callers of
`get_edges`, never by `get_edges` itself). -/
structure Timings where
  pulses   : List (Nat × Nat) := []      -- (count, duration)
  zero     : List Nat := []
  one      : List Nat := []
  pause    : Nat := 0
  usedBits : Nat := 8
  isData   : Bool := false               -- `timings.data`
  tail     : Nat := 0
  polarity : Option Nat := none
  deriving Repr, DecidableEq

/-- The attributes of `TapeBlock` that `get_edges` reads.  `keys` is an opaque
token (`none` = Python `None`; the callers only ever set `None` or a non-empty
list, so truthiness = `isSome`). -/
structure Block where
  timings : Timings
  data    : List Nat := []
  keys    : Option Nat := none
  deriving Repr, DecidableEq

/-- `DataBlock` (`stop` is the Python attribute `end`). -/
structure DataBlock where
  data     : List Nat
  start    : Nat
  stop     : Nat
  keys     : Option Nat
  fastLoad : Bool
  deriving Repr, DecidableEq

/-- `_check_polarity` (without the analysis line). -/
def checkPolarity (tp : Option Nat) (pol : Int) (edges : List Int) (t : Int) : List Int :=
  match tp with
  | none => edges
  | some p =>
    if (edges.length - 1) % 2 ≠ p ^^^ (pol % 2).toNat then edges ++ [t] else edges

/-- `for d in ds: tstates += d; edges.append(tstates)` -/
def emit : List Nat → List Int × Int → List Int × Int
  | [], s => s
  | d :: ds, (e, t) => emit ds (e ++ [t + d], t + d)

/-- `for count, duration in timings.pulses: for n in range(count): …` -/
def expand (pulses : List (Nat × Nat)) : List Nat :=
  pulses.flatMap fun cd => List.replicate cd.1 cd.2

/-- The pulse sequence of `n` bits of byte `b`, most significant first:
`for j in range(n): seq.extend(one if b & 0x80 else zero); b *= 2`. -/
def bitSeq (zero one : List Nat) : Nat → Nat → List Nat
  | _, 0 => []
  | b, n + 1 => (if b.testBit 7 then one else zero) ++ bitSeq zero one (b * 2) n

/-- `b_timings[v]` -/
def byteTimings (zero one : List Nat) (v : Nat) : List Nat := bitSeq zero one v 8

/-- The durations emitted by the table path (no zero-length bit pulse):
all eight bits of every byte but the last (`b_timings[b]`), then the last byte bit by bit:
`b = data[-1]; for j in range(min(used_bits, 8)): (one if b & 0x80 else zero); b *= 2`. -/
def fastSeq (zero one : List Nat) (ub : Nat) (data : List Nat) : List Nat :=
  (data.dropLast.flatMap (byteTimings zero one)) ++ bitSeq zero one (data.getLastD 0) (min ub 8)

/-- The durations visited by the merge loop (some bit pulse has length 0):
`for k, b in enumerate(data, 1): for j in range(8 if k < len(data) else used_bits): …` -/
def slowSeq (zero one : List Nat) (ub : Nat) : List Nat → List Nat
  | [] => []
  | [b] => bitSeq zero one b ub
  | b :: rest => bitSeq zero one b 8 ++ slowSeq zero one ub rest

/-- `edges[-1] += d` -/
def bumpLast (d : Int) : List Int → List Int
  | [] => []
  | [x] => [x + d]
  | x :: xs => x :: bumpLast d xs

/-- State of the merge loop: `edges`, `tstates`, `p`, `q`. -/
structure MSt where
  edges : List Int
  t : Int
  p : Nat
  q : Nat
  deriving Repr, DecidableEq

/-- Body of `for d in …` in the merge loop. -/
def mergeStep (s : MSt) (d : Nat) : MSt :=
  let s1 : MSt :=
    if d ≠ 0 then
      if s.p = s.q then { s with t := s.t + d, edges := s.edges ++ [s.t + d], q := 1 - s.q }
      else { s with t := s.t + d, edges := bumpLast d s.edges }
    else s
  { s1 with p := 1 - s1.p }

def hasZero (tm : Timings) : Bool := tm.zero.contains 0 || tm.one.contains 0

/-- The `# Data` part for truthy `data`, up to but excluding the tail pulse. -/
def dataEdges (tm : Timings) (data : List Nat) (s : List Int × Int) : List Int × Int :=
  if hasZero tm then
    let r := (slowSeq tm.zero tm.one tm.usedBits data).foldl mergeStep ⟨s.1, s.2, 0, 0⟩
    (r.edges, r.t)
  else
    emit (fastSeq tm.zero tm.one tm.usedBits data) s

/-- Loop state of `get_edges`. -/
structure St where
  edges : List Int
  t     : Int
  tail  : Int
  keys  : Option Nat
  dbs   : List DataBlock
  deriving Repr, DecidableEq

/-- `# Pulses` -/
def pulsePhase (pol : Int) (b : Block) (s : St) : St :=
  if b.timings.pulses ≠ [] then
    let e0 := checkPolarity b.timings.polarity pol s.edges s.t
    let r := emit (expand b.timings.pulses) (e0, s.t)
    { s with edges := r.1, t := r.2 }
  else s

/-- `# Data` (+ tail pulse, + the `DataBlock` bookkeeping, + the `elif`). -/
def dataPhase (pol : Int) (isLast : Bool) (b : Block) (s : St) : St :=
  let tm := b.timings
  if b.data ≠ [] then
    let e0 := checkPolarity tm.polarity pol s.edges s.t
    let start := e0.length - 1
    let r := dataEdges tm b.data (e0, s.t)
    let s2 : St :=
      if tm.tail ≠ 0 then
        { s with edges := r.1 ++ [r.2 + tm.tail], t := r.2 + tm.tail, tail := r.2 + tm.tail }
      else { s with edges := r.1, t := r.2 }
    let db : DataBlock :=
      if hasZero tm then ⟨b.data, s2.edges.length - 1, s2.edges.length - 1, s.keys, false⟩
      else ⟨b.data, start, s2.edges.length - 1, s.keys, true⟩
    { s2 with dbs := s.dbs ++ [db], keys := none }
  else if tm.isData || (isLast && tm.pulses ≠ []) then
    { s with dbs := s.dbs ++ [⟨[], s.edges.length - 1, s.edges.length - 1, s.keys, false⟩],
             keys := none }
  else s

/-- `# Pause` -/
def pausePhase (pol : Int) (isLast : Bool) (b : Block) (s : St) : St :=
  if !isLast && b.timings.pause ≠ 0 then
    { s with edges := checkPolarity b.timings.polarity pol s.edges s.t, t := s.t + b.timings.pause }
  else s

/-- `keys = block.keys or keys` -/
def setKeys (b : Block) (s : St) : St :=
  { s with keys := if b.keys.isSome then b.keys else s.keys }

/-- One iteration of `for i, block in enumerate(blocks)`;
`isLast` is `i == len(blocks) - 1`. -/
def stepBlock (pol : Int) (isLast : Bool) (b : Block) (s : St) : St :=
  pausePhase pol isLast b (dataPhase pol isLast b (pulsePhase pol b (setKeys b s)))

/-- The `for` loop. -/
def runBlocks (pol : Int) : List Block → St → St
  | [], s => s
  | [b], s => stepBlock pol true b s
  | b :: rest, s => runBlocks pol rest (stepBlock pol false b s)

def initSt (firstEdge pol : Int) : St :=
  { edges := if pol % 2 ≠ 0 then [firstEdge, firstEdge] else [firstEdge],
    t := firstEdge, tail := firstEdge - 1, keys := none, dbs := [] }

/-- `DataBlock.adjust` applied to the last element of `data_blocks`. -/
def adjustLast (maxIndex : Nat) : List DataBlock → List DataBlock
  | [] => []
  | [d] => [{ d with start := min d.start maxIndex, stop := min d.stop maxIndex }]
  | d :: ds => d :: adjustLast maxIndex ds

/-- The code after the loop: `if edges[-1] == tail: edges.pop(); …adjust(len(edges) - 1)`. -/
def finish (s : St) : List Int × List DataBlock :=
  if s.edges.getLast? = some s.tail then
    (s.edges.dropLast, adjustLast (s.edges.dropLast.length - 1) s.dbs)
  else (s.edges, s.dbs)

/-- `get_edges(blocks, first_edge, polarity)` → `(edges, data_blocks)`. -/
def getEdges (blocks : List Block) (firstEdge pol : Int) : List Int × List DataBlock :=
  finish (runBlocks pol blocks (initSt firstEdge pol))

/-- `_get_tape_block_timings(first_byte, pause)` -/
def romTimings (firstByte : Nat) (pause : Nat := 3500000) : Timings :=
  { pulses := [(3223 + 4840 * (if firstByte = 0 then 1 else 0), 2168), (1, 667), (1, 735)],
    zero := [855, 855], one := [1710, 1710], pause := pause }

end Edges
