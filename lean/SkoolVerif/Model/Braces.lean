import SkoolVerif.Model.AsmRows
/-
Hand models of the two sides of the "braces in instruction comments" rules:

* reader: `parse_address_comments` (skoolkit/skoolutils.py:411-443) — for each
  commented instruction, how many instructions its comment spans (`rowspan`)
  and the comment text after removing the delimiting braces;
* writer: `SkoolWriter._format_instruction_comments` +
  `_set_instruction_comments` (skoolkit/snaskool.py:397-452) for a sub-block
  with one comment text (no repeat flag, no generated comments/timings): the
  opening/closing braces it adds, the wrapping, and the distribution of the
  wrapped lines over the instructions.

Strings are `List Nat` (code points); `{` = 123, `}` = 125.
-/
namespace Braces
open Wrap AsmRows

def count (c : Nat) (s : Str) : Int := (s.filter (· == c)).length

/-- `comment.count('{') - comment.count('}')` -/
def bal (s : Str) : Int := count 123 s - count 125 s

/-- `' '.join(strs)` -/
def joinSp : List Str → Str
  | [] => []
  | [s] => s
  | s :: r => s ++ [32] ++ joinSp r

def lstripC (c : Nat) (s : Str) : Str := s.dropWhile (· == c)
def rstripC (c : Nat) (s : Str) : Str := (s.reverse.dropWhile (· == c)).reverse

/-- `comment_lines[0] = comment_lines[0].lstrip('{')`; then drop one space before a brace. -/
def stripOpen (s : Str) : Str :=
  let t := lstripC 123 s
  match t with
  | 32 :: 123 :: r => 123 :: r
  | _ => t

/-- `comment_lines[-1] = comment_lines[-1].rstrip('}')`; then drop one space after a brace. -/
def stripClose (s : Str) : Str :=
  let t := rstripC 125 s
  match t.reverse with
  | 32 :: 125 :: r => (125 :: r).reverse
  | _ => t

def modifyHead (f : Str → Str) : List Str → List Str
  | [] => []
  | s :: r => f s :: r

def modifyLast (f : Str → Str) : List Str → List Str
  | [] => []
  | [s] => [f s]
  | s :: r => s :: modifyLast f r

/-- The `while nesting > 0:` loop: consumes the comments of the following
instructions (`none` = a comment that belongs to no instruction: entry
boundary or mid-block comment).  Returns the consumed comment-line lists. -/
def spanGo : Int → List (Option (List Str)) → List (List Str)
  | _, [] => []
  | _, none :: _ => []
  | nesting, some ls :: rest =>
    if nesting > 0 then ls :: spanGo (nesting + bal (joinSp ls)) rest else []

/-- One commented instruction: `(rowspan, text)` as passed to `set_comment`
(`keep_lines=False`). `first` = its comment lines, `rest` = what follows. -/
def decodeOne (first : List Str) (rest : List (Option (List Str))) : Nat × Str :=
  let comment := joinSp first
  if comment.head? = some 123 then
    let more := spanGo (bal comment) rest
    let grouped := modifyHead stripOpen first :: more
    -- `comment_lines` is the last list; its last line loses the closing braces
    let grouped' := match grouped.reverse with
      | last :: before => (modifyLast stripClose last :: before).reverse
      | [] => []
    (1 + more.length, strip (joinSp (grouped'.flatten.filter (· ≠ []))))
  else (1, strip (joinSp (first.filter (· ≠ []))))

/-- The outer loop of `parse_address_comments`: the `(rowspan, text)` given to
each instruction that receives a comment, in order. -/
def decodeAll : Nat → List (Option (List Str)) → List (Nat × Str)
  | 0, _ => []
  | _, [] => []
  | fuel + 1, none :: rest => decodeAll fuel rest
  | fuel + 1, some first :: rest =>
    let r := decodeOne first rest
    r :: decodeAll fuel (rest.drop (r.1 - 1))

/-! ### the writer -/

/-- Number of opening braces chosen by `_format_instruction_comments`
(`multi_line and balance < 0`: `1 - balance`, else 1). -/
def snaOpenCount (multi : Bool) (balance : Int) : Nat :=
  if multi ∧ balance < 0 then (1 - balance).toNat else 1

/-- `closing = '}' * max(1 + balance, 1)` -/
def snaCloseCount (balance : Int) : Nat := (max (1 + balance) 1).toNat

/-- `_format_instruction_comments` + `_set_instruction_comments` for `n`
instructions sharing one comment text; result: the comment lines of each
instruction (`none` = the instruction line is written without `;`). -/
def snaFormat (n : Nat) (text : Str) (width : Int) : Except WrapErr (List (Option (List Str))) :=
  let multi : Bool := n > 1 ∧ text ≠ []
  let comment : Str := if multi ∧ text.all (· == 46) then text.drop 1 else text
  let braced : Bool := multi ∨ comment.head? = some 123
  let balance := bal comment
  let opening : Str := if braced then
      List.replicate (snaOpenCount multi balance) 123 ++ (if comment.head? = some 123 then [32] else [])
    else []
  let closing : Str := if braced then
      (if comment.getLast? = some 125 then [32] else []) ++ List.replicate (snaCloseCount balance) 125
    else []
  match wrapText (opening ++ comment) width with
  | .error e => .error e
  | .ok lines =>
    -- one line per instruction while lines last; then '' (if closing) or None
    let firsts : List (Option (List Str)) := (List.range n).map fun i =>
      match lines[i]? with
      | some l => some [l]
      | none => if closing ≠ [] then some [[]] else none
    -- the last instruction takes the remaining lines
    let extra := lines.drop n
    let addClosing (c : List Str) : List Str :=
      if closing = [] then c else
      match c.reverse with
      | last :: before =>
        if (last.length + closing.length : Int) ≤ width then
          ((last ++ closing).dropWhile pySpace :: before).reverse
        else (closing.dropWhile pySpace :: last :: before).reverse
      | [] => c
    .ok (match firsts.reverse with
      | lastI :: before =>
        let l := match lastI with
          | some c => some (addClosing (c ++ extra))
          | none => if extra = [] then none else some (addClosing extra)   -- not reached: see below
        (l :: before).reverse
      | [] => [])

end Braces
