import SkoolVerif.Model.CtlTiling
/-
Hand model of statement splitting:
  `skoolkit/disassembler.py`: `Disassembler._defb_line`, `defb_items` (item structure only),
  `_defb_lines`, `defb_range`, `defm_range`, `_defw_lines`, `defw_range`, `defs_range`,
  `disassemble` (the address walk: `address += length`, 64K wrap / DEFB fallback, RST arguments;
  instruction decoding itself is abstracted as a length oracle and belongs to C02/C07);
  `skoolkit/snaskool.py`: the sub-block loop of `Disassembly._create_entries`.

The snapshot is a `List Nat`; Python slices `snapshot[a:b]` are `slice`.  Operand *text* is not
modelled: a statement carries the abstract content `Op` of its operation, whose meaning
`Op.assemble` is what the assembler must produce for it (this is what C02 establishes for the
rendered text).  Python exceptions are `Except Err`.
-/
namespace Stmts
open CtlTiling

inductive Err
  | index      -- IndexError (`snapshot[i]` beyond the end)
  | key        -- KeyError (`set().pop()` on an empty slice in `defs_range`)
  | value      -- ValueError (`range()` with step 0: `DefwSize=0`)
  deriving DecidableEq, Repr

/-- abstract content of an operation -/
inductive Op
  /-- `DEFB`/`DEFM` (`defm`): the item groups made by `defb_items`, one per sublength -/
  | defb (defm : Bool) (groups : List (List Nat))
  /-- `DEFW w1,w2,...` -/
  | defw (words : List Nat)
  /-- `DEFS span[,value]` (`value` omitted in the text when it is 0) -/
  | defs (span value : Nat)
  /-- an instruction decoded at `addr` -/
  | code (addr : Nat)
  /-- `''`: the placeholder instruction of an ignored sub-block -/
  | blank
  deriving DecidableEq, Repr

/-- What the assembler produces for an operation; `asm a` stands for assembling the text of the
instruction decoded at `a` (or its `@bytes` directive). -/
def Op.assemble (asm : Nat → List Nat) : Op → List Nat
  | .defb _ gs => gs.flatten
  | .defw ws => ws.flatMap (fun w => [w % 256, w / 256])
  | .defs span v => List.replicate span v
  | .code a => asm a
  | .blank => []

/-- `imaker(address, operation, data)` -/
structure Stmt where
  addr : Nat
  op : Op
  bytes : List Nat
  deriving DecidableEq, Repr

/-- `snapshot[a:b]` -/
def slice (mem : List Nat) (a b : Nat) : List Nat := (mem.drop a).take (b - a)

/-- `sublengths[0][0]` (sublength lists are never empty: `get_blocks` supplies `((0, base),)`) -/
def firstSize (subl : Sublens) : Nat := (subl.head?.map (·.1)).getD 0
/-- `sublengths[0][1]` -/
def firstBase (subl : Sublens) : String := (subl.head?.map (·.2)).getD "n"

/-- `defb_items(data, sublengths)`: the slices `data[i:i+size]`, `size = len(data)` when 0 -/
def defbItems (data : List Nat) : Nat → Sublens → List (List Nat)
  | _, [] => []
  | i, (size, _) :: rest =>
    let size' := if size = 0 then data.length else size
    slice data i (i + size') :: defbItems data (i + size') rest

/-- `_defb_line(address, data, sublengths, defm)` -/
def defbLine (defm : Bool) (addr : Nat) (data : List Nat) (subl : Sublens) : Stmt :=
  { addr := addr, op := .defb defm (defbItems data 0 subl), bytes := data }

/-- the `for i in range(start, end)` loop of `_defb_lines`; `lastI` is the final value of `i` -/
def defbLoop (mem : List Nat) (defm : Bool) (subl : Sublens) (maxSize lastI : Nat) :
    List Nat → List Nat → List Stmt
  | [], data => if data.isEmpty then [] else [defbLine defm (lastI + 1 - data.length) data subl]
  | i :: rest, data =>
    let data' := data ++ [mem.getD i 0]
    if data'.length = maxSize then
      defbLine defm (i + 1 - data'.length) data' subl :: defbLoop mem defm subl maxSize lastI rest []
    else defbLoop mem defm subl maxSize lastI rest data'

/-- `_defb_lines(start, end, sublengths, defm)` with `max_size = defm_size if defm else defb_size` -/
def defbLines (mem : List Nat) (defm : Bool) (maxSize start end_ : Nat) (subl : Sublens) : Except Err (List Stmt) :=
  if firstSize subl ≠ 0 ∨ end_ - start ≤ maxSize then
    .ok [defbLine defm start (slice mem start end_) subl]
  else if end_ > mem.length then .error .index          -- `self.snapshot[i]`
  else .ok (defbLoop mem defm subl maxSize (end_ - 1) (List.range' start (end_ - start)) [])

/-- state of `_defw_lines`: `data` (may be truncated by an odd tail), `items` as word values,
the DEFB statements appended for odd tails -/
structure DwSt where
  data : List Nat
  words : List Nat
  tails : List Stmt
  deriving Repr

/-- body of `for j in range(i, min(i + length, len(data)), 2)` -/
def dwStep (start : Nat) (base : String) (st : DwSt) (j : Nat) : DwSt :=
  if j + 1 = st.data.length then
    { st with tails := st.tails ++ [defbLine false (start + j) (st.data.drop j) [(1, base)]],
              data := st.data.take j }
  else { st with words := st.words ++ [st.data.getD j 0 + 256 * st.data.getD (j + 1) 0] }

/-- `range(i, min(i + length, n), 2)` -/
def jRange (i length n : Nat) : List Nat := List.range' i ((min (i + length) n - i + 1) / 2) 2

/-- the `for length, base in sublengths` loop of `_defw_lines` -/
def defwGo (start : Nat) : Sublens → Nat → DwSt → DwSt
  | [], _, st => st
  | (length, base) :: rest, i, st =>
    defwGo start rest (i + length) ((jRange i length st.data.length).foldl (dwStep start base) st)

/-- `_defw_lines(start, end, sublengths)` -/
def defwLines (mem : List Nat) (start end_ : Nat) (subl : Sublens) : List Stmt :=
  let st := defwGo start subl 0 { data := slice mem start end_, words := [], tails := [] }
  if st.words.isEmpty then st.tails
  else { addr := start, op := .defw st.words, bytes := st.data } :: st.tails

/-- `defw_range(start, end, sublengths)` -/
def defwRange (mem : List Nat) (defwSize start end_ : Nat) (subl : Sublens) : Except Err (List Stmt) :=
  if firstSize subl ≠ 0 then .ok (defwLines mem start end_ subl)
  else
    let size := defwSize * 2
    if size = 0 then .error .value
    else .ok ((List.range' start ((end_ - start + size - 1) / size) size).flatMap (fun address =>
      let size' := if address + size > end_ then
          (if (end_ - address) % 2 = 1 then end_ - address + 1 else end_ - address)
        else size
      defwLines mem address (address + size') [(size', firstBase subl)]))

/-- `defs_range(start, end, sublengths)` -/
def defsRange (mem : List Nat) (defbSize start end_ : Nat) (subl : Sublens) : Except Err (List Stmt) :=
  match slice mem start end_ with
  | [] => .error .key
  | v :: rest =>
    if rest.all (· == v) then
      let size := firstSize subl
      .ok [{ addr := start, op := .defs (if size ≠ 0 then size else end_ - start) v, bytes := v :: rest }]
    else defbLines mem false defbSize start end_ [(0, "n")]

structure Config where
  defbSize : Nat := 8
  defmSize : Nat := 65
  defwSize : Nat := 1
  wrap : Bool := false
  deriving Repr

/-- `length` in `_create_entries` -/
def dataLength (ctl : Char) (subl : Sublens) (start end_ : Nat) : Nat :=
  if firstSize subl ≠ 0 then
    (if ctl = 's' then firstSize subl else (subl.map (·.1)).sum)
  else end_ - start

/-- one iteration's dispatch on `sub_block.ctl` -/
def dataRange (mem : List Nat) (cfg : Config) (ctl : Char) (subl : Sublens) (a e : Nat) : Except Err (List Stmt) :=
  if ctl = 't' then defbLines mem true cfg.defmSize a e subl
  else if ctl = 'w' then defwRange mem cfg.defwSize a e subl
  else if ctl = 's' then defsRange mem cfg.defbSize a e subl
  else defbLines mem false cfg.defbSize a e subl

/-- `while address < sub_block.end:` of `_create_entries` (`fuel` bounds the iterations) -/
def dataLoop (mem : List Nat) (cfg : Config) (ctl : Char) (subl : Sublens) (length end_ : Nat) :
    Nat → Nat → Except Err (List Stmt)
  | 0, _ => .ok []
  | fuel + 1, address =>
    if address < end_ then do
      let a ← dataRange mem cfg ctl subl address (min (address + length) end_)
      let b ← dataLoop mem cfg ctl subl length end_ fuel (address + length)
      pure (a ++ b)
    else .ok []

/-- The decoding oracle: `len a` is the length the decoder returns for the instruction at `a`
(at least 1), `rst a` is `rst_handler.handle(snapshot, a)` as `(is 'W', sublengths)`. -/
structure Dec where
  len : Nat → Nat
  rst : Nat → Option (Bool × Sublens) := fun _ => none

/-- the instruction made in one iteration of `disassemble` -/
def codeIns (mem : List Nat) (wrap : Bool) (address length : Nat) : Stmt :=
  if address + length ≤ 65536 then
    { addr := address, op := .code address, bytes := slice mem address (address + length) }
  else if wrap then
    { addr := address, op := .code address,
      bytes := slice mem address 65536 ++ slice mem 0 ((address + length) % 65536) }
  else defbLine false address (slice mem address 65536) [(0, "n")]

/-- the RST-argument statements and `ra_len` -/
def rstArgs (mem : List Nat) (dec : Dec) (address length : Nat) : List Stmt × Nat :=
  match dec.rst address with
  | some (isW, subl) =>
    if address + length < 65536 then
      let ra := address + length
      let raLen := (subl.map (·.1)).sum
      (if isW then defwLines mem ra (ra + raLen) subl
       else [defbLine false ra (slice mem ra (ra + raLen)) subl], raLen)
    else ([], 0)
  | none => ([], 0)

/-- `disassemble(start, end, base)`: the `while address < end` loop -/
def codeLoop (mem : List Nat) (wrap : Bool) (dec : Dec) (end_ : Nat) : Nat → Nat → List Stmt
  | 0, _ => []
  | fuel + 1, address =>
    if address < end_ then
      let length := dec.len address
      let (extra, raLen) := rstArgs mem dec address length
      codeIns mem wrap address length :: extra ++ codeLoop mem wrap dec end_ fuel (address + raLen + length)
    else []

/-- the instructions of one sub-block (`_create_entries`, `for sub_block in block.blocks`) -/
def emitSub (mem : List Nat) (cfg : Config) (dec : Dec) (s : Sub) : Except Err (List Stmt) :=
  if s.ctl = 'c' then .ok (codeLoop mem cfg.wrap dec s.end_ (s.end_ - s.start) s.start)
  else if "bgstuw".toList.contains s.ctl then
    dataLoop mem cfg s.ctl s.sublengths (dataLength s.ctl s.sublengths s.start s.end_) s.end_
      (s.end_ - s.start) s.start
  else .ok [{ addr := s.start, op := .blank, bytes := [] }]

/-- all instructions of a disassembly, in the order they are written to the skool file -/
def emit (mem : List Nat) (cfg : Config) (dec : Dec) : List Sub → Except Err (List Stmt)
  | [] => .ok []
  | s :: rest => do
    let a ← emitSub mem cfg dec s
    let b ← emit mem cfg dec rest
    pure (a ++ b)

end Stmts
