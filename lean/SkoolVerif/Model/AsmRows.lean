import SkoolVerif.Model.Wrap
/-
Hand model of the instruction/comment row loop of skool2asm:
`AsmWriter.print_instructions` (skoolkit/skoolasm.py:449-499) together with the
pieces it calls on macro-free comment text:

  * `AsmWriter.format(text, width)`  = `wrap(expand(text), width)` if the
    (stripped) text is non-empty, else `[]`            (skoolasm.py:344-370;
    the #TABLE/#LIST branches are not modelled);
  * the default `instruction` template
    `'{indent}{operation:{width}} {sep} {text}'` + `.rstrip()`;
  * the `len(oline) > self.line_width` warning.

Strings are `List Nat` (code points).  `print_instruction_prefix` (mid-block
comment + label of an instruction) is an opaque event `pfx i`.
-/
namespace AsmRows
open Wrap

/-- `str.strip()` / `str.rstrip()` (no argument). -/
def rstrip (s : Str) : Str := (s.reverse.dropWhile pySpace).reverse
def strip (s : Str) : Str := rstrip (s.dropWhile pySpace)

/-- The fields of `AsmWriter` read by the loop. -/
structure Cfg where
  indent : Str            -- `self.indent` ('\t' or indent_width spaces)
  indentWidth : Int       -- `self.indent_width`
  instrWidth : Int        -- `self.instr_width`
  minCommentWidth : Int   -- `self.min_comment_width`
  lineWidth : Int         -- `self.line_width`
  deriving Repr

/-- What the loop reads of an `Instruction`: `operation`, `comment.rowspan`,
`comment.text` (the latter two only on the first instruction of a group). -/
structure Instr where
  op : Str
  rowspan : Nat
  text : Str
  deriving Repr

inductive Ev
  | pfx (i : Nat)        -- print_instruction_prefix(instructions[i], i)
  | row (i : Option Nat) (text : Str) (s : Str)
      -- write_line(oline): `i` = index of the instruction whose operation is
      -- shown (`none`: blank operation field), `text` = the comment line
      -- shown (`[]`: none), `s` = oline
  | warn (n : Nat)       -- warn('Line is n characters long: ...')
  deriving Repr, DecidableEq

inductive RowErr
  | noInstr      -- `instruction` is None inside the rowspan: AttributeError
  | valueError   -- textwrap: invalid width (must be > 0)
  | formatError  -- negative field width in the template
  | fuel         -- the Python loop does not terminate (rowspan = 0)
  deriving Repr, DecidableEq

/-- `AsmWriter.format(text, width)` on macro-free text without #TABLE/#LIST. -/
def fmt (text : Str) (width : Int) : Except RowErr (List Str) :=
  let t := strip text
  if t = [] then .ok []
  else match wrapText t width with
    | .ok ls => .ok ls
    | .error _ => .error .valueError

/-- `'{indent}{operation:{width}} {sep} {text}'.format(...).rstrip()`;
`sep` is `';'` (`true`) or `''`. -/
def render (cfg : Cfg) (op : Str) (iw : Nat) (sep : Bool) (text : Str) : Str :=
  rstrip (cfg.indent ++ op ++ List.replicate (iw - op.length) 32 ++ [32] ++
    (if sep then [59] else []) ++ [32] ++ text)

/-- `write_line(oline)` followed by the length check. -/
def emit (cfg : Cfg) (i : Option Nat) (text oline : Str) : List Ev :=
  if (oline.length : Int) > cfg.lineWidth then [.row i text oline, .warn oline.length]
  else [.row i text oline]

/-- `max([len(i.operation) for i in instructions[i:i + rowspan]] + [self.instr_width])` -/
def groupWidth (cfg : Cfg) (instrs : List Instr) (i rowspan : Nat) : Int :=
  (((instrs.drop i).take rowspan).map fun x => (x.op.length : Int)).foldl max cfg.instrWidth

/-- Loop variables `i, rows, lines, rowspan, instr_width`. -/
structure St where
  i : Nat
  rows : Nat
  lines : List Str
  rowspan : Nat
  iw : Int
  deriving Repr

def init : St := { i := 0, rows := 0, lines := [], rowspan := 0, iw := 0 }

/-- One iteration of `while i < len(instructions) or lines:` (the loop
condition is tested by `rowLoop`). -/
def rowStep (cfg : Cfg) (instrs : List Instr) (st : St) : Except RowErr (St × List Ev) :=
  if st.lines ≠ [] ∨ st.rows ≠ 0 then
    -- remaining comment lines, or rowspan on the previous instruction
    if st.iw < 0 then .error .formatError else
    let iw := st.iw.toNat
    let sepT : Bool × Str × List Str := match st.lines with
      | l :: ls => (true, l, ls)
      | [] => (st.rowspan != 1, [], [])
    if st.rows ≠ 0 then
      match instrs[st.i]? with
      | none => .error .noInstr
      | some ins =>
        .ok ({ st with i := st.i + 1, rows := st.rows - 1, lines := sepT.2.2 },
             .pfx st.i :: emit cfg (some st.i) sepT.2.1 (render cfg ins.op iw sepT.1 sepT.2.1))
    else
      .ok ({ st with lines := sepT.2.2 }, emit cfg none sepT.2.1 (render cfg [] iw sepT.1 sepT.2.1))
  else
    match instrs[st.i]? with
    | none => .error .noInstr        -- unreachable: the loop condition gives i < len
    | some ins =>
      let iw := groupWidth cfg instrs st.i ins.rowspan
      let cw := cfg.lineWidth - 3 - iw - cfg.indentWidth
      match fmt ins.text (max cw cfg.minCommentWidth) with
      | .error e => .error e
      | .ok ls => .ok ({ st with rows := ins.rowspan, rowspan := ins.rowspan, iw := iw, lines := ls }, [])

/-- Prepend the events of one iteration to the result of the remaining ones. -/
def bindEv (evs : List Ev) : Except RowErr (List Ev) → Except RowErr (List Ev)
  | .error e => .error e
  | .ok rest => .ok (evs ++ rest)

def rowLoop (cfg : Cfg) (instrs : List Instr) : Nat → St → Except RowErr (List Ev)
  | 0, _ => .error .fuel
  | fuel + 1, st =>
    if st.i < instrs.length ∨ st.lines ≠ [] then
      match rowStep cfg instrs st with
      | .error e => .error e
      | .ok r => bindEv r.2 (rowLoop cfg instrs fuel r.1)
    else .ok []

/-- `print_instructions()` with a generous iteration bound (every group of
`rowspan ≥ 1` instructions takes `1 + max rowspan k` iterations, and the number
`k` of comment lines is at most `8 * len(text)` (a tab expands to ≤ 8 columns);
see `C18.printInstructions_eq_spec`). -/
def printInstructions (cfg : Cfg) (instrs : List Instr) : Except RowErr (List Ev) :=
  rowLoop cfg instrs (2 * instrs.length + 8 * (instrs.map fun x => x.text.length).sum + 2) init

/-! ### `AsmWriter.print_comment_lines` (skoolasm.py:375-392)

Title, description, mid-block and end comments: each paragraph is formatted to
`desc_width = line_width - len('; ')` and written with the `comment` template
`'; {text}'` + `.rstrip()`.  There is **no** length check here: an over-wide
line is written without any warning. -/

/-- `self.desc_width` for the default `comment` template. -/
def descWidth (cfg : Cfg) : Int := cfg.lineWidth - 2

/-- `format_template('comment', {'text': line}).rstrip()` -/
def renderComment (line : Str) : Str := rstrip ([59, 32] ++ line)

/-- The loop over `paragraphs`; `started` as in the Python source. -/
def printCommentLines (cfg : Cfg) : List Str → Bool → Except RowErr (List Ev)
  | [], _ => .ok []
  | p :: ps, started =>
    match fmt p (descWidth cfg) with
    | .error e => .error e
    | .ok ls =>
      let sep : List Ev := if started ∧ ls ≠ [] then [.row none [] (renderComment [])] else []
      bindEv (sep ++ ls.map fun l => .row none l (renderComment l))
        (printCommentLines cfg ps (started || !ls.isEmpty))

end AsmRows
