import SkoolVerif.Model.TapeFiles
/-
Hand model of skoolkit/bin2tap.py: `_get_word`, `_make_block`, `_get_header`,
`_get_basic_loader`, `_get_data_loader`, `_get_bank_loader` and `run` (title derivation,
stack pre-fill, block list, TAP/PZX writer selection).  Bytes and addresses are `Nat`s;
strings are lists of code points.  The argument parsing of `main` is not modelled (covered
end to end by harness/props/c12.py).

Python exceptions that `run` can raise are results of `run`: `bytes()` of a value outside
0..255 (`ValueError`, raised by `write_tap`/`write_pzx`).
-/
namespace Bin2Tap
open TapeFiles

/-- `_get_word(word)` -/
def getWord (w : Nat) : List Nat := [w % 256, w / 256]

/-- `parity = 0; for b in block: parity ^= b` -/
def xorAll (l : List Nat) : Nat := l.foldl (· ^^^ ·) 0

/-- `_make_block(data, header)`: flag byte, data, XOR parity of flag and data. -/
def makeBlock (data : List Nat) (header : Bool := false) : List Nat :=
  let block := (if header then 0 else 255) :: data
  block ++ [xorAll block]

/-- `title[:10].ljust(10)` as code points -/
def padTitle (title : List Nat) : List Nat :=
  title.take 10 ++ List.replicate (10 - (title.take 10).length) 32

/-- the `start=`/`line=` alternatives of `_get_header` -/
inductive Kind
  | code (start : Nat)
  | basic (line : Nat)
  deriving DecidableEq, Repr

/-- `_get_header(title, length, start, line)` -/
def getHeader (title : List Nat) (length : Nat) (k : Kind) : List Nat :=
  match k with
  | .code start => makeBlock ([3] ++ padTitle title ++ getWord length ++ getWord start ++ [0, 0]) true
  | .basic line => makeBlock ([0] ++ padTitle title ++ getWord length ++ getWord line ++ getWord length) true

/-- decimal digits of `n`, most significant first, as ASCII codes (`'{}'.format(n)`) -/
def decAux : Nat → Nat → List Nat → List Nat
  | 0, _, acc => acc
  | fuel + 1, n, acc =>
    if n < 10 then (48 + n) :: acc else decAux fuel (n / 10) ((48 + n % 10) :: acc)

def dec (n : Nat) : List Nat := decAux (n + 1) n []

/-- `'"{}"'.format(n)` -/
def quoted (n : Nat) : List Nat := [34] ++ dec n ++ [34]

/-- The BASIC line 10 built by `_get_basic_loader` (everything after the 4-byte line header
included).  `scr`/`banks` are the truth values of the Python arguments (`if scr`,
`banks is not None`). -/
def basicLine (clear : Option Nat) (start : Nat) (scr banks : Bool) : List Nat :=
  match clear with
  | none =>
    [0, 10, 16, 0] ++ [239, 34, 34, 175, 58, 249, 192, 176] ++ quoted 23296 ++ [13]
  | some c =>
    let ca := quoted c
    let sa := quoted start
    let ll := 12 + ca.length + sa.length + (if scr then 20 else 0) + (if banks then 5 else 0)
    [0, 10] ++ getWord ll ++ [253, 176] ++ ca ++ [58] ++
      (if scr then [239, 34, 34, 170, 58, 244, 176] ++ quoted 23739 ++ [44, 175, 34, 111, 34, 58] else []) ++
      (if banks then [239, 34, 34, 175, 58] else []) ++
      [239, 34, 34, 175, 58, 249, 192, 176] ++ sa ++ [13]

/-- `_get_basic_loader(title, clear, start, scr, banks)` -/
def basicLoader (title : List Nat) (clear : Option Nat) (start : Nat) (scr banks : Bool) : List (List Nat) :=
  let line := basicLine clear start scr banks
  [getHeader title line.length (.basic 10), makeBlock line]

/-- The 19 bytes of machine code `_get_data_loader` emits:
`LD IX,org; LD DE,length; SCF; SBC A,A; LD SP,stack; LD BC,start; PUSH BC; JP 0x0556`. -/
def dataLoaderCode (org length start stack : Nat) : List Nat :=
  [221, 33] ++ getWord org ++ [17] ++ getWord length ++ [55, 159, 49] ++ getWord stack ++
    [1] ++ getWord start ++ [197, 195, 86, 5]

/-- the screen prefix of the loader block: `list(scr)` padded with zeros to 6912 bytes
(`if scr:` — an empty screen counts as no screen) -/
def scrPrefix (scr : List Nat) : List Nat := scr ++ List.replicate (6912 - scr.length) 0

/-- `_get_data_loader(title, org, length, start, stack, scr)`; `address = 23296 - len(data)`
is negative (then `_get_word` yields a negative byte and writing the tape raises
`ValueError`) only for an over-long screen: reported as `none`. -/
def dataLoader (title : List Nat) (org length start stack : Nat) (scr : List Nat) : Option (List (List Nat)) :=
  let pre := if scr = [] then [] else scrPrefix scr
  if 23296 < pre.length then none
  else
    let data := pre ++ dataLoaderCode org length start stack
    some [getHeader title data.length (.code (23296 - pre.length)), makeBlock data]

/-- `sorted(banks)` -/
def insertSorted (x : Nat) : List Nat → List Nat
  | [] => [x]
  | y :: ys => if x ≤ y then x :: y :: ys else y :: insertSorted x ys

def sortNat : List Nat → List Nat
  | [] => []
  | x :: xs => insertSorted x (sortNat xs)

/-- The 38 bytes of machine code of `_get_bank_loader`. -/
def bankLoaderCode (address startAddr : Nat) : List Nat :=
  let t := address + 38
  [0x21, t % 256, t / 256,        --      LD HL,TABLE
   0x01, 0xFD, 0x7F,              -- LOOP LD BC,$7FFD
   0x7E,                          --      LD A,(HL)
   0xE6, 0x3F,                    --      AND $3F
   0xF3,                          --      DI
   0xED, 0x79,                    --      OUT (C),A
   0x32, 0x5C, 0x5B,              --      LD ($5B5C),A
   0xFB,                          --      EI
   0xCB, 0x7E,                    --      BIT 7,(HL)
   0xC2, startAddr % 256, startAddr / 256, -- JP NZ,START
   0xE5,                          --      PUSH HL
   0xDD, 0x21, 0x00, 0xC0,        --      LD IX,$C000
   0x11, 0x00, 0x40,              --      LD DE,$4000
   0x37,                          --      SCF
   0x9F,                          --      SBC A,A
   0xCD, 0x56, 0x05,              --      CALL $0556
   0xE1,                          --      POP HL
   0x23,                          --      INC HL
   0x18, 0xDD]                    --      JR LOOP

/-- the bank table that follows the code: one entry `bank + 0x10` per bank in ascending
order, then the end marker `0x80 | out7ffd` -/
def bankTable (banks : List Nat) (out7ffd : Nat) : List Nat :=
  (sortNat banks).map (· + 0x10) ++ [0x80 ||| out7ffd]

/-- `_get_bank_loader(title, address, start_addr, banks, out7ffd)` (`banks` = the dict's keys) -/
def bankLoader (title : List Nat) (address startAddr : Nat) (banks : List Nat) (out7ffd : Nat) : List (List Nat) :=
  let data := bankLoaderCode address startAddr ++ bankTable banks out7ffd
  [getHeader title data.length (.code address), makeBlock data]

/-- `for byte in stack_contents: if 0 <= index < length: ram[index] = byte` / `index += 1` -/
def prefillLoop : List Nat → Int → List Nat → List Nat
  | [], _, ram => ram
  | b :: bs, idx, ram =>
    prefillLoop bs (idx + 1) (if 0 ≤ idx ∧ idx < ram.length then ram.set idx.toNat b else ram)

/-- the four bytes the loader needs on the stack when LD-BYTES returns: the address of
SA/LD-RET (1343 = 0x053F) and the start address -/
def stackContents (start : Nat) : List Nat := getWord 1343 ++ getWord start

/-- the stack pre-fill of `run` (no CLEAR): `index = stack - org - 4` -/
def prefill (ram : List Nat) (org start stack : Nat) : List Nat :=
  let idx : Int := (stack : Int) - org - 4
  if -4 < idx ∧ idx < ram.length then prefillLoop (stackContents start) idx ram else ram

def lowerAscii (c : Nat) : Nat := if 65 ≤ c ∧ c ≤ 90 then c + 32 else c

/-- `title = os.path.basename(tape_file)` minus a `.tap`/`.pzx` suffix (case-insensitive);
`name` is the base name -/
def titleOf (name : List Nat) : List Nat :=
  let suf := (name.drop (name.length - 4)).map lowerAscii
  if name.length ≥ 4 ∧ (suf = [46, 116, 97, 112] ∨ suf = [46, 112, 122, 120]) then name.take (name.length - 4) else name

def isPzx (name : List Nat) : Bool :=
  name.length ≥ 4 && (name.drop (name.length - 4)).map lowerAscii == [46, 112, 122, 120]

structure Args where
  ram : List Nat
  clear : Option Nat
  org : Nat
  start : Nat
  stack : Nat
  name : List Nat                       -- base name of the tape file
  scr : List Nat                        -- `[]` = no screen (`None` or empty)
  banks : Option (List (Nat × List Nat)) -- `banks` dict in key order of `sorted(banks)`
  out7ffd : Nat
  loaderAddr : Nat
  deriving Repr

/-- sort the bank dict by key (insertion sort, stable enough: keys are distinct) -/
def insertBank (x : Nat × List Nat) : List (Nat × List Nat) → List (Nat × List Nat)
  | [] => [x]
  | y :: ys => if x.1 ≤ y.1 then x :: y :: ys else y :: insertBank x ys

def sortBanks : List (Nat × List Nat) → List (Nat × List Nat)
  | [] => []
  | x :: xs => insertBank x (sortBanks xs)

/-- The block list built by `run` (before it is written); `none` = the over-long screen
case of `dataLoader`. -/
def runBlocks (a : Args) : Option (List (List Nat)) :=
  let title := titleOf a.name
  let hasScr := a.scr ≠ []
  let basic := match a.banks with
    | none => basicLoader title a.clear a.start hasScr false
    | some _ => basicLoader title a.clear a.loaderAddr hasScr true
  let length := a.ram.length
  let main : Option (List (List Nat)) :=
    match a.clear with
    | none =>
      match dataLoader title a.org length a.start a.stack a.scr with
      | none => none
      | some l => some (l ++ [makeBlock (prefill a.ram a.org a.start a.stack)])
    | some _ =>
      some ((if hasScr then [getHeader title 6912 (.code 16384), makeBlock a.scr] else []) ++
        [getHeader title length (.code a.org), makeBlock a.ram])
  match main with
  | none => none
  | some m =>
    let bank := match a.banks with
      | none => []
      | some bs =>
        bankLoader title a.loaderAddr a.start (bs.map (·.1)) a.out7ffd ++ (sortBanks bs).map (fun b => makeBlock b.2)
    some (basic ++ m ++ bank)

inductive RunErr | value
  deriving DecidableEq, Repr

/-- `run(...)`: the bytes of the tape file. -/
def run (a : Args) : Except RunErr (List Nat) :=
  match runBlocks a with
  | none => .error .value
  | some blocks =>
    match (if isPzx a.name then writePzx blocks else writeTap blocks) with
    | .ok r => .ok r
    | .error _ => .error .value

end Bin2Tap
