/-
Hand model of the path functions that skoolkit's HTML writer uses to compute
file names and relative links (skoolkit/skoolhtml.py):

  * `posixpath.normpath`, `posixpath.join`, `posixpath.abspath`,
    `posixpath.relpath` (called by `HtmlWriter.relpath(cwd, target)`),
    `os.path.dirname`, `os.path.basename`;
  * `skoolhtml.join(*path_components)`.

A path *string* is modelled by the list of its components, i.e. by
`s.split('/')` (never the empty list: `''.split('/') = ['']`).  Component
names are an arbitrary type `α`; the three components that the functions
treat specially are constructors.  `'/'.join` of component lists is list
concatenation, so string concatenation with a '/' in between is `++`.

No imports: this file is also used by the line-protocol driver.
-/
namespace PathAlg

/-- One component of `s.split('/')`. -/
inductive Seg (α : Type) where
  | empty              -- ''  (leading, trailing or doubled slash)
  | cur                -- '.'
  | up                 -- '..'
  | name (a : α)       -- anything else
  deriving DecidableEq, Repr

/-- A path string, as `s.split('/')`. -/
abbrev Path (α : Type) := List (Seg α)

variable {α : Type}

def Seg.isEmpty : Seg α → Bool
  | .empty => true
  | _ => false

def Seg.isName : Seg α → Bool
  | .name _ => true
  | _ => false

/-- Number of leading '/' characters of the string. -/
def leadSlashes (p : Path α) : Nat := (p.dropLast.takeWhile Seg.isEmpty).length

/-- `s.startswith('/')` (`posixpath.isabs`). -/
def isAbs (p : Path α) : Bool := leadSlashes p != 0

/-- A well-formed (`split('/')` is never empty) relative path string. -/
def IsRel (p : Path α) : Prop := p ≠ [] ∧ isAbs p = false

instance [DecidableEq α] (p : Path α) : Decidable (IsRel p) := by unfold IsRel; exact inferInstance

/-- POSIX: exactly two leading slashes are kept, three or more collapse to one. -/
def initialSlashes (p : Path α) : Nat :=
  let k := leadSlashes p
  if k = 0 then 0 else if k = 2 then 2 else 1

/-- One iteration of the `for comp in comps:` loop of `posixpath.normpath`;
`acc` is `new_comps` reversed (top of the stack first); `abs` is
`bool(initial_slashes)`. -/
def normStep (abs : Bool) (acc : List (Seg α)) (c : Seg α) : List (Seg α) :=
  match c with
  | .empty => acc
  | .cur => acc
  | .name a => .name a :: acc
  | .up =>
    match acc with
    | [] => if abs then [] else [.up]        -- `not initial_slashes and not new_comps`
    | .up :: rest => .up :: .up :: rest      -- `new_comps[-1] == '..'`
    | _ :: rest => rest                      -- `new_comps.pop()`

/-- The loop of `normpath`, returning `new_comps`. -/
def normComps (abs : Bool) (p : List (Seg α)) : List (Seg α) :=
  (p.foldl (normStep abs) []).reverse

/-- `posixpath.normpath(path)`. -/
def normpath (p : Path α) : Path α :=
  let k := initialSlashes p
  let cs := normComps (k != 0) p
  if k = 0 then (if cs.isEmpty then [.cur] else cs)
  else List.replicate k .empty ++ (if cs.isEmpty then [.empty] else cs)

/-- The empty string `''`. -/
def isEmptyStr : Path α → Bool
  | [.empty] => true
  | _ => false

/-- `skoolhtml.join(*path_components)`:
`'/'.join([c for c in path_components if c.replace('/', '')])`. -/
def join (cs : List (Path α)) : Path α :=
  let kept := cs.filter (fun c => c.any (fun s => !s.isEmpty))
  if kept.isEmpty then [.empty] else kept.flatten

/-- `posixpath.join(a, b)` (two arguments). -/
def posixJoin (a b : Path α) : Path α :=
  if isAbs b then b
  else if isEmptyStr a || (a.length ≥ 2 && a.getLast?.any Seg.isEmpty) then a.dropLast ++ b
  else a ++ b

/-- Remove trailing '' components (`head.rstrip('/')` on a string that is not all slashes). -/
def stripTrailingEmpty (p : List (Seg α)) : List (Seg α) :=
  (p.reverse.dropWhile Seg.isEmpty).reverse

/-- `os.path.dirname(p)`. -/
def dirname (p : Path α) : Path α :=
  let h := p.dropLast
  if h.all Seg.isEmpty then h ++ [.empty] else stripTrailingEmpty h

/-- `os.path.basename(p)`. -/
def basename (p : Path α) : Path α :=
  match p.getLast? with
  | some s => [s]
  | none => [.empty]

/-- `os.getcwd()` for a working directory `/b0/b1/…` given by its component names. -/
def cwdPath (base : List α) : Path α :=
  if base.isEmpty then [.empty, .empty] else .empty :: base.map .name

/-- `posixpath.abspath(p)` when `os.getcwd()` is `cwdPath base`. -/
def abspath (base : List α) (p : Path α) : Path α :=
  if isAbs p then normpath p else normpath (posixJoin (cwdPath base) p)

/-- `[x for x in abspath(p).split('/') if x]`. -/
def absList (base : List α) (p : Path α) : List (Seg α) :=
  (abspath base p).filter (fun s => !s.isEmpty)

/-- `len(commonprefix([a, b]))` for two lists. -/
def commonLen [DecidableEq α] : List (Seg α) → List (Seg α) → Nat
  | x :: xs, y :: ys => if x = y then commonLen xs ys + 1 else 0
  | _, _ => 0

inductive PathErr | noPath          -- `ValueError("no path specified")`
  deriving DecidableEq, Repr

/-- `posixpath.relpath(path, start)` when `os.getcwd()` is `cwdPath base`
(`HtmlWriter.relpath(cwd, target)` is `relpath base target cwd`). -/
def relpath [DecidableEq α] (base : List α) (path start : Path α) : Except PathErr (Path α) :=
  if isEmptyStr path then .error .noPath
  else
    let startList := absList base start
    let pathList := absList base path
    let i := commonLen startList pathList
    let rel := List.replicate (startList.length - i) .up ++ pathList.drop i
    .ok (if rel.isEmpty then [.cur] else rel)

/-! ### How a browser resolves a relative reference (RFC 3986 §5.2.4), as the
independent crawler of the end-to-end check does: the directory of the page
and the reference are concatenated, '.' is dropped, '..' removes the previous
segment (nothing at the root); empty segments are dropped when the result is
mapped to a file. -/

def rfcStep (acc : List (Seg α)) (c : Seg α) : List (Seg α) :=
  match c with
  | .cur => acc
  | .up => acc.tail
  | s => s :: acc

def rfcResolve (dir ref : List (Seg α)) : List (Seg α) :=
  (((dir ++ ref).foldl rfcStep []).reverse).filter (fun s => !s.isEmpty)

end PathAlg
