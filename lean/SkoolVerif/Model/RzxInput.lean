/-!
Hand model of the frame stream of an RZX *input recording block* (block id 0x80), as read by
`skoolkit/rzxplay.py: parse_rzx` (the `for k in range(num_frames)` loop), as listed by
`skoolkit/rzxinfo.py: _show_blocks` (`--frames`) and as written by `skoolkit/rzxplay.py: write_rzx`
(the `io_frames` loop).  Bytes are `Nat`s, the (decompressed) frame stream is a `List Nat`.
No imports: this file is also used by the line-protocol driver.

Stream format: per frame `fetch_counter` (2 bytes LE), `in_counter` (2 bytes LE), then
`in_counter` port readings - except that `in_counter = 65535` means "same port readings as the
previous frame" and is followed by nothing.
-/
namespace RzxInput

/-- What the real code does on a truncated stream: `get_word` raises `IndexError`. -/
inductive Err | indexError
  deriving DecidableEq, Repr

/-- `skoolkit.get_word(data, j)` on a `bytes` object: `data[j] + 256 * data[j + 1]`. -/
def getWord (d : List Nat) (j : Nat) : Option Nat :=
  match d[j]?, d[j + 1]? with
  | some a, some b => some (a + 256 * b)
  | _, _ => none

/-- `rzxplay.Frame(fetch_counter, start, end)`: the readings are `data[start:end]`. -/
structure FrameIx where
  fetch : Nat
  start : Nat
  stop : Nat
  deriving DecidableEq, Repr

/-- Python slice `data[start:end]` (silently truncated at the end of `data`). -/
def slice (d : List Nat) (start stop : Nat) : List Nat := (d.drop start).take (stop - start)

/-- The port readings `RZXTracer` serves for a frame: `data[frame.start:frame.end]`. -/
def readings (d : List Nat) (f : FrameIx) : List Nat := slice d f.start f.stop

/-- `parse_rzx`: the loop `for k in range(num_frames)` with its state `(j, start, end)`.
`n` = frames still to read. -/
def parseLoop (d : List Nat) : Nat → Nat → Nat → Nat → Except Err (List FrameIx)
  | 0, _, _, _ => .ok []
  | n + 1, j, st, en =>
    match getWord d j, getWord d (j + 2) with
    | some fc, some ic =>
      if ic = 65535 then
        match parseLoop d n (j + 4) st en with
        | .ok r => .ok (⟨fc, st, en⟩ :: r)
        | .error e => .error e
      else
        match parseLoop d n (j + 4 + ic) (j + 4) (j + 4 + ic) with
        | .ok r => .ok (⟨fc, j + 4, j + 4 + ic⟩ :: r)
        | .error e => .error e
    | _, _ => .error .indexError

/-- `parse_rzx` on the frame stream of one input recording block (`j = 0; start = end = 0`). -/
def parseFrames (numFrames : Nat) (d : List Nat) : Except Err (List FrameIx) := parseLoop d numFrames 0 0 0

/-- A frame by value: fetch counter and the port readings served during it. -/
structure Frame where
  fetch : Nat
  ins : List Nat
  deriving DecidableEq, Repr

/-- What `rzxplay` plays: the frames by value. -/
def parseValues (numFrames : Nat) (d : List Nat) : Except Err (List Frame) :=
  match parseFrames numFrames d with
  | .ok ixs => .ok (ixs.map fun f => ⟨f.fetch, readings d f⟩)
  | .error e => .error e

/-- `write_rzx`: `io_frames.extend((fc % 256, fc // 256, ic % 256, ic // 256)); io_frames.extend(port_readings)`
for one frame.  (`bytearray.extend` raises `ValueError` when `fc // 256` or `ic // 256` exceeds 255;
the theorems carry `fetch < 65536` and `ins.length < 65535` as hypotheses.) -/
def writeFrame (f : Frame) : List Nat :=
  [f.fetch % 256, f.fetch / 256, f.ins.length % 256, f.ins.length / 256] ++ f.ins

/-- `write_rzx`: the whole `io_frames` stream (before `zlib.compress`). -/
def writeFrames : List Frame → List Nat
  | [] => []
  | f :: rest => writeFrame f ++ writeFrames rest

/-- A recorder that uses the repeated-frame marker (what emulators write, and what the harness
recorder writes to exercise `in_counter == 65535`): a frame whose readings equal those of the
previous frame is written as `fetch, 65535` with no readings.  `prev` = readings of the previous
frame (`[]` before the first frame, matching `start = end = 0` in `parse_rzx`). -/
def writeRep (prev : List Nat) : List Frame → List Nat
  | [] => []
  | f :: rest =>
    if f.ins = prev then [f.fetch % 256, f.fetch / 256, 255, 255] ++ writeRep prev rest
    else writeFrame f ++ writeRep f.ins rest

/-- One frame as `rzxinfo --frames` prints it: `Fetch counter`, `IN counter` (for the marker also
`(len(port_readings))`), and the first ten port readings + `...` when there are more (the
`Port readings:` line is omitted when there are none). -/
structure InfoRow where
  fetch : Nat
  inCounter : Nat
  count : Nat          -- len(port_readings): printed in brackets for a repeated frame
  shown : List Nat     -- port_readings[:10]
  more : Bool          -- suffix '...'
  deriving DecidableEq, Repr

def infoRow (fc ic : Nat) (pr : List Nat) : InfoRow :=
  ⟨fc, ic, pr.length, pr.take 10, decide (pr.length > 10)⟩

/-- `rzxinfo._show_blocks`: the `for k in range(num_frames)` loop with its state
`(j, port_readings)`. -/
def infoLoop (d : List Nat) : Nat → Nat → List Nat → Except Err (List InfoRow)
  | 0, _, _ => .ok []
  | n + 1, j, pr =>
    match getWord d j, getWord d (j + 2) with
    | some fc, some ic =>
      if ic = 65535 then
        match infoLoop d n (j + 4) pr with
        | .ok r => .ok (infoRow fc ic pr :: r)
        | .error e => .error e
      else
        let pr' := slice d (j + 4) (j + 4 + ic)
        match infoLoop d n (j + 4 + ic) pr' with
        | .ok r => .ok (infoRow fc ic pr' :: r)
        | .error e => .error e
    | _, _ => .error .indexError

def infoFrames (numFrames : Nat) (d : List Nat) : Except Err (List InfoRow) := infoLoop d numFrames 0 []

end RzxInput
