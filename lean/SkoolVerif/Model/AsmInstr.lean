import SkoolVerif.Model.AsmEval
/-!
Hand model of the INSTRUCTION path of the assembler (skoolkit/z80.py): `Assembler._assemble`, the
`mnemonics` table and every per-mnemonic encoder (`_arithmetic_a`, `_assemble_adc`, `_assemble_add`,
`_bit_res_set`, `_assemble_call`, `_inc_dec`, `_assemble_djnz`, `_assemble_ex`, `_assemble_im`,
`_assemble_in`, `_assemble_jp`, `_assemble_jr`, `_assemble_ld`, `_assemble_out`, `_pop_push`,
`_assemble_ret`, `_rotate_and_shift`, `_assemble_rst`, `_assemble_sbc`), the operand classifiers
(`_index_code`, `_reg_index`, `_reg_pair_index`, `_index_reg_index`, `_condition_index`) and
`Assembler.assemble`.

Written function by function in the order of the Python source, with the same order of tests and the same
failure branches.  Text is a list of code points (`t%"LD"` is the list literal `[76, 68]`); operands are the
tokens `split_operation(operation, tidy=True)` produces (model: `AsmEval.splitOperation`), operand values
come from the operand-level models of `Model/AsmEval.lean` (`parseExpr`, `parseOffset`, `addressOffset`).

Results: `R (List Nat)`.  `.ok bs` = the tuple returned; `.ok []` also stands for "returns `None`"
(`assemble` maps both to `()`); `.valErr` = ValueError; `.otherErr` = any other exception (`KeyError` for an
unknown mnemonic, `IndexError` for an empty operation, `TypeError` for a wrong number of operands,
`SyntaxError`/`ZeroDivisionError` out of `eval`).  The distinction matters because the encoders catch
ValueError only (`try: … except ValueError:` in `_arithmetic_a`, `_inc_dec`, `_assemble_ld`).
-/
namespace AsmInstr
open OpText AsmEval

open Lean in
/-- `t%"LD"` is the list literal of the code points of the string: `[76, 68]` -/
macro:max "t%" s:str : term => do
  let cs := s.getString.toList.toArray.map (fun c => Syntax.mkNumLit (toString c.toNat))
  `(([$cs,*] : List Nat))

/-! ### module constants -/

def REG : List Txt := [t%"B", t%"C", t%"D", t%"E", t%"H", t%"L", t%"(HL)", t%"A"]
def REG_PAIRS : List Txt := [t%"BC", t%"DE", t%"HL", t%"SP"]
def INDEX_REG : List Txt := [t%"IXH", t%"IXL", t%"IYH", t%"IYL"]
def INDEX_REG_PAIRS : List Txt := [t%"IX", t%"IY"]
def CONDITIONS : List Txt := [t%"NZ", t%"Z", t%"NC", t%"C", t%"PO", t%"PE", t%"P", t%"M"]

/-- `seq.index(x)`; ValueError when `x` is not in `seq` -/
def indexIn : List Txt → Txt → R Nat
  | [], _ => .valErr
  | y :: ys, x => if x = y then .ok 0 else (indexIn ys x).bind fun i => .ok (i + 1)

/-- `x in seq` -/
def isIn : List Txt → Txt → Bool
  | [], _ => false
  | y :: ys, x => decide (x = y) || isIn ys x

/-- `try: r  except ValueError: h` -/
def catchVal {α : Type} (r h : R α) : R α :=
  match r with
  | .valErr => h
  | r => r

/-- `_index_code(op)` -/
def indexCode (op : Txt) : R Nat :=
  let reg := if startsWith t%"(" op then (op.drop 1).take 2 else op.take 2
  (indexIn INDEX_REG_PAIRS reg).bind fun i => .ok (221 + 32 * i)

def regIndex (reg : Txt) : R Nat := indexIn REG reg
def regPairIndex (rp : Txt) : R Nat := indexIn REG_PAIRS rp
def indexRegIndex (ir : Txt) : R Nat := indexIn INDEX_REG ir
def conditionIndex (c : Txt) : R Nat := indexIn CONDITIONS c

/-- `(addr % 256, addr // 256)` appended to the opcode bytes -/
def withWord (pre : List Nat) (addr : Nat) : List Nat := pre ++ [addr % 256, addr / 256]

/-! ### calling an encoder with `*parts[1:]`: a wrong number of operands is a TypeError -/

def arity01 (f : Option Txt → R (List Nat)) : List Txt → R (List Nat)
  | [] => f none
  | [a] => f (some a)
  | _ => .otherErr

def arity1 (f : Txt → R (List Nat)) : List Txt → R (List Nat)
  | [a] => f a
  | _ => .otherErr

def arity2 (f : Txt → Txt → R (List Nat)) : List Txt → R (List Nat)
  | [a, b] => f a b
  | _ => .otherErr

def arity12 (f : Txt → Option Txt → R (List Nat)) : List Txt → R (List Nat)
  | [a] => f a none
  | [a, b] => f a (some b)
  | _ => .otherErr

def arity23 (f : Txt → Txt → Option Txt → R (List Nat)) : List Txt → R (List Nat)
  | [a, b] => f a b none
  | [a, b, c] => f a b (some c)
  | _ => .otherErr

/-- `if op:` for an optional operand: `None` and `''` are both falsy -/
def truthy (op : Option Txt) : Bool := op.getD [] != []

/-! ### the encoders -/

/-- `_arithmetic_a(base_code, address, op)` -/
def arithmeticA (baseCode : Nat) (op : Txt) : R (List Nat) :=
  if startsWith t%"(I" op then
    (indexCode op).bind fun ic => (parseOffset op).bind fun d => .ok [ic, baseCode + 6, d]
  else if isIn INDEX_REG op then
    (indexCode op).bind fun ic => (indexRegIndex op).bind fun i => .ok [ic, baseCode + 4 + i % 2]
  else
    catchVal ((regIndex op).bind fun i => .ok [baseCode + i])
      ((parseByte op).bind fun n => .ok [baseCode + 70, n])

/-- `_assemble_adc(address, op1, op2)` -/
def asmAdc (op1 op2 : Txt) : R (List Nat) :=
  if op1 = t%"A" then arithmeticA 136 op2
  else if op1 = t%"HL" then (regPairIndex op2).bind fun i => .ok [237, 74 + 16 * i]
  else .ok []

/-- `_assemble_add(address, op1, op2)` -/
def asmAdd (op1 op2 : Txt) : R (List Nat) :=
  if op1 = t%"A" then arithmeticA 128 op2
  else if op1 = t%"HL" then (regPairIndex op2).bind fun i => .ok [9 + 16 * i]
  else if isIn INDEX_REG_PAIRS op1 then
    if op1 = op2 then (indexCode op1).bind fun ic => .ok [ic, 41]
    else if op2 ≠ t%"HL" then
      (indexCode op1).bind fun ic => (regPairIndex op2).bind fun i => .ok [ic, 9 + 16 * i]
    else .ok []
  else .ok []

/-- `_bit_res_set(base_code, address, op1, op2, op3=None)` -/
def bitResSet (baseCode : Nat) (op1 op2 : Txt) (op3 : Option Txt) : R (List Nat) :=
  (parseExpr op1 8 false true).bind fun bit =>
    let bitOffset := baseCode + 8 * bit
    if startsWith t%"(I" op2 then
      if truthy op3 then
        (indexCode op2).bind fun ic => (parseOffset op2).bind fun d => (regIndex (op3.getD [])).bind fun r =>
          .ok [ic, 203, d, bitOffset + r]
      else (indexCode op2).bind fun ic => (parseOffset op2).bind fun d => .ok [ic, 203, d, bitOffset + 6]
    else (regIndex op2).bind fun r => .ok [203, bitOffset + r]

/-- `_assemble_call(address, op1, op2=None)` -/
def asmCall (op1 : Txt) (op2 : Option Txt) : R (List Nat) :=
  match op2 with
  | none => (parseWord op1).bind fun addr => .ok (withWord [205] addr)
  | some op2 =>
    (parseWord op2).bind fun addr => (conditionIndex op1).bind fun c => .ok (withWord [196 + 8 * c] addr)

/-- `_inc_dec(base_code8, base_code16, address, op)` -/
def incDec (base8 base16 : Nat) (op : Txt) : R (List Nat) :=
  if op.length = 2 then
    catchVal ((regPairIndex op).bind fun i => .ok [base16 + 16 * i])
      ((indexCode op).bind fun ic => .ok [ic, base16 + 32])
  else if startsWith t%"(I" op then
    (indexCode op).bind fun ic => (parseOffset op).bind fun d => .ok [ic, base8 + 48, d]
  else if isIn INDEX_REG op then
    (indexCode op).bind fun ic => (indexRegIndex op).bind fun i => .ok [ic, base8 + 32 + 8 * (i % 2)]
  else (regIndex op).bind fun r => .ok [base8 + 8 * r]

/-- `_assemble_djnz(address, op)` -/
def asmDjnz (address : Nat) (op : Txt) : R (List Nat) :=
  (addressOffset address op).bind fun o => .ok [16, o]

/-- `_assemble_ex(address, op1, op2)` -/
def asmEx (op1 op2 : Txt) : R (List Nat) :=
  if op1 = t%"AF" ∧ op2 = t%"AF'" then .ok [8]
  else if op1 = t%"DE" ∧ op2 = t%"HL" then .ok [235]
  else if op1 = t%"(SP)" then
    if op2 = t%"HL" then .ok [227]
    else if isIn INDEX_REG_PAIRS op2 then (indexCode op2).bind fun ic => .ok [ic, 227]
    else .ok []
  else .ok []

/-- `_assemble_im(address, op)`: `(0, 16, 24)[mode]` -/
def asmIm (op : Txt) : R (List Nat) :=
  (parseExpr op 3 false true).bind fun mode =>
    match [0, 16, 24][mode]? with
    | some k => .ok [237, 70 + k]
    | none => .otherErr

/-- `_assemble_in(address, op1, op2)` -/
def asmIn (op1 op2 : Txt) : R (List Nat) :=
  if op2 = t%"(C)" then
    if op1 = t%"F" then .ok [237, 112]
    else if op1 ≠ t%"(HL)" then (regIndex op1).bind fun r => .ok [237, 64 + 8 * r]
    else .ok []
  else if op1 = t%"A" then (parseExpr op2 256 true true).bind fun n => .ok [219, n]
  else .ok []

/-- `_assemble_jp(address, op1, op2=None)` -/
def asmJp (op1 : Txt) (op2 : Option Txt) : R (List Nat) :=
  match op2 with
  | none =>
    if op1 = t%"(HL)" then .ok [233]
    else if op1 = t%"(IX)" then .ok [221, 233]
    else if op1 = t%"(IY)" then .ok [253, 233]
    else (parseWord op1).bind fun addr => .ok (withWord [195] addr)
  | some op2 =>
    (parseWord op2).bind fun addr => (conditionIndex op1).bind fun c => .ok (withWord [194 + 8 * c] addr)

/-- `_assemble_jr(address, op1, op2=None)` -/
def asmJr (address : Nat) (op1 : Txt) (op2 : Option Txt) : R (List Nat) :=
  match op2 with
  | none => (addressOffset address op1).bind fun o => .ok [24, o]
  | some op2 =>
    (indexIn [t%"NZ", t%"Z", t%"NC", t%"C"] op1).bind fun c => (addressOffset address op2).bind fun o => .ok [32 + 8 * c, o]

/-- `_assemble_ld(address, op1, op2)` -/
def asmLd (op1 op2 : Txt) : R (List Nat) :=
  if isIn REG op1 then
    (regIndex op1).bind fun op1Index =>
      if isIn REG op2 ∧ ¬ (op1 = op2 ∧ op2 = t%"(HL)") then
        -- LD r,r'; LD r,(HL)
        (regIndex op2).bind fun r2 => .ok [64 + 8 * op1Index + r2]
      else if startsWith t%"(I" op2 ∧ op1 ≠ t%"(HL)" then
        -- LD r,(I{X,Y}+d)
        (indexCode op2).bind fun ic => (parseOffset op2).bind fun d => .ok [ic, 70 + 8 * op1Index, d]
      else if isIn INDEX_REG op2 ∧ ¬ isIn [t%"H", t%"L", t%"(HL)"] op1 then
        -- LD r,I{X,Y}{h,l}
        (indexCode op2).bind fun ic => (indexRegIndex op2).bind fun i => .ok [ic, 68 + 8 * op1Index + i % 2]
      else if op1 = t%"A" then
        if startsWith t%"(" op2 then
          -- LD A,(nn); LD A,(BC); LD A,(DE)
          catchVal ((parseExpr op2 65536 true false).bind fun addr => .ok (withWord [58] addr))
            ((indexIn [t%"(BC)", t%"(DE)"] op2).bind fun i => .ok [10 + 16 * i])
        else
          -- LD A,n; LD A,I; LD A,R
          catchVal ((parseByte op2).bind fun n => .ok [62, n])
            ((indexIn [t%"I", t%"R"] op2).bind fun i => .ok [237, 87 + 8 * i])
      else
        -- LD r,n (r != A)
        (regIndex op1).bind fun r => (parseByte op2).bind fun n => .ok [6 + 8 * r, n]
  else if isIn INDEX_REG op1 then
    (indexRegIndex op1).bind fun index1 =>
      if isIn INDEX_REG op2 ∧ op1[1]? = op2[1]? then
        -- LD IX{h,l},IX{h,l}; LD IY{h,l},IY{h,l}
        (indexRegIndex op2).bind fun index2 =>
          (indexCode op1).bind fun ic => .ok [ic, 100 + 8 * (index1 % 2) + index2 % 2]
      else if isIn [t%"A", t%"B", t%"C", t%"D", t%"E"] op2 then
        -- LD I{X,Y}{h,l},r
        (indexCode op1).bind fun ic => (regIndex op2).bind fun r => .ok [ic, 96 + 8 * (index1 % 2) + r]
      else
        -- LD I{X,Y}{h,l},n
        (indexCode op1).bind fun ic => (parseByte op2).bind fun n => .ok [ic, 38 + 8 * (index1 % 2), n]
  else if startsWith t%"(I" op1 then
    (parseOffset op1).bind fun offset =>
      if isIn REG op2 ∧ op2 ≠ t%"(HL)" then
        -- LD (I{X,Y}+d),r
        (indexCode op1).bind fun ic => (regIndex op2).bind fun r => .ok [ic, 112 + r, offset]
      else
        -- LD (I{X,Y}+d),n
        (indexCode op1).bind fun ic => (parseByte op2).bind fun n => .ok [ic, 54, offset, n]
  else if isIn REG_PAIRS op1 then
    (regPairIndex op1).bind fun op1Index =>
      if startsWith t%"(" op2 then
        (parseExpr op2 65536 true false).bind fun addr =>
          if op1 = t%"HL" then .ok (withWord [42] addr)            -- LD HL,(nn)
          else .ok (withWord [237, 75 + 16 * op1Index] addr)       -- LD BC|DE|SP,(nn)
      else if op1 = t%"SP" ∧ isIn [t%"HL", t%"IX", t%"IY"] op2 then
        if op2 = t%"HL" then .ok [249]                             -- LD SP,HL
        else (indexCode op2).bind fun ic => .ok [ic, 249]          -- LD SP,I{X,Y}
      else
        -- LD BC|DE|HL|SP,nn
        (parseWord op2).bind fun addr => .ok (withWord [1 + 16 * op1Index] addr)
  else if isIn INDEX_REG_PAIRS op1 then
    if startsWith t%"(" op2 then
      -- LD I{X,Y},(nn)
      (parseExpr op2 65536 true false).bind fun addr => (indexCode op1).bind fun ic => .ok (withWord [ic, 42] addr)
    else
      -- LD I{X,Y},nn
      (parseWord op2).bind fun addr => (indexCode op1).bind fun ic => .ok (withWord [ic, 33] addr)
  else if startsWith t%"(" op1 then
    if op2 = t%"A" then
      -- LD (nn),A; LD (BC),A; LD (DE),A
      catchVal ((parseExpr op1 65536 true false).bind fun addr => .ok (withWord [50] addr))
        ((indexIn [t%"(BC)", t%"(DE)"] op1).bind fun i => .ok [2 + 16 * i])
    else
      (parseExpr op1 65536 true false).bind fun addr =>
        if op2 = t%"HL" then .ok (withWord [34] addr)                                   -- LD (nn),HL
        else if isIn INDEX_REG_PAIRS op2 then
          (indexCode op2).bind fun ic => .ok (withWord [ic, 34] addr)                    -- LD (nn),I{X,Y}
        else (regPairIndex op2).bind fun i => .ok (withWord [237, 67 + 16 * i] addr)    -- LD (nn),BC|DE|SP
  else if op2 = t%"A" then
    -- LD I,A; LD R,A
    (indexIn [t%"I", t%"R"] op1).bind fun i => .ok [237, 71 + 8 * i]
  else .ok []

/-- `_assemble_out(address, op1, op2)` -/
def asmOut (op1 op2 : Txt) : R (List Nat) :=
  if op1 = t%"(C)" then
    if op2 = t%"0" then .ok [237, 113]
    else if op2 ≠ t%"(HL)" then (regIndex op2).bind fun r => .ok [237, 65 + 8 * r]
    else .ok []
  else if op2 = t%"A" then (parseExpr op1 256 true true).bind fun n => .ok [211, n]
  else .ok []

/-- `_pop_push(base_code, address, op)` -/
def popPush (baseCode : Nat) (op : Txt) : R (List Nat) :=
  if isIn INDEX_REG_PAIRS op then (indexCode op).bind fun ic => .ok [ic, baseCode + 32]
  else (indexIn [t%"BC", t%"DE", t%"HL", t%"AF"] op).bind fun i => .ok [baseCode + 16 * i]

/-- `_assemble_ret(address, op1=None)` -/
def asmRet (op1 : Option Txt) : R (List Nat) :=
  match op1 with
  | none => .ok [201]
  | some op1 => (conditionIndex op1).bind fun c => .ok [192 + 8 * c]

/-- `_rotate_and_shift(base_code, address, op1, op2=None)` -/
def rotateAndShift (baseCode : Nat) (op1 : Txt) (op2 : Option Txt) : R (List Nat) :=
  if startsWith t%"(I" op1 then
    if truthy op2 then
      (indexCode op1).bind fun ic => (parseOffset op1).bind fun d => (regIndex (op2.getD [])).bind fun r =>
        .ok [ic, 203, d, baseCode + r]
    else (indexCode op1).bind fun ic => (parseOffset op1).bind fun d => .ok [ic, 203, d, baseCode + 6]
  else (regIndex op1).bind fun r => .ok [203, baseCode + r]

/-- `_assemble_rst(address, op)` -/
def asmRst (op : Txt) : R (List Nat) :=
  (parseExpr op 57 false true).bind fun num =>
    if num % 8 = 0 then .ok [199 + num] else .ok []

/-- `_assemble_sbc(address, op1, op2)` -/
def asmSbc (op1 op2 : Txt) : R (List Nat) :=
  if op1 = t%"A" then arithmeticA 152 op2
  else if op1 = t%"HL" then (regPairIndex op2).bind fun i => .ok [237, 66 + 16 * i]
  else .ok []

/-! ### `Assembler.mnemonics` -/

/-- a value of the `mnemonics` dict: a tuple of bytes, or an encoder called with `(address, *operands)`
(`fn`: an encoder that never looks at its `address` parameter; `fnA`: `_assemble_djnz`, `_assemble_jr`) -/
inductive Enc where
  | fixed (bs : List Nat)
  | fn (f : List Txt → R (List Nat))
  | fnA (f : Nat → List Txt → R (List Nat))

def mnemonicTable : List (Txt × Enc) := [
  (t%"ADC", .fn (arity2 asmAdc)),
  (t%"ADD", .fn (arity2 asmAdd)),
  (t%"AND", .fn (arity1 (arithmeticA 160))),
  (t%"BIT", .fn (arity23 (bitResSet 64))),
  (t%"CALL", .fn (arity12 asmCall)),
  (t%"CCF", .fixed [63]),
  (t%"CP", .fn (arity1 (arithmeticA 184))),
  (t%"CPD", .fixed [237, 169]),
  (t%"CPDR", .fixed [237, 185]),
  (t%"CPI", .fixed [237, 161]),
  (t%"CPIR", .fixed [237, 177]),
  (t%"CPL", .fixed [47]),
  (t%"DAA", .fixed [39]),
  (t%"DEC", .fn (arity1 (incDec 5 11))),
  (t%"DI", .fixed [243]),
  (t%"DJNZ", .fnA fun a => arity1 (asmDjnz a)),
  (t%"EI", .fixed [251]),
  (t%"EX", .fn (arity2 asmEx)),
  (t%"EXX", .fixed [217]),
  (t%"HALT", .fixed [118]),
  (t%"IM", .fn (arity1 asmIm)),
  (t%"IN", .fn (arity2 asmIn)),
  (t%"INC", .fn (arity1 (incDec 4 3))),
  (t%"IND", .fixed [237, 170]),
  (t%"INDR", .fixed [237, 186]),
  (t%"INI", .fixed [237, 162]),
  (t%"INIR", .fixed [237, 178]),
  (t%"JP", .fn (arity12 asmJp)),
  (t%"JR", .fnA fun a => arity12 (asmJr a)),
  (t%"LD", .fn (arity2 asmLd)),
  (t%"LDD", .fixed [237, 168]),
  (t%"LDDR", .fixed [237, 184]),
  (t%"LDI", .fixed [237, 160]),
  (t%"LDIR", .fixed [237, 176]),
  (t%"NEG", .fixed [237, 68]),
  (t%"NOP", .fixed [0]),
  (t%"OR", .fn (arity1 (arithmeticA 176))),
  (t%"OTDR", .fixed [237, 187]),
  (t%"OTIR", .fixed [237, 179]),
  (t%"OUT", .fn (arity2 asmOut)),
  (t%"OUTD", .fixed [237, 171]),
  (t%"OUTI", .fixed [237, 163]),
  (t%"POP", .fn (arity1 (popPush 193))),
  (t%"PUSH", .fn (arity1 (popPush 197))),
  (t%"RES", .fn (arity23 (bitResSet 128))),
  (t%"RET", .fn (arity01 asmRet)),
  (t%"RETI", .fixed [237, 77]),
  (t%"RETN", .fixed [237, 69]),
  (t%"RL", .fn (arity12 (rotateAndShift 16))),
  (t%"RLA", .fixed [23]),
  (t%"RLC", .fn (arity12 (rotateAndShift 0))),
  (t%"RLCA", .fixed [7]),
  (t%"RLD", .fixed [237, 111]),
  (t%"RR", .fn (arity12 (rotateAndShift 24))),
  (t%"RRA", .fixed [31]),
  (t%"RRC", .fn (arity12 (rotateAndShift 8))),
  (t%"RRCA", .fixed [15]),
  (t%"RRD", .fixed [237, 103]),
  (t%"RST", .fn (arity1 asmRst)),
  (t%"SBC", .fn (arity2 asmSbc)),
  (t%"SCF", .fixed [55]),
  (t%"SET", .fn (arity23 (bitResSet 192))),
  (t%"SLA", .fn (arity12 (rotateAndShift 32))),
  (t%"SLL", .fn (arity12 (rotateAndShift 48))),
  (t%"SRA", .fn (arity12 (rotateAndShift 40))),
  (t%"SRL", .fn (arity12 (rotateAndShift 56))),
  (t%"SUB", .fn (arity1 (arithmeticA 144))),
  (t%"XOR", .fn (arity1 (arithmeticA 168)))]

/-- `self.mnemonics[name]`: `none` = KeyError -/
def lookupMnemonic : List (Txt × Enc) → Txt → Option Enc
  | [], _ => none
  | (k, e) :: rest, name => if name = k then some e else lookupMnemonic rest name

/-- the part of `_assemble` after `parts = self.split_operation(operation, True)` -/
def asmTokens (parts : List Txt) (address : Nat) : R (List Nat) :=
  match parts with
  | [] => .otherErr                            -- parts[0]: IndexError
  | name :: ops =>
    match lookupMnemonic mnemonicTable name with
    | none => .otherErr                        -- KeyError
    | some (.fixed bs) => if ops = [] then .ok bs else .ok []
    | some (.fn f) => f ops
    | some (.fnA f) => f address ops

/-- `Assembler._assemble(operation, address)` -/
def asmInstr (operation : Txt) (address : Nat) : R (List Nat) :=
  match assembleData operation with
  | some r => r
  | none => asmTokens (splitOperation operation) address

/-- `Assembler.assemble(operation, address)`: `()` on any exception and for `None` -/
def assemble (operation : Txt) (address : Nat) : List Nat :=
  match asmInstr operation address with
  | .ok bs => bs
  | _ => []

/-- the mnemonics whose numeric operand the assembler requires to be non-negative (`RST n`, `IN A,(n)`,
`OUT (n),A`: `parse_byte(…, non_neg=True)`): the negative base `m` is not meaningful for them -/
def nonNegMnemonic (operation : Txt) : Bool :=
  match splitOperation operation with
  | name :: _ => name == t%"IN" || name == t%"OUT" || name == t%"RST"
  | [] => false

/-- `parse_asm_bytes_directive(directive)` (skoolkit/skoolutils.py) on `directive[6:]`: the values of an
`@bytes=` directive; `none` = `()` (a value is not an integer) -/
def parseBytesDirective (t : Txt) : Option (List Int) := (pySplit 44 t).mapM getIntParam

end AsmInstr
