import SkoolVerif.Model.MacroText
/-
Model of `skoolkit.evaluate` (skoolkit/__init__.py): `get_int_param`, the
character filter `AE_CHARS`, the textual rewrites (`$`→`0x`, `/`→`//`,
`&&`→` and `, `||`→` or `) and the fragment of Python's expression grammar that
those characters can spell, evaluated with Python integer semantics (floor
division, modulo with the sign of the divisor, two's-complement bit operators,
short-circuit `and`/`or`, chained comparisons, lazy NameError/ZeroDivisionError).

Not modelled (result `unsup`, skipped by the correspondence): float-valued
sub-expressions (`1e5`, negative powers), the empty tuple `()`, call syntax `1(2)`, character
references rewritten by `html.unescape`, exponents/shift counts above 256,
results beyond 10^600.
-/
namespace MacroExpr
open MacroText

/-! ### Python integer operators -/

/-- Python `a // b` (b ≠ 0). -/
def pyDiv (a b : Int) : Int := Int.fdiv a b
/-- Python `a % b` (b ≠ 0): result has the sign of `b`. -/
def pyMod (a b : Int) : Int := Int.fmod a b

/-- `a & ~b` on naturals. -/
def ldiff (a b : Nat) : Nat := a ^^^ (a &&& b)

/-- Python `a & b` on unbounded two's-complement integers. -/
def pyAnd : Int → Int → Int
  | .ofNat m, .ofNat n => .ofNat (m &&& n)
  | .ofNat m, .negSucc n => .ofNat (ldiff m n)
  | .negSucc m, .ofNat n => .ofNat (ldiff n m)
  | .negSucc m, .negSucc n => .negSucc (m ||| n)

/-- Python `a | b`. -/
def pyOr : Int → Int → Int
  | .ofNat m, .ofNat n => .ofNat (m ||| n)
  | .ofNat m, .negSucc n => .negSucc (ldiff n m)
  | .negSucc m, .ofNat n => .negSucc (ldiff m n)
  | .negSucc m, .negSucc n => .negSucc (m &&& n)

/-- Python `a ^ b`. -/
def pyXor : Int → Int → Int
  | .ofNat m, .ofNat n => .ofNat (m ^^^ n)
  | .ofNat m, .negSucc n => .negSucc (m ^^^ n)
  | .negSucc m, .ofNat n => .negSucc (m ^^^ n)
  | .negSucc m, .negSucc n => .ofNat (m ^^^ n)

/-! ### Abstract syntax -/

inductive BinOp
  | add | sub | mul | fdiv | mod | pow | shl | shr | band | bxor | bor | and | or
  deriving DecidableEq, Repr

inductive CmpOp | lt | le | gt | ge | eq | ne
  deriving DecidableEq, Repr

/-- `cmp a op t`: comparison `a op t`; when `t` is `link b op' t'` the
comparison is chained Python-style (`a op b and b op' t'`, `b` evaluated
once).  `link` is only meaningful as the third argument of `cmp`/`link`. -/
inductive Expr
  | num (n : Nat)
  | name
  | neg (e : Expr)
  | pos (e : Expr)
  | bin (op : BinOp) (a b : Expr)
  | cmp (a : Expr) (op : CmpOp) (t : Expr)
  | link (b : Expr) (op : CmpOp) (t : Expr)
  deriving DecidableEq, Repr

/-- Evaluation outcome. `err`: the real `evaluate` raises ValueError;
`unsup`: outside the model (float, huge power). -/
inductive EvalErr | err | unsup
  deriving DecidableEq, Repr

abbrev EvalRes := Except EvalErr Int

def cmpTest (op : CmpOp) (a b : Int) : Bool :=
  match op with
  | .lt => a < b | .le => a ≤ b | .gt => a > b | .ge => a ≥ b
  | .eq => a == b | .ne => a != b

def boolInt (b : Bool) : Int := if b then 1 else 0

/-- Strict binary operators (everything except `and`/`or`). -/
def applyBin (op : BinOp) (a b : Int) : EvalRes :=
  match op with
  | .add => .ok (a + b)
  | .sub => .ok (a - b)
  | .mul => .ok (a * b)
  | .fdiv => if b = 0 then .error .err else .ok (pyDiv a b)
  | .mod => if b = 0 then .error .err else .ok (pyMod a b)
  | .pow =>
    if b < 0 then (if a = 0 then .error .err else .error .unsup)   -- 0 ** -1: ZeroDivisionError; else float
    else if b > 256 then .error .unsup
    else .ok (a ^ b.toNat)
  | .shl => if b < 0 then .error .err else if b > 256 then .error .unsup else .ok (a <<< b.toNat)
  | .shr => if b < 0 then .error .err else if b > 256 then .error .unsup else .ok (a >>> b.toNat)
  | .band => .ok (pyAnd a b)
  | .bxor => .ok (pyXor a b)
  | .bor => .ok (pyOr a b)
  | .and => .ok (if a = 0 then a else b)     -- not used by `eval` (lazy there)
  | .or => .ok (if a = 0 then b else a)

/-- `eval ctx e`: with `ctx = none` the value of `e`; with
`ctx = some (v, op)` the value of the comparison-chain tail `v op e`. -/
def finish (ctx : Option (Int × CmpOp)) (r : EvalRes) : EvalRes :=
  match ctx with
  | none => r
  | some (v, op) => do let ve ← r; pure (boolInt (cmpTest op v ve))

def eval (ctx : Option (Int × CmpOp)) (e : Expr) : EvalRes :=
  match e with
  | .num n => finish ctx (.ok n)
  | .name => finish ctx (.error .err)                       -- NameError
  | .neg e => finish ctx (do let v ← eval none e; pure (-v))
  | .pos e => finish ctx (eval none e)
  | .bin op a b =>
    finish ctx (
      if op = .and then do
        let va ← eval none a
        if va = 0 then pure va else eval none b
      else if op = .or then do
        let va ← eval none a
        if va = 0 then eval none b else pure va
      else do
        let va ← eval none a
        let vb ← eval none b
        applyBin op va vb)
  | .cmp a op t => finish ctx (do
      let va ← eval none a
      eval (some (va, op)) t)
  | .link b op' t =>
    match ctx with
    | none => do                                        -- ill-placed link: read as a comparison
      let vb ← eval none b
      eval (some (vb, op')) t
    | some (v, op) => do
      let vb ← eval none b
      if cmpTest op v vb then eval (some (vb, op')) t else pure 0
termination_by structural e

/-! ### Tokens -/

inductive Tok
  | num (n : Nat)
  | name
  | lp | rp
  | op (o : BinOp)        -- `+` and `-` double as prefix operators
  | cmp (c : CmpOp)
  | bad                   -- a lexeme Python rejects (`=`, `!`, `12ab`, `01`, `def`)
  | float                 -- a float literal (`1e5`): not modelled
  deriving DecidableEq, Repr

def isIdentChar (c : Char) : Bool := isAlnum c || c = '_'

/-- Split off the maximal run of identifier characters. -/
def spanIdent : Text → Text × Text
  | [] => ([], [])
  | c :: t => if isIdentChar c then let (a, b) := spanIdent t; (c :: a, b) else ([], c :: t)

def hexVal (c : Char) : Nat :=
  if isDigit c then c.toNat - 48
  else if 'a' ≤ c && c ≤ 'f' then c.toNat - 87
  else c.toNat - 55

/-- Value of a digit string in base `b` (digits already validated). -/
def digitsVal (b : Nat) (s : Text) : Nat := s.foldl (fun acc c => acc * b + hexVal c) 0

def allDigits (s : Text) : Bool := s.all isDigit
def allHex (s : Text) : Bool := s.all isHexDigit
def allBin (s : Text) : Bool := s.all (fun c => c = '0' || c = '1')

/-- Classify an identifier-character run that starts with a digit
(Python numeric literal rules restricted to the reachable alphabet). -/
def numTok (w : Text) : Tok :=
  if allDigits w then
    if w.length > 1 && w.head? = some '0' && !(w.all (· = '0')) then .bad   -- `01`
    else .num (digitsVal 10 w)
  else match w with
    | '0' :: 'x' :: r => if !r.isEmpty && allHex r then .num (digitsVal 16 r) else .bad
    | '0' :: 'X' :: r => if !r.isEmpty && allHex r then .num (digitsVal 16 r) else .bad
    | '0' :: 'b' :: r => if !r.isEmpty && allBin r then .num (digitsVal 2 r) else .bad
    | '0' :: 'B' :: r => if !r.isEmpty && allBin r then .num (digitsVal 2 r) else .bad
    | _ =>
      match w.dropWhile isDigit with
      | 'e' :: r' => if allDigits r' then .float else .bad      -- `1e5`
      | 'E' :: r' => if allDigits r' then .float else .bad
      | _ => .bad                                               -- `12ab`

def wordTok (w : Text) : Tok :=
  if w = ['a', 'n', 'd'] then .op .and
  else if w = ['o', 'r'] then .op .or
  else if w = ['d', 'e', 'f'] then .bad
  else .name

/-- Tokenise Python source text over the reachable alphabet. `fuel` ≥ length. -/
def lex : Nat → Text → List Tok
  | 0, _ => []
  | _, [] => []
  | fuel + 1, c :: t =>
    if c = ' ' then lex fuel t
    else if isDigit c then
      let (w, r) := spanIdent (c :: t)
      -- a float literal may continue with a sign: `1e+5`
      match numTok w, r with
      | .float, '+' :: d :: r' => if isDigit d && (w.getLast? = some 'e' || w.getLast? = some 'E')
                                  then .float :: lex fuel (spanIdent (d :: r')).2 else .float :: lex fuel r
      | .float, '-' :: d :: r' => if isDigit d && (w.getLast? = some 'e' || w.getLast? = some 'E')
                                  then .float :: lex fuel (spanIdent (d :: r')).2 else .float :: lex fuel r
      | tk, _ => tk :: lex fuel r
    else if isAlpha c || c = '_' then
      let (w, r) := spanIdent (c :: t)
      wordTok w :: lex fuel r
    else match c, t with
      | '(', _ => .lp :: lex fuel t
      | ')', _ => .rp :: lex fuel t
      | '*', '*' :: t' => .op .pow :: lex fuel t'
      | '/', '/' :: t' => .op .fdiv :: lex fuel t'
      | '<', '<' :: t' => .op .shl :: lex fuel t'
      | '>', '>' :: t' => .op .shr :: lex fuel t'
      | '<', '=' :: t' => .cmp .le :: lex fuel t'
      | '>', '=' :: t' => .cmp .ge :: lex fuel t'
      | '=', '=' :: t' => .cmp .eq :: lex fuel t'
      | '!', '=' :: t' => .cmp .ne :: lex fuel t'
      | '<', '>' :: t' => .bad :: lex fuel t'
      | '+', _ => .op .add :: lex fuel t
      | '-', _ => .op .sub :: lex fuel t
      | '*', _ => .op .mul :: lex fuel t
      | '%', _ => .op .mod :: lex fuel t
      | '&', _ => .op .band :: lex fuel t
      | '|', _ => .op .bor :: lex fuel t
      | '^', _ => .op .bxor :: lex fuel t
      | '<', _ => .cmp .lt :: lex fuel t
      | '>', _ => .cmp .gt :: lex fuel t
      | _, _ => .bad :: lex fuel t        -- `/` alone, `=`, `!`, anything else

/-! ### Parser (precedence climbing over Python's operator table) -/

def prec : BinOp → Nat
  | .or => 1 | .and => 2
  | .bor => 5 | .bxor => 6 | .band => 7
  | .shl => 8 | .shr => 8
  | .add => 9 | .sub => 9
  | .mul => 10 | .fdiv => 10 | .mod => 10
  | .pow => 12

def cmpPrec : Nat := 4
def unaryPrec : Nat := 11

/-- Minimum precedence for the right operand (left-associative operators
bind tighter on the right; `**` is right-associative and its operand is a
Python `factor`, which may start with a sign). -/
def rhsPrec (o : BinOp) : Nat := if o = .pow then 12 else prec o + 1

abbrev PRes := Option (Expr × List Tok)

/-- Tail of a comparison chain after an operator: operand, then possibly
more `op operand` pairs, right-nested with `link`. -/
def chainTail (operand : List Tok → PRes) : Nat → List Tok → PRes
  | 0, _ => none
  | k + 1, ts =>
    match operand ts with
    | none => none
    | some (b, .cmp c :: r) =>
      (match chainTail operand k r with
       | some (t, r') => some (.link b c t, r')
       | none => none)
    | some (b, r) => some (b, r)

/-- Operator loop: `lhs` has been parsed, continue while the next operator
binds at least as tightly as `p`. `sub q` parses an operand at level `q`. -/
def opLoop (sub : Nat → List Tok → PRes) : Nat → Nat → Expr → List Tok → PRes
  | 0, _, _, _ => none
  | k + 1, p, lhs, ts =>
    match ts with
    | .op o :: r =>
      if prec o ≥ p then
        match sub (rhsPrec o) r with
        | some (b, r') => opLoop sub k p (.bin o lhs b) r'
        | none => none
      else some (lhs, ts)
    | .cmp c :: r =>
      if cmpPrec ≥ p then
        match chainTail (sub (cmpPrec + 1)) (k + 1) r with
        | some (t, r') => opLoop sub k p (.cmp lhs c t) r'
        | none => none
      else some (lhs, ts)
    | _ => some (lhs, ts)

/-- `parseE fuel p ts`: parse an expression whose operators all bind at
least as tightly as `p`. -/
def parseE : Nat → Nat → List Tok → PRes
  | 0, _, _ => none
  | n + 1, p, ts =>
    let pre : PRes :=
      match ts with
      | .num k :: r => some (.num k, r)
      | .name :: r => some (.name, r)
      | .lp :: r =>
        (match parseE n 0 r with
         | some (e, .rp :: r') => some (e, r')
         | _ => none)
      | .op .sub :: r =>
        (match parseE n unaryPrec r with
         | some (e, r') => some (.neg e, r')
         | none => none)
      | .op .add :: r =>
        (match parseE n unaryPrec r with
         | some (e, r') => some (.pos e, r')
         | none => none)
      | _ => none
    match pre with
    | some (lhs, r) => opLoop (parseE n) n p lhs r
    | none => none

/-- Parse a complete token list. -/
def parseTokens (ts : List Tok) : Option Expr :=
  match parseE (2 * ts.length + 2) 0 ts with
  | some (e, []) => some e
  | _ => none

def hasEmptyTuple : List Tok → Bool
  | .lp :: .rp :: _ => true
  | _ :: t => hasEmptyTuple t
  | [] => false

/-- Call syntax `atom(…)` parses in Python (and fails only when evaluated, so
`0&&1(2)` is 0): not modelled. -/
def hasCall : List Tok → Bool
  | .num _ :: .lp :: _ => true
  | .name :: .lp :: _ => true
  | .rp :: .lp :: _ => true
  | _ :: t => hasCall t
  | [] => false

/-! ### `get_int_param` -/

/-- Digit groups separated by single underscores: `d+(_d+)*`; value in base `b`. -/
def digitGroups (okDigit : Char → Bool) (b : Nat) : Text → Option Nat
  | [] => none
  | s =>
    let groups := splitChar '_' s
    if groups.all (fun g => !g.isEmpty && g.all okDigit) then some (digitsVal b (s.filter (· ≠ '_')))
    else none

def stripPrefix2 (c1 c2 : Char) : Text → Text
  | '0' :: x :: r =>
    if x = c1 || x = c2 then
      match r with
      | '_' :: r' => r'          -- `0x_1f` is accepted
      | _ => r
    else '0' :: x :: r
  | s => s

/-- Optional sign of `int()`'s argument. -/
def splitSign : Text → Int × Text
  | '-' :: r => (-1, r)
  | '+' :: r => (1, r)
  | s => (1, s)

/-- Python `int(s, base)` for base 10, 16, 2 on ASCII text. -/
def pyInt (base : Nat) (s : Text) : Option Int :=
  let (sign, s) := splitSign (strip s)
  let body := if base = 16 then stripPrefix2 'x' 'X' s else if base = 2 then stripPrefix2 'b' 'B' s else s
  let okD : Char → Bool := if base = 16 then isHexDigit else if base = 2 then (fun c => c = '0' || c = '1') else isDigit
  match digitGroups okD base body with
  | some n => some (sign * n)
  | none => none

/-- `skoolkit.get_int_param(num_str)` (`accept0x=False`); `none` = ValueError. -/
def getIntParam (s : Text) : Option Int :=
  match pyInt 10 s with
  | some v => some v
  | none =>
    match s with
    | '$' :: r => pyInt 16 r
    | '%' :: r => pyInt 2 r
    | '"' :: r =>
      (match r.reverse with
       | '"' :: midRev =>
         let mid := midRev.reverse
         (match mid with
          | '\\' :: rest => (match rest with | [c] => some (c.toNat : Int) | _ => none)
          | [c] => some (c.toNat : Int)
          | _ => none)
       | _ => none)
    | _ => none

/-! ### `evaluate` -/

def aeChars : Text := [' ', '!', '=', '+', '-', '*', '/', '<', '>', '&', '|', '^', '%', '$', 'A', 'B', 'C', 'D', 'E', 'F', 'a', 'b', 'c', 'd', 'e', 'f', '0', '1', '2', '3', '4', '5', '6', '7', '8', '9', '(', ')']

/-- A `&` followed by a letter or `#` may be rewritten by `html.unescape`. -/
def hasCharRef : Text → Bool
  | '&' :: c :: t => isAlpha c || c = '#' || hasCharRef (c :: t)
  | _ :: t => hasCharRef t
  | [] => false

/-- The textual rewrites applied before `eval`. -/
def pyText (s : Text) : Text :=
  replace ['|', '|'] [' ', 'o', 'r', ' ']
    (replace ['&', '&'] [' ', 'a', 'n', 'd', ' ']
      (replace ['/'] ['/', '/']
        (replace ['$'] ['0', 'x'] s)))

/-- `evaluate(param, safe=False)`. -/
def evaluate (param : Text) : EvalRes :=
  match getIntParam param with
  | some v => .ok v
  | none =>
    if !(param.all (fun c => aeChars.contains c)) then
      -- `html.unescape` may turn `&lt;`, `&#49;`… into allowed characters: not modelled.
      -- (No character reference can be spelled with the allowed characters alone.)
      if hasCharRef param then .error .unsup else .error .err
    else
      let src := pyText param
      let ts := lex (src.length + 1) src
      if ts.contains .float then .error .unsup
      else if hasCall ts || hasEmptyTuple ts then .error .unsup
      else if ts.contains .bad then .error .err
      else match parseTokens ts with
        | some e =>
          (match eval none e with
           | .ok v => if v.natAbs > 10 ^ 600 then .error .unsup else .ok v    -- model limit (CPython: int/str conversion limit)
           | .error x => .error x)
        | none => .error .err

end MacroExpr
