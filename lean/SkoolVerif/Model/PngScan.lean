import SkoolVerif.Model.ZxTile
/-
Hand model of the scanline builders of skoolkit/pngwriter.py (the bytes handed
to zlib): `_get_bytes`, `BITS4`, `BIT_PAIRS`, `_build_image_data_bd_any`
(generic), `_scan_frame` and the specialised `_build_image_data_bd0/bd1_nt/
bd1_at/bd2_nt/bd2_at/bd4_nt`, the dispatch of `_build_image_data`, the
`Frame` geometry properties and `Frame.swap_colours` of skoolkit/graphics.py,
and the flash-rectangle computation of `ImageWriter._get_colours`
(skoolkit/image.py).  Core Lean only.
-/
namespace PngScan
open ZxTile

/-! ### Small list helpers mirroring Python idioms -/

/-- `[l[i:i+n] for i in range(0, len(l), n)]` (`fuel ≥ len(l)`, `n ≥ 1`). -/
def chunksOf {α : Type} (n : Nat) : Nat → List α → List (List α)
  | 0, _ => []
  | fuel + 1, l => if l.isEmpty then [] else l.take n :: chunksOf n fuel (l.drop n)

/-- `int(digits, base)` for a list of digit values. -/
def fromBase (base : Nat) (ds : List Nat) : Nat := ds.foldl (fun a d => a * base + d) 0

/-- Each element repeated `scale` times (`'1' * scale`, `(5,) * scale`). -/
def expand {α : Type} (scale : Nat) (l : List α) : List α := l.flatMap (List.replicate scale)

/-- `'{:08b}'.format(v)` as digit values (for `v < 256`). -/
def bits8 (v : Nat) : List Nat :=
  [v / 128 % 2, v / 64 % 2, v / 32 % 2, v / 16 % 2, v / 8 % 2, v / 4 % 2, v / 2 % 2, v % 2]

/-- `_get_bytes(depth, scale)[v]` -/
def getBytes (depth scale v : Nat) : List Nat :=
  let p := bits8 v
  let b :=
    if depth = 1 then p.flatMap (List.replicate scale)
    else if depth = 2 then
      (List.replicate scale (p.take 2)).flatten ++ (List.replicate scale ((p.drop 2).take 2)).flatten
        ++ (List.replicate scale ((p.drop 4).take 2)).flatten ++ (List.replicate scale (p.drop 6)).flatten
    else
      (List.replicate scale (p.take 4)).flatten ++ (List.replicate scale (p.drop 4)).flatten
  (chunksOf 8 b.length b).map (fromBase 2)

/-- `BITS4[n]` = the four bits of `n`, most significant first. -/
def bits4 (n : Nat) : List Nat := [n / 8 % 2, n / 4 % 2, n / 2 % 2, n % 2]

/-- `BIT_PAIRS[n]` = `[((n << m) & 128) // 64 + ((n << m) & 8) // 8 for m in range(4)]`. -/
def bitPairs (n : Nat) : List Nat :=
  (List.range 4).map (fun m => ((n <<< m) &&& 128) / 64 + ((n <<< m) &&& 8) / 8)

/-! ### Frames -/

/-- `skoolkit.graphics.Frame` (fields used by the image writer). `width`/`height`
are the constructor arguments (`none` = `None`). -/
structure Frame where
  udgs : List (List Udg)
  scale : Nat
  mask : Nat := 0
  x : Nat := 0
  y : Nat := 0
  width : Option Nat := none
  height : Option Nat := none
  deriving Repr

def Frame.fullWidth (f : Frame) : Nat := 8 * (f.udgs.headD []).length * f.scale
def Frame.fullHeight (f : Frame) : Nat := 8 * f.udgs.length * f.scale
/-- `min(self._width or full_width, full_width - self.x)` -/
def Frame.w (f : Frame) : Nat :=
  let fw := f.fullWidth
  min (match f.width with | some 0 => fw | some v => v | none => fw) (fw - f.x)
def Frame.h (f : Frame) : Nat :=
  let fh := f.fullHeight
  min (match f.height with | some 0 => fh | some v => v | none => fh) (fh - f.y)
def Frame.cropped (f : Frame) : Bool := f.w != f.fullWidth || f.h != f.fullHeight

/-- `Frame.swap_colours(x, y, width, height)` -/
def Frame.swapColours (f : Frame) (x y width height : Nat) : Frame :=
  let sw (u : Udg) : Udg := if u.attr &&& 128 ≠ 0 then { u with attr := swapAttr u.attr } else u
  if f.cropped then
    { f with udgs := f.udgs.map (·.map sw), x := x, y := y, width := some width, height := some height }
  else
    let inc := 8 * f.scale
    let tx := x / inc; let ty := y / inc; let tw := width / inc; let th := height / inc
    { f with udgs := ((f.udgs.drop ty).take th).map (fun row => ((row.drop tx).take tw).map sw),
             x := 0, y := 0, width := none, height := none }

/-! ### The generic builder -/

/-- Everything `_build_image_data_bd_any` reads: `frame.scale/x/y/width/height`,
`bit_depth`, the mask object and `frame.attr_map` (a `dict`: `none` = KeyError). -/
structure Ctx where
  scale : Nat
  bitDepth : Nat
  x0 : Nat
  y0 : Nat
  width : Nat
  height : Nat
  mask : MaskKind
  attrs : Nat → Option (Nat × Nat)

/-- `pixel_rows[k]` after the `for udg in row[c0:c1]` loop: palette indices,
each source pixel repeated `scale` times. -/
def rowPixels (c : Ctx) (row : List Udg) (k : Nat) : List Nat :=
  row.flatMap (fun u =>
    let pi := (c.attrs u.attr).getD (0, 0)
    expand c.scale (applyMask c.mask u k pi.1 pi.2 0))

/-- `scanlines[i]` contents after the filter byte, from `pixel_rows[i]`. -/
def packLine (c : Ctx) (p : List Nat) : List Nat :=
  let p0 := c.x0 % (8 * c.scale)
  let cropped := (p.drop p0).take c.width       -- `[p0:p1]`
  if c.bitDepth = 4 then
    let q := cropped ++ List.replicate (c.width &&& 1) 0
    (chunksOf 2 q.length q).map (fun g => g.getD 0 0 * 16 + g.getD 1 0)
  else
    let digits := 8 / c.bitDepth
    let r := cropped ++ List.replicate ((digits - c.width % digits) % digits) 0   -- `-width & (digits - 1)`
    (chunksOf digits r.length r).map (fromBase (2 ^ c.bitDepth))

/-- `range(a, b)` over Python ints. -/
def intRange (a b : Int) : List Int := (List.range (b - a).toNat).map (fun (i : Nat) => a + (i : Int))

/-- `seq * n` for a Python int `n` (empty when `n ≤ 0`). -/
def repeatLine (n : Int) (line : List Nat) : List (List Nat) := List.replicate n.toNat line

/-- The `for row in frame.udgs[r0:r1]` loop.  State `(k0, k1, y, rows)` as in
the source; `rows` are the already-sliced tile rows `row[c0:c1]`.  Emits the
list of scanlines in the order they are fed to the compressor. -/
def anyRows (c : Ctx) : List (List Udg) → Int → Int → Int → Int → List (List Nat)
  | [], _, _, _, _ => []
  | row :: rest, k0, k1, y, rows =>
    let y1 : Int := c.y0 + c.height
    let scale : Int := c.scale
    -- `scanlines[i]`: only indices in `range(k0, k1)` get pixel data
    let scan (i : Int) : List Nat :=
      if k0 ≤ i ∧ i < k1 then 0 :: packLine c (rowPixels c row i.toNat) else [0]
    let first := repeatLine rows (scan k0)
    let y' := y + (k1 - k0) * scale
    let more :=
      if k1 > k0 + 1 then
        (intRange (k0 + 1) (k1 - 1)).flatMap (fun i => repeatLine scale (scan i))
          ++ repeatLine (min scale (y1 - y' + scale)) (scan (k1 - 1))
      else []
    first ++ more ++ anyRows c rest 0 (min 8 (1 + (y1 - y' - 1) / scale)) y' (min scale (y1 - y'))

/-- Tile rows / columns visited: `frame.udgs[r0:r1]`, `row[c0:c1]`. -/
def visited (c : Ctx) (udgs : List (List Udg)) : List (List Udg) :=
  let inc := 8 * c.scale
  let r0 := c.y0 / inc; let r1 := (c.y0 + c.height) / inc + 1
  let c0 := c.x0 / inc; let c1 := (c.x0 + c.width) / inc + 1
  ((udgs.drop r0).take (r1 - r0)).map (fun row => (row.drop c0).take (c1 - c0))

inductive BuildErr | keyError
  deriving DecidableEq, Repr

/-- `_build_image_data_bd_any(frame, mask, bit_depth)` before compression: the
scanlines (filter byte included).  `attrs[udg.attr]` raises KeyError for any
visited tile whose attribute is not in the map. -/
def buildAny (c : Ctx) (udgs : List (List Udg)) : Except BuildErr (List (List Nat)) :=
  let rows := visited c udgs
  if rows.any (fun row => row.any (fun u => (c.attrs u.attr).isNone)) then .error .keyError else
  let inc : Int := 8 * c.scale
  let scale : Int := c.scale
  let y0 : Int := c.y0
  let y1 : Int := c.y0 + c.height
  let r0 : Int := y0 / inc
  let k0 := (y0 % inc) / scale
  let k1 := min 8 (1 + (y1 - inc * r0 - 1) / scale)
  let y := scale * (y0 / scale)
  .ok (anyRows c rows k0 k1 y (min (y - y0 + scale) c.height))

/-! ### The specialised builders -/

/-- `_scan_frame(frame, scan_udg_f, *args)`: `udgLine u k` is what `scan_udg_f`
appends to `scanlines[k]` for tile `u`. -/
def scanFrame (scale : Nat) (udgs : List (List Udg)) (udgLine : Udg → Nat → List Nat) : List (List Nat) :=
  udgs.flatMap (fun row =>
    (List.range 8).flatMap (fun k => List.replicate scale (0 :: row.flatMap (fun u => udgLine u k))))

/-- `_build_image_data_bd0`: `(1 + frame.width // 8) * frame.height` zero bytes
(returned here as `height` lines). -/
def buildBd0 (width height : Nat) : List (List Nat) :=
  List.replicate height (List.replicate (1 + width / 8) 0)

/-- `_scan_udg_bd1_nt` -/
def udgLineBd1Nt (scale : Nat) (attrs : Nat → Option (Nat × Nat)) (u : Udg) (k : Nat) : List Nat :=
  let pi := (attrs u.attr).getD (0, 0)
  let bMask := pi.1 * 255
  if pi.2 = pi.1 then getBytes 1 scale bMask
  else getBytes 1 scale (u.data.getD k 0 ^^^ bMask)

/-- `_scan_udg_bd1_at` -/
def udgLineBd1At (scale : Nat) (mask : MaskKind) (attrs : Nat → Option (Nat × Nat)) (u : Udg) (k : Nat) : List Nat :=
  let pi := (attrs u.attr).getD (0, 0)
  getBytes 1 scale (fromBase 2 (applyMask mask u k pi.1 pi.2 0))

/-- `_scan_udg_bd2_nt` with the table built by `_build_image_data_bd2_nt`. -/
def udgLineBd2Nt (scale : Nat) (attrs : Nat → Option (Nat × Nat)) (u : Udg) (k : Nat) : List Nat :=
  let pi := (attrs u.attr).getD (0, 0)
  let t (i : Nat) : Nat := if i = 0 then pi.1 else pi.2
  let tbl (nib : Nat) : List Nat :=
    match bits4 nib with
    | [d, cc, b, a] => getBytes 2 scale (t d * 64 + t cc * 16 + t b * 4 + t a)
    | _ => []
  let byte := u.data.getD k 0
  tbl (byte / 16) ++ tbl (byte &&& 15)

/-- `_scan_udg_bd2_at` with the table built by `_build_image_data_bd2_at`. -/
def udgLineBd2At (scale : Nat) (mask : MaskKind) (attrs : Nat → Option (Nat × Nat)) (u : Udg) (k : Nat) : List Nat :=
  let pi := (attrs u.attr).getD (0, 0)
  let p := maskColours mask pi.1 pi.2 0
  let tbl (n : Nat) : List Nat :=
    match bitPairs n with
    | [d, cc, b, a] => getBytes 2 scale (p.getD d 0 * 64 + p.getD cc 0 * 16 + p.getD b 0 * 4 + p.getD a 0)
    | _ => []
  let byte := u.data.getD k 0
  let maskByte := match u.maskRows with       -- `udg.mask or udg_bytes`
    | some m => m.getD k 0
    | none => byte
  tbl ((byte &&& 240) + maskByte / 16) ++ tbl ((byte &&& 15) * 16 + (maskByte &&& 15))

/-- `_scan_udg_bd4_nt` with the table built by `_build_image_data_bd4_nt`. -/
def udgLineBd4Nt (scale : Nat) (attrs : Nat → Option (Nat × Nat)) (u : Udg) (k : Nat) : List Nat :=
  let pi := (attrs u.attr).getD (0, 0)
  let t (i : Nat) : Nat := if i = 0 then pi.1 else pi.2
  let tbl (nib : Nat) : List Nat :=
    match bits4 nib with
    | [d, cc, b, a] => getBytes 4 scale (t d * 16 + t cc) ++ getBytes 4 scale (t b * 16 + t a)
    | _ => []
  let byte := u.data.getD k 0
  tbl (byte / 16) ++ tbl (byte &&& 15)

/-- The builder names in `png_method_dict`. -/
inductive Method | any | bd0 | bd1nt | bd1at | bd2nt | bd2at | bd4nt
  deriving DecidableEq, Repr

/-- `self.png_method_dict[bd][full_size][masked]` as filled in by
`_create_png_method_dict`. -/
def methodFor (bd : Nat) (fullSize masked : Bool) : Method :=
  if !fullSize then .any else
  match bd, masked with
  | 0, _ => .bd0
  | 1, false => .bd1nt
  | 1, true => .bd1at
  | 2, false => .bd2nt
  | 2, true => .bd2at
  | 4, false => .bd4nt
  | _, _ => .any

/-- Runs the chosen builder on a frame (scanlines before compression). -/
def runMethod (m : Method) (c : Ctx) (udgs : List (List Udg)) : Except BuildErr (List (List Nat)) :=
  let chk (r : List (List Nat)) : Except BuildErr (List (List Nat)) :=
    if udgs.any (fun row => row.any (fun u => (c.attrs u.attr).isNone)) then .error .keyError else .ok r
  match m with
  | .any => buildAny c udgs
  | .bd0 => .ok (buildBd0 c.width c.height)
  | .bd1nt => chk (scanFrame c.scale udgs (udgLineBd1Nt c.scale c.attrs))
  | .bd1at => chk (scanFrame c.scale udgs (udgLineBd1At c.scale c.mask c.attrs))
  | .bd2nt => chk (scanFrame c.scale udgs (udgLineBd2Nt c.scale c.attrs))
  | .bd2at => chk (scanFrame c.scale udgs (udgLineBd2At c.scale c.mask c.attrs))
  | .bd4nt => chk (scanFrame c.scale udgs (udgLineBd4Nt c.scale c.attrs))

/-! ### `_build_image_data`: dispatch, frame 1 and the flash frame -/

/-- `f2_attr_map` of `_build_image_data`: a copy of `attr_map` in which, for every key `attr`
(with value `(paper, ink)`), `(attr & 192) + (attr & 7) * 8 + (attr & 56) // 8` maps to
`(ink, paper)`.  The keys are attribute bytes, on which that formula is an involution, so the
entry for byte `a` -- if any -- comes from the key `swapAttr a`. -/
def frame2Attrs (attrs : Nat → Option (Nat × Nat)) (a : Nat) : Option (Nat × Nat) :=
  if a < 256 then
    match attrs (swapAttr a) with
    | some (paper, ink) => some (ink, paper)
    | none => attrs a
  else attrs a

/-- The context a builder sees for a frame. -/
def ctxOf (f : Frame) (bitDepth : Nat) (mask : MaskKind) (attrs : Nat → Option (Nat × Nat)) : Ctx :=
  { scale := f.scale, bitDepth, x0 := f.x, y0 := f.y, width := f.w, height := f.h, mask, attrs }

/-- `_build_image_data(frame, palette_size, bit_depth, attr_map, flash_rect)`: the scanlines of
frame 1 and (if `flash_rect`) of frame 2, before compression.  `hasMasks` is `frame.has_masks`. -/
def buildImageData (f : Frame) (hasMasks : Bool) (paletteSize bitDepth : Nat)
    (attrs : Nat → Option (Nat × Nat)) (flash : Option (Nat × Nat × Nat × Nat)) :
    Except BuildErr (List (List Nat) × Option (List (List Nat))) :=
  let masked := f.mask != 0 && hasMasks
  let mask := if masked then (MaskKind.ofNat? f.mask).getD .noMask else .noMask
  let fullSize := !f.cropped
  let bd := if paletteSize = 1 then 0 else bitDepth
  let m := methodFor bd fullSize masked
  match runMethod m (ctxOf f bitDepth mask attrs) f.udgs with
  | .error e => .error e
  | .ok frame1 =>
    match flash with
    | none => .ok (frame1, none)
    | some (fx, fy, fw, fh) =>
      let f2 := f.swapColours (f.x + fx) (f.y + fy) fw fh
      match runMethod m (ctxOf f2 bitDepth mask (frame2Attrs attrs)) f2.udgs with
      | .error e => .error e
      | .ok frame2 => .ok (frame1, some frame2)

/-! ### The flash rectangle (`ImageWriter._get_colours`) -/

/-- `has_non_trans` for one tile: some pixel in rows `[j0, j1)`, columns
`[k0, k1)` is ink or paper (the early `break` of the real loop only fires once
this is already true). -/
def hasNonTrans (mask : MaskKind) (u : Udg) (j0 j1 k0 k1 : Nat) : Bool :=
  (List.range (j1 - j0)).any (fun j =>
    (((applyMask mask u (j0 + j) (some false) (some true) (none : Option Bool)).drop k0).take (k1 - k0)).any
      (fun p => p.isSome))

/-- Running `(min_x, min_y, max_x, max_y, flashing)` of `_get_colours`. -/
structure FlashSt where
  minX : Nat
  minY : Nat
  maxX : Nat
  maxY : Nat
  flashing : Bool
  deriving DecidableEq, Repr

/-- The body of the `for udg in row[min_col:max_col + 1]` loop as far as the
flash rectangle is concerned; `(x, y)` is the tile's top-left pixel. -/
def flashCell (mask : MaskKind) (scale x0 y0 x1 y1 : Nat) (useFlash : Bool)
    (st : FlashSt) (u : Udg) (x y : Nat) : FlashSt :=
  let inc := 8 * scale
  let x1Floor := inc * (x1 / inc)
  let y1Floor := inc * (y1 / inc)
  let pi := attrIndex u.attr
  let whole := x0 ≤ x ∧ x < x1Floor ∧ y0 ≤ y ∧ y < y1Floor
  -- `max(0, (x0 - x) // scale)`, `min(8, 1 + (x1 - 1 - x) // scale)` over Python ints
  let minK := (x0 - x) / scale
  let maxK := (min 8 (1 + ((x1 : Int) - 1 - x) / (scale : Int))).toNat
  let minJ := (y0 - y) / scale
  let maxJ := (min 8 (1 + ((y1 : Int) - 1 - y) / (scale : Int))).toNat
  let nonTrans := if whole then hasNonTrans mask u 0 8 0 8 else hasNonTrans mask u minJ maxJ minK maxK
  if useFlash ∧ u.attr &&& 128 ≠ 0 ∧ pi.2 ≠ pi.1 ∧ nonTrans then
    if whole then
      { minX := min x st.minX, maxX := max (x + inc) st.maxX,
        minY := min y st.minY, maxY := max (y + inc) st.maxY, flashing := true }
    else
      let fx0 := max x0 (x + minK * scale)
      let fx1 := min x1 (x + maxK * scale)
      let fy0 := max y0 (y + minJ * scale)
      let fy1 := min y1 (y + maxJ * scale)
      { minX := min fx0 st.minX, maxX := max fx1 st.maxX,
        minY := min fy0 st.minY, maxY := max fy1 st.maxY, flashing := true }
  else st

/-- The tiles `_get_colours` visits with their pixel origins:
`udg_array[min_row:max_row + 1]`, `row[min_col:max_col + 1]`. -/
def flashCells (udgs : List (List Udg)) (scale x0 y0 x1 y1 : Nat) : List (Udg × Nat × Nat) :=
  let inc := 8 * scale
  let minCol := x0 / inc; let maxCol := x1 / inc
  let minRow := y0 / inc; let maxRow := y1 / inc
  (((udgs.drop minRow).take (maxRow + 1 - minRow)).zipIdx).flatMap (fun (row, r) =>
    (((row.drop minCol).take (maxCol + 1 - minCol)).zipIdx).map (fun (u, cidx) =>
      (u, inc * minCol + inc * cidx, inc * minRow + inc * r)))

/-- `frame.flash_rect` as computed by `_get_colours(frame, use_flash)`:
`(min_x - x0, min_y - y0, max_x - min_x, max_y - min_y)` (as Python ints) or `None`. -/
def flashRect (mask : MaskKind) (udgs : List (List Udg)) (scale x0 y0 width height : Nat) (useFlash : Bool) :
    Option (Int × Int × Int × Int) :=
  let x1 := x0 + width
  let y1 := y0 + height
  let st := (flashCells udgs scale x0 y0 x1 y1).foldl
    (fun st (u, x, y) => flashCell mask scale x0 y0 x1 y1 useFlash st u x y)
    { minX := x1, minY := y1, maxX := 0, maxY := 0, flashing := false }
  if st.flashing then
    some ((st.minX : Int) - x0, (st.minY : Int) - y0, (st.maxX : Int) - st.minX, (st.maxY : Int) - st.minY)
  else none

end PngScan
