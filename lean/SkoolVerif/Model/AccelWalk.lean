import SkoolVerif.Model.LoadTape
import SkoolVerif.Gen.SimHandlers
/-!
Static walk of a tape-sampling-loop signature (`loadsample.ACCELERATORS[..].code`) through the
generated dispatch tables of the simulator: starting at the `IN` (offset `c0`), follow the loop
path back to the `IN`, adding up T-states, M1 cycles (R increments) and the `INC r`/`DEC r`
instructions met on the way.  `classify` is the per-closure cost summary; it is proved sound
against the generated closures in `Proofs/AccelWalkLemmas.lean`.

Loop path = what the code does while no edge is seen and the counter has not run out:
* `RET cc` is not taken;
* `JR cc,d` is taken iff its target lies inside the signature (back edge, or the jump over the
  wildcard filler of the `alkatraz` variants), otherwise (timeout/break exits) not taken;
* `JP cc,nn` whose operand lies inside the signature (a timeout exit with wildcard address) is not
  taken; a `JP cc` opcode that is the *last* byte of the signature is the back edge: its two
  address bytes are not part of the signature and are assumed to point at offset 0.
-/
namespace AccelWalk
open Sim LoadTape

structure Cost where
  size : Int
  tNot : Int      -- T-states when the condition fails / unconditional
  tTaken : Int    -- T-states when the jump/return is taken
  m1 : Int        -- R increments
  deriving Repr, DecidableEq

inductive Kind where
  | plain (w : List Int)        -- falls through; writes registers `w` (besides R)
  | incr (r : Int)              -- INC r
  | decr (r : Int)              -- DEC r
  | inp (w : List Int)          -- IN A,(n) / IN r,(C)
  | setR                        -- LD R,A
  | jrc | jpc | retc            -- conditional JR / JP / RET
  deriving Repr, DecidableEq

def Kind.isCond : Kind → Bool
  | .jrc => true | .jpc => true | .retc => true | _ => false

def m1Of : TblI1 → Option Int
  | .R1 => some 1
  | .R2 => some 2
  | _ => none

def gpr (r : Int) : Bool := decide (0 ≤ r ∧ r ≤ 11)

/-- cost summary of the closures that occur in tape-sampling loops -/
def classify : Instr → Option (Cost × Kind)
  | .nop ri t sz => (m1Of ri).map fun m => (⟨sz, t, t, m⟩, .plain [])
  | .fc_r ri t sz fc r =>
    if gpr r then (m1Of ri).map fun m =>
      (⟨sz, t, t, m⟩, if fc = .INC then .incr r else if fc = .DEC then .decr r else .plain [r, 1])
    else none
  | .af_r ri t sz _ _ => (m1Of ri).map fun m => (⟨sz, t, t, m⟩, .plain [0, 1])
  | .af_n _ => some (⟨2, 7, 7, 1⟩, .plain [0, 1])
  | .ld_r_n ri t sz r => if gpr r then (m1Of ri).map fun m => (⟨sz, t, t, m⟩, .plain [r]) else none
  | .ld_r_r ri t sz r1 _ =>
    if r1 = 15 then (m1Of ri).map fun m => (⟨sz, t, t, m⟩, .setR)
    else if gpr r1 then (m1Of ri).map fun m => (⟨sz, t, t, m⟩, .plain [r1]) else none
  | .in_a => some (⟨2, 11, 11, 1⟩, .inp [0])
  | .in_c reg _ => if gpr reg then some (⟨2, 12, 12, 2⟩, .inp [reg, 1]) else none
  | .ld_a_m => some (⟨3, 13, 13, 1⟩, .plain [0])
  | .cf _ => some (⟨1, 4, 4, 1⟩, .plain [1])
  | .jr _ _ => some (⟨2, 7, 12, 1⟩, .jrc)
  | .jp _ _ => some (⟨3, 10, 10, 1⟩, .jpc)
  | .ret c_and _ => if c_and ≠ 0 then some (⟨1, 5, 11, 1⟩, .retc) else none
  | _ => none

/-- the closure selected by the opcode byte(s) at offset `o` of the signature -/
def decodeAt (code : Array (Option Int)) (o : Nat) : Option Instr :=
  match code[o]? with
  | some (some b0) =>
    match OpTbl.get .MAIN b0 with
    | .prefix_ tbl =>
      match code[o + 1]? with
      | some (some b1) =>
        match tbl.get b1 with
        | .prefix_ _ => none
        | .prefix2_ _ => none
        | i => some i
      | _ => none
    | .prefix2_ _ => none
    | i => some i
  | _ => none

structure Walk where
  t : Int := 0
  m1 : Int := 0
  counterOps : List (Int × Bool) := []   -- (register, isInc) for every INC r / DEC r on the path, newest first
  writes : List Int := []                -- registers written by the other instructions
  setsR : Bool := false
  inputs : Nat := 0
  steps : Nat := 0
  deriving Repr, DecidableEq

def signedByte (d : Int) : Int := if d < 128 then d else d - 256

/-- closure, cost and kind of the instruction at offset `o` -/
def stepInfo (code : Array (Option Int)) (o : Nat) : Option (Instr × Cost × Kind) :=
  match decodeAt code o with
  | none => none
  | some i => match classify i with
    | none => none
    | some (c, k) => some (i, c, k)

/-- where the loop path continues after the instruction at offset `o`: (offset, jump taken?) -/
def nextOf (code : Array (Option Int)) (o : Nat) (c : Cost) (k : Kind) : Option (Nat × Bool) :=
  match k with
  | .jrc =>
    match code[o + 1]? with
    | some (some d) =>
      let target := (o : Int) + 2 + signedByte d
      if 0 ≤ target ∧ target < code.size then some (target.toNat, true) else some (o + 2, false)
    | _ => none
  | .jpc => if o + 1 = code.size then some (0, true) else if o + 3 ≤ code.size then some (o + 3, false) else none
  | .retc => some (o + 1, false)
  | _ => if 0 ≤ c.size then some (o + c.size.toNat, false) else none

/-- bookkeeping of one instruction of the path -/
def accum (w : Walk) (c : Cost) (k : Kind) (taken : Bool) : Walk :=
  let w := { w with t := w.t + (if taken then c.tTaken else c.tNot), m1 := w.m1 + c.m1, steps := w.steps + 1 }
  match k with
  | .plain ws => { w with writes := ws ++ w.writes }
  | .incr r => { w with counterOps := (r, true) :: w.counterOps }
  | .decr r => { w with counterOps := (r, false) :: w.counterOps }
  | .inp ws => { w with writes := ws ++ w.writes, inputs := w.inputs + 1 }
  | .setR => { w with setsR := true }
  | _ => w

/-- walk from offset `o` until back at `c0` -/
def walkFrom (code : Array (Option Int)) (c0 : Nat) : Nat → Nat → Walk → Option Walk
  | 0, _, _ => none
  | fuel + 1, o, w =>
    match stepInfo code o with
    | none => none
    | some (_, c, k) =>
      match nextOf code o c k with
      | none => none
      | some (nxt, taken) =>
        let w' := accum w c k taken
        if nxt = c0 then some w'
        else if nxt < code.size then walkFrom code c0 fuel nxt w' else none

def walk (a : Accel) : Option Walk :=
  if 0 ≤ a.c0 then walkFrom a.code.toArray a.c0.toNat 64 a.c0.toNat {} else none

/-- what an `ACCELERATORS` entry claims, checked against the walk: the loop takes `loop_time`
T-states and `loop_r_inc` M1 cycles (unless the loop loads R itself), contains exactly one
`IN` and exactly one `INC`/`DEC` of the counter register in the stated direction, and nothing
else on the path writes the counter register. -/
def checkAccel (a : Accel) : Bool :=
  match walk a with
  | none => false
  | some w =>
    w.t == a.loopTime && (w.setsR || w.m1 == a.loopRInc) && w.counterOps == [(a.counter, a.inc != 0)]
      && w.inputs == 1 && !(w.writes.contains a.counter) && decide (0 < a.loopTime)
      && decide (a.c1 = a.code.length - a.c0) && decide (2 ≤ a.counter ∧ a.counter ≤ 7) && (a.earMask == 0 || gpr a.ear)

end AccelWalk
