import SkoolVerif.Model.MacroExpr
/-
Model of the argument tokenisers of skoolkit/skoolmacro.py:
`parse_brackets`, `_split_unbracketed`, `parse_strings`, `get_params`,
`parse_ints` (positional form), `_format_params` (replacement fields of the
plain `{name}` form).  Functions work on the suffix `text[index:]` and return
the suffix `text[end:]` instead of `end`.
-/
namespace MacroArgs
open MacroText MacroExpr

/-- Exceptions. The first seven are `MacroParsingError` and its subclasses
(what `expand_macros` wraps into `SkoolParsingError('Error while parsing #X
macro…')`; some macro parsers catch individual subclasses). -/
inductive MErr
  | noParams        -- NoParametersError
  | missing         -- MissingParameterError
  | tooMany         -- TooManyParametersError
  | invalid         -- InvalidParameterError
  | formatting      -- FormattingError
  | closing         -- ClosingBracketError
  | parsing         -- plain MacroParsingError
  | skool (marker : Text)      -- SkoolParsingError: error while parsing macro `marker`
  | unknown (marker : Text)    -- SkoolParsingError: unknown macro
  | py (exc : String)          -- an uncaught Python exception
  | unsup                      -- input outside the modelled fragment
  | fuel                       -- model ran out of fuel
  deriving DecidableEq, Repr

def MErr.isMacroParsing : MErr → Bool
  | .noParams | .missing | .tooMany | .invalid | .formatting | .closing | .parsing => true
  | _ => false

abbrev M := Except MErr

/-! ### Replacement fields -/

inductive Val
  | int (v : Int)
  | str (t : Text)
  | dict                      -- `cfg`, `mode`, `vars`: not printable in the model
  deriving DecidableEq, Repr

/-- `writer.fields`: most recent binding first. -/
abbrev Fields := List (Text × Val)

def Fields.get (f : Fields) (k : Text) : Option Val :=
  match f with
  | [] => none
  | (k', v) :: r => if k' = k then some v else Fields.get r k

def Fields.set (f : Fields) (k : Text) (v : Val) : Fields := (k, v) :: f

/-- Characters up to the first `}`; `none` when there is none. -/
def fieldName : Text → Option (Text × Text)
  | [] => none
  | c :: t => if c = '}' then some ([], t) else
    match fieldName t with
    | some (n, r) => some (c :: n, r)
    | none => none

def fieldSpecial (c : Char) : Bool := c = '{' || c = '[' || c = '.' || c = '!' || c = ':'

/-- `_format_params(s, …, **fields)`: Python `str.format` restricted to
`{name}` fields and the `{{`/`}}` escapes. -/
def formatFields (f : Fields) : Nat → Text → M Text
  | 0, _ => .error .fuel
  | _, [] => .ok []
  | n + 1, '{' :: '{' :: t => do let r ← formatFields f n t; pure ('{' :: r)
  | n + 1, '}' :: '}' :: t => do let r ← formatFields f n t; pure ('}' :: r)
  | _, '}' :: _ => .error .formatting               -- Single '}' encountered
  | n + 1, '{' :: t =>
    match fieldName t with
    | none => if t.any fieldSpecial then .error .unsup else .error .formatting   -- expected '}' before end of string
    | some (name, rest) =>
      if name.any fieldSpecial then .error .unsup
      else if name.isEmpty || name.all isDigit then .error .formatting    -- IndexError
      else match f.get name with
        | none => .error .formatting                -- KeyError
        | some (.int v) => do let r ← formatFields f n rest; pure (intStr v ++ r)
        | some (.str s) => do let r ← formatFields f n rest; pure (s ++ r)
        | some .dict => .error .unsup
  | n + 1, c :: t => do let r ← formatFields f n t; pure (c :: r)

def format (f : Fields) (s : Text) : M Text := formatFields f (s.length + 1) s

/-! ### Brackets -/

def closer (c : Char) : Char :=
  if c = '(' then ')' else if c = '[' then ']' else if c = '{' then '}' else c

def isBracket (c : Char) : Bool := c = '(' || c = '[' || c = '{'

/-- Scan for the closing bracket matching an already-consumed opening one.
Returns `(inner, rest)`. -/
def scanClose (op cl : Char) : Nat → Text → Option (Text × Text)
  | _, [] => none
  | depth, c :: t =>
    if c = cl then
      if depth = 0 then some ([], t)
      else match scanClose op cl (depth - 1) t with
        | some (i, r) => some (c :: i, r)
        | none => none
    else if c = op then
      match scanClose op cl (depth + 1) t with
      | some (i, r) => some (c :: i, r)
      | none => none
    else
      match scanClose op cl depth t with
      | some (i, r) => some (c :: i, r)
      | none => none

/-- `parse_brackets(text, index, None, opening, closing)` on the suffix:
`none` result = no opening bracket here (`(index, default)`). -/
def parseBrackets (op cl : Char) : Text → M (Option Text × Text)
  | c :: t =>
    if c = op then
      match scanClose op cl 0 t with
      | some (i, r) => .ok (some i, r)
      | none => .error .closing
    else .ok (none, c :: t)
  | [] => .ok (none, [])

/-- `_split_unbracketed(text)`: split on commas outside parentheses. -/
def splitUnbrGo : Nat → Text → Text → M (List Text)
  | depth, cur, [] => if depth = 0 then .ok [cur.reverse] else .error .closing
  | depth, cur, c :: t =>
    if depth = 0 then
      if c = ',' then do let r ← splitUnbrGo 0 [] t; pure (cur.reverse :: r)
      else if c = '(' then splitUnbrGo 1 (c :: cur) t
      else splitUnbrGo 0 (c :: cur) t
    else
      if c = '(' then splitUnbrGo (depth + 1) (c :: cur) t
      else if c = ')' then splitUnbrGo (depth - 1) (c :: cur) t
      else splitUnbrGo depth (c :: cur) t

def splitUnbracketed (s : Text) : M (List Text) := splitUnbrGo 0 [] s

/-! ### `parse_strings` -/

/-- The raw parameter string, the separator and the remaining text. -/
def stringParam (split : Bool) : Text → M (Text × Char × Text)
  | [] => .error .noParams
  | c :: t =>
    if !isAscii c then .error .unsup
    else if isSpace c then .error .noParams
    else
      let cl := closer c
      if split && cl = c && !t.isEmpty then
        match t with
        | sep :: body =>
          (match find [sep, c] body with
           | some i => .ok (body.take i, sep, body.drop (i + 2))
           | none => .error .parsing)            -- No terminating delimiter
        | [] => .error .parsing
      else if isBracket c then
        match scanClose c cl 0 t with
        | some (i, r) => .ok (i, ',', r)
        | none => .error .closing
      else
        match find [c] t with
        | some i => .ok (t.take i, ',', t.drop (i + 1))
        | none => .error .parsing

/-- `parse_strings(text, index, 1)`: the whole parameter string. -/
def parseString1 (rest : Text) : M (Text × Text) := do
  let (p, _, r) ← stringParam false rest
  pure (p, r)

def padDefaults (args : List (Option Text)) (num req : Nat) (defaults : List (Option Text)) : Nat → List (Option Text)
  | 0 => args
  | k + 1 =>
    if args.length < num then
      padDefaults (args ++ [defaults.getD (args.length - req) none]) num req defaults k
    else args

/-- `parse_strings(text, index, num, defaults)` for `num ≠ 1`. `none`
elements are `None` defaults. -/
def parseStrings (rest : Text) (num : Nat) (defaults : List (Option Text)) : M (List (Option Text) × Text) := do
  let (p, sep, r) ← stringParam true rest
  let args ← if sep = ',' then splitUnbracketed p else pure (splitChar sep p)
  if num > 1 then
    if args.length > num then .error .tooMany
    else
      let req := num - defaults.length
      if args.length < req then .error .missing
      else pure (padDefaults (args.map some) num req defaults num, r)
  else pure (args.map some, r)

/-! ### `get_params` / `parse_ints` (positional) -/

def evalParams : List Text → M (List (Option Int))
  | [] => .ok []
  | p :: ps =>
    if p.isEmpty then do let r ← evalParams ps; pure (none :: r)
    else match evaluate p with
      | .ok v => do let r ← evalParams ps; pure (some v :: r)
      | .error .err => .error .invalid
      | .error .unsup => .error .unsup

def fillDefaults (req : Nat) (defaults : List (Option Int)) : Nat → List (Option Int) → List (Option Int)
  | _, [] => []
  | i, v :: vs =>
    (if i ≥ req && v.isNone then defaults.getD (i - req) none else v) :: fillDefaults req defaults (i + 1) vs

/-- `get_params(param_string, num, defaults, (), …)`, `num > 0`. -/
def getParams (paramString : Text) (num : Nat) (defaults : List (Option Int)) : M (List (Option Int)) := do
  let params ← if paramString.isEmpty then pure [] else evalParams (splitChar ',' paramString)
  let index := params.length
  let req := num - defaults.length
  if index < req then .error .missing
  else if (params.take req).any Option.isNone then .error .missing
  else if index > num && num > 0 then .error .tooMany
  else
    let padded := params ++ List.replicate (num - params.length) none
    pure (fillDefaults req defaults 0 padded)

/-- Longest prefix matching `INTEGER = (\d+|\$[0-9a-fA-F]+)`. -/
def matchInteger : Text → Text × Text
  | '$' :: t =>
    let h := t.takeWhile isHexDigit
    if h.isEmpty then ([], '$' :: t) else ('$' :: h, t.dropWhile isHexDigit)
  | s =>
    let d := s.takeWhile isDigit
    (d, s.dropWhile isDigit)

/-- `(,(INTEGER)?){,k}` -/
def matchMore : Nat → Text → Text × Text
  | 0, s => ([], s)
  | k + 1, ',' :: t =>
    let (i, r) := matchInteger t
    let (m, r') := matchMore k r
    (',' :: i ++ m, r')
  | _, s => ([], s)

/-- `re.match(PARAMS.format(INTEGER, num - 1), text[index:]).group()` -/
def matchParams (num : Nat) (s : Text) : Text × Text :=
  let (i, r) := matchInteger s
  let (m, r') := matchMore (num - 1) r
  (i ++ m, r')

/-- State-passing expander used for macros nested in bracketed parameters
(`writer.expand`). -/
abbrev Expander (σ : Type) := σ → Text → M (σ × Text)

/-- `parse_ints(text, index, num, defaults, fields=writer.fields)` with
`num > 0` and no parameter names. `getFields` reads `writer.fields` from the
state after the nested expansion. -/
def parseInts {σ : Type} (exp : Expander σ) (getFields : σ → Fields) (st : σ) (rest : Text)
    (num : Nat) (defaults : List (Option Int)) : M (σ × List (Option Int) × Text) :=
  match rest with
  | '(' :: t =>
    match scanClose '(' ')' 0 t with
    | none => .error .closing
    | some (inner, r) => do
      let (st', params) ← exp st inner
      let params ← format (getFields st') params
      let vals ← getParams params num defaults
      pure (st', vals, r)
  | _ =>
    let (m, r) := matchParams num rest
    match getParams m num defaults with
    | .ok vals => .ok (st, vals, r)
    | .error e => .error e

end MacroArgs
