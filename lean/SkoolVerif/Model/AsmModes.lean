/-
Hand model of the substitution / bugfix mode machinery that decides WHICH `@*sub` / `@*fix`
directives are applied (C04):

* `skoolparser.Mode.__init__`   — `self.weights`                       → `parserWeight`
* `skool2bin.BinWriter.__init__` — mode coupling + `self.weights`       → `binCouple`, `binWeight`
* `skool2asm.main`              — mode coupling of the CLI options      → `asmCouple`
* `skoolutils.read_skool`       — `modes` of the block directives       → `blockPlus`
* `Mode.add_sub` / `BinWriter._parse_asm_directive` / `SkoolParser._parse_asm_directive`
                                — which directive values are recorded   → `parserSelects`, `binSelects`
* `self.subs[max(self.subs)]`   — which recorded list is applied        → `applied`

Core Lean only (the driver imports this file).
-/
namespace AsmModes

/-- The six directive classes. -/
inductive Dir | isub | ssub | rsub | ofix | bfix | rfix
  deriving DecidableEq, Repr

def Dir.all : List Dir := [.isub, .ssub, .rsub, .ofix, .bfix, .rfix]

/-- Python `int(b)`. -/
def b2n (b : Bool) : Nat := if b then 1 else 0

/-- A weight is the Python tuple `(fix weight, sub weight)`. -/
abbrev Weight := Nat × Nat

/-- Python tuple `<` on pairs of ints. -/
def wlt (a b : Weight) : Bool := a.1 < b.1 || (a.1 == b.1 && a.2 < b.2)

/-- `weight > (0, 0)`. -/
def wpos (w : Weight) : Bool := wlt (0, 0) w

/-- `skoolparser.Mode.__init__`: `self.weights` (asm_mode, fix_mode as passed to `Mode`). -/
def parserWeight (asm fix : Nat) : Dir → Weight
  | .isub => (0, b2n (asm > 0))
  | .ssub => (0, 2 * b2n (asm > 1))
  | .rsub => (0, 3 * b2n (asm > 2))
  | .ofix => (b2n (fix > 0), 0)
  | .bfix => (2 * b2n (fix > 1), 0)
  | .rfix => (3 * b2n (fix > 2), 0)

/-- `BinWriter.__init__`: `if fix_mode > 2: asm_mode = 3 / elif asm_mode > 2: fix_mode = max(fix_mode, 1)`. -/
def binCouple (asm fix : Nat) : Nat × Nat :=
  if fix > 2 then (3, fix) else if asm > 2 then (asm, max fix 1) else (asm, fix)

/-- `skool2asm.main`: `if fix_mode == 3: asm_mode = 3 / elif asm_mode == 3: fix_mode = max(fix_mode, 1)`. -/
def asmCouple (asm fix : Nat) : Nat × Nat :=
  if fix = 3 then (3, fix) else if asm = 3 then (asm, max fix 1) else (asm, fix)

/-- `BinWriter.__init__`: `self.weights`, computed from the coupled modes. -/
def binWeight (asm fix : Nat) : Dir → Weight
  | .isub => (0, b2n (asm > 0))
  | .ssub => (0, 2 * b2n (asm > 1))
  | .rsub => (0, 3 * b2n (asm > 2))
  | .ofix => (b2n (fix > 0), 0)
  | .bfix => (2 * b2n (fix > 1), 0)
  | .rfix => (3 * b2n (fix > 2), 0)

/-- `read_skool`: `modes[d] == '+'` (block directives `@d+begin … @d+end` are kept). -/
def blockPlus (sub fix : Nat) : Dir → Bool
  | .isub => sub > 0
  | .ssub => sub > 1
  | .rsub => sub > 2
  | .ofix => fix > 0
  | .bfix => fix > 1
  | .rfix => fix > 2

/-- `SkoolParser._parse_asm_directive`: `@d=value` is recorded (or its `!range` removed) only
under `elif self.mode.asm_mode:` and when `weights[d] > (0, 0)`. -/
def parserSelects (asm fix : Nat) (d : Dir) : Bool := asm != 0 && wpos (parserWeight asm fix d)

/-- `BinWriter._parse_asm_directive`: recorded when `weight > (0, 0)` (no `asm_mode` guard). -/
def binSelects (asm fix : Nat) (d : Dir) : Bool := wpos (binWeight asm fix d)

/-- `max(self.subs)`: the dict always holds the key `(0, 0)`. -/
def maxW (ws : List Weight) : Weight := ws.foldl (fun m w => if wlt m w then w else m) (0, 0)

/-- The directive values applied to the next instruction: `self.subs[max(self.subs)]`, where
`pending` are the `@d=value` directives met since the previous instruction, in file order, and
`sel d` says whether class `d` is recorded at all. -/
def applied {α : Type} (weight : Dir → Weight) (sel : Dir → Bool) (pending : List (Dir × α)) : List α :=
  let rec_ := pending.filter (fun p => sel p.1)
  let m := maxW (rec_.map (fun p => weight p.1))
  (rec_.filter (fun p => weight p.1 == m)).map (·.2)

/-- Priority of a class (higher wins): rfix > bfix > ofix > rsub > ssub > isub. -/
def rank : Dir → Nat
  | .isub => 1 | .ssub => 2 | .rsub => 3 | .ofix => 4 | .bfix => 5 | .rfix => 6

/-- The seven named modes of the property and the (asm_mode, fix_mode) each CLI's argparse
produces for the options the end-to-end check passes (before coupling). -/
inductive Mode7 | none | isub | ssub | rsub | ofix | bfix | rfix
  deriving DecidableEq, Repr

def Mode7.all : List Mode7 := [.none, .isub, .ssub, .rsub, .ofix, .bfix, .rfix]

/-- skool2asm options: (default) / `-s` / `-r` / `-f 1` / `-f 2` / `-f 3`; `asm_mode` defaults to 1.
`none` has no skool2asm invocation (HTML mode: `SkoolParser(asm_mode=0, fix_mode=0)`). -/
def Mode7.asmArgs : Mode7 → Nat × Nat
  | .none => (0, 0) | .isub => (1, 0) | .ssub => (2, 0) | .rsub => (3, 0)
  | .ofix => (1, 1) | .bfix => (1, 2) | .rfix => (1, 3)

/-- skool2bin options used for the same mode: (none) / `-i` / `-s` / `-r` / `-i -o` / `-i -b` / `-R`. -/
def Mode7.binArgs : Mode7 → Nat × Nat
  | .none => (0, 0) | .isub => (1, 0) | .ssub => (2, 0) | .rsub => (3, 0)
  | .ofix => (1, 1) | .bfix => (1, 2) | .rfix => (0, 3)

/-- Effective parser modes for a named mode (`skool2asm.main` couples, then `SkoolParser`). -/
def Mode7.parserModes (m : Mode7) : Nat × Nat :=
  match m with
  | .none => (0, 0)
  | _ => asmCouple m.asmArgs.1 m.asmArgs.2

/-- Effective BinWriter modes for a named mode. -/
def Mode7.binModes (m : Mode7) : Nat × Nat := binCouple m.binArgs.1 m.binArgs.2

end AsmModes
