import SkoolVerif.Model.MacroArgs
/-
Semantic cores of the numeric / control-flow macros of skoolkit/skoolmacro.py,
on already tokenised arguments: number formatting (`#EVAL`, `#N`), the
`#FOR`/`#FOREACH` joins, `#MAP` lookup, and the snapshot stack
(`#PUSHS`/`#POPS`/`#POKES`/`#PEEK`).
-/
namespace MacroOps
open MacroText MacroExpr MacroArgs

/-! ### Number formatting: `'{:0{}b}'`, `'{:0{}}'`, `'{:0{}X}'` -/

/-- Zero-padded digits of a natural number. -/
def fmtNat (b : Nat) (lc : Bool) (width : Nat) (n : Nat) : Text :=
  let d := natDigits b lc n
  List.replicate (width - d.length) '0' ++ d

/-- `'{:0{}<type>}'.format(v, width)`, `width ≥ 0`: sign-aware zero padding. -/
def fmtInt (b : Nat) (lc : Bool) (width : Nat) (v : Int) : Text :=
  if v < 0 then '-' :: fmtNat b lc (width - 1) v.natAbs else fmtNat b lc width v.natAbs

/-- Reading a rendered number back (`int(s, b)` on a sign and digits): the
inverse used by the round-trip theorems. -/
def parseSigned (b : Nat) : Text → Int
  | '-' :: r => -(digitsVal b r : Int)
  | r => (digitsVal b r : Int)

/-! ### `range` -/

/-- `len(range(start, stop, step))`, `step ≠ 0`. -/
def rangeLen (start stop step : Int) : Nat :=
  if step > 0 then (if start < stop then ((stop - start + step - 1) / step).toNat else 0)
  else if step < 0 then (if stop < start then ((start - stop + (-step) - 1) / (-step)).toNat else 0)
  else 0

def rangeFrom (cur step : Int) : Nat → List Int
  | 0 => []
  | k + 1 => cur :: rangeFrom (cur + step) step k

/-- `list(range(start, stop, step))`, `step ≠ 0`. -/
def pyRange (start stop step : Int) : List Int := rangeFrom start step (rangeLen start stop step)

/-- The numbers a `#FOR` loop visits: `range(start, stop + step // abs(step), step)`. -/
def forRange (start stop step : Int) : List Int :=
  pyRange start (stop + pyDiv step (Int.ofNat step.natAbs)) step

/-- Number of iterations of a `#FOR` loop. -/
def forLen (start stop step : Int) : Nat :=
  rangeLen start (stop + pyDiv step (Int.ofNat step.natAbs)) step

/-! ### `#FOR` / `#FOREACH` joins -/

/-- `elements[-2] = v` -/
def setPenult (l : List Text) (v : Text) : List Text := l.set (l.length - 2) v

/-- The tail of `parse_for`: `items` are the `(element, separator)` pairs
pushed by the loop. -/
def forJoin (items : List (Text × Text)) (fsep : Option Text) : Text :=
  let els := (items.flatMap (fun p => [p.1, p.2])).dropLast          -- `if elements: elements.pop()`
  let els := match fsep with
    | some f => if els.length > 2 then setPenult els f else els
    | none => els
  els.flatten

/-- The tail of `parse_foreach` (`values` non-empty). -/
def foreachJoin (elems : List Text) (sep : Text) (fsep : Option Text) : Text :=
  let fs := fsep.getD sep
  match elems with
  | [] => []
  | [e] => e
  | _ => join fs [join sep elems.dropLast, elems.getLast?.getD []]

/-- Declarative reading of the documentation: elements in order, `sep`
between consecutive ones, except `fsep` (when given) between the last two. -/
def joinSpec (fsep : Option Text) : List (Text × Text) → Text
  | [] => []
  | [(e, _)] => e
  | [(e1, s1), (e2, _)] => e1 ++ fsep.getD s1 ++ e2
  | (e, s) :: rest => e ++ s ++ joinSpec fsep rest

/-! ### `#MAP` -/

/-- `_eval_map(args)` after the default has been popped: `k:v` or `k` (=`k:k`)
pairs with integer keys. -/
def evalMapPairs : List Text → M (List (Int × Text))
  | [] => .ok []
  | pair :: ps =>
    let (k, found, v) := partitionChar ':' pair
    let v := if found then v else pair
    match evaluate k with
    | .ok key => do let r ← evalMapPairs ps; pure ((key, v) :: r)
    | .error .err => .error .parsing
    | .error .unsup => .error .unsup

/-- `m[value]` for the `defaultdict` built by assigning the pairs in order. -/
def mapLookup (default : Text) (pairs : List (Int × Text)) (key : Int) : Text :=
  match pairs.reverse.find? (fun p => p.1 = key) with
  | some p => p.2
  | none => default

/-! ### Snapshot memory and stack -/

/-- 64K memory image (`writer.snapshot`); cells may hold any Python int. -/
abbrev Mem := Nat → Int

def cell (addr : Int) : Nat := (addr % 65536).toNat

/-- `snapshot[addr & 65535]` -/
def peek (m : Mem) (addr : Int) : Int := m (cell addr)

def write (m : Mem) (c : Nat) (v : Int) : Mem := fun a => if a = c then v else m a

/-- Writes `byte` at `cur, cur+step, …` (`count` cells, addresses mod 65536). -/
def pokeFrom (m : Mem) (byte step : Int) : Int → Nat → Mem
  | _, 0 => m
  | cur, k + 1 => pokeFrom (write m (cell cur) byte) byte step (cur + step) k

/-- `snapshot[addr:addr + length * step:step] = [byte] * length`
(`Memory.__setitem__`: a zero step writes nothing). -/
def pokes (m : Mem) (addr byte length step : Int) : Mem :=
  if step = 0 then m else pokeFrom m byte step addr length.toNat

/-- Writer state relevant to the snapshot macros: current image and the
stack of saved `(image, name)` pairs (`_snapshots[1:]`, most recent first). -/
structure Snap where
  mem : Mem
  stack : List (Mem × Text)

/-- `push_snapshot(name)` -/
def Snap.push (s : Snap) (name : Text) : Snap := { s with stack := (s.mem, name) :: s.stack }

/-- `pop_snapshot()`; `none` = "Cannot pop snapshot when snapshot stack is empty". -/
def Snap.pop (s : Snap) : Option Snap :=
  match s.stack with
  | [] => none
  | (m, _) :: r => some { mem := m, stack := r }

def Snap.poke (s : Snap) (addr byte length step : Int) : Snap :=
  { s with mem := pokes s.mem addr byte length step }

/-- Abstract snapshot operations, for the stack-discipline theorems. -/
inductive SnapOp
  | push (name : Text)
  | pop
  | poke (addr byte length step : Int)

def Snap.step (s : Snap) : SnapOp → Option Snap
  | .push n => some (s.push n)
  | .pop => s.pop
  | .poke a b l st => some (s.poke a b l st)

def Snap.run (s : Snap) : List SnapOp → Option Snap
  | [] => some s
  | o :: os => match s.step o with
    | some s' => Snap.run s' os
    | none => none

end MacroOps
