import SkoolVerif.Model.OpText
/-
Hand model of the operand-text layer of the ASSEMBLER:
  skoolkit/__init__.py   `get_int_param` (and Python's `int(str, base)`)
  skoolkit/textutils.py  `split_quoted`, `split_unquoted`
  skoolkit/z80.py        `_convert_chars`, `_convert_nums`, `eval_int`,
                         `eval_string`, `split_operands`,
                         `Assembler._parse_expr` / `parse_byte` / `parse_word`,
                         `_parse_offset`, `_address_offset`, `convert_case`,
                         `_assemble_defb` / `_assemble_defs` / `_assemble_defw`
Text is a list of code points.  Python exceptions are an explicit result
constructor: `valErr` = ValueError (or a TypeError that `eval_int` turns into
ValueError); `otherErr` = any other exception (`SyntaxError`,
`ZeroDivisionError`), which `eval_int`/`_parse_expr` do NOT catch and which
therefore makes `Assembler.assemble` return `()` even where a `default` is given.
Restrictions (outside the generators' language): code points < 256 only, no
`**` operator (result `unsupported`).
-/
namespace AsmEval
open OpText

/-- Outcome of a Python call that returns an int. -/
inductive R (α : Type) where
  | ok (v : α)
  | valErr
  | otherErr
  | unsupported
  deriving DecidableEq, Repr

def R.bind {α β} (r : R α) (f : α → R β) : R β :=
  match r with
  | .ok v => f v
  | .valErr => .valErr
  | .otherErr => .otherErr
  | .unsupported => .unsupported

/-! ### Python string primitives -/

/-- `str.isspace()` / `Py_UNICODE_ISSPACE` for code points below 256. -/
def isSpace (c : Nat) : Bool :=
  (9 ≤ c && c ≤ 13) || (28 ≤ c && c ≤ 32) || c == 133 || c == 160

/-- The whitespace `int(str)` strips: code points below 127 are tested with the
C `isspace` (so not 28..31), the others with `Py_UNICODE_ISSPACE`. -/
def isSpaceInt (c : Nat) : Bool := (9 ≤ c && c ≤ 13) || c == 32 || c == 133 || c == 160

def stripInt (t : Txt) : Txt := ((t.dropWhile isSpaceInt).reverse.dropWhile isSpaceInt).reverse

/-- `str.strip()`. -/
def strip (t : Txt) : Txt := ((t.dropWhile isSpace).reverse.dropWhile isSpace).reverse

def isDigit (c : Nat) : Bool := 48 ≤ c && c ≤ 57
def isBin (c : Nat) : Bool := c == 48 || c == 49
def isHex (c : Nat) : Bool := isDigit c || (65 ≤ c && c ≤ 70) || (97 ≤ c && c ≤ 102)

/-- Value of a digit character (bases up to 16). -/
def digitVal (c : Nat) : Option Nat :=
  if isDigit c then some (c - 48)
  else if 65 ≤ c ∧ c ≤ 70 then some (c - 55)
  else if 97 ≤ c ∧ c ≤ 102 then some (c - 87)
  else none

/-- `ofDigits b [d₀,…]` most significant first. -/
def ofDigits (b : Nat) (ds : List Nat) : Nat := ds.foldl (fun acc d => acc * b + d) 0

/-- Value of a run of digit characters (callers guarantee validity). -/
def digitsVal (b : Nat) (t : Txt) : Nat := ofDigits b (t.map (fun c => (digitVal c).getD 0))

/-- Digit part of `int(s, b)`: digits with optional single underscores between
them.  `need` = a digit is required next. -/
def pyDigits (b : Nat) : Nat → Bool → Txt → Option Nat
  | acc, need, [] => if need then none else some acc
  | acc, need, c :: rest =>
    if c = 95 then (if need then none else pyDigits b acc true rest)
    else match digitVal c with
      | some v => if v < b then pyDigits b (acc * b + v) false rest else none
      | none => none

/-- `int(s, b)` for `b ∈ {2, 10, 16}` (`none` = ValueError): surrounding
whitespace, optional sign, optional `0x`/`0b` prefix matching the base (not
for base 10) followed by at most one underscore, then `pyDigits`. -/
def pyInt (b : Nat) (s : Txt) : Option Int :=
  let t := stripInt s
  let neg : Bool := t.head? = some 45
  let t := if t.head? = some 45 ∨ t.head? = some 43 then t.drop 1 else t
  let pre : Bool := t.head? = some 48 ∧
    ((b = 16 ∧ (t[1]? = some 120 ∨ t[1]? = some 88)) ∨ (b = 2 ∧ (t[1]? = some 98 ∨ t[1]? = some 66)))
  let t := if pre then (if (t.drop 2).head? = some 95 then t.drop 3 else t.drop 2) else t
  match pyDigits b 0 true t with
  | some v => some (if neg then -(v : Int) else v)
  | none => none

/-- Python slice `s[a:-1]`. -/
def sliceToLast (a : Nat) (s : Txt) : Txt := (s.take (s.length - 1)).drop a

def startsWith (p t : Txt) : Bool := p.isPrefixOf t
def endsWith (c : Nat) (t : Txt) : Bool := t.getLast? == some c

/-- `ord(s)`: `none` = TypeError (length ≠ 1). -/
def ord? (s : Txt) : Option Nat := match s with | [c] => some c | _ => none

/-- `get_int_param(num_str)` (`accept0x=False`); `none` = ValueError. -/
def getIntParam (s : Txt) : Option Int :=
  match pyInt 10 s with
  | some v => some v
  | none =>
    if startsWith [36] s then pyInt 16 (s.drop 1)
    else if startsWith [37] s then pyInt 2 (s.drop 1)
    else if startsWith [34] s ∧ endsWith 34 s then
      (if startsWith [34, 92] s then ord? (sliceToLast 2 s) else ord? (sliceToLast 1 s)).map Int.ofNat
    else none

/-! ### `split_quoted` -/

/-- Match `(?:[^"\\]|\\.)*"` at the start of `t` (just after an opening
quote): the matched text (including the closing quote) and the remainder.
`.` does not match a newline. -/
def scanQuoted : Txt → Option (Txt × Txt)
  | [] => none
  | c :: rest =>
    if c = 34 then some ([34], rest)
    else if c = 92 then
      match rest with
      | [] => none
      | d :: rest' =>
        if d = 10 then none
        else match scanQuoted rest' with
          | some (b, r) => some (92 :: d :: b, r)
          | none => none
    else match scanQuoted rest with
      | some (b, r) => some (c :: b, r)
      | none => none

def flush (cur : Txt) : List Txt := if cur = [] then [] else [cur]

/-- `split_quoted(text)`: `re.split(r'("(?:[^"\\]|\\.)*")', text)` without
the empty pieces.  `cur` is the unquoted piece being accumulated. -/
def splitQuotedAux : Nat → Txt → Txt → List Txt
  | 0, cur, _ => flush cur
  | _, cur, [] => flush cur
  | fuel + 1, cur, c :: rest =>
    if c = 34 then
      match scanQuoted rest with
      | some (body, rest') => flush cur ++ [34 :: body] ++ splitQuotedAux fuel [] rest'
      | none => splitQuotedAux fuel (cur ++ [c]) rest
    else splitQuotedAux fuel (cur ++ [c]) rest

def splitQuoted (t : Txt) : List Txt := splitQuotedAux (t.length + 1) [] t

/-- `str(n)` for a natural number. -/
def decStr (n : Nat) : Txt := (toDigits 10 n).map (digitChar true)

/-- `_convert_chars(text)`; `none` = TypeError from `ord`. -/
def convertChars (t : Txt) : Option Txt :=
  (splitQuoted t).foldl (fun acc p =>
    match acc with
    | none => none
    | some s =>
      if startsWith [34] p ∧ endsWith 34 p then
        match (if startsWith [34, 92] p then ord? (sliceToLast 2 p) else ord? (sliceToLast 1 p)) with
        | some c => some (s ++ decStr c)
        | none => none
      else some (s ++ p)) (some [])

/-! ### `_convert_nums` -/

/-- `(t.takeWhile p, t.dropWhile p)`. -/
def spanP (p : Nat → Bool) (t : Txt) : Txt × Txt := (t.takeWhile p, t.dropWhile p)

/-- The loop of `_convert_nums` over `re.split(r'(\$[0-9A-Fa-f]+|%[01]+|\d+)', s)`.
`first` = no token seen yet (`i == 1`); `prev` = last character of the text
piece since the previous token (`none` = that piece is empty). -/
def convNumsAux : Nat → Bool → Option Nat → Txt → Txt
  | 0, _, _, t => t
  | _, _, _, [] => []
  | fuel + 1, first, prev, c :: rest =>
    if c = 36 ∧ (rest.head?.map isHex).getD false then
      let (ds, r) := spanP isHex rest
      decStr (digitsVal 16 ds) ++ convNumsAux fuel false none r
    else if c = 37 ∧ (rest.head?.map isBin).getD false then
      let (ds, r) := spanP isBin rest
      (if first ∨ (prev.isSome ∧ prev ≠ some 41) then decStr (digitsVal 2 ds) else 37 :: ds)
        ++ convNumsAux fuel false none r
    else if isDigit c then
      let (ds, r) := spanP isDigit (c :: rest)
      (if c = 48 then decStr (digitsVal 10 ds) else ds) ++ convNumsAux fuel false none r
    else c :: convNumsAux fuel first (some c) rest

/-- `_convert_nums(text)`. -/
def convertNums (t : Txt) : Txt :=
  let s := t.filter (fun c => !isSpace c)
  convNumsAux (s.length + 1) true none s

/-! ### `eval(s.replace('/', '//'))` on the character set `+-*/%0123456789()` -/

inductive Tok | num (n : Nat) | plus | minus | star | slash | pct | lp | rp
  deriving DecidableEq, Repr

/-- Tokenise (`unsupported` = a `**` operator, outside the model;
`otherErr` = SyntaxError: a decimal literal with a leading zero such as `007`
— `00` is legal Python). -/
def tokenize : Nat → Txt → R (List Tok)
  | 0, _ => .ok []
  | _, [] => .ok []
  | fuel + 1, c :: rest =>
    if isDigit c then
      let (ds, r) := spanP isDigit (c :: rest)
      if c = 48 ∧ ds.any (· != 48) then .otherErr
      else (tokenize fuel r).bind fun ts => .ok (Tok.num (digitsVal 10 ds) :: ts)
    else if c = 42 then
      (if rest.head? = some 42 then .unsupported
       else (tokenize fuel rest).bind fun ts => .ok (Tok.star :: ts))
    else
      let tk : Tok := if c = 43 then .plus else if c = 45 then .minus else if c = 47 then .slash
        else if c = 37 then .pct else if c = 40 then .lp else .rp
      (tokenize fuel rest).bind fun ts => .ok (tk :: ts)

inductive BinOp | add | sub | mul | fdiv | mod
  deriving DecidableEq, Repr

/-- Python expression AST (restricted to what the character set allows). -/
inductive Ex
  | num (n : Nat)
  | unit                                -- `()`
  | neg (e : Ex)
  | pos (e : Ex)
  | bin (op : BinOp) (a b : Ex)
  | call (f : Ex) (arg : Option Ex)     -- `f(arg)` / `f()`
  deriving Repr

mutual
/-- `sum` of the Python grammar; `none` = SyntaxError. -/
def pSum : Nat → List Tok → Option (Ex × List Tok)
  | 0, _ => none
  | fuel + 1, ts =>
    match pTerm fuel ts with
    | some (a, r) => pSumRest fuel a r
    | none => none
def pSumRest : Nat → Ex → List Tok → Option (Ex × List Tok)
  | 0, _, _ => none
  | fuel + 1, a, ts =>
    match ts with
    | .plus :: r => match pTerm fuel r with
      | some (b, r') => pSumRest fuel (.bin .add a b) r'
      | none => none
    | .minus :: r => match pTerm fuel r with
      | some (b, r') => pSumRest fuel (.bin .sub a b) r'
      | none => none
    | _ => some (a, ts)
def pTerm : Nat → List Tok → Option (Ex × List Tok)
  | 0, _ => none
  | fuel + 1, ts =>
    match pFactor fuel ts with
    | some (a, r) => pTermRest fuel a r
    | none => none
def pTermRest : Nat → Ex → List Tok → Option (Ex × List Tok)
  | 0, _, _ => none
  | fuel + 1, a, ts =>
    match ts with
    | .star :: r => match pFactor fuel r with
      | some (b, r') => pTermRest fuel (.bin .mul a b) r'
      | none => none
    | .slash :: r => match pFactor fuel r with
      | some (b, r') => pTermRest fuel (.bin .fdiv a b) r'
      | none => none
    | .pct :: r => match pFactor fuel r with
      | some (b, r') => pTermRest fuel (.bin .mod a b) r'
      | none => none
    | _ => some (a, ts)
def pFactor : Nat → List Tok → Option (Ex × List Tok)
  | 0, _ => none
  | fuel + 1, ts =>
    match ts with
    | .plus :: r => match pFactor fuel r with
      | some (e, r') => some (.pos e, r')
      | none => none
    | .minus :: r => match pFactor fuel r with
      | some (e, r') => some (.neg e, r')
      | none => none
    | _ => match pAtom fuel ts with
      | some (a, r) => pTrailers fuel a r
      | none => none
def pAtom : Nat → List Tok → Option (Ex × List Tok)
  | 0, _ => none
  | fuel + 1, ts =>
    match ts with
    | .num n :: r => some (.num n, r)
    | .lp :: .rp :: r => some (.unit, r)
    | .lp :: r => match pSum fuel r with
      | some (e, .rp :: r') => some (e, r')
      | _ => none
    | _ => none
def pTrailers : Nat → Ex → List Tok → Option (Ex × List Tok)
  | 0, _, _ => none
  | fuel + 1, a, ts =>
    match ts with
    | .lp :: .rp :: r => pTrailers fuel (.call a none) r
    | .lp :: .star :: r =>
      -- `f(*e)`: Python evaluates f, then e, then raises TypeError (like any other call here)
      match pSum fuel r with
      | some (e, .rp :: r') => pTrailers fuel (.call a (some e)) r'
      | _ => none
    | .lp :: r => match pSum fuel r with
      | some (e, .rp :: r') => pTrailers fuel (.call a (some e)) r'
      | _ => none
    | _ => some (a, ts)
end

/-- A Python value the restricted expressions can produce. -/
inductive Val | int (i : Int) | tup
  deriving DecidableEq, Repr

/-- Apply a binary operator to two evaluated operands (`valErr` = TypeError,
`otherErr` = ZeroDivisionError). -/
def applyBin (op : BinOp) (a b : Val) : R Val :=
  match a, b with
  | .int x, .int y =>
    match op with
    | .add => .ok (.int (x + y))
    | .sub => .ok (.int (x - y))
    | .mul => .ok (.int (x * y))
    | .fdiv => if y = 0 then .otherErr else .ok (.int (Int.fdiv x y))
    | .mod => if y = 0 then .otherErr else .ok (.int (Int.fmod x y))
  | .tup, .tup => if op = .add then .ok .tup else .valErr
  | .tup, .int _ => if op = .mul then .ok .tup else .valErr
  | .int _, .tup => if op = .mul then .ok .tup else .valErr

/-- Evaluate (left operand first, then right, then the operation). -/
def evalEx : Ex → R Val
  | .num n => .ok (.int n)
  | .unit => .ok .tup
  | .neg e => (evalEx e).bind fun v => match v with | .int i => .ok (.int (-i)) | .tup => .valErr
  | .pos e => (evalEx e).bind fun v => match v with | .int i => .ok (.int i) | .tup => .valErr
  | .bin op a b => (evalEx a).bind fun va => (evalEx b).bind fun vb => applyBin op va vb
  | .call f none => (evalEx f).bind fun _ => .valErr
  | .call f (some e) => (evalEx f).bind fun _ => (evalEx e).bind fun _ => .valErr

/-- `OPERAND_AE_CHARS`. -/
def isAeChar (c : Nat) : Bool :=
  isDigit c || c == 43 || c == 45 || c == 42 || c == 47 || c == 37 || c == 40 || c == 41

/-- `int(eval(s.replace('/', '//')))` for `s` over `OPERAND_AE_CHARS`. -/
def evalArith (s : Txt) : R Int :=
  (tokenize (s.length + 1) s).bind fun ts =>
    match pSum (6 * ts.length + 10) ts with
    | some (e, []) =>
      (evalEx e).bind fun v => match v with | .int i => .ok i | .tup => .valErr
    | _ => .otherErr       -- SyntaxError

/-- `eval_int(text)`. -/
def evalInt (t : Txt) : R Int :=
  match getIntParam t with
  | some v => .ok v
  | none =>
    match convertChars t with
    | none => .valErr                      -- TypeError from ord()
    | some s1 =>
      let s := convertNums s1
      if s.all isAeChar then evalArith s else .valErr

/-! ### `eval_string`, `split_unquoted`, `split_operands` -/

/-- The `while i < len(text) - 1` loop of `eval_string` on `text[i:]`;
`none` = ValueError. -/
def evalStrAux : Txt → Option (List Nat)
  | [] => some []
  | c :: tail =>
    match tail with
    | [] => some []                          -- `i = len(text) - 1`
    | d :: rest =>
      if c = 34 then none
      else if c = 92 then (evalStrAux rest).map (d :: ·)
      else (evalStrAux (d :: rest)).map (c :: ·)

/-- `eval_string(text)`. -/
def evalString (t : Txt) : Option (List Nat) :=
  if startsWith [34] t ∧ endsWith 34 t then evalStrAux (t.drop 1) else none

/-- `text.split(sep)` for a one-character separator. -/
def pySplit (sep : Nat) : Txt → List Txt
  | [] => [[]]
  | c :: rest =>
    if c = sep then [] :: pySplit sep rest
    else match pySplit sep rest with
      | p :: ps => (c :: p) :: ps
      | [] => [[c]]

/-- The `while i < len(p)` loop of `split_unquoted`: the new value of
`quoted` (`esc` = the next character is skipped). -/
def scanPiece : Bool → Bool → Txt → Bool
  | q, _, [] => q
  | q, esc, c :: rest =>
    if esc then scanPiece q false rest
    else if c = 34 then scanPiece (!q) false rest
    else if c = 92 ∧ q then scanPiece q true rest
    else scanPiece q false rest

/-- The `for p in text.split(sep)` loop: `cur` is `elements[-1]`, `q` is
`quoted` after it. -/
def joinPieces (sep : Nat) (cur : Txt) (q : Bool) : List Txt → List Txt
  | [] => [cur]
  | p :: ps =>
    if q then joinPieces sep (cur ++ sep :: p) (scanPiece q false p) ps
    else cur :: joinPieces sep p (scanPiece false false p) ps

/-- `split_unquoted(text, sep)` (`maxsplit = -1`). -/
def splitUnquoted (sep : Nat) (t : Txt) : List Txt :=
  if 34 ∈ t then
    match pySplit sep t with
    | p :: ps => joinPieces sep p (scanPiece false false p) ps
    | [] => []
  else pySplit sep t

/-- `split_operands(text)`. -/
def splitOperands (t : Txt) : List Txt := (splitUnquoted 44 t).map strip

/-! ### `Assembler` operand parsers -/

/-- `_parse_expr(text, limit, brackets, non_neg, default=None)`. -/
def parseExpr (t : Txt) (limit : Nat) (brackets nonNeg : Bool) : R Nat :=
  let inBr := startsWith [40] t && endsWith 41 t
  if !brackets || inBr then
    let t := if inBr then sliceToLast 1 t else t
    (evalInt t).bind fun v =>
      if v.natAbs ≥ limit ∨ (nonNeg = true ∧ v < 0) then .valErr
      else .ok (v % (limit : Int)).toNat
  else .valErr

def parseByte (t : Txt) : R Nat := parseExpr t 256 false false
def parseWord (t : Txt) : R Nat := parseExpr t 65536 false false

/-- `default=` handling: only ValueError is replaced by the default. -/
def withDefault (r : R Nat) (d : Nat) : R Nat :=
  match r with | .valErr => .ok d | r => r

/-- `_parse_offset(op)` on the upper-cased operand `(IX+d)`/`(IY-d)`. -/
def parseOffset (op : Txt) : R Nat :=
  if (startsWith [40, 73, 88, 43] op || startsWith [40, 73, 88, 45] op ||
      startsWith [40, 73, 89, 43] op || startsWith [40, 73, 89, 45] op) && endsWith 41 op then
    (parseByte (sliceToLast 4 op)).bind fun offset =>
      if (op.drop 3).head? = some 45 then .ok ((256 - offset) % 256) else .ok offset
  else .valErr

/-- The arithmetic of `_address_offset` once the operand has been evaluated
to `target`. -/
def addressOffsetV (address target : Nat) : R Nat :=
  let offset : Int := (target : Int) - address
  let offset := if offset ≥ 65410 then offset - 65536
                else if offset ≤ -65407 then offset + 65536 else offset
  if -126 ≤ offset ∧ offset < 130 then .ok ((offset - 2) % 256).toNat else .valErr

/-- `_address_offset(address, op)`. -/
def addressOffset (address : Nat) (op : Txt) : R Nat :=
  (parseWord op).bind (addressOffsetV address)

/-- Sequence `R` results (first error wins, as the Python loop stops there). -/
def seqR {α} : List (R α) → R (List α)
  | [] => .ok []
  | r :: rs => r.bind fun v => (seqR rs).bind fun vs => .ok (v :: vs)

/-- `_assemble_defb(items)`. -/
def assembleDefb (items : List Txt) : R (List Nat) :=
  (seqR (items.map fun it =>
    match evalString it with
    | some bs => R.ok bs
    | none => (withDefault (parseByte it) 0).bind fun b => .ok [b])).bind fun ls => .ok ls.flatten

/-- `_assemble_defw(items)`. -/
def assembleDefw (items : List Txt) : R (List Nat) :=
  (seqR (items.map fun it => withDefault (parseWord it) 0)).bind fun ws =>
    .ok (ws.map (fun w => [w % 256, w / 256])).flatten

/-- `_assemble_defs(items)` (`items` is never empty: `''.split(',') = ['']`). -/
def assembleDefs (items : List Txt) : R (List Nat) :=
  match items with
  | [] => .ok []
  | s :: rest =>
    (withDefault (parseWord s) 0).bind fun span =>
      (match rest with
       | v :: _ => withDefault (parseByte v) 0
       | [] => .ok 0).bind fun value => .ok (List.replicate span value)

/-- `str.upper()` / `str.lower()` of one Latin-1 character (not modelled:
`µ`, `ß`, `ÿ`, whose upper-case forms lie outside Latin-1). -/
def upperC (c : Nat) : Nat :=
  if (97 ≤ c ∧ c ≤ 122) ∨ (224 ≤ c ∧ c ≤ 254 ∧ c ≠ 247) then c - 32 else c
def lowerC (c : Nat) : Nat :=
  if (65 ≤ c ∧ c ≤ 90) ∨ (192 ≤ c ∧ c ≤ 222 ∧ c ≠ 215) then c + 32 else c

/-- `convert_case(operation, lower, trim)`: `conv` = outside quotes,
`leave` = `leave_spaces`. -/
def convertCaseAux (lower trim : Bool) : Nat → Bool → Bool → Txt → Txt
  | 0, _, _, _ => []
  | _, _, _, [] => []
  | fuel + 1, conv, leave, c :: rest =>
    if c = 92 ∧ conv = false then
      -- `converted += operation[i:i + 2]; i += 2`
      c :: (match rest with
            | d :: rest' => d :: convertCaseAux lower trim fuel conv leave rest'
            | [] => [])
    else
      let conv := if c = 34 then !conv else conv
      if conv then
        if isSpace c then
          if !trim || leave then 32 :: convertCaseAux lower trim fuel conv false rest
          else convertCaseAux lower trim fuel conv leave rest
        else (if lower then lowerC c else upperC c) :: convertCaseAux lower trim fuel conv leave rest
      else c :: convertCaseAux lower trim fuel conv leave rest

def convertCase (lower trim : Bool) (t : Txt) : Txt :=
  convertCaseAux lower trim (t.length + 1) true true t

/-- `str.split(None, 1)`: at most two pieces, separated by the first run of
white space (leading white space ignored, trailing white space of the second
piece kept). -/
def splitFirst (t : Txt) : List Txt :=
  let t := t.dropWhile isSpace
  if t = [] then []
  else
    let w := t.takeWhile (fun c => !isSpace c)
    let r := (t.dropWhile (fun c => !isSpace c)).dropWhile isSpace
    if r = [] then [w] else [w, r]

/-- `Assembler.split_operation(operation, tidy=True)`: mnemonic followed by
the operands. -/
def splitOperation (t : Txt) : List Txt :=
  match splitFirst (convertCase false true t) with
  | [w, r] => w :: splitOperands r
  | l => l

/-- `operation.upper().startswith(('DEFB ', …))` → which directive, if any
(66 = B, 77 = M, 83 = S, 87 = W). -/
def directiveOf (t : Txt) : Option Nat :=
  match t.take 5 |>.map upperC with
  | [68, 69, 70, x, 32] => if x = 66 ∨ x = 77 ∨ x = 83 ∨ x = 87 then some x else none
  | _ => none

/-- The DEFB/DEFM/DEFS/DEFW branch of `Assembler._assemble`; `none` = the
operation is not such a statement. -/
def assembleData (t : Txt) : Option (R (List Nat)) :=
  match directiveOf t with
  | none => none
  | some x =>
    let items := splitOperands (strip (t.drop 5))
    some (if x = 83 then assembleDefs items else if x = 87 then assembleDefw items
          else assembleDefb items)

end AsmEval
