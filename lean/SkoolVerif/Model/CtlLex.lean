import SkoolVerif.Model.CtlTiling
/-
Lexical layer of `skoolkit/ctlparser.py`: `CtlParser._parse_ctl_file` (pre-pass), `_parse_ctl_line`,
`parse_params`, `_parse_sublengths`, `_parse_length` and `skoolkit.get_int_param`, on `List Char`.

Domain: lines without double quotes (so `split_unquoted` is `str.split`), ASCII, numbers without
sign / underscore / `0x` / `0b` prefixes.  Anything else is reported as `unsupported` (never guessed);
the correspondence generator stays inside the domain.  ASM directive lines (`@ ...`) are recognised
and skipped (they do not influence the tiling; `@defb=`-style data directives, which patch the
snapshot, are outside the model).
-/
namespace CtlLex
open CtlTiling

inductive Err
  | invalidAddress | noContainingBlock | invalidInteger | extraParams
  | loopLength | loopCount | invalidDirective | unsupported
  deriving DecidableEq, Repr

def Err.text : Err → String
  | .invalidAddress => "invalid address"
  | .noContainingBlock => "blank directive with no containing block"
  | .invalidInteger => "invalid integer"
  | .extraParams => "extra parameters after address"
  | .loopLength => "loop length not specified"
  | .loopCount => "loop count not specified"
  | .invalidDirective => "invalid directive"
  | .unsupported => "unsupported"

/-! ### string helpers (Python `str` methods on `List Char`) -/

/-- `s.split(sep)` -/
def splitOn (sep : Char) : List Char → List (List Char)
  | [] => [[]]
  | c :: cs =>
    if c = sep then [] :: splitOn sep cs
    else match splitOn sep cs with
      | [] => [[c]]
      | w :: ws => (c :: w) :: ws

/-- `s.split(sep, 1)` -/
def splitFirst (sep : Char) : List Char → List Char × Option (List Char)
  | [] => ([], none)
  | c :: cs =>
    if c = sep then ([], some cs)
    else let (a, b) := splitFirst sep cs; (c :: a, b)

def isSpace (c : Char) : Bool := c = ' ' || c = '\t' || c = '\n' || c = '\r' || c = '\x0b' || c = '\x0c'

/-- `s.lstrip()` -/
def lstrip : List Char → List Char
  | [] => []
  | c :: cs => if isSpace c then lstrip cs else c :: cs

/-- `s.rstrip()` -/
def rstrip (s : List Char) : List Char := (lstrip s.reverse).reverse

def startsWithAny (s : List Char) (cs : List Char) : Bool :=
  match s with
  | [] => false
  | c :: _ => cs.contains c

/-! ### `get_int_param` -/

inductive IntRes
  | ok (n : Nat)
  | valueError
  | unsupported
  deriving DecidableEq, Repr

def digitVal (c : Char) : Option Nat :=
  if '0' ≤ c ∧ c ≤ '9' then some (c.toNat - '0'.toNat)
  else if 'a' ≤ c ∧ c ≤ 'f' then some (c.toNat - 'a'.toNat + 10)
  else if 'A' ≤ c ∧ c ≤ 'F' then some (c.toNat - 'A'.toNat + 10)
  else none

/-- digits of `s` in `base` (non-empty, all valid) -/
def parseDigits (base : Nat) (s : List Char) : Option Nat :=
  if s.isEmpty then none
  else s.foldl (fun acc c =>
    match acc, digitVal c with
    | some n, some d => if d < base then some (n * base + d) else none
    | _, _ => none) (some 0)

/-- characters whose treatment by Python's `int()` is not modelled -/
def oddChar (c : Char) : Bool :=
  c = '_' || c = '+' || c = '-' || c = '"' || isSpace c || c.toNat ≥ 128

/-- `get_int_param(num_str)` (without `accept0x`) -/
def getIntParam (s : List Char) : IntRes :=
  if s.any oddChar then .unsupported
  else match parseDigits 10 s with
  | some n => .ok n
  | none =>
    match s with
    | '$' :: r =>
      if r.any (fun c => c = 'x' || c = 'X') then .unsupported
      else match parseDigits 16 r with
        | some n => .ok n
        | none => .valueError
    | '%' :: r =>
      if r.any (fun c => c = 'b' || c = 'B') then .unsupported
      else match parseDigits 2 r with
        | some n => .ok n
        | none => .valueError
    | _ => .valueError

/-! ### `_parse_length`, `_parse_sublengths`, `parse_params` -/

def BASES : List Char := ['b', 'c', 'd', 'h', 'm', 'n']

/-- `_parse_length(length, default_base, required)`; `Except IntRes` carries `valueError`/`unsupported` -/
def parseLength (length : List Char) (defaultBase : String) (required : Bool) : Except IntRes (Nat × String) :=
  let num (s : List Char) (base : String) : Except IntRes (Nat × String) :=
    match getIntParam s with
    | .ok n => .ok (n, base)
    | e => .error e
  if startsWithAny length BASES then
    let base : List Char :=
      if startsWithAny (length.drop 1) BASES then length.take 2 else length.take 1
    if required || length.length > base.length then num (length.drop base.length) (String.ofList base)
    else .ok (0, String.ofList base)
  else if required || !length.isEmpty then num length defaultBase
  else .ok (0, defaultBase)

/-- the `for num in sublengths` loop of `_parse_sublengths` -/
def parseParts (subctl : Char) (defaultBase : String) : List (List Char) → Bool → Except IntRes Sublens
  | [], _ => .ok []
  | numStr :: rest, required => do
    let p ← parseLength numStr defaultBase required
    let ps ← parseParts subctl defaultBase rest (subctl != 'S')
    pure (p :: ps)

/-- `_parse_sublengths(spec, subctl, default_base)`: the parts; the statement length is
`sublengthsOf subctl parts` -/
def parseSublengths (spec : List Char) (subctl : Char) (defaultBase : String) : Except IntRes Sublens :=
  parseParts subctl defaultBase (if subctl = 'C' then [spec] else splitOn ':' spec) true

/-- `parse_params(ctl, params)`: `none` for an empty parameter list (`int_params == ()`),
otherwise `(length, int_params[1:])`. -/
def parseParams (ctl : Char) (params : List (List Char)) : Except IntRes (Option (Nat × List (Nat × Sublens))) :=
  match params with
  | [] => .ok none
  | first :: rest => do
    let (length, base) ← parseLength first (if ctl = 'T' then "c" else "n") false
    let rec go : List (List Char) → Except IntRes (List Param)
      | [] => .ok []
      | param :: more => do
        let (n, m) := splitFirst '*' param          -- `partition_unquoted(param, '*', '1')`
        let parts ← parseSublengths n ctl base
        let k ← match getIntParam (m.getD ['1']) with
          | .ok k => (.ok k : Except IntRes Nat)
          | e => .error e
        let tail ← go more
        pure (⟨parts, k⟩ :: tail)
    -- `int_params += (_parse_sublengths(n, ctl, base),) * get_int_param(m)`
    let lens := expandParams ctl (← go rest)
    pure (some (length, if lens.isEmpty then [(0, [(0, base)])] else lens))

/-! ### `_parse_ctl_file` (pre-pass) and `_parse_ctl_line` -/

def ENTRY_CTLS : List Char := ['b', 'c', 'g', 'i', 's', 't', 'u', 'w']

/-- What the pre-pass does with one (right-stripped, non-empty) line: `some (address, ctl)` when
`_ctls[address] = ctl` is executed.  `unsupported` when the address token is outside the domain. -/
def prePassLine (minA maxA : Nat) (line : List Char) : Except Err (Option (Nat × Char)) :=
  match line with
  | [] => .ok none
  | c :: rest =>
    if ENTRY_CTLS.contains c then
      match getIntParam (splitFirst ' ' (lstrip rest)).1 with
      | .ok a => .ok (if minA ≤ a ∧ a < maxA then some (a, c) else none)
      | .valueError => .ok none
      | .unsupported => .error .unsupported
    else .ok none

/-- result of `_parse_ctl_line` -/
inductive Line
  | skip                      -- comment, `.`/`:` continuation, ASM directive, empty content
  | dir (d : Directive)
  | err (e : Err)
  deriving Repr

/-- `bisect.bisect_right(entry_addresses, start) - 1`, then the entry's ctl -/
def containing (entries : List (Nat × Char)) (start : Nat) : Option Char :=
  ((entries.filter (fun p => p.1 ≤ start)).getLast?).map (·.2)

def liftInt {α : Type} (kind : Err) : Except IntRes α → Except Err α
  | .ok a => .ok a
  | .error .unsupported => .error .unsupported
  | .error _ => .error kind

/-- `_parse_ctl_line(line, entry_addresses)` reduced to a `Directive`.  `entries` is
`sorted(self._ctls.items())` after the pre-pass. -/
def parseCtlLine (entries : List (Nat × Char)) (line : List Char) : Line :=
  match line with
  | [] => .skip
  | first :: rest =>
    if first = '.' ∨ first = ':' then .skip
    else
      let content := lstrip rest
      if content.isEmpty then .skip
      else if " >bBcCDEgiLMNRsStTuwW".toList.contains first then
        -- `split_unquoted(content, ' ', 1)`: the same as `content.split(' ', 1)` unless the first field
        -- contains a double quote
        let fields := splitFirst ' ' content
        let params := splitOn ',' fields.1
        if fields.1.contains '"' then .err .unsupported else
        match getIntParam (params.headD []) with
        | .unsupported => .err .unsupported
        | .valueError => .err .invalidAddress
        | .ok start =>
          let ctl? : Except Err Char :=
            if first = ' ' then
              match containing entries start with
              | none => .error .noContainingBlock
              | some ec => .ok (if "cstw".toList.contains ec then ec.toUpper else 'B')
            else .ok first
          match ctl? with
          | .error e => .err e
          | .ok ctl =>
            match liftInt .invalidInteger (parseParams ctl (params.drop 1)) with
            | .error e => .err e
            | .ok ip =>
              if ip.isSome ∧ ¬ ">BCLMSTW".toList.contains ctl then .err .extraParams
              else
                let length := (ip.map (·.1)).getD 0
                let end_ : Option Nat := if length ≠ 0 then some (start + length) else none
                let lengths := (ip.map (·.2)).getD []
                if ctl = 'L' then
                  match end_ with
                  | none => .err .loopLength
                  | some e =>
                    match lengths with
                    | (count, _) :: more =>
                      if count = 0 then .err .loopCount
                      else .dir (.loop start e count ((more.head?.map (·.1)).getD 0))
                    | [] => .err .loopLength      -- unreachable: a length parameter implies `lengths` non-empty
                else if ENTRY_CTLS.contains ctl then .dir (.entry ctl start)
                else if ctl = 'M' then .dir (.boundary start end_)
                else if ctl = 'D' ∨ ctl = 'N' then .dir (.boundary start none)
                else if ctl = 'E' ∨ ctl = 'R' ∨ ctl = '>' then .dir (.other start)
                else .dir (.sub ctl start end_ lengths)
      else if first = '@' then .skip
      else if first = '#' ∨ first = '%' ∨ first = ';' then .skip
      else .err .invalidDirective

/-- The whole of `parse_ctls` on the (right-stripped, non-empty) lines of one control file:
the state after the bookkeeping, and the list of `(line_no, error)` for ignored lines. -/
def parseFile (minA maxA : Nat) (lines : List (List Char)) : Except Err (PState × List (Nat × Err)) :=
  match lines.mapM (prePassLine minA maxA) with
  | .error e => .error e
  | .ok pre =>
    let prePairs := pre.filterMap id
    let entries := sortedItems (prePairs.foldl (fun c p => dset c p.1 p.2) ([] : Dict Char))
    let parsed := lines.map (parseCtlLine entries)
    if parsed.any (fun l => match l with | .err .unsupported => true | _ => false) then .error .unsupported
    else
      let ds := parsed.filterMap (fun l => match l with | .dir d => some d | _ => none)
      let errs := (parsed.zipIdx 1).filterMap (fun (l, i) => match l with | .err e => some (i, e) | _ => none)
      .ok (parseCtls minA maxA prePairs ds, errs)

end CtlLex
