import SkoolVerif.Model.MacroOps
/-
Model of `skoolmacro.expand_macros` and of the parsers of the
mode-independent macros (`parse_eval`, `parse_n`, `parse_if`, `parse_map`,
`parse_for`, `parse_foreach`, `parse_while`, `parse_let`, `parse_format`,
`parse_peek`, `parse_pokes`, `parse_pushs`, `parse_pops`, `parse_chr`,
`parse_str`, `parse_space`, `parse_pc`, `parse_raw`) on a writer state.

Recursion (macros nested in parameters, `#WHILE` bodies, the rescan of a
replacement) is bounded by a fuel parameter: `expandLoop (n+1)` hands
`expandLoop n` to the macro parsers.
-/
namespace MacroExpand
open MacroText MacroExpr MacroArgs MacroOps

/-- The part of an `AsmWriter`/`HtmlWriter` the modelled macros read or write. -/
structure St where
  html : Bool              -- `fields['mode']['html']`; also selects `to_chr`, `space`, `expand` stripping
  base : Nat               -- `writer.base` (0, 10, 16)
  case : Nat               -- `writer.case` (0, 1 = lower, 2 = upper)
  fields : Fields          -- `writer.fields`
  snap : Snap              -- `writer.snapshot`, `writer._snapshots[1:]`
  pc : Int                 -- `writer.pc`

/-- What a macro parser returns: new state, replacement text, the text after
the macro's arguments, and whether the replacement is exempt from rescanning
(a negative `end`). -/
abbrev MacroRes := M (St × Text × Text × Bool)

abbrev Exp := Expander St

def getF (st : St) : Fields := st.fields

/-- `html.escape(s)` -/
def htmlEscape : Text → Text
  | [] => []
  | c :: t =>
    (if c = '&' then ['&', 'a', 'm', 'p', ';'] else if c = '<' then ['&', 'l', 't', ';'] else if c = '>' then ['&', 'g', 't', ';']
     else if c = '"' then ['&', 'q', 'u', 'o', 't', ';'] else if c = '\'' then ['&', '#', 'x', '2', '7', ';'] else [c]) ++ htmlEscape t

def req (v : Option Int) : M Int :=
  match v with
  | some x => .ok x
  | none => .error (.py "TypeError")     -- a `None` reaching arithmetic

/-- `fmt.format(value, width)` with a possibly negative width. -/
def fmtChecked (b : Nat) (lc : Bool) (width v : Int) : M Text :=
  if width < 0 then .error (.py "ValueError")
  else if width > 2000 then .error .unsup          -- model limit (output size)
  else .ok (fmtInt b lc width.toNat v)

/-- `parse_eval` -/
def macroEval (exp : Exp) (st : St) (rest : Text) : MacroRes := do
  let (st, vals, r) ← parseInts exp getF st rest 3 [some 10, some 1]
  match vals with
  | [some value, some base, some width] =>
    if base = 2 then do let t ← fmtChecked 2 false width value; pure (st, t, r, false)
    else if base = 10 then do let t ← fmtChecked 10 false width value; pure (st, t, r, false)
    else if base = 16 then do let t ← fmtChecked 16 (st.case = 1) width value; pure (st, t, r, false)
    else .error .parsing
  | _ => .error .unsup

/-- `parse_n` -/
def macroN (exp : Exp) (st : St) (rest : Text) : MacroRes := do
  let (st, vals, r) ← parseInts exp getF st rest 5 [none, some 1, some 0, some 0]
  match vals with
  | [some value, hwidth, some dwidth, some affix, some tohex] =>
    let (pre, suf, r) ← (if affix ≠ 0 then do
        let (ss, r') ← parseStrings r 2 [some [], some []]
        match ss with
        | [some p, some s] => pure (p, s, r')
        | _ => .error .unsup
      else pure (([] : Text), ([] : Text), r))
    if st.base = 16 || (tohex ≠ 0 && st.base ≠ 10) then
      let hw : Int := match hwidth with
        | some w => w
        | none => if 0 ≤ value && value < 256 then 2 else 4
      do let t ← fmtChecked 16 (st.case = 1) hw value; pure (st, pre ++ t ++ suf, r, false)
    else do let t ← fmtChecked 10 false dwidth value; pure (st, t, r, false)
  | _ => .error .unsup

/-- `parse_if` -/
def macroIf (exp : Exp) (st : St) (rest : Text) : MacroRes :=
  match parseInts exp getF st rest 1 [] with
  | .error .missing => .error .parsing
  | .error e => .error e
  | .ok (st, vals, r) =>
    match parseStrings r 2 [some []] with
    | .error .tooMany => .error .parsing
    | .error e => .error e
    | .ok (ss, r') =>
      match vals, ss with
      | [some value], [some sTrue, some sFalse] => .ok (st, if value ≠ 0 then sTrue else sFalse, r', false)
      | _, _ => .error .unsup

/-- `parse_map` -/
def macroMap (exp : Exp) (st : St) (rest : Text) : MacroRes :=
  match parseInts exp getF st rest 1 [] with
  | .error .missing => .error .parsing
  | .error e => .error e
  | .ok (st, vals, r) => do
    let (args, r') ← parseStrings r 0 []
    match vals, args with
    | [some value], some default :: pairs =>
      let ps ← evalMapPairs (pairs.map (·.getD []))
      pure (st, mapLookup default ps value, r', false)
    | _, _ => .error .unsup

def flag (flags : Int) (bit : Int) : Bool := pyAnd flags bit ≠ 0

/-- The loop of `parse_for`. -/
def forItems (var s sep : Text) (substSep : Bool) (ns : List Int) : List (Text × Text) :=
  ns.map (fun n => (replace var (intStr n) s, if substSep then replace var (intStr n) sep else sep))

/-- `parse_for` -/
def macroFor (exp : Exp) (st : St) (rest : Text) : MacroRes := do
  let (st, vals, r) ← parseInts exp getF st rest 4 [some 1, some 0]
  let (ss, r') ← (match parseStrings r 4 [some [], none] with
    | .error .noParams => .error .parsing
    | .error .missing => .error .parsing
    | x => x)
  match vals, ss with
  | [some start, some stop, some step, some flags], [some var, some s, some sep, fsep] =>
    let sep := if flag flags 1 then ',' :: sep else sep
    let sep := if flag flags 2 then sep ++ [','] else sep
    if st.html && s.contains '&' then .error .unsup            -- html.unescape(s) not modelled
    else if step = 0 then .error (.py "ZeroDivisionError")
    else if forLen start stop step > 2000 then .error .unsup      -- model limit (output size)
    else
      let out := forJoin (forItems var s sep (flag flags 4) (forRange start stop step)) fsep
      pure (st, if st.html then htmlEscape out else out, r', false)
  | _, _ => .error .unsup

def specialForeach (v : Text) : Bool :=
  startsWith ['E', 'R', 'E', 'F'] v || startsWith ['R', 'E', 'F'] v || startsWith ['E', 'N', 'T', 'R', 'Y'] v || startsWith ['P', 'O', 'K', 'E'] v

/-- `parse_foreach` (plain value lists only). -/
def macroForeach (_exp : Exp) (st : St) (rest : Text) : MacroRes := do
  let (values, r) ← parseStrings rest 0 []
  let (ss, r') ← (match parseStrings r 4 [some [], none] with
    | .error .noParams => .error .parsing
    | .error .missing => .error .parsing
    | x => x)
  let values := values.map (·.getD [])
  match ss with
  | [some var, some s, some sep, fsep] =>
    if values.length = 1 && specialForeach (values.headD []) then .error .unsup
    else if st.html && s.contains '&' then .error .unsup
    else
      let out := foreachJoin (values.map (fun v => replace var v s)) sep fsep
      pure (st, if st.html then htmlEscape out else out, r', false)
  | _ => .error .unsup

/-- Does `name` match `(.+)\[([^]]*)\]$` (a dictionary assignment)? -/
def isDictName (name : Text) : Bool :=
  match name.reverse with
  | ']' :: revInit =>
    let afterLast := revInit.takeWhile (· ≠ '[')          -- reversed text after the last '['
    let before := (revInit.dropWhile (· ≠ '[')).drop 1
    revInit.contains '[' && !before.isEmpty && !afterLast.contains ']'
  | _ => false

def reservedName (name : Text) : Bool :=
  name = ['m', 'o', 'd', 'e'] || name = ['c', 'f', 'g'] || name = ['v', 'a', 'r', 's']

/-- `parse_let` (plain variables). -/
def macroLet (exp : Exp) (st : St) (rest : Text) : MacroRes := do
  let (stmt, r) ← parseString1 rest
  let (name, found, value) := partitionChar '=' stmt
  if !name.isEmpty && found then
    if isDictName name || reservedName name || name.contains '\n' then .error .unsup
    else do
      let (st, v) ← exp st value
      let v ← format st.fields v
      if name.getLast? = some '$' then
        pure ({ st with fields := st.fields.set name (.str v) }, [], r, false)
      else match evaluate v with
        | .ok n => pure ({ st with fields := st.fields.set name (.int n) }, [], r, false)
        | .error .err => .error .invalid
        | .error .unsup => .error .unsup
  else .error .invalid

/-- `parse_format` -/
def macroFormat (exp : Exp) (st : St) (rest : Text) : MacroRes := do
  let (st, case, r) ← (match rest with
    | '(' :: t =>
      (match scanClose '(' ')' 0 t with
       | none => .error .closing
       | some (inner, r) => do
         let (st', params) ← exp st inner
         let params ← format st'.fields params
         match getParams params 1 [some 0] with
         | .ok [some c] => pure (st', c, r)
         | .ok _ => .error .unsup
         | .error .invalid => pure (st', (0 : Int), rest)        -- `except InvalidParameterError: case = 0`
         | .error e => .error e)
    | _ => do
      let (st', vals, r) ← parseInts exp getF st rest 1 [some 0]
      match vals with
      | [some c] => pure (st', c, r)
      | _ => .error .unsup)
  let (fmt, r') ← parseString1 r
  let out ← format st.fields fmt
  if !out.all isAscii && (case = 1 || case = 2) then .error .unsup
  else pure (st, if case = 1 then lower out else if case = 2 then upper out else out, r', false)

/-- `parse_peek` -/
def macroPeek (exp : Exp) (st : St) (rest : Text) : MacroRes := do
  let (st, vals, r) ← parseInts exp getF st rest 1 []
  match vals with
  | [some addr] => pure (st, intStr (peek st.snap.mem addr), r, false)
  | _ => .error .unsup

/-- `parse_pokes` -/
def macroPokes (exp : Exp) : Nat → St → Text → MacroRes
  | 0, _, _ => .error .fuel
  | n + 1, st, rest => do
    let (st, vals, r) ← parseInts exp getF st rest 4 [some 1, some 1]
    match vals with
    | [some addr, some byte, some length, some step] =>
      if length > 131072 then .error .unsup else
      let st := { st with snap := st.snap.poke addr byte length step }
      match r with
      | ';' :: r' => macroPokes exp n st r'
      | _ => pure (st, [], r, false)
    | _ => .error .unsup

/-- `parse_pushs` -/
def macroPushs (st : St) (rest : Text) : MacroRes :=
  let isNameChar (c : Char) : Bool := isAlnum c || c = '$' || c = '#'
  let name := rest.takeWhile isNameChar
  let r := rest.dropWhile isNameChar
  match r with
  | c :: _ => if !isAscii c then .error .unsup else .ok ({ st with snap := st.snap.push name }, [], r, false)
  | [] => .ok ({ st with snap := st.snap.push name }, [], r, false)

/-- `parse_pops` -/
def macroPops (st : St) (rest : Text) : MacroRes :=
  match st.snap.pop with
  | some s => .ok ({ st with snap := s }, [], rest, false)
  | none => .error .parsing

def zxChar (n : Int) : Int := if n = 94 then 8593 else if n = 96 then 163 else if n = 127 then 169 else n

def validChar (n : Int) : Bool := 0 ≤ n && n < 0x110000 && !(0xD800 ≤ n && n ≤ 0xDFFF)

/-- `parse_chr` -/
def macroChr (exp : Exp) (st : St) (rest : Text) : MacroRes := do
  let (st, vals, r) ← parseInts exp getF st rest 2 [some 0]
  match vals with
  | [some num, some flags] =>
    let num := if flag flags 2 then zxChar num else num
    if flag flags 1 || !st.html then
      if validChar num then pure (st, [Char.ofNat num.toNat], r, false) else .error .unsup
    else pure (st, ['&', '#'] ++ intStr num ++ [';'], r, false)
  | _ => .error .unsup

/-- `parse_space` -/
def macroSpace (exp : Exp) (st : St) (rest : Text) : MacroRes := do
  let (st, vals, r) ← parseInts exp getF st rest 1 [some 1]
  match vals with
  | [some num] =>
    if num > 2000 then .error .unsup
    else pure (st, (List.replicate num.toNat (if st.html then ['&', '#', '1', '6', '0', ';'] else [' '])).flatten, r, false)
  | _ => .error .unsup

/-- The scan of `parse_str` for a terminated string (`length < 0`, flag 8 clear). -/
def strScan (m : Mem) : Nat → Int → M (List Int)
  | 0, _ => .error .fuel
  | n + 1, a =>
    if a ≥ 65536 then .ok []
    else if a < -65536 then .error (.py "IndexError")
    else
      let b := m (cell a)
      if b = 0 then .ok []
      else if pyAnd b 128 ≠ 0 then .ok [pyAnd b 127]
      else do let r ← strScan m n (a + 1); pure (b :: r)

/-- Replace every run of two or more spaces by `#SPACE(n)`. -/
def spaceRuns : Nat → Text → Text
  | 0, s => s
  | _, [] => []
  | n + 1, ' ' :: ' ' :: t =>
    let run := (' ' :: ' ' :: t).takeWhile (· = ' ')
    ['#', 'S', 'P', 'A', 'C', 'E', '('] ++ natDigits 10 false run.length ++ [')'] ++ spaceRuns n ((' ' :: ' ' :: t).dropWhile (· = ' '))
  | n + 1, c :: t => c :: spaceRuns n t

/-- `parse_str` -/
def macroStr (exp : Exp) (st : St) (rest : Text) : MacroRes := do
  let (st, vals, r) ← parseInts exp getF st rest 3 [some 0, some (-1)]
  match vals with
  | [some addr, some flags, some length] =>
    if length < 0 && flag flags 8 then .error .unsup
    else if length > 2000 then .error .unsup
    else do
      let data ← (if length < 0 then strScan st.snap.mem 70000 addr
                  else pure ((List.range length.toNat).map (fun (i : Nat) => st.snap.mem (cell (addr + (i : Int))))))
      if !(data.all (fun b => 0 ≤ b && b < 256)) then .error .unsup
      else
        let s : Text := data.map (fun b => Char.ofNat (zxChar b).toNat)
        let s := if flag flags 1 then rstrip s else s
        let s := if flag flags 2 then lstrip s else s
        let s := if flag flags 4 then spaceRuns (s.length + 1) s else s
        pure (st, s, r, false)
  | _ => .error .unsup

/-- `parse_raw` -/
def macroRaw (st : St) (rest : Text) : MacroRes := do
  let (raw, r) ← parseString1 rest
  pure (st, raw, r, true)

/-- The loop of `parse_while`. -/
def whileLoop (exp : Exp) (expr body : Text) : Nat → St → Text → M (St × Text)
  | 0, _, _ => .error .fuel
  | n + 1, st, out => do
    let (st, params) ← exp st expr
    let params ← format st.fields params
    let vals ← getParams params 1 []
    match vals with
    | [some v] =>
      if v = 0 then pure (st, out)
      else do
        let (st, b) ← exp st body
        whileLoop exp expr body n st (out ++ strip b)
    | _ => .error .unsup

/-- `parse_while` -/
def macroWhile (exp : Exp) (fuel : Nat) (st : St) (rest : Text) : MacroRes := do
  let (e, r) ← parseBrackets '(' ')' rest
  match e with
  | none => .error .missing
  | some [] => .error .missing
  | some expr => do
    let (body, r') ← parseString1 r
    let (st, out) ← whileLoop exp expr body fuel st []
    pure (st, out, r', false)

def unmodelled : List Text :=
  [['A', 'U', 'D', 'I', 'O'], ['B', 'A', 'N', 'K'], ['C', 'A', 'L', 'L'], ['C', 'O', 'P', 'Y'], ['D'], ['D', 'E', 'F'], ['F', 'O', 'N', 'T'], ['F', 'R', 'A', 'M', 'E', 'S'], ['H', 'T', 'M', 'L'], ['I', 'N', 'C', 'L', 'U', 'D', 'E'], ['L', 'I', 'N', 'K'], ['L', 'I', 'S', 'T'],
   ['O', 'V', 'E', 'R'], ['P', 'L', 'O', 'T'], ['R'], ['R', 'E', 'G'], ['S', 'C', 'R'], ['S', 'I', 'M'], ['T', 'A', 'B', 'L', 'E'], ['T', 'S', 'T', 'A', 'T', 'E', 'S'], ['U', 'D', 'G'], ['U', 'D', 'G', 'A', 'R', 'R', 'A', 'Y'], ['U', 'D', 'G', 'S'], ['U', 'D', 'G', 'T', 'A', 'B', 'L', 'E'],
   ['V', 'E', 'R', 'S', 'I', 'O', 'N']]

/-- A macro parser: `(expander for nested text, fuel, state, text after the marker)`. -/
abbrev Handler := Exp → Nat → St → Text → MacroRes

/-- `writer.macros` restricted to the modelled macros. -/
def macroTable : List (Text × Handler) :=
  [(['E', 'V', 'A', 'L'], fun exp _ st rest => macroEval exp st rest),
   (['N'], fun exp _ st rest => macroN exp st rest),
   (['I', 'F'], fun exp _ st rest => macroIf exp st rest),
   (['M', 'A', 'P'], fun exp _ st rest => macroMap exp st rest),
   (['F', 'O', 'R'], fun exp _ st rest => macroFor exp st rest),
   (['F', 'O', 'R', 'E', 'A', 'C', 'H'], fun exp _ st rest => macroForeach exp st rest),
   (['L', 'E', 'T'], fun exp _ st rest => macroLet exp st rest),
   (['F', 'O', 'R', 'M', 'A', 'T'], fun exp _ st rest => macroFormat exp st rest),
   (['P', 'E', 'E', 'K'], fun exp _ st rest => macroPeek exp st rest),
   (['P', 'O', 'K', 'E', 'S'], fun exp fuel st rest => macroPokes exp fuel st rest),
   (['P', 'U', 'S', 'H', 'S'], fun _ _ st rest => macroPushs st rest),
   (['P', 'O', 'P', 'S'], fun _ _ st rest => macroPops st rest),
   (['C', 'H', 'R'], fun exp _ st rest => macroChr exp st rest),
   (['S', 'P', 'A', 'C', 'E'], fun exp _ st rest => macroSpace exp st rest),
   (['S', 'T', 'R'], fun exp _ st rest => macroStr exp st rest),
   (['P', 'C'], fun _ _ st rest => .ok (st, intStr st.pc, rest, false)),
   (['R', 'A', 'W'], fun _ _ st rest => macroRaw st rest),
   (['W', 'H', 'I', 'L', 'E'], fun exp fuel st rest => macroWhile exp fuel st rest)]

/-- `writer.macros.get(marker)` -/
def lookupMacro (name : Text) : Option Handler := macroTable.lookup name

/-- `writer.macros[marker]` applied to `(text, start)`. -/
def runMacro (exp : Exp) (fuel : Nat) (name : Text) (st : St) (rest : Text) : MacroRes :=
  match lookupMacro name with
  | some h => h exp fuel st rest
  | none => .error .unsup

/-- `RE_MACRO.search(text, index)`: leftmost `#[A-Z]+`; returns the text
before the marker, the marker's letters and the text after it. -/
def findMarker : Text → Option (Text × Text × Text)
  | [] => none
  | c :: t =>
    if c = '#' && (t.takeWhile isUpper).length > 0 then
      some ([], t.takeWhile isUpper, t.dropWhile isUpper)
    else match findMarker t with
      | some (b, n, a) => some (c :: b, n, a)
      | none => none

/-- `RE_EXPAND.match(text, start)`: `#` followed by a character that is not
an ASCII letter or digit and not whitespace. -/
def expandPrefix : Text → Bool
  | '#' :: c :: _ => !(isAlnum c) && !(isSpace c)
  | _ => false

/-- `writer.expand` given the raw `expand_macros`: `AsmWriter.expand` strips. -/
def writerExpand (raw : Exp) : Exp := fun st text => do
  let (st', out) ← raw st text
  pure (st', if st'.html then out else strip out)

/-- Wrap a `MacroParsingError` the way `expand_macros` does. -/
def wrapErr (name : Text) (e : MErr) : MErr := if e.isMacroParsing then .skool name else e

/-- `while RE_EXPAND.match(text, start): …` — expand `#(…)` groups that stand
directly in front of a macro's arguments (with the raw `expand_macros`).
`parse_strings` is called outside the `try`, so its errors are not wrapped. -/
def preExpand (raw : Exp) : Nat → St → Text → M (St × Text)
  | 0, _, _ => .error .fuel
  | k + 1, s, a =>
    if expandPrefix a then
      match parseString1 (a.drop 1) with
      | .error e => .error e
      | .ok (expr, r) =>
        match raw s expr with
        | .error e => .error e
        | .ok (s', out) => preExpand raw k s' (out ++ r)
    else .ok (s, a)

def known (name : Text) : Bool := (lookupMacro name).isSome

/-- `expand_macros(writer, text)`. `acc` is the already final text before the
scan position (`text[:index]`), `rest` is `text[index:]`. -/
def expandLoop : Nat → St → Text → Text → M (St × Text)
  | 0, _, _, _ => .error .fuel
  | n + 1, st, acc, rest =>
    match findMarker rest with
    | none => .ok (st, acc ++ rest)
    | some (before, name, after) =>
      if !known name then
        if unmodelled.contains name then .error .unsup else .error (.unknown name)
      else
        let raw : Exp := fun s t => expandLoop n s [] t
        match preExpand raw n st after with
        | .error e => .error e
        | .ok (st1, after1) =>
          match runMacro (writerExpand raw) n name st1 after1 with
          | .error e => .error (wrapErr name e)
          | .ok (st2, rep, remaining, isRaw) =>
            if isRaw then expandLoop n st2 (acc ++ before ++ rep) remaining
            else expandLoop n st2 (acc ++ before) (rep ++ remaining)

/-- `expand_macros(writer, text)` from the start of the text. -/
def expandMacros (fuel : Nat) (st : St) (text : Text) : M (St × Text) := expandLoop fuel st [] text

/-- `writer.expand(text)`. -/
def expand (fuel : Nat) (st : St) (text : Text) : M (St × Text) :=
  writerExpand (expandMacros fuel) st text

/-- Initial fields of a writer built by `SkoolParser(…, asm_mode=1 | html=True)`. -/
def initFields (html : Bool) (base case : Nat) : Fields :=
  [(['a', 's', 'm'], .int (if html then 0 else 1)), (['b', 'a', 's', 'e'], .int base), (['c', 'a', 's', 'e'], .int case),
   (['f', 'i', 'x'], .int 0), (['h', 't', 'm', 'l'], .int (if html then 1 else 0)),
   (['c', 'f', 'g'], .dict), (['m', 'o', 'd', 'e'], .dict), (['v', 'a', 'r', 's'], .dict)]

def initSt (html : Bool) (base case : Nat) (mem : Mem) : St :=
  { html, base, case, fields := initFields html base case, snap := { mem, stack := [] }, pc := 0 }

/-- The output text of a successful expansion. -/
def outText (r : M (St × Text)) : Option Text :=
  match r with
  | .ok (_, t) => some t
  | .error _ => none

end MacroExpand
