import SkoolVerif.Prelude.Machine
import SkoolVerif.Model.RzxInput
/-!
Hand model of RZX playback in `skoolkit/rzxplay.py` (and of `CSimulator_exec_frame` in
`c/csimulator.c`), generic in the memory type and in the single-instruction step function (the
drivers and theorems instantiate it with the *generated* `Sim.step` / `Cmio.step`):

* `fetchDec`, `fetchDecC`   what `process_block` / `exec_frame` subtract from the fetch counter
                            per executed instruction;
* `acceptInterrupt`         `Simulator.accept_interrupt` (+ the MEMPTR update of `CMIOSimulator`);
* `classify`, `boundaryK`, `boundary`   the end-of-frame interrupt rules of `process_block` (playback flags 1, 2);
* `pyIter`, `runFrame`, `cFrame`        the inner loops (Python `while fetch_counter > 0`, C `do … while`)
                            with `RZXTracer.read_port`'s "Port readings exhausted" error;
* `playBlock`               `process_block`'s frame loop over one input recording block with
                            `RZXTracer.next_frame` (zero-fetch frames skipped, "port reading(s) left"
                            error, frame counting, `--stop`), returning what `write_rzx` would write;
* `recFrame`, `recBlock`    a *recorder*: the simulator run frame by frame with a source of port values,
                            logging M1 fetches and the readings consumed (the RZX recording convention).

Core Lean + Prelude only (used by the driver).
-/
namespace Rzx
open Z80
variable {μ : Type} [MemLike μ]

/-- Playback errors (`SkoolKitError` raised by `RZXTracer`). -/
inductive Err
  | exhausted     -- read_port: 'Port readings exhausted for frame N'
  | leftover      -- next_frame: 'M port reading(s) left for frame N'
  deriving DecidableEq, Repr

/-- A frame by value: fetch counter and port readings (`tracer.data[frame.start:frame.end]`). -/
structure Frame where
  fetch : Int
  ins : List Int
  deriving DecidableEq, Repr

def Frame.ofInput (f : RzxInput.Frame) : Frame := ⟨f.fetch, f.ins.map Int.ofNat⟩

/-- `simulator.R1[r]` = `(r & 0x80) + ((r + 1) % 128)` (used by `accept_interrupt`). -/
def r1 (r : Int) : Int := PyInt.land r 128 + (r + 1) % 128

/-- `process_block` (Python loop): the amount subtracted from `fetch_counter` after executing the
instruction whose first byte was `opcode`, with R before (`r0`) and after (`r1`):
`2 - ((registers[15] ^ r0) % 2)` for DD/FD, `2 if opcode in (0xCB, 0xED) else 1` otherwise. -/
def fetchDec (opcode r0 r1 : Int) : Int :=
  if opcode = 0xDD ∨ opcode = 0xFD then 2 - (PyInt.xor r1 r0) % 2
  else if opcode = 0xCB ∨ opcode = 0xED then 2 else 1

/-- `CSimulator_exec_frame`: `r_inc` = 2 for CB/ED and for DD CB / FD CB, otherwise for DD/FD
`2 - ((REG(R) ^ r0) & 1)`, otherwise 1. -/
def fetchDecC (opcode opcode2 r0 r1 : Int) : Int :=
  if opcode = 0xCB ∨ opcode = 0xED then 2
  else if opcode = 0xDD ∨ opcode = 0xFD then
    (if opcode2 = 0xCB then 2 else 2 - PyInt.land (PyInt.xor r1 r0) 1)
  else 1

/-- `Simulator.accept_interrupt(registers, memory, prev_pc)`; `cmio` adds
`CMIOSimulator.accept_interrupt`'s `registers[29] = registers[24]`. -/
def acceptInterrupt (cmio : Bool) (prevPc : Int) (s : St μ) : St μ :=
  let opcode := mget s.mem prevPc
  let pc := s.pc
  if opcode = 0xFB ∨ ((opcode = 0xDD ∨ opcode = 0xFD) ∧ prevPc = (pc - 1) % 65536) then s
  else
    let vaddr := 255 + 256 * rget s.reg 14
    let iaddr := if s.im = 2 then mget s.mem vaddr + 256 * mget s.mem ((vaddr + 1) % 65536) else 56
    let dt : Int := if s.im = 2 then 19 else 13
    let sp := (rget s.reg 12 - 2) % 65536
    let reg := rset s.reg 12 sp
    let mem := if sp > 0x3FFF then mset s.mem sp (pc % 256) else s.mem
    let sp1 := (sp + 1) % 65536
    let mem := if sp1 > 0x3FFF then mset mem sp1 (pc / 256) else mem
    let reg := rset reg 15 (r1 (rget reg 15))
    { s with reg := reg, mem := mem, pc := iaddr, t := s.t + dt, iff := 0, halt := 0,
             memptr := if cmio then iaddr else s.memptr }

/-- How `process_block` classifies the last instruction of a frame (by re-reading memory at its
address): HALT, LD A,I / LD A,R, EI, anything else. -/
inductive Last | halt | ldair | ei | other
  deriving DecidableEq, Repr

/-- `memory[pc] == 0x76` / `memory[pc] == 0xED and memory[(pc + 1) % 65536] in (0x57, 0x5F)` /
`memory[pc] != 0xFB`, in the order of the `if … elif` chain. -/
def classify (m : μ) (pc : Int) : Last :=
  if mget m pc = 0x76 then .halt
  else if mget m pc = 0xED ∧ (mget m ((pc + 1) % 65536) = 0x57 ∨ mget m ((pc + 1) % 65536) = 0x5F) then .ldair
  else if mget m pc = 0xFB then .ei
  else .other

/-- End-of-frame processing of `process_block` after `tracer.next_frame()` returned `nextFc`
(-1 when the block has no further frame): `registers[25] = 0`, then, if interrupts are enabled,
the `if memory[pc] == 0x76 … elif flags_ldair … elif flags_ei … else` chain. -/
def boundaryK (cmio : Bool) (flags : Int) (k : Last) (nextFc : Int) (s : St μ) : St μ :=
  let s : St μ := { s with t := 0 }
  if s.iff ≠ 0 then
    if k = .halt then
      acceptInterrupt cmio 0 { s with pc := (s.pc + 1) % 65536 }
    else if PyInt.land flags 1 ≠ 0 ∧ k = .ldair then
      acceptInterrupt cmio 0 { s with reg := rset s.reg 1 (PyInt.land (rget s.reg 1) 251) }
    else if PyInt.land flags 2 ≠ 0 then
      (if k ≠ .ei ∨ nextFc > 2 then acceptInterrupt cmio 0 s else s)
    else acceptInterrupt cmio 0 s
  else s

/-- The same with the classification `process_block` actually uses: memory re-read at the address
of the last executed instruction, *after* it was executed. -/
def boundary (cmio : Bool) (flags : Int) (lastPc : Int) (nextFc : Int) (s : St μ) : St μ :=
  boundaryK cmio flags (classify s.mem lastPc) nextFc s

/-- One iteration of the Python inner loop: execute, detect `read_port` on an empty list
(`SkoolKitError('Port readings exhausted …')`), compute the fetch decrement. -/
def pyIter (step : St μ → St μ) (s : St μ) : Except Err (St μ × Int) :=
  let s' := step s
  if s'.inLog.length > s.inLog.length ∧ s.ins = [] then .error .exhausted
  else .ok (s', fetchDec (mget s.mem s.pc) (rget s.reg 15) (rget s'.reg 15))

/-- The same for `exec_frame` (C). -/
def cIter (step : St μ → St μ) (s : St μ) : Except Err (St μ × Int) :=
  let s' := step s
  if s'.inLog.length > s.inLog.length ∧ s.ins = [] then .error .exhausted
  else .ok (s', fetchDecC (mget s.mem s.pc) (mget s.mem ((s.pc + 1) % 65536)) (rget s.reg 15) (rget s'.reg 15))

/-- sequencing of a step that may raise -/
def andThen {α β : Type} (x : Except Err α) (f : α → Except Err β) : Except Err β :=
  match x with
  | .ok a => f a
  | .error e => .error e

/-- `while fetch_counter > 0:` … (fuel: the counter drops by at least 1 per iteration, so
`fuel = fetch_counter` suffices; see `Proofs/RzxPlayLemmas.lean`).  Returns the state and the
address of the last instruction executed (`pc`). -/
def runFrame (step : St μ → St μ) : Nat → Int → St μ → Int → Except Err (St μ × Int)
  | 0, _, s, last => .ok (s, last)
  | fuel + 1, fc, s, last =>
    if fc > 0 then andThen (pyIter step s) fun r => runFrame step fuel (fc - r.2) r.1 s.pc
    else .ok (s, last)

/-- `exec_frame`: `while (1) { …; if (fetch_count <= 0) break; }`. -/
def cFrame (step : St μ → St μ) : Nat → Int → St μ → Except Err (St μ × Int)
  | 0, _, s => .ok (s, s.pc)
  | fuel + 1, fc, s =>
    andThen (cIter step s) fun r => if fc - r.2 ≤ 0 then .ok (r.1, s.pc) else cFrame step fuel (fc - r.2) r.1

/-- Which inner loop `process_block` uses (`hasattr(simulator, 'exec_frame')`). -/
inductive Impl | py | c
  deriving DecidableEq, Repr

/-- The inner loop of one frame, on a state whose tracer already serves the frame's readings. -/
def innerLoop (impl : Impl) (step : St μ → St μ) (fc : Int) (s0 : St μ) : Except Err (St μ × Int) :=
  match impl with
  | .py => runFrame step fc.toNat fc s0 s0.pc
  | .c => cFrame step fc.toNat fc s0

/-- One frame with fetch counter > 0: the tracer serves `f.ins`; afterwards `next_frame` raises if
readings are left. -/
def playFrame (impl : Impl) (step : St μ → St μ) (f : Frame) (s : St μ) : Except Err (St μ × Int) :=
  andThen (innerLoop impl step f.fetch { s with ins := f.ins }) fun r =>
    if r.1.ins ≠ [] then .error .leftover else .ok r

/-- `RZXTracer.next_frame`'s `while` loop: frames with `fetch_counter == 0` are skipped (each still
counts as a frame).  Returns how many were skipped and the list from the next playable frame on. -/
def skipZeros : List Frame → Nat × List Frame
  | [] => (0, [])
  | f :: rest => if f.fetch > 0 then (0, f :: rest) else
      let r := skipZeros rest
      (r.1 + 1, r.2)

/-- The value `next_frame()` returns given the frames that follow the current one
(`nxt` when there is none: -1 inside `process_block`). -/
def peekFetch (nxt : Int) (rest : List Frame) : Int :=
  match (skipZeros rest).2 with
  | [] => nxt
  | f :: _ => f.fetch

/-- Result of `process_block` on one input recording block. -/
inductive Outcome (μ : Type) where
  /-- all frames played (`fetch_counter < 0`): simulator state, `context.frame_count` -/
  | finished (s : St μ) (count : Nat)
  /-- `context.frame_count >= stop`: state, frame count, and `tracer.frames[tracer.frame_index:]`,
  the frames `write_rzx` writes -/
  | stopped (s : St μ) (count : Nat) (rest : List Frame)

/-- `process_block`'s `while run:` loop over the frames of one block.  `cnt` = `context.frame_count`
when the head of the list is `tracer.frames[tracer.frame_index]`; `stop = none` stands for a stop
count that is never reached; `nxt` = what to use as "next fetch counter" when the list runs out
(-1 in the real code; a parameter so that playing a prefix of a block can be expressed). -/
def playG (impl : Impl) (cmio : Bool) (flags : Int) (step : St μ → St μ) (stop : Option Nat) (nxt : Int) :
    List Frame → Nat → St μ → Except Err (Outcome μ)
  | [], cnt, s => .ok (.finished s cnt)
  | f :: rest, cnt, s =>
    if f.fetch > 0 then
      andThen (playFrame impl step f s) fun r =>
        let s2 := boundary cmio flags r.2 (peekFetch nxt rest) r.1
        let cnt' := cnt + 1 + (skipZeros rest).1
        if (match stop with | some k => decide (cnt' ≥ k) | none => false) then
          .ok (.stopped s2 cnt' (skipZeros rest).2)
        else playG impl cmio flags step stop nxt rest (cnt + 1) s2
    else playG impl cmio flags step stop nxt rest (cnt + 1) s

/-- `process_block(block, …)` for an input recording block. -/
def playBlock (impl : Impl) (cmio : Bool) (flags : Int) (step : St μ → St μ) (stop : Option Nat) :
    List Frame → Nat → St μ → Except Err (Outcome μ) :=
  playG impl cmio flags step stop (-1)

/-! ### The block loop of `rzxplay.run` -/

/-- A block of the file as `run` sees it after `parse_rzx` (trailing snapshots already popped). -/
inductive Block (μ : Type) where
  /-- snapshot block: the machine state it describes (`Snapshot.get` + `from_snapshot`) -/
  | snap (s : St μ)
  /-- input recording block: initial T-states and frames -/
  | input (tstates : Int) (fs : List Frame)

/-- `RZXContext`: `context.snapshot` (a snapshot waiting to be turned into a simulator),
`context.simulator` (its state, once created), `context.frame_count`. -/
structure Ctx (μ : Type) where
  snapshot : Option (St μ)
  sim : Option (St μ)
  count : Nat

/-- the state the next input block would start from, up to the clock -/
def Ctx.eff {μ : Type} (c : Ctx μ) : Option (St μ) :=
  match c.sim with
  | some s => some s
  | none => c.snapshot

/-- where an input block with initial T-states `ts` starts: the running simulator, or a new one made
from the pending snapshot (`RZXTracer.__init__` sets the clock to the block's T-states) -/
def Ctx.start {μ : Type} (c : Ctx μ) (ts : Int) : Option (St μ) :=
  match c.sim with
  | some s => some s
  | none => c.snapshot.map fun s => { s with t := ts }

inductive FileOutcome (μ : Type) where
  /-- every block processed -/
  | finished (c : Ctx μ)
  /-- `context.stop`: state, frame count, `tracer.frames[tracer.frame_index:]`, the blocks not yet processed -/
  | stopped (s : St μ) (count : Nat) (rest : List Frame) (blocks : List (Block μ))
  /-- an input recording block before any snapshot (`run` raises 'Missing snapshot' for the first block) -/
  | missingSnapshot
  | error (e : Err)

/-- `run`'s `while rzx_blocks: process_block(…)`.  Snapshot block: `if context.snapshot is None or
flags & 4 == 0: context.snapshot = block; context.simulator = None`.  Input block: continue with the
existing simulator, or create one from `context.snapshot` (`RZXTracer.__init__` then sets the clock to
the block's T-states). -/
def playFile (impl : Impl) (cmio : Bool) (flags : Int) (step : St μ → St μ) (stop : Option Nat) :
    List (Block μ) → Ctx μ → FileOutcome μ
  | [], c => .finished c
  | .snap s :: rest, c =>
    if c.snapshot.isNone ∨ PyInt.land flags 4 = 0 then
      playFile impl cmio flags step stop rest { c with snapshot := some s, sim := none }
    else playFile impl cmio flags step stop rest c
  | .input ts fs :: rest, c =>
    match c.start ts with
    | none => .missingSnapshot
    | some s0 =>
      match playBlock impl cmio flags step stop fs c.count s0 with
      | .error e => .error e
      | .ok (.stopped s n rem) => .stopped s n rem rest
      | .ok (.finished s n) => playFile impl cmio flags step stop rest { c with sim := some s, count := n }

/-! ### Recorder -/

/-- Run `n` instructions, adding up the number of M1 cycles `m1 s` of each (what an RZX recorder
logs as the frame's fetch counter), and remembering the address and classification of the last
instruction as seen *before* it executes. -/
def recRun (step : St μ → St μ) (m1 : St μ → Int) : Nat → St μ → Int → Int → Last → St μ × Int × Int × Last
  | 0, s, fc, last, k => (s, fc, last, k)
  | n + 1, s, fc, _, _ => recRun step m1 n (step s) (fc + m1 s) s.pc (classify s.mem s.pc)

/-- Record one frame of `n` instructions with `src` as the values the ports will deliver: the frame
logs the fetch count and exactly the values consumed. -/
def recFrame (step : St μ → St μ) (m1 : St μ → Int) (n : Nat) (src : List Int) (s : St μ) :
    Frame × St μ × Last :=
  let r := recRun step m1 n { s with ins := src } 0 s.pc .other
  (⟨r.2.1, src.take (src.length - r.1.ins.length)⟩, { r.1 with ins := [] }, r.2.2.2)

/-- Record a block: per frame `(n, src, claim)` = number of instructions, port source, and the fetch
counter the recorder expects the *next* frame to have (-1 after the last) - the RZX convention for
playback flag 2 lets the recorder announce a blocked interrupt after EI by making the next frame
short, so the decision and the next frame's length go together. -/
def recBlock (cmio : Bool) (flags : Int) (step : St μ → St μ) (m1 : St μ → Int) :
    List (Nat × List Int × Int) → St μ → List Frame × St μ
  | [], s => ([], s)
  | (n, src, claim) :: rest, s =>
    let r := recFrame step m1 n src s
    let s2 := boundaryK cmio flags r.2.2 claim r.2.1
    let q := recBlock cmio flags step m1 rest s2
    (r.1 :: q.1, q.2)

end Rzx
