import SkoolVerif.Prelude.Machine
/-!
Hand model of the contention helpers of `skoolkit/cmiosimulator.py`:
`DELAYS_48K`, `DELAYS_128K` (built there by loops; here in closed form — the
correspondence check compares all 69888 + 70908 entries on every run),
`contend_48k/128k`, `io_contention_48k/128k`.
-/
namespace Contend
open Z80

def pattern (k : Int) : Int :=
  if k = 0 then 6 else if k = 1 then 5 else if k = 2 then 4 else if k = 3 then 3
  else if k = 4 then 2 else if k = 5 then 1 else 0

/-- `DELAYS_48K[t]`: rows 64..255 of 224 T-states, 16 groups of 8 from `row*224 - 1`. -/
def delays48 (t : Int) : Int :=
  let d := t - (64 * 224 - 1)
  if 0 ≤ d ∧ d / 224 < 192 ∧ d % 224 < 128 ∧ t < 69888 then pattern (d % 8) else 0

/-- `DELAYS_128K[t]`: rows 63..254 of 228 T-states, 16 groups of 8 from `row*228 - 3`. -/
def delays128 (t : Int) : Int :=
  let d := t - (63 * 228 - 3)
  if 0 ≤ d ∧ d / 228 < 192 ∧ d % 228 < 128 ∧ t < 70908 then pattern ((d % 228) % 8) else 0

/-- `contend_48k(t, timings)` -/
def contend48 (t : Int) (timings : List (Int × Int)) : Int :=
  (timings.foldl (fun (acc : Int × Int) (at_ : Int × Int) =>
    let (delay, t) := acc
    let (address, tstates) := at_
    if 0x4000 ≤ address ∧ address < 0x8000 then
      let cd := delays48 t
      (delay + cd, t + cd + tstates)
    else (delay, t + tstates)) (0, t)).1

/-- `contend_128k(t, timings)` with `c = memory.o7ffd % 2` -/
def contend128 (o7ffd : Int) (t : Int) (timings : List (Int × Int)) : Int :=
  let c := o7ffd % 2
  (timings.foldl (fun (acc : Int × Int) (at_ : Int × Int) =>
    let (delay, t) := acc
    let (address, tstates) := at_
    if (0x4000 ≤ address ∧ address < 0x8000) ∨ (c ≠ 0 ∧ address ≥ 0xC000) then
      let cd := delays128 t
      (delay + cd, t + cd + tstates)
    else (delay, t + tstates)) (0, t)).1

/-- `self.contend`: chosen in `CMIOSimulator.__init__` by `len(memory) == 0x20000`. -/
def contend {μ} [MemLike μ] (_cfg : Cfg) (m : μ) (t : Int) (timings : List (Int × Int)) : Int :=
  if MemLike.is128 m then contend128 (MemLike.o7ffd m) t timings else contend48 t timings

def ioContended {μ} [MemLike μ] (m : μ) (port : Int) : Prop :=
  (0x4000 ≤ port ∧ port < 0x8000) ∨ (MemLike.is128 m = true ∧ MemLike.o7ffd m % 2 ≠ 0 ∧ port ≥ 0xC000)

instance {μ} [MemLike μ] (m : μ) (port : Int) : Decidable (ioContended m port) := by
  unfold ioContended; exact inferInstance

/-- `self.io_contention(port)` -/
def io_contention {μ} [MemLike μ] (_cfg : Cfg) (m : μ) (port : Int) : List (Int × Int) :=
  if port % 2 ≠ 0 then
    if ioContended m port then [(0x4000, 1), (0x4000, 1), (0x4000, 1), (0x4000, 1)] else [(0, 4)]
  else
    if ioContended m port then [(0x4000, 1), (0x4000, 3)] else [(0, 1), (0x4000, 3)]


/-- `CMIOSimulator.__init__` + `simutils.from_memory`: frame duration, interrupt length and the
contended window `(t0, t1)` chosen by `len(memory) == 0x20000`. -/
def cfgFor (is128 : Bool) : Cfg :=
  if is128 then { frame_duration := 70908, int_active := 36, t0 := 14361 - 23, t1 := 58035 }
  else { frame_duration := 69888, int_active := 32, t0 := 14335 - 23, t1 := 57245 }

end Contend
