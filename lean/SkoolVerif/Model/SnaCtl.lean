/-!
Hand model of `skoolkit/snactl.py` (the control-file generator behind `sna2ctl.py`).

Every definition mirrors ONE Python function (cited in its doc comment), including quirks and
error branches.  The instruction decoder `opcodes.decode` is *abstract* here: a function
`dec : Nat → Op` giving, for every address, what `next(decode(snapshot, a, a + 1, rst_handler))`
yields (`size`, `max_count`, `op_id`).  The theorems in `Props/C14.lean` therefore hold for
**all** decode streams; the correspondence check feeds the driver the table computed by the real
`decode` (with and without the RST handler) for the generated image.

A Python `dict` of control directives is modelled as an association list kept sorted by key
(`Dict`); `sorted(ctls)` is then just the key list.
-/
namespace SnaCtl

/-- Block directive letters used by the generator (`'U'` = "unknown", internal to the code-map path). -/
inductive Ctl where
  | b | c | i | s | t | U
  deriving DecidableEq, Repr, Inhabited

def Ctl.letter : Ctl → String
  | .b => "b" | .c => "c" | .i => "i" | .s => "s" | .t => "t" | .U => "U"

/-- One item of `opcodes.decode`: `(size, max_count, op_id)`; the address is the index. -/
structure Op where
  size : Nat
  maxCount : Nat
  opId : Nat
  deriving DecidableEq, Repr, Inhabited

/-- `opcodes.END` — the op id shared by RET, JP nn, JR nn, JP (HL/IX/IY), RETI, RETN. -/
def END : Nat := 0x00C9

abbrev Dec := Nat → Op
abbrev Mem := Nat → Nat

/-! ## Python `dict` as a sorted association list -/

abbrev Dict := List (Nat × Ctl)

def keys (d : Dict) : List Nat := d.map Prod.fst

/-- `ctls.get(k)` -/
def dget : Dict → Nat → Option Ctl
  | [], _ => none
  | (k', v) :: r, k => if k = k' then some v else dget r k

/-- `ctls[k] = v` -/
def dset : Dict → Nat → Ctl → Dict
  | [], k, v => [(k, v)]
  | (k', v') :: r, k, v =>
    if k < k' then (k, v) :: (k', v') :: r
    else if k = k' then (k, v) :: r
    else (k', v') :: dset r k v

/-- `del ctls[k]` (only ever executed on present keys) -/
def ddel : Dict → Nat → Dict
  | [], _ => []
  | (k', v') :: r, k => if k = k' then r else (k', v') :: ddel r k

/-- `dict(pairs)` -/
def dictOf (l : List (Nat × Ctl)) : Dict := l.foldl (fun d kv => dset d kv.1 kv.2) []

/-- consecutive pairs `(edges[i], edges[i+1])` -/
def pairs : List Nat → List (Nat × Nat)
  | a :: b :: r => (a, b) :: pairs (b :: r)
  | _ => []

/-! ## `_generate_ctls_without_code_map` -/

/-- Loop state of `_generate_ctls_without_code_map`. `ctls` is the Python list **reversed**
(newest first) so that `ctls[-1]` is the head. `prevOp` is the truthiness of `prev_op`,
`prevB0` is `prev_op_bytes[0]` (0 for `()`; never read then because `prev_max_count` is 0). -/
structure GState where
  ctls : List (Nat × Ctl)
  ctlAddr : Nat
  prevMax : Nat
  prevOpId : Option Nat
  prevOp : Bool
  prevB0 : Nat
  count : Nat
  deriving Repr

def GState.init (start : Nat) : GState :=
  { ctls := [], ctlAddr := start, prevMax := 0, prevOpId := none, prevOp := false, prevB0 := 0, count := 1 }

/-- `_catch_data(ctls, ctl_addr, count, max_count, addr, op_bytes)`; returns the new list and the
new `ctl_addr`. -/
def catchData (ctls : List (Nat × Ctl)) (ctlAddr count maxCount addr b0 : Nat) : List (Nat × Ctl) × Nat :=
  if count ≥ maxCount ∧ maxCount > 0 then
    if ¬ (count = 2 ∧ (b0 = 0x66 ∨ b0 = 0x6E)) then
      (match ctls with
        | (_, .b) :: _ => ctls
        | _ => (ctlAddr, .b) :: ctls,
       addr)
    else (ctls, ctlAddr)
  else (ctls, ctlAddr)

/-- One iteration of the `for addr, size, max_count, op_id, ... in decode(...)` loop. -/
def gstep (mem : Mem) (st : GState) (addr : Nat) (op : Op) : GState :=
  if op.opId = END then
    let r := catchData st.ctls st.ctlAddr st.count st.prevMax addr st.prevB0
    { ctls := (r.2, .c) :: r.1, ctlAddr := addr + op.size,
      prevMax := 0, prevOpId := none, prevOp := false, prevB0 := 0, count := 1 }
  else if some op.opId = st.prevOpId then
    { st with count := st.count + 1,
              prevMax := op.maxCount, prevOpId := some op.opId, prevOp := true, prevB0 := mem addr }
  else if st.prevOp then
    let r := catchData st.ctls st.ctlAddr st.count st.prevMax addr st.prevB0
    { st with ctls := r.1, ctlAddr := r.2, count := 1,
              prevMax := op.maxCount, prevOpId := some op.opId, prevOp := true, prevB0 := mem addr }
  else
    { st with prevMax := op.maxCount, prevOpId := some op.opId, prevOp := true, prevB0 := mem addr }

/-- The `decode(snapshot, start, end)` generator driving the loop: `addr += size` while
`addr < end`. `fuel` bounds the number of instructions (`end - start` suffices when sizes ≥ 1). -/
def gloop (dec : Dec) (mem : Mem) (end_ : Nat) : Nat → Nat → GState → GState
  | 0, _, st => st
  | fuel + 1, addr, st =>
    if addr < end_ then gloop dec mem end_ fuel (addr + (dec addr).size) (gstep mem st addr (dec addr))
    else st

/-- `not ctls or ctls[-1][0] != ctl_addr` (`ctls` reversed) -/
def lastKeyNe : List (Nat × Ctl) → Nat → Bool
  | [], _ => true
  | (k, _) :: _, a => k != a

/-- The list `ctls` just before `ctls = dict(ctls)`, in Python order (oldest first). Includes the
guard `ctl_addr < end and` added by commit fd589c9. -/
def genRaw (dec : Dec) (mem : Mem) (start end_ : Nat) : List (Nat × Ctl) :=
  let st := gloop dec mem end_ (end_ - start) start (GState.init start)
  let ctls :=
    if st.ctlAddr < end_ ∧ lastKeyNe st.ctls st.ctlAddr then
      (st.ctlAddr, Ctl.b) :: st.ctls
    else st.ctls
  ((end_, Ctl.i) :: ctls).reverse

/-- address of the first non-zero byte in `range(a, a + n)` -/
def firstNonzero (mem : Mem) : Nat → Nat → Option Nat
  | _, 0 => none
  | a, n + 1 => if mem a ≠ 0 then some a else firstNonzero mem (a + 1) n

/-- Body of the "mark NOP sequences / zero data blocks" loop for one `(start, end)` pair. -/
def markZeroBlock (mem : Mem) (d : Dict) (se : Nat × Nat) : Dict :=
  if dget d se.1 = some .c then
    match firstNonzero mem se.1 (se.2 - se.1) with
    | some a => dset (dset d se.1 .s) a .c
    | none => dset d se.1 .s
  else if firstNonzero mem se.1 (se.2 - se.1) = none then dset d se.1 .s
  else d

def markZero (mem : Mem) (d : Dict) : Dict := (pairs (keys d)).foldl (markZeroBlock mem) d

def isBS : Ctl → Bool
  | .b => true | .s => true | _ => false

/-- Loop state of "join any adjacent data and zero blocks": `(ctls, prev_addr, prev_ctl)`. -/
def joinStep (st : Dict × Nat × Ctl) (kv : Nat × Ctl) : Dict × Nat × Ctl :=
  if isBS kv.2 ∧ isBS st.2.2 then (ddel (dset st.1 st.2.1 .b) kv.1, st.2.1, st.2.2)
  else (st.1, kv.1, kv.2)

def joinBS (d : Dict) : Dict :=
  match d with
  | [] => []
  | (k0, c0) :: r => (r.foldl joinStep (d, k0, c0)).1

/-- `sna2ctl.Config` as far as the generator reads it. `isText b` is `chr(b) in text_chars`;
`words` are the (already lower-cased) dictionary words as byte strings. -/
structure Cfg where
  isText : Nat → Bool
  minCode : Nat
  minData : Nat
  words : List (List Nat)

/-- `str.lower()` on one Latin-1 character (code point < 256). -/
def lowerByte (b : Nat) : Nat :=
  if (65 ≤ b ∧ b ≤ 90) ∨ (192 ≤ b ∧ b ≤ 222 ∧ b ≠ 215) then b + 32 else b

def isPrefixOf : List Nat → List Nat → Bool
  | [], _ => true
  | _ :: _, [] => false
  | a :: as, b :: bs => a == b && isPrefixOf as bs

/-- `word in text` -/
def isInfixOf (w : List Nat) : List Nat → Bool
  | [] => w.isEmpty
  | b :: bs => isPrefixOf w (b :: bs) || isInfixOf w bs

/-- `_check_text`: whether `(t_start, t_end)` is appended. `text` is in reading order. -/
def checkText (words : List (List Nat)) (minLen : Nat) (text : List Nat) : Bool :=
  decide (text.length ≥ minLen) &&
    (words.isEmpty || words.any (fun w => isInfixOf w (text.map lowerByte)))

/-- The scan loop of `_get_text_blocks`; `run` = `(t_start, text reversed)` of the current run. -/
def textScan (cfg : Cfg) (mem : Mem) (minLen end_ : Nat) :
    Nat → Nat → Option (Nat × List Nat) → List (Nat × Nat) → List (Nat × Nat)
  | 0, _, run, acc =>
    match run with
    | some (ts, txt) => if checkText cfg.words minLen txt.reverse then acc ++ [(ts, end_)] else acc
    | none => acc
  | n + 1, a, run, acc =>
    if cfg.isText (mem a) then
      match run with
      | some (ts, txt) => textScan cfg mem minLen end_ n (a + 1) (some (ts, mem a :: txt)) acc
      | none => textScan cfg mem minLen end_ n (a + 1) (some (a, [mem a])) acc
    else
      match run with
      | some (ts, txt) =>
        textScan cfg mem minLen end_ n (a + 1) none
          (if checkText cfg.words minLen txt.reverse then acc ++ [(ts, a)] else acc)
      | none => textScan cfg mem minLen end_ n (a + 1) none acc

/-- `_get_text_blocks(snapshot, start, end, config, data)` with `minLen` already selected. -/
def textBlocks (cfg : Cfg) (mem : Mem) (minLen start end_ : Nat) : List (Nat × Nat) :=
  if end_ - start ≥ minLen then textScan cfg mem minLen end_ (end_ - start) start none [] else []

/-- `ctls[t_start] = 't'; if t_end < end: ctls[t_end] = 'b'` -/
def applyText (end_ : Nat) (d : Dict) (tb : Nat × Nat) : Dict :=
  let d := dset d tb.1 .t
  if tb.2 < end_ then dset d tb.2 .b else d

/-- Body of the "look for text" loop of the no-code-map generator for one `(start, end)` pair. -/
def textBlockNoMap (cfg : Cfg) (mem : Mem) (d : Dict) (se : Nat × Nat) : Dict :=
  if dget d se.1 = some .b then
    (textBlocks cfg mem cfg.minData se.1 se.2).foldl (applyText se.2) d
  else if dget d se.1 = some .c then
    let tbs := textBlocks cfg mem cfg.minCode se.1 se.2
    match tbs.getLast? with
    | none => d
    | some last =>
      let d := tbs.foldl (applyText se.2) (dset d se.1 .b)
      if last.2 < se.2 then dset d last.2 .c else d
  else d

def textNoMap (cfg : Cfg) (mem : Mem) (d : Dict) : Dict :=
  (pairs (keys d)).foldl (textBlockNoMap cfg mem) d

/-- `_generate_ctls_without_code_map(snapshot, start, end, config, rst_handler)` -/
def genNoMap (dec : Dec) (mem : Mem) (cfg : Cfg) (start end_ : Nat) : Dict :=
  textNoMap cfg mem (joinBS (markZero mem (dictOf (genRaw dec mem start end_))))

/-! ## `_generate_ctls_with_code_map` -/

/-- `read_map`: merging of the sorted executed addresses into `[address, size]` code blocks.
State = blocks reversed. -/
def codeBlockStep (dec : Dec) (bs : List (Nat × Nat)) (a : Nat) : List (Nat × Nat) :=
  match bs with
  | (ba, bl) :: r =>
    if a ≤ ba + bl then
      if a = ba + bl then (ba, bl + (dec a).size) :: r else bs
    else (a, (dec a).size) :: bs
  | [] => [(a, (dec a).size)]

def codeBlocks (dec : Dec) (addresses : List Nat) : List (Nat × Nat) :=
  (addresses.foldl (codeBlockStep dec) []).reverse

/-- Step (1): `ctls = {start: 'U', end: 'i'}` then one `c`/`U` pair per code block. -/
def initMapStep (end_ : Nat) (d : Dict) (bl : Nat × Nat) : Dict :=
  let d := dset d bl.1 .c
  if bl.1 + bl.2 < end_ then dset d (bl.1 + bl.2) .U else d

def initMap (start end_ : Nat) (blocks : List (Nat × Nat)) : Dict :=
  blocks.foldl (initMapStep end_) (dset (dset [] start .U) end_ .i)

/-- Model artefact: the fuel of a loop ran out (never happens when instruction sizes are ≥ 1;
the driver reports it so that the correspondence check would notice). -/
inductive FtErr where
  | fuel
  deriving DecidableEq, Repr

/-- `for a in range(i_addr, address): if a in ctls: next_ctl = ctls[a]; del ctls[a]` -/
def delRange (d : Dict) (nextCtl : Ctl) : Nat → Nat → Dict × Ctl
  | _, 0 => (d, nextCtl)
  | a, n + 1 =>
    match dget d a with
    | some v => delRange (ddel d a) v (a + 1) n
    | none => delRange d nextCtl (a + 1) n

/-- The `while address < end` loop of `_find_terminal_instruction`; `nextCtl` is `next_ctl`. -/
def ftLoop (dec : Dec) (end_ : Nat) (ctl : Option Ctl) :
    Nat → Dict → Ctl → Nat → Except FtErr (Dict × Nat)
  | 0, d, _, address => if address < end_ then .error .fuel else .ok (d, address)
  | fuel + 1, d, nextCtl, address =>
    if address < end_ then
      if address + (dec address).size > end_ then
        -- the instruction straddles `end`: stop here; with `ctl=None` the directives inside the
        -- part of it that lies before `end` are removed first (commit ae2db51)
        match ctl with
        | none => .ok ((delRange d nextCtl address (end_ - address)).1, end_)
        | some _ => .ok (d, end_)
      else
        let address' := address + (dec address).size
        let r := match ctl with
          | none => delRange d nextCtl address (dec address).size
          | some _ => (d, nextCtl)
        if ctl = none ∧ dget r.1 address' = some .c then .ok (r.1, address')
        else if (dec address).opId = END then
          if address' < 65536 ∧ dget r.1 address' = none then
            .ok (dset r.1 address' (ctl.getD r.2), address')
          else .ok (r.1, address')
        else ftLoop dec end_ ctl fuel r.1 r.2 address'
    else .ok (d, address)

/-- `_find_terminal_instruction(snapshot, ctls, start, end, rst_handler, ctl)`.
Returns the updated dict and the returned address. Includes the guard
`if address + size > end: ... return end` (commits 474e06a, ae2db51) and `next_ctl = 'U'`
(commit ead324b). -/
def findTerminal (dec : Dec) (end_ : Nat) (ctl : Option Ctl) (d : Dict) (start : Nat) :
    Except FtErr (Dict × Nat) :=
  ftLoop dec end_ ctl (end_ - start) d .U start

/-- `_get_blocks(ctls)`: `[ctl, start, end]` for every key but the last. -/
def getBlocks : Dict → List (Ctl × Nat × Nat)
  | (k, v) :: (k', v') :: r => (v, k, k') :: getBlocks ((k', v') :: r)
  | _ => []

/-- `list(decode(snapshot, b_start, b_end, rst_handler))[-1][3]`: op id of the last instruction
that *starts* before `b_end`. -/
def lastOpId (dec : Dec) (bEnd : Nat) : Nat → Nat → Nat → Nat
  | 0, _, last => last
  | fuel + 1, a, last => if a < bEnd then lastOpId dec bEnd fuel (a + (dec a).size) (dec a).opId else last

/-- One pass of the `for ctl, b_start, b_end in _get_blocks(ctls)` loop of step (2) over the block
list computed at the start of the pass (it is *not* refreshed while the dict is mutated).
Returns `(dict, done)`. -/
def step2Pass (dec : Dec) (end_ : Nat) : List (Ctl × Nat × Nat) → Dict → Except FtErr (Dict × Bool)
  | [], d => .ok (d, true)
  | (ctl, bs, be) :: rest, d =>
    if ctl = .c then
      if lastOpId dec be (be - bs) bs 0 = END then step2Pass dec end_ rest d
      else
        match findTerminal dec end_ none d be with
        | .error e => .error e
        | .ok (d', a) => if a < end_ then .ok (d', false) else step2Pass dec end_ rest d'
    else step2Pass dec end_ rest d

/-- Step (2): the first `while 1` loop. -/
def step2 (dec : Dec) (end_ : Nat) : Nat → Dict → Except FtErr Dict
  | 0, _ => .error .fuel
  | fuel + 1, d =>
    match step2Pass dec end_ (getBlocks d) d with
    | .error e => .error e
    | .ok (d', true) => .ok d'
    | .ok (d', false) => step2 dec end_ fuel d'

/-- What `snaskool.Disassembly` (the *other* decoder, `skoolkit.disassembler`) contributes per
address: instruction length, the address operand if the operation matches
`SnapshotReferenceOperations`, and the target if it is a `JR`/`JP` whose last five characters
are the digits of an address (step (5) compares `operation[-5:]` with `str(address)`). -/
structure DOp where
  size : Nat
  ref : Option Nat
  jump : Option Nat
  deriving Repr, Inhabited

abbrev Dis := Nat → DOp

/-- addresses of the instructions `Disassembler.disassemble(start, end)` produces -/
def instrAddrs (dis : Dis) (bEnd : Nat) : Nat → Nat → List Nat
  | 0, _ => []
  | fuel + 1, a => if a < bEnd then a :: instrAddrs dis bEnd fuel (a + (dis a).size) else []

/-- does some instruction of the `c` entry `[bs, be)` refer to `u`? -/
def entryRefers (dis : Dis) (bs be u : Nat) : Bool :=
  (instrAddrs dis be (be - bs) bs).any (fun a => (dis a).ref == some u)

/-- first `U` entry (in address order) that a `c` entry refers to, with its end
(`entry.next.address`, or `end` for the last entry — commit 474e06a). -/
def findEntryPoint (dis : Dis) (blocks : List (Ctl × Nat × Nat)) : Option (Nat × Nat) :=
  (blocks.find? (fun b => b.1 = .U ∧
      blocks.any (fun c => c.1 = .c ∧ c.2.1 ≠ b.2.1 ∧ entryRefers dis c.2.1 c.2.2 b.2.1))).map
    (fun b => (b.2.1, b.2.2))

/-- Step (3): the second `while 1` loop. -/
def step3 (dec : Dec) (dis : Dis) : Nat → Dict → Except FtErr Dict
  | 0, _ => .error .fuel
  | fuel + 1, d =>
    match findEntryPoint dis (getBlocks d) with
    | none => .ok d
    | some (u, eEnd) =>
      match findTerminal dec eEnd (some .U) (dset d u .c) u with
      | .error e => .error e
      | .ok (d', _) => step3 dec dis fuel d'

/-- inner `while next_address < b_end` loop of step (4) -/
def step4Split (dec : Dec) (bEnd : Nat) : Nat → Dict → Nat → Except FtErr Dict
  | 0, _, _ => .error .fuel
  | fuel + 1, d, a =>
    if a < bEnd then
      match findTerminal dec bEnd (some .c) d a with
      | .error e => .error e
      | .ok (d', a') => step4Split dec bEnd fuel d' a'
    else .ok d

/-- Step (4): split `c` blocks on RET/JP/JR (block list computed once). -/
def step4 (dec : Dec) : List (Ctl × Nat × Nat) → Dict → Except FtErr Dict
  | [], d => .ok d
  | (ctl, bs, be) :: rest, d =>
    if ctl = .c then
      match step4Split dec be (be - bs + 1) d bs with
      | .error e => .error e
      | .ok d' => step4 dec rest d'
    else step4 dec rest d

/-- does the `c` entry `[bs, be)` contain a `JR`/`JP` to `be` (as step (5) tests it)? -/
def entryJumpsToNext (dis : Dis) (bs be : Nat) : Bool :=
  (instrAddrs dis be (be - bs) bs).any (fun a => (dis a).jump == some be)

/-- One `for entry in disassembly.entries[:-1]` pass of step (5) over the entries of one
`disassembly.build()`. Returns `(dict, done)`. -/
def step5Pass (dis : Dis) : List (Ctl × Nat × Nat) → Dict → Bool → Dict × Bool
  | e :: e' :: rest, d, done =>
    if e.1 = .c ∧ entryJumpsToNext dis e.2.1 e.2.2 then step5Pass dis (e' :: rest) (ddel d e.2.2) false
    else step5Pass dis (e' :: rest) d done
  | _, d, done => (d, done)

/-- Step (5): the third `while 1` loop. -/
def step5 (dis : Dis) : Nat → Dict → Except FtErr Dict
  | 0, _ => .error .fuel
  | fuel + 1, d =>
    let r := step5Pass dis (getBlocks d) d true
    if r.2 then .ok r.1 else step5 dis fuel r.1

/-- Step (6) for one block. -/
def textBlockMap (cfg : Cfg) (mem : Mem) (d : Dict) (b : Ctl × Nat × Nat) : Dict :=
  if b.1 = .U then
    (textBlocks cfg mem cfg.minData b.2.1 b.2.2).foldl (applyText b.2.2) (dset d b.2.1 .b)
  else d

/-- Step (7) for one block (`sum(snapshot[b_start:b_end]) == 0`). -/
def zeroBlockMap (mem : Mem) (d : Dict) (b : Ctl × Nat × Nat) : Dict :=
  if b.1 = .b ∧ firstNonzero mem b.2.1 (b.2.2 - b.2.1) = none then dset d b.2.1 .s else d

/-- Termination measure of step (2): sum of `end - k` over all directive addresses `k`. Every
call of `_find_terminal_instruction` made from a block end deletes the directive there and adds at
most one at a larger address, so the sum drops. (Only used as loop fuel by `genMap`.) -/
def phi (end_ : Nat) (d : Dict) : Nat := ((keys d).map (fun k => end_ - k)).sum

/-- Termination measure of step (3): the same sum over the `U` directives only. -/
def psi (end_ : Nat) (d : Dict) : Nat := ((d.filter (fun kv => kv.2 = .U)).map (fun kv => end_ - kv.1)).sum

/-- `_generate_ctls_with_code_map` given the executed addresses the map reader accepted.
`dec0` is `opcodes.decode` **without** the RST handler (that is how `read_map` sizes the executed
instructions, even under `-r`), `dec` is `opcodes.decode` with the handler the generator was given. -/
def genMap (dec0 dec : Dec) (dis : Dis) (mem : Mem) (cfg : Cfg) (start end_ : Nat) (addresses : List Nat) :
    Except FtErr Dict := do
  let d1 := initMap start end_ (codeBlocks dec0 addresses)
  let d2 ← step2 dec end_ (phi end_ d1 + 1) d1
  let d3 ← step3 dec dis (psi end_ d2 + 1) d2
  let d4 ← step4 dec (getBlocks d3) d3
  let d5 ← step5 dis (d4.length + 1) d4
  let d6 := (getBlocks d5).foldl (textBlockMap cfg mem) d5
  return (getBlocks d6).foldl (zeroBlockMap mem) d6

end SnaCtl
