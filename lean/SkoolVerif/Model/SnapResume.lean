import SkoolVerif.Model.TraceLoop
/-!
Hand model of "write a snapshot at the end of a `trace.py` run and start the next run from it" (C10):

* `snapOf`: `simutils.get_state` → `snapshot.write_snapshot` (`SZX._add_zxstz80regs`,
  `_add_zxstspecregs`, `_add_zxstayblock`; `Z80._set_registers`, `_set_state`) → file →
  `Snapshot.get` (`SZX._read`, `Z80._read`): the attribute values of the `Snapshot` object, as
  integer arithmetic on the values (every `% 256`, `& 3`, quarter-frame encoding etc. that the code applies);
* `startOf`: `simutils.from_snapshot` → `get_registers`, and the start-up part of `trace.run`
  (`border`, `out7ffd`, `outfffd`, `ay`, `outfe`, `memory.out7ffd(out7ffd)`);
* `SnapMem.rebuild`: what `from_snapshot` makes of the saved RAM (48K: ROM file + RAM; 128K:
  `pagingtracer.Memory(banks, out7ffd, machine)`).  The RAM bytes themselves go through the Z80 RLE /
  zlib codecs: C09 (`C09.rle_roundtrip`, `page_block_roundtrip`) proves that transfer lossless, here it
  is the identity on the banks.
-/
namespace SnapResume
open Z80 TraceLoop

inductive Fmt where
  | szx
  | z80
  deriving DecidableEq, Repr

/-- `FRAME_DURATIONS[is128]` -/
def frameOf (is128 : Bool) : Int := if is128 then 70908 else 69888

/-- attribute values of the `Snapshot` object read back from the file -/
structure Snap where
  a : Int
  f : Int
  bc : Int
  de : Int
  hl : Int
  ix : Int
  iy : Int
  sp : Int
  i : Int
  r : Int
  a2 : Int
  f2 : Int
  bc2 : Int
  de2 : Int
  hl2 : Int
  pc : Int
  memptr : Int
  border : Int
  iff1 : Int
  im : Int
  tstates : Int
  halted : Int
  out7ffd : Int
  outfffd : Int
  outfe : Int
  ay : Array Int
  deriving Repr, DecidableEq

/-- SZX, 16-bit register: `z80r[o] = v % 256; z80r[o+1] = (v // 256) % 256`, read by `get_word` -/
def szxWord (v : Int) : Int := v % 256 + 256 * ((v / 256) % 256)
/-- Z80, 16-bit register: `lsb, msb = value % 256, (value & 65535) // 256`, read by `get_word` -/
def z80Word (v : Int) : Int := v % 256 + 256 * ((v % 65536) / 256)

/-- SZX `tstates`: `t % frame` stored in three bytes, read by `get_dword` (4th byte 0) -/
def szxT (fd t : Int) : Int :=
  let t := t % fd
  t % 256 + 256 * ((t / 256) % 256) + 65536 * ((t / 65536) % 256)

/-- Z80 `tstates`: `t = fd - 1 - (v % fd); t1, t2 = t % q, t // q; header[55:58] = (t1 % 256, t1 // 256, (2 - t2) % 4)`
and back: `t1 = (h55 + 256*h56) % q; t2 = (2 - h57) % 4; tstates = fd - 1 - t2*q - t1` -/
def z80T (fd v : Int) : Int :=
  let q := fd / 4
  let t := fd - 1 - (v % fd)
  let t1 := t % q
  let t2 := t / q
  let h55 := t1 % 256
  let h56 := t1 / 256
  let h57 := (2 - t2) % 4
  let r1 := (h55 + 256 * h56) % q
  let r2 := (2 - h57) % 4
  fd - 1 - r2 * q - r1

/-- Z80 `r`: `header[11] = r % 256`, bit 7 (`lsb & 128`, i.e. `lsb ≥ 128`) into bit 0 of `header[12]` (which then also takes the
border in bits 1-3); read: `128 * (header[12] % 2) + header[11] % 128` -/
def z80R (r border : Int) : Int :=
  let h11 := r % 256
  let h12 := (if h11 ≥ 128 then 1 else 0) + (border % 8) * 2
  128 * (h12 % 2) + h11 % 128

/-- Z80 border: `header[12] |= (border & 7) * 2`; read `(header[12] // 2) % 8` -/
def z80Border (r border : Int) : Int :=
  let h11 := r % 256
  let h12 := (if h11 ≥ 128 then 1 else 0) + (border % 8) * 2
  (h12 / 2) % 8

/-- `get_state`'s register pair values -/
def pair (reg : Array Int) (hi lo : Int) : Int := rget reg lo + 256 * rget reg hi

/-- AY state as written and read back.  128K: always (`ay[n]`, `fffd` in `get_state`'s `Memory` branch).
48K: only when one of them is non-zero; otherwise the file has no AY block / a zero header and the
reader's defaults (0, sixteen zeros) apply. -/
def ayOf (is128 : Bool) (tr : Tr) : Int × Array Int :=
  if is128 ∨ tr.outfffd ≠ 0 ∨ tr.ay.any (· ≠ 0) then (tr.outfffd % 256, tr.ay.map (· % 256))
  else (0, Array.replicate 16 0)

/-- what `Snapshot.get` returns for the file `write_snapshot` produced from the state `(s, tr)` -/
def snapOf {μ : Type} [MemLike μ] (fmt : Fmt) (ts : TS μ) : Snap :=
  let s := ts.s
  let tr := ts.tr
  let is128 := MemLike.is128 s.mem
  let fd := frameOf is128
  let reg := s.reg
  let o7 := if is128 then MemLike.o7ffd s.mem % 256 else 0
  let (fffd, ay) := ayOf is128 tr
  match fmt with
  | .szx =>
    { a := rget reg 0 % 256, f := rget reg 1 % 256,
      bc := szxWord (pair reg 2 3), de := szxWord (pair reg 4 5), hl := szxWord (pair reg 6 7),
      ix := szxWord (pair reg 8 9), iy := szxWord (pair reg 10 11), sp := szxWord (rget reg 12),
      i := rget reg 14 % 256, r := rget reg 15 % 256,
      a2 := rget reg 16 % 256, f2 := rget reg 17 % 256,
      bc2 := szxWord (pair reg 18 19), de2 := szxWord (pair reg 20 21), hl2 := szxWord (pair reg 22 23),
      pc := szxWord s.pc, memptr := szxWord s.memptr,
      border := (tr.border % 8) % 8, iff1 := s.iff % 256, im := s.im % 4,
      tstates := szxT fd s.t,
      halted := if s.halt ≠ 0 then 1 else 0,
      out7ffd := o7, outfffd := fffd, outfe := tr.outfe % 256, ay := ay }
  | .z80 =>
    { a := rget reg 0 % 256, f := rget reg 1 % 256,
      bc := z80Word (pair reg 2 3), de := z80Word (pair reg 4 5), hl := z80Word (pair reg 6 7),
      ix := z80Word (pair reg 8 9), iy := z80Word (pair reg 10 11), sp := z80Word (rget reg 12),
      i := rget reg 14 % 256, r := z80R (rget reg 15) tr.border,
      a2 := rget reg 16 % 256, f2 := rget reg 17 % 256,
      bc2 := z80Word (pair reg 18 19), de2 := z80Word (pair reg 20 21), hl2 := z80Word (pair reg 22 23),
      pc := z80Word s.pc, memptr := 0,
      border := z80Border (rget reg 15) tr.border, iff1 := s.iff % 256, im := (s.im % 4) % 4,
      tstates := z80T fd s.t,
      halted := 0,
      out7ffd := o7, outfffd := fffd, outfe := 0, ay := ay }

/-- `from_snapshot` → `get_registers`: slots 0..23 -/
def regsOf (sn : Snap) : Array Int :=
  #[sn.a, sn.f, sn.bc / 256, sn.bc % 256, sn.de / 256, sn.de % 256, sn.hl / 256, sn.hl % 256,
    sn.ix / 256, sn.ix % 256, sn.iy / 256, sn.iy % 256, sn.sp, 0, sn.i, sn.r,
    sn.a2, sn.f2, sn.bc2 / 256, sn.bc2 % 256, sn.de2 / 256, sn.de2 % 256, sn.hl2 / 256, sn.hl2 % 256]

/-- `from_snapshot` + the start-up part of `trace.run`, given the rebuilt memory -/
def startOf {μ : Type} (sn : Snap) (mem : μ) : TS μ :=
  { s := { reg := regsOf sn, mem := mem, pc := sn.pc, t := sn.tstates, iff := sn.iff1, im := sn.im,
           halt := sn.halted, memptr := sn.memptr, ins := [], outs := [], inLog := [] },
    tr := { border := sn.border, outfe := sn.outfe, outfffd := sn.outfffd, ay := sn.ay } }

/-- the memory `from_snapshot` builds from the saved RAM; `roms`: the ROM files; `o`: `snapshot.out7ffd` -/
class SnapMem (μ : Type) where
  rebuild : Array (Array Int) → μ → Int → μ

/-- 48K: `s_memory = [0] * 16384 + ram; s_memory[:len(rom)] = rom` with `ram = memory[0x4000:]` -/
instance : SnapMem Mem48 where
  rebuild roms m _ :=
    let rom := (roms.getD 0 #[]).toList
    let mem := List.replicate 16384 (0 : Int) ++ m.cells.toList.drop 16384
    ⟨(rom ++ mem.drop rom.length).toArray⟩

/-- 128K: `Memory(banks, snapshot.out7ffd, machine)`, then `memory.out7ffd(out7ffd)` and
`Tracer(..., out7ffd, ...)` in `trace.run` -/
instance : SnapMem Mem128 where
  rebuild roms m o := { roms := roms, banks := m.banks, o7ffd := o, trOut7ffd := o }

/-- finish a run, write a snapshot in format `fmt`, start the next run from it -/
def resume {μ : Type} [MemLike μ] [SnapMem μ] (roms : Array (Array Int)) (fmt : Fmt) (ts : TS μ) : TS μ :=
  let sn := snapOf fmt ts
  startOf sn (SnapMem.rebuild roms ts.s.mem sn.out7ffd)

end SnapResume
