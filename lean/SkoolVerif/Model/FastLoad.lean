import SkoolVerif.Prelude.Machine
/-
Hand model of `LoadTracer.fast_load` (skoolkit/loadtracer.py), the shortcut tap2sna takes
whenever the program counter reaches the ROM's LD-BYTES routine at 0x0556: the part that acts
on the simulator (registers, memory) once the next tape block has been selected.  The block
selection (`next_block` bookkeeping on the edge list) and the progress messages are not modelled.

`block` is `data_block.data` (flag byte, data, parity byte) and is non-empty for every block
`get_edges` reports (`block[0]` would raise `IndexError` otherwise; the model reads 0).
-/
namespace FastLoad
open Z80

/-- the `while length:` loop: store to RAM only (`addr > 0x3FFF`), accumulate parity, wrap
the address at 64K.  Returns the memory and the parity. -/
def copyLoop {μ : Type} [MemLike μ] : List Nat → Int → Nat → μ → μ × Nat
  | [], _, p, m => (m, p)
  | b :: bs, addr, p, m =>
    copyLoop bs ((addr + 1) % 65536) (p ^^^ b) (if addr > 16383 then mset m addr (b : Int) else m)

/-- `fast_load(simulator)` from `memory = simulator.memory` on, for a fast-loadable block. -/
def fastLoad {μ : Type} [MemLike μ] (block : List Nat) (s : St μ) : St μ :=
  let r0 := s.reg
  let ix := rget r0 9 + 256 * rget r0 8          -- start address
  let de := rget r0 5 + 256 * rget r0 4          -- block length
  let a := rget r0 0
  let dataLen : Int := (block.length : Int) - 2
  let flag : Nat := block.headD 0
  -- EX AF,AF' (0x0557), DI (0x0559), PUSH 0x053F (0x055E)
  let r1 := rset (rset (rset (rset r0 0 (rget r0 16)) 1 (rget r0 17)) 16 (rget r0 0)) 17 (rget r0 1)
  let sp := (rget r1 12 - 2) % 65536
  let r2 := rset r1 12 sp
  let m1 := if sp > 16383 then mset s.mem sp 0x3F else s.mem
  let sp1 := (sp + 1) % 65536
  let m2 := if sp1 > 16383 then mset m1 sp1 0x05 else m1
  if a ≠ (flag : Int) then
    -- flag byte mismatch: reset ZF, reset CF
    { s with reg := rset (rset r2 1 0) 6 0, mem := m2, iff := 0, pc := 0x05E2 }
  else if de ≤ dataLen then
    let bytes := (block.drop 1).take de.toNat
    let res := copyLoop bytes ix flag m2
    let m3 := res.1
    let a' : Nat := res.2 ^^^ (block.getD (1 + de.toNat) 0)
    let r3 := rset (rset r2 0 (a' : Int)) 1 ((if a' = 1 then 0x40 else 0) + (if a' = 0 then 1 else 0))
    let ix' := ix + de
    let r4 := rset (rset (rset (rset r3 8 ((ix' / 256) % 256)) 9 (ix' % 256)) 4 0) 5 0
    { s with reg := r4, mem := m3, iff := 0, pc := 0x05E2 }
  else
    -- the block is shorter than DE: everything (parity byte included) is loaded, then edge
    -- detection fails: set ZF, reset CF
    let n := dataLen + 1
    let bytes := (block.drop 1).take n.toNat
    let r3 := rset r2 1 0x40
    let m3 := (copyLoop bytes ix flag m2).1
    let ix' := ix + n
    let de' := de - n
    let r4 := rset (rset (rset (rset r3 8 ((ix' / 256) % 256)) 9 (ix' % 256)) 4 ((de' / 256) % 256)) 5 (de' % 256)
    { s with reg := r4, mem := m3, iff := 0, pc := 0x05E2 }

end FastLoad
