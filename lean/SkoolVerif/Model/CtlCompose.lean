/-
Hand model (token level) of the two directions that carry DEFB/DEFM statement
lengths and operand bases through the skool -> ctl -> skool round trip (C03):

* ctl -> skool:  `Disassembler.defb_items` / `get_message` and
  `OperandFormatter._num_str` (skoolkit/disassembler.py)   -> `defbItems`
* skool -> ctl:  `ControlDirectiveComposer._get_defb_defm_length`
  (skoolkit/skoolctl.py)                                   -> `compose`
* ctl -> sublengths: `ctlparser._parse_length` for one composed element
                                                           -> `parseLen`

An operand is a `Tok` (what the text of the operand *is*: a binary/decimal/
hexadecimal/negative number, a string, an inverted character); the text layer
(spelling of the tokens, splitting the operation on unquoted commas) lives in
`CtlText.lean` and is tied to the real functions by correspondence only.
No imports: also used by the line-protocol driver.
-/
namespace CtlCompose

/-- Base letters of the ctl grammar (`ctlparser.BASES`); `n` = DEFAULT_BASE. -/
inductive Base | b | c | d | h | m | n
  deriving DecidableEq, Repr

/-- `asm_hex` of the disassembler configuration (sna2skool -H): how the default
base and the magnitude of negative numbers are written. -/
structure Cfg where
  hex : Bool
  deriving DecidableEq, Repr

/-- One DEFB/DEFM operand as written by sna2skool. -/
inductive Tok
  | blank                       -- the empty operand (`','.join([])`), only produced on overrun
  | bin (v : Nat)               -- %01010101
  | dec (v : Nat)               -- 85
  | hex (v : Nat)               -- $55
  | neg (hx : Bool) (v : Nat)   -- -171 / -$AB (and -0 for a zero byte)
  | str (cs : List Nat)         -- "abc" (character codes)
  | chrHi (c : Nat)             -- "a"+128 / "a"+$80
  deriving DecidableEq, Repr

/-- `OperandFormatter.is_char` -/
def isChar (v : Nat) : Bool := 32 ≤ v && v < 127 && v != 94 && v != 96

/-- `OperandFormatter._num_str(value, 1, base)` (= `format_byte`).  `value & 127`
is `value % 128`; `value & 128` is non-zero iff `(value / 128) % 2 = 1`. -/
def numStr (cfg : Cfg) (base : Base) (value : Nat) : Tok :=
  if base = .c ∧ value < 256 ∧ isChar (value % 128) = true then
    if (value / 128) % 2 = 1 then .chrHi (value % 128) else .str [value % 128]
  else
    match base with
    | .m => .neg cfg.hex (if value = 0 then 0 else 256 - value)      -- `if base == 'm' and value: value = 256 - value`
    | .b => .bin value
    | .d => .dec value
    | .h => .hex value
    | .n => if cfg.hex then .hex value else .dec value
    | .c => if cfg.hex then .hex value else .dec value    -- `base = DEFAULT_BASE`

/-- One iteration of `Disassembler.get_message`; `acc` is `items` reversed.  An
item "starts with a quote" exactly when it is a still-open string. -/
def gmStep (cfg : Cfg) (acc : List Tok) (b : Nat) : List Tok :=
  if isChar b = true then
    match acc with
    | .str cs :: r => .str (cs ++ [b]) :: r
    | _ => .str [b] :: acc
  else numStr cfg .n b :: acc

/-- `Disassembler.get_message`; `none` = the `IndexError` of `items[-1]` on empty data. -/
def getMessage (cfg : Cfg) (data : List Nat) : Option (List Tok) :=
  if data = [] then none else some (data.foldl (gmStep cfg) []).reverse

/-- One sublength of `defb_items`: the `if base == 'c' and size > 1` split. -/
def renderGroup (cfg : Cfg) (base : Base) (size : Nat) (slice : List Nat) : Option (List Tok) :=
  if base = .c ∧ size > 1 then getMessage cfg slice
  else some (if slice = [] then [.blank] else slice.map (numStr cfg base))

/-- The loop of `Disassembler.defb_items`: `i` is the running index into `data`. -/
def defbGroups (cfg : Cfg) (data : List Nat) : Nat → List (Nat × Base) → Option (List (List Tok))
  | _, [] => some []
  | i, (size, base) :: rest =>
    let size := if size = 0 then data.length else size
    match renderGroup cfg base size ((data.drop i).take size) with
    | none => none
    | some g =>
      match defbGroups cfg data (i + size) rest with
      | none => none
      | some gs => some (g :: gs)

/-- `defb_items`: all operands of the statement in order. -/
def defbItems (cfg : Cfg) (data : List Nat) (sl : List (Nat × Base)) : Option (List Tok) :=
  (defbGroups cfg data 0 sl).map List.flatten

/-! ### skool -> ctl -/

/-- What `_get_defb_defm_length` sees of one operand: `_parse_string` gave a
list of `n` bytes, or `None` and `_get_base` gave a base letter. -/
inductive Item
  | str (n : Nat)
  | num (b : Base)
  deriving DecidableEq, Repr

/-- `_parse_string` + `_get_base(item, preserve_base)` on a token's text. -/
def classify (pb : Bool) : Tok → Item
  | .blank => .num .d
  | .bin _ => .num .b
  | .dec _ => .num .d
  | .hex _ => if pb then .num .h else .num .d
  | .neg _ _ => .num .m
  | .str cs => .str cs.length
  | .chrHi _ => .str 1            -- `[eval_int(item)]`

inductive Kind | B | T
  deriving DecidableEq, Repr

/-- An element of the composed sublength string: optional base letter + count. -/
abbrev Seg := Option Base × Nat

/-- `byte_fmt[prev_base]`: FORMAT_PRESERVE_BASE, FORMAT_NO_BASE or the DEFM table. -/
def bytePrefix (kind : Kind) (pb : Bool) (b : Base) : Option Base :=
  if pb then some b else
    match kind, b with
    | .B, .d => none
    | .B, .h => none
    | .B, x => some x
    | .T, .d => some .n
    | .T, .h => some .n
    | .T, x => some x

/-- `text_fmt`: 'c{}' for DEFB, '{}' for DEFM. -/
def textPrefix : Kind → Option Base
  | .B => some .c
  | .T => none

/-- Loop state of `_get_defb_defm_length` (`lengths` reversed). -/
structure CSt where
  lengths : List Seg
  length : Nat
  prev : Option Base
  full : Nat
  deriving Repr

def flushSt (kind : Kind) (pb : Bool) (st : CSt) : CSt :=
  { st with lengths := (bytePrefix kind pb (st.prev.getD .d), st.length) :: st.lengths,
            full := st.full + st.length }

/-- One iteration of `for item in items + ['""']`. -/
def cStep (kind : Kind) (pb : Bool) (st : CSt) (it : Item) : CSt :=
  match it with
  | .str n =>
    let st1 := if st.length ≠ 0 then { flushSt kind pb st with prev := none } else st
    if n ≠ 0 then
      { st1 with lengths := (textPrefix kind, n) :: st1.lengths, full := st1.full + n, length := 0 }
    else { st1 with length := 0 }
  | .num b =>
    let cur := if b = .c then .d else b
    let st1 := if st.prev ≠ some cur ∧ st.length ≠ 0 then { flushSt kind pb st with length := 0 } else st
    { st1 with length := st1.length + 1, prev := some cur }

def cInit : CSt := { lengths := [], length := 0, prev := none, full := 0 }

/-- `_get_defb_defm_length`: (full_length, sublength elements). -/
def compose (kind : Kind) (pb : Bool) (items : List Item) : Nat × List Seg :=
  let st := (items ++ [Item.str 0]).foldl (cStep kind pb) cInit
  (st.full, st.lengths.reverse)

/-! ### ctl -> sublengths -/

/-- `BASE_MAP[ctl]`: the default base of a sublength without prefix. -/
def dflt : Kind → Base
  | .B => .n
  | .T => .c

/-- `_parse_length` on an element `compose` can produce (one optional letter + digits). -/
def parseLen (kind : Kind) (s : Seg) : Nat × Base := (s.2, s.1.getD (dflt kind))

/-- Bytes an operand stands for. -/
def tokBytes : Tok → List Nat
  | .blank => []
  | .bin v => [v]
  | .dec v => [v]
  | .hex v => [v]
  | .neg _ v => [if v = 0 then 0 else 256 - v]
  | .str cs => cs
  | .chrHi c => [c + 128]

end CtlCompose
