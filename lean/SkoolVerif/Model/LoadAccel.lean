import SkoolVerif.Prelude.Machine
import SkoolVerif.Gen.SimTables
/-!
Hand model of the LOAD speed-ups of `skoolkit/loadtracer.py` (core Lean only):

* `ltDEC`, `ltINC0`: the module-level tables `DEC`, `DEC0`, `INC0` (a second copy of the
  simulator's INC/DEC flag tables, used by the accelerators);
* `decAHook`: the closure `LoadTracer.dec_a(...).func` that replaces `opcodes[0x3D]`
  ("DEC A: JR/JP NZ,$-1" delay-loop acceleration);
* `tslLoops` / `tslFfwd`: the fast-forward arithmetic of `_read_port.func` (number of skipped
  iterations of a tape-sampling loop, and the register/clock update);
* `tslIter`: one real iteration of a tape-sampling loop, abstractly (what the accelerator
  claims an iteration does: counter ± 1, flags of INC/DEC, R += loop_r_inc, T += loop_time).

The C re-implementation (`dec_a`, `read_port` in `c/csimulator.c`) is tied to the same model by
correspondence only.
-/
namespace LoadAccel
open Z80

/-- `loadtracer.DEC[c][a]` (`v` ranges over `range(-1, 255)`, so index `a` holds `v = a - 1`). -/
def ltDEC (c a : Int) : Int × Int :=
  let v := a - 1
  (v % 256,
   PyInt.land v 0xA8 + PyInt.p2i (v = 0) * 0x40 + PyInt.p2i (v % 16 = 0x0F) * 0x10
     + PyInt.p2i (v = 0x7F) * 0x04 + 0x02 + c)

/-- `loadtracer.DEC0 = DEC[0]` -/
def ltDEC0 (a : Int) : Int × Int := ltDEC 0 a

/-- `loadtracer.INC0[i]` (`v` ranges over `range(1, 257)`, so index `i` holds `v = i + 1`). -/
def ltINC0 (i : Int) : Int × Int :=
  let v := i + 1
  (v % 256,
   PyInt.land v 0xA8 + PyInt.p2i (v = 256) * 0x40 + PyInt.p2i (v % 16 = 0x00) * 0x10
     + PyInt.p2i (v = 0x80) * 0x04)

/-- Python sequence indexing of a 256-entry tuple: negative indices count from the end,
anything outside `-256 ≤ i < 256` raises `IndexError` (`none`). -/
def pyIndex256 (i : Int) : Option Int :=
  if 0 ≤ i ∧ i < 256 then some i else if -256 ≤ i ∧ i < 0 then some (i + 256) else none

/-- R register after `n` M1 cycles' worth of increments, as the accelerators write it:
`(r & 0x80) + ((r + n) % 128)`. -/
def rAdd (r n : Int) : Int := PyInt.land r 0x80 + (r + n) % 128

section hook
variable {μ : Type} [MemLike μ]

/-- The register/clock update both accelerated branches of `dec_a.func` perform; `tcost a` is
`16 * a - 5` (JR) or `14 * a` (JP), `size` 3 or 4. -/
def decAFfwd (tcost : Int → Int) (size : Int) (s : St μ) : St μ :=
  let pc := s.pc
  let a := if rget s.reg 0 = 0 then 256 else rget s.reg 0
  let regs := rset s.reg 0 0
  let regs := rset regs 1 (0x42 + (rget regs 1) % 2)
  let r := rget regs 15
  let regs := rset regs 15 (rAdd r (a * 2))
  { s with reg := regs, t := s.t + tcost a, pc := (pc + size) % 65536 }

/-- the unaccelerated tail of `dec_a.func`: a plain `DEC A` through `loadtracer.DEC` -/
def decAPlain (s : St μ) : St μ :=
  let pc := s.pc
  let pr := ltDEC ((rget s.reg 1) % 2) (rget s.reg 0)
  let regs := rset s.reg 0 pr.1
  let regs := rset regs 1 pr.2
  let regs := rset regs 15 (Tbl.R1 (rget regs 15))
  { s with reg := regs, t := s.t + 4, pc := (pc + 1) % 65536 }

/-- which branch `dec_a.func` takes -/
inductive DecAKind where | jr | jp | miss | plain
  deriving DecidableEq, Repr

def decAKind (decAJr decAJp : Bool) (s : St μ) : DecAKind :=
  let pc := s.pc
  if s.iff = 0 then
    if decAJr ∧ mget s.mem ((pc + 1) % 65536) = 0x20 ∧ mget s.mem ((pc + 2) % 65536) = 0xFD then .jr
    else if decAJp ∧ mget s.mem ((pc + 1) % 65536) = 0xC2 ∧ mget s.mem ((pc + 2) % 65536) = pc % 256
        ∧ mget s.mem ((pc + 3) % 65536) = pc / 256 then .jp
    else .miss
  else .plain

/-- `LoadTracer.dec_a(dec_a_jr, dec_a_jp).func()`: the replacement for `opcodes[0x3D]`. -/
def decAHook (decAJr decAJp : Bool) (s : St μ) : St μ :=
  match decAKind decAJr decAJp s with
  | .jr => decAFfwd (fun a => 16 * a - 5) 3 s
  | .jp => decAFfwd (fun a => 14 * a) 4 s
  | .miss => decAPlain s
  | .plain => decAPlain s

end hook

/-! ### tape-sampling loop fast-forward (`_read_port.func`, the `ffwd` branch) -/

/-- `loops` as computed by `_read_port` (Python `min`, `//`): `inc` = counter is incremented. -/
def tslLoops (inc : Bool) (nextEdge t loopTime counter : Int) : Int :=
  if inc then min ((nextEdge - t) / loopTime + 1) (255 - counter)
  else min ((nextEdge - t) / loopTime + 1) (max (counter - 1) 0)

/-- Registers the fast-forward writes: (counter, F, R, T); `none` = the table index is out of
range (`IndexError` in Python). Only called when `loops ≠ 0`. -/
def tslFfwd (inc : Bool) (loopTime rInc counter r t loops : Int) : Option (Int × Int × Int × Int) :=
  let idx := if inc then counter + loops - 1 else counter - loops + 1
  match pyIndex256 idx with
  | none => none
  | some i =>
    let pr := if inc then ltINC0 i else ltDEC0 i
    some (pr.1, pr.2, rAdd r (rInc * loops), t + loopTime * loops)

/-- One real iteration of a tape-sampling loop as the `ACCELERATORS` entry describes it:
counter ± 1 with the flags of INC/DEC (carry clear), `rInc` M1 cycles, `loopTime` T-states. -/
def tslIter (inc : Bool) (loopTime rInc : Int) (st : Int × Int × Int × Int) : Int × Int × Int × Int :=
  let (counter, _f, r, t) := st
  let pr := if inc then ltINC0 counter else ltDEC0 counter
  (pr.1, pr.2, rAdd r rInc, t + loopTime)

def iterN {α : Type} (f : α → α) : Nat → α → α
  | 0, x => x
  | n + 1, x => iterN f n (f x)

end LoadAccel
