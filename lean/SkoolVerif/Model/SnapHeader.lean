import SkoolVerif.Prelude.PyInt
/-!
Hand model of the header fields of `skoolkit/snapshot.py` whose encoding is not the identity:
Z80 v3 T-state counters (`Z80._set_state` 'tstates' / `Z80._read`), SZX `dwCyclesStart`
(`SZX._add_zxstz80regs` / `SZX._read`), 16-bit register words, the R register's bit 7 and the border
colour packed into byte 12 of the Z80 header.
-/
namespace SnapHeader
open PyInt

/-- `Z80._set_state` 'tstates': bytes 55, 56, 57 of a version 3 header -/
def z80WriteT (frame tstates : Int) : Int × Int × Int :=
  let q := frame / 4
  let t := frame - 1 - (tstates % frame)
  let t1 := t % q
  let t2 := t / q
  (t1 % 256, t1 / 256, (2 - t2) % 4)

/-- `Z80._read` (version 3) -/
def z80ReadT (frame : Int) (b : Int × Int × Int) : Int :=
  let q := frame / 4
  let t1 := (b.1 + 256 * b.2.1) % q
  let t2 := (2 - b.2.2) % 4
  frame - 1 - t2 * q - t1

/-- `SZX._add_zxstz80regs` 'tstates' (fixed code: reduced modulo the frame duration) -/
def szxWriteT (frame tstates : Int) : Int × Int × Int :=
  let t := tstates % frame
  (t % 256, (t / 256) % 256, (t / 65536) % 256)

/-- `get_dword(block, 29)` with the fourth byte left at 0 -/
def szxReadT (b : Int × Int × Int) : Int := b.1 + 256 * b.2.1 + 65536 * b.2.2

/-- `lsb, msb = value % 256, (value & 65535) // 256` -/
def writeWord (value : Int) : Int × Int := (value % 256, (land value 65535) / 256)
/-- `get_word` -/
def readWord (b : Int × Int) : Int := b.1 + 256 * b.2

/-- `_set_registers` for `r`: byte 11 := lsb; bit 0 of byte 12 := bit 7 of lsb -/
def writeR (h12 value : Int) : Int × Int :=
  let lsb := value % 256
  (lsb, if land lsb 128 ≠ 0 then lor h12 1 else land h12 254)
/-- `self.r = 128 * (header[12] % 2) + (header[11] % 128)` -/
def readR (h11 h12 : Int) : Int := 128 * (h12 % 2) + (h11 % 128)

/-- `_set_state` 'border' -/
def writeBorder (h12 value : Int) : Int := lor (land h12 241) ((land value 7) * 2)
/-- `self.border = (header[12] // 2) % 8` -/
def readBorder (h12 : Int) : Int := (h12 / 2) % 8

/-- `get_dword(block, 29)`: all four bytes -/
def szxReadT4 (b : Int × Int × Int × Int) : Int :=
  b.1 + 256 * b.2.1 + 65536 * b.2.2.1 + 16777216 * b.2.2.2

/-- `SZX._add_zxstz80regs`: `z80r[offset] = value % 256; z80r[offset + 1] = (value // 256) % 256` -/
def szxWriteWord (value : Int) : Int × Int := (value % 256, (value / 256) % 256)

/-- `_set_state` 'im': `header[29] &= 252; header[29] |= value & 3` -/
def writeIm (h29 value : Int) : Int := lor (land h29 252) (land value 3)
/-- `self.im = self.header[29] % 4` -/
def readIm (h29 : Int) : Int := h29 % 4
/-- `_set_state` 'issue2': `header[29] &= 251; header[29] |= (value & 1) * 4` -/
def writeIssue2 (h29 value : Int) : Int := lor (land h29 251) ((land value 1) * 4)
/-- bit 2 of byte 29 (Z80 format description) -/
def readIssue2 (h29 : Int) : Int := (h29 / 4) % 2

end SnapHeader
