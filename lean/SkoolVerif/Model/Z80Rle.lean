/-
Hand model of the Z80-snapshot run-length coder in skoolkit/snapshot.py:
  `Z80._make_z80_ram_block` (encoder loop, state (block, prev_b, count)) and
  `Z80._decompress` (decoder).  Bytes are `Nat`s.  No imports: this file is
  also used by the line-protocol driver.
-/
namespace Z80Rle

/-- Result of `_decompress`: the real code raises `SnapshotError` on
`ED ED 00 xx` and `IndexError` on a truncated `ED ED` token. -/
inductive DecErr | zeroRun | truncated
  deriving DecidableEq, Repr

def okCons (p : List Nat) : Except DecErr (List Nat) → Except DecErr (List Nat)
  | .ok r => .ok (p ++ r)
  | .error e => .error e

/-- `Z80._decompress`. -/
def dec : List Nat → Except DecErr (List Nat)
  | [] => .ok []
  | b :: rest =>
    if b = 237 then
      match rest with
      | [] => .ok [b]                       -- `i < len(ramz)` fails: append(b)
      | c :: rest2 =>
        if c = 237 then
          match rest2 with
          | n :: v :: rest3 =>
            if n = 0 then .error .zeroRun   -- SnapshotError
            else okCons (List.replicate n v) (dec rest3)
          | _ => .error .truncated          -- IndexError
        else okCons [b, c] (dec rest2)
    else okCons [b] (dec rest)

/-- Loop state of `_make_z80_ram_block`: `block`, `prev_b` (`none` = Python
`None`), `count`. -/
structure EncSt where
  block : List Nat
  prev  : Option Nat
  count : Nat
  deriving Repr

def prevVal (p : Option Nat) : Nat := p.getD 0

/-- `(prev_b,) * count` -/
def lits (p : Option Nat) (count : Nat) : List Nat :=
  match p with
  | none => []            -- only ever reached with count = 0
  | some v => List.replicate count v

/-- One iteration of `for b in data:`. -/
def encStep (s : EncSt) (b : Nat) : EncSt :=
  let same : Bool := (s.prev == some b) || s.prev.isNone
  if same && s.count < 255 then
    { s with prev := some b, count := s.count + 1 }     -- `continue`
  else
    let prev : Option Nat := if same then some b else s.prev
    if s.count > 4 || (s.count > 1 && prev == some 237) then
      { block := s.block ++ [237, 237, s.count, prevVal prev], prev := some b, count := 1 }
    else if prev == some 237 then
      { block := s.block ++ [237, b], prev := none, count := 0 }   -- `continue`
    else
      { block := s.block ++ lits prev s.count, prev := some b, count := 1 }

/-- Code after the loop. -/
def encFlush (s : EncSt) : List Nat :=
  if s.count > 4 || (s.count > 1 && s.prev == some 237) then
    s.block ++ [237, 237, s.count, prevVal s.prev]
  else
    s.block ++ lits s.prev s.count

def encInit : EncSt := { block := [], prev := none, count := 0 }

/-- The compressed block body (`block` in the Python source). -/
def enc (data : List Nat) : List Nat := encFlush (data.foldl encStep encInit)

/-- `_make_z80_ram_block(data, page)` for a version 2/3 page. -/
def ramBlockPage (data : List Nat) (page : Nat) : List Nat :=
  let b := enc data
  [b.length % 256, b.length / 256, page] ++ b

/-- `_make_z80_ram_block(data)` for version 1 (end marker appended). -/
def ramBlockV1 (data : List Nat) : List Nat := enc data ++ [0, 237, 237, 0]

/-- Errors of the version 2/3 page reader: `SnapshotError` "Found ED ED 00", `IndexError`
(truncated block header or `ED ED` token), `SnapshotError` "Page … is … bytes". -/
inductive PageErr | zeroRun | truncated | badLength
  deriving DecidableEq, Repr

def pageCons (p : Int × List Nat) :
    Except PageErr (List (Int × List Nat)) → Except PageErr (List (Int × List Nat))
  | .ok r => .ok (p :: r)
  | .error e => .error e

/-- The `while i < len(data)` loop of `Z80._read` (version 2/3) on the bytes after the header:
the `(bank, contents)` assignments `banks[bank] = …` in the order they are made. -/
def readPages (data : List Nat) : Except PageErr (List (Int × List Nat)) :=
  match data with
  | [] => .ok []
  | a :: b :: c :: rest =>
    let length := a + 256 * b
    let bank : Int := (c : Int) - 3
    if length = 65535 then
      let blk := rest.take 16384
      if blk.length ≠ 16384 then .error .badLength
      else pageCons (bank, blk) (readPages (rest.drop 16384))
    else
      match dec (rest.take length) with
      | .error .zeroRun => .error .zeroRun
      | .error .truncated => .error .truncated
      | .ok blk =>
        if blk.length ≠ 16384 then .error .badLength
        else pageCons (bank, blk) (readPages (rest.drop length))
  | _ => .error .truncated
termination_by data.length
decreasing_by all_goals (simp only [List.length_cons, List.length_drop]; omega)

/-- `Z80.data()` for version 2/3: `for bank, data in enumerate(self.memory.banks, 3): if data: …`
(`banks` from index `first`; `None` and empty banks are skipped). -/
def writePages : List (Option (List Nat)) → Nat → List Nat
  | [], _ => []
  | none :: bs, page => writePages bs (page + 1)
  | some d :: bs, page =>
    if d = [] then writePages bs (page + 1) else ramBlockPage d page ++ writePages bs (page + 1)

end Z80Rle
