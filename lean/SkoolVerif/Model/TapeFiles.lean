import SkoolVerif.Model.Edges
/-
Hand models of the TAP and PZX readers and writers in skoolkit/tape.py:
`write_tap`, `parse_tap`, `write_pzx`, `parse_pzx`, `_get_pzx_block`
(the `info` text lines are not modelled; `tapinfo` output is covered end-to-end).

Files are `List Nat` (bytes).  The Python code walks the file with an index `i`;
the model walks the *suffix* `data[i:]` instead (every read of `_get_pzx_block` and
of the `parse_tap` loop is at an index `≥ i`), which is the same computation and makes
structural proofs possible.  Python exceptions are results: `IndexError` (reading
past the end of a truncated file), `ValueError` (`p0, p1 = data[i+14:i+16]` on a short
slice; `bytes()` of a value ≥ 256) and `SkoolKitError('Not a PZX file')`.
-/
namespace TapeFiles
open Edges

inductive Err | index | value | notPzx
  deriving DecidableEq, Repr

/-! ### TAP -/

/-- `write_tap`: `bytes((length % 256, length // 256))` raises `ValueError` for a block
of 65536 bytes or more (and for any element that is not a byte). -/
def writeTap : List (List Nat) → Except Err (List Nat)
  | [] => .ok []
  | d :: rest =>
    if d.length / 256 ≥ 256 || d.any (· ≥ 256) then .error .value
    else match writeTap rest with
      | .ok r => .ok ([d.length % 256, d.length / 256] ++ d ++ r)
      | .error e => .error e

inductive TapWarning | none | extraneous | missing (n : Nat)
  deriving DecidableEq, Repr

structure TapResult where
  blocks : List (Nat × List Nat)      -- (block.number, block.data)
  warning : TapWarning
  deriving DecidableEq, Repr

/-- The `while i + 1 < len(tap)` loop of `parse_tap` on the suffix `rest = tap[i:]`.
`over` is `i - len(tap)` when the previous block's declared length overshot the file
(then `rest = []`).  Returns `(blocks, block_num, len(rest), over)`. -/
def tapLoop (start stop : Int) (skip : List Nat) :
    Nat → List Nat → Nat → List (Nat × List Nat) → List (Nat × List Nat) × Nat × Nat × Nat
  | 0, rest, bn, acc => (acc, bn, rest.length, 0)
  | fuel + 1, rest, bn, acc =>
    match rest with
    | lo :: hi :: body =>
      if (bn : Int) ≥ stop ∧ stop > 0 then (acc, bn, rest.length, 0)
      else
        let blockLen := lo + 256 * hi
        let acc' := if (bn : Int) ≥ start ∧ bn ∉ skip then acc ++ [(bn, body.take blockLen)] else acc
        if blockLen ≤ body.length then tapLoop start stop skip fuel (body.drop blockLen) (bn + 1) acc'
        else (acc', bn + 1, 0, blockLen - body.length)
    | _ => (acc, bn, rest.length, 0)

/-- `parse_tap(tap, start, stop, skip)`. -/
def parseTap (tap : List Nat) (start : Int := 1) (stop : Int := 0) (skip : List Nat := []) : TapResult :=
  let (blocks, bn, remaining, over) := tapLoop start stop skip (tap.length + 1) tap 1 []
  let warning :=
    if (bn : Int) ≠ stop then
      if remaining > 0 then TapWarning.extraneous
      else if over > 0 then TapWarning.missing over
      else TapWarning.none
    else TapWarning.none
  ⟨blocks, warning⟩

/-- The timings `parse_tap` attaches to a block (`None` for an empty block). -/
def tapTimings (data : List Nat) : Option Timings :=
  match data with
  | [] => none
  | b :: _ => some (romTimings b)

/-! ### PZX writer -/

def asDword (n : Nat) : List Nat := [n % 256, (n / 256) % 256, (n / 65536) % 256, (n / 16777216) % 256]

def pzxHeader : List Nat := [80, 90, 88, 84, 2, 0, 0, 0, 1, 0]                         -- b'PZXT\x02\x00\x00\x00\x01\x00'
def pausBytes : List Nat := [80, 65, 85, 83, 4, 0, 0, 0, 0xe0, 0x67, 0x35, 0x00]         -- PAUS 3500000
def pulsData : List Nat := [80, 85, 76, 83, 8, 0, 0, 0, 0x97, 0x8c, 0x78, 0x08, 0x9b, 0x02, 0xdf, 0x02]
def pulsHeader : List Nat := [80, 85, 76, 83, 8, 0, 0, 0, 0x7f, 0x9f, 0x78, 0x08, 0x9b, 0x02, 0xdf, 0x02]

/-- The bytes `write_pzx` emits for block number `i` (0-based). -/
def pzxBlockBytes (i : Nat) (d : List Nat) : Except Err (List Nat) :=
  match d with
  | [] => .error .index                                   -- `data[0]`
  | b0 :: _ =>
    if d.any (· ≥ 256) then .error .value
    else
      .ok ((if i ≠ 0 then pausBytes else []) ++
           (if b0 ≠ 0 then pulsData else pulsHeader) ++
           [68, 65, 84, 65] ++ asDword (d.length + 16) ++ asDword (0x80000000 + d.length * 8) ++
           [177, 3, 2, 2, 87, 3, 87, 3, 174, 6, 174, 6] ++ d)

def pzxBlocksFrom : Nat → List (List Nat) → Except Err (List Nat)
  | _, [] => .ok []
  | i, d :: rest =>
    match pzxBlockBytes i d with
    | .error e => .error e
    | .ok bs => match pzxBlocksFrom (i + 1) rest with
      | .ok r => .ok (bs ++ r)
      | .error e => .error e

/-- `write_pzx(fname, blocks)` (file content). -/
def writePzx (blocks : List (List Nat)) : Except Err (List Nat) :=
  match pzxBlocksFrom 0 blocks with
  | .ok r => .ok (pzxHeader ++ r)
  | .error e => .error e

/-! ### PZX reader -/

/-- `get_word(data, k)` on a suffix: `IndexError` when out of range. -/
def word? (l : List Nat) (k : Nat) : Except Err Nat :=
  match l[k]?, l[k + 1]? with
  | some a, some b => .ok (a + 256 * b)
  | _, _ => .error .index

def dword? (l : List Nat) (k : Nat) : Except Err Nat :=
  match l[k]?, l[k + 1]?, l[k + 2]?, l[k + 3]? with
  | some a, some b, some c, some d => .ok (a + 256 * b + 65536 * c + 16777216 * d)
  | _, _, _, _ => .error .index

/-- The `PULS` loop: `while j < i + 8 + block_len`.  `remaining` is
`i + 8 + block_len - j` (may go negative: a multi-word pulse may straddle the block
end), `rest` is `data[j:]`. -/
def pulsLoop : Nat → Int → List Nat → List (Nat × Nat) → Except Err (List (Nat × Nat))
  | 0, _, _, acc => .ok acc
  | fuel + 1, remaining, rest, acc =>
    if remaining ≤ 0 then .ok acc
    else
      match word? rest 0 with
      | .error e => .error e
      | .ok d0 =>
        -- count = 1; duration = get_word(data, j); j += 2
        let (count, r1) : Nat × (Except Err (Nat × List Nat × Int)) :=
          if d0 > 0x8000 then
            (d0 % 0x8000, match word? rest 2 with
              | .error e => .error e
              | .ok d1 => .ok (d1, rest.drop 4, remaining - 4))
          else (1, .ok (d0, rest.drop 2, remaining - 2))
        match r1 with
        | .error e => .error e
        | .ok (dur, rest2, rem2) =>
          if dur ≥ 0x8000 then
            match word? rest2 0 with
            | .error e => .error e
            | .ok lo => pulsLoop fuel (rem2 - 2) (rest2.drop 2) (acc ++ [(count, (dur % 0x8000) * 65536 + lo)])
          else pulsLoop fuel rem2 rest2 (acc ++ [(count, dur)])

inductive Kind | pzxt | puls | data | paus | brws | stop | other
  deriving DecidableEq, Repr

/-- What `_get_pzx_block` returns, minus the text: block id, `timings`, `tape_data`
(`none` = Python `None`), `standard`, `block_data`. -/
structure PzxBlock where
  kind : Kind
  timings : Option Timings
  tapeData : Option (List Nat)
  standard : Bool
  blockData : Option (List Nat)
  deriving DecidableEq, Repr

def kindOf (id : List Nat) : Kind :=
  if id = [80, 90, 88, 84] then .pzxt
  else if id = [80, 85, 76, 83] then .puls
  else if id = [68, 65, 84, 65] then .data
  else if id = [80, 65, 85, 83] then .paus
  else if id = [66, 82, 87, 83] then .brws
  else if id = [83, 84, 79, 80] then .stop
  else .other

/-- `tuple(get_word(data, k) for k in range(j, j + 2 * n, 2))` -/
def words? (l : List Nat) (j : Nat) : Nat → Except Err (List Nat)
  | 0 => .ok []
  | n + 1 =>
    match word? l j with
    | .error e => .error e
    | .ok w =>
      match words? l (j + 2) n with
      | .error e => .error e
      | .ok ws => .ok (w :: ws)

def romPulses (p : List (Nat × Nat)) : Bool :=
  p == [(3223, 2168), (1, 667), (1, 735)] || p == [(8063, 2168), (1, 667), (1, 735)]

/-- The `DATA` branch of `_get_pzx_block`; `body = data[i + 8:]`. -/
def dataBlock (body : List Nat) (prevRomPilot : Bool) : Except Err PzxBlock :=
  match dword? body 0 with
  | .error e => .error e
  | .ok count =>
    let bits := count % 0x80000000
    let polarity := count / 0x80000000
    let numBytes := bits / 8
    let usedBits := if bits % 8 ≠ 0 then bits % 8 else 8
    match word? body 4 with
    | .error e => .error e
    | .ok tail =>
      match body[6]?, body[7]? with
      | some p0, some p1 =>
        match words? body 8 p0 with
        | .error e => .error e
        | .ok s0 =>
          match words? body (8 + 2 * p0) p1 with
          | .error e => .error e
          | .ok s1 =>
            let tapeData := (body.drop (8 + 2 * p0 + 2 * p1)).take (numBytes + (if usedBits < 8 then 1 else 0))
            let standard := prevRomPilot && p0 == 2 && p1 == 2 && s0 == [855, 855] && s1 == [1710, 1710]
            .ok ⟨.data, some { zero := s0, one := s1, usedBits := usedBits, tail := tail,
                               polarity := some polarity }, some tapeData, standard, none⟩
      | _, _ => .error .value          -- `p0, p1 = data[i + 14:i + 16]`

/-- `_get_pzx_block(data, i, block_num, prev_rom_pilot)` on `rest = data[i:]`:
returns `(data[i + 8 + block_len:], block, rom_pilot)`. -/
def getPzxBlock (rest : List Nat) (prevRomPilot : Bool) : Except Err (List Nat × PzxBlock × Bool) :=
  match dword? rest 4 with
  | .error e => .error e
  | .ok blockLen =>
    let kind := kindOf (rest.take 4)
    let body := rest.drop 8
    let next := rest.drop (8 + blockLen)
    match kind with
    | .pzxt =>
      -- data[i + 8], data[i + 9], then data[j] for j in i+10 … i+8+block_len-1
      if body.length < 2 ∨ body.length < blockLen then .error .index
      else .ok (next, ⟨kind, none, none, false, none⟩, false)
    | .puls =>
      match pulsLoop (blockLen + 1) blockLen body [] with
      | .error e => .error e
      | .ok pulses =>
        let romPilot := romPulses pulses
        let (pulses', pol) :=
          match pulses with
          | (c, d) :: tl => if c % 2 ≠ 0 ∧ d = 0 then (tl, 1) else (pulses, 0)
          | [] => (pulses, 0)
        .ok (next, ⟨kind, some { pulses := pulses', polarity := some pol }, none, false, none⟩, romPilot)
    | .data =>
      match dataBlock body prevRomPilot with
      | .error e => .error e
      | .ok blk => .ok (next, blk, false)
    | .paus =>
      match dword? body 0 with
      | .error e => .error e
      | .ok duration =>
        .ok (next, ⟨kind, some { pause := duration % 0x80000000, polarity := some (duration / 0x80000000) },
                    none, false, none⟩, false)
    | .brws => .ok (next, ⟨kind, none, none, false, none⟩, false)
    | .stop =>
      match word? body 0 with
      | .error e => .error e
      | .ok _ => .ok (next, ⟨kind, none, none, false, some (body.take blockLen)⟩, false)
    | .other => .ok (next, ⟨kind, none, none, false, none⟩, false)

/-- The `while i < len(pzx)` loop of `parse_pzx`. -/
def pzxLoop (start stop : Int) (skip : List Nat) :
    Nat → List Nat → Nat → Bool → List (Nat × PzxBlock) → Except Err (List (Nat × PzxBlock))
  | 0, _, _, _, acc => .ok acc
  | fuel + 1, rest, bn, romPilot, acc =>
    if rest = [] then .ok acc
    else if (bn : Int) ≥ stop ∧ stop > 0 then .ok acc
    else
      match getPzxBlock rest romPilot with
      | .error e => .error e
      | .ok (next, blk, rp) =>
        let acc' := if (bn : Int) ≥ start ∧ bn ∉ skip then acc ++ [(bn, blk)] else acc
        pzxLoop start stop skip fuel next (bn + 1) rp acc'

/-- `parse_pzx(pzx, start, stop, skip)` → `[(block.number, block)]`. -/
def parsePzx (pzx : List Nat) (start : Int := 1) (stop : Int := 0) (skip : List Nat := []) :
    Except Err (List (Nat × PzxBlock)) :=
  if pzx.take 4 ≠ [80, 90, 88, 84] then .error .notPzx
  else pzxLoop start stop skip (pzx.length + 1) pzx 1 false []

end TapeFiles
