/-
Hand model of the tile-level graphics code:
  skoolkit/graphics.py  `FLIP`, `Udg.flip`, `Udg._rotate_tile`, `Udg.rotate`,
                        `flip_udgs`, `rotate_udgs`
  skoolkit/image.py     `NoMask.apply`, `OrAndMask.apply`, `AndOrMask.apply`,
                        `OrAndMask.colours`, `AndOrMask.colours`,
                        `ImageWriter.get_attr_map`
  and the colour-swap formula used by `Frame.swap_colours` /
  `PngWriter._build_image_data`.
Bytes are `Nat`s (`udg.data` / `udg.mask` hold values 0..255: every constructor
in skoolkit reads them from a snapshot or reduces them `% 256`).
No imports: this file is also used by the line-protocol driver.
-/
namespace ZxTile

/-- `skoolkit.graphics.Udg`. -/
structure Udg where
  attr : Nat
  data : List Nat
  mask : Option (List Nat) := none
  deriving DecidableEq, Repr

/-- `if udg.mask:` -- `None` and an empty list are both falsy. -/
def Udg.maskRows (u : Udg) : Option (List Nat) :=
  match u.mask with
  | some (b :: t) => some (b :: t)
  | _ => none

/-! ### Masks (`image.py`) -/

/-- The `while udg_byte:` loop of `NoMask.apply`.  First argument: `index + 1`
(the loop cannot run more than 8 times for a byte). -/
def noMaskLoop {α : Type} (ink : α) : Nat → Nat → List α → List α
  | 0, _, px => px
  | n + 1, b, px =>
    if b = 0 then px
    else noMaskLoop ink n (b / 2) (if b &&& 1 ≠ 0 then px.set n ink else px)

/-- The `while mask_byte:` loop of `OrAndMask.apply`. -/
def orAndLoop {α : Type} (ink trans : α) : Nat → Nat → Nat → List α → List α
  | 0, _, _, px => px
  | n + 1, u, m, px =>
    if m = 0 then px
    else orAndLoop ink trans n (u / 2) (m / 2)
      (if m &&& 1 ≠ 0 then (if u &&& 1 ≠ 0 then px.set n ink else px.set n trans) else px)

/-- The `while udg_byte or mask_byte:` loop of `AndOrMask.apply`. -/
def andOrLoop {α : Type} (ink trans : α) : Nat → Nat → Nat → List α → List α
  | 0, _, _, px => px
  | n + 1, u, m, px =>
    if u = 0 ∧ m = 0 then px
    else andOrLoop ink trans n (u / 2) (m / 2)
      (if u &&& 1 ≠ 0 then px.set n ink else if m &&& 1 ≠ 0 then px.set n trans else px)

/-- Keys of `ImageWriter.masks`. -/
inductive MaskKind | noMask | orAnd | andOr
  deriving DecidableEq, Repr

def MaskKind.ofNat? : Nat → Option MaskKind
  | 0 => some .noMask
  | 1 => some .orAnd
  | 2 => some .andOr
  | _ => none

/-- `mask.apply(udg, row, paper, ink, trans)` for the three mask classes. -/
def applyMask {α : Type} (k : MaskKind) (u : Udg) (row : Nat) (paper ink trans : α) : List α :=
  let udgByte := u.data.getD row 0
  let px := List.replicate 8 paper
  match k with
  | .noMask => noMaskLoop ink 8 udgByte px
  | .orAnd =>
    let maskByte := match u.maskRows with
      | some m => m.getD row 0
      | none => udgByte
    orAndLoop ink trans 8 udgByte maskByte px
  | .andOr =>
    let maskByte := match u.maskRows with
      | some m => m.getD row 0
      | none => udgByte
    andOrLoop ink trans 8 udgByte maskByte px

/-- `mask.colours(patterns, paper, ink, trans)` as the 4-tuple indexed by
`2*udg_bit + mask_bit` (only `OrAndMask` and `AndOrMask` have this method). -/
def maskColours {α : Type} (k : MaskKind) (paper ink trans : α) : List α :=
  match k with
  | .orAnd => [paper, trans, paper, ink]
  | .andOr => [paper, trans, ink, ink]
  | .noMask => []      -- AttributeError in the real code; never called

/-! ### Attributes -/

/-- `ImageWriter.get_attr_map()[attr]` = `(paper, ink)` palette slots. -/
def attrIndex (attr : Nat) : Nat × Nat :=
  if attr &&& 64 ≠ 0 then
    let ink := 8 + (attr &&& 7)
    let paper := 8 + (attr &&& 56) / 8
    (if paper = 8 then 1 else paper, if ink = 8 then 1 else ink)
  else
    (1 + (attr &&& 56) / 8, 1 + (attr &&& 7))

/-- `new_attr = (attr & 192) + (attr & 7) * 8 + (attr & 56) // 8`. -/
def swapAttr (attr : Nat) : Nat := (attr &&& 192) + (attr &&& 7) * 8 + (attr &&& 56) / 8

/-! ### Flip / rotate (`graphics.py`) -/

/-- The literal `FLIP` table. -/
def FLIP : Array Nat := #[
  0, 128, 64, 192, 32, 160, 96, 224, 16, 144, 80, 208, 48, 176, 112, 240,
  8, 136, 72, 200, 40, 168, 104, 232, 24, 152, 88, 216, 56, 184, 120, 248,
  4, 132, 68, 196, 36, 164, 100, 228, 20, 148, 84, 212, 52, 180, 116, 244,
  12, 140, 76, 204, 44, 172, 108, 236, 28, 156, 92, 220, 60, 188, 124, 252,
  2, 130, 66, 194, 34, 162, 98, 226, 18, 146, 82, 210, 50, 178, 114, 242,
  10, 138, 74, 202, 42, 170, 106, 234, 26, 154, 90, 218, 58, 186, 122, 250,
  6, 134, 70, 198, 38, 166, 102, 230, 22, 150, 86, 214, 54, 182, 118, 246,
  14, 142, 78, 206, 46, 174, 110, 238, 30, 158, 94, 222, 62, 190, 126, 254,
  1, 129, 65, 193, 33, 161, 97, 225, 17, 145, 81, 209, 49, 177, 113, 241,
  9, 137, 73, 201, 41, 169, 105, 233, 25, 153, 89, 217, 57, 185, 121, 249,
  5, 133, 69, 197, 37, 165, 101, 229, 21, 149, 85, 213, 53, 181, 117, 245,
  13, 141, 77, 205, 45, 173, 109, 237, 29, 157, 93, 221, 61, 189, 125, 253,
  3, 131, 67, 195, 35, 163, 99, 227, 19, 147, 83, 211, 51, 179, 115, 243,
  11, 139, 75, 203, 43, 171, 107, 235, 27, 155, 91, 219, 59, 187, 123, 251,
  7, 135, 71, 199, 39, 167, 103, 231, 23, 151, 87, 215, 55, 183, 119, 247,
  15, 143, 79, 207, 47, 175, 111, 239, 31, 159, 95, 223, 63, 191, 127, 255]

/-- `FLIP[b]` (IndexError for `b > 255`, which a byte never is). -/
def flipByte (b : Nat) : Nat := FLIP.getD b 0

/-- Horizontal / vertical flip of one 8-byte tile as `Udg.flip` does it. -/
def flipTile (flip : Nat) (t : List Nat) : List Nat :=
  let t1 := if flip &&& 1 ≠ 0 then t.map flipByte else t
  if flip &&& 2 ≠ 0 then t1.reverse else t1

/-- `Udg.flip(flip)`.  `if self.mask:` leaves `None`/`[]` alone, which is what
mapping over the option does. -/
def Udg.flip (u : Udg) (flip : Nat) : Udg :=
  { u with data := flipTile flip u.data, mask := u.mask.map (flipTile flip) }

/-- Inner `for byte in tile_data` loop of `_rotate_tile`, forwards branch. -/
def rotByteFwd (b : Nat) (tile : List Nat) : Nat :=
  tile.foldl (fun r byte => r / 2 + (if byte &&& b ≠ 0 then 128 else 0)) 0

/-- `b = 128; while b: ...; b //= 2` -/
def rotFwdLoop : Nat → Nat → List Nat → List Nat
  | 0, _, _ => []
  | f + 1, b, tile => if b = 0 then [] else rotByteFwd b tile :: rotFwdLoop f (b / 2) tile

/-- Inner loop, backwards branch. -/
def rotByteBwd (b : Nat) (tile : List Nat) : Nat :=
  tile.foldl (fun r byte => r * 2 + (if byte &&& b ≠ 0 then 1 else 0)) 0

/-- `b = 1; while b < 129: ...; b *= 2` -/
def rotBwdLoop : Nat → Nat → List Nat → List Nat
  | 0, _, _ => []
  | f + 1, b, tile => if b < 129 then rotByteBwd b tile :: rotBwdLoop f (b * 2) tile else []

/-- `Udg._rotate_tile(tile_data, backwards)` -/
def rotateTileRaw (tile : List Nat) (backwards : Bool) : List Nat :=
  if backwards then rotBwdLoop 9 1 tile else rotFwdLoop 9 128 tile

/-- What `Udg.rotate(rotate)` does to one tile (data or mask). -/
def rotateTile (rotate : Nat) (t : List Nat) : List Nat :=
  if rotate &&& 1 ≠ 0 then rotateTileRaw t (rotate &&& 2 ≠ 0)
  else if rotate &&& 2 ≠ 0 then flipTile 3 t
  else t

/-- `Udg.rotate(rotate)`.  `_rotate_tile` of an empty mask is not reached in
the real code (`if self.mask:`), so an empty mask is left alone. -/
def Udg.rotate (u : Udg) (rotate : Nat) : Udg :=
  { u with data := rotateTile rotate u.data,
           mask := match u.maskRows with
             | some m => some (rotateTile rotate m)
             | none => u.mask }

/-- `flip_udgs(udgs, flip)`; the `id()` bookkeeping makes every object flip
exactly once, i.e. every position holds the flipped value of what it held. -/
def flipUdgs (udgs : List (List Udg)) (flip : Nat) : List (List Udg) :=
  if flip = 0 then udgs else
  let a := udgs.map (fun row => row.map (fun u => u.flip flip))
  let b := if flip &&& 1 ≠ 0 then a.map List.reverse else a
  if flip &&& 2 ≠ 0 then b.reverse else b

/-- `max([len(r) for r in udgs])` (ValueError on an empty array is not modelled). -/
def maxLen (udgs : List (List Udg)) : Nat := udgs.foldl (fun m r => max m r.length) 0

/-- `rotate_udgs(udgs, rotate)` -/
def rotateUdgs (udgs : List (List Udg)) (rotate : Nat) : List (List Udg) :=
  if rotate = 0 then udgs else
  let a := udgs.map (fun row => row.map (fun u => u.rotate rotate))
  if rotate &&& 3 = 1 then
    (List.range (maxLen a)).map (fun i => (a.filterMap (fun row => row[i]?)).reverse)
  else if rotate &&& 3 = 2 then
    a.reverse.map List.reverse
  else if rotate &&& 3 = 3 then
    ((List.range (maxLen a)).map (fun i => a.filterMap (fun row => row[i]?))).reverse
  else a

end ZxTile
