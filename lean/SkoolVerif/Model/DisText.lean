import SkoolVerif.Model.OpText
import SkoolVerif.Model.InstrDecode
/-!
The TEXT of one instruction object made by `Disassembler.disassemble(start, end, base)`
(skoolkit/disassembler.py): the table-dependent part of the decoders is `InstrDec.disSym`
(Model/InstrDecode.lean: `no_arg`, `byte_arg`, `word_arg`, `jr_arg`, `rst_arg`, `index`, `index_arg`,
`cb_arg`, `ed_arg`, `dd_arg`, `fd_arg`, `ddcb_arg`, the additional-opcode overlays, `asm_lower`); here the
deferred operand reads are performed and formatted with the real operand formatter model
(`OpText.numStr` = `OperandFormatter._num_str`, `OpText.indexOffset`, `OpText.jrTarget`,
`OpText.defbDir`), for a base indicator of one or two letters:

* `format_byte(v, base)` / `format_word(v, base)` use `base[:1]`;
* `index_arg` uses `base[0]` for the displacement and `base[-1]` for the byte;
* `_defb` (DEFB fallbacks) always uses the default base.

`b1` = first letter, `b2` = last letter of the base indicator (`b1 = b2` for a one-letter indicator).
Core Lean only: this file is also used by the line-protocol driver.
-/
namespace DisText
open OpText InstrDec

/-- the text a template decoder puts into one `{}` field, formatted in base `bs` -/
def holeText (cfg : Cfg) (bs : Base) (mem : Mem) (a : Nat) : SPiece → Txt
  | .lit cs => cs
  | .byteAt off => formatByte cfg (mem ((a + off) % 65536)) bs
  | .wordAt off => formatWord cfg (mem ((a + off) % 65536) + 256 * mem ((a + off + 1) % 65536)) bs
  | .idxAt off => indexOffset cfg (mem ((a + off) % 65536)) bs
  | .const v => formatByte cfg v bs
  | .rstAt => []          -- traceutils only
  | .relAt _ => []        -- traceutils only

/-- a filled template: the first field is formatted with `b1`, any further field with `b2` -/
def piecesText (cfg : Cfg) (b1 b2 : Base) (mem : Mem) (a : Nat) : List SPiece → Txt
  | [] => []
  | .lit cs :: r => cs ++ piecesText cfg b1 b2 mem a r
  | p :: r => holeText cfg b1 mem a p ++ piecesText cfg b2 b2 mem a r

/-- `_defb(a + off, n)`: the DEFB statement of the bytes up to 65536, and their number -/
def defbText (cfg : Cfg) (mem : Mem) (lo hi : Nat) : Txt × Nat :=
  let data := slice mem lo hi
  (defbDir cfg false data [(0, .n)], data.length)

/-- perform the deferred reads of an operation at address `a`: the text and the decoder's length -/
def opText (cfg : Cfg) (b1 b2 : Base) (mem : Mem) (a : Nat) : SOp → Txt × Nat
  | .tmpl ps len => (piecesText cfg b1 b2 mem a ps, len)
  | .defb off n => defbText cfg mem (a + off) (a + off + n)
  | .jr pre post hole off =>
    match jrTarget (a + off) (mem ((a + off + 1) % 65536)) with
    | some t => (if hole then pre ++ formatWord cfg t b1 ++ post else pre, 2)
    | none => defbText cfg mem (a + off) (a + off + 2)

/-- one instruction object made by `Disassembler.disassemble` -/
structure DText where
  text : Txt           -- instruction.operation
  bytes : List Nat     -- instruction.bytes
  variant : Nat        -- instruction.variant
  deriving DecidableEq, Repr

/-- the address advance: the decoder's length plus what its callers add (`length + 1` in `ed_arg`/`dd_arg`),
or the fixed 4 of `ddcb_arg` -/
def opLength (so : SOut) (decoderLength : Nat) : Nat :=
  match so.fixedLen with
  | some n => n
  | none => decoderLength + so.add

/-- the address-dependent part of one iteration of `Disassembler.disassemble` (cf. `InstrDec.finish`) -/
def finishText (cfg : Cfg) (wrap : Bool) (b1 b2 : Base) (mem : Mem) (a : Nat) (so : SOut) : DText :=
  let r := opText cfg b1 b2 mem a so.op
  let length := opLength so r.2
  let variant := so.flags % 2
  if a + length ≤ 65536 then
    { text := r.1, bytes := slice mem a (a + length), variant := variant }
  else if wrap then
    { text := r.1, bytes := slice mem a 65536 ++ slice mem 0 ((a + length) % 65536), variant := variant }
  else
    { text := (defbText cfg mem a 65536).1, bytes := slice mem a 65536, variant := variant }

/-- `Disassembler.disassemble(a, a + 1, base)[0]` for `a < 65536` (no RST handler); `hex` = `asm_hex`,
`c.lower` = `asm_lower`, `c.opts` = the additional-opcode options, `c.wrap` = `wrap` -/
def disText (T : DTables) (c : DCfg) (hex : Bool) (b1 b2 : Base) (mem : Mem) (a : Nat) : Except DErr DText :=
  match disSym T c (mem a) (mem ((a + 1) % 65536)) (mem ((a + 3) % 65536)) with
  | .ok so => .ok (finishText ⟨hex, c.lower⟩ c.wrap b1 b2 mem a so)
  | .error e => .error e

/-! ### the `@bytes` directive written for a variant instruction (skoolkit/snaskool.py) and read back by
`parse_asm_bytes_directive` (skoolkit/skoolutils.py) -/

/-- `','.join(self.byte_fmt.format(b) for b in instruction.bytes)`: `byte_fmt` is `'{}'`, `'${:02X}'` or
`'${:02x}'`, i.e. `format_byte(b, DEFAULT_BASE)` -/
def bytesDirective (cfg : Cfg) (bs : List Nat) : Txt := joinSep 44 (bs.map (fun b => formatByte cfg b .n))

end DisText
