/-
Hand model of the statement-length bookkeeping on both sides of the
skool -> ctl -> skool round trip (C03):

* `skoolctl.get_lengths`            -> `getLengths`   ('16,16,16,8' -> '16*3,8')
* `ctlparser.parse_params` ('*')    -> `expand`
* `CtlWriter.write_sub_block` (B/S/T/W branch: pop trailing duplicates)
                                    -> `trimTail`
* `CtlParser.parse_ctls` (address bookkeeping of the sublength list) +
  `Disassembly._create_entries` (the `while address < sub_block.end` loop that
  re-uses the last sublength for all remaining data)
                                    -> `layout`
* `CtlWriter.write_sub_block` ('C' branch: merging by operand bases, trimming
  base-less ends)                   -> `cMerge`, `cTrim`

The element type `α` stands for one statement's sublength specification (in
the real code the string 'd8', '1:c2', ...).  No imports: also used by the
line-protocol driver.
-/
namespace CtlLengths

variable {α : Type} [DecidableEq α]

/-- One iteration of the first loop of `get_lengths`.  The Python list
`lengths` is kept reversed (head = `lengths[-1]`); `prev` always equals
`lengths[-1][0]`, so it is not stored separately. -/
def glStep (acc : List (α × Nat)) (x : α) : List (α × Nat) :=
  match acc with
  | (y, n) :: r => if x = y then (y, n + 1) :: r else (x, 1) :: (y, n) :: r
  | [] => [(x, 1)]

/-- `get_lengths` up to the final string formatting: `(length, mult)` pairs;
`mult = 1` is printed as `length`, otherwise as `length*mult`. -/
def getLengths (xs : List α) : List (α × Nat) := (xs.foldl glStep []).reverse

/-- `parse_params`: `int_params += (_parse_sublengths(n, ...),) * get_int_param(m)`. -/
def expand : List (α × Nat) → List α
  | [] => []
  | (a, n) :: r => List.replicate n a ++ expand r

/-- `while len(sublengths) > 1 and sublengths[-1] == sublengths[-2]: sublengths.pop()`
on the reversed list. -/
def trimRev : List α → List α
  | a :: b :: r => if a = b then trimRev (b :: r) else a :: b :: r
  | l => l

def trimTail (xs : List α) : List α := (trimRev xs.reverse).reverse

/-- The `while address < sub_block.end:` loop of `Disassembly._create_entries`
for one sub-block of `span` bytes whose sublength specification `s` denotes
statements of `len` bytes: one statement per iteration, `address += length`.
`fuel` bounds the iterations (the real loop does not terminate for `len = 0`
only when the span is positive; there `length` is replaced by the span). -/
def fill (len : Nat) (s : α) : Nat → Nat → List α
  | 0, _ => []
  | fuel + 1, span => if span = 0 then [] else s :: fill len s fuel (span - len)

/-- `if sublengths[0][0]: length = ... else: length = sub_block.end - sub_block.start`, then the loop. -/
def fillBlock (len : Nat) (s : α) (span : Nat) : List α :=
  fill (if len = 0 then span else len) s span span

/-- `parse_ctls`: the i-th sublength specification starts a sub-block at
`start + Σ_{j<i} len_j`; the next specification (or the end of the directive,
`start + total`) ends it; `_create_entries` then fills each sub-block. -/
def layout (len : α → Nat) : Nat → List α → List α
  | _, [] => []
  | total, [s] => fillBlock (len s) s total
  | total, s :: t :: r => fillBlock (len s) s (len s) ++ layout len (total - len s) (t :: r)

def total (len : α → Nat) (xs : List α) : Nat := (xs.map len).sum

/-! ### 'C' sub-blocks: sublengths by operand bases -/

/-- The loop over `instructions` in the 'C' branch of `write_sub_block`:
`instrs` are `(bases, size)` pairs (size = address difference to the next
instruction); the accumulator is reversed. -/
def cStep (acc : List (α × Nat)) (i : α × Nat) : List (α × Nat) :=
  if i.2 > 0 then
    match acc with
    | (b, n) :: r => if i.1 = b then (b, n + i.2) :: r else (i.1, i.2) :: (b, n) :: r
    | [] => [(i.1, i.2)]
  else acc

def cMerge (instrs : List (α × Nat)) : List (α × Nat) := (instrs.foldl cStep []).reverse

/-- Per-byte view of a sublength list. -/
def bytesOf : List (α × Nat) → List α
  | [] => []
  | (b, n) :: r => List.replicate n b ++ bytesOf r

/-- `if not any(comment) and len(sublengths) > 1 and entry_ctl == 'c'`: drop a
base-less last element, then a base-less first element (advancing the
address).  `none` = the empty base string.  Returns (address offset, list). -/
def cTrim (sl : List (Option α × Nat)) : Nat × List (Option α × Nat) :=
  if sl.length > 1 then
    let sl1 := match sl.reverse with
      | (none, _) :: r => r.reverse
      | _ => sl
    match sl1 with
    | (none, n) :: r => (n, r)
    | _ => (0, sl1)
  else (0, sl)

end CtlLengths
