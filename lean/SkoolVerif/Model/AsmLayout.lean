/-
Hand models of the two independent implementations of `@*sub` / `@*fix` instruction handling (C04):

* `skool2bin.BinWriter`: `_parse_skool` (per block), `_parse_instruction`, `_add_instructions`,
  `_get_size`, the `@org` and `@*sub=!range` branches of `_parse_asm_directive`      → `binLayout`
* `skoolparser`: `SkoolParser._parse_skool` (instruction lines), `Mode.apply_asm_directives`,
  `Mode.compose_instructions`, `Mode.process_instruction`, `SkoolEntry.add_instruction`,
  the `@org` / `!range` branches of `SkoolParser._parse_asm_directive`               → `parBlocks`
* `skoolasm.AsmWriter.write` (ORG line from `entry.instructions[0].org`, instructions in order)
  followed by what any assembler does with that text (sequential placement)          → `asmWrite`

Operations are abstract (`Op`) with a size function (`size op = 0` ⇔ the operation cannot be
assembled, as `Assembler.get_size` reports).  The input is the list of blocks `read_skool` yields for
the mode in force; each line carries the directive list `self.subs[max(self.subs)]` that wins for it
(see `Model/AsmModes.lean`), already split by `parse_asm_sub_fix_directive` into flags and operation
(labels and comments do not influence the layout and are not modelled).

Not modelled: the `start`/`end` window of `BinWriter` (defaults: everything), `@bytes` (size =
`len(bvalues)`), the DJNZ/JR special case of `_get_size` (sizes are address independent here),
`@if`, `@bank`, the start and end options.  Core Lean only (the driver imports this file).
-/
namespace AsmLayout

/-- `skoolutils.Flags` (prefix characters `>`, `/`, `|`, `+`). -/
structure Flags where
  prepend : Bool
  final : Bool
  overwrite : Bool
  append : Bool
  deriving DecidableEq, Repr, Inhabited

/-- `parse_asm_sub_fix_directive(d)[::2]`: flags and operation (`none` = empty text). -/
structure SubDir (Op : Type) where
  flags : Flags
  op : Option Op
  deriving Repr

/-- An instruction line of a skool file in the mode in force. -/
structure Line (Op : Type) where
  /-- the address field (`none`: an address-less line, e.g. inside `@rsub+begin`) -/
  sa : Option Nat
  /-- the operation text (`none` = empty) -/
  op : Option Op
  /-- the winning directive list `self.subs[max(self.subs)]` -/
  subs : List (SubDir Op)
  deriving Repr

inductive Item (Op : Type)
  /-- `@org` (`none`) / `@org=v` -/
  | org (v : Option Nat)
  /-- `@*sub=!lo-hi` of a selected class: `removed.update(range(lo, hi + 1))` -/
  | remove (lo hi : Nat)
  | line (l : Line Op)
  deriving Repr

/-- One entry block as yielded by `read_skool`. -/
abbrev Block (Op : Type) := List (Item Op)

inductive Err
  | assemble          -- SkoolParsingError "Failed to assemble" / assembler cannot assemble
  | noAddress         -- BinWriter: no address known for an address-less line (TypeError)
  | cannotDetermine   -- SkoolParsingError "Cannot determine address of instruction after ..."
  | indexError        -- SkoolEntry.add_instruction(insert=True) on an empty entry
  | typeError         -- Mode.process_instruction: overwrite by an instruction without address
  | noOrg             -- assembling: instruction before any ORG
  | badOrg            -- assembling: ORG operand is not a number
  deriving DecidableEq, Repr

/-- `range(lo, lo + n)` as a list. -/
def rangeL (lo n : Nat) : List Nat := (List.range n).map (lo + ·)

/-- `skool_address in removed` (an address-less line, `None`, is never in the set). -/
def isRemoved (removed : List Nat) (sa : Option Nat) : Bool :=
  match sa with
  | some a => removed.contains a
  | none => false

/-! ### skool2bin.BinWriter -/

structure BinSt (Op : Type) where
  /-- `address` in `_parse_skool` (`None` before the first instruction / after a bare `@org`) -/
  addr : Option Nat
  /-- `removed` (a set in Python; only membership is used) -/
  removed : List Nat
  /-- `self.instructions` over all entries: (real_address, operation) -/
  out : List (Nat × Op)
  /-- `self.address_map` (skool address ↦ real address; `setdefault`: first binding wins) -/
  amap : List (Nat × Nat)

/-- `dict.setdefault` for a key that may be `None` (a `None` key is never looked up). -/
def setdefault (m : List (Nat × Nat)) (k : Option Nat) (v : Nat) : List (Nat × Nat) :=
  match k with
  | none => m
  | some k => if m.any (fun p => p.1 == k) then m else m ++ [(k, v)]

/-- `_get_size`: size the operation, record the overwritten skool addresses, append the
instruction; returns the next address.  `rstart` is `address + offset`. -/
def binEmit {Op : Type} (size : Op → Nat) (st : BinSt Op) (a : Nat) (op : Op) (ow : Bool) (rstart : Nat) :
    Except Err (Nat × BinSt Op) :=
  if size op = 0 then .error .assemble
  else .ok (a + size op,
    { st with removed := if ow then st.removed ++ rangeL rstart (size op) else st.removed,
              out := st.out ++ [(a, op)] })

/-- `for operation in before: address += self._get_size(operation, address, '>')` -/
def binBefore {Op : Type} (size : Op → Nat) : BinSt Op → Nat → List Op → Except Err (Nat × BinSt Op)
  | st, a, [] => .ok (a, st)
  | st, a, op :: ops =>
    match binEmit size st a op false 0 with
    | .error e => .error e
    | .ok (a', st') => binBefore size st' a' ops

/-- `for overwrite, operation, append in after: if operation: address += _get_size(..., '+', overwrite, removed, offset)`;
`address + offset = rb + (address - a1)`. -/
def binRest {Op : Type} (size : Op → Nat) (a1 rb : Nat) : BinSt Op → Nat → List (Bool × Option Op) → Except Err (Nat × BinSt Op)
  | st, a, [] => .ok (a, st)
  | st, a, (_, none) :: r => binRest size a1 rb st a r
  | st, a, (ow, some op) :: r =>
    match binEmit size st a op ow (rb + (a - a1)) with
    | .error e => .error e
    | .ok (a', st') => binRest size a1 rb st' a' r

/-- The current instruction and the remaining `after` list (`_add_instructions`, middle part). -/
def binCur {Op : Type} (orig : Option Op) (after : List (SubDir Op)) : (Bool × Option Op) × List (SubDir Op) :=
  match after with
  | [] => ((false, orig), [])
  | s :: r =>
    if s.flags.append then ((false, orig), s :: r)
    else ((s.flags.overwrite, if s.op.isSome then s.op else orig), r)

/-- `BinWriter._add_instructions(address, skool_address, operations, original_op, removed)`. -/
def binAdd {Op : Type} (size : Op → Nat) (st : BinSt Op) (a : Nat) (l : Line Op) : Except Err (Nat × BinSt Op) :=
  let before := l.subs.filterMap (fun s => if s.flags.prepend then s.op else none)
  match binBefore size st a before with
  | .error e => .error e
  | .ok (a1, st1) =>
    let st2 := { st1 with amap := setdefault st1.amap l.sa a1 }
    let after := l.subs.filter (fun s => !s.flags.prepend)
    let rb := l.sa.getD a1            -- address + offset at this point
    let cr := binCur l.op after
    let r1 : Except Err (Nat × BinSt Op) :=
      match cr.1.2 with
      | some op => binEmit size st2 a1 op cr.1.1 rb
      | none => .ok (a1, st2)
    match r1 with
    | .error e => .error e
    | .ok (a2, st3) => binRest size a1 rb st3 a2 (cr.2.map (fun s => (s.flags.overwrite, s.op)))

/-- `BinWriter._parse_instruction`. (Deviation: when neither `address` nor the line's own address
is known the real code fails with a TypeError a little later, unless the line is entirely empty.) -/
def binLine {Op : Type} (size : Op → Nat) (st : BinSt Op) (l : Line Op) : Except Err (BinSt Op) :=
  let address : Option Nat := st.addr.or l.sa     -- `if address is None: address = skool_address`
  let skip := isRemoved st.removed l.sa
  if skip then .ok { st with addr := address }
  else match address with
    | none => .error .noAddress
    | some a =>
      match binAdd size st a l with
      | .error e => .error e
      | .ok (a', st') => .ok { st' with addr := some a' }

def binItem {Op : Type} (size : Op → Nat) (st : BinSt Op) : Item Op → Except Err (BinSt Op)
  | .org v => .ok { st with addr := v }
  | .remove lo hi => .ok { st with removed := st.removed ++ rangeL lo (hi + 1 - lo) }
  | .line l => binLine size st l

def binItems {Op : Type} (size : Op → Nat) : BinSt Op → List (Item Op) → Except Err (BinSt Op)
  | st, [] => .ok st
  | st, i :: is =>
    match binItem size st i with
    | .error e => .error e
    | .ok st' => binItems size st' is

/-- One block of `_parse_skool`: `removed = set()` then the lines. -/
def binBlock {Op : Type} (size : Op → Nat) (st : BinSt Op) (b : Block Op) : Except Err (BinSt Op) :=
  binItems size { st with removed := [] } b

def binBlocks {Op : Type} (size : Op → Nat) : BinSt Op → List (Block Op) → Except Err (BinSt Op)
  | st, [] => .ok st
  | st, b :: bs =>
    match binBlock size st b with
    | .error e => .error e
    | .ok st' => binBlocks size st' bs

def binInit (Op : Type) : BinSt Op := { addr := none, removed := [], out := [], amap := [] }

/-- The image layout skool2bin produces: every instruction with its real address. -/
def binLayout {Op : Type} (size : Op → Nat) (bs : List (Block Op)) : Except Err (List (Nat × Op)) :=
  match binBlocks size (binInit Op) bs with
  | .error e => .error e
  | .ok st => .ok st.out

/-! ### skoolparser (ASM mode) -/

/-- `Mode.org`: `None` / `''` (bare `@org`) / the value. -/
inductive MOrg | unset | bare | val (v : Nat)
  deriving DecidableEq, Repr

/-- A `skoolparser.Instruction` as far as the layout is concerned.  `org`: `none` = falsy,
`some none` = a text that is not a number (the blank address field), `some (some a)`. -/
structure PIns (Op : Type) where
  addr : Option Nat
  op : Option Op
  org : Option (Option Nat)
  deriving Repr

structure ParSt (Op : Type) where
  removed : List Nat
  /-- `map_entry.instructions` of the block being read -/
  entry : List (PIns Op)
  org : MOrg

/-- `instruction.org` after `if self.org != '': instruction.org = self.org` (it starts as the
address field of the line). -/
def insOrg (org : MOrg) (sa : Option Nat) : Option (Option Nat) :=
  match org with
  | .unset => none
  | .bare => some sa
  | .val v => some (some v)

/-- `Mode.compose_instructions(subs, current)` (flags.overwrite and op of each composed instruction). -/
def composeAux {Op : Type} (current : Bool) : List (Bool × Option Op) → List (SubDir Op) → List (Bool × Option Op)
  | acc, [] => acc
  | acc, s :: ss =>
    let acc1 := if s.flags.append && acc.isEmpty then acc ++ [(false, none)] else acc
    let acc2 := if s.op.isSome || (current && acc1.isEmpty) then acc1 ++ [(s.flags.overwrite, s.op)] else acc1
    composeAux current acc2 ss

def compose {Op : Type} (subs : List (SubDir Op)) (current : Bool) : List (Bool × Option Op) :=
  composeAux current [] subs

/-- `Mode.process_instruction` (the `overwrite` part): returns the address after the instruction
(or `None`) and the updated `removed`. -/
def procIns {Op : Type} (size : Op → Nat) (removed : List Nat) (addr : Option Nat) (op : Option Op) (ow : Bool) :
    Except Err (Option Nat × List Nat) :=
  if ow then
    match op with
    | none => .ok (none, removed)                 -- get_size('') == 0
    | some o =>
      if size o = 0 then .ok (none, removed)
      else match addr with
        | none => .error .typeError              -- range(None, None + size)
        | some a => .ok (some (a + size o), removed ++ rangeL a (size o))
  else .ok (none, removed)

/-- `list.insert(len - 1, x)` on a non-empty list. -/
def insertBeforeLast {α : Type} : List α → α → List α
  | [], x => [x]
  | [l], x => [x, l]
  | h :: t, x => h :: insertBeforeLast t x

/-- `SkoolEntry.add_instruction(inst, True)` for each composed `before` instruction. -/
def parBefore {Op : Type} : List (PIns Op) → List (Bool × Option Op) → Except Err (List (PIns Op))
  | e, [] => .ok e
  | e, (_, op) :: r =>
    match e with
    | [] => .error .indexError                  -- self.instructions[-1] on an empty list
    | h :: t =>
      let org := if t.isEmpty then h.org else none
      parBefore (insertBeforeLast (h :: t) { addr := none, op := op, org := org }) r

/-- The `for overwrite, label, op, comments in after:` loop of `apply_asm_directives`. -/
def parRest {Op : Type} (size : Op → Nat) : List (Bool × Option Op) → Option Nat → List Nat → List (PIns Op) →
    Except Err (List (PIns Op) × List Nat)
  | [], _, removed, entry => .ok (entry, removed)
  | (ow, op) :: rest, address, removed, entry =>
    if ow then
      match address with
      | none => .error .cannotDetermine
      | some a =>
        let entry' := if removed.contains a then entry else entry ++ [{ addr := some a, op := op, org := some (some a) }]
        match procIns size removed (some a) op true with
        | .error e => .error e
        | .ok (address', removed') => parRest size rest address' removed' entry'
    else
      parRest size rest none removed (entry ++ [{ addr := none, op := op, org := some none }])

/-- One instruction line: the body of the loop in `SkoolParser._parse_skool` together with
`Mode.apply_asm_directives` (ASM mode, `asm_mode ≠ 0`). -/
def parLine {Op : Type} (size : Op → Nat) (st : ParSt Op) (l : Line Op) : Except Err (ParSt Op) :=
  let before := compose (l.subs.filter (fun s => s.flags.prepend)) false
  let after := compose (l.subs.filter (fun s => !s.flags.prepend)) true
  let iorg := insOrg st.org l.sa
  -- `if after: overwrite, label, op, comments = after.pop(0); if op: instruction.operation = op`
  let curOp : Option Op := (after.head?.bind (·.2)).or l.op
  let ins : PIns Op := { addr := l.sa, op := curOp, org := iorg }
  let gone := isRemoved st.removed l.sa
  let entry1 := if gone then st.entry else st.entry ++ [ins]
  match parBefore entry1 before with
  | .error e => .error e
  | .ok entry2 =>
    match after with
    | [] => .ok { removed := st.removed, entry := entry2, org := .unset }
    | (ow, _) :: rest =>
      match procIns size st.removed l.sa curOp ow with
      | .error e => .error e
      | .ok (address, removed1) =>
        match parRest size rest address removed1 entry2 with
        | .error e => .error e
        | .ok (entry3, removed2) => .ok { removed := removed2, entry := entry3, org := .unset }

def parItem {Op : Type} (size : Op → Nat) (st : ParSt Op) : Item Op → Except Err (ParSt Op)
  | .org none => .ok { st with org := .bare }
  | .org (some v) => .ok { st with org := .val v }
  | .remove lo hi => .ok { st with removed := st.removed ++ rangeL lo (hi + 1 - lo) }
  | .line l => parLine size st l

def parItems {Op : Type} (size : Op → Nat) : ParSt Op → List (Item Op) → Except Err (ParSt Op)
  | st, [] => .ok st
  | st, i :: is =>
    match parItem size st i with
    | .error e => .error e
    | .ok st' => parItems size st' is

/-- All blocks: `removed` and the entry are per block, `Mode.org` survives a block end (it is only
reset by the next instruction). Returns the entries (`memory_map`: only non-empty ones matter). -/
def parBlocks {Op : Type} (size : Op → Nat) : MOrg → List (Block Op) → Except Err (List (List (PIns Op)))
  | _, [] => .ok []
  | org, b :: bs =>
    match parItems size { removed := [], entry := [], org := org } b with
    | .error e => .error e
    | .ok st =>
      match parBlocks size st.org bs with
      | .error e => .error e
      | .ok es => .ok (st.entry :: es)

/-! ### the macro-visible snapshot (`#PEEK`, image macros) -/

/-- The `set_bytes(self.snapshot, self._assembler, address, instruction.operation)` call at the end
of the loop body of `SkoolParser._parse_skool` (assemble = 2, no `@bytes`): the line's own, possibly
replaced, operation is assembled at the line's SKOOL address — unless the line has no address or
was removed before its own directives were applied. Instructions created by
`apply_asm_directives` (inserted before/after, 2nd+ of an overwrite chain) are never assembled. -/
def pokeAt {Op : Type} (removed : List Nat) (sa : Option Nat) (o : Option Op) : List (Nat × Op) :=
  match sa, o with
  | some a, some o => if isRemoved removed (some a) then [] else [(a, o)]
  | _, _ => []

def pokeOf {Op : Type} (removed : List Nat) (l : Line Op) : List (Nat × Op) :=
  let after := compose (l.subs.filter (fun s => !s.flags.prepend)) true
  pokeAt removed l.sa ((after.head?.bind (·.2)).or l.op)

/-- The pokes after one more item (`removed`: the set before the item is processed). -/
def accPoke {Op : Type} (acc : List (Nat × Op)) (removed : List Nat) : Item Op → List (Nat × Op)
  | .line l => acc ++ pokeOf removed l
  | _ => acc

/-- The sequence of (address, operation) pairs poked into the snapshot while a block is parsed. -/
def pokeItems {Op : Type} (size : Op → Nat) : ParSt Op → List (Nat × Op) → List (Item Op) →
    Except Err (ParSt Op × List (Nat × Op))
  | st, acc, [] => .ok (st, acc)
  | st, acc, i :: is =>
    match parItem size st i with
    | .error e => .error e
    | .ok st' => pokeItems size st' (accPoke acc st.removed i) is

def pokeBlocks {Op : Type} (size : Op → Nat) : MOrg → List (Nat × Op) → List (Block Op) → Except Err (List (Nat × Op))
  | _, acc, [] => .ok acc
  | org, acc, b :: bs =>
    match pokeItems size { removed := [], entry := [], org := org } acc b with
    | .error e => .error e
    | .ok (st, acc') => pokeBlocks size st.org acc' bs

/-- Everything `SkoolParser` (ASM mode) assembles into the snapshot, in order. -/
def parPokes {Op : Type} (size : Op → Nat) (bs : List (Block Op)) : Except Err (List (Nat × Op)) :=
  pokeBlocks size .unset [] bs

/-! ### AsmWriter.write + a sequential assembler -/

/-- Instructions of one entry, placed one after the other. -/
def seqBody {Op : Type} (size : Op → Nat) : Option Nat → List (Nat × Op) → List (PIns Op) →
    Except Err (Option Nat × List (Nat × Op))
  | pc, out, [] => .ok (pc, out)
  | pc, out, i :: is =>
    match i.op with
    | none => seqBody size pc out is                 -- an empty operation assembles to nothing
    | some o =>
      match pc with
      | none => .error .noOrg
      | some p =>
        if size o = 0 then .error .assemble
        else seqBody size (some (p + size o)) (out ++ [(p, o)]) is

/-- `AsmWriter.write` for one entry: `ORG` iff `entry.instructions[0].org` is truthy. -/
def seqEntry {Op : Type} (size : Op → Nat) (pc : Option Nat) (out : List (Nat × Op)) (e : List (PIns Op)) :
    Except Err (Option Nat × List (Nat × Op)) :=
  match e with
  | [] => .ok (pc, out)                              -- not in memory_map
  | h :: _ =>
    match h.org with
    | none => seqBody size pc out e
    | some none => .error .badOrg
    | some (some a) => seqBody size (some a) out e

def asmWrite {Op : Type} (size : Op → Nat) : Option Nat → List (Nat × Op) → List (List (PIns Op)) →
    Except Err (Option Nat × List (Nat × Op))
  | pc, out, [] => .ok (pc, out)
  | pc, out, e :: es =>
    match seqEntry size pc out e with
    | .error err => .error err
    | .ok (pc', out') => asmWrite size pc' out' es

/-! ### labels and operand relocation -/

/-- A label line (`print_instruction_prefix`) in front of an instruction that has an address gets
the current location counter. -/
def posHere : Option Nat → Option Nat → List (Nat × Nat)
  | some a, some p => [(a, p)]
  | _, _ => []

/-- The location counter after an instruction. -/
def pcNext {Op : Type} (size : Op → Nat) : Option Op → Option Nat → Option Nat
  | some o, some p => some (p + size o)
  | _, pc => pc

/-- (instruction.address, location) for every addressed instruction of an entry, in order: where
the assembler puts a label attached to that instruction. -/
def posBody {Op : Type} (size : Op → Nat) : Option Nat → List (PIns Op) → List (Nat × Nat)
  | _, [] => []
  | pc, i :: is => posHere i.addr pc ++ posBody size (pcNext size i.op pc) is

def pcAfter {Op : Type} (size : Op → Nat) : Option Nat → List (PIns Op) → Option Nat
  | pc, [] => pc
  | pc, i :: is => pcAfter size (pcNext size i.op pc) is

/-- The location counter at the start of an entry (after its `ORG`, if any). -/
def entryPc {Op : Type} (pc : Option Nat) (e : List (PIns Op)) : Option Nat :=
  match e with
  | [] => pc
  | h :: _ => match h.org with
    | some (some a) => some a
    | _ => pc

def posWrite {Op : Type} (size : Op → Nat) : Option Nat → List (List (PIns Op)) → List (Nat × Nat)
  | _, [] => []
  | pc, e :: es => posBody size (entryPc pc e) e ++ posWrite size (pcAfter size (entryPc pc e) e) es

/-- Where the label of each addressed instruction ends up when skool2asm's output is assembled
(meaningful when `asmLayout` succeeds). -/
def asmLabelPos {Op : Type} (size : Op → Nat) (bs : List (Block Op)) : List (Nat × Nat) :=
  match parBlocks size .unset bs with
  | .error _ => []
  | .ok es => posWrite size none es

/-- skool2bin: `substitute_labels(..., self.address_map, ...)` replaces an operand that is a key of
the address map by the mapped (real) address. -/
def relocBin (amap : List (Nat × Nat)) (ref : Nat) : Nat := (amap.lookup ref).getD ref

/-- skool2asm + assembler: an operand that names a labelled instruction is printed as the label
and resolves to the label's location; any other operand stays as written. -/
def relocAsm (labelled : Nat → Bool) (pos : List (Nat × Nat)) (ref : Nat) : Nat :=
  if labelled ref then (pos.lookup ref).getD ref else ref

/-- The image layout obtained by assembling skool2asm's output. -/
def asmLayout {Op : Type} (size : Op → Nat) (bs : List (Block Op)) : Except Err (List (Nat × Op)) :=
  match parBlocks size .unset bs with
  | .error e => .error e
  | .ok es =>
    match asmWrite size none [] es with
    | .error e => .error e
    | .ok (_, out) => .ok out

end AsmLayout
