import SkoolVerif.Prelude.Machine
import SkoolVerif.Gen.SimTables
/-!
Hand model of the execution loops of `trace.py` (C10), on top of an arbitrary single-step function
(`Sim.step` / `Cmio.step` of the generated models):

* `Tr`, `trWrite`, `trRead`: the fields of `trace.Tracer` that `get_state` saves, with
  `PagingTracer.write_port` (the part that is not the 0x7FFD memory switch, which is
  `MemLike.portOut`) and `Tracer.read_port` (no keyboard: `self.keyboard` is `None` unless `--screen`);
* `tstep`: one `opcodes[memory[pc]]()` call with the tracer attached;
* `acceptInterrupt`: `Simulator.accept_interrupt` / `CMIOSimulator.accept_interrupt` / C `accept_interrupt`;
* `pyIter`/`pyRun`: the `while True` loop of `Tracer.run` (pure Python simulators), with its
  `next_int` bookkeeping; `cIter`/`cRun`: the loop of `CSimulator_trace` (c/csimulator.c), which tests
  `T % frame_duration < int_active` instead.

Only the `max_operations` stop condition is modelled (`-m N`: exactly N iterations); `max_tstates`,
`stop`, `draw`, `exec_map` and the trace-line printing do not touch the machine state.
-/
namespace TraceLoop
open Z80

/-- `trace.Tracer` fields read by `simutils.get_state` / used by `read_port` (port_fe = False:
`border` is an int). `ay` has 16 entries. -/
structure Tr where
  border : Int
  outfe : Int
  outfffd : Int
  ay : Array Int
  deriving Repr, DecidableEq, Inhabited

/-- `PagingTracer.write_port(registers, port, value, offset)` minus the 0x7FFD branch. -/
def trWrite (tr : Tr) (port value : Int) : Tr :=
  let tr := if port % 2 = 0 then { tr with border := value % 8, outfe := value } else tr
  if PyInt.land port 0xC002 = 0xC000 then { tr with outfffd := value }
  else if PyInt.land port 0xC002 = 0x8000 ∧ tr.outfffd < 16 then { tr with ay := rset tr.ay tr.outfffd value }
  else tr

/-- `Tracer.read_port(registers, port)` with `self.keyboard = None`. -/
def trRead (tr : Tr) (port : Int) : Int :=
  if PyInt.land port 0xC002 = 0xC000 ∧ tr.outfffd < 16 then rget tr.ay tr.outfffd else 0xFF

/-- simulator + tracer -/
structure TS (μ : Type) where
  s : St μ
  tr : Tr

abbrev StepFn (μ : Type) := Cfg → St μ → St μ

/-- forget the port logs of the generated model (they are per-step scratch here) -/
def clearLogs {μ : Type} (s : St μ) : St μ := { s with ins := [], outs := [], inLog := [] }

/-- The port the next instruction reads, if any: the closures log the port before they pop the value
and read at most one port per call (INIR/INDR repeat by leaving PC unchanged). -/
def probePort {μ : Type} (step : StepFn μ) (cfg : Cfg) (s : St μ) : Option Int :=
  (step cfg (clearLogs s)).inLog.head?

/-- the value an `IN` of this step gets: `Tracer.read_port(port)`; 255 stands in when the instruction reads no port -/
def readValue (tr : Tr) (port : Option Int) : Int :=
  match port with
  | some p => trRead tr p
  | none => 255

/-- One `opcodes[memory[pc]]()` call with the tracer's `read_port`/`write_port` attached: the value
read is `Tracer.read_port(port)`, every `write_port` call updates the tracer fields (oldest first). -/
def tstep {μ : Type} (step : StepFn μ) (cfg : Cfg) (ts : TS μ) : TS μ :=
  let v := readValue ts.tr (probePort step cfg ts.s)
  let s1 := step cfg { ts.s with ins := [v], outs := [], inLog := [] }
  { s := clearLogs s1, tr := s1.outs.foldr (fun w tr => trWrite tr w.1 w.2) ts.tr }

/-- `accept_interrupt` returns `False` without doing anything directly after `EI` and after a `DD`/`FD`
prefix that was executed as a one-byte no-op -/
def intBlocked {μ : Type} [MemLike μ] (s : St μ) (prevPc : Int) : Prop :=
  mget s.mem prevPc = 0xFB ∨ ((mget s.mem prevPc = 0xDD ∨ mget s.mem prevPc = 0xFD) ∧ prevPc = (s.pc - 1) % 65536)

instance {μ : Type} [MemLike μ] (s : St μ) (prevPc : Int) : Decidable (intBlocked s prevPc) := by
  unfold intBlocked; exact inferInstance

/-- the state after an accepted interrupt; `cmio`: the contended simulators also set MEMPTR -/
def intAccepted {μ : Type} [MemLike μ] (cmio : Bool) (s : St μ) : St μ :=
  let pc := s.pc
  let vaddr := 255 + 256 * rget s.reg 14
  let iaddr := if s.im = 2 then mget s.mem vaddr + 256 * mget s.mem ((vaddr + 1) % 65536) else 56
  let t := if s.im = 2 then s.t + 19 else s.t + 13
  let sp := (rget s.reg 12 - 2) % 65536
  let reg := rset s.reg 12 sp
  let mem := if sp > 0x3FFF then mset s.mem sp (pc % 256) else s.mem
  let sp1 := (sp + 1) % 65536
  let mem := if sp1 > 0x3FFF then mset mem sp1 (pc / 256) else mem
  let reg := rset reg 15 (Tbl.R1 (rget reg 15))
  { s with reg := reg, mem := mem, pc := iaddr, t := t, iff := 0, halt := 0,
           memptr := if cmio then iaddr else s.memptr }

/-- `accept_interrupt(registers, memory, prev_pc)` (`Simulator`, `CMIOSimulator`, C).  Returns the
state unchanged (and `false`) when the interrupt is not accepted. -/
def acceptInterrupt {μ : Type} [MemLike μ] (cmio : Bool) (s : St μ) (prevPc : Int) : St μ × Bool :=
  if intBlocked s prevPc then (s, false) else (intAccepted cmio s, true)

/-- what the loops are parameterised by: the simulator class and `options.interrupts` -/
structure Mode (μ : Type) where
  step : StepFn μ
  cmio : Bool
  interrupts : Bool

/-! ### C loop (`CSimulator_trace`) -/

/-- one iteration: execute, then `if (interrupts && REG(IFF) && (TIME % frame_duration) < int_active) accept_interrupt(self, pc)` -/
def cIter {μ : Type} [MemLike μ] (m : Mode μ) (cfg : Cfg) (ts : TS μ) : TS μ :=
  let pc := ts.s.pc
  let ts1 := tstep m.step cfg ts
  if m.interrupts ∧ ts1.s.iff ≠ 0 ∧ ts1.s.t % cfg.frame_duration < cfg.int_active then
    { ts1 with s := (acceptInterrupt m.cmio ts1.s pc).1 }
  else ts1

/-- `-m n`: n iterations -/
def cRun {μ : Type} [MemLike μ] (m : Mode μ) (cfg : Cfg) : Nat → TS μ → TS μ
  | 0, ts => ts
  | n + 1, ts => cRun m cfg n (cIter m cfg ts)

/-! ### Python loop (`Tracer.run`, `else` branch) -/

structure PyLoop (μ : Type) where
  ts : TS μ
  nextInt : Int

/-- `next_int = ((tstates + frame_duration - int_active) // frame_duration) * frame_duration` -/
def nextIntOf (cfg : Cfg) (t : Int) : Int :=
  ((t + cfg.frame_duration - cfg.int_active) / cfg.frame_duration) * cfg.frame_duration

def pyStart {μ : Type} (cfg : Cfg) (ts : TS μ) : PyLoop μ := { ts := ts, nextInt := nextIntOf cfg ts.s.t }

def pyIter {μ : Type} [MemLike μ] (m : Mode μ) (cfg : Cfg) (l : PyLoop μ) : PyLoop μ :=
  let pc := l.ts.s.pc
  let ts1 := tstep m.step cfg l.ts
  let tstates := ts1.s.t
  if tstates ≥ l.nextInt then
    if tstates < l.nextInt + cfg.int_active then
      if ts1.s.iff ≠ 0 ∧ m.interrupts then
        { ts := { ts1 with s := (acceptInterrupt m.cmio ts1.s pc).1 }, nextInt := l.nextInt }
      else { ts := ts1, nextInt := l.nextInt }
    else { ts := ts1, nextInt := l.nextInt + cfg.frame_duration }
  else { ts := ts1, nextInt := l.nextInt }

def pyLoop {μ : Type} [MemLike μ] (m : Mode μ) (cfg : Cfg) : Nat → PyLoop μ → PyLoop μ
  | 0, l => l
  | n + 1, l => pyLoop m cfg n (pyIter m cfg l)

/-- `Tracer.run(..., max_operations = n, ...)` on a pure Python simulator -/
def pyRun {μ : Type} [MemLike μ] (m : Mode μ) (cfg : Cfg) (n : Nat) (ts : TS μ) : TS μ :=
  (pyLoop m cfg n (pyStart cfg ts)).ts

end TraceLoop
