/-
Hand model of the block / sub-block bookkeeping of `skoolkit/ctlparser.py`:
  `CtlParser.parse_ctls` (the part of the main loop that touches `_ctls`,
  `_subctls`, `_lengths`, `_loops`), `_unroll_loops`, `_repeat_directives`,
  `get_blocks` (blocks, `Block.add_block`, end addresses, `sublengths`),
  `parse_params` / `_parse_sublengths` on already tokenised parameters.
The lexical layer (text of a control line -> `Directive`) is in `CtlLex.lean`.

Python dicts with integer keys are association lists; `sorted(dict)` is
`sortedItems`.  Comments, titles, ASM directives and multi-line comment
bookkeeping do not influence which bytes are disassembled and are not
modelled (the `M` directive's effect on `_subctls` is).  No imports outside
core Lean: the line-protocol driver uses this file.
-/
namespace CtlTiling

/-! ### dicts -/

/-- A Python `dict` with `int` keys (at most one pair per key; insertion order). -/
abbrev Dict (V : Type) := List (Nat × V)

/-- `d.get(k)` -/
def dget {V : Type} : Dict V → Nat → Option V
  | [], _ => none
  | (k', v) :: r, k => if k' = k then some v else dget r k

/-- `d[k] = v` -/
def dset {V : Type} : Dict V → Nat → V → Dict V
  | [], k, v => [(k, v)]
  | (k', v') :: r, k, v => if k' = k then (k, v) :: r else (k', v') :: dset r k v

/-- `d.setdefault(k, v)` -/
def dsetDefault {V : Type} (d : Dict V) (k : Nat) (v : V) : Dict V :=
  match dget d k with
  | some _ => d
  | none => dset d k v

/-- insert a pair into a list sorted strictly by key (an equal key keeps the existing pair) -/
def insertSorted {V : Type} (k : Nat) (v : V) : List (Nat × V) → List (Nat × V)
  | [] => [(k, v)]
  | (x, w) :: xs =>
    if k < x then (k, v) :: (x, w) :: xs
    else if k = x then (x, w) :: xs
    else (x, w) :: insertSorted k v xs

/-- `sorted(d.items())` (for a dict: keys are distinct) -/
def sortedItems {V : Type} (d : Dict V) : List (Nat × V) :=
  d.foldr (fun p acc => insertSorted p.1 p.2 acc) []

/-- `sorted(d)` -/
def sortedKeys {V : Type} (d : Dict V) : List Nat := (sortedItems d).map (·.1)

/-! ### parameters of a sub-block directive (`parse_params`) -/

/-- `((sublength, base), ...)`; `base` is the one- or two-letter prefix (`"n"` = default). -/
abbrev Sublens := List (Nat × String)

/-- One comma-separated parameter after the main length, tokenised:
`b1:d2:h1*3` is `⟨[(1,"b"),(2,"d"),(1,"h")], 3⟩`. -/
structure Param where
  parts : Sublens
  mult : Nat
  deriving Repr, DecidableEq

/-- `_parse_sublengths(spec, subctl, default_base)` after `_parse_length` has been applied to every
colon-separated part: the statement length is the sum of the parts, except for `S` where it is the
first part (the second part of an `S` sublength is the value's base). -/
def sublengthsOf (subctl : Char) (parts : Sublens) : Nat × Sublens :=
  if subctl = 'S' then ((parts.head?.map (·.1)).getD 0, parts)
  else ((parts.map (·.1)).sum, parts)

/-- `parse_params`: `int_params += (_parse_sublengths(n, ctl, base),) * get_int_param(m)` -/
def expandParams (subctl : Char) (ps : List Param) : List (Nat × Sublens) :=
  ps.flatMap (fun p => List.replicate p.mult (sublengthsOf subctl p.parts))

/-! ### `parse_ctls` -/

/-- A control line after the lexical layer, reduced to what the tiling depends on. -/
inductive Directive
  /-- `b c g i s t u w` line: title only (`_ctls` is filled by the pre-pass `_parse_ctl_file`) -/
  | entry (ctl : Char) (start : Nat)
  /-- `D`, `N`, `M`: `self._subctls.setdefault(start, None)`; an `M` directive with a length also
  does `self._subctls.setdefault(end, None)` (`end_ = some (start + length)`) -/
  | boundary (start : Nat) (end_ : Option Nat)
  /-- `E`, `R`, `>`: no effect on the tiling -/
  | other (start : Nat)
  /-- `L start,length,count[,flags]` with `end = start + length` -/
  | loop (start end_ count flags : Nat)
  /-- `B C S T W` (or a blank directive resolved to one of them): `end_ = start + length` when a
  non-zero length was given; `lengths = int_params[1:]` -/
  | sub (ctl : Char) (start : Nat) (end_ : Option Nat) (lengths : List (Nat × Sublens))
  deriving Repr

def Directive.start : Directive → Nat
  | .entry _ s | .boundary s _ | .other s | .loop s _ _ _ | .sub _ s _ _ => s

structure PState where
  ctls : Dict Char := []
  subctls : Dict (Option Char) := []
  lengths : Dict Sublens := []
  loops : List (Nat × Nat × Nat × Nat) := []
  deriving Repr

/-- The `for length, sublengths in lengths[1:]` loop of `parse_ctls`; returns the final `address`. -/
def assignLengths (subctl : Option Char) :
    PState → Nat → List (Nat × Sublens) → PState × Nat
  | st, address, [] => (st, address)
  | st, address, (length, sublengths) :: rest =>
    assignLengths subctl
      { st with lengths := dset st.lengths address sublengths,
                subctls := dset st.subctls address subctl }
      (address + length) rest

/-- One iteration of the main loop of `parse_ctls` (for a line that parsed). -/
def applyDirective (minA maxA : Nat) (st : PState) (d : Directive) : PState :=
  if ¬ (minA ≤ d.start ∧ d.start < maxA) then st      -- `continue`
  else match d with
  | .entry _ _ => st
  | .other _ => st
  | .boundary start end_ =>
    let sc := dsetDefault st.subctls start none
    { st with subctls := match end_ with
        | some e => dsetDefault sc e none
        | none => sc }
  | .loop start end_ count flags =>
    if count > 1 then
      let loopEnd := start + count * (end_ - start)
      { st with loops := st.loops ++ [(start, end_, count, flags)],
                subctls := dset st.subctls loopEnd none }
    else st
  | .sub ctl start end_ lengths =>
    let sc := dset st.subctls start (some ctl.toLower)
    let sc := match end_ with
      | some e => dset sc e none
      | none => sc
    let st := { st with subctls := sc }
    match lengths with
    | [] => st
    | (len0, sub0) :: rest =>
      let st := { st with lengths := dset st.lengths start sub0 }
      -- `subctl = self._subctls[start]`
      (assignLengths (some ctl.toLower) st (start + len0) rest).1

/-- `_repeat_directives(directives, start, end, count, max_address)` (`exclude_start` is only used
for mid-block comments).  The Python loop `break`s at the first `address >= max_address`; the
addresses `addr + i*interval` increase with `i`, so skipping is the same. -/
def repeatDirectives {V : Type} (d : Dict V) (start end_ count maxA : Nat) : Dict V :=
  let interval := end_ - start
  let repeated := d.filter (fun p => start ≤ p.1 ∧ p.1 < end_)
  repeated.foldl (fun acc p =>
    (List.range' 1 (count - 1)).foldl (fun acc i =>
      let address := p.1 + i * interval
      if address < maxA then dset acc address p.2 else acc) acc) d

/-- `_unroll_loops` for one loop. -/
def unrollLoop (maxA : Nat) (st : PState) (l : Nat × Nat × Nat × Nat) : PState :=
  let (start, end_, count, flags) := l
  let st := { st with subctls := repeatDirectives st.subctls start end_ count maxA,
                      lengths := repeatDirectives st.lengths start end_ count maxA }
  if flags = 1 then { st with ctls := repeatDirectives st.ctls start end_ count maxA } else st

/-- The bookkeeping of `parse_ctls`: `pre` are the `(address, ctl)` pairs found by the pre-pass
`_parse_ctl_file` (already filtered to `min_address <= address < max_address`), `ds` the parsed lines. -/
def parseCtls (minA maxA : Nat) (pre : List (Nat × Char)) (ds : List Directive) : PState :=
  let st0 : PState := { ctls := pre.foldl (fun c p => dset c p.1 p.2) [] }
  let st1 := ds.foldl (applyDirective minA maxA) st0
  let st2 := st1.loops.foldl (unrollLoop maxA) st1
  { st2 with ctls := dset st2.ctls maxA 'i' }           -- `self._ctls[max_address] = 'i'`

/-- `CtlParser({start: ctl, end: 'i'})` as built by `sna2skool.get_ctl_parser` without a control file. -/
def noCtl (start end_ : Nat) (ctl : Char) : PState :=
  { ctls := dset (dset [] start ctl) end_ 'i' }

/-! ### `get_blocks` -/

structure Sub where
  ctl : Char
  start : Nat
  end_ : Nat := 0
  sublengths : Sublens := []
  deriving Repr, DecidableEq

structure Block where
  ctl : Char
  start : Nat
  end_ : Nat
  subs : List Sub
  deriving Repr, DecidableEq

/-- "Create top-level blocks": one block per pair of consecutive entry addresses, each with its
initial sub-block `Block(ctl, start, False)`. -/
def mkBlocks : List (Nat × Char) → List Block
  | (a, c) :: (b, c') :: rest =>
    { ctl := c, start := a, end_ := b, subs := [{ ctl := c, start := a }] } :: mkBlocks ((b, c') :: rest)
  | _ => []

/-- `Block.add_block(ctl, start)` -/
def addBlock (b : Block) (ctl : Char) (start : Nat) : Block :=
  if start = b.start then
    match b.subs with
    | s :: r => { b with subs := { s with ctl := ctl } :: r }
    | [] => b
  else { b with subs := b.subs ++ [{ ctl := ctl, start := start }] }

/-- the inner `for block in blocks: if block.start <= sub_address < block.end: ...; break` -/
def addSub : List Block → Option Char → Nat → List Block
  | [], _, _ => []
  | b :: rest, subctl, a =>
    if b.start ≤ a ∧ a < b.end_ then addBlock b (subctl.getD b.ctl) a :: rest
    else b :: addSub rest subctl a

/-- "Set sub-block end addresses" for one block -/
def setSubEnds : List Sub → Nat → List Sub
  | [], _ => []
  | [s], e => [{ s with end_ := e }]
  | s :: t :: r, e => { s with end_ := t.start } :: setSubEnds (t :: r) e

/-- `BASE_MAP[sub_block.ctl.upper()]` -/
def defaultBase (ctl : Char) : String := if ctl = 't' then "c" else "n"

/-- "Set sub-block attributes": only `sublengths` matters here -/
def setAttrs (lengths : Dict Sublens) (s : Sub) : Sub :=
  { s with sublengths := (dget lengths s.start).getD [(0, defaultBase s.ctl)] }

/-- `CtlParser.get_blocks()` (ctl, start, end, sub-blocks with ctl, start, end, sublengths). -/
def getBlocks (st : PState) : List Block :=
  let blocks := mkBlocks (sortedItems st.ctls)
  let blocks := (sortedItems st.subctls).foldl (fun bs p => addSub bs p.2 p.1) blocks
  blocks.map (fun b => { b with subs := (setSubEnds b.subs b.end_).map (setAttrs st.lengths) })

/-- all sub-blocks in address order -/
def flatSubs (bs : List Block) : List Sub := bs.flatMap (·.subs)

/-! ### the `M`-directive grouping of `Disassembly._create_entries`

`sub_blocks` are merged when a multi-line comment spans them; the instructions are concatenated in
order.  `mlEnd s` is `sub_block.multiline_comment[0]` (`none` when there is no such comment). -/

/-- The `while i < len(block.blocks)` loop with its inner absorbing loop, as one pass: `active` is
the `end` of the multi-line comment of the group being built (`none`: the group's first sub-block
has no such comment, nothing is absorbed), `cur` its instructions so far. -/
def mergeFrom {α : Type} (mlEnd : Sub → Option Nat) (active : Option Nat) (cur : List α) :
    List (Sub × List α) → List (List α)
  | [] => [cur]
  | (s, ins) :: rest =>
    if (match active with
        | some e => decide (s.start < e)
        | none => false) then mergeFrom mlEnd active (cur ++ ins) rest
    else cur :: mergeFrom mlEnd (mlEnd s) ins rest

/-- the instruction lists of the merged groups (`sub_blocks` of the `Entry`) -/
def mergeGroups {α : Type} (mlEnd : Sub → Option Nat) : List (Sub × List α) → List (List α)
  | [] => []
  | (s, ins) :: rest => mergeFrom mlEnd (mlEnd s) ins rest

end CtlTiling
