/-
Hand model of `skoolparser._replace_nums(operation, hex_fmt, skip_bit, prefix)` — the regex-driven
base conversion of the numerals inside an operation (C04):

    elements = re.split(r'(?<=[\s,(%*/+-])(\$[0-9A-Fa-f]+|\d+)', (prefix or '(') + operation)
    for i in range(2 * int(skip_bit) + 1, len(elements), 2):
        p1, p2 = elements[i - 1][:-1].strip(), elements[i - 1][-1]
        if (p2 != '%' or not p1 or p1[-1] in ')"') and p2 != '"':
            p = elements[i]
            if hex_fmt is None and p.startswith('$'):   elements[i] = str(int(p[1:], 16))
            elif hex_fmt and not p.startswith('$'):     elements[i] = hex_fmt.format(int(p))
    return ''.join(elements)[1:]

Text is a `List Char` (ASCII: Python's `\s` / `\d` also match other Unicode spaces / digits — not
modelled).  The regex split is a character-by-character state machine (`scan`).  The formats
skoolkit uses for `hex_fmt` are `${0:02X}`, `${0:04X}`, `${0:02x}`, `${0:04x}` → `HexFmt`.
Core Lean only (the driver imports this file).
-/
namespace ReplaceNums

/-- `[\s]` (ASCII part). -/
def isSpace (c : Char) : Bool := c == ' ' || c == '\t' || c == '\n' || c == '\r' || c == '\x0b' || c == '\x0c'

/-- The look-behind set `[\s,(%*/+-]`. -/
def isDelim (c : Char) : Bool :=
  isSpace c || c == ',' || c == '(' || c == '%' || c == '*' || c == '/' || c == '+' || c == '-'

def isDec (c : Char) : Bool := '0' ≤ c && c ≤ '9'
def isHex (c : Char) : Bool := isDec c || ('A' ≤ c && c ≤ 'F') || ('a' ≤ c && c ≤ 'f')

/-- An element of the `re.split` result: plain text, a decimal numeral (`\d+`), or a hexadecimal
numeral (`\$[0-9A-Fa-f]+`; the digits without the `$`). -/
inductive Tok
  | text (cs : List Char)
  | dec (ds : List Char)
  | hex (ds : List Char)
  deriving DecidableEq, Repr

def Tok.render : Tok → List Char
  | .text cs => cs
  | .dec ds => ds
  | .hex ds => '$' :: ds

/-- `''.join(elements)` -/
def join (ts : List Tok) : List Char := ts.flatMap Tok.render

/-- Scanner state: inside text (`acc` = the current text element reversed, `pd` = the previous
character is in the look-behind set), after a `$` that may start a numeral, inside a numeral. -/
inductive St
  | txt (acc : List Char) (pd : Bool)
  | dollar (acc : List Char)
  | dec (ds : List Char)
  | hex (ds : List Char)
  deriving Repr

/-- Close the current element. -/
def St.flush : St → List Tok
  | .txt acc _ => [.text acc.reverse]
  | .dollar acc => [.text ('$' :: acc).reverse]
  | .dec ds => [.dec ds]
  | .hex ds => [.hex ds]

/-- One character: the tokens completed by it and the new state. -/
def step (st : St) (c : Char) : List Tok × St :=
  match st with
  | .txt acc pd =>
    if pd && isDec c then ([.text acc.reverse], .dec [c])
    else if pd && c == '$' then ([], .dollar acc)
    else ([], .txt (c :: acc) (isDelim c))
  | .dollar acc =>
    if isHex c then ([.text acc.reverse], .hex [c])
    else ([], .txt (c :: '$' :: acc) (isDelim c))
  | .dec ds =>
    if isDec c then ([], .dec (ds ++ [c]))
    else ([.dec ds], .txt [c] (isDelim c))
  | .hex ds =>
    if isHex c then ([], .hex (ds ++ [c]))
    else ([.hex ds], .txt [c] (isDelim c))

def scanFrom : St → List Char → List Tok
  | st, [] => st.flush
  | st, c :: cs => (step st c).1 ++ scanFrom (step st c).2 cs

/-- `re.split(...)` of `prefix + operation`. -/
def scan (pre : Char) (s : List Char) : List Tok := scanFrom (.txt [pre] (isDelim pre)) s

/-! ### numerals -/

def decVal (c : Char) : Nat := c.toNat - '0'.toNat

def hexVal (c : Char) : Nat :=
  if isDec c then c.toNat - '0'.toNat
  else if 'A' ≤ c && c ≤ 'F' then c.toNat - 'A'.toNat + 10
  else c.toNat - 'a'.toNat + 10

/-- Most significant digit first. -/
def ofDigits (b : Nat) (ds : List Nat) : Nat := ds.foldl (fun v d => v * b + d) 0

/-- `int(p)` -/
def parseDec (ds : List Char) : Nat := ofDigits 10 (ds.map decVal)
/-- `int(p[1:], 16)` -/
def parseHex (ds : List Char) : Nat := ofDigits 16 (ds.map hexVal)

def digitsAux (b : Nat) : Nat → Nat → List Nat → List Nat
  | 0, _, acc => acc
  | fuel + 1, n, acc => if n < b then n :: acc else digitsAux b fuel (n / b) (n % b :: acc)

/-- Digits of `n` in base `b`, most significant first (`[0]` for 0). -/
def digits (b n : Nat) : List Nat := digitsAux b (n + 1) n []

def digitChar (lower : Bool) (d : Nat) : Char :=
  if d < 10 then Char.ofNat ('0'.toNat + d)
  else if lower then Char.ofNat ('a'.toNat + (d - 10)) else Char.ofNat ('A'.toNat + (d - 10))

/-- `str(n)` -/
def fmtDec (n : Nat) : List Char := (digits 10 n).map (digitChar false)

/-- `hex_fmt`: field width (2 or 4) and letter case. -/
structure HexFmt where
  width : Nat
  lower : Bool
  deriving DecidableEq, Repr

/-- `'{0:0wX}'.format(n)` (without the `$`). -/
def fmtHex (f : HexFmt) (n : Nat) : List Char :=
  let ds := (digits 16 n).map (digitChar f.lower)
  List.replicate (f.width - ds.length) '0' ++ ds

/-! ### conversion -/

/-- `str.strip()` on the right, then the last character. -/
def lastNonSpace : List Char → Option Char
  | [] => none
  | c :: cs => match lastNonSpace cs with
    | some d => some d
    | none => if isSpace c then none else some c

/-- The test on the element before a numeral (`p1`, `p2`). -/
def eligible (before : List Char) : Bool :=
  match before.reverse with
  | [] => true                -- cannot happen: the element holds at least the look-behind character
  | p2 :: rp1 =>
    let p1last := lastNonSpace rp1.reverse
    (p2 != '%' || p1last.isNone || p1last == some ')' || p1last == some '"') && p2 != '"'

/-- Convert one numeral. -/
def conv (fmt : Option HexFmt) : Tok → Tok
  | .text cs => .text cs
  | .hex ds => match fmt with
    | none => .dec (fmtDec (parseHex ds))
    | some _ => .hex ds
  | .dec ds => match fmt with
    | none => .dec ds
    | some f => .hex (fmtHex f (parseDec ds))

/-- The `for i in range(2 * int(skip_bit) + 1, len(elements), 2)` loop: `skip` numerals are
left alone; `prev` is the element before the current one. -/
def convAll (fmt : Option HexFmt) : Nat → List Char → List Tok → List Tok
  | _, _, [] => []
  | skip, _, .text cs :: ts => .text cs :: convAll fmt skip cs ts
  | skip, prev, t :: ts =>
    match skip with
    | skip' + 1 => t :: convAll fmt skip' [] ts
    | 0 => (if eligible prev then conv fmt t else t) :: convAll fmt 0 [] ts

/-- `_replace_nums(operation, hex_fmt, skip_bit, prefix)`. -/
def replaceNums (fmt : Option HexFmt) (skipBit : Bool) (pre : Option Char) (s : List Char) : List Char :=
  (join (convAll fmt (if skipBit then 1 else 0) [] (scan (pre.getD '(') s))).drop 1

end ReplaceNums
