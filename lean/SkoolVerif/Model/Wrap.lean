/-
Hand model of `skoolkit.wrap(text, width)` (skoolkit/__init__.py:44,84-86):

    WRAPPER = textwrap.TextWrapper(break_long_words=False, break_on_hyphens=False)
    def wrap(text, width): WRAPPER.width = width; return WRAPPER.wrap(text)

i.e. CPython's `TextWrapper.wrap` with `expand_tabs`, `replace_whitespace`,
`drop_whitespace` on, no indents, `max_lines=None`:

    _munge_whitespace : text.expandtabs(8), then '\t\n\x0b\x0c\r ' -> ' '
    _split            : wordsep_simple_re.split, empty chunks removed
    _wrap_chunks      : the greedy loop (with `_handle_long_word` inlined for
                        `break_long_words=False`)

Characters are code points (`Nat`), strings are `List Nat`.  No imports: this
file is also used by the line-protocol driver.
-/
namespace Wrap

abbrev Str := List Nat
abbrev Chunk := List Nat

/-- `str.isspace()` for one code point (what `chunk.strip() == ''` tests). -/
def pySpace (c : Nat) : Bool :=
  (9 ≤ c && c ≤ 13) || (28 ≤ c && c ≤ 32) || c == 133 || c == 160 || c == 5760 ||
  (8192 ≤ c && c ≤ 8202) || c == 8232 || c == 8233 || c == 8239 || c == 8287 || c == 12288

/-- `textwrap._whitespace = '\t\n\x0b\x0c\r '`. -/
def twSpace (c : Nat) : Bool := (9 ≤ c && c ≤ 13) || c == 32

/-- `chunk.strip() == ''`. -/
def blank (c : Chunk) : Bool := c.all pySpace

/-- `str.expandtabs(8)`: `col` is the column counter of CPython's loop. -/
def expandTabs : Nat → Str → Str
  | _, [] => []
  | col, c :: cs =>
    if c = 9 then
      let n := 8 - col % 8
      List.replicate n 32 ++ expandTabs (col + n) cs
    else if c = 10 ∨ c = 13 then c :: expandTabs 0 cs
    else c :: expandTabs (col + 1) cs

/-- `TextWrapper._munge_whitespace`. -/
def munge (t : Str) : Str := (expandTabs 0 t).map fun c => if twSpace c then 32 else c

/-- `TextWrapper._split` with `wordsep_simple_re` on munged text: maximal runs
of separator characters and maximal runs of other characters.  `cur` is the
chunk being accumulated (reversed), `sp` its class. -/
def splitAux : Str → Bool → Str → List Chunk
  | [], _, cur => if cur = [] then [] else [cur.reverse]
  | c :: cs, sp, cur =>
    if cur = [] then splitAux cs (twSpace c) [c]
    else if twSpace c = sp then splitAux cs sp (c :: cur)
    else cur.reverse :: splitAux cs (twSpace c) [c]

def split (t : Str) : List Chunk := splitAux t false []

def clen (l : List Chunk) : Nat := (l.map List.length).sum

/-- The inner `while chunks:` loop of `_wrap_chunks`: move chunks to the
current line while `cur_len + l <= width`.  Returns `(cur_line, chunks)`. -/
def fill (w : Nat) : Nat → List Chunk → List Chunk × List Chunk
  | _, [] => ([], [])
  | cur, c :: cs =>
    if cur + c.length ≤ w then
      let r := fill w (cur + c.length) cs
      (c :: r.1, r.2)
    else ([], c :: cs)

/-- `if self.drop_whitespace and cur_line and cur_line[-1].strip() == '': del cur_line[-1]` -/
def dropTrail (l : List Chunk) : List Chunk :=
  match l.getLast? with
  | some c => if blank c then l.dropLast else l
  | none => l

/-- `if self.drop_whitespace and chunks[-1].strip() == '' and lines: del chunks[-1]`
(first chunk on a line is whitespace: drop it unless no line was produced yet;
`started` = `bool(lines)`). -/
def dropLead (started : Bool) : List Chunk → List Chunk
  | c :: cs => if blank c && started then cs else c :: cs
  | [] => []

/-- Inner loop followed by `_handle_long_word` with `break_long_words = False`
(the too-long chunk is taken only when the line is still empty). -/
def takeLine (w : Nat) (chunks : List Chunk) : List Chunk × List Chunk :=
  let r := fill w 0 chunks
  match r.2 with
  | c :: cs => if c.length > w ∧ r.1 = [] then ([c], cs) else r
  | [] => r

/-- One iteration of the outer `while chunks:` loop: returns the finished
`cur_line` (possibly empty: then nothing is appended) and the remaining chunks. -/
def step (w : Nat) (started : Bool) (chunks : List Chunk) : List Chunk × List Chunk :=
  let r := takeLine w (dropLead started chunks)
  (dropTrail r.1, r.2)

/-- The outer loop (fuel = an upper bound on the number of iterations; every
iteration consumes a chunk, see `C18.loop_fuel_irrelevant`). -/
def loop (w : Nat) : Nat → Bool → List Chunk → List (List Chunk)
  | 0, _, _ => []
  | fuel + 1, started, chunks =>
    if chunks = [] then []
    else
      let r := step w started chunks
      if r.1 = [] then loop w fuel started r.2
      else r.1 :: loop w fuel true r.2

/-- `_wrap_chunks` for a positive width; lines as lists of chunks. -/
def wrapChunks (w : Nat) (chunks : List Chunk) : List (List Chunk) :=
  loop w (chunks.length + 1) false chunks

inductive WrapErr | valueError   -- "invalid width %r (must be > 0)"
  deriving DecidableEq, Repr

/-- `skoolkit.wrap(text, width)`: the lines as strings (`''.join(cur_line)`). -/
def wrapText (t : Str) (width : Int) : Except WrapErr (List Str) :=
  if width ≤ 0 then .error .valueError
  else .ok ((wrapChunks width.toNat (split (munge t))).map List.flatten)

/-! ### Textbook greedy wrap on a list of words (whitespace-normalised text)

`wrapWords w ws`: words are never broken, a line takes words while
`len(line) + 1 + len(word) <= w`, a line always takes at least one word. -/

abbrev Word := List Nat

/-- Take further words onto a line whose rendered length is `cur`. -/
def takeMore (w : Nat) : Nat → List Word → List Word × List Word
  | _, [] => ([], [])
  | cur, x :: xs =>
    if cur + 1 + x.length ≤ w then
      let r := takeMore w (cur + 1 + x.length) xs
      (x :: r.1, r.2)
    else ([], x :: xs)

def wrapWordsAux (w : Nat) : Nat → List Word → List (List Word)
  | 0, _ => []
  | _, [] => []
  | fuel + 1, x :: xs =>
    let r := takeMore w x.length xs
    (x :: r.1) :: wrapWordsAux w fuel r.2

def wrapWords (w : Nat) (ws : List Word) : List (List Word) := wrapWordsAux w ws.length ws

/-- Rendered length of a line of words joined by single spaces. -/
def lineLen (l : List Word) : Nat := (l.map List.length).sum + (l.length - 1)

/-- `' '.join(words)` as a chunk list: `w1, ' ', w2, ' ', …`. -/
def spaced : List Word → List Chunk
  | [] => []
  | [x] => [x]
  | x :: y :: r => x :: [32] :: spaced (y :: r)

end Wrap
