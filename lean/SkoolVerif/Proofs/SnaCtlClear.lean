import SkoolVerif.Proofs.SnaCtlMap
/-!
The `ctl=None` walk of `_find_terminal_instruction` leaves no directive inside the range it walked
over (including, since commit ae2db51, the part of an END-straddling instruction before END).
-/
namespace SnaCtl

theorem ftLoop_none_clears {dec : Dec} {start gEnd end_ : Nat} (hge : end_ ≤ gEnd) :
    ∀ (fuel : Nat) (d : Dict) (nc : Ctl) (address : Nat) (d' : Dict) (a' : Nat),
      Inv start gEnd d → nc ≠ .i → start < address →
      ftLoop dec end_ none fuel d nc address = .ok (d', a') →
      (∀ k ∈ keys d', ¬ (address ≤ k ∧ k < a')) ∧
      (∀ k, k < address → (k ∈ keys d' ↔ k ∈ keys d)) := by
  intro fuel
  induction fuel with
  | zero =>
    intro d nc address d' a' h _ _ hr
    unfold ftLoop at hr
    split at hr
    · simp at hr
    · simp at hr; obtain ⟨rfl, rfl⟩ := hr
      exact ⟨fun k _ hk => by omega, fun k _ => Iff.rfl⟩
  | succ n ih =>
    intro d nc address d' a' h hn hsa hr
    unfold ftLoop at hr
    split at hr
    · rename_i hlt
      split at hr
      · simp at hr; obtain ⟨rfl, rfl⟩ := hr
        have hdel := delRange_inv (end_ - address) address d nc h hn hsa (by omega)
        refine ⟨fun k hk hc => ?_, fun k hk => ?_⟩
        · have := (hdel.2.2 k).mp hk
          exact this.2 ⟨hc.1, by omega⟩
        · rw [hdel.2.2 k]; constructor
          · exact fun h => h.1
          · exact fun h => ⟨h, by omega⟩
      · rename_i hfit
        simp only at hr
        have hdel := delRange_inv (dec address).size address d nc h hn hsa (by omega)
        generalize delRange d nc address (dec address).size = r at hr hdel
        have hbelow : ∀ k, k < address → (k ∈ keys r.1 ↔ k ∈ keys d) := by
          intro k hk; rw [hdel.2.2 k]; constructor
          · exact fun h => h.1
          · exact fun h => ⟨h, by omega⟩
        have hclear : ∀ k ∈ keys r.1, ¬ (address ≤ k ∧ k < address + (dec address).size) :=
          fun k hk => ((hdel.2.2 k).mp hk).2
        split at hr
        · simp at hr; obtain ⟨rfl, rfl⟩ := hr; exact ⟨hclear, hbelow⟩
        · split at hr
          · split at hr
            · simp at hr; obtain ⟨rfl, rfl⟩ := hr
              refine ⟨fun k hk hc => ?_, fun k hk => ?_⟩
              · rw [mem_keys_dset] at hk
                rcases hk with rfl | hk
                · omega
                · exact hclear k hk hc
              · rw [mem_keys_dset]
                constructor
                · rintro (rfl | hk')
                  · omega
                  · exact (hbelow k hk).mp hk'
                · exact fun hk' => Or.inr ((hbelow k hk).mpr hk')
            · simp at hr; obtain ⟨rfl, rfl⟩ := hr; exact ⟨hclear, hbelow⟩
          · have := ih r.1 r.2 _ d' a' hdel.1 hdel.2.1 (by omega) hr
            refine ⟨fun k hk hc => ?_, fun k hk => ?_⟩
            · by_cases hk2 : k < address + (dec address).size
              · have := (this.2 k hk2).mp hk
                exact hclear k this ⟨hc.1, hk2⟩
              · exact this.1 k hk ⟨by omega, hc.2⟩
            · rw [this.2 k (by omega)]; exact hbelow k hk
    · simp at hr; obtain ⟨rfl, rfl⟩ := hr
      exact ⟨fun k _ hk => by omega, fun k _ => Iff.rfl⟩

end SnaCtl
