import SkoolVerif.Proofs.EdgesInv
/-!
An odd `polarity` only inverts the signal: one more edge at the front, every index
moves up by one.
-/
namespace Edges
open EdgeSpec

def incDb (d : DataBlock) : DataBlock := { d with start := d.start + 1, stop := d.stop + 1 }

/-- `s'` is `s` with one more edge `x` in front (the run with the opposite polarity). -/
def Inverted (x : Int) (s s' : St) : Prop :=
  s'.edges = x :: s.edges ∧ s'.t = s.t ∧ s'.tail = s.tail ∧ s'.keys = s.keys ∧ s'.dbs = s.dbs.map incDb ∧
  s.edges ≠ []

/-- Block polarities as the parsers produce them. -/
def PolOk (b : Block) : Prop := b.timings.polarity = none ∨ b.timings.polarity = some 0 ∨ b.timings.polarity = some 1

theorem length_pos_of_ne_nil {e : List Int} (h : e ≠ []) : 1 ≤ e.length := by
  cases e with
  | nil => exact absurd rfl h
  | cons a r => simp

theorem checkPolarity_inv (tp : Option Nat) (htp : tp = none ∨ tp = some 0 ∨ tp = some 1)
    (x : Int) (e : List Int) (t : Int) (he : e ≠ []) :
    checkPolarity tp 1 (x :: e) t = x :: checkPolarity tp 0 e t := by
  have hl := length_pos_of_ne_nil he
  unfold checkPolarity
  rcases htp with rfl | rfl | rfl
  · rfl
  · simp only [List.length_cons, Nat.add_sub_cancel]
    have h1 : (0 : Nat) ^^^ ((1 : Int) % 2).toNat = 1 := by decide
    have h0 : (0 : Nat) ^^^ ((0 : Int) % 2).toNat = 0 := by decide
    rw [h1, h0]
    by_cases h : (e.length - 1) % 2 = 0
    · have h' : ¬ e.length % 2 ≠ 1 := by omega
      simp [h, h']
    · have h' : e.length % 2 ≠ 1 := by omega
      simp [h, h']
  · simp only [List.length_cons, Nat.add_sub_cancel]
    have h1 : (1 : Nat) ^^^ ((1 : Int) % 2).toNat = 0 := by decide
    have h0 : (1 : Nat) ^^^ ((0 : Int) % 2).toNat = 1 := by decide
    rw [h1, h0]
    by_cases h : (e.length - 1) % 2 = 1
    · have h' : ¬ e.length % 2 ≠ 0 := by omega
      simp [h, h']
    · have h' : e.length % 2 ≠ 0 := by omega
      simp [h, h']

theorem checkPolarity_ne_nil (tp : Option Nat) (pol : Int) (e : List Int) (t : Int) (he : e ≠ []) :
    checkPolarity tp pol e t ≠ [] :=
  ext_ne_nil (Ext.checkPolarity tp pol e t) he

theorem emit_cons (ds : List Nat) (x : Int) (e : List Int) (t : Int) :
    emit ds (x :: e, t) = (x :: (emit ds (e, t)).1, (emit ds (e, t)).2) := by
  rw [emit_eq, emit_eq]; rfl

theorem bumpLast_cons (d x : Int) (e : List Int) (he : e ≠ []) : bumpLast d (x :: e) = x :: bumpLast d e := by
  cases e with
  | nil => exact absurd rfl he
  | cons a r => rfl

theorem mergeFold_cons (ds : List Nat) (x : Int) (s : MSt) (he : s.edges ≠ []) :
    ds.foldl mergeStep { s with edges := x :: s.edges } =
      { (ds.foldl mergeStep s) with edges := x :: (ds.foldl mergeStep s).edges } := by
  induction ds generalizing s with
  | nil => rfl
  | cons d ds ih =>
    have hstep : mergeStep { s with edges := x :: s.edges } d =
        { (mergeStep s d) with edges := x :: (mergeStep s d).edges } := by
      unfold mergeStep
      by_cases hd : d = 0
      · simp [hd]
      · by_cases hpq : s.p = s.q
        · simp [hd, hpq]
        · simp [hd, hpq, bumpLast_cons _ _ _ he]
    have hne : (mergeStep s d).edges ≠ [] := ext_ne_nil (Ext.mergeStep s d) he
    simp only [List.foldl_cons, hstep]
    exact ih _ hne

theorem dataEdges_cons (tm : Timings) (data : List Nat) (x : Int) (e : List Int) (t : Int) (he : e ≠ []) :
    dataEdges tm data (x :: e, t) = (x :: (dataEdges tm data (e, t)).1, (dataEdges tm data (e, t)).2) := by
  unfold dataEdges
  split
  · have := mergeFold_cons (slowSeq tm.zero tm.one tm.usedBits data) x ⟨e, t, 0, 0⟩ he
    simp only at this
    simp only [this]
  · exact emit_cons _ x e t

theorem pulsePhase_inv (x : Int) (b : Block) (hb : PolOk b) {s s' : St} (h : Inverted x s s') :
    Inverted x (pulsePhase 0 b s) (pulsePhase 1 b s') := by
  obtain ⟨h1, h2, h3, h4, h5, h6⟩ := h
  unfold pulsePhase
  split
  · simp only [h1, h2, checkPolarity_inv _ hb x _ _ h6, emit_cons]
    refine ⟨rfl, rfl, h3, h4, h5, ?_⟩
    rw [emit_eq]
    exact ext_ne_nil ((Ext.checkPolarity _ _ _ _).trans (Ext.cumsum _ _ _)) h6
  · exact ⟨h1, h2, h3, h4, h5, h6⟩

theorem pausePhase_inv (x : Int) (l : Bool) (b : Block) (hb : PolOk b) {s s' : St} (h : Inverted x s s') :
    Inverted x (pausePhase 0 l b s) (pausePhase 1 l b s') := by
  obtain ⟨h1, h2, h3, h4, h5, h6⟩ := h
  unfold pausePhase
  split
  · simp only [h1, h2, checkPolarity_inv _ hb x _ _ h6]
    exact ⟨rfl, rfl, h3, h4, h5, checkPolarity_ne_nil _ _ _ _ h6⟩
  · exact ⟨h1, h2, h3, h4, h5, h6⟩

theorem dataPhase_inv (x : Int) (l : Bool) (b : Block) (hb : PolOk b) {s s' : St} (h : Inverted x s s') :
    Inverted x (dataPhase 0 l b s) (dataPhase 1 l b s') := by
  obtain ⟨h1, h2, h3, h4, h5, h6⟩ := h
  have hl := length_pos_of_ne_nil h6
  unfold dataPhase
  by_cases hd : b.data = []
  · simp only [hd, ne_eq, not_true_eq_false, ↓reduceIte]
    split
    · refine ⟨h1, h2, h3, rfl, ?_, h6⟩
      simp only [h5, h4, h1, List.map_append, List.map_cons, List.map_nil, incDb, List.length_cons]
      congr 3 <;> omega
    · exact ⟨h1, h2, h3, h4, h5, h6⟩
  · have hcp := checkPolarity_ne_nil b.timings.polarity 0 s.edges s.t h6
    have hcpl := length_pos_of_ne_nil hcp
    have hde := ext_ne_nil (Ext.dataEdges b.timings b.data (checkPolarity b.timings.polarity 0 s.edges s.t) s.t) hcp
    have hdel := length_pos_of_ne_nil hde
    simp only [ne_eq, hd, not_false_eq_true, ↓reduceIte, h1, h2, checkPolarity_inv _ hb x _ _ h6,
      dataEdges_cons _ _ _ _ _ hcp]
    by_cases ht : b.timings.tail = 0
    · simp only [ht, not_true_eq_false, ↓reduceIte]
      refine ⟨rfl, rfl, h3, rfl, ?_, hde⟩
      simp only [h5, h4, List.map_append, List.map_cons, List.map_nil, incDb, List.length_cons]
      by_cases hz : hasZero b.timings = true
      · simp only [hz, ↓reduceIte]; congr 3 <;> omega
      · simp only [hz, Bool.false_eq_true, ↓reduceIte]; congr 3 <;> omega
    · simp only [ht, not_false_eq_true, ↓reduceIte]
      refine ⟨rfl, rfl, rfl, rfl, ?_, by simp⟩
      simp only [h5, h4, List.map_append, List.map_cons, List.map_nil, incDb, List.length_cons,
        List.cons_append, List.length_append, List.length_nil]
      by_cases hz : hasZero b.timings = true
      · simp only [hz, ↓reduceIte]; congr 3 <;> omega
      · simp only [hz, Bool.false_eq_true, ↓reduceIte]; congr 3 <;> omega

theorem stepBlock_inv (x : Int) (l : Bool) (b : Block) (hb : PolOk b) {s s' : St} (h : Inverted x s s') :
    Inverted x (stepBlock 0 l b s) (stepBlock 1 l b s') := by
  unfold stepBlock
  have h0 : Inverted x (setKeys b s) (setKeys b s') := by
    obtain ⟨h1, h2, h3, h4, h5, h6⟩ := h
    exact ⟨h1, h2, h3, by simp [setKeys, h4], h5, h6⟩
  exact pausePhase_inv x l b hb (dataPhase_inv x l b hb (pulsePhase_inv x b hb h0))

theorem runBlocks_inv (x : Int) (blocks : List Block) (hb : ∀ b ∈ blocks, PolOk b) {s s' : St}
    (h : Inverted x s s') : Inverted x (runBlocks 0 blocks s) (runBlocks 1 blocks s') := by
  induction blocks generalizing s s' with
  | nil => exact h
  | cons b rest ih =>
    cases rest with
    | nil => exact stepBlock_inv x true b (hb b (by simp)) h
    | cons b' rest' =>
      simp only [runBlocks]
      exact ih (fun c hc => hb c (List.mem_cons_of_mem _ hc)) (stepBlock_inv x false b (hb b (by simp)) h)

theorem adjustLast_inc (m : Nat) (dbs : List DataBlock) :
    adjustLast (m + 1) (dbs.map incDb) = (adjustLast m dbs).map incDb := by
  induction dbs with
  | nil => rfl
  | cons a r ih =>
    cases r with
    | nil =>
      simp only [List.map_cons, List.map_nil, adjustLast, incDb]
      congr 2 <;> omega
    | cons c r' =>
      simp only [List.map_cons, adjustLast] at ih ⊢
      rw [ih]

theorem finish_inv (x : Int) {s s' : St} (h : Inverted x s s') (h2 : s.edges.getLast? = some s.tail → 2 ≤ s.edges.length) :
    finish s' = (x :: (finish s).1, (finish s).2.map incDb) := by
  obtain ⟨h1, _, h3, _, h5, h6⟩ := h
  have hl : (x :: s.edges).getLast? = s.edges.getLast? := by
    cases hs : s.edges with
    | nil => exact absurd hs h6
    | cons a r => rw [List.getLast?_cons_cons]
  unfold finish
  rw [h1, h3, h5, hl]
  by_cases hc : s.edges.getLast? = some s.tail
  · have hlen := h2 hc
    simp only [hc, ↓reduceIte]
    have hd : (x :: s.edges).dropLast = x :: s.edges.dropLast := by
      cases hs : s.edges with
      | nil => exact absurd hs h6
      | cons a r => rfl
    rw [hd]
    have : (x :: s.edges.dropLast).length - 1 = (s.edges.dropLast.length - 1) + 1 := by
      simp; omega
    rw [this, adjustLast_inc]
  · simp only [hc, ↓reduceIte]

end Edges

namespace Edges

theorem checkPolarity_mod (tp : Option Nat) (pol : Int) (e : List Int) (t : Int) :
    checkPolarity tp pol e t = checkPolarity tp (pol % 2) e t := by
  unfold checkPolarity
  have : pol % 2 % 2 = pol % 2 := by omega
  rw [this]

theorem stepBlock_mod (pol : Int) (l : Bool) (b : Block) (s : St) :
    stepBlock pol l b s = stepBlock (pol % 2) l b s := by
  unfold stepBlock pausePhase dataPhase pulsePhase
  simp only [checkPolarity_mod _ pol]

theorem runBlocks_mod (pol : Int) (blocks : List Block) (s : St) :
    runBlocks pol blocks s = runBlocks (pol % 2) blocks s := by
  induction blocks generalizing s with
  | nil => rfl
  | cons b rest ih =>
    cases rest with
    | nil => exact stepBlock_mod pol true b s
    | cons b' rest' =>
      simp only [runBlocks]
      rw [stepBlock_mod pol false b s, ih]

theorem initSt_mod (fe pol : Int) : initSt fe pol = initSt fe (pol % 2) := by
  unfold initSt
  have : pol % 2 % 2 = pol % 2 := by omega
  rw [this]

end Edges
