import SkoolVerif.Model.Bin2Tap
/-! Lemmas about the pure byte-list functions of the bin2tap model. -/
namespace Bin2Tap

/-! ### `_make_block` -/

theorem xorAll_append_self (l : List Nat) : xorAll (l ++ [xorAll l]) = 0 := by
  simp [xorAll, List.foldl_append]

theorem makeBlock_parity (d : List Nat) (h : Bool) : xorAll (makeBlock d h) = 0 := by
  unfold makeBlock; exact xorAll_append_self _

theorem makeBlock_eq (d : List Nat) (h : Bool) :
    makeBlock d h = (if h then 0 else 255) :: (d ++ [xorAll ((if h then 0 else 255) :: d)]) := by
  simp [makeBlock]

theorem makeBlock_length (d : List Nat) (h : Bool) : (makeBlock d h).length = d.length + 2 := by
  simp [makeBlock]

theorem xorAll_cons (f : Nat) (d : List Nat) : xorAll (f :: d) = d.foldl (· ^^^ ·) f := by
  simp [xorAll]

/-! ### `_get_header` -/

theorem padTitle_length (t : List Nat) : (padTitle t).length = 10 := by
  simp [padTitle]; omega

theorem padTitle_prefix (t : List Nat) (i : Nat) (hi : i < 10) :
    (padTitle t)[i]? = if i < t.length then t[i]? else some 32 := by
  unfold padTitle
  by_cases h : i < t.length
  · have h1 : i < (t.take 10).length := by simp; omega
    rw [List.getElem?_append_left h1, if_pos h]
    simp [List.getElem?_take, hi]
  · have hl : (t.take 10).length = t.length := by simp; omega
    have h1 : (t.take 10).length ≤ i := by omega
    rw [List.getElem?_append_right h1, if_neg h, hl, List.getElem?_replicate]
    simp; omega

theorem getHeader_length (t : List Nat) (n : Nat) (k : Kind) : (getHeader t n k).length = 19 := by
  cases k <;> simp [getHeader, makeBlock_length, getWord, padTitle_length]

/-! ### the stack pre-fill -/

theorem prefillLoop_length (bs : List Nat) (idx : Int) (ram : List Nat) :
    (prefillLoop bs idx ram).length = ram.length := by
  induction bs generalizing idx ram with
  | nil => rfl
  | cons b bs ih => simp only [prefillLoop]; rw [ih]; split <;> simp

theorem prefillLoop_get (bs : List Nat) (idx : Int) (ram : List Nat) (i : Nat) (hi : i < ram.length) :
    (prefillLoop bs idx ram)[i]? =
      if idx ≤ i ∧ (i : Int) < idx + bs.length then bs[((i : Int) - idx).toNat]? else ram[i]? := by
  induction bs generalizing idx ram with
  | nil => simp [prefillLoop]; omega
  | cons b bs ih =>
    simp only [prefillLoop]
    rw [ih _ _ (by split <;> simp [hi])]
    have hlen : ((b :: bs).length : Int) = bs.length + 1 := by simp
    rcases Int.lt_trichotomy idx i with h | h | h
    · have e : ((i : Int) - idx).toNat = ((i : Int) - (idx + 1)).toNat + 1 := by omega
      have hset : (if 0 ≤ idx ∧ idx < ↑ram.length then ram.set idx.toNat b else ram)[i]? = ram[i]? := by
        split
        · rw [List.getElem?_set]; have : idx.toNat ≠ i := by omega
          simp [this]
        · rfl
      by_cases h2 : (i : Int) < idx + 1 + bs.length
      · have c1 : idx + 1 ≤ ↑i ∧ (i : Int) < idx + 1 + ↑bs.length := ⟨by omega, h2⟩
        have c2 : idx ≤ ↑i ∧ (i : Int) < idx + ↑(b :: bs).length := ⟨by omega, by omega⟩
        rw [if_pos c1, if_pos c2, e]; rfl
      · have c1 : ¬ (idx + 1 ≤ ↑i ∧ (i : Int) < idx + 1 + ↑bs.length) := by omega
        have c2 : ¬ (idx ≤ ↑i ∧ (i : Int) < idx + ↑(b :: bs).length) := by omega
        rw [if_neg c1, if_neg c2, hset]
    · subst h
      have c1 : ¬ ((i : Int) + 1 ≤ ↑i ∧ (i : Int) < ↑i + 1 + ↑bs.length) := by omega
      have c2 : (i : Int) ≤ ↑i ∧ (i : Int) < ↑i + ↑(b :: bs).length := ⟨by omega, by omega⟩
      rw [if_neg c1, if_pos c2]
      have c3 : (0 : Int) ≤ ↑i ∧ (i : Int) < ↑ram.length := ⟨by omega, by omega⟩
      rw [if_pos c3]
      simp [hi]
    · have c1 : ¬ (idx + 1 ≤ ↑i ∧ (i : Int) < idx + 1 + ↑bs.length) := by omega
      have c2 : ¬ (idx ≤ ↑i ∧ (i : Int) < idx + ↑(b :: bs).length) := by omega
      rw [if_neg c1, if_neg c2]
      split
      · rw [List.getElem?_set]; have : idx.toNat ≠ i := by omega
        simp [this]
      · rfl

theorem prefill_length (ram : List Nat) (org start stack : Nat) :
    (prefill ram org start stack).length = ram.length := by
  unfold prefill; simp only; split
  · exact prefillLoop_length _ _ _
  · rfl

theorem stackContents_length (start : Nat) : (stackContents start).length = 4 := by
  simp [stackContents, getWord]

/-- Byte `i` of the pre-filled block: the stack byte for address `org + i` if that address is
one of the four below `stack`, else the original byte. -/
theorem prefill_get (ram : List Nat) (org start stack : Nat) (i : Nat) (hi : i < ram.length) :
    (prefill ram org start stack)[i]? =
      if stack ≤ org + i + 4 ∧ org + i < stack then (stackContents start)[org + i + 4 - stack]? else ram[i]? := by
  unfold prefill; simp only
  split
  · rename_i h
    rw [prefillLoop_get _ _ _ _ hi, stackContents_length]
    by_cases hc : stack ≤ org + i + 4 ∧ org + i < stack
    · have c1 : (stack : Int) - org - 4 ≤ i ∧ (i : Int) < (stack : Int) - org - 4 + (4 : Nat) := by omega
      have e : ((i : Int) - ((stack : Int) - org - 4)).toNat = org + i + 4 - stack := by omega
      rw [if_pos c1, if_pos hc, e]
    · have c1 : ¬ ((stack : Int) - org - 4 ≤ i ∧ (i : Int) < (stack : Int) - org - 4 + (4 : Nat)) := by omega
      rw [if_neg c1, if_neg hc]
  · rename_i h
    have hc : ¬ (stack ≤ org + i + 4 ∧ org + i < stack) := by omega
    rw [if_neg hc]

/-! ### the BASIC loader -/

theorem quoted_length (n : Nat) : (quoted n).length = (dec n).length + 2 := by
  simp [quoted]

/-- The length field of BASIC line 10 is the length of the text of the line. -/
theorem basicLine_length_field (clear : Option Nat) (start : Nat) (scr banks : Bool) :
    ∃ body, basicLine clear start scr banks = [0, 10] ++ getWord (body.length + 1) ++ body ++ [13] := by
  cases clear with
  | none =>
    refine ⟨[239, 34, 34, 175, 58, 249, 192, 176] ++ quoted 23296, ?_⟩
    have : (quoted 23296).length = 7 := by decide
    simp [basicLine, getWord, this]
  | some c =>
    refine ⟨[253, 176] ++ quoted c ++ [58] ++
      (if scr then [239, 34, 34, 170, 58, 244, 176] ++ quoted 23739 ++ [44, 175, 34, 111, 34, 58] else []) ++
      (if banks then [239, 34, 34, 175, 58] else []) ++
      [239, 34, 34, 175, 58, 249, 192, 176] ++ quoted start, ?_⟩
    have h7 : (quoted 23739).length = 7 := by decide
    have hl : ([253, 176] ++ quoted c ++ [58] ++
      (if scr then [239, 34, 34, 170, 58, 244, 176] ++ quoted 23739 ++ [44, 175, 34, 111, 34, 58] else []) ++
      (if banks then [239, 34, 34, 175, 58] else []) ++
      [239, 34, 34, 175, 58, 249, 192, 176] ++ quoted start).length + 1 =
        12 + (quoted c).length + (quoted start).length + (if scr then 20 else 0) + (if banks then 5 else 0) := by
      cases scr <;> cases banks <;> simp [h7] <;> omega
    rw [hl]
    simp [basicLine, List.append_assoc]

/-! ### the machine-code loaders -/

theorem dataLoaderCode_length (org length start stack : Nat) :
    (dataLoaderCode org length start stack).length = 19 := by
  simp [dataLoaderCode, getWord]

theorem bankLoaderCode_length (address startAddr : Nat) : (bankLoaderCode address startAddr).length = 38 := by
  simp [bankLoaderCode]

theorem insertSorted_length (x : Nat) (l : List Nat) : (insertSorted x l).length = l.length + 1 := by
  induction l with
  | nil => rfl
  | cons y ys ih => simp only [insertSorted]; split <;> simp [ih]

theorem sortNat_length (l : List Nat) : (sortNat l).length = l.length := by
  induction l with
  | nil => rfl
  | cons x xs ih => simp [sortNat, insertSorted_length, ih]

theorem mem_insertSorted (x y : Nat) (l : List Nat) : y ∈ insertSorted x l ↔ y = x ∨ y ∈ l := by
  induction l with
  | nil => simp [insertSorted]
  | cons z zs ih =>
    simp only [insertSorted]; split
    · simp
    · simp [ih]; constructor
      · rintro (h | h | h) <;> simp [h]
      · rintro (h | h | h) <;> simp [h]

theorem mem_sortNat (y : Nat) (l : List Nat) : y ∈ sortNat l ↔ y ∈ l := by
  induction l with
  | nil => simp [sortNat]
  | cons x xs ih => simp [sortNat, mem_insertSorted, ih]

theorem insertSorted_sorted (x : Nat) (l : List Nat) (h : l.Pairwise (· ≤ ·)) :
    (insertSorted x l).Pairwise (· ≤ ·) := by
  induction l with
  | nil => simp [insertSorted]
  | cons y ys ih =>
    simp only [insertSorted]; split
    · rename_i hxy
      refine List.Pairwise.cons ?_ h
      intro z hz
      rcases List.mem_cons.1 hz with rfl | hz
      · exact hxy
      · exact Nat.le_trans hxy (List.rel_of_pairwise_cons h hz)
    · rename_i hxy
      have hys := List.Pairwise.of_cons h
      refine List.Pairwise.cons ?_ (ih hys)
      intro z hz
      rcases (mem_insertSorted x z ys).1 hz with rfl | hz
      · omega
      · exact List.rel_of_pairwise_cons h hz

theorem sortNat_sorted (l : List Nat) : (sortNat l).Pairwise (· ≤ ·) := by
  induction l with
  | nil => simp [sortNat]
  | cons x xs ih => exact insertSorted_sorted x _ ih

end Bin2Tap
