import SkoolVerif.Proofs.SemBitLemmas
/-!
Per-closure refinement, family 4: CB-group rotates/shifts (`f_*`), the carry-consuming
read-modify-write closures (`fc_*`: INC DEC RL RR, and ADC/SBC A,A), BIT, RES, SET, IN r,(C).
-/
namespace C05
open Z80 Sim Spec Z80Isa Z80Spec TableRanges AluCheck
variable {μ : Type} [MemLike μ] [CellMem μ]

theorem natCast_toNat (v : Int) (h : Byte v) : ((v.toNat : Nat) : Int) = v := by unfold Byte at h; omega

/-! ### rotates -/

theorem sem_f_r (cfg : Cfg) (f : TblP1) (r : Int) (d : Decoded)
    (hz : zinstrOf (.f_r f r) = some d) (s : St μ) (hi : RInv s) :
    Sim.f_r cfg f r s = Spec.exec cfg d s := by
  zinv hz
  obtain ⟨op, hop, g, hg, rfl⟩ := hz
  rinv_setup hi
  obtain ⟨rfl, g2, g3, g4⟩ := gpr_inv r g hg
  simp only [sim_handler, Id.run, pure]
  rw [rot_tbl_spec f op hop ((rget s.reg 1 % 2).toNat) _ (hr.byte _ (by omega) (by omega) (by omega))]
  spec_simp []; idx_simp; rsimp hs; rw [hR2]
  st_regs hs

theorem sem_f_hl (cfg : Cfg) (f : TblP1) (d : Decoded)
    (hz : zinstrOf (.f_hl f) = some d) (s : St μ) (hi : RInv s) :
    Sim.f_hl cfg f s = Spec.exec cfg d s := by
  zinv hz
  obtain ⟨op, hop, rfl⟩ := hz
  rinv_setup hi
  simp only [sim_handler, Id.run, pure]
  rw [rot_tbl_spec f op hop ((rget s.reg 1 % 2).toNat) _ (hmem.byte _)]
  spec_simp []; idx_simp; rsimp hs; rw [hR2]
  split <;> st_regs hs

theorem sem_f_xy (cfg : Cfg) (f : TblP1) (xyh xyl dest : Int) (d : Decoded)
    (hz : zinstrOf (.f_xy f xyh xyl dest) = some d) (s : St μ) (hi : RInv s) :
    Sim.f_xy cfg f xyh xyl dest s = Spec.exec cfg d s := by
  zinv hz
  obtain ⟨op, hop, i, hx, c, hc, rfl⟩ := hz
  rinv_setup hi
  simp only [sim_handler, Id.run, pure]
  rw [rot_tbl_spec f op hop ((rget s.reg 1 % 2).toNat) _ (hmem.byte _)]
  have e : s.pc + 4 - 2 = s.pc + 2 := by omega
  simp only [e]
  rcases copyOf_inv dest c hc with ⟨rfl, rfl⟩ | ⟨g, rfl, hg⟩
  · simp only [ge_iff_le, Int.reduceNeg, Int.reduceLE, if_false]
    idx_cases hx <;>
      (spec_simp [sgn8_OFFSETS]; idx_simp; rsimp hs; rw [hR2]
       split <;> st_regs hs)
  · obtain ⟨rfl, g2, g3, g4⟩ := gpr_inv dest g hg
    have : idx g ≥ 0 := g2
    simp only [this, if_true]
    idx_cases hx <;>
      (spec_simp [sgn8_OFFSETS]; idx_simp; rsimp hs; rw [hR2]
       split <;> st_regs hs)

/-! ### INC DEC RL RR -/

theorem fc_tbl_inc (c v : Int) (hc : 0 ≤ c ∧ c < 2) (hv : Byte v) :
    Tbl.INC c v = (((inc c.toNat v.toNat).1 : Int), ((inc c.toNat v.toNat).2 : Int)) := (INC_spec c v hc hv).1
theorem fc_tbl_dec (c v : Int) (hc : 0 ≤ c ∧ c < 2) (hv : Byte v) :
    Tbl.DEC c v = (((dec c.toNat v.toNat).1 : Int), ((dec c.toNat v.toNat).2 : Int)) := (DEC_spec c v hc hv).1
theorem fc_tbl_rl (c v : Int) (hc : 0 ≤ c ∧ c < 2) (hv : Byte v) :
    Tbl.RL c v = (((rl c.toNat v.toNat).1 : Int), ((rl c.toNat v.toNat).2 : Int)) := (RL_spec c v hc hv).1
theorem fc_tbl_rr (c v : Int) (hc : 0 ≤ c ∧ c < 2) (hv : Byte v) :
    Tbl.RR c v = (((rr c.toNat v.toNat).1 : Int), ((rr c.toNat v.toNat).2 : Int)) := (RR_spec c v hc hv).1

theorem sem_fc_r (cfg : Cfg) (r_inc : TblI1) (timing size : Int) (fc : TblP2) (r : Int) (d : Decoded)
    (hz : zinstrOf (.fc_r r_inc timing size fc r) = some d) (s : St μ) (hi : RInv s) :
    Sim.fc_r cfg r_inc timing size fc r s = Spec.exec cfg d s := by
  zinv hz
  obtain ⟨m, hm, hz⟩ := hz
  rinv_setup hi
  have hR := rinc_spec r_inc m _ hm hb15
  have hA := hr.byte 0 (by omega) (by omega) (by omega)
  have hcr := mod2_range (rget s.reg 1)
  simp only [sim_handler, Id.run, pure]
  split at hz
  · -- ADC A,A
    zif hz; subst hz; subst_vars
    simp only [TblP2.get]
    rw [(ADC_A_A_spec _ _ hcr hA).1]
    spec_simp [aluSpec]; idx_simp; rsimp hs; rw [hR]
    st_regs hs
  · -- SBC A,A
    zif hz; subst hz; subst_vars
    simp only [TblP2.get]
    rw [(SBC_A_A_spec _ _ hcr hA).1]
    spec_simp [aluSpec]; idx_simp; rsimp hs; rw [hR]
    st_regs hs
  · simp only [Option.bind_eq_bind, Option.bind_eq_some_iff, Option.some.injEq] at hz
    obtain ⟨g, hg, i, hfi, rfl⟩ := hz
    obtain ⟨rfl, g2, g3, g4⟩ := gpr_inv r g hg
    have hv := hr.byte (idx g) (by omega) (by omega) (by omega)
    rcases fcInstr_inv _ _ _ _ hfi with ⟨rfl, -, rfl⟩ | ⟨rfl, -, rfl⟩ | ⟨rfl, rfl⟩ | ⟨rfl, rfl⟩ <;>
      simp only [TblP2.get]
    · rw [fc_tbl_inc _ _ hcr hv]; spec_simp []; idx_simp; rsimp hs; rw [hR]; st_regs hs
    · rw [fc_tbl_dec _ _ hcr hv]; spec_simp []; idx_simp; rsimp hs; rw [hR]; st_regs hs
    · rw [fc_tbl_rl _ _ hcr hv]; spec_simp [rotSpec]; idx_simp; rsimp hs; rw [hR]; st_regs hs
    · rw [fc_tbl_rr _ _ hcr hv]; spec_simp [rotSpec]; idx_simp; rsimp hs; rw [hR]; st_regs hs

theorem sem_fc_hl (cfg : Cfg) (r_inc : TblI1) (timing size : Int) (fc : TblP2) (d : Decoded)
    (hz : zinstrOf (.fc_hl r_inc timing size fc) = some d) (s : St μ) (hi : RInv s) :
    Sim.fc_hl cfg r_inc timing size fc s = Spec.exec cfg d s := by
  zinv hz
  obtain ⟨m, hm, i, hfi, rfl⟩ := hz
  rinv_setup hi
  have hR := rinc_spec r_inc m _ hm hb15
  have hcr := mod2_range (rget s.reg 1)
  have hv := hmem.byte (rget s.reg 7 + 256 * rget s.reg 6)
  simp only [sim_handler, Id.run, pure]
  rcases fcInstr_inv _ _ _ _ hfi with ⟨rfl, -, rfl⟩ | ⟨rfl, -, rfl⟩ | ⟨rfl, rfl⟩ | ⟨rfl, rfl⟩ <;>
    simp only [TblP2.get]
  · rw [fc_tbl_inc _ _ hcr hv]; spec_simp []; idx_simp; rsimp hs; rw [hR]; split <;> st_regs hs
  · rw [fc_tbl_dec _ _ hcr hv]; spec_simp []; idx_simp; rsimp hs; rw [hR]; split <;> st_regs hs
  · rw [fc_tbl_rl _ _ hcr hv]; spec_simp [rotSpec]; idx_simp; rsimp hs; rw [hR]; split <;> st_regs hs
  · rw [fc_tbl_rr _ _ hcr hv]; spec_simp [rotSpec]; idx_simp; rsimp hs; rw [hR]; split <;> st_regs hs

theorem sem_fc_xy (cfg : Cfg) (size : Int) (fc : TblP2) (xyh xyl dest : Int) (d : Decoded)
    (hz : zinstrOf (.fc_xy size fc xyh xyl dest) = some d) (s : St μ) (hi : RInv s) :
    Sim.fc_xy cfg size fc xyh xyl dest s = Spec.exec cfg d s := by
  zinv hz
  obtain ⟨x, hx, c, hc, i, hfi, rfl⟩ := hz
  rinv_setup hi
  have hcr := mod2_range (rget s.reg 1)
  simp only [sim_handler, Id.run, pure]
  rcases copyOf_inv dest c hc with ⟨rfl, rfl⟩ | ⟨g, rfl, hg⟩
  · simp only [ge_iff_le, Int.reduceNeg, Int.reduceLE, if_false]
    rcases fcInstr_inv _ _ _ _ hfi with ⟨rfl, -, rfl⟩ | ⟨rfl, -, rfl⟩ | ⟨rfl, rfl⟩ | ⟨rfl, rfl⟩ <;>
      simp only [TblP2.get] <;> idx_cases hx
    all_goals first
      | (rw [fc_tbl_inc _ _ hcr (hmem.byte _)]; spec_simp [sgn8_OFFSETS]; idx_simp; rsimp hs; rw [hR2]; split <;> st_regs hs)
      | (rw [fc_tbl_dec _ _ hcr (hmem.byte _)]; spec_simp [sgn8_OFFSETS]; idx_simp; rsimp hs; rw [hR2]; split <;> st_regs hs)
      | (rw [fc_tbl_rl _ _ hcr (hmem.byte _)]; spec_simp [sgn8_OFFSETS, rotSpec]; idx_simp; rsimp hs; rw [hR2]; split <;> st_regs hs)
      | (rw [fc_tbl_rr _ _ hcr (hmem.byte _)]; spec_simp [sgn8_OFFSETS, rotSpec]; idx_simp; rsimp hs; rw [hR2]; split <;> st_regs hs)
  · obtain ⟨rfl, g2, g3, g4⟩ := gpr_inv dest g hg
    have : idx g ≥ 0 := g2
    simp only [this, if_true]
    rcases fcInstr_inv _ _ _ _ hfi with ⟨rfl, hcn, rfl⟩ | ⟨rfl, hcn, rfl⟩ | ⟨rfl, rfl⟩ | ⟨rfl, rfl⟩ <;>
      (try simp at hcn) <;> simp only [TblP2.get] <;> idx_cases hx
    all_goals first
      | (rw [fc_tbl_rl _ _ hcr (hmem.byte _)]; spec_simp [sgn8_OFFSETS, rotSpec]; idx_simp; rsimp hs; rw [hR2]; split <;> st_regs hs)
      | (rw [fc_tbl_rr _ _ hcr (hmem.byte _)]; spec_simp [sgn8_OFFSETS, rotSpec]; idx_simp; rsimp hs; rw [hR2]; split <;> st_regs hs)

/-! ### BIT -/

theorem sem_bit_r (cfg : Cfg) (bit : TblI3) (b reg : Int) (d : Decoded)
    (hz : zinstrOf (.bit_r bit b reg) = some d) (s : St μ) (hi : RInv s) :
    Sim.bit_r cfg bit b reg s = Spec.exec cfg d s := by
  zinv hz
  obtain ⟨g, hg, hz⟩ := hz
  zif hz
  rename_i hb
  subst hz
  rinv_setup hi
  obtain ⟨rfl, g2, g3, g4⟩ := gpr_inv reg g hg
  cases bit
  simp only [sim_handler, Id.run, pure, TblI3.get]
  rw [(BIT_spec _ _ _ (mod2_range _) (by omega) (hr.byte _ (by omega) (by omega) (by omega))).1]
  spec_simp []; idx_simp; rsimp hs; rw [hR2]
  st_regs hs

theorem sem_bit_hl (cfg : Cfg) (bit : TblI3) (b : Int) (d : Decoded)
    (hz : zinstrOf (.bit_hl bit b) = some d) (s : St μ) (hi : RInv s) :
    Sim.bit_hl cfg bit b s = Spec.exec cfg d s := by
  zinv hz
  zif hz
  rename_i hb
  subst hz
  rinv_setup hi
  cases bit
  simp only [sim_handler, Id.run, pure, TblI3.get]
  rw [(BIT_spec _ _ _ (mod2_range _) (by omega) (hmem.byte _)).1]
  spec_simp []; idx_simp; rsimp hs; rw [hR2]
  st_regs hs

theorem sem_bit_xy (cfg : Cfg) (bit : TblI3) (b xyh xyl : Int) (d : Decoded)
    (hz : zinstrOf (.bit_xy bit b xyh xyl) = some d) (s : St μ) (hi : RInv s) :
    Sim.bit_xy cfg bit b xyh xyl s = Spec.exec cfg d s := by
  zinv hz
  obtain ⟨i, hx, hz⟩ := hz
  zif hz
  rename_i hb
  subst hz
  rinv_setup hi
  cases bit
  simp only [sim_handler, Id.run, pure, TblI3.get]
  have hhi : ∀ a : Int, Byte (a % 65536 / 256) := by intro a; unfold Byte; omega
  idx_cases hx <;>
    (rw [bit_xy_spec _ _ _ _ (mod2_range _) (by omega) (hmem.byte _) (hhi _)]
     spec_simp [sgn8_OFFSETS]; idx_simp; rsimp hs; rw [hR2]
     have e : ((b.toNat : Nat) : Int) = b := by omega
     st_regs hs)

/-! ### RES / SET -/

theorem sem_res_r (cfg : Cfg) (bit reg : Int) (d : Decoded)
    (hz : zinstrOf (.res_r bit reg) = some d) (s : St μ) (hi : RInv s) :
    Sim.res_r cfg bit reg s = Spec.exec cfg d s := by
  zinv hz
  obtain ⟨n, hn, g, hg, rfl⟩ := hz
  rinv_setup hi
  obtain ⟨rfl, g2, g3, g4⟩ := gpr_inv reg g hg
  simp only [sim_handler, Id.run, pure]
  rw [res_spec bit n hn _ (hr.byte _ (by omega) (by omega) (by omega))]
  spec_simp []; idx_simp; rsimp hs; rw [hR2]
  st_regs hs

theorem sem_res_hl (cfg : Cfg) (bit : Int) (d : Decoded)
    (hz : zinstrOf (.res_hl bit) = some d) (s : St μ) (hi : RInv s) :
    Sim.res_hl cfg bit s = Spec.exec cfg d s := by
  zinv hz
  obtain ⟨n, hn, rfl⟩ := hz
  rinv_setup hi
  simp only [sim_handler, Id.run, pure]
  rw [res_spec bit n hn _ (hmem.byte _)]
  spec_simp []; idx_simp; rsimp hs; rw [hR2]
  split <;> rfl

theorem sem_res_xy (cfg : Cfg) (bit xyh xyl dest : Int) (d : Decoded)
    (hz : zinstrOf (.res_xy bit xyh xyl dest) = some d) (s : St μ) (hi : RInv s) :
    Sim.res_xy cfg bit xyh xyl dest s = Spec.exec cfg d s := by
  zinv hz
  obtain ⟨n, hn, i, hx, c, hc, rfl⟩ := hz
  rinv_setup hi
  simp only [sim_handler, Id.run, pure]
  rw [res_spec bit n hn _ (hmem.byte _)]
  rcases copyOf_inv dest c hc with ⟨rfl, rfl⟩ | ⟨g, rfl, hg⟩
  · simp only [ge_iff_le, Int.reduceNeg, Int.reduceLE, if_false]
    idx_cases hx <;>
      (spec_simp [sgn8_OFFSETS]; idx_simp; rsimp hs; rw [hR2]
       split <;> rfl)
  · obtain ⟨rfl, g2, g3, g4⟩ := gpr_inv dest g hg
    have : idx g ≥ 0 := g2
    simp only [this, if_true]
    idx_cases hx <;>
      (spec_simp [sgn8_OFFSETS]; idx_simp; rsimp hs; rw [hR2]
       split <;> st_regs hs)

theorem sem_set_r (cfg : Cfg) (bit reg : Int) (d : Decoded)
    (hz : zinstrOf (.set_r bit reg) = some d) (s : St μ) (hi : RInv s) :
    Sim.set_r cfg bit reg s = Spec.exec cfg d s := by
  zinv hz
  obtain ⟨n, hn, g, hg, rfl⟩ := hz
  rinv_setup hi
  obtain ⟨rfl, g2, g3, g4⟩ := gpr_inv reg g hg
  simp only [sim_handler, Id.run, pure]
  rw [set_spec bit n hn _ (hr.byte _ (by omega) (by omega) (by omega))]
  spec_simp []; idx_simp; rsimp hs; rw [hR2]
  st_regs hs

theorem sem_set_hl (cfg : Cfg) (bit : Int) (d : Decoded)
    (hz : zinstrOf (.set_hl bit) = some d) (s : St μ) (hi : RInv s) :
    Sim.set_hl cfg bit s = Spec.exec cfg d s := by
  zinv hz
  obtain ⟨n, hn, rfl⟩ := hz
  rinv_setup hi
  simp only [sim_handler, Id.run, pure]
  rw [set_spec bit n hn _ (hmem.byte _)]
  spec_simp []; idx_simp; rsimp hs; rw [hR2]
  split <;> rfl

theorem sem_set_xy (cfg : Cfg) (bit xyh xyl dest : Int) (d : Decoded)
    (hz : zinstrOf (.set_xy bit xyh xyl dest) = some d) (s : St μ) (hi : RInv s) :
    Sim.set_xy cfg bit xyh xyl dest s = Spec.exec cfg d s := by
  zinv hz
  obtain ⟨n, hn, i, hx, c, hc, rfl⟩ := hz
  rinv_setup hi
  simp only [sim_handler, Id.run, pure]
  rw [set_spec bit n hn _ (hmem.byte _)]
  rcases copyOf_inv dest c hc with ⟨rfl, rfl⟩ | ⟨g, rfl, hg⟩
  · simp only [ge_iff_le, Int.reduceNeg, Int.reduceLE, if_false]
    idx_cases hx <;>
      (spec_simp [sgn8_OFFSETS]; idx_simp; rsimp hs; rw [hR2]
       split <;> rfl)
  · obtain ⟨rfl, g2, g3, g4⟩ := gpr_inv dest g hg
    have : idx g ≥ 0 := g2
    simp only [this, if_true]
    idx_cases hx <;>
      (spec_simp [sgn8_OFFSETS]; idx_simp; rsimp hs; rw [hR2]
       split <;> st_regs hs)

/-! ### IN r,(C) -/

theorem sz53pC_spec (v f : Int) (hv : Byte v) :
    Tbl.SZ53P v + f % 2 = ((sz53pC v.toNat (f % 2).toNat : Nat) : Int) := by
  rw [(SZ53P_spec v hv).1]
  have h0 : Nat.testBit 0 0 = false := by decide
  simp only [sz53pC, sz53p, fromResult, mkF, fl, Bool.false_eq_true, if_false]
  have h2 : f % 2 = 0 ∨ f % 2 = 1 := by omega
  rcases h2 with h | h <;> simp [h]

theorem sem_in_c (cfg : Cfg) (reg : Int) (sz53p : TblI1) (d : Decoded)
    (hz : zinstrOf (.in_c reg sz53p) = some d) (hwf : instrWf (.in_c reg sz53p) = true) (s : St μ) (hi : RInv s) :
    Sim.in_c cfg reg sz53p s = Spec.exec cfg d s := by
  simp only [instrWf, Bool.and_eq_true, decide_eq_true_eq] at hwf
  obtain ⟨-, rfl⟩ := hwf
  zinv hz
  rinv_setup hi
  have hrd := readPort_byte s.ins hins
  simp only [sim_handler, Id.run, pure, TblI1.get]
  split at hz
  · simp only [Option.some.injEq] at hz; subst hz; subst_vars
    simp only [ne_eq, not_true_eq_false, if_false]
    spec_simp []; idx_simp; rsimp hs
    split
    · rsimp hs; rw [hR2, sz53pC_spec _ _ hrd.1]; st_regs hs
    · rsimp hs; rw [hR2, sz53pC_spec _ _ (by unfold Byte; omega)]; st_regs hs
  · simp only [Option.bind_eq_bind, Option.bind_eq_some_iff, Option.some.injEq] at hz
    obtain ⟨g, hg, rfl⟩ := hz
    obtain ⟨rfl, g2, g3, g4⟩ := gpr_inv reg g hg
    simp only [ne_eq, g4, not_false_eq_true, if_true]
    spec_simp []; idx_simp; rsimp hs
    split
    · rsimp hs; rw [hR2, sz53pC_spec _ _ hrd.1]; st_regs hs
    · rsimp hs; rw [hR2, sz53pC_spec _ _ (by unfold Byte; omega)]; st_regs hs

end C05
