import SkoolVerif.Model.TapeFiles
import SkoolVerif.Spec.PzxPuls
/-!
`pulsLoop` (skoolkit's `PULS` decoder) inverts the specification encoder.
-/
namespace TapeFiles
open PzxSpec

theorem word_cons (w : Nat) (R : List Nat) :
    word? (w % 256 :: w / 256 :: R) 0 = .ok w := by
  have : w % 256 + 256 * (w / 256) = w := by omega
  simp only [word?, List.getElem?_cons_zero, List.getElem?_cons_succ, Nat.zero_add]
  rw [this]

theorem word_cons2 (a b w : Nat) (R : List Nat) :
    word? (a :: b :: w % 256 :: w / 256 :: R) 2 = .ok w := by
  have : w % 256 + 256 * (w / 256) = w := by omega
  simp only [word?, List.getElem?_cons_succ, List.getElem?_cons_zero]
  rw [this]

/-- One iteration of the loop consumes exactly one encoded entry. -/
theorem pulsLoop_step (cd : Nat × Nat) (hv : ValidPulse cd) (R : List Nat) (fuel : Nat) (rem : Int)
    (acc : List (Nat × Nat)) (hrem : 0 < rem) :
    pulsLoop (fuel + 1) rem ((pulseWords cd).flatMap wordBytes ++ R) acc =
      pulsLoop fuel (rem - ((pulseWords cd).flatMap wordBytes).length) R (acc ++ [cd]) := by
  obtain ⟨c, d⟩ := cd
  obtain ⟨h1, h2, h3⟩ := hv
  simp only at h1 h2 h3
  have hr : ¬ rem ≤ 0 := by omega
  by_cases hc : c ≠ 1 ∨ d ≥ 65536 <;> by_cases hd : d < 0x8000
  · -- [0x8000 + c, d]
    simp only [pulseWords, hc, hd, ↓reduceIte, List.flatMap_cons, List.flatMap_nil, List.append_nil,
      wordBytes, List.cons_append, List.nil_append]
    rw [pulsLoop]
    simp only [hr, ↓reduceIte, word_cons, word_cons2]
    have h4 : 0x8000 + c > 0x8000 := by omega
    have h5 : ¬ d ≥ 0x8000 := by omega
    have h6 : (0x8000 + c) % 0x8000 = c := by omega
    simp only [h4, h5, h6, ↓reduceIte, List.drop_succ_cons, List.drop_zero, List.length_cons, List.length_nil]
    rfl
  · -- [0x8000 + c, 0x8000 + d / 65536, d % 65536]
    have hd' : ¬ d < 0x8000 := hd
    simp only [pulseWords, hc, hd', ↓reduceIte, List.flatMap_cons, List.flatMap_nil, List.append_nil,
      wordBytes, List.cons_append, List.nil_append]
    rw [pulsLoop]
    simp only [hr, ↓reduceIte, word_cons, word_cons2]
    have h4 : 0x8000 + c > 0x8000 := by omega
    have h5 : 0x8000 + d / 65536 ≥ 0x8000 := by omega
    have h6 : (0x8000 + c) % 0x8000 = c := by omega
    have h7 : (0x8000 + d / 65536) % 0x8000 * 65536 + d % 65536 = d := by omega
    simp only [h4, h5, h6, ↓reduceIte, List.drop_succ_cons, List.drop_zero, word_cons, h7,
      List.length_cons, List.length_nil]
    congr 1
    omega
  · -- [d], count 1
    have hc1 : c = 1 := by omega
    subst hc1
    simp only [pulseWords, hc, hd, ↓reduceIte, List.flatMap_cons, List.flatMap_nil, List.append_nil,
      wordBytes, List.cons_append, List.nil_append]
    rw [pulsLoop]
    simp only [hr, ↓reduceIte, word_cons]
    have h4 : ¬ d > 0x8000 := by omega
    have h5 : ¬ d ≥ 0x8000 := by omega
    simp only [h4, h5, ↓reduceIte, List.drop_succ_cons, List.drop_zero, List.length_cons, List.length_nil]
    rfl
  · -- [0x8000, d], count 1, 0x8000 ≤ d < 65536
    have hc1 : c = 1 := by omega
    subst hc1
    have hd' : ¬ d < 0x8000 := hd
    have hz : d / 65536 = 0 := by omega
    have hm : d % 65536 = d := by omega
    simp only [pulseWords, hc, hd', ↓reduceIte, List.flatMap_cons, List.flatMap_nil, List.append_nil,
      wordBytes, List.cons_append, List.nil_append, hz, hm, Nat.add_zero]
    rw [pulsLoop]
    simp only [hr, ↓reduceIte, word_cons]
    have h4 : ¬ (0x8000 > 0x8000) := by omega
    have h5 : 0x8000 ≥ 0x8000 := by omega
    simp only [h4, h5, ↓reduceIte, List.drop_succ_cons, List.drop_zero, word_cons,
      List.length_cons, List.length_nil]
    have : 0x8000 % 0x8000 * 65536 + d = d := by omega
    rw [this]
    congr 1
    omega

theorem pulseWords_length_pos (cd : Nat × Nat) : 2 ≤ ((pulseWords cd).flatMap wordBytes).length := by
  unfold pulseWords wordBytes
  split <;> split <;> simp

theorem pulsLoop_encode (ps : List (Nat × Nat)) (hv : ∀ cd ∈ ps, ValidPulse cd) (R : List Nat)
    (fuel : Nat) (acc : List (Nat × Nat)) (hf : ps.length ≤ fuel) :
    pulsLoop fuel (encodePuls ps).length (encodePuls ps ++ R) acc = .ok (acc ++ ps) := by
  induction ps generalizing fuel acc with
  | nil => cases fuel <;> simp [pulsLoop, encodePuls]
  | cons cd rest ih =>
    cases fuel with
    | zero => simp at hf
    | succ fuel =>
      have hpos := pulseWords_length_pos cd
      have hlen : (encodePuls (cd :: rest)).length =
          ((pulseWords cd).flatMap wordBytes).length + (encodePuls rest).length := by
        simp [encodePuls]
      have happ : encodePuls (cd :: rest) ++ R = (pulseWords cd).flatMap wordBytes ++ (encodePuls rest ++ R) := by
        simp [encodePuls]
      rw [happ, pulsLoop_step cd (hv cd (by simp)) _ fuel _ acc (by rw [hlen]; omega)]
      have : ((encodePuls (cd :: rest)).length : Int) - (((pulseWords cd).flatMap wordBytes).length : Int)
          = ((encodePuls rest).length : Int) := by rw [hlen]; omega
      rw [this, ih (fun x hx => hv x (List.mem_cons_of_mem _ hx)) fuel _ (by simpa using hf)]
      simp

theorem encodePuls_cons (cd : Nat × Nat) (r : List (Nat × Nat)) :
    encodePuls (cd :: r) = (pulseWords cd).flatMap wordBytes ++ encodePuls r := rfl

theorem encodePuls_length_ge (l : List (Nat × Nat)) : l.length ≤ (encodePuls l).length := by
  induction l with
  | nil => simp
  | cons cd r ih =>
    have := pulseWords_length_pos cd
    rw [encodePuls_cons, List.length_append, List.length_cons]
    omega

end TapeFiles
