import SkoolVerif.Model.TraceLoop
import SkoolVerif.Proofs.TshiftDefs
/-!
Loop-level theory for C10, for an arbitrary step function that satisfies the laws the generated
simulators are proved to satisfy (`Proofs/SimResume.lean`, `Proofs/CmioResume.lean`):

* `ShiftLaw`: the clock enters only modulo the frame ⟹ the whole trace loop commutes with a shift of
  the clock by whole frames (`cRun_shift`);
* `DurLaw`: an instruction takes between 0 and `D` T-states ⟹ the `next_int` bookkeeping of the
  Python loop is a function of the clock: `Tracer.run` (Python) and `CSimulator_trace` (C) compute the
  same run (`pyRun_eq_cRun`);
* `NzLaw`: the step does not read what a Z80-format snapshot drops ⟹ neither does the loop (`cRun_nz`).
-/
namespace TraceLoop
open Z80 Tshift

variable {μ : Type} [MemLike μ]

/-- shift the clock of the machine by `k` frames -/
def tsShift (cfg : Cfg) (ts : TS μ) (k : Int) : TS μ := { ts with s := addFrames cfg ts.s k }

@[simp] theorem tsShift_zero (cfg : Cfg) (ts : TS μ) : tsShift cfg ts 0 = ts := by
  simp [tsShift]

theorem tsShift_add (cfg : Cfg) (ts : TS μ) (j k : Int) :
    tsShift cfg (tsShift cfg ts j) k = tsShift cfg ts (j + k) := by
  simp only [tsShift, addFrames_add]

/-! ### the clock enters only modulo the frame -/

def ShiftLaw (step : StepFn μ) (cfg : Cfg) : Prop :=
  ∀ (s : St μ) (k : Int), step cfg (addFrames cfg s k) = addFrames cfg (step cfg s) k

theorem probePort_shift {step : StepFn μ} {cfg : Cfg} (h : ShiftLaw step cfg) (s : St μ) (k : Int) :
    probePort step cfg (addFrames cfg s k) = probePort step cfg s := by
  unfold probePort
  have : clearLogs (addFrames cfg s k) = addFrames cfg (clearLogs s) k := rfl
  rw [this, h]
  rfl

theorem tstep_shift {step : StepFn μ} {cfg : Cfg} (h : ShiftLaw step cfg) (ts : TS μ) (k : Int) :
    tstep step cfg (tsShift cfg ts k) = tsShift cfg (tstep step cfg ts) k := by
  unfold tstep
  simp only [tsShift]
  rw [probePort_shift h]
  have e : ∀ v, ({ addFrames cfg ts.s k with ins := [v], outs := [], inLog := [] } : St μ) =
      addFrames cfg { ts.s with ins := [v], outs := [], inLog := [] } k := fun _ => rfl
  rw [e, h]
  rfl

theorem accept_shift (cmio : Bool) (cfg : Cfg) (s : St μ) (pc k : Int) :
    (acceptInterrupt cmio (addFrames cfg s k) pc).1 = addFrames cfg (acceptInterrupt cmio s pc).1 k := by
  unfold acceptInterrupt
  have hb : intBlocked (addFrames cfg s k) pc = intBlocked s pc := rfl
  simp only [hb]
  split
  · rfl
  · by_cases him : s.im = 2 <;> simp [intAccepted, addFrames, him] <;> omega

theorem cIter_shift {m : Mode μ} {cfg : Cfg} (h : ShiftLaw m.step cfg) (ts : TS μ) (k : Int) :
    cIter m cfg (tsShift cfg ts k) = tsShift cfg (cIter m cfg ts) k := by
  unfold cIter
  simp only
  rw [tstep_shift h]
  have hpc : (tsShift cfg ts k).s.pc = ts.s.pc := rfl
  have ht : (tsShift cfg (tstep m.step cfg ts) k).s.t % cfg.frame_duration =
      (tstep m.step cfg ts).s.t % cfg.frame_duration := by
    simp only [tsShift, addFrames, shift_emod0]
  have hiff : (tsShift cfg (tstep m.step cfg ts) k).s.iff = (tstep m.step cfg ts).s.iff := rfl
  rw [hpc, ht, hiff]
  split
  · simp only [tsShift]
    rw [accept_shift]
  · rfl

/-- the C trace loop commutes with a shift of the clock by whole frames -/
theorem cRun_shift {m : Mode μ} {cfg : Cfg} (h : ShiftLaw m.step cfg) (n : Nat) (ts : TS μ) (k : Int) :
    cRun m cfg n (tsShift cfg ts k) = tsShift cfg (cRun m cfg n ts) k := by
  induction n generalizing ts with
  | zero => rfl
  | succ n ih => simp only [cRun]; rw [cIter_shift h, ih]

theorem cRun_add (m : Mode μ) (cfg : Cfg) (n1 n2 : Nat) (ts : TS μ) :
    cRun m cfg (n1 + n2) ts = cRun m cfg n2 (cRun m cfg n1 ts) := by
  induction n1 generalizing ts with
  | zero => simp [cRun]
  | succ n ih =>
    have : n + 1 + n2 = (n + n2) + 1 := by omega
    rw [this]; simp only [cRun]; exact ih _

/-! ### the port probe is sound -/

/-- the ports a step logs do not depend on the values it is handed -/
def IoLaw (step : StepFn μ) (cfg : Cfg) : Prop :=
  ∀ (s : St μ) (l : List Int), (step cfg (withIns s l)).inLog = (step cfg s).inLog

/-- The port found by probing (`probePort`, which runs the step with an empty input stream) is the port
the real step of `tstep` reads, whatever value the tracer then returns for it. -/
theorem probe_sound {step : StepFn μ} {cfg : Cfg} (h : IoLaw step cfg) (s : St μ) (v : Int) :
    (step cfg { s with ins := [v], outs := [], inLog := [] }).inLog.head? = probePort step cfg s := by
  unfold probePort
  have e : ({ s with ins := [v], outs := [], inLog := [] } : St μ) = withIns (clearLogs s) [v] := rfl
  rw [e, h]

/-- after a step the per-step port logs are empty again -/
theorem tstep_logs (step : StepFn μ) (cfg : Cfg) (ts : TS μ) :
    (tstep step cfg ts).s.ins = [] ∧ (tstep step cfg ts).s.outs = [] ∧ (tstep step cfg ts).s.inLog = [] :=
  ⟨rfl, rfl, rfl⟩

/-! ### `next_int` is a function of the clock -/

/-- an instruction never runs the clock backwards and takes at most `D` T-states -/
def DurLaw (step : StepFn μ) (cfg : Cfg) (D : Int) : Prop :=
  ∀ s : St μ, s.t ≤ (step cfg s).t ∧ (step cfg s).t ≤ s.t + D

/-- the frame is long enough for the bookkeeping: an instruction plus an interrupt response (19) plus
the INT pulse fit into one frame -/
structure FrameOk (cfg : Cfg) (D : Int) : Prop where
  ia_pos : 0 < cfg.int_active
  fits : D + cfg.int_active + 19 ≤ cfg.frame_duration
  d_nonneg : 0 ≤ D

theorem tstep_t {step : StepFn μ} {cfg : Cfg} {D : Int} (h : DurLaw step cfg D) (ts : TS μ) :
    ts.s.t ≤ (tstep step cfg ts).s.t ∧ (tstep step cfg ts).s.t ≤ ts.s.t + D := by
  unfold tstep
  simp only [clearLogs]
  exact h { ts.s with ins := [readValue ts.tr (probePort step cfg ts.s)], outs := [], inLog := [] }

theorem accept_t (cmio : Bool) (s : St μ) (pc : Int) :
    s.t ≤ (acceptInterrupt cmio s pc).1.t ∧ (acceptInterrupt cmio s pc).1.t ≤ s.t + 19 := by
  unfold acceptInterrupt
  split
  · simp only; omega
  · simp only [intAccepted]
    split <;> omega

/-- the loop invariant relating `next_int` to the clock: `next_int = q * frame` is the frame start whose
INT pulse has not ended yet, or (directly after an accepted interrupt) the clock has just run past
the end of that pulse and `next_int` will be advanced by the next iteration. -/
def Sched (cfg : Cfg) (N t : Int) : Prop :=
  (∃ q : Int, N = q * cfg.frame_duration) ∧
    N + cfg.int_active - cfg.frame_duration ≤ t ∧ t < N + cfg.int_active + 19

theorem sched_start (cfg : Cfg) (t : Int) (hfd : 0 < cfg.frame_duration) : Sched cfg (nextIntOf cfg t) t := by
  unfold Sched nextIntOf
  refine ⟨⟨_, rfl⟩, ?_, ?_⟩
  · have h1 := Int.emod_add_mul_ediv (t + cfg.frame_duration - cfg.int_active) cfg.frame_duration
    have h2 := Int.emod_nonneg (t + cfg.frame_duration - cfg.int_active) (Int.ne_of_gt hfd)
    have h3 : (t + cfg.frame_duration - cfg.int_active) / cfg.frame_duration * cfg.frame_duration =
        cfg.frame_duration * ((t + cfg.frame_duration - cfg.int_active) / cfg.frame_duration) := Int.mul_comm _ _
    omega
  · have h1 := Int.emod_add_mul_ediv (t + cfg.frame_duration - cfg.int_active) cfg.frame_duration
    have h2 := Int.emod_lt_of_pos (t + cfg.frame_duration - cfg.int_active) hfd
    have h3 : (t + cfg.frame_duration - cfg.int_active) / cfg.frame_duration * cfg.frame_duration =
        cfg.frame_duration * ((t + cfg.frame_duration - cfg.int_active) / cfg.frame_duration) := Int.mul_comm _ _
    omega

/-- position in the frame from a multiple of the frame below: `t - q*fd ∈ [0, fd)` -/
theorem emod_of_window (fd q t : Int) (h0 : q * fd ≤ t) (h1 : t < q * fd + fd) : t % fd = t - q * fd := by
  have h : t = (t - q * fd) + q * fd := by omega
  rw [h, Int.add_mul_emod_self_right]
  rw [Int.emod_eq_of_lt (by omega) (by omega)]
  omega

/-- One iteration of the Python loop is one iteration of the C loop, and the invariant is kept. -/
theorem pyIter_eq {m : Mode μ} {cfg : Cfg} {D : Int} (hd : DurLaw m.step cfg D) (hf : FrameOk cfg D)
    (ts : TS μ) (N : Int) (hs : Sched cfg N ts.s.t) :
    (pyIter m cfg ⟨ts, N⟩).ts = cIter m cfg ts ∧
      Sched cfg (pyIter m cfg ⟨ts, N⟩).nextInt (cIter m cfg ts).s.t := by
  obtain ⟨⟨q, hq⟩, hlo, hhi⟩ := hs
  have hia := hf.ia_pos
  have hfit := hf.fits
  have hD := hf.d_nonneg
  have ht := tstep_t hd ts
  unfold pyIter cIter
  simp only
  generalize htv : tstep m.step cfg ts = ts1 at ht ⊢
  have hacc := accept_t m.cmio ts1.s ts.s.pc
  -- the three positions of the new clock value relative to the INT pulse of frame `q`
  by_cases h1 : ts1.s.t ≥ N
  · by_cases h2 : ts1.s.t < N + cfg.int_active
    · -- inside the pulse
      have hm : ts1.s.t % cfg.frame_duration = ts1.s.t - q * cfg.frame_duration :=
        emod_of_window _ q _ (by omega) (by omega)
      have hlt : ts1.s.t % cfg.frame_duration < cfg.int_active := by omega
      rw [if_pos h1, if_pos h2]
      by_cases h3 : ts1.s.iff ≠ 0 ∧ m.interrupts = true
      · have h3' : m.interrupts = true ∧ ts1.s.iff ≠ 0 ∧ ts1.s.t % cfg.frame_duration < cfg.int_active :=
          ⟨h3.2, h3.1, hlt⟩
        rw [if_pos h3, if_pos h3']
        exact ⟨rfl, ⟨q, hq⟩, by simp only; omega, by simp only; omega⟩
      · have h3' : ¬ (m.interrupts = true ∧ ts1.s.iff ≠ 0 ∧ ts1.s.t % cfg.frame_duration < cfg.int_active) :=
          fun h => h3 ⟨h.2.1, h.1⟩
        rw [if_neg h3, if_neg h3']
        exact ⟨rfl, ⟨q, hq⟩, by simp only; omega, by simp only; omega⟩
    · -- past the pulse: advance next_int
      have hm : ts1.s.t % cfg.frame_duration = ts1.s.t - q * cfg.frame_duration :=
        emod_of_window _ q _ (by omega) (by omega)
      have h3' : ¬ (m.interrupts = true ∧ ts1.s.iff ≠ 0 ∧ ts1.s.t % cfg.frame_duration < cfg.int_active) :=
        fun h => by have := h.2.2; omega
      rw [if_pos h1, if_neg h2, if_neg h3']
      refine ⟨rfl, ⟨q + 1, by simp only; rw [hq, Int.add_mul]; omega⟩, by simp only; omega, by simp only; omega⟩
  · -- before the pulse of frame q: still in frame q - 1, past its pulse
    have hm : ts1.s.t % cfg.frame_duration = ts1.s.t - (q - 1) * cfg.frame_duration := by
      apply emod_of_window
      · rw [Int.sub_mul]; omega
      · rw [Int.sub_mul]; omega
    have h3' : ¬ (m.interrupts = true ∧ ts1.s.iff ≠ 0 ∧ ts1.s.t % cfg.frame_duration < cfg.int_active) :=
      fun h => by have := h.2.2; rw [hm, Int.sub_mul] at this; omega
    rw [if_neg h1, if_neg h3']
    exact ⟨rfl, ⟨q, hq⟩, by simp only; omega, by simp only; omega⟩

theorem pyLoop_eq {m : Mode μ} {cfg : Cfg} {D : Int} (hd : DurLaw m.step cfg D) (hf : FrameOk cfg D)
    (n : Nat) (ts : TS μ) (N : Int) (hs : Sched cfg N ts.s.t) :
    (pyLoop m cfg n ⟨ts, N⟩).ts = cRun m cfg n ts := by
  induction n generalizing ts N with
  | zero => rfl
  | succ n ih =>
    simp only [pyLoop, cRun]
    have h := pyIter_eq hd hf ts N hs
    have e : pyIter m cfg ⟨ts, N⟩ = ⟨(pyIter m cfg ⟨ts, N⟩).ts, (pyIter m cfg ⟨ts, N⟩).nextInt⟩ := rfl
    rw [e, h.1]
    exact ih _ _ h.2

/-- `Tracer.run` on a pure Python simulator and `CSimulator_trace` compute the same run: the
`next_int` variable of the Python loop carries no information beyond the clock. -/
theorem pyRun_eq_cRun {m : Mode μ} {cfg : Cfg} {D : Int} (hd : DurLaw m.step cfg D) (hf : FrameOk cfg D)
    (n : Nat) (ts : TS μ) : pyRun m cfg n ts = cRun m cfg n ts := by
  unfold pyRun pyStart
  have hfd : 0 < cfg.frame_duration := by have := hf.fits; have := hf.ia_pos; have := hf.d_nonneg; omega
  exact pyLoop_eq hd hf n ts _ (sched_start cfg ts.s.t hfd)

/-! ### what a Z80 snapshot drops is not read -/

/-- forget MEMPTR, and (if `zh`) the HALT flag -/
def nzB (zh : Bool) (s : St μ) : St μ := { s with halt := if zh then 0 else s.halt, memptr := 0 }

theorem nzB_true (s : St μ) : nzB true s = nzS s := by simp [nzB, nzS]
theorem nzB_false (s : St μ) : nzB false s = nzM s := by simp [nzB, nzM]

/-- forget the last OUT to port 0xFE -/
def nzTr (tr : Tr) : Tr := { tr with outfe := 0 }

def nzT (zh : Bool) (ts : TS μ) : TS μ := { s := nzB zh ts.s, tr := nzTr ts.tr }

/-- the step does not read MEMPTR (nor the HALT flag) in the states satisfying `ok` -/
structure NzLaw (step : StepFn μ) (cfg : Cfg) (zh : Bool) (ok : St μ → Prop) : Prop where
  nz : ∀ s, ok s → nzB zh (step cfg (nzB zh s)) = nzB zh (step cfg s)
  ok_io : ∀ (s : St μ) (i : List Int) (o : List (Int × Int)) (l : List Int), ok s → ok { s with ins := i, outs := o, inLog := l }
  ok_nz : ∀ a b : St μ, nzB zh a = nzB zh b → ok b → ok a

theorem trRead_nzTr (tr : Tr) (p : Int) : trRead (nzTr tr) p = trRead tr p := rfl

theorem trWrite_nzTr (tr : Tr) (p v : Int) : nzTr (trWrite (nzTr tr) p v) = nzTr (trWrite tr p v) := by
  unfold trWrite nzTr
  simp only
  split <;> split <;> (try split) <;> rfl

theorem foldr_nzTr (ws : List (Int × Int)) (tr : Tr) :
    nzTr (ws.foldr (fun w tr => trWrite tr w.1 w.2) (nzTr tr)) = nzTr (ws.foldr (fun w tr => trWrite tr w.1 w.2) tr) := by
  induction ws with
  | nil => rfl
  | cons w ws ih =>
    simp only [List.foldr_cons]
    rw [← trWrite_nzTr, ih, trWrite_nzTr]

/-- fields of a state that `nzB` leaves alone -/
theorem nzB_congr_inLog {zh : Bool} {a b : St μ} (h : nzB zh a = nzB zh b) : a.inLog = b.inLog := by
  have := congrArg St.inLog h; simpa [nzB] using this
theorem nzB_congr_outs {zh : Bool} {a b : St μ} (h : nzB zh a = nzB zh b) : a.outs = b.outs := by
  have := congrArg St.outs h; simpa [nzB] using this

theorem readValue_nzTr (tr : Tr) (p : Option Int) : readValue (nzTr tr) p = readValue tr p := by
  cases p <;> rfl

theorem tstep_nz {step : StepFn μ} {cfg : Cfg} {zh : Bool} {ok : St μ → Prop} (h : NzLaw step cfg zh ok)
    (ts : TS μ) (hok : ok ts.s) : nzT zh (tstep step cfg (nzT zh ts)) = nzT zh (tstep step cfg ts) := by
  have hp : probePort step cfg (nzB zh ts.s) = probePort step cfg ts.s := by
    unfold probePort
    have e : clearLogs (nzB zh ts.s) = nzB zh (clearLogs ts.s) := rfl
    rw [e]
    exact congrArg List.head? (nzB_congr_inLog (h.nz _ (h.ok_io _ _ _ _ hok)))
  unfold tstep
  simp only [nzT]
  rw [hp, readValue_nzTr]
  generalize readValue ts.tr (probePort step cfg ts.s) = v
  have e : ({ nzB zh ts.s with ins := [v], outs := [], inLog := [] } : St μ) =
      nzB zh { ts.s with ins := [v], outs := [], inLog := [] } := rfl
  rw [e]
  have key := h.nz { ts.s with ins := [v], outs := [], inLog := [] } (h.ok_io _ _ _ _ hok)
  have ho := nzB_congr_outs key
  rw [ho, foldr_nzTr]
  have e2 : ∀ x : St μ, nzB zh (clearLogs x) = clearLogs (nzB zh x) := fun _ => rfl
  rw [e2, e2, key]

theorem accept_nz (cmio : Bool) (zh : Bool) (s : St μ) (pc : Int) :
    nzB zh (acceptInterrupt cmio (nzB zh s) pc).1 = nzB zh (acceptInterrupt cmio s pc).1 := by
  unfold acceptInterrupt
  have hb : intBlocked (nzB zh s) pc = intBlocked s pc := rfl
  simp only [hb]
  split
  · simp only [nzB]; cases zh <;> simp
  · simp only [intAccepted, nzB]; cases zh <;> simp <;> exact ⟨rfl, rfl⟩

theorem cIter_nz {m : Mode μ} {cfg : Cfg} {zh : Bool} {ok : St μ → Prop} (h : NzLaw m.step cfg zh ok)
    (ts : TS μ) (hok : ok ts.s) : nzT zh (cIter m cfg (nzT zh ts)) = nzT zh (cIter m cfg ts) := by
  have key := tstep_nz h ts hok
  unfold cIter
  simp only
  have hpc : (nzT zh ts).s.pc = ts.s.pc := rfl
  rw [hpc]
  generalize tstep m.step cfg (nzT zh ts) = a at key ⊢
  generalize tstep m.step cfg ts = b at key ⊢
  have hs : nzB zh a.s = nzB zh b.s := congrArg TS.s key
  have htr : nzTr a.tr = nzTr b.tr := congrArg TS.tr key
  have hiff : a.s.iff = b.s.iff := by have := congrArg St.iff hs; simpa [nzB] using this
  have ht : a.s.t = b.s.t := by have := congrArg St.t hs; simpa [nzB] using this
  rw [hiff, ht]
  split
  · simp only [nzT]
    rw [← accept_nz m.cmio zh a.s, hs, accept_nz, htr]
  · exact key

theorem nzT_idem (zh : Bool) (ts : TS μ) : nzT zh (nzT zh ts) = nzT zh ts := by
  simp only [nzT, nzB, nzTr]
  cases zh <;> simp

theorem cIter_nz' {m : Mode μ} {cfg : Cfg} {zh : Bool} {ok : St μ → Prop} (h : NzLaw m.step cfg zh ok)
    (a b : TS μ) (hab : nzT zh a = nzT zh b) (hok : ok b.s) :
    nzT zh (cIter m cfg a) = nzT zh (cIter m cfg b) := by
  have hoka : ok a.s := h.ok_nz a.s b.s (congrArg TS.s hab) hok
  rw [← cIter_nz h a hoka, hab, cIter_nz h b hok]

/-- The C loop does not read what `nzT` forgets, as long as every executed instruction is `ok`. -/
theorem cRun_nz {m : Mode μ} {cfg : Cfg} {zh : Bool} {ok : St μ → Prop} (h : NzLaw m.step cfg zh ok)
    (n : Nat) (a b : TS μ) (hab : nzT zh a = nzT zh b) (hok : ∀ j, j < n → ok (cRun m cfg j b).s) :
    nzT zh (cRun m cfg n a) = nzT zh (cRun m cfg n b) := by
  induction n generalizing a b with
  | zero => exact hab
  | succ n ih =>
    simp only [cRun]
    apply ih _ _ (cIter_nz' h a b hab (hok 0 (by omega)))
    intro j hj
    have := hok (j + 1) (by omega)
    simpa [cRun] using this

theorem nzT_tsShift (zh : Bool) (cfg : Cfg) (ts : TS μ) (k : Int) :
    nzT zh (tsShift cfg ts k) = tsShift cfg (nzT zh ts) k := rfl

end TraceLoop
