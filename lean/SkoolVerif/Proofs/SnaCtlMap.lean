import SkoolVerif.Proofs.SnaCtlInv
/-!
Invariants of `_generate_ctls_with_code_map` (model: `SnaCtl.genMap`): every mutation primitive
and every step preserves `Inv start end_`.
-/
namespace SnaCtl

/-! ### `_get_blocks` -/

/-- blocks `[ctl, b_start, b_end]` lie inside the range -/
def BlocksIn (start end_ : Nat) (bl : List (Ctl × Nat × Nat)) : Prop :=
  ∀ b ∈ bl, start ≤ b.2.1 ∧ b.2.1 < b.2.2 ∧ b.2.2 ≤ end_

theorem getBlocks_mem {d : Dict} (hs : Sorted d) :
    ∀ b ∈ getBlocks d, b.2.1 ∈ keys d ∧ b.2.2 ∈ keys d ∧ b.2.1 < b.2.2 ∧ dget d b.2.1 = some b.1 := by
  induction d with
  | nil => intro b hb; simp [getBlocks] at hb
  | cons x r ih =>
    obtain ⟨k, v⟩ := x
    cases r with
    | nil => intro b hb; simp [getBlocks] at hb
    | cons y r' =>
      obtain ⟨k', v'⟩ := y
      intro b hb
      have hs' := hs
      rw [sorted_cons] at hs'
      simp only [getBlocks, List.mem_cons] at hb
      rcases hb with rfl | hb
      · exact ⟨by simp, by simp, hs'.1 k' (by simp), by simp [dget]⟩
      · have := ih hs'.2 b hb
        refine ⟨by simp [keys] at this ⊢; exact Or.inr this.1, by simp [keys] at this ⊢; exact Or.inr this.2.1,
          this.2.2.1, ?_⟩
        have hlt := hs'.1 b.2.1 this.1
        rw [dget, if_neg (by omega)]
        exact this.2.2.2

theorem getBlocks_in {start end_ : Nat} {d : Dict} (h : Inv start end_ d) : BlocksIn start end_ (getBlocks d) := by
  intro b hb
  have := getBlocks_mem h.sorted b hb
  exact ⟨(h.bounds _ this.1).1, this.2.2.1, (h.bounds _ this.2.1).2⟩

/-- a block directive that is not the last key is not the terminator -/
theorem getBlocks_ctl_ne_i {start end_ : Nat} {d : Dict} (h : Inv start end_ d) :
    ∀ b ∈ getBlocks d, b.1 ≠ .i := by
  intro b hb hi
  have := getBlocks_mem h.sorted b hb
  have h1 := h.inner b.2.1 (by rw [this.2.2.2, hi])
  have h2 := (h.bounds _ this.2.1).2
  omega

/-- ends of all blocks but the last one are interior keys -/
def InnerEnds (start end_ : Nat) : List (Ctl × Nat × Nat) → Prop
  | e :: e' :: rest => (start < e.2.2 ∧ e.2.2 < end_) ∧ InnerEnds start end_ (e' :: rest)
  | _ => True

theorem getBlocks_innerEnds {start end_ : Nat} : ∀ {d : Dict}, Sorted d → (∀ k ∈ keys d, start ≤ k ∧ k ≤ end_) →
    InnerEnds start end_ (getBlocks d) := by
  intro d
  induction d with
  | nil => intro _ _; simp [getBlocks, InnerEnds]
  | cons x r ih =>
    obtain ⟨k, v⟩ := x
    cases r with
    | nil => intro _ _; simp [getBlocks, InnerEnds]
    | cons y r' =>
      obtain ⟨k', v'⟩ := y
      cases r' with
      | nil => intro _ _; simp [getBlocks, InnerEnds]
      | cons z r'' =>
        obtain ⟨k'', v''⟩ := z
        intro hs hb
        have hs' := hs
        rw [sorted_cons] at hs'
        have hs'' := hs'.2
        rw [sorted_cons] at hs''
        have ih' := ih hs'.2 (fun k hk => hb k (by simp [keys] at hk ⊢; exact Or.inr hk))
        simp only [getBlocks] at ih' ⊢
        refine ⟨⟨?_, ?_⟩, ih'⟩
        · have := hs'.1 k' (by simp); have := (hb k (by simp)).1; simp only; omega
        · have := hs''.1 k'' (by simp); have := (hb k'' (by simp)).2; simp only; omega

/-! ### step (1) -/

theorem codeBlockStep_fst (dec : Dec) (bs : List (Nat × Nat)) (a : Nat) (P : Nat → Prop)
    (h : ∀ b ∈ bs, P b.1) (ha : P a) : ∀ b ∈ codeBlockStep dec bs a, P b.1 := by
  unfold codeBlockStep
  split
  · rename_i ba bl r
    split
    · split
      · intro b hb
        simp at hb
        rcases hb with rfl | hb
        · exact h (ba, bl) (by simp)
        · exact h b (by simp [hb])
      · exact h
    · intro b hb
      simp at hb
      rcases hb with rfl | hb
      · exact ha
      · exact h b (by simpa using hb)
  · intro b hb; simp at hb; subst hb; exact ha

theorem codeBlocks_fst (dec : Dec) (P : Nat → Prop) :
    ∀ (addrs : List Nat) (bs : List (Nat × Nat)), (∀ b ∈ bs, P b.1) → (∀ a ∈ addrs, P a) →
      ∀ b ∈ addrs.foldl (codeBlockStep dec) bs, P b.1 := by
  intro addrs
  induction addrs with
  | nil => intro bs h _; exact h
  | cons a r ih =>
    intro bs h ha
    exact ih _ (codeBlockStep_fst dec bs a P h (ha a (by simp))) (fun x hx => ha x (by simp [hx]))

theorem initBase_inv {start end_ : Nat} (hse : start ≤ end_) :
    Inv start end_ (dset (dset [] start .U) end_ .i) := by
  rcases Nat.eq_or_lt_of_le hse with rfl | hlt
  · have e : dset (dset [] start .U) start .i = [(start, .i)] := by simp [dset]
    rw [e]
    constructor
    · simp [Sorted]
    · simp
    · simp [dget]
    · simp
    · intro k hk
      simp only [dget] at hk
      split at hk
      · assumption
      · simp at hk
  · have e : dset (dset [] start .U) end_ .i = [(start, .U), (end_, .i)] := by
      simp [dset, Nat.lt_asymm hlt, Nat.ne_of_gt hlt]
    rw [e]
    constructor
    · simp [Sorted, hlt]
    · simp
    · simp [dget, Nat.ne_of_gt hlt]
    · intro k hk; simp at hk; omega
    · intro k hk
      simp only [dget] at hk
      split at hk
      · simp at hk
      · split at hk
        · assumption
        · simp at hk

theorem initMap_inv {start end_ : Nat} (hse : start ≤ end_) (blocks : List (Nat × Nat))
    (hb : ∀ b ∈ blocks, start ≤ b.1 ∧ b.1 < end_) : Inv start end_ (initMap start end_ blocks) := by
  unfold initMap
  apply foldl_inv (initMapStep end_) (fun b => start ≤ b.1 ∧ b.1 < end_) _ blocks _ _ hb
  · intro d b h hb
    unfold initMapStep
    simp only
    split
    · exact inv_dset (inv_dset h hb.1 hb.2 (by simp)) (by omega) (by assumption) (by simp)
    · exact inv_dset h hb.1 hb.2 (by simp)
  · exact initBase_inv hse

/-! ### `_find_terminal_instruction` -/

theorem delRange_inv {start end_ : Nat} : ∀ (n a : Nat) (d : Dict) (nc : Ctl),
    Inv start end_ d → nc ≠ .i → start < a → a + n ≤ end_ →
    Inv start end_ (delRange d nc a n).1 ∧ (delRange d nc a n).2 ≠ .i ∧
      (∀ k, k ∈ keys (delRange d nc a n).1 ↔ k ∈ keys d ∧ ¬ (a ≤ k ∧ k < a + n)) := by
  intro n
  induction n with
  | zero => intro a d nc h hn _ _; simp [delRange]; exact ⟨h, hn⟩
  | succ n ih =>
    intro a d nc h hn h1 h2
    unfold delRange
    split
    · rename_i v hv
      have hvi : v ≠ .i := by
        intro e; subst e
        have := h.inner a hv; omega
      have := ih (a + 1) (ddel d a) v (inv_ddel h (by omega) (by omega)) hvi (by omega) (by omega)
      refine ⟨this.1, this.2.1, ?_⟩
      intro k
      rw [this.2.2 k, mem_keys_ddel h.sorted]
      constructor
      · rintro ⟨⟨h3, h4⟩, h5⟩; exact ⟨h4, by omega⟩
      · rintro ⟨h3, h4⟩; exact ⟨⟨by omega, h3⟩, by omega⟩
    · rename_i hv
      have hnot : a ∉ keys d := (dget_eq_none_iff d a).mp hv
      have := ih (a + 1) d nc h hn (by omega) (by omega)
      refine ⟨this.1, this.2.1, ?_⟩
      intro k
      rw [this.2.2 k]
      constructor
      · rintro ⟨h3, h4⟩; refine ⟨h3, ?_⟩; intro h5; have : k = a := by omega
        subst this; exact hnot h3
      · rintro ⟨h3, h4⟩; exact ⟨h3, by omega⟩

/-- The `while` loop of `_find_terminal_instruction` with `ctl = None` (step (2)) preserves
`Inv start gEnd` whenever it is asked to stay inside `[.., end_]` with `end_ ≤ gEnd` and starts
after `start` (it deletes the directives it walks over), and — thanks to the guard of commit
474e06a — never returns an address beyond `end_`. -/
theorem ftLoop_inv_none {dec : Dec} {start gEnd end_ : Nat} (hge : end_ ≤ gEnd) :
    ∀ (fuel : Nat) (d : Dict) (nc : Ctl) (address : Nat) (d' : Dict) (a' : Nat),
      Inv start gEnd d → nc ≠ .i → start < address →
      ftLoop dec end_ none fuel d nc address = .ok (d', a') →
      Inv start gEnd d' ∧ (address ≤ end_ → a' ≤ end_) ∧ address ≤ a' := by
  intro fuel
  induction fuel with
  | zero =>
    intro d nc address d' a' h _ _ hr
    unfold ftLoop at hr
    split at hr
    · simp at hr
    · simp at hr; obtain ⟨rfl, rfl⟩ := hr; exact ⟨h, fun x => x, Nat.le_refl _⟩
  | succ n ih =>
    intro d nc address d' a' h hn hsa hr
    unfold ftLoop at hr
    split at hr
    · rename_i hlt
      split at hr
      · simp at hr; obtain ⟨rfl, rfl⟩ := hr
        exact ⟨(delRange_inv (end_ - address) address d nc h hn hsa (by omega)).1, fun _ => Nat.le_refl _, by omega⟩
      · rename_i hfit
        simp only at hr
        have hdel := delRange_inv (dec address).size address d nc h hn hsa (by omega)
        generalize delRange d nc address (dec address).size = r at hr hdel
        split at hr
        · simp at hr; obtain ⟨rfl, rfl⟩ := hr; exact ⟨hdel.1, fun _ => by omega, by omega⟩
        · split at hr
          · split at hr
            · rename_i hcond
              simp at hr; obtain ⟨rfl, rfl⟩ := hr
              have hnk : address + (dec address).size ∉ keys r.1 := (dget_eq_none_iff _ _).mp hcond.2
              have hne : address + (dec address).size ≠ gEnd := by
                intro e; rw [e] at hnk
                exact hnk ((dget_isSome_iff _ _).mp ⟨_, hdel.1.term⟩)
              exact ⟨inv_dset hdel.1 (by omega) (by omega) hdel.2.1, fun _ => by omega, by omega⟩
            · simp at hr; obtain ⟨rfl, rfl⟩ := hr; exact ⟨hdel.1, fun _ => by omega, by omega⟩
          · have := ih r.1 r.2 _ d' a' hdel.1 hdel.2.1 (by omega) hr
            exact ⟨this.1, fun _ => this.2.1 (by omega), by omega⟩
    · simp at hr; obtain ⟨rfl, rfl⟩ := hr; exact ⟨h, fun x => x, Nat.le_refl _⟩

/-- With a directive letter (`ctl` not `None`) nothing is deleted, so the walk may start at `start`. -/
theorem ftLoop_inv_some {dec : Dec} {start gEnd end_ : Nat} {c : Ctl} (hc : c ≠ .i) (hge : end_ ≤ gEnd) :
    ∀ (fuel : Nat) (d : Dict) (nc : Ctl) (address : Nat) (d' : Dict) (a' : Nat),
      Inv start gEnd d → start ≤ address →
      ftLoop dec end_ (some c) fuel d nc address = .ok (d', a') →
      Inv start gEnd d' ∧ (address ≤ end_ → a' ≤ end_) ∧ address ≤ a' := by
  intro fuel
  induction fuel with
  | zero =>
    intro d nc address d' a' h _ hr
    unfold ftLoop at hr
    split at hr
    · simp at hr
    · simp at hr; obtain ⟨rfl, rfl⟩ := hr; exact ⟨h, fun x => x, Nat.le_refl _⟩
  | succ n ih =>
    intro d nc address d' a' h hsa hr
    unfold ftLoop at hr
    split at hr
    · rename_i hlt
      split at hr
      · simp at hr; obtain ⟨rfl, rfl⟩ := hr; exact ⟨h, fun _ => Nat.le_refl _, by omega⟩
      · rename_i hfit
        simp only at hr
        split at hr
        · rename_i hcc; simp at hcc
        · split at hr
          · split at hr
            · rename_i hcond
              simp at hr; obtain ⟨rfl, rfl⟩ := hr
              have hnk : address + (dec address).size ∉ keys d := (dget_eq_none_iff _ _).mp hcond.2
              have hne : address + (dec address).size ≠ gEnd := by
                intro e; rw [e] at hnk
                exact hnk ((dget_isSome_iff _ _).mp ⟨_, h.term⟩)
              exact ⟨inv_dset h (by omega) (by omega) (by simpa using hc), fun _ => by omega, by omega⟩
            · simp at hr; obtain ⟨rfl, rfl⟩ := hr; exact ⟨h, fun _ => by omega, by omega⟩
          · have := ih d nc _ d' a' h (by omega) hr
            exact ⟨this.1, fun _ => this.2.1 (by omega), by omega⟩
    · simp at hr; obtain ⟨rfl, rfl⟩ := hr; exact ⟨h, fun x => x, Nat.le_refl _⟩

/-! ### step (2) -/

theorem step2Pass_inv {dec : Dec} {start end_ : Nat} :
    ∀ (bl : List (Ctl × Nat × Nat)) (d d' : Dict) (done : Bool),
      (∀ b ∈ bl, start < b.2.2) → Inv start end_ d →
      step2Pass dec end_ bl d = .ok (d', done) → Inv start end_ d' := by
  intro bl
  induction bl with
  | nil => intro d d' done _ h hr; simp [step2Pass] at hr; rw [← hr.1]; exact h
  | cons b rest ih =>
    obtain ⟨ctl, bs, be⟩ := b
    intro d d' done hb h hr
    have hrest : ∀ b ∈ rest, start < b.2.2 := fun b hb' => hb b (by simp [hb'])
    unfold step2Pass at hr
    split at hr
    · split at hr
      · exact ih d d' done hrest h hr
      · split at hr
        · simp at hr
        · rename_i d1 a1 hft
          have h1 := (ftLoop_inv_none (Nat.le_refl _) _ d .U be d1 a1 h (by simp) (hb (ctl, bs, be) (by simp)) hft).1
          split at hr
          · simp at hr; rw [← hr.1]; exact h1
          · exact ih d1 d' done hrest h1 hr
    · exact ih d d' done hrest h hr

theorem step2_inv {dec : Dec} {start end_ : Nat} :
    ∀ (fuel : Nat) (d d' : Dict), Inv start end_ d → step2 dec end_ fuel d = .ok d' → Inv start end_ d' := by
  intro fuel
  induction fuel with
  | zero => intro d d' _ hr; simp [step2] at hr
  | succ n ih =>
    intro d d' h hr
    unfold step2 at hr
    split at hr
    · simp at hr
    · rename_i d1 hp
      simp at hr; rw [← hr]
      exact step2Pass_inv _ d d1 true (fun b hb => by have := getBlocks_in h b hb; omega) h hp
    · rename_i d1 hp
      exact ih d1 d' (step2Pass_inv _ d d1 false (fun b hb => by have := getBlocks_in h b hb; omega) h hp) hr

/-! ### step (3) -/

theorem findEntryPoint_mem {dis : Dis} {bl : List (Ctl × Nat × Nat)} {u e : Nat}
    (h : findEntryPoint dis bl = some (u, e)) : ∃ b ∈ bl, b.2.1 = u ∧ b.2.2 = e ∧ b.1 = .U := by
  unfold findEntryPoint at h
  simp only [Option.map_eq_some_iff] at h
  obtain ⟨b, hb, hbe⟩ := h
  have hm := List.mem_of_find?_eq_some hb
  have hp := List.find?_some hb
  simp at hbe
  simp at hp
  exact ⟨b, hm, hbe.1, hbe.2, hp.1⟩

theorem step3_inv {dec : Dec} {dis : Dis} {start end_ : Nat} :
    ∀ (fuel : Nat) (d d' : Dict), Inv start end_ d → step3 dec dis fuel d = .ok d' → Inv start end_ d' := by
  intro fuel
  induction fuel with
  | zero => intro d d' _ hr; simp [step3] at hr
  | succ n ih =>
    intro d d' h hr
    unfold step3 at hr
    split at hr
    · simp at hr; rw [← hr]; exact h
    · rename_i u eEnd hf
      obtain ⟨b, hb, rfl, rfl, _⟩ := findEntryPoint_mem hf
      have hin := getBlocks_in h b hb
      split at hr
      · simp at hr
      · rename_i d1 a1 hft
        have h0 : Inv start end_ (dset d b.2.1 .c) := inv_dset h hin.1 (by omega) (by simp)
        have h1 := (ftLoop_inv_some (c := .U) (by simp) hin.2.2 _ _ .U _ d1 a1 h0 hin.1 hft).1
        exact ih d1 d' h1 hr

/-! ### step (4) -/

theorem step4Split_inv {dec : Dec} {start end_ bEnd : Nat} (hbe : bEnd ≤ end_) :
    ∀ (fuel : Nat) (d d' : Dict) (a : Nat), Inv start end_ d → start ≤ a →
      step4Split dec bEnd fuel d a = .ok d' → Inv start end_ d' := by
  intro fuel
  induction fuel with
  | zero => intro d d' a _ _ hr; simp [step4Split] at hr
  | succ n ih =>
    intro d d' a h ha hr
    unfold step4Split at hr
    split at hr
    · split at hr
      · simp at hr
      · rename_i d1 a1 hft
        have := ftLoop_inv_some (c := .c) (by simp) hbe _ _ .U _ d1 a1 h ha hft
        exact ih d1 d' a1 this.1 (by omega) hr
    · simp at hr; rw [← hr]; exact h

theorem step4_inv {dec : Dec} {start end_ : Nat} :
    ∀ (bl : List (Ctl × Nat × Nat)) (d d' : Dict), BlocksIn start end_ bl → Inv start end_ d →
      step4 dec bl d = .ok d' → Inv start end_ d' := by
  intro bl
  induction bl with
  | nil => intro d d' _ h hr; simp [step4] at hr; rw [← hr]; exact h
  | cons b rest ih =>
    obtain ⟨ctl, bs, be⟩ := b
    intro d d' hb h hr
    have hrest : BlocksIn start end_ rest := fun b hb' => hb b (by simp [hb'])
    have hin := hb (ctl, bs, be) (by simp)
    unfold step4 at hr
    split at hr
    · split at hr
      · simp at hr
      · rename_i d1 hsp
        exact ih d1 d' hrest (step4Split_inv hin.2.2 _ d d1 bs h hin.1 hsp) hr
    · exact ih d d' hrest h hr

/-! ### step (5) -/

theorem step5Pass_inv {dis : Dis} {start end_ : Nat} :
    ∀ (bl : List (Ctl × Nat × Nat)) (d : Dict) (done : Bool), InnerEnds start end_ bl → Inv start end_ d →
      Inv start end_ (step5Pass dis bl d done).1 := by
  intro bl
  induction bl with
  | nil => intro d done _ h; simp [step5Pass]; exact h
  | cons e rest ih =>
    cases rest with
    | nil => intro d done _ h; simp [step5Pass]; exact h
    | cons e' rest' =>
      intro d done hi h
      simp only [InnerEnds] at hi
      unfold step5Pass
      split
      · exact ih _ _ hi.2 (inv_ddel h (by omega) (by omega))
      · exact ih _ _ hi.2 h

theorem step5_inv {dis : Dis} {start end_ : Nat} :
    ∀ (fuel : Nat) (d d' : Dict), Inv start end_ d → step5 dis fuel d = .ok d' → Inv start end_ d' := by
  intro fuel
  induction fuel with
  | zero => intro d d' _ hr; simp [step5] at hr
  | succ n ih =>
    intro d d' h hr
    unfold step5 at hr
    simp only at hr
    have h1 := step5Pass_inv (dis := dis) (getBlocks d) d true (getBlocks_innerEnds h.sorted h.bounds) h
    split at hr
    · simp at hr; rw [← hr]; exact h1
    · exact ih _ d' h1 hr

/-! ### steps (6), (7) and the whole generator -/

theorem textBlockMap_inv {start end_ : Nat} (cfg : Cfg) (mem : Mem) (d : Dict) (b : Ctl × Nat × Nat)
    (h : Inv start end_ d) (hp : start ≤ b.2.1 ∧ b.2.1 < b.2.2 ∧ b.2.2 ≤ end_) :
    Inv start end_ (textBlockMap cfg mem d b) := by
  unfold textBlockMap
  split
  · exact textFold_inv cfg mem _ _ _ _ (inv_dset h hp.1 (by omega) (by simp)) hp
  · exact h

theorem zeroBlockMap_inv {start end_ : Nat} (mem : Mem) (d : Dict) (b : Ctl × Nat × Nat)
    (h : Inv start end_ d) (hp : start ≤ b.2.1 ∧ b.2.1 < b.2.2 ∧ b.2.2 ≤ end_) :
    Inv start end_ (zeroBlockMap mem d b) := by
  unfold zeroBlockMap
  split
  · exact inv_dset h hp.1 (by omega) (by simp)
  · exact h

theorem codeBlocks_in (dec : Dec) {start end_ : Nat} (addrs : List Nat)
    (ha : ∀ a ∈ addrs, start ≤ a ∧ a < end_) : ∀ b ∈ codeBlocks dec addrs, start ≤ b.1 ∧ b.1 < end_ := by
  intro b hb
  unfold codeBlocks at hb
  rw [List.mem_reverse] at hb
  exact codeBlocks_fst dec (fun a => start ≤ a ∧ a < end_) addrs [] (by simp) ha b hb

theorem genMap_inv {dec0 dec : Dec} {dis : Dis} (mem : Mem) (cfg : Cfg) {start end_ : Nat} (hse : start ≤ end_)
    (addrs : List Nat) (ha : ∀ a ∈ addrs, start ≤ a ∧ a < end_) {d : Dict}
    (hr : genMap dec0 dec dis mem cfg start end_ addrs = .ok d) : Inv start end_ d := by
  unfold genMap at hr
  simp only [bind, Except.bind, pure, Except.pure] at hr
  have h1 := initMap_inv hse _ (codeBlocks_in dec0 addrs ha)
  split at hr
  · simp at hr
  · rename_i d2 h2e
    have h2 := step2_inv _ _ d2 h1 h2e
    split at hr
    · simp at hr
    · rename_i d3 h3e
      have h3 := step3_inv _ _ d3 h2 h3e
      split at hr
      · simp at hr
      · rename_i d4 h4e
        have h4 := step4_inv _ _ d4 (getBlocks_in h3) h3 h4e
        split at hr
        · simp at hr
        · rename_i d5 h5e
          have h5 := step5_inv _ _ d5 h4 h5e
          simp at hr
          rw [← hr]
          have h6 := foldl_inv (textBlockMap cfg mem) (fun b => start ≤ b.2.1 ∧ b.2.1 < b.2.2 ∧ b.2.2 ≤ end_)
            (textBlockMap_inv cfg mem) _ d5 h5 (getBlocks_in h5)
          exact foldl_inv (zeroBlockMap mem) (fun b => start ≤ b.2.1 ∧ b.2.1 < b.2.2 ∧ b.2.2 ≤ end_)
            (zeroBlockMap_inv mem) _ _ h6 (getBlocks_in h6)

end SnaCtl
