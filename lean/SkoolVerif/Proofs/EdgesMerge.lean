import SkoolVerif.Proofs.EdgesDecode
/-!
The zero-pulse merge loop: agreement with the table path when no pulse is zero.
-/
namespace Edges
open EdgeSpec

theorem mergeFold_nozero (ds : List Nat) (s : MSt) (hnz : ∀ d ∈ ds, d ≠ 0) (hpq : s.p = s.q)
    (hq : s.q ≤ 1) :
    (ds.foldl mergeStep s).edges = s.edges ++ cumsum s.t ds ∧
    (ds.foldl mergeStep s).t = s.t + sumN ds := by
  induction ds generalizing s with
  | nil => simp [cumsum, sumN_nil]
  | cons d ds ih =>
    have hd : d ≠ 0 := hnz d (by simp)
    have hstep : mergeStep s d = ⟨s.edges ++ [s.t + d], s.t + d, 1 - s.p, 1 - s.q⟩ := by
      unfold mergeStep; simp [hd, hpq]
    simp only [List.foldl_cons]
    rw [hstep]
    have := ih ⟨s.edges ++ [s.t + d], s.t + d, 1 - s.p, 1 - s.q⟩
      (fun x hx => hnz x (List.mem_cons_of_mem _ hx)) (by simp [hpq]) (by simp)
    simp only at this
    rw [this.1, this.2]
    simp [cumsum, sumN_cons, Int.add_assoc]

theorem bitPulses_mem {zero one : List Nat} {bits : List Bool} {d : Nat}
    (h : d ∈ bitPulses zero one bits) : d ∈ zero ∨ d ∈ one := by
  induction bits with
  | nil => simp [bitPulses] at h
  | cons x xs ih =>
    rw [bitPulses_cons, List.mem_append] at h
    rcases h with h | h
    · cases x
      · left; simpa using h
      · right; simpa using h
    · exact ih h

theorem checkPolarity_level (p : Nat) (hp : p < 2) (pol : Int) (e : List Int) (t : Int) (he : e ≠ []) :
    ((checkPolarity (some p) pol e t).length - 1) % 2 = p ^^^ (pol % 2).toNat := by
  have hq : (pol % 2).toNat < 2 := by omega
  have hx : p ^^^ (pol % 2).toNat < 2 := by
    generalize (pol % 2).toNat = q at hq
    have : p = 0 ∨ p = 1 := by omega
    have : q = 0 ∨ q = 1 := by omega
    rcases ‹p = 0 ∨ p = 1› with rfl | rfl <;> rcases ‹q = 0 ∨ q = 1› with rfl | rfl <;> decide
  have hl : 1 ≤ e.length := by
    cases e with
    | nil => exact absurd rfl he
    | cons a r => simp
  unfold checkPolarity
  simp only
  generalize p ^^^ (pol % 2).toNat = x at hx
  split
  · rename_i hne
    simp only [List.length_append, List.length_singleton]
    omega
  · rename_i heq
    simpa using heq

end Edges
