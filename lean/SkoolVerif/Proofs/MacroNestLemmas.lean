import SkoolVerif.Proofs.MacroOpsLemmas
/-! Helper lemmas for C17: the decimal text a macro prints (`str(n)`) is read
back to the same integer by `get_int_param` — what makes nesting
(`#EVAL(#PEEK(…))`) transparent. -/
namespace MacroNestLemmas
open MacroText MacroExpr MacroArgs MacroOps MacroOpsLemmas

theorem digitChar_dec_props : ∀ d, d < 10 →
    isDigit (digitChar d false) = true ∧ isSpace (digitChar d false) = false ∧
    digitChar d false ≠ '_' ∧ digitChar d false ≠ '-' ∧ digitChar d false ≠ '+' := by decide

/-- Every character produced is a digit character or was in the accumulator. -/
theorem mem_natDigitsAux (b : Nat) (lc : Bool) (hb : 2 ≤ b) : ∀ fuel n acc c,
    c ∈ natDigitsAux b lc fuel n acc → c ∈ acc ∨ ∃ d, d < b ∧ c = digitChar d lc := by
  intro fuel
  induction fuel with
  | zero => intro n acc c h; left; simpa [natDigitsAux] using h
  | succ k ih =>
    intro n acc c h
    unfold natDigitsAux at h
    split at h
    · rename_i hlt
      simp only [List.mem_cons] at h
      rcases h with rfl | h
      · right; exact ⟨n, hlt, rfl⟩
      · left; exact h
    · rcases ih _ _ c h with h | h
      · simp only [List.mem_cons] at h
        rcases h with rfl | h
        · right; exact ⟨n % b, Nat.mod_lt n (by omega), rfl⟩
        · left; exact h
      · right; exact h

theorem natDigits_dec_chars (n : Nat) : ∀ c ∈ natDigits 10 false n,
    isDigit c = true ∧ isSpace c = false ∧ c ≠ '_' ∧ c ≠ '-' ∧ c ≠ '+' := by
  intro c hc
  rcases mem_natDigitsAux 10 false (by omega) _ _ _ c hc with h | ⟨d, hd, rfl⟩
  · simp at h
  · exact digitChar_dec_props d hd

theorem natDigits_ne_nil (b : Nat) (lc : Bool) (n : Nat) : natDigits b lc n ≠ [] :=
  natDigitsAux_ne_nil b lc (n + 1) n [] (by omega)

theorem dropSpaces_of_head (c : Char) (t : Text) (h : isSpace c = false) : dropSpaces (c :: t) = c :: t := by
  simp [dropSpaces, h]

theorem strip_no_space (s : Text) (h : ∀ c ∈ s, isSpace c = false) : strip s = s := by
  unfold strip rstrip lstrip
  have h1 : dropSpaces s = s := by
    cases s with
    | nil => rfl
    | cons c t => exact dropSpaces_of_head c t (h c (by simp))
  rw [h1]
  have h2 : dropSpaces s.reverse = s.reverse := by
    cases hr : s.reverse with
    | nil => rfl
    | cons c t =>
      apply dropSpaces_of_head
      apply h
      have : c ∈ s.reverse := by rw [hr]; simp
      simpa using this
  rw [h2, List.reverse_reverse]

theorem splitChar_no_sep (sep : Char) : ∀ s : Text, sep ∉ s → splitChar sep s = [s] := by
  intro s
  induction s with
  | nil => intro _; rfl
  | cons c t ih =>
    intro h
    simp only [List.mem_cons, not_or] at h
    have hc : c ≠ sep := fun e => h.1 e.symm
    simp [splitChar, hc, ih h.2]

theorem digitGroups_digits (s : Text) (hne : s ≠ []) (hd : ∀ c ∈ s, isDigit c = true) (hu : '_' ∉ s) :
    digitGroups isDigit 10 s = some (digitsVal 10 s) := by
  cases s with
  | nil => exact absurd rfl hne
  | cons c t =>
    simp only [digitGroups]
    rw [splitChar_no_sep '_' (c :: t) hu]
    have hall : (c :: t).all isDigit = true := List.all_eq_true.mpr hd
    have hf : (c :: t).filter (fun x => x ≠ '_') = c :: t := by
      apply List.filter_eq_self.mpr
      intro x hx
      have : x ≠ '_' := fun e => hu (e ▸ hx)
      simpa using this
    simp only [List.all_cons, List.all_nil, Bool.and_true, List.isEmpty_cons, Bool.not_false, Bool.true_and]
    rw [hf]
    rw [List.all_cons] at hall
    simp [hall]

theorem splitSign_nosign (c : Char) (t : Text) (hm : c ≠ '-') (hp : c ≠ '+') : splitSign (c :: t) = (1, c :: t) := by
  unfold splitSign
  split
  · rename_i heq; simp only [List.cons.injEq] at heq; exact absurd heq.1 hm
  · rename_i heq; simp only [List.cons.injEq] at heq; exact absurd heq.1 hp
  · rfl

/-- The sign/prefix/digit-group stages of `int(s)` on an unsigned digit string. -/
theorem pyInt10_nosign (c : Char) (t : Text) (hsp : ∀ x ∈ c :: t, isSpace x = false) (hm : c ≠ '-') (hp : c ≠ '+')
    (v : Nat) (hdg : digitGroups isDigit 10 (c :: t) = some v) : pyInt 10 (c :: t) = some (v : Int) := by
  unfold pyInt
  rw [strip_no_space _ hsp, splitSign_nosign c t hm hp]
  simp [hdg]

theorem pyInt10_minus (t : Text) (hsp : ∀ x ∈ t, isSpace x = false)
    (v : Nat) (hdg : digitGroups isDigit 10 t = some v) : pyInt 10 ('-' :: t) = some (-(v : Int)) := by
  unfold pyInt
  rw [strip_no_space _ (by
    intro x hx
    simp only [List.mem_cons] at hx
    rcases hx with rfl | hx
    · decide
    · exact hsp x hx)]
  simp [splitSign, hdg]

/-- `int(str(n))` for a natural number. -/
theorem pyInt_natDigits (n : Nat) : pyInt 10 (natDigits 10 false n) = some (n : Int) := by
  have hch := natDigits_dec_chars n
  have hne := natDigits_ne_nil 10 false n
  cases hs : natDigits 10 false n with
  | nil => exact absurd hs hne
  | cons c t =>
    rw [hs] at hch
    have hc := hch c (by simp)
    have hdg : digitGroups isDigit 10 (c :: t) = some (digitsVal 10 (c :: t)) := by
      apply digitGroups_digits _ (by simp)
      · intro x hx; exact (hch x hx).1
      · intro hx; exact (hch '_' hx).2.2.1 rfl
    have hv : digitsVal 10 (c :: t) = n := by
      rw [← hs]; exact digitsVal_natDigits 10 false (by omega) (by omega) n
    rw [pyInt10_nosign c t (fun x hx => (hch x hx).2.1) hc.2.2.2.1 hc.2.2.2.2 _ hdg, hv]

/-- `int(str(v))` for any integer. -/
theorem pyInt_intStr (v : Int) : pyInt 10 (intStr v) = some v := by
  unfold intStr
  split
  · rename_i hneg
    have hch := natDigits_dec_chars v.natAbs
    have hne := natDigits_ne_nil 10 false v.natAbs
    have hdg : digitGroups isDigit 10 (natDigits 10 false v.natAbs) = some (digitsVal 10 (natDigits 10 false v.natAbs)) := by
      apply digitGroups_digits _ hne
      · intro x hx; exact (hch x hx).1
      · intro hx; exact (hch '_' hx).2.2.1 rfl
    have hv : digitsVal 10 (natDigits 10 false v.natAbs) = v.natAbs :=
      digitsVal_natDigits 10 false (by omega) (by omega) _
    rw [pyInt10_minus _ (fun x hx => (hch x hx).2.1) _ hdg, hv]
    congr 1
    omega
  · rw [pyInt_natDigits]
    congr 1
    omega


/-! ### Numerals inside expressions: the lexer's classification -/

theorem digitChar_dec_ne_zero : ∀ d, d < 10 → 0 < d → digitChar d false ≠ '0' := by decide

theorem digitChar_hex_props : ∀ d, d < 16 → ∀ lc, isHexDigit (digitChar d lc) = true := by decide

/-- The most significant digit of a positive number is not `0`. -/
theorem head_natDigitsAux (lc : Bool) : ∀ fuel n acc, 0 < n → n < fuel →
    ∃ d, 0 < d ∧ d < 10 ∧ (natDigitsAux 10 lc fuel n acc).head? = some (digitChar d lc) := by
  intro fuel
  induction fuel with
  | zero => intro n acc _ h; omega
  | succ k ih =>
    intro n acc hpos hlt
    unfold natDigitsAux
    split
    · rename_i h10; exact ⟨n, hpos, h10, rfl⟩
    · rename_i h10
      have hdiv : n / 10 < n := Nat.div_lt_self hpos (by omega)
      have hq : 0 < n / 10 := Nat.div_pos (by omega) (by omega)
      exact ih (n / 10) _ hq (by omega)

/-- A decimal numeral inside an expression is the token `num n`. -/
theorem numTok_decimal (n : Nat) : numTok (natDigits 10 false n) = .num n := by
  have hch := natDigits_dec_chars n
  have hall : allDigits (natDigits 10 false n) = true :=
    List.all_eq_true.mpr (fun c hc => (hch c hc).1)
  have hv := digitsVal_natDigits 10 false (by omega) (by omega) n
  unfold numTok
  rw [if_pos hall]
  by_cases h0 : n = 0
  · subst h0; decide
  · obtain ⟨d, hd0, hd10, hhead⟩ := head_natDigitsAux false (n + 1) n [] (by omega) (by omega)
    have hne : (natDigits 10 false n).head? ≠ some '0' := by
      unfold natDigits
      rw [hhead]
      intro h
      simp only [Option.some.injEq] at h
      exact digitChar_dec_ne_zero d hd10 hd0 h
    have hcond : ((natDigits 10 false n).length > 1 && (natDigits 10 false n).head? = some '0' &&
        !((natDigits 10 false n).all (· = '0'))) = false := by
      have : decide ((natDigits 10 false n).head? = some '0') = false := by simpa using hne
      simp [this]
    rw [hcond]
    simp [hv]

/-- `$` followed by hexadecimal digits (rewritten to `0x…`) is the token `num n`. -/
theorem numTok_hex (lc : Bool) (n : Nat) : numTok ('0' :: 'x' :: natDigits 16 lc n) = .num n := by
  have hne := natDigits_ne_nil 16 lc n
  have hhex : allHex (natDigits 16 lc n) = true := by
    apply List.all_eq_true.mpr
    intro c hc
    rcases mem_natDigitsAux 16 lc (by omega) _ _ _ c hc with h | ⟨d, hd, rfl⟩
    · simp at h
    · exact digitChar_hex_props d hd lc
  have hv := digitsVal_natDigits 16 lc (by omega) (by omega) n
  unfold numTok
  have hnd : allDigits ('0' :: 'x' :: natDigits 16 lc n) = false := by
    have hx : isDigit 'x' = false := by decide
    simp [allDigits, List.all_cons, hx]
  rw [hnd]
  have hemp : (natDigits 16 lc n).isEmpty = false := by
    cases h : natDigits 16 lc n with
    | nil => exact absurd h hne
    | cons _ _ => rfl
  simp [hemp, hhex, hv]

theorem evaluate_intStr (v : Int) : evaluate (intStr v) = .ok v := by
  unfold evaluate getIntParam
  rw [pyInt_intStr]

end MacroNestLemmas
