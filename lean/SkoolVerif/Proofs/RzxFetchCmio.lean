import SkoolVerif.Proofs.RzxFetch
import SkoolVerif.Gen.RzxCmioThms
import SkoolVerif.Proofs.CmioVsSimStep
/-!
C20, fetch counting for the contention-aware simulator: its dispatch tables select the same
closures (`CmioVsSim.leafOf_map`, kernel-checked table equality from C06), the generated classifiers
agree closure by closure, and the per-closure R theorem is re-proved for the contended closures,
so the three fetch-count theorems carry over.
-/
namespace Rzx
open Z80 CmioVsSim

variable {μ : Type} [MemLike μ]

theorem rIncOf_map (i : Sim.Instr) : Cmio.rIncOf (toCmio i) = Sim.rIncOf i := by cases i <;> rfl
theorem writesR_map (i : Sim.Instr) : Cmio.writesR (toCmio i) = Sim.writesR i := by cases i <;> rfl

theorem fetchDec_eq_m1_cmio (cfg : Cfg) (s : St μ) (hs : 15 < s.reg.size)
    (hR : IsByte (rget s.reg 15)) (hb0 : IsByte (mget s.mem s.pc))
    (hb1 : IsByte (mget s.mem ((s.pc + 1) % 65536))) (hb3 : IsByte (mget s.mem ((s.pc + 3) % 65536))) :
    fetchDec (mget s.mem s.pc) (rget s.reg 15) (rget (Cmio.step cfg s).reg 15) =
      Spec.m1 (mget s.mem s.pc) (mget s.mem ((s.pc + 1) % 65536)) := by
  obtain ⟨hl, hw⟩ := leaf_m1 s hb0 hb1 hb3
  by_cases hx : mget s.mem s.pc = 0xDD ∨ mget s.mem s.pc = 0xFD
  · have hne : mget s.mem s.pc ≠ 0xED := by rcases hx with h | h <;> rw [h] <;> decide
    have hupd := Cmio.rupd_execLeaf cfg (Cmio.leafOf s) _
      (by rw [leafOf_map, rIncOf_map]; exact hl) (by rw [leafOf_map, writesR_map]; exact hw hne) s hs
    rw [← Cmio.step_eq] at hupd
    obtain ⟨p1, p2, _, _⟩ := R_parity (rget s.reg 15) hR.1 hR.2
    unfold fetchDec; simp only [hx, if_true]
    rw [hupd]
    have hm : Spec.m1 (mget s.mem s.pc) (mget s.mem ((s.pc + 1) % 65536)) =
        if (mget s.mem ((s.pc + 1) % 65536)).toNat ∈ Spec.indexable then 2 else 1 := by
      unfold Spec.m1
      rcases hx with h | h <;> rw [h] <;> simp
    rw [hm]
    by_cases hi : (mget s.mem ((s.pc + 1) % 65536)).toNat ∈ Spec.indexable
    · simp [hi, rTbl, TblI1.get, p2]
    · simp [hi, rTbl, TblI1.get, p1]
  · unfold fetchDec Spec.m1
    simp only [hx, if_false]

theorem step_R_eq_m1_cmio (cfg : Cfg) (s : St μ) (hs : 15 < s.reg.size) (hb0 : IsByte (mget s.mem s.pc))
    (hb1 : IsByte (mget s.mem ((s.pc + 1) % 65536))) (hb3 : IsByte (mget s.mem ((s.pc + 3) % 65536)))
    (hne : ¬ (mget s.mem s.pc = 0xED ∧ mget s.mem ((s.pc + 1) % 65536) = 0x4F)) :
    rget (Cmio.step cfg s).reg 15 =
      TblI1.get (rTbl (Spec.m1 (mget s.mem s.pc) (mget s.mem ((s.pc + 1) % 65536)))) (rget s.reg 15) := by
  obtain ⟨hl, _⟩ := leaf_m1 s hb0 hb1 hb3
  have hw := leaf_noWriteR s hb0 hb1 hb3 hne
  rw [Cmio.step_eq]
  exact Cmio.rupd_execLeaf cfg (Cmio.leafOf s) _ (by rw [leafOf_map, rIncOf_map]; exact hl)
    (by rw [leafOf_map, writesR_map]; exact hw) s hs

theorem fetchDecC_eq_cmio (cfg : Cfg) (s : St μ) (hs : 15 < s.reg.size)
    (hR : IsByte (rget s.reg 15)) (hb0 : IsByte (mget s.mem s.pc))
    (hb1 : IsByte (mget s.mem ((s.pc + 1) % 65536))) (hb3 : IsByte (mget s.mem ((s.pc + 3) % 65536))) :
    fetchDecC (mget s.mem s.pc) (mget s.mem ((s.pc + 1) % 65536)) (rget s.reg 15) (rget (Cmio.step cfg s).reg 15) =
      fetchDec (mget s.mem s.pc) (rget s.reg 15) (rget (Cmio.step cfg s).reg 15) := by
  rw [fetchDec_eq_m1_cmio cfg s hs hR hb0 hb1 hb3]
  obtain ⟨hl, hw⟩ := leaf_m1 s hb0 hb1 hb3
  by_cases hx : mget s.mem s.pc = 0xDD ∨ mget s.mem s.pc = 0xFD
  · have hne : mget s.mem s.pc ≠ 0xED := by rcases hx with h | h <;> rw [h] <;> decide
    have hupd := Cmio.rupd_execLeaf cfg (Cmio.leafOf s) _
      (by rw [leafOf_map, rIncOf_map]; exact hl) (by rw [leafOf_map, writesR_map]; exact hw hne) s hs
    rw [← Cmio.step_eq] at hupd
    obtain ⟨_, _, p1, p2⟩ := R_parity (rget s.reg 15) hR.1 hR.2
    have hn1 : ¬ (mget s.mem s.pc = 0xCB ∨ mget s.mem s.pc = 0xED) := by
      rcases hx with h | h <;> rw [h] <;> decide
    unfold fetchDecC; simp only [hn1, hx, if_true, if_false]
    rw [hupd]
    have hm : Spec.m1 (mget s.mem s.pc) (mget s.mem ((s.pc + 1) % 65536)) =
        if (mget s.mem ((s.pc + 1) % 65536)).toNat ∈ Spec.indexable then 2 else 1 := by
      unfold Spec.m1
      rcases hx with h | h <;> rw [h] <;> simp
    rw [hm]
    by_cases hcb : mget s.mem ((s.pc + 1) % 65536) = 0xCB
    · simp [hcb, Spec.indexable]
    · simp only [hcb, if_false]
      by_cases hi : (mget s.mem ((s.pc + 1) % 65536)).toNat ∈ Spec.indexable
      · simp [hi, rTbl, TblI1.get, p2]
      · simp [hi, rTbl, TblI1.get, p1]
  · unfold fetchDecC Spec.m1
    have h1 : ¬ mget s.mem s.pc = 0xDD := fun h => hx (Or.inl h)
    have h2 : ¬ mget s.mem s.pc = 0xFD := fun h => hx (Or.inr h)
    simp [h1, h2]

end Rzx
