import SkoolVerif.Proofs.ContendLemmas
import SkoolVerif.Proofs.MachineLemmas
import SkoolVerif.Proofs.RangeLemmas
/-! Relations between the state after a plain closure and after the contended closure. -/
namespace CmioVsSim
open Z80
variable {μ : Type} [MemLike μ]

/-- Everything the contended simulator must share with the plain one after a step: registers and
flags, memory, PC, IFF, IM, HALT, port logs — all but T (which may only grow) and MEMPTR. -/
def SameButClock (a b : St μ) : Prop :=
  b.reg = a.reg ∧ b.mem = a.mem ∧ b.pc = a.pc ∧ b.iff = a.iff ∧ b.im = a.im ∧ b.halt = a.halt ∧
    b.ins = a.ins ∧ b.outs = a.outs ∧ b.inLog = a.inLog ∧ a.t ≤ b.t

theorem SameButClock.refl (s : St μ) : SameButClock s s :=
  ⟨rfl, rfl, rfl, rfl, rfl, rfl, rfl, rfl, rfl, Int.le_refl _⟩

/-- `BIT n,(HL)`: the same, except that bits 5 and 3 of F may differ (they come from MEMPTR). -/
def SameModF53 (a b : St μ) : Prop :=
  (∀ i, i ≠ 1 → rget b.reg i = rget a.reg i) ∧
    PyInt.land (rget b.reg 1) 0xD7 = PyInt.land (rget a.reg 1) 0xD7 ∧
    b.mem = a.mem ∧ b.pc = a.pc ∧ b.iff = a.iff ∧ b.im = a.im ∧ b.halt = a.halt ∧
    b.ins = a.ins ∧ b.outs = a.outs ∧ b.inLog = a.inLog ∧ a.t ≤ b.t

/-- the two ways the simulators compute SP-1 from SP -/
theorem sub2_add1 (x : Int) : ((x - 2) % 65536 + 1) % 65536 = (x - 1) % 65536 := by omega

end CmioVsSim
