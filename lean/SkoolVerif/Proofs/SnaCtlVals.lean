import SkoolVerif.Proofs.SnaCtlNoMap
/-!
The directive letters the no-code-map generator can emit: never the internal `U`.
-/
namespace SnaCtl

theorem mem_dset {d : Dict} {k : Nat} {v : Ctl} {kv : Nat × Ctl} (h : kv ∈ dset d k v) : kv ∈ d ∨ kv = (k, v) := by
  induction d with
  | nil => simp [dset] at h; exact Or.inr h
  | cons x r ih =>
    obtain ⟨k0, v0⟩ := x
    unfold dset at h
    split at h
    · simp at h; rcases h with h | h | h
      · exact Or.inr h
      · left; simp [h]
      · left; simp [h]
    · split at h
      · simp at h; rcases h with h | h
        · exact Or.inr h
        · left; simp [h]
      · simp at h; rcases h with h | h
        · left; simp [h]
        · rcases ih h with h | h
          · left; simp [h]
          · exact Or.inr h

theorem mem_ddel {d : Dict} {k : Nat} {kv : Nat × Ctl} (h : kv ∈ ddel d k) : kv ∈ d := by
  induction d with
  | nil => simp [ddel] at h
  | cons x r ih =>
    unfold ddel at h
    split at h
    · simp [h]
    · simp at h; rcases h with h | h
      · simp [h]
      · simp [ih h]

/-- all directive letters satisfy `S` -/
def ValsIn (S : Ctl → Prop) (d : List (Nat × Ctl)) : Prop := ∀ kv ∈ d, S kv.2

theorem valsIn_dset {S : Ctl → Prop} {d : Dict} (h : ValsIn S d) (k : Nat) {v : Ctl} (hv : S v) : ValsIn S (dset d k v) := by
  intro kv hkv
  rcases mem_dset hkv with h1 | rfl
  · exact h kv h1
  · exact hv

theorem valsIn_ddel {S : Ctl → Prop} {d : Dict} (h : ValsIn S d) (k : Nat) : ValsIn S (ddel d k) :=
  fun kv hkv => h kv (mem_ddel hkv)

theorem valsIn_foldl {S : Ctl → Prop} {β : Type} (f : Dict → β → Dict) (hf : ∀ d x, ValsIn S d → ValsIn S (f d x)) :
    ∀ (l : List β) (d : Dict), ValsIn S d → ValsIn S (l.foldl f d) := by
  intro l
  induction l with
  | nil => intro d h; exact h
  | cons x r ih => intro d h; exact ih _ (hf d x h)

def BC (v : Ctl) : Prop := v = .b ∨ v = .c

theorem catch_bc {ctls : List (Nat × Ctl)} (h : ValsIn BC ctls) (ca count mc addr b0 : Nat) :
    ValsIn BC (catchData ctls ca count mc addr b0).1 := by
  rcases catchData_cases ctls ca count mc addr b0 with hc | ⟨_, ⟨hc, _⟩ | hc⟩ <;> rw [hc]
  · exact h
  · exact h
  · intro kv hkv
    simp at hkv
    rcases hkv with rfl | hkv
    · exact Or.inl rfl
    · exact h kv hkv

theorem gstep_bc {st : GState} (mem : Mem) (addr : Nat) (op : Op) (h : ValsIn BC st.ctls) :
    ValsIn BC (gstep mem st addr op).ctls := by
  have hc := catch_bc h st.ctlAddr st.count st.prevMax addr st.prevB0
  unfold gstep
  split
  · intro kv hkv
    simp at hkv
    rcases hkv with rfl | hkv
    · exact Or.inr rfl
    · exact hc kv hkv
  · split
    · exact h
    · split
      · exact hc
      · exact h

theorem gloop_bc (dec : Dec) (mem : Mem) (end_ : Nat) (fuel : Nat) :
    ∀ (addr : Nat) (st : GState), ValsIn BC st.ctls → ValsIn BC (gloop dec mem end_ fuel addr st).ctls := by
  induction fuel with
  | zero => intro addr st h; exact h
  | succ n ih =>
    intro addr st h
    unfold gloop
    split
    · exact ih _ _ (gstep_bc mem addr (dec addr) h)
    · exact h

theorem genRaw_vals (dec : Dec) (mem : Mem) (start end_ : Nat) :
    ValsIn (fun v => v ≠ .U) (genRaw dec mem start end_) := by
  have hb := gloop_bc dec mem end_ (end_ - start) start (GState.init start) (by intro kv h; simp [GState.init] at h)
  unfold genRaw
  generalize gloop dec mem end_ (end_ - start) start (GState.init start) = st at hb
  intro kv hkv
  simp only [List.mem_reverse, List.mem_cons] at hkv
  rcases hkv with rfl | hkv
  · simp
  · split at hkv
    · simp at hkv
      rcases hkv with rfl | hkv
      · simp
      · rcases hb kv hkv with h | h <;> simp [h]
    · rcases hb kv hkv with h | h <;> simp [h]

theorem dictOf_vals {S : Ctl → Prop} (l : List (Nat × Ctl)) (h : ValsIn S l) : ValsIn S (dictOf l) := by
  unfold dictOf
  have : ∀ (l : List (Nat × Ctl)) (d : Dict), ValsIn S d → ValsIn S l →
      ValsIn S (l.foldl (fun d kv => dset d kv.1 kv.2) d) := by
    intro l
    induction l with
    | nil => intro d hd _; exact hd
    | cons x r ih =>
      intro d hd hl
      exact ih _ (valsIn_dset hd _ (hl x (by simp))) (fun kv hkv => hl kv (by simp [hkv]))
  exact this l [] (by intro kv h; simp at h) h

theorem genNoMap_vals (dec : Dec) (mem : Mem) (cfg : Cfg) (start end_ : Nat) :
    ValsIn (fun v => v ≠ .U) (genNoMap dec mem cfg start end_) := by
  unfold genNoMap textNoMap
  apply valsIn_foldl
  · intro d se h
    unfold textBlockNoMap
    have happly : ∀ (e : Nat) (l : List (Nat × Nat)) (d : Dict), ValsIn (fun v => v ≠ Ctl.U) d →
        ValsIn (fun v => v ≠ Ctl.U) (l.foldl (applyText e) d) := by
      intro e
      apply valsIn_foldl
      intro d tb h
      unfold applyText
      simp only
      split
      · exact valsIn_dset (valsIn_dset h _ (by simp)) _ (by simp)
      · exact valsIn_dset h _ (by simp)
    split
    · exact happly _ _ _ h
    · split
      · simp only
        split
        · exact h
        · split
          · exact valsIn_dset (happly _ _ _ (valsIn_dset h _ (by simp))) _ (by simp)
          · exact happly _ _ _ (valsIn_dset h _ (by simp))
      · exact h
  · -- joinBS
    have hmz : ValsIn (fun v => v ≠ Ctl.U) (markZero mem (dictOf (genRaw dec mem start end_))) := by
      unfold markZero
      apply valsIn_foldl
      · intro d se h
        unfold markZeroBlock
        split
        · split
          · exact valsIn_dset (valsIn_dset h _ (by simp)) _ (by simp)
          · exact valsIn_dset h _ (by simp)
        · split
          · exact valsIn_dset h _ (by simp)
          · exact h
      · exact dictOf_vals _ (genRaw_vals dec mem start end_)
    generalize markZero mem (dictOf (genRaw dec mem start end_)) = d0 at hmz
    unfold joinBS
    cases d0 with
    | nil => exact hmz
    | cons x r =>
      obtain ⟨k0, c0⟩ := x
      simp only
      have : ∀ (l : List (Nat × Ctl)) (st : Dict × Nat × Ctl), ValsIn (fun v => v ≠ Ctl.U) st.1 →
          ValsIn (fun v => v ≠ Ctl.U) (l.foldl joinStep st).1 := by
        intro l
        induction l with
        | nil => intro st h; exact h
        | cons kv r' ih =>
          intro st h
          simp only [List.foldl_cons]
          apply ih
          unfold joinStep
          split
          · exact valsIn_ddel (valsIn_dset h _ (by simp)) _
          · exact h
      exact this r _ hmz

end SnaCtl
