import SkoolVerif.Proofs.ZxUdgLemmas
import SkoolVerif.Proofs.ZxPictureLemmas
/-! `flip_udgs` / `rotate_udgs` on whole tile arrays (C15). -/
set_option linter.unusedSimpArgs false
namespace PngScan
open ZxTile

theorem map_map_flip_flip (f : Nat) (a : List (List Udg)) (hwf : ∀ row ∈ a, ∀ u ∈ row, WfUdg u) :
    (a.map (fun row => row.map (fun u => u.flip f))).map (fun row => row.map (fun u => u.flip f)) = a := by
  rw [List.map_map]
  conv => rhs; rw [← List.map_id a]
  apply List.map_congr_left
  intro row hrow
  simp only [Function.comp, List.map_map, id]
  conv => rhs; rw [← List.map_id row]
  apply List.map_congr_left
  intro u hu
  simp only [Function.comp, id]
  exact udg_flip_flip f (hwf row hrow u hu)

theorem map_reverse_comm {α : Type} (g : α → α) (a : List (List α)) :
    (a.map List.reverse).map (fun row => row.map g) = (a.map (fun row => row.map g)).map List.reverse := by
  simp only [List.map_map]
  apply List.map_congr_left
  intro row _
  simp [Function.comp, List.map_reverse]

/-- `flip_udgs(udgs, f)` applied twice restores the array (tiles and their positions). -/
theorem flipUdgs_flipUdgs (f : Nat) (a : List (List Udg)) (hwf : ∀ row ∈ a, ∀ u ∈ row, WfUdg u) :
    flipUdgs (flipUdgs a f) f = a := by
  unfold flipUdgs
  by_cases h0 : f = 0
  · simp [h0]
  · simp only [h0, if_false]
    have hM := map_map_flip_flip f a hwf
    by_cases h1 : f &&& 1 = 0 <;> by_cases h2 : f &&& 2 = 0 <;>
      simp only [h1, h2, ne_eq, not_true_eq_false, not_false_eq_true, if_true, if_false]
    · exact hM
    · rw [← List.map_reverse, List.reverse_reverse]; exact hM
    · rw [map_reverse_comm, hM, List.map_map]
      conv => rhs; rw [← List.map_id a]
      apply List.map_congr_left
      intro row _
      simp [Function.comp]
    · rw [List.map_reverse, List.map_reverse, List.reverse_reverse, map_reverse_comm, hM, List.map_map]
      conv => rhs; rw [← List.map_id a]
      apply List.map_congr_left
      intro row _
      simp [Function.comp]

/-- Tile at tile coordinates `(tx, ty)`. -/
def tileAt (a : List (List Udg)) (tx ty : Nat) : Udg := (a.getD ty []).getD tx udg0

theorem getD_reverse' {α : Type} (l : List α) (i : Nat) (d : α) (h : i < l.length) :
    l.reverse.getD i d = l.getD (l.length - 1 - i) d := by
  simp only [List.getD_eq_getElem?_getD]
  rw [List.getElem?_reverse h]

theorem getD_map' {α β : Type} (g : α → β) (l : List α) (i : Nat) (d : α) (d' : β) (h : i < l.length) :
    (l.map g).getD i d' = g (l.getD i d) := by
  simp [List.getD_eq_getElem?_getD, List.getElem?_eq_getElem h]

/-- Where `flip_udgs` puts which tile. -/
theorem flipUdgs_tileAt (f : Nat) (a : List (List Udg)) (W H : Nat) (hH : a.length = H)
    (hW : ∀ row ∈ a, row.length = W) (tx ty : Nat) (hx : tx < W) (hy : ty < H) :
    tileAt (flipUdgs a f) tx ty =
      (tileAt a (if f &&& 1 ≠ 0 then W - 1 - tx else tx) (if f &&& 2 ≠ 0 then H - 1 - ty else ty)).flip f := by
  have hrow (j : Nat) (hj : j < H) : (a.getD j []).length = W :=
    hW _ (getD_mem_or_default _ _ _ (by omega))
  unfold flipUdgs tileAt
  by_cases h0 : f = 0
  · subst h0
    simp only [if_true]
    have e1 : (0 : Nat) &&& 1 = 0 := rfl
    have e2 : (0 : Nat) &&& 2 = 0 := rfl
    simp only [e1, e2, ne_eq, not_true_eq_false, if_false]
    generalize (a.getD ty []).getD tx udg0 = u
    cases u with
    | mk attr data mask =>
      simp only [Udg.flip, flipTile, e1, e2, ne_eq, not_true_eq_false, if_false, Udg.mk.injEq, true_and]
      cases mask <;> simp [flipTile, e1, e2]
  · simp only [h0, if_false]
    by_cases h1 : f &&& 1 = 0 <;> by_cases h2 : f &&& 2 = 0 <;>
      simp only [h1, h2, ne_eq, not_true_eq_false, not_false_eq_true, if_true, if_false]
    · rw [getD_map' _ a ty [] [] (by omega), getD_map' _ _ tx udg0 udg0 (by rw [hrow ty hy]; exact hx)]
    · rw [getD_reverse' _ _ _ (by simp; omega), List.length_map, hH,
        getD_map' _ a _ [] [] (by omega), getD_map' _ _ tx udg0 udg0 (by rw [hrow _ (by omega)]; exact hx)]
    · rw [List.map_map, getD_map' _ a ty [] [] (by omega)]
      simp only [Function.comp]
      rw [getD_reverse' _ _ _ (by rw [List.length_map, hrow ty hy]; exact hx), List.length_map, hrow ty hy,
        getD_map' _ _ _ udg0 udg0 (by rw [hrow ty hy]; omega)]
    · rw [getD_reverse' _ _ _ (by simp; omega)]
      simp only [List.length_map, hH]
      rw [List.map_map, getD_map' _ a _ [] [] (by omega)]
      simp only [Function.comp]
      rw [getD_reverse' _ _ _ (by rw [List.length_map, hrow _ (by omega)]; exact hx), List.length_map, hrow _ (by omega),
        getD_map' _ _ _ udg0 udg0 (by rw [hrow _ (by omega)]; omega)]

theorem pictureOf_tileAt (a : List (List Udg)) (X Y : Nat) :
    (pictureOf a).attr X Y = (tileAt a (X / 8) (Y / 8)).attr ∧
    (pictureOf a).bit X Y = tileBit (tileAt a (X / 8) (Y / 8)).data (Y % 8) (X % 8) ∧
    (pictureOf a).mbit X Y = (match (tileAt a (X / 8) (Y / 8)).maskRows with
      | some m => some (tileBit m (Y % 8) (X % 8))
      | none => none) := ⟨rfl, rfl, rfl⟩

theorem tileAt_wf (a : List (List Udg)) (W H : Nat) (hH : a.length = H) (hW : ∀ row ∈ a, row.length = W)
    (hwf : ∀ row ∈ a, ∀ u ∈ row, WfUdg u) (tx ty : Nat) (hx : tx < W) (hy : ty < H) : WfUdg (tileAt a tx ty) := by
  have hr : a.getD ty [] ∈ a := getD_mem_or_default _ _ _ (by omega)
  exact hwf _ hr _ (getD_mem_or_default _ _ _ (by rw [hW _ hr]; exact hx))

/-- **Pixel map of `flip_udgs`** on a rectangular `W x H` tile array: pixel `(X, Y)` of the flipped
picture is pixel `(8W-1-X, Y)` (bit 0), `(X, 8H-1-Y)` (bit 1) or both of the original -- graphic bit,
attribute and mask bit alike. -/
theorem flipUdgs_picture (f : Nat) (a : List (List Udg)) (W H : Nat) (hH : a.length = H)
    (hW : ∀ row ∈ a, row.length = W) (hwf : ∀ row ∈ a, ∀ u ∈ row, WfUdg u)
    (X Y : Nat) (hX : X < 8 * W) (hY : Y < 8 * H) :
    (pictureOf (flipUdgs a f)).bit X Y
        = (pictureOf a).bit (if f &&& 1 ≠ 0 then 8 * W - 1 - X else X) (if f &&& 2 ≠ 0 then 8 * H - 1 - Y else Y) ∧
      (pictureOf (flipUdgs a f)).attr X Y
        = (pictureOf a).attr (if f &&& 1 ≠ 0 then 8 * W - 1 - X else X) (if f &&& 2 ≠ 0 then 8 * H - 1 - Y else Y) ∧
      (pictureOf (flipUdgs a f)).mbit X Y
        = (pictureOf a).mbit (if f &&& 1 ≠ 0 then 8 * W - 1 - X else X) (if f &&& 2 ≠ 0 then 8 * H - 1 - Y else Y) := by
  have htx : X / 8 < W := by omega
  have hty : Y / 8 < H := by omega
  have hxm : X % 8 < 8 := Nat.mod_lt _ (by decide)
  have hym : Y % 8 < 8 := Nat.mod_lt _ (by decide)
  have hX' : (if f &&& 1 ≠ 0 then 8 * W - 1 - X else X) / 8 = (if f &&& 1 ≠ 0 then W - 1 - X / 8 else X / 8) ∧
      (if f &&& 1 ≠ 0 then 8 * W - 1 - X else X) % 8 = (if f &&& 1 ≠ 0 then 7 - X % 8 else X % 8) := by
    split <;> constructor <;> omega
  have hY' : (if f &&& 2 ≠ 0 then 8 * H - 1 - Y else Y) / 8 = (if f &&& 2 ≠ 0 then H - 1 - Y / 8 else Y / 8) ∧
      (if f &&& 2 ≠ 0 then 8 * H - 1 - Y else Y) % 8 = (if f &&& 2 ≠ 0 then 7 - Y % 8 else Y % 8) := by
    split <;> constructor <;> omega
  obtain ⟨p1, p2, p3⟩ := pictureOf_tileAt (flipUdgs a f) X Y
  obtain ⟨q1, q2, q3⟩ := pictureOf_tileAt a (if f &&& 1 ≠ 0 then 8 * W - 1 - X else X)
    (if f &&& 2 ≠ 0 then 8 * H - 1 - Y else Y)
  rw [p1, p2, p3, q1, q2, q3, hX'.1, hX'.2, hY'.1, hY'.2, flipUdgs_tileAt f a W H hH hW _ _ htx hty]
  have hsrc : WfUdg (tileAt a (if f &&& 1 ≠ 0 then W - 1 - X / 8 else X / 8)
      (if f &&& 2 ≠ 0 then H - 1 - Y / 8 else Y / 8)) :=
    tileAt_wf a W H hH hW hwf _ _ (by split <;> omega) (by split <;> omega)
  generalize tileAt a (if f &&& 1 ≠ 0 then W - 1 - X / 8 else X / 8)
    (if f &&& 2 ≠ 0 then H - 1 - Y / 8 else Y / 8) = u at hsrc
  refine ⟨?_, rfl, ?_⟩
  · exact tileBit_flipTile f hsrc.1 _ _ hym hxm
  · rw [maskRows_of_wf (wf_flip f hsrc), maskRows_of_wf hsrc]
    simp only [Udg.flip]
    cases hm : u.mask with
    | none => rfl
    | some m =>
      simp only [Option.map_some]
      rw [tileBit_flipTile f (hsrc.2 m hm) _ _ hym hxm]

/-! ### `rotate_udgs` on rectangular arrays -/

theorem maxLen_rect (a : List (List Udg)) (W : Nat) (hW : ∀ row ∈ a, row.length = W) (hne : a ≠ []) :
    maxLen a = W := by
  unfold maxLen
  have gen : ∀ (l : List (List Udg)) (m : Nat), (∀ row ∈ l, row.length = W) →
      l.foldl (fun m r => max m r.length) m = if l = [] then m else max m W := by
    intro l
    induction l with
    | nil => intro m _; simp
    | cons r t ih =>
      intro m h
      simp only [List.foldl_cons, h r (by simp)]
      rw [ih (max m W) (fun row hr => h row (by simp [hr]))]
      simp only [reduceCtorEq, if_false]
      split
      · rfl
      · omega
  rw [gen a 0 hW, if_neg hne]; omega

theorem filterMap_col (a : List (List Udg)) (W i : Nat) (hW : ∀ row ∈ a, row.length = W) (hi : i < W) :
    a.filterMap (fun row => row[i]?) = a.map (fun row => row.getD i udg0) := by
  induction a with
  | nil => rfl
  | cons r t ih =>
    have hr : i < r.length := by rw [hW r (by simp)]; exact hi
    simp only [List.filterMap_cons, List.getElem?_eq_getElem hr, List.map_cons]
    rw [ih (fun row h => hW row (by simp [h]))]
    simp [List.getD_eq_getElem?_getD, List.getElem?_eq_getElem hr]

theorem tileAt_map (g : Udg → Udg) (a : List (List Udg)) (W H : Nat) (hH : a.length = H)
    (hW : ∀ row ∈ a, row.length = W) (tx ty : Nat) (hx : tx < W) (hy : ty < H) :
    tileAt (a.map (fun row => row.map g)) tx ty = g (tileAt a tx ty) := by
  have hr : a.getD ty [] ∈ a := getD_mem_or_default _ _ _ (by omega)
  unfold tileAt
  rw [getD_map' _ a ty [] [] (by omega), getD_map' _ _ tx udg0 udg0 (by rw [hW _ hr]; exact hx)]

/-- Source tile coordinates of tile `(tx, ty)` after `n` quarter turns of a `W x H` array. -/
def rotTile (n W H tx ty : Nat) : Nat × Nat :=
  if n % 4 = 0 then (tx, ty) else if n % 4 = 1 then (ty, H - 1 - tx)
  else if n % 4 = 2 then (W - 1 - tx, H - 1 - ty) else (W - 1 - ty, tx)

theorem and3 (n : Nat) : n &&& 3 = n % 4 := Nat.and_two_pow_sub_one_eq_mod n 2

/-- Where `rotate_udgs` puts which tile (rectangular arrays). -/
theorem rotateUdgs_tileAt (n : Nat) (a : List (List Udg)) (W H : Nat) (hH : a.length = H) (hH0 : 0 < H)
    (hW : ∀ row ∈ a, row.length = W) (tx ty : Nat)
    (hx : tx < (if n % 2 = 1 then H else W)) (hy : ty < (if n % 2 = 1 then W else H)) :
    tileAt (rotateUdgs a n) tx ty = (tileAt a (rotTile n W H tx ty).1 (rotTile n W H tx ty).2).rotate n := by
  have hne : a ≠ [] := by intro h; rw [h] at hH; simp at hH; omega
  unfold rotateUdgs rotTile
  by_cases h0 : n = 0
  · subst h0
    simp only [if_true, Nat.zero_mod]
    generalize tileAt a tx ty = u
    cases u with
    | mk attr data mask =>
      have e1 : (0 : Nat) &&& 1 = 0 := rfl
      have e2 : (0 : Nat) &&& 2 = 0 := rfl
      simp only [Udg.rotate, rotateTile, e1, e2, ne_eq, not_true_eq_false, if_false, Udg.mk.injEq, true_and]
      cases h : ({ attr := attr, data := data, mask := mask } : Udg).maskRows with
      | none => rfl
      | some m =>
        simp only [Udg.maskRows] at h
        cases mask with
        | none => simp at h
        | some m' => cases m' with
          | nil => simp at h
          | cons b t => simp only [Option.some.injEq] at h; simp [h]
  · simp only [h0, if_false, and3]
    have hW' : ∀ row ∈ a.map (fun row => row.map (fun u => u.rotate n)), row.length = W := by
      intro row hr
      simp only [List.mem_map] at hr
      obtain ⟨r, hr, rfl⟩ := hr
      simpa using hW r hr
    have hH' : (a.map (fun row => row.map (fun u => u.rotate n))).length = H := by simpa using hH
    have hne' : a.map (fun row => row.map (fun u => u.rotate n)) ≠ [] := by
      intro h; rw [h] at hH'; simp at hH'; omega
    have hm : n % 4 = 0 ∨ n % 4 = 1 ∨ n % 4 = 2 ∨ n % 4 = 3 := by omega
    rcases hm with hm | hm | hm | hm
    · have hn2 : ¬ n % 2 = 1 := by omega
      simp only [hn2, if_false] at hx hy
      simp only [hm, if_true, show ¬ (0 : Nat) = 1 by decide, show ¬ (0 : Nat) = 2 by decide,
        show ¬ (0 : Nat) = 3 by decide, if_false]
      exact tileAt_map _ a W H hH hW tx ty hx hy
    · have hn2 : n % 2 = 1 := by omega
      simp only [hn2, if_true] at hx hy
      simp only [hm, if_true, show ¬ (1 : Nat) = 0 by decide, if_false]
      rw [maxLen_rect _ W hW' hne']
      unfold tileAt
      rw [getD_map' _ _ ty 0 [] (by simpa using hy)]
      simp only [List.getD_eq_getElem?_getD, List.getElem?_range hy, Option.getD_some]
      rw [filterMap_col _ W ty hW' hy]
      simp only [← List.getD_eq_getElem?_getD]
      rw [getD_reverse' _ _ _ (by simp [hH]; exact hx), List.length_map, hH',
        getD_map' _ _ _ [] udg0 (by rw [hH']; omega)]
      exact tileAt_map _ a W H hH hW ty (H - 1 - tx) hy (by omega)
    · have hn2 : ¬ n % 2 = 1 := by omega
      simp only [hn2, if_false] at hx hy
      simp only [hm, if_true, show ¬ (2 : Nat) = 0 by decide, show ¬ (2 : Nat) = 1 by decide, if_false]
      unfold tileAt
      have hrow : (a.map (fun row => row.map (fun u => u.rotate n))).reverse.getD ty []
          = (a.map (fun row => row.map (fun u => u.rotate n))).getD (H - 1 - ty) [] := by
        rw [getD_reverse' _ _ _ (by rw [hH']; exact hy), hH']
      have hr : (a.map (fun row => row.map (fun u => u.rotate n))).getD (H - 1 - ty) [] ∈
          a.map (fun row => row.map (fun u => u.rotate n)) := getD_mem_or_default _ _ _ (by rw [hH']; omega)
      rw [getD_map' List.reverse _ ty [] [] (by rw [List.length_reverse, hH']; exact hy), hrow,
        getD_reverse' _ tx _ (by rw [hW' _ hr]; exact hx), hW' _ hr]
      exact tileAt_map _ a W H hH hW (W - 1 - tx) (H - 1 - ty) (by omega) (by omega)
    · have hn2 : n % 2 = 1 := by omega
      simp only [hn2, if_true] at hx hy
      simp only [hm, if_true, show ¬ (3 : Nat) = 0 by decide, show ¬ (3 : Nat) = 1 by decide,
        show ¬ (3 : Nat) = 2 by decide, if_false]
      rw [maxLen_rect _ W hW' hne']
      unfold tileAt
      rw [getD_reverse' _ _ _ (by simp; exact hy)]
      simp only [List.length_map, List.length_range]
      rw [getD_map' _ _ _ 0 [] (by simp; omega)]
      simp only [List.getD_eq_getElem?_getD, List.getElem?_range (show W - 1 - ty < W by omega), Option.getD_some]
      rw [filterMap_col _ W _ hW' (by omega)]
      simp only [← List.getD_eq_getElem?_getD]
      rw [getD_map' _ _ _ [] udg0 (by rw [hH']; exact hx)]
      exact tileAt_map _ a W H hH hW (W - 1 - ty) tx (by omega) hx

/-- Source pixel of pixel `(X, Y)` after `n` quarter turns clockwise of a `W x H`-tile picture. -/
def picRot (n W H X Y : Nat) : Nat × Nat :=
  if n % 4 = 0 then (X, Y) else if n % 4 = 1 then (Y, 8 * H - 1 - X)
  else if n % 4 = 2 then (8 * W - 1 - X, 8 * H - 1 - Y) else (8 * W - 1 - Y, X)

/-- **Pixel map of `rotate_udgs`** on a rectangular `W x H` tile array: the picture is turned by
`n` quarter turns clockwise -- graphic bit, attribute and mask bit alike. -/
theorem rotateUdgs_picture (n : Nat) (a : List (List Udg)) (W H : Nat) (hH : a.length = H) (hH0 : 0 < H)
    (hW : ∀ row ∈ a, row.length = W) (hwf : ∀ row ∈ a, ∀ u ∈ row, WfUdg u)
    (X Y : Nat) (hX : X < 8 * (if n % 2 = 1 then H else W)) (hY : Y < 8 * (if n % 2 = 1 then W else H)) :
    (pictureOf (rotateUdgs a n)).bit X Y = (pictureOf a).bit (picRot n W H X Y).1 (picRot n W H X Y).2 ∧
      (pictureOf (rotateUdgs a n)).attr X Y = (pictureOf a).attr (picRot n W H X Y).1 (picRot n W H X Y).2 ∧
      (pictureOf (rotateUdgs a n)).mbit X Y = (pictureOf a).mbit (picRot n W H X Y).1 (picRot n W H X Y).2 := by
  have hxm : X % 8 < 8 := Nat.mod_lt _ (by decide)
  have hym : Y % 8 < 8 := Nat.mod_lt _ (by decide)
  have htx : X / 8 < (if n % 2 = 1 then H else W) := by omega
  have hty : Y / 8 < (if n % 2 = 1 then W else H) := by omega
  have hgeo : (picRot n W H X Y).1 / 8 = (rotTile n W H (X / 8) (Y / 8)).1 ∧
      (picRot n W H X Y).2 / 8 = (rotTile n W H (X / 8) (Y / 8)).2 ∧
      (picRot n W H X Y).2 % 8 = (rotIdx n (Y % 8) (X % 8)).1 ∧
      (picRot n W H X Y).1 % 8 = (rotIdx n (Y % 8) (X % 8)).2 ∧
      (rotTile n W H (X / 8) (Y / 8)).1 < W ∧ (rotTile n W H (X / 8) (Y / 8)).2 < H := by
    unfold picRot rotTile rotIdx
    have hm : n % 4 = 0 ∨ n % 4 = 1 ∨ n % 4 = 2 ∨ n % 4 = 3 := by omega
    rcases hm with hm | hm | hm | hm
    · have hn2 : ¬ n % 2 = 1 := by omega
      simp only [hn2, if_false] at hX hY
      simp only [hm, ↓reduceIte]
      refine ⟨?_, ?_, ?_, ?_, ?_, ?_⟩ <;> first | trivial | omega
    · have hn2 : n % 2 = 1 := by omega
      simp only [hn2, if_true] at hX hY
      simp only [hm, ↓reduceIte, Nat.reduceEqDiff]
      refine ⟨?_, ?_, ?_, ?_, ?_, ?_⟩ <;> first | trivial | omega
    · have hn2 : ¬ n % 2 = 1 := by omega
      simp only [hn2, if_false] at hX hY
      simp only [hm, ↓reduceIte, Nat.reduceEqDiff]
      refine ⟨?_, ?_, ?_, ?_, ?_, ?_⟩ <;> first | trivial | omega
    · have hn2 : n % 2 = 1 := by omega
      simp only [hn2, if_true] at hX hY
      simp only [hm, ↓reduceIte, Nat.reduceEqDiff]
      refine ⟨?_, ?_, ?_, ?_, ?_, ?_⟩ <;> first | trivial | omega
  obtain ⟨g1, g2, g3, g4, g5, g6⟩ := hgeo
  obtain ⟨p1, p2, p3⟩ := pictureOf_tileAt (rotateUdgs a n) X Y
  obtain ⟨q1, q2, q3⟩ := pictureOf_tileAt a (picRot n W H X Y).1 (picRot n W H X Y).2
  rw [p1, p2, p3, q1, q2, q3, g1, g2, g3, g4, rotateUdgs_tileAt n a W H hH hH0 hW _ _ htx hty]
  have hsrc : WfUdg (tileAt a (rotTile n W H (X / 8) (Y / 8)).1 (rotTile n W H (X / 8) (Y / 8)).2) :=
    tileAt_wf a W H hH hW hwf _ _ g5 g6
  generalize tileAt a (rotTile n W H (X / 8) (Y / 8)).1 (rotTile n W H (X / 8) (Y / 8)).2 = u at hsrc
  refine ⟨?_, rfl, ?_⟩
  · exact tileBit_rotateTile n hsrc.1 _ _ hym hxm
  · rw [maskRows_of_wf (wf_rotate n hsrc), maskRows_of_wf hsrc]
    simp only [Udg.rotate, maskRows_of_wf hsrc]
    cases hm : u.mask with
    | none => rfl
    | some m =>
      simp only
      rw [tileBit_rotateTile n (hsrc.2 m hm) _ _ hym hxm]

end PngScan
