import SkoolVerif.Proofs.C02Digits
/-!
Reading back rendered numbers: `pyInt`, `getIntParam`, `convertChars`,
`convertNums`, `evalArith`, `evalInt` on every text form `numStr` can emit.
-/
namespace C02L
open OpText AsmEval

/-- A rendered digit run: `format(n, '0<w>{b,d,X,x}')`. -/
def digs (b : Nat) (up : Bool) (w n : Nat) : Txt := (padLeft w (toDigits b n)).map (digitChar up)

/-- Code point of a character `0-9A-Fa-f`. -/
def HexCh (c : Nat) : Prop :=
  (48 ≤ c ∧ c ≤ 57) ∨ (65 ≤ c ∧ c ≤ 70) ∨ (97 ≤ c ∧ c ≤ 102)

theorem fmtInt_ofNat (b w : Nat) (up : Bool) (n : Nat) : fmtInt b w up (n : Int) = digs b up w n := by
  have : ¬ ((n : Int) < 0) := by omega
  simp [fmtInt, digs, this]

theorem digs_ne_nil (b : Nat) (up : Bool) (w n : Nat) : digs b up w n ≠ [] := by
  simp [digs, padLeft, toDigits_ne_nil]

theorem digs_mem (b : Nat) (hb : 2 ≤ b) (_hb16 : b ≤ 16) (up : Bool) (w n c : Nat)
    (h : c ∈ digs b up w n) : ∃ d, d < b ∧ c = digitChar up d := by
  simp only [digs, List.mem_map] at h
  obtain ⟨d, hd, rfl⟩ := h
  exact ⟨d, padLeft_lt b w n hb d hd, rfl⟩

theorem digs_hexch (b : Nat) (hb : 2 ≤ b) (hb16 : b ≤ 16) (up : Bool) (w n c : Nat)
    (h : c ∈ digs b up w n) : HexCh c := by
  obtain ⟨d, hd, rfl⟩ := digs_mem b hb hb16 up w n c h
  exact digitChar_range up d (by omega)

theorem digs_dec_mem (up : Bool) (w n c : Nat) (h : c ∈ digs 10 up w n) : 48 ≤ c ∧ c ≤ 57 := by
  obtain ⟨d, hd, rfl⟩ := digs_mem 10 (by omega) (by omega) up w n c h
  rw [digitChar_dec up d hd]; omega

theorem digs_bin_mem (up : Bool) (w n c : Nat) (h : c ∈ digs 2 up w n) : c = 48 ∨ c = 49 := by
  obtain ⟨d, hd, rfl⟩ := digs_mem 2 (by omega) (by omega) up w n c h
  rw [digitChar_dec up d (by omega)]; omega

/-! ### generic list facts -/

theorem head?_mem {α} (l : List α) (c : α) (h : l.head? = some c) : c ∈ l := by
  cases l with
  | nil => simp at h
  | cons a as => simp at h; simp [h]

theorem getLast?_mem {α} (l : List α) (c : α) (h : l.getLast? = some c) : c ∈ l :=
  List.mem_of_getLast? h

theorem dropWhile_id (p : Nat → Bool) (t : Txt) (h : ∀ c, t.head? = some c → p c = false) :
    t.dropWhile p = t := by
  cases t with
  | nil => rfl
  | cons a as => simp [List.dropWhile, h a (by simp)]

theorem strip_gen_id (p : Nat → Bool) (t : Txt) (h1 : ∀ c, t.head? = some c → p c = false)
    (h2 : ∀ c, t.getLast? = some c → p c = false) :
    ((t.dropWhile p).reverse.dropWhile p).reverse = t := by
  rw [dropWhile_id p t h1, dropWhile_id p t.reverse (by simpa using h2)]
  simp

theorem stripInt_id (t : Txt) (h : ∀ c ∈ t, isSpaceInt c = false) : stripInt t = t :=
  strip_gen_id _ t (fun c hc => h c (head?_mem t c hc)) (fun c hc => h c (getLast?_mem t c hc))

theorem strip_id (t : Txt) (h1 : ∀ c, t.head? = some c → isSpace c = false)
    (h2 : ∀ c, t.getLast? = some c → isSpace c = false) : strip t = t :=
  strip_gen_id _ t h1 h2

theorem hexch_not_space (c : Nat) (h : HexCh c) : isSpaceInt c = false ∧ isSpace c = false := by
  unfold HexCh at h
  simp [isSpaceInt, isSpace]; omega

theorem spanP_append (p : Nat → Bool) (xs ys : Txt) (hx : ∀ c ∈ xs, p c = true)
    (hy : ∀ c, ys.head? = some c → p c = false) : spanP p (xs ++ ys) = (xs, ys) := by
  induction xs with
  | nil =>
    cases ys with
    | nil => simp [spanP]
    | cons a as => simp [spanP, hy a (by simp)]
  | cons a as ih =>
    have := ih (fun c hc => hx c (by simp [hc]))
    simp only [spanP, Prod.mk.injEq] at this ⊢
    simp [hx a (by simp), this.1, this.2]

theorem spanP_all (p : Nat → Bool) (xs : Txt) (hx : ∀ c ∈ xs, p c = true) : spanP p xs = (xs, []) := by
  have := spanP_append p xs [] hx (by simp)
  simpa using this

/-! ### `int(s, b)` on a rendered digit run -/

theorem pyDigits_digs (b : Nat) (hb : 2 ≤ b) (hb16 : b ≤ 16) (up : Bool) (w n : Nat) :
    pyDigits b 0 true (digs b up w n) = some n := by
  rw [digs, pyDigits_map b hb16 up _ 0 true (padLeft_lt b w n hb)
    (Or.inl (padLeft_ne_nil w _ (toDigits_ne_nil b n)))]
  have := ofDigits_padLeft b w n hb
  simp only [ofDigits] at this
  rw [this]

theorem pyInt_of_digits (b : Nat) (t : Txt) (v : Nat) (hne : t ≠ [])
    (hmem : ∀ c ∈ t, HexCh c) (hbin : b = 2 → ∀ c ∈ t, c = 48 ∨ c = 49)
    (hpd : pyDigits b 0 true t = some v) : pyInt b t = some (v : Int) := by
  have hstrip : stripInt t = t := stripInt_id _ (fun c hc => (hexch_not_space c (hmem c hc)).1)
  match t, hne with
  | [c], _ =>
    have hc := hmem c (by simp)
    unfold HexCh at hc
    have h45 : c ≠ 45 := by omega
    have h43 : c ≠ 43 := by omega
    simp [pyInt, hstrip, h45, h43, hpd]
  | c :: x :: r, _ =>
    have hc := hmem c (by simp)
    have hx := hmem x (by simp)
    unfold HexCh at hc hx
    have h45 : c ≠ 45 := by omega
    have h43 : c ≠ 43 := by omega
    have hx1 : x ≠ 120 := by omega
    have hx2 : x ≠ 88 := by omega
    have hpre : ¬ (b = 2 ∧ (x = 98 ∨ x = 66)) := by
      rintro ⟨hb2, hx'⟩
      have := hbin hb2 x (by simp)
      omega
    simp [pyInt, hstrip, h45, h43, hx1, hx2, hpre, hpd]

theorem pyInt_digs (b : Nat) (hb : b = 2 ∨ b = 10 ∨ b = 16) (up : Bool) (w n : Nat) :
    pyInt b (digs b up w n) = some (n : Int) := by
  have hb2 : 2 ≤ b := by omega
  have hb16 : b ≤ 16 := by omega
  exact pyInt_of_digits b _ n (digs_ne_nil b up w n) (digs_hexch b hb2 hb16 up w n)
    (fun h => by subst h; exact digs_bin_mem up w n) (pyDigits_digs b hb2 hb16 up w n)

/-- `int(s)` fails on text starting with `$`, `%`, `"` (after an optional sign). -/
theorem pyDigits_bad_head (b acc : Nat) (c : Nat) (t : Txt) (h : digitVal c = none) (h95 : c ≠ 95) :
    pyDigits b acc true (c :: t) = none := by
  simp [pyDigits, h95, h]

theorem padLeft_zero (l : List Nat) : padLeft 0 l = l := by simp [padLeft]

theorem decStr_eq_digs (n : Nat) : decStr n = digs 10 true 0 n := by simp [decStr, digs, padLeft_zero]

/-- `int(s, b)` raises ValueError when the text starts with a character that is
neither a digit, a sign, an underscore nor white space. -/
theorem pyInt_bad (b c0 : Nat) (t : Txt) (hd : digitVal c0 = none) (h95 : c0 ≠ 95) (h45 : c0 ≠ 45)
    (h43 : c0 ≠ 43) (hsp : isSpaceInt c0 = false)
    (hlast : ∀ c, (c0 :: t).getLast? = some c → isSpaceInt c = false) : pyInt b (c0 :: t) = none := by
  have hstrip : stripInt (c0 :: t) = c0 :: t :=
    strip_gen_id _ _ (by simp [hsp]) hlast
  have h48 : c0 ≠ 48 := by intro h; subst h; simp [digitVal, isDigit] at hd
  simp [pyInt, hstrip, h45, h43, h48, pyDigits_bad_head b 0 c0 t hd h95]

/-- … also after a `-` sign. -/
theorem pyInt_neg_bad (b c0 : Nat) (t : Txt) (hd : digitVal c0 = none) (h95 : c0 ≠ 95)
    (hlast : ∀ c, (45 :: c0 :: t).getLast? = some c → isSpaceInt c = false) :
    pyInt b (45 :: c0 :: t) = none := by
  have hstrip : stripInt (45 :: c0 :: t) = 45 :: c0 :: t :=
    strip_gen_id _ _ (by simp [isSpaceInt]) hlast
  have h48 : c0 ≠ 48 := by intro h; subst h; simp [digitVal, isDigit] at hd
  simp [pyInt, hstrip, h48, pyDigits_bad_head b 0 c0 t hd h95]

/-- `int('-' + digits)`. -/
theorem pyInt_neg_digs (b : Nat) (hb : b = 2 ∨ b = 10 ∨ b = 16) (up : Bool) (w n : Nat) :
    pyInt b (45 :: digs b up w n) = some (-(n : Int)) := by
  have hb2 : 2 ≤ b := by omega
  have hb16 : b ≤ 16 := by omega
  have hmem := digs_hexch b hb2 hb16 up w n
  have hpd := pyDigits_digs b hb2 hb16 up w n
  have hbin : b = 2 → ∀ c ∈ digs b up w n, c = 48 ∨ c = 49 := fun h => by subst h; exact digs_bin_mem up w n
  have hne := digs_ne_nil b up w n
  generalize digs b up w n = t at *
  have hstrip : stripInt (45 :: t) = 45 :: t := by
    apply strip_gen_id
    · simp [isSpaceInt]
    · intro c hc
      have : c ∈ t := by
        cases t with
        | nil => exact absurd rfl hne
        | cons a as => exact getLast?_mem _ c (by simpa [List.getLast?_cons_cons] using hc)
      exact (hexch_not_space c (hmem c this)).1
  match t, hne with
  | [c], _ =>
    have hc := hmem c (by simp)
    unfold HexCh at hc
    simp [pyInt, hstrip, hpd]
  | c :: x :: r, _ =>
    have hx := hmem x (by simp)
    unfold HexCh at hx
    have hx1 : x ≠ 120 := by omega
    have hx2 : x ≠ 88 := by omega
    have hpre : ¬ (b = 2 ∧ (x = 98 ∨ x = 66)) := by
      rintro ⟨hb2', hx'⟩
      have := hbin hb2' x (by simp)
      omega
    simp [pyInt, hstrip, hx1, hx2, hpre, hpd]

theorem digs_getLast_nospace (b : Nat) (hb : 2 ≤ b) (hb16 : b ≤ 16) (up : Bool) (w n : Nat) (pre : Txt) :
    ∀ c, (pre ++ digs b up w n).getLast? = some c → isSpaceInt c = false ∧ isSpace c = false := by
  intro c hc
  rw [List.getLast?_append] at hc
  have hne := digs_ne_nil b up w n
  have hsome : ∃ x, (digs b up w n).getLast? = some x := by
    cases hd : (digs b up w n).getLast? with
    | none => simp [List.getLast?_eq_none_iff] at hd; exact absurd hd hne
    | some x => exact ⟨x, rfl⟩
  obtain ⟨x, hx⟩ := hsome
  rw [hx] at hc
  simp at hc
  subst hc
  exact hexch_not_space x (digs_hexch b hb hb16 up w n x (getLast?_mem _ x hx))

/-! ### `get_int_param` on the directly readable forms -/

theorem gip_dec (up : Bool) (w n : Nat) : getIntParam (digs 10 up w n) = some (n : Int) := by
  simp [getIntParam, pyInt_digs 10 (by omega)]

theorem gip_neg_dec (up : Bool) (w n : Nat) : getIntParam (45 :: digs 10 up w n) = some (-(n : Int)) := by
  simp [getIntParam, pyInt_neg_digs 10 (by omega)]

theorem gip_hex (up : Bool) (w n : Nat) : getIntParam (36 :: digs 16 up w n) = some (n : Int) := by
  have h := pyInt_bad 10 36 (digs 16 up w n) (by decide) (by decide) (by decide) (by decide) (by decide)
    (fun c hc => (digs_getLast_nospace 16 (by omega) (by omega) up w n [36] c hc).1)
  simp [getIntParam, h, startsWith, pyInt_digs 16 (by omega)]

theorem gip_bin (up : Bool) (w n : Nat) : getIntParam (37 :: digs 2 up w n) = some (n : Int) := by
  have h := pyInt_bad 10 37 (digs 2 up w n) (by decide) (by decide) (by decide) (by decide) (by decide)
    (fun c hc => (digs_getLast_nospace 2 (by omega) (by omega) up w n [37] c hc).1)
  simp [getIntParam, h, startsWith, pyInt_digs 2 (by omega)]

theorem gip_neg_hex (up : Bool) (w n : Nat) : getIntParam (45 :: 36 :: digs 16 up w n) = none := by
  have h := pyInt_neg_bad 10 36 (digs 16 up w n) (by decide) (by decide)
    (fun c hc => (digs_getLast_nospace 16 (by omega) (by omega) up w n [45, 36] c hc).1)
  simp [getIntParam, h, startsWith]

theorem gip_char (ch : Nat) (h34 : ch ≠ 34) (h92 : ch ≠ 92) : getIntParam [34, ch, 34] = some (ch : Int) := by
  have h := pyInt_bad 10 34 [ch, 34] (by decide) (by decide) (by decide) (by decide) (by decide)
    (by simp [isSpaceInt])
  simp [getIntParam, h, startsWith, endsWith, sliceToLast, ord?, Ne.symm h92]

theorem gip_esc_char (ch : Nat) : getIntParam [34, 92, ch, 34] = some (ch : Int) := by
  have h := pyInt_bad 10 34 [92, ch, 34] (by decide) (by decide) (by decide) (by decide) (by decide)
    (by simp [isSpaceInt])
  simp [getIntParam, h, startsWith, endsWith, sliceToLast, ord?]

end C02L
