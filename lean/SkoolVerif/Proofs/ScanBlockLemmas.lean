import SkoolVerif.Proofs.ScanRowLemmas
/-! Vertical structure of the generic builder: repetition of scanlines (C15). -/
set_option linter.unusedSimpArgs false
set_option linter.unusedVariables false
namespace PngScan

theorem range'_split (a m n : Nat) : List.range' a (m + n) = List.range' a m ++ List.range' (a + m) n := by
  rw [List.range'_append_1]

/-- All output rows of one source row show the same line. -/
theorem block_const {β : Type} (f : Nat → β) (s Y a n : Nat) (hs : 0 < s) (h1 : s * Y ≤ a)
    (h2 : a + n ≤ s * Y + s) : (List.range' a n).map (fun yy => f (yy / s)) = List.replicate n (f Y) := by
  rw [List.eq_replicate_iff]
  refine ⟨by simp, ?_⟩
  intro b hb
  simp only [List.mem_map, List.mem_range'_1] at hb
  obtain ⟨yy, ⟨h3, h4⟩, rfl⟩ := hb
  congr 1
  apply Nat.div_eq_of_lt_le
  · rw [Nat.mul_comm]; omega
  · rw [Nat.add_mul, Nat.mul_comm]; omega

/-- Whole source rows: each line `s` times. -/
theorem full_blocks {β : Type} (f : Nat → β) (s Ya n : Nat) (hs : 0 < s) :
    (List.range' (s * Ya) (s * n)).map (fun yy => f (yy / s))
      = (List.range' Ya n).flatMap (fun Y => List.replicate s (f Y)) := by
  induction n generalizing Ya with
  | zero => simp
  | succ n ih =>
    have e : s * (n + 1) = s + s * n := by rw [Nat.mul_succ]; omega
    rw [e, range'_split, List.map_append, List.range'_succ, List.flatMap_cons]
    rw [block_const f s Ya (s * Ya) s hs (Nat.le_refl _) (Nat.le_refl _)]
    have e2 : s * Ya + s = s * (Ya + 1) := by rw [Nat.mul_succ]
    rw [e2, ih (Ya + 1)]

theorem flatMap_range'_shift {β : Type} (g : Nat → List β) (a n b : Nat) :
    (List.range' (b + a) n).flatMap g = (List.range' a n).flatMap (fun k => g (b + k)) := by
  induction n generalizing a with
  | zero => simp
  | succ n ih =>
    simp only [List.range'_succ, List.flatMap_cons]
    rw [show b + a + 1 = b + (a + 1) by omega, ih (a + 1)]

/-- What one tile row contributes, in natural numbers: line `K0` repeated for the
(possibly partial) first source row, whole source rows in between, and the
(possibly partial) last source row -- equals "output row `yy` shows source row
`yy / s`" over the rows `[lo, hi)` this tile row covers. -/
theorem step_emit {β : Type} (L : Nat → β) (s r K0 K1 y0 y1 : Nat) (hs : 0 < s) (hK : K0 < K1) (hK8 : K1 ≤ 8)
    (hlo : y0 < s * (8 * r + K0) + s) (hlast : s * (8 * r + (K1 - 1)) < y1)
    (hend : K1 = 8 ∨ y1 ≤ s * (8 * r + K1)) :
    List.replicate (min (s * (8 * r + K0) + s) y1 - max y0 (s * (8 * r + K0))) (L K0) ++
      (if K0 + 1 < K1 then
        (List.range' (K0 + 1) (K1 - K0 - 2)).flatMap (fun k => List.replicate s (L k))
          ++ List.replicate (min s (y1 - s * (8 * r + (K1 - 1)))) (L (K1 - 1))
       else [])
    = (List.range' (max y0 (s * (8 * r + K0))) (min y1 (8 * s * (r + 1)) - max y0 (s * (8 * r + K0)))).map
        (fun yy => L (yy / s - 8 * r)) := by
  have pos (K : Nat) : s * (8 * r + K) = 8 * s * r + s * K := by
    rw [Nat.mul_add, ← Nat.mul_assoc, Nat.mul_comm s 8]
  have hB : 8 * s * (r + 1) = 8 * s * r + 8 * s := by rw [Nat.mul_succ]
  have f_eq (Y : Nat) (hY : 8 * r ≤ Y) :
      ∀ a n, s * Y ≤ a → a + n ≤ s * Y + s →
        (List.range' a n).map (fun yy => L (yy / s - 8 * r)) = List.replicate n (L (Y - 8 * r)) :=
    fun a n h1 h2 => block_const (fun Y => L (Y - 8 * r)) s Y a n hs h1 h2
  by_cases hc : K0 + 1 < K1
  · -- several source rows
    simp only [hc, if_true]
    have hK1 : K1 - 1 = (K0 + 1) + (K1 - K0 - 2) := by omega
    have p1 : s * (K1 - 1) = s * K0 + s + s * (K1 - K0 - 2) := by
      rw [hK1, Nat.mul_add, Nat.mul_succ]
    have p2 : s * K1 = s * (K1 - 1) + s := by
      have : K1 = (K1 - 1) + 1 := by omega
      conv => lhs; rw [this, Nat.mul_succ]
    have p8 : K1 = 8 → s * K1 = 8 * s := fun h => by rw [h, Nat.mul_comm]
    have hb8 : s * K1 ≤ 8 * s := by rw [Nat.mul_comm 8 s]; exact Nat.mul_le_mul_left s hK8
    have hY0 : s * (8 * r + K0) = 8 * s * r + s * K0 := pos K0
    have hYm : s * (8 * r + (K0 + 1)) = 8 * s * r + s * K0 + s := by rw [pos (K0 + 1), Nat.mul_succ]; omega
    have hYl : s * (8 * r + (K1 - 1)) = 8 * s * r + (s * K0 + s + s * (K1 - K0 - 2)) := by rw [pos (K1 - 1), p1]
    rw [pos K0] at hlo ⊢
    rw [pos (K1 - 1), p1] at hlast ⊢
    rw [pos K1] at hend
    rw [hB]
    rw [p1] at p2
    generalize 8 * s * r = B at *
    generalize s * K0 = a at *
    generalize ht : s * (K1 - K0 - 2) = t at *
    generalize s * K1 = b at *
    have hM1 := Nat.le_max_left y0 (B + a)
    have hM2 := Nat.le_max_right y0 (B + a)
    have hM3 : max y0 (B + a) = y0 ∨ max y0 (B + a) = B + a := by omega
    have hm1 := Nat.min_le_left y1 (B + 8 * s)
    have hm2 := Nat.min_le_right y1 (B + 8 * s)
    have hm3 : min y1 (B + 8 * s) = y1 ∨ min y1 (B + 8 * s) = B + 8 * s := by omega
    have hn1 : min (B + a + s) y1 = B + a + s := Nat.min_eq_left (by omega)
    rw [hn1]
    generalize max y0 (B + a) = M at *
    generalize min y1 (B + 8 * s) = m at *
    have hmb : B + (a + s + t) < m ∧ m ≤ B + (a + s + t) + s ∧ (y1 ≤ B + (a + s + t) + s → m = y1) := by
      rcases hend with h | h
      · have := p8 h; omega
      · omega
    have hn2 : min s (y1 - (B + (a + s + t))) = m - (B + (a + s + t)) := by
      rw [Nat.min_def]
      split <;> omega
    rw [hn2]
    -- split the output rows at the end of the first and the start of the last source row
    have hsplit : m - M = (B + a + s - M) + (t + (m - (B + (a + s + t)))) := by omega
    rw [hsplit, range'_split, range'_split, List.map_append, List.map_append]
    have e1 : M + (B + a + s - M) = B + a + s := by omega
    rw [e1]
    rw [f_eq (8 * r + K0) (by omega) M _ (by omega) (by omega)]
    have hmid : List.range' (B + a + s) t = List.range' (s * (8 * r + (K0 + 1))) (s * (K1 - K0 - 2)) := by
      rw [hYm, ht]
    have hshift : (List.range' (8 * r + (K0 + 1)) (K1 - K0 - 2)).flatMap (fun Y => List.replicate s (L (Y - 8 * r)))
        = (List.range' (K0 + 1) (K1 - K0 - 2)).flatMap (fun k => List.replicate s (L k)) := by
      rw [flatMap_range'_shift (fun Y => List.replicate s (L (Y - 8 * r))) (K0 + 1) (K1 - K0 - 2) (8 * r)]
      simp only [Nat.add_sub_cancel_left]
    rw [hmid, full_blocks (fun Y => L (Y - 8 * r)) s _ _ hs, hshift]
    have e3 : B + a + s + t = B + (a + s + t) := by omega
    rw [e3, f_eq (8 * r + (K1 - 1)) (by omega) (B + (a + s + t)) _ (by omega) (by omega)]
    simp only [Nat.add_sub_cancel_left, List.append_assoc]
  · -- a single source row
    simp only [hc, if_false, List.append_nil]
    have hK1 : K1 = K0 + 1 := by omega
    subst hK1
    have p8 : K0 + 1 = 8 → s * K0 + s = 8 * s := fun h => by
      have : K0 = 7 := by omega
      rw [this]; omega
    have hY0 : s * (8 * r + K0) = 8 * s * r + s * K0 := pos K0
    have hb8 : s * K0 + s ≤ 8 * s := by
      have : s * (K0 + 1) ≤ s * 8 := Nat.mul_le_mul_left s hK8
      rw [Nat.mul_succ] at this; omega
    have hlast' : 8 * s * r + s * K0 < y1 := by
      have := hlast
      rw [show K0 + 1 - 1 = K0 by omega, pos K0] at this; exact this
    rw [pos K0] at hlo ⊢
    rw [pos (K0 + 1), Nat.mul_succ] at hend
    rw [hB]
    generalize 8 * s * r = B at *
    generalize s * K0 = a at *
    have hM1 := Nat.le_max_left y0 (B + a)
    have hM2 := Nat.le_max_right y0 (B + a)
    have hM3 : max y0 (B + a) ≤ B + a + s := by omega
    have hn1 : min (B + a + s) y1 = min y1 (B + 8 * s) := by
      rcases hend with h | h
      · have h8 := p8 h
        rw [Nat.min_comm, show B + a + s = B + 8 * s by omega]
      · rw [Nat.min_eq_right (by omega), Nat.min_eq_left (by omega)]
    have hm1 := Nat.min_le_left y1 (B + 8 * s)
    have hm4 : min y1 (B + 8 * s) ≤ B + a + s := by
      rcases hend with h | h
      · have h8 := p8 h
        have := Nat.min_le_right y1 (B + 8 * s); omega
      · omega
    rw [hn1]
    generalize max y0 (B + a) = M at *
    generalize min y1 (B + 8 * s) = m at *
    rw [f_eq (8 * r + K0) (by omega) M _ (by omega) (by omega)]
    simp only [Nat.add_sub_cancel_left]

end PngScan
