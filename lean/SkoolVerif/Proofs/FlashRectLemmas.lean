import SkoolVerif.Proofs.ScanRowLemmas
/-! The flash rectangle computed by `ImageWriter._get_colours` (model `flashRect`) (C15). -/
set_option linter.unusedSimpArgs false
set_option linter.unusedVariables false
namespace PngScan
open ZxTile

/-- `_get_colours` treats the tile at `(x, y)` as flashing (FLASH set, ink ≠ paper, something
other than transparent visible inside the crop rectangle, animation enabled). -/
def cellFlashes (mask : MaskKind) (scale x0 y0 x1 y1 : Nat) (useFlash : Bool) (u : Udg) (x y : Nat) : Prop :=
  (flashCell mask scale x0 y0 x1 y1 useFlash
    { minX := x1, minY := y1, maxX := 0, maxY := 0, flashing := false } u x y).flashing = true

theorem hasNonTrans_pos (mask : MaskKind) (u : Udg) (j0 j1 k0 k1 : Nat)
    (h : hasNonTrans mask u j0 j1 k0 k1 = true) : j0 < j1 ∧ k0 < k1 := by
  unfold hasNonTrans at h
  rw [List.any_eq_true] at h
  obtain ⟨j, hj, hk⟩ := h
  simp only [List.mem_range] at hj
  rw [List.any_eq_true] at hk
  obtain ⟨p, hp, -⟩ := hk
  refine ⟨by omega, ?_⟩
  by_cases hc : k0 < k1
  · exact hc
  · have : k1 - k0 = 0 := by omega
    rw [this] at hp; simp at hp

/-- `min(8, 1 + (x1 - 1 - x) // scale)` over Python ints, as a natural number. -/
theorem maxK_nat (s x x1 : Nat) (hs : 0 < s) :
    (min (8 : Int) (1 + ((x1 : Int) - 1 - x) / (s : Int))).toNat
      = if x < x1 then min 8 (1 + (x1 - 1 - x) / s) else 0 := by
  by_cases h : x < x1
  · rw [if_pos h]
    have e : (x1 : Int) - 1 - x = ((x1 - 1 - x : Nat) : Int) := by omega
    rw [e, ← Int.natCast_ediv]
    generalize (x1 - 1 - x) / s = t
    omega
  · rw [if_neg h]
    have : ((x1 : Int) - 1 - x) / (s : Int) < 0 := Int.ediv_neg_of_neg_of_pos (by omega) (by omega)
    omega

/-- Position of a visited tile along one axis: `p = inc * col` with `o // inc ≤ col ≤ o1 // inc`. -/
theorem cell_pos_facts (s o o1 col : Nat) (hs : 0 < s) (hc0 : o / (8 * s) ≤ col) (hc1 : col ≤ o1 / (8 * s)) :
    8 * s * col ≤ o1 ∧ o < 8 * s * col + 8 * s := by
  obtain ⟨a1, a2, -⟩ := div_mod_facts o (8 * s) (by omega)
  obtain ⟨b1, b2, -⟩ := div_mod_facts o1 (8 * s) (by omega)
  have h1 : 8 * s * col ≤ 8 * s * (o1 / (8 * s)) := Nat.mul_le_mul_left _ hc1
  have h0 : 8 * s * (o / (8 * s)) ≤ 8 * s * col := Nat.mul_le_mul_left _ hc0
  rw [Nat.mul_comm (8 * s) (o1 / (8 * s))] at h1
  rw [Nat.mul_comm (8 * s) (o / (8 * s))] at h0
  omega

/-- The cropped-tile formulas `max(o, p + min_k*scale)`, `min(o1, p + max_k*scale)` of
`_get_colours` are just the tile's extent clamped to the crop rectangle. -/
theorem clamp_crop (s o o1 p : Nat) (hs : 0 < s) (ho : o < o1) (hp1 : p ≤ o1) (hp0 : o < p + 8 * s)
    (hk : (o - p) / s < (if p < o1 then min 8 (1 + (o1 - 1 - p) / s) else 0)) :
    max o (p + (o - p) / s * s) = max o p ∧
      min o1 (p + (if p < o1 then min 8 (1 + (o1 - 1 - p) / s) else 0) * s) = min o1 (p + 8 * s) ∧
      max o p < min o1 (p + 8 * s) := by
  have hlt : p < o1 := by
    by_cases h : p < o1
    · exact h
    · rw [if_neg h] at hk; exact absurd hk (Nat.not_lt_zero _)
  rw [if_pos hlt] at hk ⊢
  obtain ⟨a1, a2, -⟩ := div_mod_facts (o - p) s hs
  obtain ⟨b1, b2, -⟩ := div_mod_facts (o1 - 1 - p) s hs
  generalize (o - p) / s = mk at *
  generalize (o1 - 1 - p) / s = q at *
  refine ⟨?_, ?_, ?_⟩
  · omega
  · by_cases h8 : 8 ≤ 1 + q
    · have hm : min 8 (1 + q) = 8 := Nat.min_eq_left h8
      rw [hm]
    · have hm : min 8 (1 + q) = 1 + q := Nat.min_eq_right (by omega)
      rw [hm, Nat.add_mul, Nat.one_mul]
      have h6 : q * s ≤ 6 * s := Nat.mul_le_mul_right _ (by omega)
      rw [Nat.min_eq_left (by omega), Nat.min_eq_left (by omega)]
  · omega

/-- The clamped extent of a tile as a flash state update. -/
def widen (st : FlashSt) (a b a' b' : Nat) : FlashSt :=
  { minX := min a st.minX, maxX := max b st.maxX, minY := min a' st.minY, maxY := max b' st.maxY, flashing := true }

/-- What `_get_colours` does to the flash rectangle for one visited tile, uniformly in the running
state: nothing, or widen it by the tile's extent clamped to the crop rectangle (which is non-empty
and inside the rectangle). -/
theorem flashCell_eq (mask : MaskKind) (s x0 y0 x1 y1 : Nat) (useFlash : Bool) (u : Udg)
    (col row : Nat) (hs : 0 < s) (hx : x0 < x1) (hy : y0 < y1)
    (hc0 : x0 / (8 * s) ≤ col) (hc1 : col ≤ x1 / (8 * s)) (hr0 : y0 / (8 * s) ≤ row) (hr1 : row ≤ y1 / (8 * s)) :
    (∀ st, flashCell mask s x0 y0 x1 y1 useFlash st u (8 * s * col) (8 * s * row) = st) ∨
      ((∀ st, flashCell mask s x0 y0 x1 y1 useFlash st u (8 * s * col) (8 * s * row)
          = widen st (max x0 (8 * s * col)) (min x1 (8 * s * col + 8 * s)) (max y0 (8 * s * row))
              (min y1 (8 * s * row + 8 * s))) ∧
        max x0 (8 * s * col) < min x1 (8 * s * col + 8 * s) ∧
        max y0 (8 * s * row) < min y1 (8 * s * row + 8 * s)) := by
  obtain ⟨px1, px0⟩ := cell_pos_facts s x0 x1 col hs hc0 hc1
  obtain ⟨py1, py0⟩ := cell_pos_facts s y0 y1 row hs hr0 hr1
  by_cases hwhole : x0 ≤ 8 * s * col ∧ 8 * s * col < 8 * s * (x1 / (8 * s)) ∧ y0 ≤ 8 * s * row ∧
      8 * s * row < 8 * s * (y1 / (8 * s))
  · -- whole tile
    by_cases hcond : useFlash = true ∧ u.attr &&& 128 ≠ 0 ∧ (attrIndex u.attr).2 ≠ (attrIndex u.attr).1 ∧
        hasNonTrans mask u 0 8 0 8 = true
    · right
      have hw := hwhole
      obtain ⟨w1, w2, w3, w4⟩ := hw
      have hcx : col < x1 / (8 * s) := Nat.lt_of_mul_lt_mul_left w2
      have hcy : row < y1 / (8 * s) := Nat.lt_of_mul_lt_mul_left w4
      obtain ⟨b1, -, -⟩ := div_mod_facts x1 (8 * s) (by omega)
      obtain ⟨c1, -, -⟩ := div_mod_facts y1 (8 * s) (by omega)
      have hx2 : 8 * s * (col + 1) ≤ 8 * s * (x1 / (8 * s)) := Nat.mul_le_mul_left _ hcx
      have hy2 : 8 * s * (row + 1) ≤ 8 * s * (y1 / (8 * s)) := Nat.mul_le_mul_left _ hcy
      rw [Nat.mul_succ, Nat.mul_comm (8 * s) (x1 / (8 * s))] at hx2
      rw [Nat.mul_succ, Nat.mul_comm (8 * s) (y1 / (8 * s))] at hy2
      have e1 : max x0 (8 * s * col) = 8 * s * col := Nat.max_eq_right w1
      have e2 : min x1 (8 * s * col + 8 * s) = 8 * s * col + 8 * s := Nat.min_eq_right (by omega)
      have e3 : max y0 (8 * s * row) = 8 * s * row := Nat.max_eq_right w3
      have e4 : min y1 (8 * s * row + 8 * s) = 8 * s * row + 8 * s := Nat.min_eq_right (by omega)
      rw [e1, e2, e3, e4]
      refine ⟨fun st => ?_, by omega, by omega⟩
      unfold flashCell
      simp only [hwhole, and_self, if_true]
      rw [if_pos hcond]; rfl
    · left
      intro st
      unfold flashCell
      simp only [hwhole, and_self, if_true]
      rw [if_neg hcond]
  · -- cropped tile
    by_cases hcond : useFlash = true ∧ u.attr &&& 128 ≠ 0 ∧ (attrIndex u.attr).2 ≠ (attrIndex u.attr).1 ∧
        hasNonTrans mask u ((y0 - 8 * s * row) / s)
          (min (8 : Int) (1 + ((y1 : Int) - 1 - ((8 * s * row : Nat) : Int)) / (s : Int))).toNat
          ((x0 - 8 * s * col) / s)
          (min (8 : Int) (1 + ((x1 : Int) - 1 - ((8 * s * col : Nat) : Int)) / (s : Int))).toNat = true
    · right
      have hc := hcond
      obtain ⟨-, -, -, hnt⟩ := hc
      obtain ⟨hj, hk⟩ := hasNonTrans_pos _ _ _ _ _ _ hnt
      rw [maxK_nat s _ x1 hs] at hk
      rw [maxK_nat s _ y1 hs] at hj
      obtain ⟨f1, f2, f3⟩ := clamp_crop s x0 x1 (8 * s * col) hs hx px1 px0 hk
      obtain ⟨g1, g2, g3⟩ := clamp_crop s y0 y1 (8 * s * row) hs hy py1 py0 hj
      refine ⟨fun st => ?_, f3, g3⟩
      unfold flashCell
      simp only [hwhole, if_false]
      rw [if_pos hcond, maxK_nat s _ x1 hs, maxK_nat s _ y1 hs, f1, f2, g1, g2]; rfl
    · left
      intro st
      unfold flashCell
      simp only [hwhole, if_false]
      rw [if_neg hcond]

/-- Every tile `_get_colours` visits sits on the tile grid, between the first and last tile
column / row that intersect the crop rectangle. -/
theorem flashCells_pos (udgs : List (List Udg)) (s x0 y0 x1 y1 : Nat) (e : Udg × Nat × Nat)
    (he : e ∈ flashCells udgs s x0 y0 x1 y1) :
    ∃ col row, e.2.1 = 8 * s * col ∧ e.2.2 = 8 * s * row ∧ x0 / (8 * s) ≤ col ∧ col ≤ x1 / (8 * s) ∧
      y0 / (8 * s) ≤ row ∧ row ≤ y1 / (8 * s) := by
  unfold flashCells at he
  simp only [List.mem_flatMap, List.mem_map, Prod.exists] at he
  obtain ⟨rowl, r, hr, u, cidx, hc, rfl⟩ := he
  have h1 := List.snd_lt_of_mem_zipIdx hr
  have h2 := List.snd_lt_of_mem_zipIdx hc
  simp only [List.length_take, List.length_drop, Nat.add_zero] at h1 h2
  refine ⟨x0 / (8 * s) + cidx, y0 / (8 * s) + r, ?_, ?_, by omega, by omega, by omega, by omega⟩
  · simp only [Nat.mul_add]
  · simp only [Nat.mul_add]

/-- Loop invariant of the flash rectangle: it stays inside the crop rectangle and is non-empty
once a flashing tile has been seen. -/
def FlashInv (x0 y0 x1 y1 : Nat) (st : FlashSt) : Prop :=
  x0 ≤ st.minX ∧ st.minX ≤ x1 ∧ st.maxX ≤ x1 ∧ y0 ≤ st.minY ∧ st.minY ≤ y1 ∧ st.maxY ≤ y1 ∧
    (st.flashing = true → st.minX < st.maxX ∧ st.minY < st.maxY)

theorem flashInv_widen (x0 y0 x1 y1 : Nat) (st : FlashSt) (a b a' b' : Nat) (h : FlashInv x0 y0 x1 y1 st)
    (ha : x0 ≤ a) (hab : a < b) (hb : b ≤ x1) (ha' : y0 ≤ a') (hab' : a' < b') (hb' : b' ≤ y1) :
    FlashInv x0 y0 x1 y1 (widen st a b a' b') := by
  obtain ⟨h1, h2, h3, h4, h5, h6, h7⟩ := h
  unfold FlashInv widen
  simp only
  have m1 := Nat.min_le_left a st.minX
  have m2 := Nat.le_max_left b st.maxX
  have m3 := Nat.min_le_left a' st.minY
  have m4 := Nat.le_max_left b' st.maxY
  refine ⟨Nat.le_min.mpr ⟨ha, h1⟩, by omega, Nat.max_le.mpr ⟨hb, h3⟩, Nat.le_min.mpr ⟨ha', h4⟩, by omega,
    Nat.max_le.mpr ⟨hb', h6⟩, fun _ => ⟨by omega, by omega⟩⟩

theorem flashInv_fold (mask : MaskKind) (udgs : List (List Udg)) (s x0 y0 x1 y1 : Nat) (useFlash : Bool)
    (hs : 0 < s) (hx : x0 < x1) (hy : y0 < y1) (cells : List (Udg × Nat × Nat))
    (hcells : ∀ e ∈ cells, e ∈ flashCells udgs s x0 y0 x1 y1) (st : FlashSt) (h : FlashInv x0 y0 x1 y1 st) :
    FlashInv x0 y0 x1 y1
      (cells.foldl (fun st (e : Udg × Nat × Nat) => flashCell mask s x0 y0 x1 y1 useFlash st e.1 e.2.1 e.2.2) st) := by
  induction cells generalizing st with
  | nil => exact h
  | cons e t ih =>
    simp only [List.foldl_cons]
    apply ih (fun e' he' => hcells e' (by simp [he']))
    obtain ⟨col, row, e1, e2, c0, c1, r0, r1⟩ := flashCells_pos udgs s x0 y0 x1 y1 e (hcells e (by simp))
    rw [e1, e2]
    rcases flashCell_eq mask s x0 y0 x1 y1 useFlash e.1 col row hs hx hy c0 c1 r0 r1 with hq | ⟨hq, hlx, hly⟩
    · rw [hq]; exact h
    · rw [hq]
      have m1 := Nat.le_max_left x0 (8 * s * col)
      have m2 := Nat.min_le_left x1 (8 * s * col + 8 * s)
      have m3 := Nat.le_max_left y0 (8 * s * row)
      have m4 := Nat.min_le_left y1 (8 * s * row + 8 * s)
      exact flashInv_widen x0 y0 x1 y1 st _ _ _ _ h m1 hlx m2 m3 hly m4

/-- The rectangle covers tile `e`'s visible extent. -/
def Covers (x0 y0 x1 y1 s : Nat) (st : FlashSt) (e : Udg × Nat × Nat) : Prop :=
  st.flashing = true ∧ st.minX ≤ max x0 e.2.1 ∧ min x1 (e.2.1 + 8 * s) ≤ st.maxX ∧
    st.minY ≤ max y0 e.2.2 ∧ min y1 (e.2.2 + 8 * s) ≤ st.maxY

theorem covers_widen (x0 y0 x1 y1 s : Nat) (st : FlashSt) (e : Udg × Nat × Nat) (a b a' b' : Nat)
    (h : Covers x0 y0 x1 y1 s st e) : Covers x0 y0 x1 y1 s (widen st a b a' b') e := by
  obtain ⟨h0, h1, h2, h3, h4⟩ := h
  unfold Covers widen
  simp only
  have m1 := Nat.min_le_right a st.minX
  have m2 := Nat.le_max_right b st.maxX
  have m3 := Nat.min_le_right a' st.minY
  have m4 := Nat.le_max_right b' st.maxY
  exact ⟨trivial, by omega, by omega, by omega, by omega⟩

theorem covers_fold (mask : MaskKind) (udgs : List (List Udg)) (s x0 y0 x1 y1 : Nat) (useFlash : Bool)
    (hs : 0 < s) (hx : x0 < x1) (hy : y0 < y1) (cells : List (Udg × Nat × Nat))
    (hcells : ∀ e ∈ cells, e ∈ flashCells udgs s x0 y0 x1 y1) (e0 : Udg × Nat × Nat)
    (hfl : cellFlashes mask s x0 y0 x1 y1 useFlash e0.1 e0.2.1 e0.2.2) (st : FlashSt)
    (h : e0 ∈ cells ∨ Covers x0 y0 x1 y1 s st e0) :
    Covers x0 y0 x1 y1 s
      (cells.foldl (fun st (e : Udg × Nat × Nat) => flashCell mask s x0 y0 x1 y1 useFlash st e.1 e.2.1 e.2.2) st) e0 := by
  induction cells generalizing st with
  | nil =>
    rcases h with h | h
    · simp at h
    · exact h
  | cons e t ih =>
    simp only [List.foldl_cons]
    apply ih (fun e' he' => hcells e' (by simp [he']))
    obtain ⟨col, row, e1, e2, c0, c1, r0, r1⟩ := flashCells_pos udgs s x0 y0 x1 y1 e (hcells e (by simp))
    have huni := flashCell_eq mask s x0 y0 x1 y1 useFlash e.1 col row hs hx hy c0 c1 r0 r1
    rw [← e1, ← e2] at huni
    rcases h with h | h
    · simp only [List.mem_cons] at h
      rcases h with rfl | h
      · -- this is the tile itself
        right
        rcases huni with hq | ⟨hq, -, -⟩
        · unfold cellFlashes at hfl
          rw [hq] at hfl; simp at hfl
        · rw [hq]
          unfold Covers widen
          simp only
          exact ⟨trivial, Nat.min_le_left _ _, Nat.le_max_left _ _, Nat.min_le_left _ _, Nat.le_max_left _ _⟩
      · left; exact h
    · right
      rcases huni with hq | ⟨hq, -, -⟩
      · rw [hq]; exact h
      · rw [hq]; exact covers_widen _ _ _ _ _ _ _ _ _ _ _ h

/-- The final state of the `_get_colours` scan. -/
def flashFinal (mask : MaskKind) (udgs : List (List Udg)) (s x0 y0 x1 y1 : Nat) (useFlash : Bool) : FlashSt :=
  (flashCells udgs s x0 y0 x1 y1).foldl
    (fun st (e : Udg × Nat × Nat) => flashCell mask s x0 y0 x1 y1 useFlash st e.1 e.2.1 e.2.2)
    { minX := x1, minY := y1, maxX := 0, maxY := 0, flashing := false }

theorem flashRect_eq (mask : MaskKind) (udgs : List (List Udg)) (s x0 y0 width height : Nat) (useFlash : Bool) :
    flashRect mask udgs s x0 y0 width height useFlash =
      let st := flashFinal mask udgs s x0 y0 (x0 + width) (y0 + height) useFlash
      if st.flashing then
        some ((st.minX : Int) - x0, (st.minY : Int) - y0, (st.maxX : Int) - st.minX, (st.maxY : Int) - st.minY)
      else none := rfl

/-- **The flash rectangle lies inside the frame and is not empty.** -/
theorem flashRect_within (mask : MaskKind) (udgs : List (List Udg)) (s x0 y0 width height : Nat)
    (useFlash : Bool) (hs : 0 < s) (hw : 0 < width) (hh : 0 < height) (fx fy fw fh : Int)
    (h : flashRect mask udgs s x0 y0 width height useFlash = some (fx, fy, fw, fh)) :
    0 ≤ fx ∧ 0 ≤ fy ∧ 0 < fw ∧ 0 < fh ∧ fx + fw ≤ width ∧ fy + fh ≤ height := by
  rw [flashRect_eq] at h
  simp only at h
  have hinv := flashInv_fold mask udgs s x0 y0 (x0 + width) (y0 + height) useFlash hs (by omega) (by omega)
    (flashCells udgs s x0 y0 (x0 + width) (y0 + height)) (fun e he => he)
    { minX := x0 + width, minY := y0 + height, maxX := 0, maxY := 0, flashing := false }
    ⟨by simp, by simp, by simp, by simp, by simp, by simp, by simp⟩
  change FlashInv x0 y0 (x0 + width) (y0 + height) (flashFinal mask udgs s x0 y0 (x0 + width) (y0 + height) useFlash) at hinv
  generalize flashFinal mask udgs s x0 y0 (x0 + width) (y0 + height) useFlash = st at h hinv
  obtain ⟨h1, h2, h3, h4, h5, h6, h7⟩ := hinv
  by_cases hf : st.flashing = true
  · rw [if_pos hf] at h
    obtain ⟨hx, hy⟩ := h7 hf
    simp only [Option.some.injEq, Prod.mk.injEq] at h
    obtain ⟨rfl, rfl, rfl, rfl⟩ := h
    omega
  · rw [if_neg hf] at h; simp at h

/-- **Every flashing tile's visible extent lies inside the flash rectangle**: if a visited tile at
`(x, y)` flashes, `flash_rect` is not `None` and contains the tile's extent clamped to the crop
rectangle, `[max(x0,x), min(x1,x+8*scale)) x [max(y0,y), min(y1,y+8*scale))`, in frame coordinates. -/
theorem flashRect_covers (mask : MaskKind) (udgs : List (List Udg)) (s x0 y0 width height : Nat)
    (useFlash : Bool) (hs : 0 < s) (hw : 0 < width) (hh : 0 < height) (e : Udg × Nat × Nat)
    (he : e ∈ flashCells udgs s x0 y0 (x0 + width) (y0 + height))
    (hfl : cellFlashes mask s x0 y0 (x0 + width) (y0 + height) useFlash e.1 e.2.1 e.2.2) :
    ∃ fx fy fw fh : Int, flashRect mask udgs s x0 y0 width height useFlash = some (fx, fy, fw, fh) ∧
      fx ≤ (max x0 e.2.1 : Nat) - (x0 : Int) ∧
      ((min (x0 + width) (e.2.1 + 8 * s) : Nat) : Int) - x0 ≤ fx + fw ∧
      fy ≤ (max y0 e.2.2 : Nat) - (y0 : Int) ∧
      ((min (y0 + height) (e.2.2 + 8 * s) : Nat) : Int) - y0 ≤ fy + fh := by
  have hc := covers_fold mask udgs s x0 y0 (x0 + width) (y0 + height) useFlash hs (by omega) (by omega)
    (flashCells udgs s x0 y0 (x0 + width) (y0 + height)) (fun e he => he) e hfl
    { minX := x0 + width, minY := y0 + height, maxX := 0, maxY := 0, flashing := false } (Or.inl he)
  change Covers x0 y0 (x0 + width) (y0 + height) s
    (flashFinal mask udgs s x0 y0 (x0 + width) (y0 + height) useFlash) e at hc
  rw [flashRect_eq]
  simp only
  generalize flashFinal mask udgs s x0 y0 (x0 + width) (y0 + height) useFlash = st at hc
  obtain ⟨h0, h1, h2, h3, h4⟩ := hc
  rw [if_pos h0]
  refine ⟨_, _, _, _, rfl, ?_, ?_, ?_, ?_⟩ <;> omega

end PngScan
