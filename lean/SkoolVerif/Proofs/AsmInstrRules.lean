import SkoolVerif.Proofs.AsmInstrOps
import SkoolVerif.Model.InstrDecode
/-!
The assembler on operands that contain a rendered number, symbolically.

`SOpnd` is an operand of a rendered instruction: template text, or a number / bracketed number / index
operand whose value is read from memory.  `symAsm` says, for a mnemonic and such operands, which bytes
`Assembler._assemble` produces — opcode constants and "the byte at offset `k` of the instruction" — and
`symAsm_sound` proves it against the model of the assembler (`AsmInstr.asmTokens`) for every memory,
address, base and number format, one lemma per encoder, from the operand-level theorems of C02.
`symAsm` is a proof device (a table of the encoder rules the disassembler's templates can select), not a
model: a template it does not understand makes the slot check fail, never pass.
-/
namespace AsmInstrL
open OpText AsmEval AsmInstr InstrDec C02L
set_option linter.unusedSimpArgs false
set_option linter.unusedVariables false
set_option linter.unusedSectionVars false

/-- where the values of the `{}` fields come from -/
structure Env where
  cfg : Cfg
  b1 : Base
  b2 : Base
  mem : Mem
  a : Nat

/-- the base of the `k`-th field: `base[0]` for the first, `base[-1]` for any further one -/
def Env.base (e : Env) (k : Nat) : Base := if k = 0 then e.b1 else e.b2
/-- `snapshot[(a + off) & 65535]` -/
def Env.rd (e : Env) (off : Nat) : Nat := e.mem ((e.a + off) % 65536)
/-- the word at `off` -/
def Env.rdw (e : Env) (off : Nat) : Nat := e.rd off + 256 * e.rd (off + 1)
/-- the target `jr_arg` computes (0 when it is out of range: the instruction is then a DEFB) -/
def Env.target (e : Env) : Nat := (jrTarget e.a (e.rd 1)).getD 0

/-- the shapes of an operand that contains a `{}` field -/
inductive HCls where
  | numB     -- format_byte(snapshot[a+x])
  | numW     -- format_word(snapshot[a+x] + 256 * snapshot[a+x+1])
  | numC     -- format_byte(x)            (RST)
  | numR     -- format_word(jump target)  (JR, DJNZ)
  | parB     -- `(` byte `)`
  | parW     -- `(` word `)`
  | idxX     -- `(IX` index_offset `)`
  | idxY     -- `(IY` index_offset `)`
  deriving DecidableEq, Repr

/-- an operand of a rendered instruction (upper case): template text, or a `{}` field (the `k`-th of the
template) of shape `c` whose value comes from offset `x` of the instruction (`numC`: the value itself) -/
inductive SOpnd where
  | lit (t : Txt)
  | hole (c : HCls) (k x : Nat)
  deriving DecidableEq, Repr

def holeTxt (e : Env) (c : HCls) (k x : Nat) : Txt :=
  match c with
  | .numB => formatByte e.cfg (e.rd x) (e.base k)
  | .numW => formatWord e.cfg (e.rdw x) (e.base k)
  | .numC => formatByte e.cfg x (e.base k)
  | .numR => formatWord e.cfg e.target (e.base k)
  | .parB => 40 :: formatByte e.cfg (e.rd x) (e.base k) ++ [41]
  | .parW => 40 :: formatWord e.cfg (e.rdw x) (e.base k) ++ [41]
  | .idxX => [40, 73, 88] ++ indexOffset e.cfg (e.rd x) (e.base k) ++ [41]
  | .idxY => [40, 73, 89] ++ indexOffset e.cfg (e.rd x) (e.base k) ++ [41]

def SOpnd.txt (e : Env) : SOpnd → Txt
  | .lit t => t
  | .hole c k x => holeTxt e c k x

def SOpnd.isLit : SOpnd → Bool
  | .lit _ => true
  | _ => false

/-- a byte of the assembled instruction: a constant, or the memory byte at offset `off` -/
inductive SB where
  | const (n : Nat)
  | at (off : Nat)
  deriving DecidableEq, Repr

def SB.inst (e : Env) : SB → Nat
  | .const n => n
  | .at off => e.rd off

def HCls.isIdx (c : HCls) : Bool := c = .idxX || c = .idxY
def ixCode (c : HCls) : Nat := if c = .idxY then 253 else 221

/-- little-endian word operand at `off` -/
def sbWord (off : Nat) : List SB := [.at off, .at (off + 1)]

/-! ### the rule table -/

/-- `_arithmetic_a(base_code, address, op)` -/
def symArith (base : Nat) : SOpnd → Option (List SB)
  | .hole c _ off =>
    if c = .numB then some [.const (base + 70), .at off]
    else if c.isIdx then some [.const (ixCode c), .const (base + 6), .at off]
    else none
  | _ => none

/-- `ADD/ADC/SBC A,op` -/
def symAcc (base : Nat) : List SOpnd → Option (List SB)
  | [.lit r, o] => if r = t%"A" then symArith base o else none
  | _ => none

def symArith1 (base : Nat) : List SOpnd → Option (List SB)
  | [o] => symArith base o
  | _ => none

/-- `_bit_res_set(base_code, address, op1, op2, op3=None)` -/
def symBit (base : Nat) : List SOpnd → Option (List SB)
  | [.lit n, .hole c _ off] =>
    match parseExpr n 8 false true with
    | .ok bit => if c.isIdx then some [.const (ixCode c), .const 203, .at off, .const (base + 8 * bit + 6)] else none
    | _ => none
  | [.lit n, .hole c _ off, .lit r] =>
    match parseExpr n 8 false true, regIndex r with
    | .ok bit, .ok i =>
      if c.isIdx ∧ r ≠ [] then some [.const (ixCode c), .const 203, .at off, .const (base + 8 * bit + i)] else none
    | _, _ => none
  | _ => none

/-- `_rotate_and_shift(base_code, address, op1, op2=None)` -/
def symRot (base : Nat) : List SOpnd → Option (List SB)
  | [.hole c _ off] => if c.isIdx then some [.const (ixCode c), .const 203, .at off, .const (base + 6)] else none
  | [.hole c _ off, .lit r] =>
    match regIndex r with
    | .ok i => if c.isIdx ∧ r ≠ [] then some [.const (ixCode c), .const 203, .at off, .const (base + i)] else none
    | _ => none
  | _ => none

/-- `_assemble_call` / `_assemble_jp` with an address operand -/
def symJpCall (plain cond : Nat) : List SOpnd → Option (List SB)
  | [.hole c _ off] => if c = .numW then some (.const plain :: sbWord off) else none
  | [.lit cc, .hole c _ off] =>
    match conditionIndex cc with
    | .ok i => if c = .numW then some (.const (cond + 8 * i) :: sbWord off) else none
    | _ => none
  | _ => none

/-- `_inc_dec(base_code8, base_code16, address, op)` -/
def symIncDec (base8 : Nat) : List SOpnd → Option (List SB)
  | [.hole c _ off] => if c.isIdx then some [.const (ixCode c), .const (base8 + 48), .at off] else none
  | _ => none

/-- `_assemble_jr` / `_assemble_djnz` -/
def symJr : List SOpnd → Option (List SB)
  | [.hole c _ _] => if c = .numR then some [.const 24, .at 1] else none
  | [.lit cc, .hole c _ _] =>
    match indexIn [t%"NZ", t%"Z", t%"NC", t%"C"] cc with
    | .ok i => if c = .numR then some [.const (32 + 8 * i), .at 1] else none
    | _ => none
  | _ => none

def symDjnz : List SOpnd → Option (List SB)
  | [.hole c _ _] => if c = .numR then some [.const 16, .at 1] else none
  | _ => none

/-- `_assemble_in` / `_assemble_out` with a port number -/
def symIn : List SOpnd → Option (List SB)
  | [.lit r, .hole c k off] => if r = t%"A" ∧ c = .parB ∧ k = 0 then some [.const 219, .at off] else none
  | _ => none

def symOut : List SOpnd → Option (List SB)
  | [.hole c k off, .lit r] => if r = t%"A" ∧ c = .parB ∧ k = 0 then some [.const 211, .at off] else none
  | _ => none

/-- `_assemble_rst` -/
def symRst : List SOpnd → Option (List SB)
  | [.hole c k v] => if c = .numC ∧ k = 0 ∧ v < 57 ∧ v % 8 = 0 then some [.const (199 + v)] else none
  | _ => none

/-- `LD r,…` with `r` template text -/
def symLdLit (r : Txt) (c : HCls) (off : Nat) : Option (List SB) :=
  match c with
  | .numB =>
    match regIndex r with
    | .ok i => some [.const (6 + 8 * i), .at off]                                        -- LD r,n
    | _ =>
      match indexRegIndex r, indexCode r with
      | .ok i, .ok ic => some [.const ic, .const (38 + 8 * (i % 2)), .at off]            -- LD I{X,Y}{h,l},n
      | _, _ => none
  | .idxX | .idxY =>
    match regIndex r with
    | .ok i => if r ≠ t%"(HL)" then some [.const (ixCode c), .const (70 + 8 * i), .at off] else none   -- LD r,(IX+d)
    | _ => none
  | .parW =>
    if r = t%"A" then some (.const 58 :: sbWord off)                                     -- LD A,(nn)
    else match regPairIndex r with
      | .ok i =>
        if r = t%"HL" then some (.const 42 :: sbWord off)                                -- LD HL,(nn)
        else some (.const 237 :: .const (75 + 16 * i) :: sbWord off)                     -- LD BC|DE|SP,(nn)
      | _ =>
        match indexIn INDEX_REG_PAIRS r, indexCode r with
        | .ok _, .ok ic => some (.const ic :: .const 42 :: sbWord off)                   -- LD I{X,Y},(nn)
        | _, _ => none
  | .numW =>
    match regPairIndex r with
    | .ok i => some (.const (1 + 16 * i) :: sbWord off)                                  -- LD rr,nn
    | _ =>
      match indexIn INDEX_REG_PAIRS r, indexCode r with
      | .ok _, .ok ic => some (.const ic :: .const 33 :: sbWord off)                     -- LD I{X,Y},nn
      | _, _ => none
  | _ => none

/-- `LD …,r` with `r` template text -/
def symLdToLit (c : HCls) (off : Nat) (r : Txt) : Option (List SB) :=
  match c with
  | .idxX | .idxY =>
    match regIndex r with
    | .ok i => if r ≠ t%"(HL)" then some [.const (ixCode c), .const (112 + i), .at off] else none     -- LD (IX+d),r
    | _ => none
  | .parW =>
    if r = t%"A" then some (.const 50 :: sbWord off)                                     -- LD (nn),A
    else if r = t%"HL" then some (.const 34 :: sbWord off)                               -- LD (nn),HL
    else match indexIn INDEX_REG_PAIRS r, indexCode r with
      | .ok _, .ok ic => some (.const ic :: .const 34 :: sbWord off)                     -- LD (nn),I{X,Y}
      | _, _ =>
        match regPairIndex r with
        | .ok i => some (.const 237 :: .const (67 + 16 * i) :: sbWord off)               -- LD (nn),BC|DE|SP
        | _ => none
  | _ => none

/-- `_assemble_ld` -/
def symLd : List SOpnd → Option (List SB)
  | [.lit r, .hole c _ off] => symLdLit r c off
  | [.hole c _ off, .lit r] => symLdToLit c off r
  | [.hole c _ off, .hole c2 _ off2] =>
    if c.isIdx ∧ c2 = .numB then some [.const (ixCode c), .const 54, .at off, .at off2] else none     -- LD (IX+d),n
  | _ => none

/-- which bytes `Assembler._assemble` produces for mnemonic `mn` and operands `ops` -/
def symAsm (mn : Txt) (ops : List SOpnd) : Option (List SB) :=
  if mn = t%"LD" then symLd ops
  else if mn = t%"ADD" then symAcc 128 ops
  else if mn = t%"ADC" then symAcc 136 ops
  else if mn = t%"SBC" then symAcc 152 ops
  else if mn = t%"SUB" then symArith1 144 ops
  else if mn = t%"AND" then symArith1 160 ops
  else if mn = t%"XOR" then symArith1 168 ops
  else if mn = t%"OR" then symArith1 176 ops
  else if mn = t%"CP" then symArith1 184 ops
  else if mn = t%"BIT" then symBit 64 ops
  else if mn = t%"RES" then symBit 128 ops
  else if mn = t%"SET" then symBit 192 ops
  else if mn = t%"RLC" then symRot 0 ops
  else if mn = t%"RRC" then symRot 8 ops
  else if mn = t%"RL" then symRot 16 ops
  else if mn = t%"RR" then symRot 24 ops
  else if mn = t%"SLA" then symRot 32 ops
  else if mn = t%"SRA" then symRot 40 ops
  else if mn = t%"SLL" then symRot 48 ops
  else if mn = t%"SRL" then symRot 56 ops
  else if mn = t%"JP" then symJpCall 195 194 ops
  else if mn = t%"CALL" then symJpCall 205 196 ops
  else if mn = t%"INC" then symIncDec 4 ops
  else if mn = t%"DEC" then symIncDec 5 ops
  else if mn = t%"JR" then symJr ops
  else if mn = t%"DJNZ" then symDjnz ops
  else if mn = t%"IN" then symIn ops
  else if mn = t%"OUT" then symOut ops
  else if mn = t%"RST" then symRst ops
  else none

/-! ### soundness -/

/-- the operand values are bytes, the address is an address -/
structure Env.Ok (e : Env) : Prop where
  mem : ∀ i, e.mem i < 256
  a : e.a < 65536

theorem Env.rd_lt (e : Env) (h : e.Ok) (off : Nat) : e.rd off < 256 := h.mem _
theorem Env.rdw_lt (e : Env) (h : e.Ok) (off : Nat) : e.rdw off < 65536 := by
  have h1 := e.rd_lt h off
  have h2 := e.rd_lt h (off + 1)
  unfold Env.rdw; omega
theorem Env.rdw_lo (e : Env) (h : e.Ok) (off : Nat) : e.rdw off % 256 = e.rd off := by
  have h1 := e.rd_lt h off
  unfold Env.rdw; omega
theorem Env.rdw_hi (e : Env) (h : e.Ok) (off : Nat) : e.rdw off / 256 = e.rd (off + 1) := by
  have h1 := e.rd_lt h off
  unfold Env.rdw; omega

theorem sw_nil (t : Txt) : startsWith [] t = true := by simp [startsWith]
theorem sw_cons_nil (p : Nat) (ps : Txt) : startsWith (p :: ps) [] = false := by simp [startsWith]
theorem sw_cons_cons (p c : Nat) (ps cs : Txt) : startsWith (p :: ps) (c :: cs) = (p == c && startsWith ps cs) := by
  simp [startsWith, List.isPrefixOf]

theorem indexIn_mem (l : List Txt) (x : Txt) (i : Nat) (h : indexIn l x = .ok i) : x ∈ l := by
  induction l generalizing i with
  | nil => simp [indexIn] at h
  | cons y ys ih =>
    simp only [indexIn] at h
    split at h
    · simp [*]
    · cases hq : indexIn ys x with
      | ok j => simp [ih j hq]
      | valErr => simp [hq, R.bind] at h
      | otherErr => simp [hq, R.bind] at h
      | unsupported => simp [hq, R.bind] at h

/-! #### the operand classes: what the parsers return -/

section classes
variable (e : Env) (he : e.Ok)
include he

theorem numB_sig (k x : Nat) : sig (holeTxt e .numB k x) = 0 := sig_numStr _ _ _ _
theorem numW_sig (k x : Nat) : sig (holeTxt e .numW k x) = 0 := sig_numStr _ _ _ _
theorem numC_sig (k x : Nat) : sig (holeTxt e .numC k x) = 0 := sig_numStr _ _ _ _
theorem numR_sig (k x : Nat) : sig (holeTxt e .numR k x) = 0 := sig_numStr _ _ _ _
theorem parB_sig (k x : Nat) : sig (holeTxt e .parB k x) = 1 := sig_paren_numStr _ _ _ _ _
theorem parW_sig (k x : Nat) : sig (holeTxt e .parW k x) = 1 := sig_paren_numStr _ _ _ _ _
theorem idx_sig (c : HCls) (hc : c.isIdx = true) (k x : Nat) : sig (holeTxt e c k x) = 2 := by
  cases c <;> simp [HCls.isIdx] at hc <;> simp [holeTxt, sig, numStart]

theorem numB_parse (k x : Nat) : parseByte (holeTxt e .numB k x) = .ok (e.rd x) := by
  have := parseExpr_numStr e.cfg 1 (Or.inl rfl) (e.rd x) (by simpa using e.rd_lt he x) (e.base k)
  simpa [parseByte, formatByte, holeTxt] using this

theorem numW_parse (k x : Nat) : parseWord (holeTxt e .numW k x) = .ok (e.rdw x) := by
  have := parseExpr_numStr e.cfg 2 (Or.inr rfl) (e.rdw x) (by simpa using e.rdw_lt he x) (e.base k)
  simpa [parseWord, formatWord, holeTxt] using this

theorem parW_parse (k x : Nat) (br : Bool) :
    parseExpr (holeTxt e .parW k x) 65536 br false = .ok (e.rdw x) := by
  have := parseExpr_numStr e.cfg 2 (Or.inr rfl) (e.rdw x) (by simpa using e.rdw_lt he x) (e.base k)
  simp only [holeTxt, formatWord]
  rw [parseExpr_paren _ _ _ _ (numStr_head40 _ _ _ _)]
  simpa using this

theorem parB_parse (k x : Nat) (hb : e.base k ≠ .m) :
    parseExpr (holeTxt e .parB k x) 256 true true = .ok (e.rd x) := by
  simp only [holeTxt, formatByte]
  rw [parseExpr_paren _ _ _ _ (numStr_head40 _ _ _ _)]
  exact parseExpr_numStr_nn e.cfg 1 (Or.inl rfl) (e.rd x) 256 (by simpa using e.rd_lt he x) (e.rd_lt he x) _ hb true

omit he in
theorem numC_parse (k v : Nat) (hv : v < 57) (hb : e.base k ≠ .m) :
    parseExpr (holeTxt e .numC k v) 57 false true = .ok v := by
  simp only [holeTxt, formatByte]
  exact parseExpr_numStr_nn e.cfg 1 (Or.inl rfl) v 57 (by simp; omega) hv _ hb true

theorem numR_parse (k x : Nat) (t : Nat) (ht : jrTarget e.a (e.rd 1) = some t) :
    addressOffset e.a (holeTxt e .numR k x) = .ok (e.rd 1) := by
  have h1 := (jrTarget_some e.a (e.rd 1) t ht).1
  have hw : parseWord (formatWord e.cfg t (e.base k)) = .ok t := by
    have := parseExpr_numStr e.cfg 2 (Or.inr rfl) t (by simpa using h1) (e.base k)
    simpa [parseWord, formatWord] using this
  simp only [holeTxt, Env.target, ht, Option.getD_some, addressOffset, hw, R.bind]
  exact addressOffsetV_jrTarget e.a (e.rd 1) t he.a (e.rd_lt he 1) ht

theorem idx_offset (c : HCls) (hc : c.isIdx = true) (k x : Nat) : parseOffset (holeTxt e c k x) = .ok (e.rd x) := by
  cases c <;> simp [HCls.isIdx] at hc <;> simp only [holeTxt]
  · exact parseOffset_indexOffset e.cfg 88 (Or.inl rfl) (e.rd x) (e.rd_lt he x) (e.base k)
  · exact parseOffset_indexOffset e.cfg 89 (Or.inr rfl) (e.rd x) (e.rd_lt he x) (e.base k)

omit he in
theorem idx_code (c : HCls) (hc : c.isIdx = true) (k x : Nat) : indexCode (holeTxt e c k x) = .ok (ixCode c) := by
  cases c <;> simp [HCls.isIdx] at hc <;>
    simp [holeTxt, indexCode, sw_cons_cons, sw_nil, indexIn, INDEX_REG_PAIRS, R.bind, ixCode]

omit he in
theorem idx_len (c : HCls) (hc : c.isIdx = true) (k x : Nat) : (holeTxt e c k x).length ≠ 2 := by
  cases c <;> simp [HCls.isIdx] at hc <;> simp [holeTxt]

end classes

/-! #### spellings -/

/-- `t` is an acceptable spelling of the `{}` field of shape `c` (the `k`-th field, value at offset `x`): it has
the shape of its class (`sig`) and the assembler's parsers read it as the operand value in memory. -/
def OpSpelled (e : Env) (c : HCls) (k x : Nat) (t : Txt) : Prop :=
  match c with
  | .numB => sig t = 0 ∧ parseByte t = .ok (e.rd x)
  | .numW => sig t = 0 ∧ parseWord t = .ok (e.rdw x)
  | .numC => sig t = 0 ∧ (x < 57 → e.base k ≠ .m → parseExpr t 57 false true = .ok x)
  | .numR => sig t = 0 ∧ (∀ tg, jrTarget e.a (e.rd 1) = some tg → addressOffset e.a t = .ok (e.rd 1))
  | .parB => sig t = 1 ∧ (e.base k ≠ .m → parseExpr t 256 true true = .ok (e.rd x))
  | .parW => sig t = 1 ∧ parseExpr t 65536 true false = .ok (e.rdw x)
  | .idxX => sig t = 2 ∧ parseOffset t = .ok (e.rd x) ∧ indexCode t = .ok 221 ∧ t.length ≠ 2
  | .idxY => sig t = 2 ∧ parseOffset t = .ok (e.rd x) ∧ indexCode t = .ok 253 ∧ t.length ≠ 2

/-- An assignment of operand texts to the `{}` fields (by shape, ordinal and offset), each an acceptable
spelling.  `holeTxt e` — what the disassembler renders — is one such assignment (`Spelling.canon`); any other
spelling of the same numbers (`$1F`, `%101`, `"a"`, `12+3`, `(IX+$0A)`, …) gives another (`Spelling.set`). -/
structure Spelling (e : Env) where
  H : HCls → Nat → Nat → Txt
  ok : ∀ c k x, OpSpelled e c k x (H c k x)

namespace Spelling
variable {e : Env} (S : Spelling e)
theorem numB_sig (k x : Nat) : sig (S.H .numB k x) = 0 := (S.ok .numB k x).1
theorem numW_sig (k x : Nat) : sig (S.H .numW k x) = 0 := (S.ok .numW k x).1
theorem numC_sig (k x : Nat) : sig (S.H .numC k x) = 0 := (S.ok .numC k x).1
theorem numR_sig (k x : Nat) : sig (S.H .numR k x) = 0 := (S.ok .numR k x).1
theorem parB_sig (k x : Nat) : sig (S.H .parB k x) = 1 := (S.ok .parB k x).1
theorem parW_sig (k x : Nat) : sig (S.H .parW k x) = 1 := (S.ok .parW k x).1
theorem idx_sig (c : HCls) (hc : c.isIdx = true) (k x : Nat) : sig (S.H c k x) = 2 := by
  cases c <;> simp [HCls.isIdx] at hc
  · exact (S.ok .idxX k x).1
  · exact (S.ok .idxY k x).1
theorem numB_parse (k x : Nat) : parseByte (S.H .numB k x) = .ok (e.rd x) := (S.ok .numB k x).2
theorem numW_parse (k x : Nat) : parseWord (S.H .numW k x) = .ok (e.rdw x) := (S.ok .numW k x).2
theorem parW_parse (k x : Nat) : parseExpr (S.H .parW k x) 65536 true false = .ok (e.rdw x) := (S.ok .parW k x).2
theorem parB_parse (k x : Nat) (hb : e.base k ≠ .m) : parseExpr (S.H .parB k x) 256 true true = .ok (e.rd x) :=
  (S.ok .parB k x).2 hb
theorem numC_parse (k v : Nat) (hv : v < 57) (hb : e.base k ≠ .m) : parseExpr (S.H .numC k v) 57 false true = .ok v :=
  (S.ok .numC k v).2 hv hb
theorem numR_parse (k x t : Nat) (ht : jrTarget e.a (e.rd 1) = some t) : addressOffset e.a (S.H .numR k x) = .ok (e.rd 1) :=
  (S.ok .numR k x).2 t ht
theorem idx_offset (c : HCls) (hc : c.isIdx = true) (k x : Nat) : parseOffset (S.H c k x) = .ok (e.rd x) := by
  cases c <;> simp [HCls.isIdx] at hc
  · exact (S.ok .idxX k x).2.1
  · exact (S.ok .idxY k x).2.1
theorem idx_code (c : HCls) (hc : c.isIdx = true) (k x : Nat) : indexCode (S.H c k x) = .ok (ixCode c) := by
  cases c <;> simp [HCls.isIdx] at hc
  · exact (S.ok .idxX k x).2.2.1
  · exact (S.ok .idxY k x).2.2.1
theorem idx_len (c : HCls) (hc : c.isIdx = true) (k x : Nat) : (S.H c k x).length ≠ 2 := by
  cases c <;> simp [HCls.isIdx] at hc
  · exact (S.ok .idxX k x).2.2.2
  · exact (S.ok .idxY k x).2.2.2

/-- respell one field -/
def set (c0 : HCls) (k0 x0 : Nat) (t : Txt) (h : OpSpelled e c0 k0 x0 t) : Spelling e where
  H := fun c k x => if c = c0 ∧ k = k0 ∧ x = x0 then t else S.H c k x
  ok := by
    intro c k x
    by_cases hc : c = c0 ∧ k = k0 ∧ x = x0
    · obtain ⟨rfl, rfl, rfl⟩ := hc
      simpa using h
    · simp only [hc, if_false]
      exact S.ok c k x
end Spelling

/-- the disassembler's own rendering -/
def Spelling.canon (e : Env) (he : e.Ok) : Spelling e where
  H := holeTxt e
  ok := by
    intro c k x
    cases c
    · exact ⟨AsmInstrL.numB_sig e he k x, AsmInstrL.numB_parse e he k x⟩
    · exact ⟨AsmInstrL.numW_sig e he k x, AsmInstrL.numW_parse e he k x⟩
    · exact ⟨AsmInstrL.numC_sig e he k x, AsmInstrL.numC_parse e k x⟩
    · exact ⟨AsmInstrL.numR_sig e he k x, AsmInstrL.numR_parse e he k x⟩
    · exact ⟨AsmInstrL.parB_sig e he k x, AsmInstrL.parB_parse e he k x⟩
    · exact ⟨AsmInstrL.parW_sig e he k x, AsmInstrL.parW_parse e he k x true⟩
    · exact ⟨AsmInstrL.idx_sig e he .idxX rfl k x, AsmInstrL.idx_offset e he .idxX rfl k x,
        AsmInstrL.idx_code e .idxX rfl k x, AsmInstrL.idx_len e .idxX rfl k x⟩
    · exact ⟨AsmInstrL.idx_sig e he .idxY rfl k x, AsmInstrL.idx_offset e he .idxY rfl k x,
        AsmInstrL.idx_code e .idxY rfl k x, AsmInstrL.idx_len e .idxY rfl k x⟩

/-- the operand texts under a spelling -/
def SOpnd.txtS {e : Env} (S : Spelling e) : SOpnd → Txt
  | .lit t => t
  | .hole c k x => S.H c k x

theorem txtS_canon (e : Env) (he : e.Ok) (o : SOpnd) : o.txtS (Spelling.canon e he) = o.txt e := by
  cases o <;> rfl

/-! #### one lemma per encoder rule -/

theorem lit_txt {e : Env} (S : Spelling e) (t : Txt) : (SOpnd.lit t).txtS S = t := rfl
theorem hole_txt {e : Env} (S : Spelling e) (c : HCls) (k x : Nat) : (SOpnd.hole c k x).txtS S = S.H c k x := rfl

theorem regIndex_cases (r : Txt) (i : Nat) (h : regIndex r = .ok i) :
    (r = t%"B" ∧ i = 0) ∨ (r = t%"C" ∧ i = 1) ∨ (r = t%"D" ∧ i = 2) ∨ (r = t%"E" ∧ i = 3) ∨
    (r = t%"H" ∧ i = 4) ∨ (r = t%"L" ∧ i = 5) ∨ (r = t%"(HL)" ∧ i = 6) ∨ (r = t%"A" ∧ i = 7) := by
  have hm := indexIn_mem _ _ _ h
  simp only [REG, List.mem_cons, List.not_mem_nil, or_false] at hm
  rcases hm with rfl | rfl | rfl | rfl | rfl | rfl | rfl | rfl <;>
    simp [regIndex, indexIn, REG, R.bind] at h <;> simp [h]

theorem regPairIndex_cases (r : Txt) (i : Nat) (h : regPairIndex r = .ok i) :
    (r = t%"BC" ∧ i = 0) ∨ (r = t%"DE" ∧ i = 1) ∨ (r = t%"HL" ∧ i = 2) ∨ (r = t%"SP" ∧ i = 3) := by
  have hm := indexIn_mem _ _ _ h
  simp only [REG_PAIRS, List.mem_cons, List.not_mem_nil, or_false] at hm
  rcases hm with rfl | rfl | rfl | rfl <;>
    simp [regPairIndex, indexIn, REG_PAIRS, R.bind] at h <;> simp [h]

theorem indexRegIndex_cases (r : Txt) (i ic : Nat) (h : indexRegIndex r = .ok i) (h2 : indexCode r = .ok ic) :
    (r = t%"IXH" ∧ i = 0 ∧ ic = 221) ∨ (r = t%"IXL" ∧ i = 1 ∧ ic = 221) ∨ (r = t%"IYH" ∧ i = 2 ∧ ic = 253) ∨
    (r = t%"IYL" ∧ i = 3 ∧ ic = 253) := by
  have hm := indexIn_mem _ _ _ h
  simp only [INDEX_REG, List.mem_cons, List.not_mem_nil, or_false] at hm
  rcases hm with rfl | rfl | rfl | rfl <;>
    simp [indexRegIndex, indexIn, INDEX_REG, R.bind, indexCode, sw_cons_cons, sw_nil, INDEX_REG_PAIRS] at h h2 <;> simp [h, h2]

theorem irp_cases (r : Txt) (i ic : Nat) (h : indexIn INDEX_REG_PAIRS r = .ok i) (h2 : indexCode r = .ok ic) :
    (r = t%"IX" ∧ ic = 221) ∨ (r = t%"IY" ∧ ic = 253) := by
  have hm := indexIn_mem _ _ _ h
  simp only [INDEX_REG_PAIRS, List.mem_cons, List.not_mem_nil, or_false] at hm
  rcases hm with rfl | rfl <;>
    simp [indexIn, R.bind, indexCode, sw_cons_cons, sw_nil, INDEX_REG_PAIRS] at h2 <;> simp [h2]

variable (e : Env) (he : e.Ok) (S : Spelling e)
include he
omit S in
theorem sbWord_inst (off : Nat) (pre : List Nat) :
    withWord pre (e.rdw off) = pre ++ (sbWord off).map (SB.inst e) := by
  simp [withWord, sbWord, SB.inst, e.rdw_lo he, e.rdw_hi he]

theorem ld_r_n (r : Txt) (i k off : Nat) (hr : regIndex r = .ok i) :
    asmLd r (S.H .numB k off) = .ok [6 + 8 * i, e.rd off] := by
  have hs := S.numB_sig k off
  have hp := S.numB_parse k off
  generalize S.H .numB k off = X at *
  rcases regIndex_cases r i hr with ⟨rfl, rfl⟩ | ⟨rfl, rfl⟩ | ⟨rfl, rfl⟩ | ⟨rfl, rfl⟩ | ⟨rfl, rfl⟩ | ⟨rfl, rfl⟩ | ⟨rfl, rfl⟩ | ⟨rfl, rfl⟩ <;>
    simp (disch := decide) [asmLd, isIn, indexIn, REG, regIndex, R.bind, catchVal, isIn_sig _ X 0 hs, sw4073_sig0 _ hs,
      sw40_sig0 _ hs, hp, indexIn_sig _ X 0 hs, eq_sig X _ 0 hs]

theorem ld_ir_n (r : Txt) (i ic k off : Nat) (hr : indexRegIndex r = .ok i) (hc : indexCode r = .ok ic) :
    asmLd r (S.H .numB k off) = .ok [ic, 38 + 8 * (i % 2), e.rd off] := by
  have hs := S.numB_sig k off
  have hp := S.numB_parse k off
  generalize S.H .numB k off = X at *
  rcases indexRegIndex_cases r i ic hr hc with ⟨rfl, rfl, rfl⟩ | ⟨rfl, rfl, rfl⟩ | ⟨rfl, rfl, rfl⟩ | ⟨rfl, rfl, rfl⟩ <;>
    simp (disch := decide) [asmLd, isIn, indexIn, REG, INDEX_REG, indexRegIndex, indexCode, INDEX_REG_PAIRS, sw_cons_cons, sw_nil,
      R.bind, isIn_sig _ X 0 hs, hp, eq_sig X _ 0 hs]

theorem ld_r_idx (r : Txt) (i : Nat) (c : HCls) (hc : c.isIdx = true) (k off : Nat) (hr : regIndex r = .ok i)
    (hne : r ≠ t%"(HL)") :
    asmLd r (S.H c k off) = .ok [ixCode c, 70 + 8 * i, e.rd off] := by
  have hs := S.idx_sig c hc k off
  have h1 := S.idx_code c hc k off
  have h2 := S.idx_offset c hc k off
  generalize S.H c k off = X at *
  rcases regIndex_cases r i hr with ⟨rfl, rfl⟩ | ⟨rfl, rfl⟩ | ⟨rfl, rfl⟩ | ⟨rfl, rfl⟩ | ⟨rfl, rfl⟩ | ⟨rfl, rfl⟩ | ⟨rfl, rfl⟩ | ⟨rfl, rfl⟩ <;>
    first
      | exact absurd rfl hne
      | simp (disch := decide) [asmLd, isIn, indexIn, REG, regIndex, R.bind, isIn_sig _ X 2 hs, sw4073_sig2 _ hs, h1, h2]

theorem ld_a_parW (k off : Nat) :
    asmLd t%"A" (S.H .parW k off) = .ok ([58] ++ (sbWord off).map (SB.inst e)) := by
  have hs := S.parW_sig k off
  have hp := S.parW_parse k off
  rw [← sbWord_inst e he]
  generalize S.H .parW k off = X at *
  simp (disch := decide) [asmLd, isIn, indexIn, REG, regIndex, R.bind, catchVal, isIn_sig _ X 1 hs, sw4073_sig1 _ hs,
    sw40_sig1 _ hs, hp]

theorem ld_rp_parW (r : Txt) (i k off : Nat) (hr : regPairIndex r = .ok i) :
    asmLd r (S.H .parW k off) =
      .ok ((if r = t%"HL" then [42] else [237, 75 + 16 * i]) ++ (sbWord off).map (SB.inst e)) := by
  have hs := S.parW_sig k off
  have hp := S.parW_parse k off
  rw [← sbWord_inst e he]
  generalize S.H .parW k off = X at *
  rcases regPairIndex_cases r i hr with ⟨rfl, rfl⟩ | ⟨rfl, rfl⟩ | ⟨rfl, rfl⟩ | ⟨rfl, rfl⟩ <;>
    simp (disch := decide) [asmLd, isIn, indexIn, REG, INDEX_REG, REG_PAIRS, regPairIndex, sw_cons_cons, sw_nil, sw_cons_nil,
      R.bind, sw40_sig1 _ hs, hp]

theorem ld_irp_parW (r : Txt) (i ic k off : Nat) (hr : indexIn INDEX_REG_PAIRS r = .ok i) (hc : indexCode r = .ok ic) :
    asmLd r (S.H .parW k off) = .ok ([ic, 42] ++ (sbWord off).map (SB.inst e)) := by
  have hs := S.parW_sig k off
  have hp := S.parW_parse k off
  rw [← sbWord_inst e he]
  generalize S.H .parW k off = X at *
  rcases irp_cases r i ic hr hc with ⟨rfl, rfl⟩ | ⟨rfl, rfl⟩ <;>
    simp (disch := decide) [asmLd, isIn, indexIn, REG, INDEX_REG, REG_PAIRS, INDEX_REG_PAIRS, indexCode, sw_cons_cons, sw_nil,
      sw_cons_nil, R.bind, sw40_sig1 _ hs, hp]

theorem ld_rp_numW (r : Txt) (i k off : Nat) (hr : regPairIndex r = .ok i) :
    asmLd r (S.H .numW k off) = .ok ([1 + 16 * i] ++ (sbWord off).map (SB.inst e)) := by
  have hs := S.numW_sig k off
  have hp := S.numW_parse k off
  rw [← sbWord_inst e he]
  generalize S.H .numW k off = X at *
  rcases regPairIndex_cases r i hr with ⟨rfl, rfl⟩ | ⟨rfl, rfl⟩ | ⟨rfl, rfl⟩ | ⟨rfl, rfl⟩ <;>
    simp (disch := decide) [asmLd, isIn, indexIn, REG, INDEX_REG, REG_PAIRS, regPairIndex, sw_cons_cons, sw_nil, sw_cons_nil,
      R.bind, sw40_sig0 _ hs, hp, isIn_sig _ X 0 hs, eq_sig X _ 0 hs]

theorem ld_irp_numW (r : Txt) (i ic k off : Nat) (hr : indexIn INDEX_REG_PAIRS r = .ok i) (hc : indexCode r = .ok ic) :
    asmLd r (S.H .numW k off) = .ok ([ic, 33] ++ (sbWord off).map (SB.inst e)) := by
  have hs := S.numW_sig k off
  have hp := S.numW_parse k off
  rw [← sbWord_inst e he]
  generalize S.H .numW k off = X at *
  rcases irp_cases r i ic hr hc with ⟨rfl, rfl⟩ | ⟨rfl, rfl⟩ <;>
    simp (disch := decide) [asmLd, isIn, indexIn, REG, INDEX_REG, REG_PAIRS, INDEX_REG_PAIRS, indexCode, sw_cons_cons, sw_nil,
      sw_cons_nil, R.bind, sw40_sig0 _ hs, hp]

theorem ld_idx_r (r : Txt) (i : Nat) (c : HCls) (hc : c.isIdx = true) (k off : Nat) (hr : regIndex r = .ok i)
    (hne : r ≠ t%"(HL)") :
    asmLd (S.H c k off) r = .ok [ixCode c, 112 + i, e.rd off] := by
  have hs := S.idx_sig c hc k off
  have h1 := S.idx_code c hc k off
  have h2 := S.idx_offset c hc k off
  generalize S.H c k off = X at *
  rcases regIndex_cases r i hr with ⟨rfl, rfl⟩ | ⟨rfl, rfl⟩ | ⟨rfl, rfl⟩ | ⟨rfl, rfl⟩ | ⟨rfl, rfl⟩ | ⟨rfl, rfl⟩ | ⟨rfl, rfl⟩ | ⟨rfl, rfl⟩ <;>
    first
      | exact absurd rfl hne
      | simp (disch := decide) [asmLd, isIn, indexIn, REG, regIndex, R.bind, isIn_sig _ X 2 hs, sw4073_sig2 _ hs, h1, h2]

theorem ld_idx_n (c : HCls) (hc : c.isIdx = true) (k off k2 off2 : Nat) :
    asmLd (S.H c k off) (S.H .numB k2 off2) = .ok [ixCode c, 54, e.rd off, e.rd off2] := by
  have hs := S.idx_sig c hc k off
  have h1 := S.idx_code c hc k off
  have h2 := S.idx_offset c hc k off
  have hs2 := S.numB_sig k2 off2
  have hp := S.numB_parse k2 off2
  generalize S.H c k off = X at *
  generalize S.H .numB k2 off2 = Y at *
  simp (disch := decide) [asmLd, R.bind, isIn_sig _ X 2 hs, sw4073_sig2 _ hs, h1, h2, isIn_sig _ Y 0 hs2, hp]

theorem ld_parW_lit (r : Txt) (k off : Nat) (pre : List Nat)
    (h : (r = t%"A" ∧ pre = [50]) ∨ (r = t%"HL" ∧ pre = [34]) ∨ (r = t%"IX" ∧ pre = [221, 34]) ∨ (r = t%"IY" ∧ pre = [253, 34]) ∨
      (r = t%"BC" ∧ pre = [237, 67]) ∨ (r = t%"DE" ∧ pre = [237, 83]) ∨ (r = t%"SP" ∧ pre = [237, 115])) :
    asmLd (S.H .parW k off) r = .ok (pre ++ (sbWord off).map (SB.inst e)) := by
  have hs := S.parW_sig k off
  have hp := S.parW_parse k off
  rw [← sbWord_inst e he]
  generalize S.H .parW k off = X at *
  rcases h with ⟨rfl, rfl⟩ | ⟨rfl, rfl⟩ | ⟨rfl, rfl⟩ | ⟨rfl, rfl⟩ | ⟨rfl, rfl⟩ | ⟨rfl, rfl⟩ | ⟨rfl, rfl⟩ <;>
    simp (disch := decide) [asmLd, isIn, indexIn, REG, INDEX_REG, REG_PAIRS, INDEX_REG_PAIRS, indexCode, regPairIndex, sw_cons_cons,
      sw_nil, sw_cons_nil, catchVal, R.bind, sw40_sig1 _ hs, sw4073_sig1 _ hs, hp, isIn_sig _ X 1 hs]

/-! #### the encoders -/

theorem symArith_sound (base : Nat) (o : SOpnd) (sbs : List SB) (h : symArith base o = some sbs) :
    arithmeticA base (o.txtS S) = .ok (sbs.map (SB.inst e)) := by
  unfold symArith at h
  split at h
  · rename_i c k off
    rw [hole_txt S]
    split at h
    · rename_i hc; subst hc
      simp only [Option.some.injEq] at h; subst h
      have hs := S.numB_sig k off
      have hp := S.numB_parse k off
      generalize S.H .numB k off = X at *
      simp (disch := decide) only [arithmeticA, sw4073_sig0 _ hs, isIn_sig _ _ 0 hs, regIndex, indexIn_sig _ _ 0 hs,
        catchVal, hp, R.bind, List.map, SB.inst, if_false, Bool.false_eq_true]
    · split at h
      · rename_i hc
        simp only [Option.some.injEq] at h; subst h
        have hs := S.idx_sig c hc k off
        have h1 := S.idx_code c hc k off
        have h2 := S.idx_offset c hc k off
        generalize S.H c k off = X at *
        simp only [arithmeticA, sw4073_sig2 _ hs, h1, h2, R.bind, List.map, SB.inst, if_true]
      · simp at h
  · simp at h

theorem symBit_sound (base : Nat) (ops : List SOpnd) (sbs : List SB) (h : symBit base ops = some sbs) :
    arity23 (bitResSet base) (ops.map (SOpnd.txtS S)) = .ok (sbs.map (SB.inst e)) := by
  unfold symBit at h
  split at h
  · rename_i n c k off
    split at h
    · rename_i bit hb
      split at h
      · rename_i hc
        simp only [Option.some.injEq] at h; subst h
        have hs := S.idx_sig c hc k off
        have h1 := S.idx_code c hc k off
        have h2 := S.idx_offset c hc k off
        simp only [List.map, lit_txt S, hole_txt S, arity23]
        generalize S.H c k off = X at *
        simp only [bitResSet, hb, R.bind, truthy, Option.getD_none, sw4073_sig2 _ hs, h1, h2, List.map, SB.inst, if_true,
          bne_self_eq_false, Bool.false_eq_true, if_false]
      · simp at h
    · simp at h
  · rename_i n c k off r
    split at h
    · rename_i bit i hb hr
      split at h
      · rename_i hc
        simp only [Option.some.injEq] at h; subst h
        have hs := S.idx_sig c hc.1 k off
        have h1 := S.idx_code c hc.1 k off
        have h2 := S.idx_offset c hc.1 k off
        have hne : (r != []) = true := by simpa using hc.2
        simp only [List.map, lit_txt S, hole_txt S, arity23]
        generalize S.H c k off = X at *
        simp only [bitResSet, hb, R.bind, truthy, Option.getD_some, sw4073_sig2 _ hs, h1, h2, List.map, SB.inst, if_true,
          hne, hr]
      · simp at h
    · simp at h
  · simp at h
theorem symRot_sound (base : Nat) (ops : List SOpnd) (sbs : List SB) (h : symRot base ops = some sbs) :
    arity12 (rotateAndShift base) (ops.map (SOpnd.txtS S)) = .ok (sbs.map (SB.inst e)) := by
  unfold symRot at h
  split at h
  · rename_i c k off
    split at h
    · rename_i hc
      simp only [Option.some.injEq] at h; subst h
      have hs := S.idx_sig c hc k off
      have h1 := S.idx_code c hc k off
      have h2 := S.idx_offset c hc k off
      simp only [List.map, lit_txt S, hole_txt S, arity12]
      generalize S.H c k off = X at *
      simp only [rotateAndShift, R.bind, truthy, Option.getD_none, sw4073_sig2 _ hs, h1, h2, List.map, SB.inst, if_true,
        bne_self_eq_false, Bool.false_eq_true, if_false]
    · simp at h
  · rename_i c k off r
    split at h
    · rename_i i hr
      split at h
      · rename_i hc
        simp only [Option.some.injEq] at h; subst h
        have hs := S.idx_sig c hc.1 k off
        have h1 := S.idx_code c hc.1 k off
        have h2 := S.idx_offset c hc.1 k off
        have hne : (r != []) = true := by simpa using hc.2
        simp only [List.map, lit_txt S, hole_txt S, arity12]
        generalize S.H c k off = X at *
        simp only [rotateAndShift, R.bind, truthy, Option.getD_some, sw4073_sig2 _ hs, h1, h2, List.map, SB.inst, if_true,
          hne, hr]
      · simp at h
    · simp at h
  · simp at h

theorem symJpCall_sound (plain cond : Nat) (f : Txt → Option Txt → R (List Nat))
    (hf1 : ∀ x, sig x = 0 → f x none = (parseWord x).bind fun addr => .ok (withWord [plain] addr))
    (hf2 : ∀ c x, f c (some x) = (parseWord x).bind fun addr => (conditionIndex c).bind fun i => .ok (withWord [cond + 8 * i] addr))
    (ops : List SOpnd) (sbs : List SB) (h : symJpCall plain cond ops = some sbs) :
    arity12 f (ops.map (SOpnd.txtS S)) = .ok (sbs.map (SB.inst e)) := by
  unfold symJpCall at h
  split at h
  · rename_i c k off
    split at h
    · rename_i hc; subst hc
      simp only [Option.some.injEq] at h; subst h
      simp only [List.map, hole_txt S, arity12, hf1 _ (S.numW_sig k off), S.numW_parse, R.bind, sbWord_inst e he]
      rfl
    · simp at h
  · rename_i cc c k off
    split at h
    · rename_i i hi
      split at h
      · rename_i hc; subst hc
        simp only [Option.some.injEq] at h; subst h
        simp only [List.map, hole_txt S, lit_txt S, arity12, hf2, S.numW_parse, R.bind, sbWord_inst e he, hi]
        rfl
      · simp at h
    · simp at h
  · simp at h

theorem symIncDec_sound (b8 b16 : Nat) (ops : List SOpnd) (sbs : List SB) (h : symIncDec b8 ops = some sbs) :
    arity1 (incDec b8 b16) (ops.map (SOpnd.txtS S)) = .ok (sbs.map (SB.inst e)) := by
  unfold symIncDec at h
  split at h
  · rename_i c k off
    split at h
    · rename_i hc
      simp only [Option.some.injEq] at h; subst h
      have hs := S.idx_sig c hc k off
      have h1 := S.idx_code c hc k off
      have h2 := S.idx_offset c hc k off
      have h3 := S.idx_len c hc k off
      simp only [List.map, hole_txt S, arity1]
      generalize S.H c k off = X at *
      simp only [incDec, h3, if_false, sw4073_sig2 _ hs, if_true, h1, h2, R.bind, List.map, SB.inst]
    · simp at h
  · simp at h

theorem symJr_sound (hjr : ∃ t, jrTarget e.a (e.rd 1) = some t)
    (ops : List SOpnd) (sbs : List SB) (h : symJr ops = some sbs) :
    arity12 (asmJr e.a) (ops.map (SOpnd.txtS S)) = .ok (sbs.map (SB.inst e)) := by
  obtain ⟨t, ht⟩ := hjr
  unfold symJr at h
  split at h
  · rename_i c k x
    split at h
    · rename_i hc; subst hc
      simp only [Option.some.injEq] at h; subst h
      simp only [List.map, hole_txt S, arity12, asmJr, S.numR_parse k x t ht, R.bind, SB.inst]
    · simp at h
  · rename_i cc c k x
    split at h
    · rename_i i hi
      split at h
      · rename_i hc; subst hc
        simp only [Option.some.injEq] at h; subst h
        simp only [List.map, hole_txt S, lit_txt S, arity12, asmJr, S.numR_parse k x t ht, R.bind, SB.inst, hi]
      · simp at h
    · simp at h
  · simp at h

theorem symDjnz_sound (hjr : ∃ t, jrTarget e.a (e.rd 1) = some t)
    (ops : List SOpnd) (sbs : List SB) (h : symDjnz ops = some sbs) :
    arity1 (asmDjnz e.a) (ops.map (SOpnd.txtS S)) = .ok (sbs.map (SB.inst e)) := by
  obtain ⟨t, ht⟩ := hjr
  unfold symDjnz at h
  split at h
  · rename_i c k x
    split at h
    · rename_i hc; subst hc
      simp only [Option.some.injEq] at h; subst h
      simp only [List.map, hole_txt S, arity1, asmDjnz, S.numR_parse k x t ht, R.bind, SB.inst]
    · simp at h
  · simp at h

theorem symIn_sound (hb : e.b1 ≠ .m) (ops : List SOpnd) (sbs : List SB) (h : symIn ops = some sbs) :
    arity2 asmIn (ops.map (SOpnd.txtS S)) = .ok (sbs.map (SB.inst e)) := by
  unfold symIn at h
  split at h
  · rename_i r c k off
    split at h
    · rename_i hc
      obtain ⟨rfl, rfl, rfl⟩ := hc
      simp only [Option.some.injEq] at h; subst h
      have hs := S.parB_sig 0 off
      have hp := S.parB_parse 0 off (by simpa [Env.base] using hb)
      simp only [List.map, hole_txt S, lit_txt S, arity2]
      generalize S.H .parB 0 off = X at *
      simp (disch := decide) only [asmIn, eq_sig X _ 1 hs, if_false, if_true, hp, R.bind, List.map, SB.inst]
    · simp at h
  · simp at h

theorem symOut_sound (hb : e.b1 ≠ .m) (ops : List SOpnd) (sbs : List SB) (h : symOut ops = some sbs) :
    arity2 asmOut (ops.map (SOpnd.txtS S)) = .ok (sbs.map (SB.inst e)) := by
  unfold symOut at h
  split at h
  · rename_i c k off r
    split at h
    · rename_i hc
      obtain ⟨rfl, rfl, rfl⟩ := hc
      simp only [Option.some.injEq] at h; subst h
      have hs := S.parB_sig 0 off
      have hp := S.parB_parse 0 off (by simpa [Env.base] using hb)
      simp only [List.map, hole_txt S, lit_txt S, arity2]
      generalize S.H .parB 0 off = X at *
      simp (disch := decide) only [asmOut, eq_sig X _ 1 hs, if_false, if_true, hp, R.bind, List.map, SB.inst]
    · simp at h
  · simp at h

theorem symRst_sound (hb : e.b1 ≠ .m) (ops : List SOpnd) (sbs : List SB) (h : symRst ops = some sbs) :
    arity1 asmRst (ops.map (SOpnd.txtS S)) = .ok (sbs.map (SB.inst e)) := by
  unfold symRst at h
  split at h
  · rename_i c k v
    split at h
    · rename_i hc
      obtain ⟨rfl, rfl, hv, hv8⟩ := hc
      simp only [Option.some.injEq] at h; subst h
      have hp := S.numC_parse 0 v hv (by simpa [Env.base] using hb)
      simp only [List.map, hole_txt S, arity1, asmRst, hp, R.bind, hv8, if_true, SB.inst]
    · simp at h
  · simp at h

theorem symAcc_sound (base : Nat) (f : Txt → Txt → R (List Nat)) (hf : ∀ x, f t%"A" x = arithmeticA base x)
    (ops : List SOpnd) (sbs : List SB) (h : symAcc base ops = some sbs) :
    arity2 f (ops.map (SOpnd.txtS S)) = .ok (sbs.map (SB.inst e)) := by
  unfold symAcc at h
  split at h
  · rename_i r o
    split at h
    · rename_i hr; subst hr
      simp only [List.map, lit_txt S, arity2, hf]
      exact symArith_sound e he S base o sbs h
    · simp at h
  · simp at h

theorem symArith1_sound (base : Nat) (ops : List SOpnd) (sbs : List SB) (h : symArith1 base ops = some sbs) :
    arity1 (arithmeticA base) (ops.map (SOpnd.txtS S)) = .ok (sbs.map (SB.inst e)) := by
  unfold symArith1 at h
  split at h
  · simp only [List.map, arity1]
    exact symArith_sound e he S base _ sbs h
  · simp at h

theorem symLd_sound (ops : List SOpnd) (sbs : List SB) (h : symLd ops = some sbs) :
    arity2 asmLd (ops.map (SOpnd.txtS S)) = .ok (sbs.map (SB.inst e)) := by
  unfold symLd at h
  split at h
  · rename_i r c k off
    simp only [List.map, lit_txt S, hole_txt S, arity2]
    unfold symLdLit at h
    split at h
    · -- numB
      split at h
      · rename_i i hr
        simp only [Option.some.injEq] at h; subst h
        exact ld_r_n e he S r i k off hr
      · split at h
        · rename_i i ic hr hc
          simp only [Option.some.injEq] at h; subst h
          exact ld_ir_n e he S r i ic k off hr hc
        · simp at h
    · -- idxX
      split at h
      · rename_i i hr
        split at h
        · rename_i hne
          simp only [Option.some.injEq] at h; subst h
          exact ld_r_idx e he S r i .idxX rfl k off hr hne
        · simp at h
      · simp at h
    · -- idxY
      split at h
      · rename_i i hr
        split at h
        · rename_i hne
          simp only [Option.some.injEq] at h; subst h
          exact ld_r_idx e he S r i .idxY rfl k off hr hne
        · simp at h
      · simp at h
    · -- parW
      split at h
      · rename_i hr; subst hr
        simp only [Option.some.injEq] at h; subst h
        exact ld_a_parW e he S k off
      · split at h
        · rename_i i hr
          have := ld_rp_parW e he S r i k off hr
          split at h <;> rename_i hhl <;> simp only [Option.some.injEq] at h <;> subst h <;>
            simpa [hhl, SB.inst] using this
        · split at h
          · rename_i i ic hr hc
            simp only [Option.some.injEq] at h; subst h
            simpa [SB.inst] using ld_irp_parW e he S r i ic k off hr hc
          · simp at h
    · -- numW
      split at h
      · rename_i i hr
        simp only [Option.some.injEq] at h; subst h
        simpa [SB.inst] using ld_rp_numW e he S r i k off hr
      · split at h
        · rename_i i ic hr hc
          simp only [Option.some.injEq] at h; subst h
          simpa [SB.inst] using ld_irp_numW e he S r i ic k off hr hc
        · simp at h
    · simp at h
  · rename_i c k off r
    simp only [List.map, lit_txt S, hole_txt S, arity2]
    unfold symLdToLit at h
    split at h
    · split at h
      · rename_i i hr
        split at h
        · rename_i hne
          simp only [Option.some.injEq] at h; subst h
          exact ld_idx_r e he S r i .idxX rfl k off hr hne
        · simp at h
      · simp at h
    · split at h
      · rename_i i hr
        split at h
        · rename_i hne
          simp only [Option.some.injEq] at h; subst h
          exact ld_idx_r e he S r i .idxY rfl k off hr hne
        · simp at h
      · simp at h
    · -- parW
      split at h
      · rename_i hr
        simp only [Option.some.injEq] at h; subst h
        simpa [SB.inst] using ld_parW_lit e he S r k off [50] (Or.inl ⟨hr, rfl⟩)
      · split at h
        · rename_i hr
          simp only [Option.some.injEq] at h; subst h
          simpa [SB.inst] using ld_parW_lit e he S r k off [34] (Or.inr (Or.inl ⟨hr, rfl⟩))
        · split at h
          · rename_i i ic hr hc
            simp only [Option.some.injEq] at h; subst h
            rcases irp_cases r i ic hr hc with ⟨rfl, rfl⟩ | ⟨rfl, rfl⟩
            · simpa [SB.inst] using ld_parW_lit e he S _ k off [221, 34] (by simp)
            · simpa [SB.inst] using ld_parW_lit e he S _ k off [253, 34] (by simp)
          · split at h
            · rename_i i hr
              simp only [Option.some.injEq] at h; subst h
              rcases regPairIndex_cases r i hr with ⟨rfl, rfl⟩ | ⟨rfl, rfl⟩ | ⟨rfl, rfl⟩ | ⟨rfl, rfl⟩
              · simpa [SB.inst] using ld_parW_lit e he S _ k off [237, 67] (by simp)
              · simpa [SB.inst] using ld_parW_lit e he S _ k off [237, 83] (by simp)
              · contradiction
              · simpa [SB.inst] using ld_parW_lit e he S _ k off [237, 115] (by simp)
            · simp at h
    · simp at h
  · rename_i c k off c2 k2 off2
    split at h
    · rename_i hc
      obtain ⟨hc, rfl⟩ := hc
      simp only [Option.some.injEq] at h; subst h
      simp only [List.map, hole_txt S, arity2]
      exact ld_idx_n e he S c hc k off k2 off2
    · simp at h
  · simp at h

/-- **Soundness of the rule table, for every spelling.**  Whatever `symAsm` says for a mnemonic and operands,
the assembler produces, however the numeric operands are spelled (`S`) — for every memory, address, base and
number format (`hnn`: the operand of `IN`/`OUT`/`RST` is not
rendered in the negative base; `hjr`: the relative jump has an in-range target, i.e. `jr_arg` did not fall
back to a DEFB). -/
theorem symAsm_spelled (mn : Txt) (ops : List SOpnd) (sbs : List SB) (h : symAsm mn ops = some sbs)
    (hnn : mn = t%"IN" ∨ mn = t%"OUT" ∨ mn = t%"RST" → e.b1 ≠ .m)
    (hjr : mn = t%"JR" ∨ mn = t%"DJNZ" → ∃ t, jrTarget e.a (e.rd 1) = some t) :
    asmTokens (mn :: ops.map (SOpnd.txtS S)) e.a = .ok (sbs.map (SB.inst e)) := by
  unfold symAsm at h
  by_cases hm : mn = t%"LD"
  · rw [if_pos hm] at h; subst hm
    exact symLd_sound e he S ops sbs h
  rw [if_neg hm] at h; clear hm
  by_cases hm : mn = t%"ADD"
  · rw [if_pos hm] at h; subst hm
    exact symAcc_sound e he S 128 asmAdd (fun x => by simp [asmAdd]) ops sbs h
  rw [if_neg hm] at h; clear hm
  by_cases hm : mn = t%"ADC"
  · rw [if_pos hm] at h; subst hm
    exact symAcc_sound e he S 136 asmAdc (fun x => by simp [asmAdc]) ops sbs h
  rw [if_neg hm] at h; clear hm
  by_cases hm : mn = t%"SBC"
  · rw [if_pos hm] at h; subst hm
    exact symAcc_sound e he S 152 asmSbc (fun x => by simp [asmSbc]) ops sbs h
  rw [if_neg hm] at h; clear hm
  by_cases hm : mn = t%"SUB"
  · rw [if_pos hm] at h; subst hm
    exact symArith1_sound e he S 144 ops sbs h
  rw [if_neg hm] at h; clear hm
  by_cases hm : mn = t%"AND"
  · rw [if_pos hm] at h; subst hm
    exact symArith1_sound e he S 160 ops sbs h
  rw [if_neg hm] at h; clear hm
  by_cases hm : mn = t%"XOR"
  · rw [if_pos hm] at h; subst hm
    exact symArith1_sound e he S 168 ops sbs h
  rw [if_neg hm] at h; clear hm
  by_cases hm : mn = t%"OR"
  · rw [if_pos hm] at h; subst hm
    exact symArith1_sound e he S 176 ops sbs h
  rw [if_neg hm] at h; clear hm
  by_cases hm : mn = t%"CP"
  · rw [if_pos hm] at h; subst hm
    exact symArith1_sound e he S 184 ops sbs h
  rw [if_neg hm] at h; clear hm
  by_cases hm : mn = t%"BIT"
  · rw [if_pos hm] at h; subst hm
    exact symBit_sound e he S 64 ops sbs h
  rw [if_neg hm] at h; clear hm
  by_cases hm : mn = t%"RES"
  · rw [if_pos hm] at h; subst hm
    exact symBit_sound e he S 128 ops sbs h
  rw [if_neg hm] at h; clear hm
  by_cases hm : mn = t%"SET"
  · rw [if_pos hm] at h; subst hm
    exact symBit_sound e he S 192 ops sbs h
  rw [if_neg hm] at h; clear hm
  by_cases hm : mn = t%"RLC"
  · rw [if_pos hm] at h; subst hm
    exact symRot_sound e he S 0 ops sbs h
  rw [if_neg hm] at h; clear hm
  by_cases hm : mn = t%"RRC"
  · rw [if_pos hm] at h; subst hm
    exact symRot_sound e he S 8 ops sbs h
  rw [if_neg hm] at h; clear hm
  by_cases hm : mn = t%"RL"
  · rw [if_pos hm] at h; subst hm
    exact symRot_sound e he S 16 ops sbs h
  rw [if_neg hm] at h; clear hm
  by_cases hm : mn = t%"RR"
  · rw [if_pos hm] at h; subst hm
    exact symRot_sound e he S 24 ops sbs h
  rw [if_neg hm] at h; clear hm
  by_cases hm : mn = t%"SLA"
  · rw [if_pos hm] at h; subst hm
    exact symRot_sound e he S 32 ops sbs h
  rw [if_neg hm] at h; clear hm
  by_cases hm : mn = t%"SRA"
  · rw [if_pos hm] at h; subst hm
    exact symRot_sound e he S 40 ops sbs h
  rw [if_neg hm] at h; clear hm
  by_cases hm : mn = t%"SLL"
  · rw [if_pos hm] at h; subst hm
    exact symRot_sound e he S 48 ops sbs h
  rw [if_neg hm] at h; clear hm
  by_cases hm : mn = t%"SRL"
  · rw [if_pos hm] at h; subst hm
    exact symRot_sound e he S 56 ops sbs h
  rw [if_neg hm] at h; clear hm
  by_cases hm : mn = t%"JP"
  · rw [if_pos hm] at h; subst hm
    exact symJpCall_sound e he S 195 194 asmJp
      (fun x hx => by simp (disch := decide) only [asmJp, eq_sig x _ 0 hx, if_false])
      (fun c x => by simp only [asmJp]) ops sbs h
  rw [if_neg hm] at h; clear hm
  by_cases hm : mn = t%"CALL"
  · rw [if_pos hm] at h; subst hm
    exact symJpCall_sound e he S 205 196 asmCall (fun x hx => by simp only [asmCall]) (fun c x => by simp only [asmCall]) ops sbs h
  rw [if_neg hm] at h; clear hm
  by_cases hm : mn = t%"INC"
  · rw [if_pos hm] at h; subst hm
    exact symIncDec_sound e he S 4 3 ops sbs h
  rw [if_neg hm] at h; clear hm
  by_cases hm : mn = t%"DEC"
  · rw [if_pos hm] at h; subst hm
    exact symIncDec_sound e he S 5 11 ops sbs h
  rw [if_neg hm] at h; clear hm
  by_cases hm : mn = t%"JR"
  · rw [if_pos hm] at h; subst hm
    exact symJr_sound e he S (hjr (Or.inl rfl)) ops sbs h
  rw [if_neg hm] at h; clear hm
  by_cases hm : mn = t%"DJNZ"
  · rw [if_pos hm] at h; subst hm
    exact symDjnz_sound e he S (hjr (Or.inr rfl)) ops sbs h
  rw [if_neg hm] at h; clear hm
  by_cases hm : mn = t%"IN"
  · rw [if_pos hm] at h; subst hm
    exact symIn_sound e he S (hnn (Or.inl rfl)) ops sbs h
  rw [if_neg hm] at h; clear hm
  by_cases hm : mn = t%"OUT"
  · rw [if_pos hm] at h; subst hm
    exact symOut_sound e he S (hnn (Or.inr (Or.inl rfl))) ops sbs h
  rw [if_neg hm] at h; clear hm
  by_cases hm : mn = t%"RST"
  · rw [if_pos hm] at h; subst hm
    exact symRst_sound e he S (hnn (Or.inr (Or.inr rfl))) ops sbs h
  rw [if_neg hm] at h; clear hm
  simp at h

omit S in
/-- … in particular for the texts the disassembler renders. -/
theorem symAsm_sound (mn : Txt) (ops : List SOpnd) (sbs : List SB) (h : symAsm mn ops = some sbs)
    (hnn : mn = t%"IN" ∨ mn = t%"OUT" ∨ mn = t%"RST" → e.b1 ≠ .m)
    (hjr : mn = t%"JR" ∨ mn = t%"DJNZ" → ∃ t, jrTarget e.a (e.rd 1) = some t) :
    asmTokens (mn :: ops.map (SOpnd.txt e)) e.a = .ok (sbs.map (SB.inst e)) := by
  have := symAsm_spelled e he (Spelling.canon e he) mn ops sbs h hnn hjr
  have hm : ops.map (SOpnd.txtS (Spelling.canon e he)) = ops.map (SOpnd.txt e) :=
    List.map_congr_left (fun o _ => txtS_canon e he o)
  rwa [hm] at this

end AsmInstrL
