import SkoolVerif.Model.AccelWalk
import SkoolVerif.Gen.Accelerators
import SkoolVerif.Proofs.LoadAccelDecA
/-!
Soundness of the per-closure cost summary `AccelWalk.classify` against the generated closures
(`Gen/SimHandlers.lean`), for every closure / argument tuple it accepts and every state: clock,
program counter, R register, memory, interrupt flag, the counter register of `INC r`/`DEC r`,
and the registers left alone.  One generic tactic per fact; no proof names a closure.
-/
open Z80 Sim AccelWalk LoadAccel
namespace AccelWalk

variable {μ : Type} [MemLike μ]


set_option maxHeartbeats 1000000 in
theorem classify_t (cfg : Cfg) (i : Instr) (c : Cost) (k : Kind) (h : classify i = some (c, k)) (s : St μ) :
    (execLeaf cfg i s).t = s.t + c.tNot ∨ (execLeaf cfg i s).t = s.t + c.tTaken := by
  cases i <;> simp only [classify, reduceCtorEq] at h <;>
    simp only [execLeaf, sim_handler, Id.run, pure] <;> grind [Option.map_eq_some_iff]

set_option maxHeartbeats 1000000 in
theorem classify_fall (cfg : Cfg) (i : Instr) (c : Cost) (k : Kind) (h : classify i = some (c, k)) (hk : k.isCond = false) (s : St μ) :
    (execLeaf cfg i s).t = s.t + c.tNot ∧ (execLeaf cfg i s).pc = (s.pc + c.size) % 65536 := by
  cases i <;> simp only [classify, reduceCtorEq] at h <;>
    simp only [execLeaf, sim_handler, Id.run, pure] <;> grind [Option.map_eq_some_iff, Kind.isCond]

set_option maxHeartbeats 1000000 in
theorem classify_mem (cfg : Cfg) (i : Instr) (c : Cost) (k : Kind) (h : classify i = some (c, k)) (s : St μ) :
    (execLeaf cfg i s).mem = s.mem ∧ (execLeaf cfg i s).iff = s.iff := by
  cases i <;> simp only [classify, reduceCtorEq] at h <;>
    simp only [execLeaf, sim_handler, Id.run, pure] <;> grind [Option.map_eq_some_iff]

theorem m1_cases (ri : TblI1) (m : Int) (h : m1Of ri = some m) : (ri = .R1 ∧ m = 1) ∨ (ri = .R2 ∧ m = 2) := by
  cases ri <;> simp [m1Of] at h <;> simp [h]

theorem R2_rAdd (r : Int) : Tbl.R2 r = rAdd r 2 := by unfold Tbl.R2 rAdd; rfl

set_option maxHeartbeats 2000000 in
theorem classify_r (cfg : Cfg) (i : Instr) (c : Cost) (k : Kind) (h : classify i = some (c, k)) (hk : k ≠ .setR)
    (s : St μ) (hs : s.reg.size = 24) :
    rget (execLeaf cfg i s).reg 15 = rAdd (rget s.reg 15) c.m1 := by
  cases i <;> simp only [classify, reduceCtorEq] at h <;>
    simp only [execLeaf, sim_handler, Id.run, pure] <;>
    grind [Option.map_eq_some_iff, m1_cases, R1_rAdd, R2_rAdd, rget_rset, rset_size, TblI1.get, gpr]

/-- registers (other than R) a classified closure may write -/
def Kind.writes : Kind → List Int
  | .plain w => w
  | .incr r => [r, 1]
  | .decr r => [r, 1]
  | .inp w => w
  | _ => []

set_option maxHeartbeats 2000000 in
theorem classify_keeps (cfg : Cfg) (i : Instr) (c : Cost) (k : Kind) (h : classify i = some (c, k))
    (s : St μ) (hs : s.reg.size = 24) (q : Int) (hq : 0 ≤ q ∧ q ≤ 11) (hw : q ∉ k.writes) :
    rget (execLeaf cfg i s).reg q = rget s.reg q := by
  cases i <;> simp only [classify, reduceCtorEq] at h <;>
    simp only [execLeaf, sim_handler, Id.run, pure] <;>
    grind [Option.map_eq_some_iff, rget_rset, rset_size, gpr, Kind.writes]

theorem INC_fst (c x : Int) : (Tbl.INC c x).1 = (x + 1) % 256 := by
  unfold Tbl.INC; simp only []; rw [Int.add_comm]
theorem DEC_fst (c x : Int) : (Tbl.DEC c x).1 = (x - 1) % 256 := by
  unfold Tbl.DEC; simp only []; congr 1; omega

set_option maxHeartbeats 2000000 in
theorem classify_incr (cfg : Cfg) (i : Instr) (c : Cost) (r : Int) (h : classify i = some (c, .incr r))
    (s : St μ) (hs : s.reg.size = 24) (hr : r ≠ 1) :
    rget (execLeaf cfg i s).reg r = (rget s.reg r + 1) % 256 := by
  cases i <;> simp only [classify, reduceCtorEq] at h <;>
    simp only [execLeaf, sim_handler, Id.run, pure] <;>
    grind [Option.map_eq_some_iff, rget_rset, rset_size, gpr, TblP2.get, INC_fst]

set_option maxHeartbeats 2000000 in
theorem classify_decr (cfg : Cfg) (i : Instr) (c : Cost) (r : Int) (h : classify i = some (c, .decr r))
    (s : St μ) (hs : s.reg.size = 24) (hr : r ≠ 1) :
    rget (execLeaf cfg i s).reg r = (rget s.reg r - 1) % 256 := by
  cases i <;> simp only [classify, reduceCtorEq] at h <;>
    simp only [execLeaf, sim_handler, Id.run, pure] <;>
    grind [Option.map_eq_some_iff, rget_rset, rset_size, gpr, TblP2.get, DEC_fst]

/-- every entry of the generated `ACCELERATORS` table passes the static walk -/
theorem table_consistent : LoadTape.accelerators.all checkAccel = true := by decide +kernel

end AccelWalk
