import SkoolVerif.Proofs.SimStep
import SkoolVerif.Gen.C07SimFacts
import SkoolVerif.Proofs.C07Slots
/-!
The generated simulator model by slot: under a kernel-checked shape condition on the seven dispatch
tables (where the `prefix`/`prefix2` entries are), the closure that `Simulator.step` runs is the dispatch
entry at the slot of the opcode bytes at PC; the per-closure facts of `Gen/C07SimFacts` (T-state sets,
fall-through sizes) then lift to `step`.
-/
open Z80 InstrDec
namespace Sim
set_option linter.unusedSimpArgs false

variable {μ : Type} [MemLike μ]

def tblOf : Nat → OpTbl
  | 0 => .MAIN | 1 => .CB | 2 => .ED | 3 => .DD | 4 => .FD | 5 => .DDCB | _ => .FDCB

/-- the dispatch-table entry at a slot -/
def simAt (s : Slot) : Instr := (tblOf s.tbl).get (s.idx : Int)

/-- memory as the byte-valued function the decoder models read -/
def memOf (s : St μ) : Mem := fun x => (mget s.mem (x : Int)).toNat

/-- `p k x` for the elements `x` of a list, numbered from `k` (one pass: kernel-friendly) -/
def allFrom {α : Type} : List α → Nat → (Nat → α → Bool) → Bool
  | [], _, _ => true
  | x :: r, k, p => p k x && allFrom r (k + 1) p

theorem allFrom_spec {α : Type} {l : List α} {k : Nat} {p : Nat → α → Bool} (h : allFrom l k p = true) :
    ∀ i (hi : i < l.length), p (k + i) l[i] = true := by
  induction l generalizing k with
  | nil => intro i hi; simp at hi
  | cons x r ih =>
    simp only [allFrom, Bool.and_eq_true] at h
    intro i hi
    cases i with
    | zero => simpa using h.1
    | succ j =>
      have := ih h.2 j (by simpa using hi)
      simpa [Nat.add_assoc, Nat.add_comm 1 j] using this

def isPrefixInstr : Instr → Bool
  | .prefix_ _ => true
  | .prefix2_ _ => true
  | _ => false

/-- where the prefix entries of the seven dispatch tables are -/
def simShape : Bool :=
  allFrom tbl_MAIN.toList 0 (fun b e =>
    if b = 0xCB then e == .prefix_ .CB else if b = 0xED then e == .prefix_ .ED
    else if b = 0xDD then e == .prefix_ .DD else if b = 0xFD then e == .prefix_ .FD else !isPrefixInstr e) &&
  allFrom tbl_CB.toList 0 (fun _ e => !isPrefixInstr e) &&
  allFrom tbl_ED.toList 0 (fun _ e => !isPrefixInstr e) &&
  allFrom tbl_DD.toList 0 (fun b e => if b = 0xCB then e == .prefix2_ .DDCB else !isPrefixInstr e) &&
  allFrom tbl_FD.toList 0 (fun b e => if b = 0xCB then e == .prefix2_ .FDCB else !isPrefixInstr e)

theorem getD_toList (a : Array Instr) (hsz : a.size = 256) (i : Nat) (hi : i < 256) (d : Instr) :
    a.getD i d = a.toList[i]'(by simp [hsz, hi]) := by
  simp [Array.getD, hsz, hi]

theorem size_of_wf {a : Array Instr} (h : (a.all instrWf && a.size == 256) = true) : a.size = 256 := by
  simp only [Bool.and_eq_true, beq_iff_eq] at h; exact h.2

theorem tbl_fact {a : Array Instr} (hw : (a.all instrWf && a.size == 256) = true) {p : Nat → Instr → Bool}
    (h : allFrom a.toList 0 p = true) (i : Nat) (hi : i < 256) (d : Instr) : p i (a.getD i d) = true := by
  have hsz := size_of_wf hw
  rw [getD_toList a hsz i hi d]
  have := allFrom_spec h i (by simp [hsz, hi])
  simpa using this

theorem leafOf2_id (s : St μ) (i : Instr) (h : isPrefixInstr i = false) : leafOf2 s i = i := by
  cases i <;> simp_all [leafOf2, isPrefixInstr]

theorem leafOf1_id (s : St μ) (i : Instr) (h : isPrefixInstr i = false) : leafOf1 s i = i := by
  cases i <;> simp_all [leafOf1, leafOf2, isPrefixInstr]

theorem toNat_cast_mod (x : Int) (k : Nat) (hx : 0 ≤ x) : ((x.toNat + k) % 65536 : Nat) = ((x + k) % 65536 : Int) := by
  omega

/-- the closure `step` runs is the dispatch entry at the slot of the opcode bytes at PC -/
theorem leafOf_eq (hsh : simShape = true) (s : St μ) (hpc : 0 ≤ s.pc ∧ s.pc < 65536)
    (hmem : ∀ x : Int, 0 ≤ mget s.mem x ∧ mget s.mem x < 256) :
    leafOf s = simAt (slotOf (memOf s s.pc.toNat) (memOf s ((s.pc.toNat + 1) % 65536)) (memOf s ((s.pc.toNat + 3) % 65536))) := by
  simp only [simShape, Bool.and_eq_true] at hsh
  obtain ⟨⟨⟨⟨hM, hCB⟩, hED⟩, hDD⟩, hFD⟩ := hsh
  have e0 : ((s.pc.toNat : Nat) : Int) = s.pc := Int.toNat_of_nonneg hpc.1
  have e1 : (((s.pc.toNat + 1) % 65536 : Nat) : Int) = (s.pc + 1) % 65536 := by omega
  have e3 : (((s.pc.toNat + 3) % 65536 : Nat) : Int) = (s.pc + 3) % 65536 := by omega
  simp only [memOf, e0, e1, e3]
  generalize hb0 : mget s.mem s.pc = v0
  generalize hb1 : mget s.mem ((s.pc + 1) % 65536) = v1
  generalize hb3 : mget s.mem ((s.pc + 3) % 65536) = v3
  have h0 := hmem s.pc; rw [hb0] at h0
  have h1 := hmem ((s.pc + 1) % 65536); rw [hb1] at h1
  have h3 := hmem ((s.pc + 3) % 65536); rw [hb3] at h3
  have n0 : v0.toNat < 256 := by omega
  have n1 : v1.toNat < 256 := by omega
  have n3 : v3.toNat < 256 := by omega
  have c0 : ((v0.toNat : Nat) : Int) = v0 := Int.toNat_of_nonneg h0.1
  have c1 : ((v1.toNat : Nat) : Int) = v1 := Int.toNat_of_nonneg h1.1
  have c3 : ((v3.toNat : Nat) : Int) = v3 := Int.toNat_of_nonneg h3.1
  have fM := tbl_fact wf_MAIN hM v0.toNat n0 (.prefix_ .MAIN)
  have fCB := tbl_fact wf_CB hCB v1.toNat n1 (.prefix_ .MAIN)
  have fED := tbl_fact wf_ED hED v1.toNat n1 (.prefix_ .MAIN)
  have fDD := tbl_fact wf_DD hDD v1.toNat n1 (.prefix_ .MAIN)
  have fFD := tbl_fact wf_FD hFD v1.toNat n1 (.prefix_ .MAIN)
  have gM : OpTbl.get .MAIN v0 = tbl_MAIN.getD v0.toNat (.prefix_ .MAIN) := rfl
  have gCB : OpTbl.get .CB v1 = tbl_CB.getD v1.toNat (.prefix_ .MAIN) := rfl
  have gED : OpTbl.get .ED v1 = tbl_ED.getD v1.toNat (.prefix_ .MAIN) := rfl
  have gDD : OpTbl.get .DD v1 = tbl_DD.getD v1.toNat (.prefix_ .MAIN) := rfl
  have gFD : OpTbl.get .FD v1 = tbl_FD.getD v1.toNat (.prefix_ .MAIN) := rfl
  unfold leafOf
  rw [hb0]
  simp only [simAt, slotOf]
  generalize tbl_MAIN.getD v0.toNat (.prefix_ .MAIN) = mM at fM gM
  generalize tbl_CB.getD v1.toNat (.prefix_ .MAIN) = mCB at fCB gCB
  generalize tbl_ED.getD v1.toNat (.prefix_ .MAIN) = mED at fED gED
  generalize tbl_DD.getD v1.toNat (.prefix_ .MAIN) = mDD at fDD gDD
  generalize tbl_FD.getD v1.toNat (.prefix_ .MAIN) = mFD at fFD gFD
  rw [gM]
  by_cases k1 : v0.toNat = 0xCB
  · simp only [k1, if_true, beq_iff_eq, Nat.reduceEqDiff] at fM
    simp only [k1, if_true, Nat.reduceEqDiff, fM, leafOf1, hb1, tblOf, c1, gCB]
    exact leafOf2_id s _ (by simpa using fCB)
  by_cases k2 : v0.toNat = 0xED
  · simp only [k1, k2, if_true, if_false, beq_iff_eq, Nat.reduceEqDiff] at fM
    simp only [k1, k2, if_true, if_false, Nat.reduceEqDiff, fM, leafOf1, hb1, tblOf, c1, gED]
    exact leafOf2_id s _ (by simpa using fED)
  by_cases k3 : v0.toNat = 0xDD
  · simp only [k1, k2, k3, if_true, if_false, beq_iff_eq, Nat.reduceEqDiff] at fM
    simp only [k1, k2, k3, if_true, if_false, Nat.reduceEqDiff, fM, leafOf1, hb1, gDD]
    by_cases k4 : v1.toNat = 0xCB
    · simp only [k4, if_true, beq_iff_eq, Nat.reduceEqDiff] at fDD
      simp only [k4, if_true, Nat.reduceEqDiff, fDD, leafOf2, hb3]
      show OpTbl.get .DDCB v3 = OpTbl.get .DDCB ((v3.toNat : Nat) : Int)
      rw [c3]
    · simp only [k4, if_false] at fDD
      simp only [k4, if_false, tblOf, c1, gDD]
      exact leafOf2_id s _ (by simpa using fDD)
  by_cases k5 : v0.toNat = 0xFD
  · simp only [k1, k2, k3, k5, if_true, if_false, beq_iff_eq, Nat.reduceEqDiff] at fM
    simp only [k1, k2, k3, k5, if_true, if_false, Nat.reduceEqDiff, fM, leafOf1, hb1, gFD]
    by_cases k4 : v1.toNat = 0xCB
    · simp only [k4, if_true, beq_iff_eq, Nat.reduceEqDiff] at fFD
      simp only [k4, if_true, Nat.reduceEqDiff, fFD, leafOf2, hb3]
      show OpTbl.get .FDCB v3 = OpTbl.get .FDCB ((v3.toNat : Nat) : Int)
      rw [c3]
    · simp only [k4, if_false] at fFD
      simp only [k4, if_false, tblOf, c1, gFD]
      exact leafOf2_id s _ (by simpa using fFD)
  · simp only [k1, k2, k3, k5, if_false] at fM
    simp only [k1, k2, k3, k5, if_false, tblOf, c0, gM]
    exact leafOf1_id s _ (by simpa using fM)

/-- `step` takes one of the closure's T-state increments -/
theorem tstates_step (cfg : Cfg) (s : St μ) : (step cfg s).t - s.t ∈ instrTstates (leafOf s) := by
  rw [step_eq]; exact tstates_execLeaf cfg _ s

/-- a closure all of whose paths fall through advances PC by its size -/
theorem pc_step (cfg : Cfg) (s : St μ) (k : Int) (hk : instrSize (leafOf s) = some k) (hf : instrFalls (leafOf s) = true) :
    (step cfg s).pc = (s.pc + k) % 65536 := by
  rw [step_eq]; exact pc_execLeaf cfg _ s k hk hf

/-! ### a small concrete memory for examples -/

/-- a memory given by a function -/
structure FnMem where
  f : Int → Int

instance : MemLike FnMem where
  get m a := m.f a
  set m a v := ⟨fun x => if x = a then v else m.f x⟩
  portOut m _ _ := m
  o7ffd _ := 0
  is128 _ := false

/-- all registers zero, PC = `pc`, memory `f` -/
def exState (f : Int → Int) (pc : Int) : St FnMem :=
  { reg := #[0, 0, 0, 0, 0, 0, 0, 0, 0, 0, 0, 0, 0, 0, 0, 0, 0, 0, 0, 0, 0, 0, 0, 0], mem := ⟨f⟩, pc := pc, t := 0,
    iff := 0, im := 0, halt := 0, memptr := 0, ins := [], outs := [], inLog := [] }

end Sim
