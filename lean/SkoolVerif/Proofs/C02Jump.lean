import SkoolVerif.Proofs.C02NumStr
import SkoolVerif.Spec.OperandSpec
/-!
Layer A arithmetic: relative jumps (`jr_arg` / `_address_offset`, 64K wrap),
index offsets (`index_offset` / `_parse_offset`), range of assembled values.
-/
namespace C02L
open OpText AsmEval OperandSpec

theorem jrTarget_some (a off t : Nat) (h : jrTarget a off = some t) :
    t < 65536 ∧ ((off < 128 ∧ t = a + 2 + off) ∨ (128 ≤ off ∧ t + 254 = a + off)) := by
  unfold jrTarget at h
  by_cases ho : off < 128
  · simp only [ho, if_true] at h
    split at h
    · simp only [Option.some.injEq] at h; omega
    · simp at h
  · simp only [ho, if_false] at h
    split at h
    · simp only [Option.some.injEq] at h; omega
    · simp at h

theorem jrTarget_none_iff (a off : Nat) :
    jrTarget a off = none ↔
      (off < 128 ∧ 65536 ≤ a + 2 + off) ∨ (128 ≤ off ∧ (a + off < 254 ∨ 65536 + 254 ≤ a + off)) := by
  unfold jrTarget
  by_cases ho : off < 128
  · simp only [ho, if_true]
    split
    · simp; omega
    · simp; omega
  · simp only [ho, if_false]
    split
    · simp; omega
    · simp; omega

/-- The numeric part of `_address_offset` inverts `jr_arg`. -/
theorem addressOffsetV_jrTarget (a off t : Nat) (ha : a < 65536) (ho : off < 256)
    (h : jrTarget a off = some t) : addressOffsetV a t = .ok off := by
  obtain ⟨ht, hcase⟩ := jrTarget_some a off t h
  unfold addressOffsetV
  rcases hcase with ⟨h1, rfl⟩ | ⟨h1, h2⟩
  · have e : ((a + 2 + off : Nat) : Int) - (a : Int) = 2 + off := by omega
    simp only [e]
    have c1 : ¬ ((2 : Int) + off ≥ 65410) := by omega
    have c2 : ¬ ((2 : Int) + off ≤ -65407) := by omega
    have c3 : (-126 : Int) ≤ 2 + off ∧ (2 : Int) + off < 130 := by omega
    simp only [c1, c2, c3, if_false, and_self, if_true]
    congr 1; omega
  · have e : (t : Int) - (a : Int) = (off : Int) - 254 := by omega
    simp only [e]
    have c1 : ¬ ((off : Int) - 254 ≥ 65410) := by omega
    have c2 : ¬ ((off : Int) - 254 ≤ -65407) := by omega
    have c3 : (-126 : Int) ≤ (off : Int) - 254 ∧ (off : Int) - 254 < 130 := by omega
    simp only [c1, c2, c3, if_false, and_self, if_true]
    congr 1; omega

/-- Exact acceptance range and encoding of `_address_offset`, for all addresses
and targets, including jumps across the 64K boundary in both directions. -/
theorem addressOffsetV_spec (a t b : Nat) (ha : a < 65536) (ht : t < 65536) :
    addressOffsetV a t = .ok b ↔
      (((t + 65536 - a) % 65536 ≤ 129 ∨ 65410 ≤ (t + 65536 - a) % 65536) ∧
        b = ((t + 65536 - a) % 65536 + 254) % 256) := by
  unfold addressOffsetV
  by_cases hta : a ≤ t
  · have hd : (t + 65536 - a) % 65536 = t - a := by omega
    rw [hd]
    by_cases c1 : ((t : Int) - a ≥ 65410)
    · simp only [c1, if_true]
      have c3 : (-126 : Int) ≤ (t : Int) - a - 65536 ∧ (t : Int) - a - 65536 < 130 := by omega
      simp only [c3, and_self, if_true, R.ok.injEq]
      omega
    · have c2 : ¬ ((t : Int) - a ≤ -65407) := by omega
      simp only [c1, c2, if_false]
      by_cases c3 : (-126 : Int) ≤ (t : Int) - a ∧ (t : Int) - a < 130
      · simp only [c3, and_self, if_true, R.ok.injEq]; omega
      · simp only [c3, if_false]
        constructor
        · intro h; cases h
        · intro h; omega
  · have hd : (t + 65536 - a) % 65536 = t + 65536 - a := by omega
    rw [hd]
    have c1 : ¬ ((t : Int) - a ≥ 65410) := by omega
    by_cases c2 : ((t : Int) - a ≤ -65407)
    · simp only [c1, c2, if_false, if_true]
      have c3 : (-126 : Int) ≤ (t : Int) - a + 65536 ∧ (t : Int) - a + 65536 < 130 := by omega
      simp only [c3, and_self, if_true, R.ok.injEq]
      omega
    · simp only [c1, c2, if_false]
      by_cases c3 : (-126 : Int) ≤ (t : Int) - a ∧ (t : Int) - a < 130
      · simp only [c3, and_self, if_true, R.ok.injEq]; omega
      · simp only [c3, if_false]
        constructor
        · intro h; cases h
        · intro h; omega

/-- Z80 semantics of the assembled displacement: executing the jump at `a`
lands on `t` (mod 64K). -/
theorem addressOffsetV_sem (a t b : Nat) (ha : a < 65536) (ht : t < 65536)
    (h : addressOffsetV a t = .ok b) :
    b < 256 ∧ relTarget a b = t := by
  rw [addressOffsetV_spec a t b ha ht] at h
  obtain ⟨hr, rfl⟩ := h
  unfold relTarget
  constructor
  · omega
  · split <;> omega

/-- When the decoder can show the target (no wrap), it is the Z80 target. -/
theorem jrTarget_eq_relTarget (a b t : Nat) (ha : a < 65536) (hb : b < 256) (h : jrTarget a b = some t) :
    t = relTarget a b := by
  obtain ⟨ht, hcase⟩ := jrTarget_some a b t h
  unfold relTarget
  rcases hcase with ⟨h1, rfl⟩ | ⟨h1, h2⟩
  · simp only [h1, if_true]; omega
  · have : ¬ b < 128 := by omega
    simp only [this, if_false]; omega

/-! ### index offsets -/

theorem sliceToLast_wrap (pre body : Txt) (x : Nat) :
    sliceToLast pre.length (pre ++ body ++ [x]) = body := by
  unfold sliceToLast
  have h1 : (pre ++ body ++ [x]).length - 1 = (pre ++ body).length := by simp
  rw [h1, List.take_left' rfl, List.drop_left' rfl]

/-- `_parse_offset('(IX' + index_offset(i) + ')') = i` for every displacement
byte, base and configuration (`reg` = `X` or `Y`). -/
theorem parseOffset_indexOffset (cfg : Cfg) (reg : Nat) (hreg : reg = 88 ∨ reg = 89) (i : Nat) (hi : i < 256)
    (base : Base) : parseOffset ([40, 73, reg] ++ indexOffset cfg i base ++ [41]) = .ok i := by
  have hpb : ∀ v, v < 256 → parseByte (formatByte cfg v base) = .ok v := by
    intro v hv
    have := parseExpr_numStr cfg 1 (Or.inl rfl) v (by simpa using hv) base
    simpa [parseByte, formatByte] using this
  have hend : ∀ s fb, endsWith 41 ([40, 73, reg] ++ (s :: fb) ++ [41]) = true := by
    intro s fb; rw [endsWith, List.getLast?_append]; simp
  have hslice : ∀ s fb, sliceToLast 4 ([40, 73, reg] ++ (s :: fb) ++ [41]) = fb := by
    intro s fb
    have := sliceToLast_wrap [40, 73, reg, s] fb 41
    simpa using this
  unfold indexOffset
  by_cases h : i < 128
  · simp only [h, if_true]
    rw [parseOffset, hend, hslice, hpb i hi]
    rcases hreg with rfl | rfl <;> simp [startsWith, List.isPrefixOf, R.bind]
  · simp only [h, if_false]
    rw [parseOffset, hend, hslice, hpb (256 - i) (by omega)]
    rcases hreg with rfl | rfl <;> simp [startsWith, List.isPrefixOf, R.bind] <;> omega

/-! ### assembled operand values are in range -/

theorem R.bind_eq_ok {α β : Type} (r : R α) (f : α → R β) (v : β) (h : r.bind f = .ok v) :
    ∃ x, r = .ok x ∧ f x = .ok v := by
  cases r with
  | ok x => exact ⟨x, rfl, h⟩
  | valErr => cases h
  | otherErr => cases h
  | unsupported => cases h

theorem parseExpr_lt (t : Txt) (limit : Nat) (hl : 0 < limit) (br nn : Bool) (v : Nat)
    (h : parseExpr t limit br nn = .ok v) : v < limit := by
  unfold parseExpr at h
  dsimp only at h
  split at h
  · obtain ⟨x, _, hf⟩ := R.bind_eq_ok _ _ _ h
    split at hf
    · cases hf
    · cases hf
      have h1 := Int.emod_lt_of_pos x (by exact_mod_cast hl : (0 : Int) < (limit : Int))
      have h2 := Int.emod_nonneg x (by omega : (limit : Int) ≠ 0)
      omega
  · cases h

/-- `_parse_offset` only ever returns a byte value (this is what failed for
`(IX-0)` before the `% 256` fix). -/
theorem parseOffset_lt (op : Txt) (v : Nat) (h : parseOffset op = .ok v) : v < 256 := by
  unfold parseOffset at h
  split at h
  · obtain ⟨o, hp, hf⟩ := R.bind_eq_ok _ _ _ h
    have ho := parseExpr_lt _ 256 (by omega) _ _ o hp
    split at hf
    · cases hf; omega
    · cases hf; exact ho
  · cases h

theorem addressOffsetV_lt (a t b : Nat) (h : addressOffsetV a t = .ok b) : b < 256 := by
  unfold addressOffsetV at h
  dsimp only at h
  generalize (if (t : Int) - a ≥ 65410 then (t : Int) - a - 65536
      else if (t : Int) - a ≤ -65407 then (t : Int) - a + 65536 else (t : Int) - a) = o at h
  split at h
  · cases h; omega
  · cases h

/-- Signed reading of the rendered index offset: `+N` shows `d` for `d < 128`,
`-N` shows `256 − d`, i.e. the text denotes the Z80's signed displacement. -/
theorem indexOffset_signed (i : Nat) (hi : i < 256) :
    (if i < 128 then (i : Int) else -((256 - i : Nat) : Int)) = signedByte i := by
  unfold signedByte
  split <;> omega

end C02L
