import SkoolVerif.Model.TapeFiles
/-!
Lemmas for the PZX round trip: what `_get_pzx_block` reads back from the byte groups
that `write_pzx` emits.
-/
namespace TapeFiles
open Edges

def pausBlock : PzxBlock := ⟨.paus, some { pause := 3500000, polarity := some 0 }, none, false, none⟩

def romPulsBlock (b0 : Nat) : PzxBlock :=
  ⟨.puls, some { pulses := [(if b0 ≠ 0 then 3223 else 8063, 2168), (1, 667), (1, 735)], polarity := some 0 },
   none, false, none⟩

def romDataBlock (d : List Nat) : PzxBlock :=
  ⟨.data, some { zero := [855, 855], one := [1710, 1710], usedBits := 8, tail := 945, polarity := some 1 },
   some d, true, none⟩

def headerBlock : PzxBlock := ⟨.pzxt, none, none, false, none⟩

theorem get_paus (R : List Nat) (rp : Bool) :
    getPzxBlock (pausBytes ++ R) rp = .ok (R, pausBlock, false) := rfl

theorem get_header (R : List Nat) :
    getPzxBlock (pzxHeader ++ R) false = .ok (R, headerBlock, false) := by
  cases R <;> rfl

theorem get_pulsData (R : List Nat) (rp : Bool) :
    getPzxBlock (pulsData ++ R) rp = .ok (R, romPulsBlock 1, true) := rfl

theorem get_pulsHeader (R : List Nat) (rp : Bool) :
    getPzxBlock (pulsHeader ++ R) rp = .ok (R, romPulsBlock 0, true) := rfl

theorem dataBlock_rom (d R : List Nat) (c0 c1 c2 c3 : Nat) (hn : d.length < 2 ^ 28)
    (hc : c0 + 256 * c1 + 65536 * c2 + 16777216 * c3 = 0x80000000 + d.length * 8) :
    dataBlock (c0 :: c1 :: c2 :: c3 :: 177 :: 3 :: 2 :: 2 :: 87 :: 3 :: 87 :: 3 :: 174 :: 6 :: 174 :: 6 :: (d ++ R)) true
      = .ok (romDataBlock d) := by
  have hcount : dword? (c0 :: c1 :: c2 :: c3 :: 177 :: 3 :: 2 :: 2 :: 87 :: 3 :: 87 :: 3 :: 174 :: 6 :: 174 :: 6 :: (d ++ R)) 0
      = .ok (0x80000000 + d.length * 8) := by
    rw [← hc]; rfl
  have h1 : (0x80000000 + d.length * 8) % 0x80000000 = d.length * 8 := by omega
  have h2 : (0x80000000 + d.length * 8) / 0x80000000 = 1 := by omega
  have h3 : d.length * 8 / 8 = d.length := by omega
  have h4 : d.length * 8 % 8 = 0 := by omega
  have hw : word? (c0 :: c1 :: c2 :: c3 :: 177 :: 3 :: 2 :: 2 :: 87 :: 3 :: 87 :: 3 :: 174 :: 6 :: 174 :: 6 :: (d ++ R)) 4 = .ok 945 := rfl
  have hs0 : words? (c0 :: c1 :: c2 :: c3 :: 177 :: 3 :: 2 :: 2 :: 87 :: 3 :: 87 :: 3 :: 174 :: 6 :: 174 :: 6 :: (d ++ R)) 8 2 = .ok [855, 855] := rfl
  have hs1 : words? (c0 :: c1 :: c2 :: c3 :: 177 :: 3 :: 2 :: 2 :: 87 :: 3 :: 87 :: 3 :: 174 :: 6 :: 174 :: 6 :: (d ++ R)) (8 + 2 * 2) 2 = .ok [1710, 1710] := rfl
  unfold dataBlock
  rw [hcount]
  simp only [h1, h2, h3, h4, hw]
  have h6 : (c0 :: c1 :: c2 :: c3 :: 177 :: 3 :: 2 :: 2 :: 87 :: 3 :: 87 :: 3 :: 174 :: 6 :: 174 :: 6 :: (d ++ R))[6]? = some 2 := rfl
  have h7 : (c0 :: c1 :: c2 :: c3 :: 177 :: 3 :: 2 :: 2 :: 87 :: 3 :: 87 :: 3 :: 174 :: 6 :: 174 :: 6 :: (d ++ R))[7]? = some 2 := rfl
  rw [h6, h7]
  simp only [hs0, hs1]
  have hdrop : List.drop (8 + 2 * 2 + 2 * 2) (c0 :: c1 :: c2 :: c3 :: 177 :: 3 :: 2 :: 2 :: 87 :: 3 :: 87 :: 3 :: 174 :: 6 :: 174 :: 6 :: (d ++ R)) = d ++ R := rfl
  rw [hdrop]
  simp [romDataBlock]

theorem asDword_sum (n : Nat) (h : n < 2 ^ 32) :
    n % 256 + 256 * ((n / 256) % 256) + 65536 * ((n / 65536) % 256) + 16777216 * ((n / 16777216) % 256) = n := by
  omega

/-- The `DATA` group written by `write_pzx` for block `d`. -/
def dataBytes (d : List Nat) : List Nat :=
  [68, 65, 84, 65] ++ asDword (d.length + 16) ++ asDword (0x80000000 + d.length * 8) ++
    [177, 3, 2, 2, 87, 3, 87, 3, 174, 6, 174, 6] ++ d

theorem get_data (d R : List Nat) (hn : d.length < 2 ^ 28) :
    getPzxBlock (dataBytes d ++ R) true = .ok (R, romDataBlock d, false) := by
  have hl := asDword_sum (d.length + 16) (by omega)
  have hc := asDword_sum (0x80000000 + d.length * 8) (by omega)
  unfold dataBytes asDword
  generalize (d.length + 16) % 256 = a0 at hl
  generalize (d.length + 16) / 256 % 256 = a1 at hl
  generalize (d.length + 16) / 65536 % 256 = a2 at hl
  generalize (d.length + 16) / 16777216 % 256 = a3 at hl
  generalize (0x80000000 + d.length * 8) % 256 = c0 at hc
  generalize (0x80000000 + d.length * 8) / 256 % 256 = c1 at hc
  generalize (0x80000000 + d.length * 8) / 65536 % 256 = c2 at hc
  generalize (0x80000000 + d.length * 8) / 16777216 % 256 = c3 at hc
  have hlen : dword? ([68, 65, 84, 65] ++ [a0, a1, a2, a3] ++ [c0, c1, c2, c3] ++
      [177, 3, 2, 2, 87, 3, 87, 3, 174, 6, 174, 6] ++ d ++ R) 4 = .ok (d.length + 16) := by
    rw [← hl]; rfl
  have hkind : kindOf (([68, 65, 84, 65] ++ [a0, a1, a2, a3] ++ [c0, c1, c2, c3] ++
      [177, 3, 2, 2, 87, 3, 87, 3, 174, 6, 174, 6] ++ d ++ R).take 4) = .data := rfl
  have hbody : ([68, 65, 84, 65] ++ [a0, a1, a2, a3] ++ [c0, c1, c2, c3] ++
      [177, 3, 2, 2, 87, 3, 87, 3, 174, 6, 174, 6] ++ d ++ R).drop 8 =
      c0 :: c1 :: c2 :: c3 :: 177 :: 3 :: 2 :: 2 :: 87 :: 3 :: 87 :: 3 :: 174 :: 6 :: 174 :: 6 :: (d ++ R) := by
    simp
  have hnext : ([68, 65, 84, 65] ++ [a0, a1, a2, a3] ++ [c0, c1, c2, c3] ++
      [177, 3, 2, 2, 87, 3, 87, 3, 174, 6, 174, 6] ++ d ++ R).drop (8 + (d.length + 16)) = R := by
    apply List.drop_left'
    simp; omega
  unfold getPzxBlock
  rw [hlen]
  simp only [hkind, hbody, hnext, dataBlock_rom d R c0 c1 c2 c3 hn hc]

/-- Blocks that `write_pzx` accepts (and whose bit count fits the 31-bit field). -/
def ValidPzx (bs : List (List Nat)) : Prop :=
  ∀ d ∈ bs, d ≠ [] ∧ d.length < 2 ^ 28 ∧ ∀ x ∈ d, x < 256

/-- The bytes of block `i` as a pure function. -/
def blockBytes (i : Nat) (d : List Nat) : List Nat :=
  (if i ≠ 0 then pausBytes else []) ++ (if d.headD 0 ≠ 0 then pulsData else pulsHeader) ++ dataBytes d

def tailBytes : Nat → List (List Nat) → List Nat
  | _, [] => []
  | i, d :: rest => blockBytes i d ++ tailBytes (i + 1) rest

theorem pzxBlockBytes_ok (i : Nat) (d : List Nat) (hne : d ≠ []) (hb : ∀ x ∈ d, x < 256) :
    pzxBlockBytes i d = .ok (blockBytes i d) := by
  cases d with
  | nil => exact absurd rfl hne
  | cons b0 r =>
    have h2 : (b0 :: r).any (· ≥ 256) = false := by
      rw [List.any_eq_false]
      intro x hx
      have := hb x hx
      simp; omega
    simp only [pzxBlockBytes, h2, blockBytes, dataBytes, List.headD_cons]
    by_cases hb0 : b0 = 0 <;> simp [hb0]

theorem pzxBlocksFrom_ok (i : Nat) (bs : List (List Nat)) (h : ValidPzx bs) :
    pzxBlocksFrom i bs = .ok (tailBytes i bs) := by
  induction bs generalizing i with
  | nil => rfl
  | cons d rest ih =>
    have hd := h d (by simp)
    simp only [pzxBlocksFrom, pzxBlockBytes_ok i d hd.1 hd.2.2,
      ih (i + 1) (fun x hx => h x (List.mem_cons_of_mem _ hx)), tailBytes]

theorem writePzx_ok (bs : List (List Nat)) (h : ValidPzx bs) :
    writePzx bs = .ok (pzxHeader ++ tailBytes 0 bs) := by
  simp only [writePzx, pzxBlocksFrom_ok 0 bs h]

/-- What `parse_pzx` is expected to return for the blocks written from index `i` on,
numbered from `bn`. -/
def expected : Nat → Nat → List (List Nat) → List (Nat × PzxBlock)
  | _, _, [] => []
  | i, bn, d :: rest =>
    if i ≠ 0 then
      (bn, pausBlock) :: (bn + 1, romPulsBlock (d.headD 0)) :: (bn + 2, romDataBlock d) ::
        expected (i + 1) (bn + 3) rest
    else
      (bn, romPulsBlock (d.headD 0)) :: (bn + 1, romDataBlock d) :: expected (i + 1) (bn + 2) rest

theorem get_puls (b0 : Nat) (R : List Nat) (rp : Bool) :
    getPzxBlock ((if b0 ≠ 0 then pulsData else pulsHeader) ++ R) rp = .ok (R, romPulsBlock b0, true) := by
  by_cases h : b0 = 0
  · subst h; exact get_pulsHeader R rp
  · simp only [ne_eq, h, not_false_eq_true, ↓reduceIte]
    rw [get_pulsData]
    simp [romPulsBlock, h]

theorem pzxLoop_step {rest next : List Nat} {rp rp' : Bool} {blk : PzxBlock}
    (hg : getPzxBlock rest rp = .ok (next, blk, rp')) (hne : rest ≠ [])
    (fuel bn : Nat) (acc : List (Nat × PzxBlock)) (hbn : 1 ≤ bn) :
    pzxLoop 1 0 [] (fuel + 1) rest bn rp acc = pzxLoop 1 0 [] fuel next (bn + 1) rp' (acc ++ [(bn, blk)]) := by
  have h1 : ((bn : Int) ≥ 1 ∧ bn ∉ ([] : List Nat)) := ⟨by omega, by simp⟩
  simp only [pzxLoop, hne, hg, h1]
  simp

theorem pzxLoop_written (bs : List (List Nat)) (h : ValidPzx bs) (i fuel bn : Nat)
    (acc : List (Nat × PzxBlock)) (rp : Bool) (hf : 3 * bs.length ≤ fuel) (hbn : 1 ≤ bn) :
    pzxLoop 1 0 [] fuel (tailBytes i bs) bn rp acc = .ok (acc ++ expected i bn bs) := by
  induction bs generalizing i fuel bn acc rp with
  | nil => cases fuel <;> simp [pzxLoop, tailBytes, expected]
  | cons d rest ih =>
    have hd := h d (by simp)
    have hrest : ValidPzx rest := fun x hx => h x (List.mem_cons_of_mem _ hx)
    obtain ⟨f, rfl⟩ : ∃ f, fuel = f + 3 := ⟨fuel - 3, by simp at hf; omega⟩
    have hdne : ∀ X : List Nat, dataBytes d ++ X ≠ [] := by intro X; simp [dataBytes]
    have hpne : ∀ X : List Nat, (if d.headD 0 ≠ 0 then pulsData else pulsHeader) ++ X ≠ [] := by
      intro X; split <;> simp [pulsData, pulsHeader]
    simp only [tailBytes, blockBytes, expected]
    by_cases hi : i = 0
    · simp only [hi, ne_eq, not_true_eq_false, ↓reduceIte, List.nil_append, List.append_assoc]
      rw [pzxLoop_step (get_puls _ _ rp) (hpne _) _ _ _ hbn,
        pzxLoop_step (get_data d _ hd.2.1) (hdne _) _ _ _ (by omega),
        ih hrest _ _ _ _ _ (by simp at hf; omega) (by omega)]
      simp
    · simp only [hi, ne_eq, not_false_eq_true, ↓reduceIte, List.append_assoc]
      rw [pzxLoop_step (get_paus _ rp) (by simp [pausBytes]) _ _ _ hbn,
        pzxLoop_step (get_puls _ _ false) (hpne _) _ _ _ (by omega),
        pzxLoop_step (get_data d _ hd.2.1) (hdne _) _ _ _ (by omega),
        ih hrest _ _ _ _ _ (by simp at hf; omega) (by omega)]
      simp

theorem tailBytes_length (i : Nat) (bs : List (List Nat)) : 3 * bs.length ≤ (tailBytes i bs).length := by
  induction bs generalizing i with
  | nil => simp
  | cons d rest ih =>
    have := ih (i + 1)
    simp only [tailBytes, blockBytes, dataBytes, List.length_append, List.length_cons]
    simp; omega

/-- The blocks `tap2sna`/`tapinfo` pass on to `get_edges` for a PZX file: those with timings. -/
def pzxEdgeBlocks (blocks : List (Nat × PzxBlock)) : List Block :=
  blocks.filterMap fun nb => match nb.2.timings with
    | some t => some { timings := t, data := nb.2.tapeData.getD [], keys := none }
    | none => none

end TapeFiles
