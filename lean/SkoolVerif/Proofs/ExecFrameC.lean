import SkoolVerif.Gen.CLoops.exec_frame
import SkoolVerif.Gen.CCmioLoops.exec_frame
import SkoolVerif.Proofs.RunLoopC
import SkoolVerif.Model.RzxPlay
/-!
`CSimulator_exec_frame` (c/csimulator.c, translated by `translate/cloop2lean.py`: `Gen/CLoops/exec_frame.lean`,
`Gen/CCmioLoops/exec_frame.lean`) against the hand model `Rzx.cFrame` / `Rzx.fetchDecC` of C20: the inline fetch of the frame loop (its own
`switch` with `r_inc`, not the macro `GET_OPCODE_FUNC`) selects the row `CSimH.leafOf` selects, the handler runs, the fetch counter drops by
`Rzx.fetchDecC`, and the loop is left when it is no longer positive.
-/
open Z80

namespace RunLoop
variable {μ : Type} [MemLike μ] [CellMem μ]

/-! ### plain build -/

theorem i32_u32_sub (a b : Int) (h : -2147483648 ≤ a - b ∧ a - b < 2147483648) : CInt.i32 (CInt.u32 (CInt.u32 a - b)) = a - b := by
  unfold CInt.i32 CInt.u32; omega

/-- the four prefix rows of the main table are the NULL rows -/
theorem main_null_203 : CSimH.isNull (CSimH.tget CSim.tbl_MAIN 203) = true := by decide +kernel
theorem main_null_237 : CSimH.isNull (CSimH.tget CSim.tbl_MAIN 237) = true := by decide +kernel
theorem main_null_221 : CSimH.isNull (CSimH.tget CSim.tbl_MAIN 221) = true := by decide +kernel
theorem main_null_253 : CSimH.isNull (CSimH.tget CSim.tbl_MAIN 253) = true := by decide +kernel

/-- the callbacks of one pass of `CSimulator_exec_frame` -/
def frameLog (em tr : PyObj) (pc t0 fc' : Int) (log : List (List Int)) : List (List Int) :=
  let log1 := if em ≠ PyObj.none then [2, pc] :: log else log
  if tr ≠ PyObj.none then [1, CInt.u32 fc', pc, t0] :: log1 else log1

/-- what one instruction takes off the fetch counter in C -/
def cDec (cfg : Cfg) (s : St μ) : Int :=
  Rzx.fetchDecC (mget s.mem s.pc) (mget s.mem ((s.pc + 1) % 65536)) (rget s.reg 15) (rget (CSimH.step cfg s).reg 15)

syntax "frame_case" "[" term,* "]" : tactic
macro_rules
  | `(tactic| frame_case [$hs,*]) => `(tactic|
    (simp (maxSteps := 4000000) only [cloop_def, Id.run, pure, CInt.land_65535, CInt.u32_mod_65536, $[$hs:term],*, if_true, if_false, ne_eq, not_true_eq_false]
     grind))

theorem c_frame_body (cfg : Cfg) (em tr : PyObj) (s : St μ) (l : CSimH.Loop.Exec_frameLocals) (h : RInv s)
    (hs' : RInv (CSimH.step cfg s))
    (hfc : -2147483648 ≤ l.fetch_count - 2 ∧ l.fetch_count < 2147483648) :
    CSimH.Loop.exec_frame_loop1_body cfg em tr s l =
      ((CSimH.step cfg s, ⟨l.fetch_count - cDec cfg s, s.pc, frameLog em tr s.pc s.t (l.fetch_count - cDec cfg s) l.cblog⟩),
        if l.fetch_count - cDec cfg s ≤ 0 then .break_ else .continue_) := by
  have hpc := h.pc
  unfold Word at hpc
  have e1 : CInt.u32 s.pc = s.pc := CInt.u32_of_range _ hpc.1 (by omega)
  have hR := h.regs.byte 15 (by omega) (by omega) (by omega)
  have hR' := hs'.regs.byte 15 (by omega) (by omega) (by omega)
  unfold Byte at hR hR'
  have e2 : CInt.u32 (rget s.reg 15) = rget s.reg 15 := CInt.u32_of_range _ hR.1 (by omega)
  have e3 : CInt.u32 (rget (CSimH.step cfg s).reg 15) = rget (CSimH.step cfg s).reg 15 := CInt.u32_of_range _ hR'.1 (by omega)
  have hx := land_bounds (PyInt.xor (rget (CSimH.step cfg s).reg 15) (rget s.reg 15)) 1 (by omega)
  have d1 := i32_u32_sub l.fetch_count 1 (by omega)
  have d2 := i32_u32_sub l.fetch_count 2 (by omega)
  have d3 : CInt.u32 (2 - PyInt.land (PyInt.xor (rget (CSimH.step cfg s).reg 15) (rget s.reg 15)) 1) =
      2 - PyInt.land (PyInt.xor (rget (CSimH.step cfg s).reg 15) (rget s.reg 15)) 1 := CInt.u32_of_range _ (by omega) (by omega)
  have d4 := i32_u32_sub l.fetch_count (2 - PyInt.land (PyInt.xor (rget (CSimH.step cfg s).reg 15) (rget s.reg 15)) 1) (by omega)
  unfold cDec frameLog Rzx.fetchDecC
  unfold CSimH.step CSimH.leafOf at e3 d3 d4 hx ⊢
  by_cases h1 : CSimH.isNull (CSimH.tget CSim.tbl_MAIN (mget s.mem s.pc)) = true
  · by_cases h2 : mget s.mem s.pc = 203
    · frame_case [e1, e2, d2, eq_true h1, eq_true h2]
    · by_cases h3 : mget s.mem s.pc = 237
      · frame_case [e1, e2, d2, eq_true h1, eq_false h2, eq_true h3]
      · by_cases h4 : mget s.mem s.pc = 221
        · frame_case [e1, e2, e3, d2, d3, d4, eq_true h1, eq_false h2, eq_false h3, eq_true h4]
        · by_cases h5 : mget s.mem s.pc = 253
          · frame_case [e1, e2, e3, d2, d3, d4, eq_true h1, eq_false h2, eq_false h3, eq_false h4, eq_true h5]
          · frame_case [e1, e2, d1, eq_true h1, eq_false h2, eq_false h3, eq_false h4, eq_false h5]
  · have n1 : mget s.mem s.pc ≠ 203 := fun e => by rw [e, main_null_203] at h1; exact h1 rfl
    have n2 : mget s.mem s.pc ≠ 237 := fun e => by rw [e, main_null_237] at h1; exact h1 rfl
    have n3 : mget s.mem s.pc ≠ 221 := fun e => by rw [e, main_null_221] at h1; exact h1 rfl
    have n4 : mget s.mem s.pc ≠ 253 := fun e => by rw [e, main_null_253] at h1; exact h1 rfl
    frame_case [e1, e2, d1, eq_false h1, eq_false n1, eq_false n2, eq_false n3, eq_false n4]

omit [CellMem μ] in
theorem fetchDecC_range (o o2 r0 r1 : Int) : 1 ≤ Rzx.fetchDecC o o2 r0 r1 ∧ Rzx.fetchDecC o o2 r0 r1 ≤ 2 := by
  unfold Rzx.fetchDecC
  have := land_bounds (PyInt.xor r1 r0) 1 (by omega)
  split
  · omega
  · split
    · split <;> omega
    · omega

/-- the translated frame loop against the hand model `Rzx.cFrame` (C20) over the Python step: whenever the model's frame ends
without a "port readings exhausted" error, the translated C loop ends in the same state and reports the same last PC -/
theorem c_frame_loop (cfg : Cfg) (hcfg : CSimH.CfgRep cfg) (hout : CSimH.OutOkAll μ cfg) (em tr : PyObj) (fuel : Nat) (s : St μ)
    (l : CSimH.Loop.Exec_frameLocals) (h : RInv s) (hfc : 0 < l.fetch_count ∧ l.fetch_count < 2147483648) (hfu : l.fetch_count ≤ fuel)
    (ht : s.t + fuel * Tshift.maxDur < 9223372036854775808) (r : St μ × Int)
    (hok : Rzx.cFrame (fun s => Sim.step cfg s) fuel l.fetch_count s = .ok r) :
    ∃ l', CSimH.Loop.exec_frame_loop1 cfg em tr fuel s l = ((r.1, l'), .break_) ∧ l'.pc = r.2 := by
  unfold CSimH.Loop.exec_frame_loop1
  induction fuel generalizing s l with
  | zero => omega
  | succ n ih =>
    have hm : (0 : Int) ≤ (n : Int) * Tshift.maxDur := Int.mul_nonneg (Int.natCast_nonneg n) (by decide)
    rw [nat_succ_mul] at ht
    have hmd : Tshift.maxDur = 23 := rfl
    have hstep := CSimH.step_eq_py cfg s h (hcfg.crep s (by omega)) (hout.at s)
    have h1 := Sim.rinv_step cfg s h
    have hd := Sim.dur_step cfg s
    have hb := c_frame_body cfg em tr s l h (by rw [hstep]; exact h1) (by omega)
    unfold cDec at hb
    rw [hstep] at hb
    have hdec := fetchDecC_range (mget s.mem s.pc) (mget s.mem ((s.pc + 1) % 65536)) (rget s.reg 15) (rget (Sim.step cfg s).reg 15)
    simp only [Rzx.cFrame, Rzx.cIter] at hok
    generalize Rzx.fetchDecC (mget s.mem s.pc) (mget s.mem ((s.pc + 1) % 65536)) (rget s.reg 15) (rget (Sim.step cfg s).reg 15) = D at hb hok hdec
    by_cases hex : (Sim.step cfg s).inLog.length > s.inLog.length ∧ s.ins = []
    · rw [if_pos hex] at hok; exact nomatch hok
    · rw [if_neg hex] at hok
      simp only [Rzx.andThen] at hok
      by_cases hle : l.fetch_count - D ≤ 0
      · rw [if_pos hle] at hok hb
        obtain rfl : (Sim.step cfg s, s.pc) = r := Except.ok.inj hok
        refine ⟨⟨l.fetch_count - D, s.pc, frameLog em tr s.pc s.t (l.fetch_count - D) l.cblog⟩, ?_, rfl⟩
        rw [iterate_exit _ n (s, l) (by simp only [hb]; exact fun e => nomatch e), hb]
      · rw [if_neg hle] at hok hb
        have hn1 : ((n + 1 : Nat) : Int) = n + 1 := by omega
        obtain ⟨l', ih1, ih2⟩ := ih (Sim.step cfg s) ⟨l.fetch_count - D, s.pc, frameLog em tr s.pc s.t (l.fetch_count - D) l.cblog⟩ h1
          ⟨by show 0 < l.fetch_count - D; omega, by show l.fetch_count - D < 2147483648; omega⟩
          (by show l.fetch_count - D ≤ (n : Int); omega) (by omega) hok
        refine ⟨l', ?_, ih2⟩
        rw [iterate_continue _ n (s, l) (by simp only [hb])]
        simp only [hb]
        exact ih1

/-- the argument parsing (`"i|OO"`) and the exit of `CSimulator_exec_frame` -/
theorem c_frame_unfold (cfg : Cfg) (fuel : Nat) (fc : Int) (em tr : PyObj) (log0 : List (List Int)) (s : St μ) :
    CSimH.Loop.exec_frame cfg fuel fc em tr log0 s =
      (((CSimH.Loop.exec_frame_loop1 cfg em tr fuel s ⟨CInt.i32 fc, 0, log0⟩).1.1,
        match (CSimH.Loop.exec_frame_loop1 cfg em tr fuel s ⟨CInt.i32 fc, 0, log0⟩).2 with
        | .break_ => (CSimH.Loop.exec_frame_loop1 cfg em tr fuel s ⟨CInt.i32 fc, 0, log0⟩).1.2.pc
        | .return_ v => v
        | .continue_ => 0),
       match (CSimH.Loop.exec_frame_loop1 cfg em tr fuel s ⟨CInt.i32 fc, 0, log0⟩).2 with
        | .continue_ => false
        | _ => true) := by
  simp only [CSimH.Loop.exec_frame, Id.run, pure]
  split <;> simp_all

/-- **`CSimulator_exec_frame`, translated, is the hand model `Rzx.cFrame`** (C20) over the Python step: for a positive fetch counter
below 2^31, from any in-range state, whenever the model's frame ends without the "port readings exhausted" error the translated
function returns the same state and the same PC of the last instruction -/
theorem c_exec_frame (cfg : Cfg) (hcfg : CSimH.CfgRep cfg) (hout : CSimH.OutOkAll μ cfg) (fc : Int) (em tr : PyObj) (log0 : List (List Int))
    (s : St μ) (h : RInv s) (hfc : 0 < fc ∧ fc < 2147483648) (ht : s.t + fc.toNat * Tshift.maxDur < 9223372036854775808)
    (r : St μ × Int) (hok : Rzx.cFrame (fun s => Sim.step cfg s) fc.toNat fc s = .ok r) :
    CSimH.Loop.exec_frame cfg fc.toNat fc em tr log0 s = ((r.1, r.2), true) := by
  rw [c_frame_unfold]
  have e : CInt.i32 fc = fc := CInt.i32_of_range _ (by omega) hfc.2
  rw [e]
  obtain ⟨l', h1, h2⟩ := c_frame_loop cfg hcfg hout em tr fc.toNat s ⟨fc, 0, log0⟩ h hfc (by show fc ≤ _; omega) ht r hok
  rw [h1]
  simp only [h2]

/-! ### `-DCONTENTION` build -/

section contended
variable [PageStable μ]

/-- what one instruction takes off the fetch counter in C -/
def cDecCmio (cfg : Cfg) (s : St μ) : Int :=
  Rzx.fetchDecC (mget s.mem s.pc) (mget s.mem ((s.pc + 1) % 65536)) (rget s.reg 15) (rget (CCmioH.step cfg s).reg 15)

theorem c_cmio_frame_body (cfg : Cfg) (em tr : PyObj) (s : St μ) (l : CCmioH.Loop.Exec_frameLocals) (h : RInv s)
    (hs' : RInv (CCmioH.step cfg s))
    (hfc : -2147483648 ≤ l.fetch_count - 2 ∧ l.fetch_count < 2147483648) :
    CCmioH.Loop.exec_frame_loop1_body cfg em tr s l =
      ((CCmioH.step cfg s, ⟨l.fetch_count - cDecCmio cfg s, s.pc, frameLog em tr s.pc s.t (l.fetch_count - cDecCmio cfg s) l.cblog⟩),
        if l.fetch_count - cDecCmio cfg s ≤ 0 then .break_ else .continue_) := by
  have hpc := h.pc
  unfold Word at hpc
  have e1 : CInt.u32 s.pc = s.pc := CInt.u32_of_range _ hpc.1 (by omega)
  have hR := h.regs.byte 15 (by omega) (by omega) (by omega)
  have hR' := hs'.regs.byte 15 (by omega) (by omega) (by omega)
  unfold Byte at hR hR'
  have e2 : CInt.u32 (rget s.reg 15) = rget s.reg 15 := CInt.u32_of_range _ hR.1 (by omega)
  have e3 : CInt.u32 (rget (CCmioH.step cfg s).reg 15) = rget (CCmioH.step cfg s).reg 15 := CInt.u32_of_range _ hR'.1 (by omega)
  have hx := land_bounds (PyInt.xor (rget (CCmioH.step cfg s).reg 15) (rget s.reg 15)) 1 (by omega)
  have d1 := i32_u32_sub l.fetch_count 1 (by omega)
  have d2 := i32_u32_sub l.fetch_count 2 (by omega)
  have d3 : CInt.u32 (2 - PyInt.land (PyInt.xor (rget (CCmioH.step cfg s).reg 15) (rget s.reg 15)) 1) =
      2 - PyInt.land (PyInt.xor (rget (CCmioH.step cfg s).reg 15) (rget s.reg 15)) 1 := CInt.u32_of_range _ (by omega) (by omega)
  have d4 := i32_u32_sub l.fetch_count (2 - PyInt.land (PyInt.xor (rget (CCmioH.step cfg s).reg 15) (rget s.reg 15)) 1) (by omega)
  unfold cDecCmio frameLog Rzx.fetchDecC
  unfold CCmioH.step CSimH.leafOf at e3 d3 d4 hx ⊢
  by_cases h1 : CSimH.isNull (CSimH.tget CSim.tbl_MAIN (mget s.mem s.pc)) = true
  · by_cases h2 : mget s.mem s.pc = 203
    · frame_case [e1, e2, d2, eq_true h1, eq_true h2]
    · by_cases h3 : mget s.mem s.pc = 237
      · frame_case [e1, e2, d2, eq_true h1, eq_false h2, eq_true h3]
      · by_cases h4 : mget s.mem s.pc = 221
        · frame_case [e1, e2, e3, d2, d3, d4, eq_true h1, eq_false h2, eq_false h3, eq_true h4]
        · by_cases h5 : mget s.mem s.pc = 253
          · frame_case [e1, e2, e3, d2, d3, d4, eq_true h1, eq_false h2, eq_false h3, eq_false h4, eq_true h5]
          · frame_case [e1, e2, d1, eq_true h1, eq_false h2, eq_false h3, eq_false h4, eq_false h5]
  · have n1 : mget s.mem s.pc ≠ 203 := fun e => by rw [e, main_null_203] at h1; exact h1 rfl
    have n2 : mget s.mem s.pc ≠ 237 := fun e => by rw [e, main_null_237] at h1; exact h1 rfl
    have n3 : mget s.mem s.pc ≠ 221 := fun e => by rw [e, main_null_221] at h1; exact h1 rfl
    have n4 : mget s.mem s.pc ≠ 253 := fun e => by rw [e, main_null_253] at h1; exact h1 rfl
    frame_case [e1, e2, d1, eq_false h1, eq_false n1, eq_false n2, eq_false n3, eq_false n4]

/-- the translated frame loop against the hand model `Rzx.cFrame` (C20) over the Python step: whenever the model's frame ends
without a "port readings exhausted" error, the translated C loop ends in the same state and reports the same last PC -/
theorem c_cmio_frame_loop (cfg : Cfg) (hcfg : CSimH.CfgRep cfg) (hout : CSimH.OutOkAll μ cfg) (em tr : PyObj) (fuel : Nat) (s : St μ)
    (l : CCmioH.Loop.Exec_frameLocals) (h : RInv s) (hfc : 0 < l.fetch_count ∧ l.fetch_count < 2147483648) (hfu : l.fetch_count ≤ fuel)
    (ht : s.t + fuel * Tshift.maxDurCmio < 9223372036854775808) (r : St μ × Int)
    (hok : Rzx.cFrame (fun s => Cmio.step cfg s) fuel l.fetch_count s = .ok r) :
    ∃ l', CCmioH.Loop.exec_frame_loop1 cfg em tr fuel s l = ((r.1, l'), .break_) ∧ l'.pc = r.2 := by
  unfold CCmioH.Loop.exec_frame_loop1
  induction fuel generalizing s l with
  | zero => omega
  | succ n ih =>
    have hm : (0 : Int) ≤ (n : Int) * Tshift.maxDurCmio := Int.mul_nonneg (Int.natCast_nonneg n) (by decide)
    rw [nat_succ_mul] at ht
    have hmd : Tshift.maxDurCmio = 143 := rfl
    have hstep := CCmioH.step_eq_py cfg s h (hcfg.crep s (by omega)) (hout.at s)
    have h1 := Cmio.rinv_step cfg s h
    have hd := Cmio.dur_step cfg s
    have hb := c_cmio_frame_body cfg em tr s l h (by rw [hstep]; exact h1) (by omega)
    unfold cDecCmio at hb
    rw [hstep] at hb
    have hdec := fetchDecC_range (mget s.mem s.pc) (mget s.mem ((s.pc + 1) % 65536)) (rget s.reg 15) (rget (Cmio.step cfg s).reg 15)
    simp only [Rzx.cFrame, Rzx.cIter] at hok
    generalize Rzx.fetchDecC (mget s.mem s.pc) (mget s.mem ((s.pc + 1) % 65536)) (rget s.reg 15) (rget (Cmio.step cfg s).reg 15) = D at hb hok hdec
    by_cases hex : (Cmio.step cfg s).inLog.length > s.inLog.length ∧ s.ins = []
    · rw [if_pos hex] at hok; exact nomatch hok
    · rw [if_neg hex] at hok
      simp only [Rzx.andThen] at hok
      by_cases hle : l.fetch_count - D ≤ 0
      · rw [if_pos hle] at hok hb
        obtain rfl : (Cmio.step cfg s, s.pc) = r := Except.ok.inj hok
        refine ⟨⟨l.fetch_count - D, s.pc, frameLog em tr s.pc s.t (l.fetch_count - D) l.cblog⟩, ?_, rfl⟩
        rw [iterate_exit _ n (s, l) (by simp only [hb]; exact fun e => nomatch e), hb]
      · rw [if_neg hle] at hok hb
        have hn1 : ((n + 1 : Nat) : Int) = n + 1 := by omega
        obtain ⟨l', ih1, ih2⟩ := ih (Cmio.step cfg s) ⟨l.fetch_count - D, s.pc, frameLog em tr s.pc s.t (l.fetch_count - D) l.cblog⟩ h1
          ⟨by show 0 < l.fetch_count - D; omega, by show l.fetch_count - D < 2147483648; omega⟩
          (by show l.fetch_count - D ≤ (n : Int); omega) (by omega) hok
        refine ⟨l', ?_, ih2⟩
        rw [iterate_continue _ n (s, l) (by simp only [hb])]
        simp only [hb]
        exact ih1

/-- the argument parsing (`"i|OO"`) and the exit of `CSimulator_exec_frame` -/
theorem c_cmio_frame_unfold (cfg : Cfg) (fuel : Nat) (fc : Int) (em tr : PyObj) (log0 : List (List Int)) (s : St μ) :
    CCmioH.Loop.exec_frame cfg fuel fc em tr log0 s =
      (((CCmioH.Loop.exec_frame_loop1 cfg em tr fuel s ⟨CInt.i32 fc, 0, log0⟩).1.1,
        match (CCmioH.Loop.exec_frame_loop1 cfg em tr fuel s ⟨CInt.i32 fc, 0, log0⟩).2 with
        | .break_ => (CCmioH.Loop.exec_frame_loop1 cfg em tr fuel s ⟨CInt.i32 fc, 0, log0⟩).1.2.pc
        | .return_ v => v
        | .continue_ => 0),
       match (CCmioH.Loop.exec_frame_loop1 cfg em tr fuel s ⟨CInt.i32 fc, 0, log0⟩).2 with
        | .continue_ => false
        | _ => true) := by
  simp only [CCmioH.Loop.exec_frame, Id.run, pure]
  split <;> simp_all

/-- **`CSimulator_exec_frame` of the `-DCONTENTION` build, translated, is the hand model `Rzx.cFrame`** (C20) over the Python step: for a positive fetch counter
below 2^31, from any in-range state, whenever the model's frame ends without the "port readings exhausted" error the translated
function returns the same state and the same PC of the last instruction -/
theorem c_cmio_exec_frame (cfg : Cfg) (hcfg : CSimH.CfgRep cfg) (hout : CSimH.OutOkAll μ cfg) (fc : Int) (em tr : PyObj) (log0 : List (List Int))
    (s : St μ) (h : RInv s) (hfc : 0 < fc ∧ fc < 2147483648) (ht : s.t + fc.toNat * Tshift.maxDurCmio < 9223372036854775808)
    (r : St μ × Int) (hok : Rzx.cFrame (fun s => Cmio.step cfg s) fc.toNat fc s = .ok r) :
    CCmioH.Loop.exec_frame cfg fc.toNat fc em tr log0 s = ((r.1, r.2), true) := by
  rw [c_cmio_frame_unfold]
  have e : CInt.i32 fc = fc := CInt.i32_of_range _ (by omega) hfc.2
  rw [e]
  obtain ⟨l', h1, h2⟩ := c_cmio_frame_loop cfg hcfg hout em tr fc.toNat s ⟨fc, 0, log0⟩ h hfc (by show fc ≤ _; omega) ht r hok
  rw [h1]
  simp only [h2]

end contended

end RunLoop
