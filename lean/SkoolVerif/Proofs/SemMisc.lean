import SkoolVerif.Proofs.SemFlagLemmas
import SkoolVerif.Proofs.SemRot
import SkoolVerif.Proofs.AdjMem
/-!
Per-closure refinement, family 5: RLD, RRD, LD A,I / LD A,R (inline flag arithmetic), and
EX (SP),HL/IX/IY (needs the adjacent-cell memory law `AdjMem`).
-/
namespace C05
open Z80 Sim Spec Z80Isa Z80Spec TableRanges AluCheck
variable {μ : Type} [MemLike μ] [CellMem μ]

theorem rld_fst (a v : Int) (ha : Byte a) (hv : Byte v) :
    PyInt.land a 240 + v / 16 = (((Z80Spec.rld a.toNat v.toNat).1 : Nat) : Int) := by
  rw [(byte_masks a ha).2.2.2.2.2.1]; unfold Z80Spec.rld; unfold Byte at ha hv; simp only; omega

theorem rld_snd (a v : Int) (ha : Byte a) (hv : Byte v) :
    v * 16 % 256 + a % 16 = (((Z80Spec.rld a.toNat v.toNat).2 : Nat) : Int) := by
  unfold Z80Spec.rld; unfold Byte at ha hv; simp only; omega

theorem rrd_fst (a v : Int) (ha : Byte a) (hv : Byte v) :
    PyInt.land a 240 + v % 16 = (((Z80Spec.rrd a.toNat v.toNat).1 : Nat) : Int) := by
  rw [(byte_masks a ha).2.2.2.2.2.1]; unfold Z80Spec.rrd; unfold Byte at ha hv; simp only; omega

theorem rrd_snd (a v : Int) (ha : Byte a) (hv : Byte v) :
    a * 16 % 256 + v / 16 = (((Z80Spec.rrd a.toNat v.toNat).2 : Nat) : Int) := by
  unfold Z80Spec.rrd; unfold Byte at ha hv; simp only; omega

theorem rld_fst_byte (a v : Nat) (ha : a < 256) (hv : v < 256) : Byte (((Z80Spec.rld a v).1 : Nat) : Int) := by
  unfold Z80Spec.rld Byte; simp only; omega
theorem rrd_fst_byte (a v : Nat) (ha : a < 256) (hv : v < 256) : Byte (((Z80Spec.rrd a v).1 : Nat) : Int) := by
  unfold Z80Spec.rrd Byte; simp only; omega

theorem sem_rld (cfg : Cfg) (sz53p : TblI1) (d : Decoded)
    (hz : zinstrOf (.rld sz53p) = some d) (hwf : instrWf (.rld sz53p) = true) (s : St μ) (hi : RInv s) :
    Sim.rld cfg sz53p s = Spec.exec cfg d s := by
  simp only [instrWf, decide_eq_true_eq] at hwf
  subst hwf
  zinv hz
  subst hz
  rinv_setup hi
  have hA := hr.byte 0 (by omega) (by omega) (by omega)
  have hV := hmem.byte (rget s.reg 7 + 256 * rget s.reg 6)
  have hb := rld_fst_byte (rget s.reg 0).toNat (mget s.mem (rget s.reg 7 + 256 * rget s.reg 6)).toNat
    (by unfold Byte at hA; omega) (by unfold Byte at hV; omega)
  simp only [sim_handler, Id.run, pure, TblI1.get]
  rw [rld_fst _ _ hA hV, rld_snd _ _ hA hV]
  spec_simp []; idx_simp; rsimp hs; rw [hR2, sz53pC_spec _ _ hb]
  simp only [Int.toNat_natCast]
  split <;> st_regs hs

theorem sem_rrd (cfg : Cfg) (sz53p : TblI1) (d : Decoded)
    (hz : zinstrOf (.rrd sz53p) = some d) (hwf : instrWf (.rrd sz53p) = true) (s : St μ) (hi : RInv s) :
    Sim.rrd cfg sz53p s = Spec.exec cfg d s := by
  simp only [instrWf, decide_eq_true_eq] at hwf
  subst hwf
  zinv hz
  subst hz
  rinv_setup hi
  have hA := hr.byte 0 (by omega) (by omega) (by omega)
  have hV := hmem.byte (rget s.reg 7 + 256 * rget s.reg 6)
  have hb := rrd_fst_byte (rget s.reg 0).toNat (mget s.mem (rget s.reg 7 + 256 * rget s.reg 6)).toNat
    (by unfold Byte at hA; omega) (by unfold Byte at hV; omega)
  simp only [sim_handler, Id.run, pure, TblI1.get]
  rw [rrd_fst _ _ hA hV, rrd_snd _ _ hA hV]
  spec_simp []; idx_simp; rsimp hs; rw [hR2, sz53pC_spec _ _ hb]
  simp only [Int.toNat_natCast]
  split <;> st_regs hs

/-- flags of LD A,I / LD A,R as the closure computes them -/
theorem ldair_flags (a f k : Int) (ha : Byte a) (hf : Byte f) (pv : Bool) (hk : k = if pv then 4 else 0) :
    PyInt.land a 168 + PyInt.p2i (a = 0) * 64 + k + f % 2 = ((ldAIRFlags a.toNat f.toNat pv : Nat) : Int) := by
  obtain ⟨h168, -⟩ := byte_masks a ha
  obtain ⟨-, -, -, -, hm2, -⟩ := byte_masks f hf
  rw [h168, hm2, hk]
  have hz : (a.toNat == 0) = decide (a = 0) := by
    unfold Byte at ha
    by_cases h : a = 0
    · simp [h]
    · have : a.toNat ≠ 0 := by omega
      simp [h, this]
  simp only [ldAIRFlags, mkF_sum, hz, fl_false, PyInt.p2i]
  by_cases h : a = 0 <;> cases pv <;> simp [fl, h] <;> omega

theorem ldair_flags0 (a f : Int) (ha : Byte a) (hf : Byte f) :
    PyInt.land a 168 + PyInt.p2i (a = 0) * 64 + f % 2 = ((ldAIRFlags a.toNat f.toNat false : Nat) : Int) := by
  have := ldair_flags a f 0 ha hf false rfl
  simpa using this

/-- the "interrupt about to be accepted" test of HALT and LD A,I/R -/
theorem int_cond (iff t fd ia : Int) :
    ((if iff ≠ 0 then PyInt.p2i (t % fd < ia) else iff) ≠ 0) ↔ (iff ≠ 0 ∧ t % fd < ia) := by
  by_cases h : iff = 0
  · simp [h]
  · simp only [ne_eq, h, not_false_eq_true, if_true, true_and]
    unfold PyInt.p2i; split <;> simp_all

theorem sem_ld_a_ir (cfg : Cfg) (r : Int) (d : Decoded)
    (hz : zinstrOf (.ld_a_ir r) = some d) (s : St μ) (hi : RInv s) :
    Sim.ld_a_ir cfg r s = Spec.exec cfg d s := by
  zinv hz
  rinv_setup hi
  have hF := hr.byte 1 (by omega) (by omega) (by omega)
  have hI := hr.byte 14 (by omega) (by omega) (by omega)
  have hRb := incR_byte 2 _ hb15
  have hc := int_cond s.iff (s.t + 9) cfg.frame_duration cfg.int_active
  have hk : s.iff * 4 = if decide (s.iff ≠ 0) = true then 4 else 0 := by
    rcases hiff with h | h <;> simp [h]
  simp only [sim_handler, Id.run, pure]
  split at hz
  · -- LD A,I
    simp only [Option.some.injEq] at hz; subst hz; subst_vars
    by_cases hd : s.iff ≠ 0 ∧ (s.t + 9) % cfg.frame_duration < cfg.int_active
    · rw [if_pos (hc.mpr hd)]
      spec_simp [Spec.intDue]; idx_simp; rsimp hs; rw [hR2]
      simp only [hd, and_self, decide_true, Bool.not_true, Bool.and_false, ne_eq, not_false_eq_true]
      rw [ldair_flags0 _ _ hI hF]
    · rw [if_neg (fun h => hd (hc.mp h))]
      spec_simp [Spec.intDue]; idx_simp; rsimp hs; rw [hR2]
      simp only [hd, decide_false, Bool.not_false, Bool.and_true]
      rw [ldair_flags _ _ _ hI hF _ hk]
      try st_regs hs
  · zif hz; subst hz; subst_vars
    by_cases hd : s.iff ≠ 0 ∧ (s.t + 9) % cfg.frame_duration < cfg.int_active
    · rw [if_pos (hc.mpr hd)]
      spec_simp [Spec.intDue]; idx_simp; rsimp hs; rw [hR2]
      simp only [hd, and_self, decide_true, Bool.not_true, Bool.and_false, ne_eq, not_false_eq_true]
      rw [ldair_flags0 _ _ hRb hF]
    · rw [if_neg (fun h => hd (hc.mp h))]
      spec_simp [Spec.intDue]; idx_simp; rsimp hs; rw [hR2]
      simp only [hd, decide_false, Bool.not_false, Bool.and_true]
      rw [ldair_flags _ _ _ hRb hF _ hk]
      try st_regs hs

theorem sem_ex_sp [AdjMem μ] (cfg : Cfg) (r_inc : TblI1) (timing size rh rl : Int) (d : Decoded)
    (hz : zinstrOf (.ex_sp r_inc timing size rh rl) = some d) (s : St μ) (hi : RInv s) :
    Sim.ex_sp cfg r_inc timing size rh rl s = Spec.exec cfg d s := by
  zinv hz
  obtain ⟨m, hm, rp, hrp, hz⟩ := hz
  zif hz
  rename_i hok
  subst hz
  rinv_setup hi
  have hR := rinc_spec r_inc m _ hm hb15
  have hsp := hr.word
  have hadj : ∀ v, mget (mset s.mem (rget s.reg 12) v) ((rget s.reg 12 + 1) % 65536) =
      mget s.mem ((rget s.reg 12 + 1) % 65536) := by
    intro v; exact AdjMem.get_set_next s.mem _ v hsp.1 hsp.2
  simp only [sim_handler, Id.run, pure]
  pair_cases hrp <;> first
    | (exfalso; simp only [reduceCtorEq, or_self] at hok; done)
    | (spec_simp []; idx_simp; rsimp hs; rw [hR]
       split <;> split <;> ((try simp only [hadj]); st_regs hs))

end C05
