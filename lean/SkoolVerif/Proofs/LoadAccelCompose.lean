import SkoolVerif.Proofs.LoadAccelTsl
import SkoolVerif.Proofs.LoadAccelMatch
/-!
The fast-forward branch of the modelled `_read_port` (`LoadTape.accelerate`) written out as
"`loops` iterations of the loop body", and the no-edge-skipped theorem on the edge index.
-/
open Z80 LoadAccel
namespace LoadTape

/-- state (counter, F, R, T) of the sampling loop as `tslIter` sees it -/
def loopState (a : Accel) (regs : Array Int) (t : Int) : Int × Int × Int × Int :=
  (rget regs a.counter, rget regs 1, rget regs 15, t)

/-- write a loop state back into the registers, as `_read_port` does -/
def putLoopState (a : Accel) (regs : Array Int) (st : Int × Int × Int × Int) : Array Int :=
  rset (rset (rset regs a.counter st.1) 1 st.2.1) 15 st.2.2.1

theorem accelerate_eq_iter (a : Accel) (ts : TS) (regs : Array Int) (t index : Int) (hr : RegsOk regs)
    (hctr : 0 ≤ a.counter ∧ a.counter ≤ 11) (hL : 0 < a.loopTime) (hff : ffwdCond a regs index = true) (hE : t < ts.nextEdge) :
    let loops := tslLoops (a.inc ≠ 0) ts.nextEdge t a.loopTime (rget regs a.counter)
    let st := iterN (tslIter (a.inc ≠ 0) a.loopTime a.loopRInc) loops.toNat (loopState a regs t)
    0 ≤ loops ∧
    accelerate a ts regs t index =
      some (if loops = 0 then (regs, t, index, 0)
            else (putLoopState a regs st, st.2.2.2, if st.2.2.2 > ts.nextEdge then index + 1 else index, loops)) := by
  have hc : 0 ≤ rget regs a.counter ∧ rget regs a.counter < 256 := hr.byte a.counter (by omega) (by omega) (by omega)
  have hR : Byte (rget regs 15) := hr.byte 15 (by omega) (by omega) (by omega)
  have hgt : ts.nextEdge > t := hE
  unfold accelerate
  simp only [hff, hgt, and_self, if_true, loopState, putLoopState]
  generalize decide (a.inc ≠ 0) = b
  cases b
  · have sp := tslLoops_dec_spec ts.nextEdge t a.loopTime (rget regs a.counter) hL hE ⟨hc.1, by omega⟩
    simp only at sp
    refine ⟨sp.1, ?_⟩
    by_cases h0 : tslLoops false ts.nextEdge t a.loopTime (rget regs a.counter) = 0
    · simp [h0]
    · have hc1 : 1 ≤ rget regs a.counter := by
        by_cases h : rget regs a.counter = 0
        · have := sp.2.2.1 h; omega
        · omega
      have e := tslFfwd_dec_eq_iter a.loopTime a.loopRInc (rget regs a.counter) (rget regs 1) (rget regs 15) t _ hR (by omega)
        (by omega) (sp.2.1 hc1)
      simp only [h0, if_false, ne_eq, not_false_eq_true, if_true]
      rw [e]
      dsimp only
      first | rfl | congr
  · have sp := tslLoops_inc_spec ts.nextEdge t a.loopTime (rget regs a.counter) hL hE ⟨hc.1, by omega⟩
    simp only at sp
    refine ⟨sp.1, ?_⟩
    by_cases h0 : tslLoops true ts.nextEdge t a.loopTime (rget regs a.counter) = 0
    · simp [h0]
    · have e := tslFfwd_inc_eq_iter a.loopTime a.loopRInc (rget regs a.counter) (rget regs 1) (rget regs 15) t _ hR hc.1
        (by omega) sp.2.1
      simp only [h0, if_false, ne_eq, not_false_eq_true, if_true]
      rw [e]
      dsimp only
      first | rfl | congr

/-- The fast-forward never jumps over a tape edge.  With `E` the next edge (`state[0]`) and samples
taken at `T, T+L, T+2L, …`: every one of the `loops` skipped samples sees the edge index it saw at
`T` (so the real loop would have gone round each time), and when the time bound decided `loops`
the first sample after the jump sees exactly the next edge, as `_read_port` assumes (`index += 1`),
provided the edge after that is not already in the past (pulses are not shorter than one iteration). -/
theorem no_edge_skipped (edges : Array Int) (maxIndex : Int) (fuel : Nat) (idx : Int) (inc : Bool) (T E L c : Int)
    (hfuel : 1 ≤ fuel) (hi : idx < maxIndex) (hE : pyGet edges (idx + 1) = some E) (hL : 0 < L) (hT : T < E)
    (hc : 0 ≤ c ∧ c ≤ 255) :
    let loops := tslLoops inc E T L c
    (∀ k : Int, 0 ≤ k → k < loops → advIdx edges maxIndex fuel idx (T + k * L) = some idx) ∧
    (E < T + loops * L → (idx + 1 = maxIndex ∨ ∃ e2, pyGet edges (idx + 2) = some e2 ∧ T + loops * L ≤ e2) →
        advIdx edges maxIndex fuel idx (T + loops * L) = some (idx + 1)) := by
  intro loops
  have hk : ∀ k : Int, 0 ≤ k → k < loops → T + k * L ≤ E := by
    cases inc
    · exact (tslLoops_dec_spec E T L c hL hT hc).2.2.2.1
    · exact (tslLoops_inc_spec E T L c hL hT hc).2.2.1
  constructor
  · intro k h0 h1
    exact advIdx_stay edges maxIndex fuel idx _ E hE (hk k h0 h1)
  · intro hgt hnext
    obtain ⟨f, rfl⟩ : ∃ f, fuel = f + 1 := ⟨fuel - 1, by omega⟩
    exact advIdx_one edges maxIndex f idx _ E hi hE hgt hnext

end LoadTape
