import SkoolVerif.Proofs.EdgesDb
import SkoolVerif.Proofs.EdgesDecode
/-!
The recorded `DataBlock` ranges of byte-carrying blocks delimit exactly the
edges of the block's data (global invariant over the whole `get_edges` loop for
tapes without zero-length bit pulses).
-/
namespace Edges
open EdgeSpec

def tailL (tail : Nat) : List Nat := if tail ≠ 0 then [tail] else []

/-- Pulses sent by the data part of a block on the table path (model level). -/
def dataPulses (b : Block) : List Nat :=
  fastSeq b.timings.zero b.timings.one b.timings.usedBits b.data ++ tailL b.timings.tail

/-- A block that never enters the merge loop. -/
def ByteBlock (b : Block) : Prop := hasZero b.timings = false ∨ b.data = []

/-- `db` delimits, inside `edges`, the data pulses of `b` measured from clock `t0`. -/
def GoodSeg (edges : List Int) (db : DataBlock) (b : Block) (t0 : Int) : Prop :=
  db.data = b.data ∧ b.data ≠ [] ∧ hasZero b.timings = false ∧
  db.stop + 1 ≤ edges.length ∧ db.start ≤ db.stop ∧
  (∀ x ∈ edges.take (db.start + 1), x ≤ t0) ∧
  (expand b.timings.pulses ≠ [] → edges[db.start]? = some t0) ∧
  (edges.drop (db.start + 1)).take (db.stop - db.start) = cumsum t0 (dataPulses b) ∧
  db.stop - db.start = (dataPulses b).length

theorem drop_take_prefix {e e' : List Int} (h : e <+: e') (k n : Nat) (hk : k + n ≤ e.length) :
    (e'.drop k).take n = (e.drop k).take n := by
  obtain ⟨m, rfl⟩ := h
  rw [List.drop_append_of_le_length (by omega), List.take_append_of_le_length (by simp; omega)]

theorem GoodSeg.prefix {e e' : List Int} {db : DataBlock} {b : Block} {t0 : Int}
    (h : GoodSeg e db b t0) (hp : e <+: e') : GoodSeg e' db b t0 := by
  obtain ⟨h1, h2, h3, h4, h5, h6, h7, h8, h9⟩ := h
  have hl : e.length ≤ e'.length := hp.length_le
  refine ⟨h1, h2, h3, by omega, h5, ?_, ?_, ?_, h9⟩
  · have := drop_take_prefix hp 0 (db.start + 1) (by omega)
    simp only [List.drop_zero] at this
    rw [this]; exact h6
  · intro hx
    obtain ⟨m, rfl⟩ := hp
    rw [List.getElem?_append_left (by omega)]
    exact h7 hx
  · rw [drop_take_prefix hp _ _ (by omega)]; exact h8

theorem checkPolarity_prefix (tp : Option Nat) (pol : Int) (e : List Int) (t : Int) :
    e <+: checkPolarity tp pol e t := by
  unfold checkPolarity
  split
  · exact List.prefix_refl _
  · split
    · exact List.prefix_append _ _
    · exact List.prefix_refl _

theorem checkPolarity_last {tp : Option Nat} {pol : Int} {e : List Int} {t : Int}
    (h : e.getLast? = some t) : (checkPolarity tp pol e t).getLast? = some t := by
  unfold checkPolarity
  split
  · exact h
  · split
    · simp
    · exact h

theorem pulsePhase_prefix (pol : Int) (b : Block) (s : St) : s.edges <+: (pulsePhase pol b s).edges := by
  unfold pulsePhase
  split
  · simp only [emit_eq]
    exact (checkPolarity_prefix _ _ _ _).trans (List.prefix_append _ _)
  · exact List.prefix_refl _

theorem cumsum_getLast (t : Int) (ds : List Nat) (h : ds ≠ []) :
    (cumsum t ds).getLast? = some (t + sumN ds) := by
  induction ds generalizing t with
  | nil => exact absurd rfl h
  | cons d ds ih =>
    cases ds with
    | nil => simp [cumsum, sumN_cons, sumN_nil]
    | cons d' ds' =>
      have := ih (t + d) (by simp)
      rw [cumsum, cumsum, List.getLast?_cons_cons]
      rw [cumsum] at this
      rw [this, sumN_cons, sumN_cons, sumN_cons]
      congr 1; omega

theorem pulsePhase_last (pol : Int) (b : Block) (s : St) (h : expand b.timings.pulses ≠ []) :
    (pulsePhase pol b s).edges.getLast? = some (pulsePhase pol b s).t := by
  unfold pulsePhase
  have hp : b.timings.pulses ≠ [] := by
    intro hc; rw [hc] at h; exact h rfl
  simp only [ne_eq, hp, not_false_eq_true, ↓reduceIte, emit_eq]
  have hc := cumsum_getLast s.t _ h
  rw [List.getLast?_append, hc]; rfl

theorem pausePhase_prefix (pol : Int) (l : Bool) (b : Block) (s : St) :
    s.edges <+: (pausePhase pol l b s).edges := by
  unfold pausePhase
  split
  · exact checkPolarity_prefix _ _ _ _
  · exact List.prefix_refl _

theorem dataCore_fast (pol : Int) (tm : Timings) (data : List Nat) (e : List Int) (t : Int)
    (hz : hasZero tm = false) :
    dataCore pol tm data e t =
      (checkPolarity tm.polarity pol e t ++ cumsum t (fastSeq tm.zero tm.one tm.usedBits data ++ tailL tm.tail),
       t + sumN (fastSeq tm.zero tm.one tm.usedBits data ++ tailL tm.tail)) := by
  unfold dataCore dataEdges tailL
  simp only [hz, Bool.false_eq_true, ↓reduceIte, emit_eq]
  by_cases ht : tm.tail = 0
  · simp [ht]
  · simp [ht, cumsum_append, cumsum, sumN_append, sumN_cons, sumN_nil, Int.add_assoc]

theorem dataPhase_prefix (pol : Int) (l : Bool) (b : Block) (s : St) (hb : ByteBlock b) :
    s.edges <+: (dataPhase pol l b s).edges := by
  by_cases hd : b.data = []
  · rw [(dataPhase_edges_nil pol l b s hd).1]; exact List.prefix_refl _
  · rcases hb with hz | hb
    · rw [(dataPhase_edges pol l b s hd).1, dataCore_fast _ _ _ _ _ hz]
      exact (checkPolarity_prefix _ _ _ _).trans (List.prefix_append _ _)
    · exact absurd hb hd

theorem dataPhase_dbs_nil (pol : Int) (l : Bool) (b : Block) (s : St) (hd : b.data = []) :
    (dataPhase pol l b s).dbs = s.dbs ∨
    ∃ d, (dataPhase pol l b s).dbs = s.dbs ++ [d] ∧ d.fastLoad = false := by
  unfold dataPhase
  simp only [hd, ne_eq, not_true_eq_false, ↓reduceIte]
  split
  · right; exact ⟨_, rfl, rfl⟩
  · left; rfl

theorem newDb_fast (pol : Int) (b : Block) (s : St) (hz : hasZero b.timings = false) :
    newDb pol b s = ⟨b.data, (checkPolarity b.timings.polarity pol s.edges s.t).length - 1,
      (checkPolarity b.timings.polarity pol s.edges s.t).length + (dataPulses b).length - 1, s.keys, true⟩ := by
  unfold newDb
  rw [dataCore_fast _ _ _ _ _ hz]
  simp only [hz, Bool.false_eq_true, ↓reduceIte, List.length_append, cumsum_length, dataPulses]

/-- Invariant: every fast-loadable `DataBlock` recorded so far delimits the data
pulses of some block of the tape. -/
def SegInv (all : List Block) (s : St) : Prop :=
  ∀ db ∈ s.dbs, db.fastLoad = true → ∃ b ∈ all, ∃ t0, GoodSeg s.edges db b t0

theorem SegInv.grow {all : List Block} {s s' : St} (h : SegInv all s) (hd : s'.dbs = s.dbs)
    (hp : s.edges <+: s'.edges) : SegInv all s' := by
  intro db hdb hf
  rw [hd] at hdb
  obtain ⟨b, hb, t0, hg⟩ := h db hdb hf
  exact ⟨b, hb, t0, hg.prefix hp⟩

theorem getElem?_length_sub_one {e : List Int} : e[e.length - 1]? = e.getLast? := by
  cases e with
  | nil => simp
  | cons a r => rw [List.getLast?_eq_getElem?]

theorem dataPhase_seg (all : List Block) (pol : Int) (l : Bool) (b : Block) (s : St)
    (hall : b ∈ all) (hb : ByteBlock b) (hinv : Inv s.edges s.t)
    (hlast : expand b.timings.pulses ≠ [] → s.edges.getLast? = some s.t)
    (h : SegInv all s) : SegInv all (dataPhase pol l b s) := by
  by_cases hd : b.data = []
  · intro db hdb hf
    rw [(dataPhase_edges_nil pol l b s hd).1]
    rcases dataPhase_dbs_nil pol l b s hd with hn | ⟨d, hn, hdf⟩
    · rw [hn] at hdb; exact h db hdb hf
    · rw [hn] at hdb
      simp at hdb
      rcases hdb with hdb | rfl
      · exact h db hdb hf
      · rw [hdf] at hf; simp at hf
  · have hz : hasZero b.timings = false := by
      rcases hb with hz | hb
      · exact hz
      · exact absurd hb hd
    have hpre := dataPhase_prefix pol l b s (Or.inl hz)
    have he := (dataPhase_edges pol l b s hd).1
    have hcore := dataCore_fast pol b.timings b.data s.edges s.t hz
    intro db hdb hf
    rw [dataPhase_dbs pol l b s hd] at hdb
    simp at hdb
    rcases hdb with hdb | rfl
    · obtain ⟨b', hb', t0, hg⟩ := h db hdb hf
      exact ⟨b', hb', t0, hg.prefix hpre⟩
    · refine ⟨b, hall, s.t, ?_⟩
      have hcpinv := hinv.checkPolarity b.timings.polarity pol
      have hlast' : expand b.timings.pulses ≠ [] →
          (checkPolarity b.timings.polarity pol s.edges s.t).getLast? = some s.t :=
        fun hx => checkPolarity_last (hlast hx)
      rw [he, newDb_fast pol b s hz, hcore]
      generalize checkPolarity b.timings.polarity pol s.edges s.t = cp at hcpinv hlast'
      have hcplen : 1 ≤ cp.length := by
        cases cp with
        | nil => exact absurd rfl hcpinv.1
        | cons x xs => simp
      have h1 : cp.length - 1 + 1 = cp.length := by omega
      have h2 : cp.length + (dataPulses b).length - 1 - (cp.length - 1) = (dataPulses b).length := by omega
      show GoodSeg (cp ++ cumsum s.t (dataPulses b))
        ⟨b.data, cp.length - 1, cp.length + (dataPulses b).length - 1, s.keys, true⟩ b s.t
      refine ⟨rfl, hd, hz, ?_, ?_, ?_, ?_, ?_, ?_⟩
      · show cp.length + (dataPulses b).length - 1 + 1 ≤ (cp ++ cumsum s.t (dataPulses b)).length
        rw [List.length_append, cumsum_length]; omega
      · show cp.length - 1 ≤ cp.length + (dataPulses b).length - 1
        omega
      · intro x hx
        change x ∈ List.take (cp.length - 1 + 1) (cp ++ cumsum s.t (dataPulses b)) at hx
        rw [h1, List.take_append_of_le_length (Nat.le_refl _), List.take_length] at hx
        exact hcpinv.2.2 x hx
      · intro hx
        show (cp ++ cumsum s.t (dataPulses b))[cp.length - 1]? = some s.t
        rw [List.getElem?_append_left (by omega), getElem?_length_sub_one]
        exact hlast' hx
      · show ((cp ++ cumsum s.t (dataPulses b)).drop (cp.length - 1 + 1)).take
            (cp.length + (dataPulses b).length - 1 - (cp.length - 1)) = cumsum s.t (dataPulses b)
        rw [h1, h2, List.drop_append_of_le_length (Nat.le_refl _), List.drop_length, List.nil_append,
          List.take_of_length_le]
        rw [cumsum_length]; exact Nat.le_refl _
      · exact h2

theorem stepBlock_prefix (pol : Int) (l : Bool) (b : Block) (s : St) (hb : ByteBlock b) :
    s.edges <+: (stepBlock pol l b s).edges := by
  unfold stepBlock
  have h0 : s.edges <+: (setKeys b s).edges := List.prefix_refl _
  exact ((h0.trans (pulsePhase_prefix pol b _)).trans (dataPhase_prefix pol l b _ hb)).trans
    (pausePhase_prefix pol l b _)

theorem stepBlock_seg (all : List Block) (pol : Int) (l : Bool) (b : Block) (s : St)
    (hall : b ∈ all) (hb : ByteBlock b) (hinv : Inv s.edges s.t)
    (h : SegInv all s) : SegInv all (stepBlock pol l b s) := by
  unfold stepBlock
  have h0 : SegInv all (setKeys b s) := h
  have hinv0 : Inv (setKeys b s).edges (setKeys b s).t := hinv
  generalize setKeys b s = s0 at h0 hinv0
  have h1 : SegInv all (pulsePhase pol b s0) :=
    h0.grow (pulsePhase_other pol b s0).2.2 (pulsePhase_prefix pol b s0)
  have hinv1 := (pulsePhase_ext pol b s0).2.2.1 hinv0
  have h2 := dataPhase_seg all pol l b _ hall hb hinv1 (pulsePhase_last pol b s0) h1
  exact h2.grow (pausePhase_other pol l b _).2.2 (pausePhase_prefix pol l b _)

theorem runBlocks_seg (all : List Block) (pol : Int) (blocks : List Block) (s : St)
    (hall : ∀ b ∈ blocks, b ∈ all ∧ ByteBlock b) (hinv : Inv s.edges s.t)
    (h : SegInv all s) : SegInv all (runBlocks pol blocks s) := by
  induction blocks generalizing s with
  | nil => exact h
  | cons b rest ih =>
    have hb := hall b (by simp)
    cases rest with
    | nil => exact stepBlock_seg all pol true b s hb.1 hb.2 hinv h
    | cons b' rest' =>
      simp only [runBlocks]
      exact ih _ (fun x hx => hall x (List.mem_cons_of_mem _ hx))
        ((stepBlock_ext pol false b s).2.2.1 hinv) (stepBlock_seg all pol false b s hb.1 hb.2 hinv h)

end Edges
