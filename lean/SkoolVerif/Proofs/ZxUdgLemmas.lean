import SkoolVerif.Proofs.ScanRowLemmas
/-! `Udg.flip` / `Udg.rotate` on whole tiles (graphic + mask) (C15). -/
set_option linter.unusedSimpArgs false
namespace PngScan
open ZxTile ZxSpec

theorem maskRows_of_wf {u : Udg} (hu : WfUdg u) : u.maskRows = u.mask := by
  unfold Udg.maskRows
  cases hm : u.mask with
  | none => rfl
  | some m =>
    have := (hu.2 m hm).1
    cases m with
    | nil => simp at this
    | cons b t => rfl

theorem wf_flip (f : Nat) {u : Udg} (hu : WfUdg u) : WfUdg (u.flip f) := by
  refine ⟨wf_flipTile f hu.1, ?_⟩
  intro m hm
  simp only [Udg.flip, Option.map_eq_some_iff] at hm
  obtain ⟨m0, h0, rfl⟩ := hm
  exact wf_flipTile f (hu.2 m0 h0)

theorem wf_rotate (n : Nat) {u : Udg} (hu : WfUdg u) : WfUdg (u.rotate n) := by
  refine ⟨wf_rotateTile n hu.1, ?_⟩
  intro m hm
  simp only [Udg.rotate, maskRows_of_wf hu] at hm
  cases h : u.mask with
  | none => rw [h] at hm; simp at hm
  | some m0 =>
    rw [h] at hm
    simp only [Option.some.injEq] at hm
    subst hm
    exact wf_rotateTile n (hu.2 m0 h)

/-- `udg.flip(f)` twice restores the tile. -/
theorem udg_flip_flip (f : Nat) {u : Udg} (hu : WfUdg u) : (u.flip f).flip f = u := by
  cases u with
  | mk attr data mask =>
    simp only [Udg.flip, Udg.mk.injEq, true_and]
    refine ⟨flipTile_flipTile f hu.1, ?_⟩
    cases mask with
    | none => rfl
    | some m => simp [flipTile_flipTile f (hu.2 m rfl)]

/-- `udg.rotate(a)` after `udg.rotate(b)` is `udg.rotate(a + b)`. -/
theorem udg_rotate_rotate (a b : Nat) {u : Udg} (hu : WfUdg u) : (u.rotate b).rotate a = u.rotate (a + b) := by
  have hr := wf_rotate b hu
  cases u with
  | mk attr data mask =>
    have hm1 := maskRows_of_wf hu
    have hm2 := maskRows_of_wf hr
    simp only [Udg.rotate] at hm2 ⊢
    simp only [hm1] at hm2 ⊢
    cases mask with
    | none =>
      simp only [Udg.mk.injEq, true_and]
      refine ⟨rotateTile_rotateTile a b hu.1, ?_⟩
      simp only [Udg.maskRows]
    | some m =>
      have hwm := hu.2 m rfl
      simp only [Udg.mk.injEq, true_and]
      refine ⟨rotateTile_rotateTile a b hu.1, ?_⟩
      have : ({ attr := attr, data := rotateTile b data, mask := some (rotateTile b m) } : Udg).maskRows
          = some (rotateTile b m) := by
        have := maskRows_of_wf (u := { attr := attr, data := rotateTile b data, mask := some (rotateTile b m) })
          ⟨wf_rotateTile b hu.1, fun m' hm' => by
            simp only [Option.some.injEq] at hm'; subst hm'; exact wf_rotateTile b hwm⟩
        exact this
      simp only [this, rotateTile_rotateTile a b hwm]

/-- Four quarter turns restore the tile. -/
theorem udg_rotate_four {u : Udg} (hu : WfUdg u) :
    (((u.rotate 1).rotate 1).rotate 1).rotate 1 = u := by
  rw [udg_rotate_rotate 1 1 hu, udg_rotate_rotate 1 2 hu, udg_rotate_rotate 1 3 hu]
  cases u with
  | mk attr data mask =>
    have hm1 := maskRows_of_wf hu
    simp only [Udg.rotate, hm1, Udg.mk.injEq, true_and]
    refine ⟨rotateTile_four 4 rfl hu.1, ?_⟩
    cases mask with
    | none => rfl
    | some m => simp [rotateTile_four 4 rfl (hu.2 m rfl)]

end PngScan
