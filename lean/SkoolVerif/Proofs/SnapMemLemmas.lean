import SkoolVerif.Proofs.SnapEditLemmas
/-! Lemmas about the `Memory` model of `Model/SnapEdit.lean`: objects, windows, single and
sequential cell writes (C09). -/
namespace SnapEdit

/-! ### objects -/

theorem obj_bank (m : Mem) (k : Nat) (l : List Nat) :
    m.obj (.bank k) = some l ↔ m.banks[k]? = some (some l) := by
  simp only [Mem.obj]
  split
  · rename_i l' h; rw [h]; simp
  · rename_i h
    constructor
    · intro h'; cases h'
    · intro h'; exact absurd h' (h l)

theorem obj_setObj_same (m : Mem) (o : Obj) (l l' : List Nat) (h : m.obj o = some l) :
    (m.setObj o l').obj o = some l' := by
  cases o with
  | rom => simp [Mem.setObj, Mem.obj]
  | bank k =>
    rw [obj_bank] at h
    have hk : k < m.banks.length := by
      rcases Nat.lt_or_ge k m.banks.length with hk | hk
      · exact hk
      · rw [List.getElem?_eq_none hk] at h; cases h
    rw [obj_bank]
    simp [Mem.setObj, hk]

theorem obj_setObj_other (m : Mem) (o o' : Obj) (l' : List Nat) (hne : o' ≠ o) :
    (m.setObj o l').obj o' = m.obj o' := by
  cases o with
  | rom =>
    cases o' with
    | rom => exact absurd rfl hne
    | bank k' => simp [Mem.setObj, Mem.obj]
  | bank k =>
    cases o' with
    | rom => simp [Mem.setObj, Mem.obj]
    | bank k' =>
      have : k ≠ k' := fun h => hne (by rw [h])
      simp [Mem.setObj, Mem.obj, List.getElem?_set_ne this]

theorem slot_setObj (m : Mem) (o : Obj) (l' : List Nat) (q : Nat) :
    (m.setObj o l').slot q = m.slot q := by
  cases o <;> simp [Mem.setObj, Mem.slot]

theorem loc_setObj (m : Mem) (o : Obj) (l' : List Nat) (a : Nat) :
    (m.setObj o l').loc a = m.loc a := by
  simp [Mem.loc, slot_setObj]

/-- replacing an object by a list: the cells of that object are those of the list, every other
object keeps its cells -/
theorem cell_setObj (m : Mem) (o : Obj) (l l' : List Nat) (h : m.obj o = some l) (o' : Obj) (j : Nat) :
    (m.setObj o l').cell o' j = if o' = o then l'[j]? else m.cell o' j := by
  by_cases ho : o' = o
  · subst ho; simp [Mem.cell, obj_setObj_same m o' l l' h]
  · simp [Mem.cell, obj_setObj_other m o o' l' ho, ho]

theorem banks_length_setObj (m : Mem) (o : Obj) (l' : List Nat) :
    (m.setObj o l').banks.length = m.banks.length := by
  cases o <;> simp [Mem.setObj]

/-! ### single reads and writes through the 64K address space -/

/-- the content of flat address `a` (`none`: the access raises) -/
def Mem.at (m : Mem) (a : Nat) : Option Nat :=
  match m.loc a with
  | some (o, j) => m.cell o j
  | none => none

theorem get_eq_at (m : Mem) (a v : Nat) : m.get a = .ok v ↔ m.at a = some v := by
  simp only [Mem.get, Mem.at, Mem.loc, Mem.cell]
  cases m.slot (a / 0x4000) with
  | none => simp
  | some o =>
    simp only [Option.map_some]
    cases m.obj o with
    | none => simp
    | some l =>
      by_cases h : a % 0x4000 < l.length
      · simp [h]
      · simp [h]

theorem set_ok (m m' : Mem) (a v : Nat) (h : m.set a v = .ok m') :
    ∃ o l, m.loc a = some (o, a % 0x4000) ∧ m.obj o = some l ∧ a % 0x4000 < l.length ∧
      m' = m.setObj o (l.set (a % 0x4000) v) := by
  simp only [Mem.set] at h
  cases hs : m.slot (a / 0x4000) with
  | none => simp [hs] at h
  | some o =>
    simp only [hs] at h
    cases ho : m.obj o with
    | none => simp [ho] at h
    | some l =>
      simp only [ho] at h
      split at h
      · rename_i hl
        refine ⟨o, l, by simp [Mem.loc, hs], ho, hl, ?_⟩
        cases h; rfl
      · cases h

/-- one write through the address space: the addressed cell gets the value, every other cell of every
object (windowed or not) is unchanged, and the windows stay where they are -/
theorem set_cell (m m' : Mem) (a v : Nat) (h : m.set a v = .ok m') :
    (∀ b, m'.loc b = m.loc b) ∧ m'.banks.length = m.banks.length ∧
    ∀ o j, m'.cell o j = if m.loc a = some (o, j) then some v else m.cell o j := by
  obtain ⟨o, l, hloc, hobj, hlen, rfl⟩ := set_ok m m' a v h
  refine ⟨fun b => loc_setObj _ _ _ _, banks_length_setObj _ _ _, fun o' j => ?_⟩
  rw [cell_setObj m o l _ hobj, hloc]
  by_cases ho : o' = o
  · subst ho
    by_cases hj : a % 0x4000 = j
    · subst hj; simp [hlen]
    · have : ¬ (some (o', a % 0x4000) = some (o', j)) := by simpa using hj
      simp only [if_true, this, if_false, Mem.cell, hobj]
      rw [List.getElem?_set_ne hj]
  · have : ¬ (some (o, a % 0x4000) = some (o', j)) := by
      intro h'; injection h' with h'; injection h' with h1 h2; exact ho h1.symm
    simp [ho, this]

theorem set_error_kind (m : Mem) (a v : Nat) (e : Err) (h : m.set a v = .error e) :
    e = .index ∨ e = .type := by
  simp only [Mem.set] at h
  split at h
  · cases h; exact .inl rfl
  · split at h
    · cases h; exact .inr rfl
    · split at h
      · cases h
      · cases h; exact .inl rfl

/-! ### the poke loop through the address space -/

theorem pokeAll_ok {f : Nat → Nat} : ∀ (addrs : List Nat) (m m' : Mem), Mem.pokeAll f m addrs = .ok m' →
    (∀ b, m'.loc b = m.loc b) ∧ m'.banks.length = m.banks.length ∧
    ∀ o j, m'.cell o j = (m.cell o j).map (iter f ((addrs.map m.loc).count (some (o, j))))
  | [], m, m', h => by
    simp only [Mem.pokeAll, Except.ok.injEq] at h
    subst h
    refine ⟨fun _ => rfl, rfl, fun o j => ?_⟩
    cases m.cell o j <;> simp [iter]
  | a :: as, m, m', h => by
    simp only [Mem.pokeAll] at h
    cases hg : m.get a with
    | error e => simp [hg] at h
    | ok b =>
      simp only [hg] at h
      cases hs : m.set a (f b) with
      | error e => simp [hs] at h
      | ok m1 =>
        simp only [hs] at h
        obtain ⟨hl1, hb1, hc1⟩ := set_cell m m1 a (f b) hs
        obtain ⟨hl2, hb2, hc2⟩ := pokeAll_ok as m1 m' h
        refine ⟨fun x => by rw [hl2, hl1], by rw [hb2, hb1], fun o j => ?_⟩
        have hmap : as.map m1.loc = as.map m.loc := List.map_congr_left (fun x _ => hl1 x)
        rw [hc2, hc1, hmap, List.map_cons, List.count_cons]
        rw [get_eq_at] at hg
        by_cases hloc : m.loc a = some (o, j)
        · have hcell : m.cell o j = some b := by simpa [Mem.at, hloc] using hg
          simp [hloc, hcell, iter]
        · have : ¬ (m.loc a == some (o, j)) = true := by simpa using hloc
          simp [hloc, this]

/-! ### reading a range, then writing a range -/

theorem getAll_ok : ∀ (m : Mem) (addrs vals : List Nat), m.getAll addrs = .ok vals →
    vals.length = addrs.length ∧ ∀ k (hk : k < addrs.length), m.at addrs[k] = vals[k]?
  | m, [], vals, h => by
    simp only [Mem.getAll, Except.ok.injEq] at h
    subst h; simp
  | m, a :: as, vals, h => by
    simp only [Mem.getAll] at h
    cases hg : m.get a with
    | error e => simp [hg] at h
    | ok v =>
      simp only [hg] at h
      cases hr : m.getAll as with
      | error e => simp [hr] at h
      | ok vs =>
        simp only [hr, Except.ok.injEq] at h
        subst h
        obtain ⟨h1, h2⟩ := getAll_ok m as vs hr
        refine ⟨by simp [h1], fun k hk => ?_⟩
        cases k with
        | zero => simpa using (get_eq_at m a v).1 hg
        | succ k => simpa using h2 k (by simpa using hk)

/-- value of a cell after the writes `zip addrs vals` in order, starting from `cur`: the last write
to the cell wins -/
def lastWrite (loc : Nat → Option (Obj × Nat)) (c : Obj × Nat) : List Nat → List Nat → Option Nat → Option Nat
  | a :: as, v :: vs, cur => lastWrite loc c as vs (if loc a = some c then some v else cur)
  | _, _, cur => cur

theorem setAll_ok : ∀ (addrs vals : List Nat) (m m' : Mem), m.setAll addrs vals = .ok m' →
    (∀ b, m'.loc b = m.loc b) ∧ m'.banks.length = m.banks.length ∧
    ∀ o j, m'.cell o j = lastWrite m.loc (o, j) addrs vals (m.cell o j)
  | [], vals, m, m', h => by
    simp only [Mem.setAll, Except.ok.injEq] at h
    subst h; exact ⟨fun _ => rfl, rfl, fun _ _ => by simp [lastWrite]⟩
  | a :: as, [], m, m', h => by
    simp only [Mem.setAll, Except.ok.injEq] at h
    subst h; exact ⟨fun _ => rfl, rfl, fun _ _ => by simp [lastWrite]⟩
  | a :: as, v :: vs, m, m', h => by
    simp only [Mem.setAll] at h
    cases hs : m.set a v with
    | error e => simp [hs] at h
    | ok m1 =>
      simp only [hs] at h
      obtain ⟨hl1, hb1, hc1⟩ := set_cell m m1 a v hs
      obtain ⟨hl2, hb2, hc2⟩ := setAll_ok as vs m1 m' h
      refine ⟨fun x => by rw [hl2, hl1], by rw [hb2, hb1], fun o j => ?_⟩
      have : m1.loc = m.loc := funext hl1
      rw [hc2, hc1, this]
      simp [lastWrite]

/-- With pairwise distinct target cells, a cell that is the `k`-th target holds the `k`-th value and
a cell that is no target is unchanged. -/
theorem lastWrite_inj (loc : Nat → Option (Obj × Nat)) (c : Obj × Nat) :
    ∀ (addrs vals : List Nat) (cur : Option Nat),
      addrs.length ≤ vals.length →
      (addrs.map loc).Nodup →
      lastWrite loc c addrs vals cur =
        match (addrs.map loc).idxOf? (some c) with
        | some k => vals[k]?
        | none => cur
  | [], vals, cur, _, _ => by simp [lastWrite]
  | a :: as, [], cur, hl, _ => by simp at hl
  | a :: as, v :: vs, cur, hl, hn => by
    simp only [List.map_cons, List.nodup_cons] at hn
    simp only [lastWrite]
    rw [lastWrite_inj loc c as vs _ (by simpa using hl) hn.2]
    simp only [List.map_cons, List.idxOf?_cons]
    by_cases h : loc a = some c
    · have hnot : (as.map loc).idxOf? (some c) = none := by
        rw [List.idxOf?_eq_none_iff]; rw [← h]; exact hn.1
      simp [h, hnot]
    · have : ¬ (loc a == some c) = true := by simpa using h
      simp only [h, this, if_false]
      cases (as.map loc).idxOf? (some c) <;> simp

end SnapEdit
