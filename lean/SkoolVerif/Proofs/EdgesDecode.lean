import SkoolVerif.Proofs.EdgesLemmas
/-!
Bit-level lemmas: the pulse sequences produced by the model are the spec's
`bitPulses` of the spec's `dataBits`, and `decodeBits` inverts `bitPulses`.
-/
namespace Edges
open EdgeSpec

/-- The bits in the order the code visits them (`b & 0x80`, `b *= 2`). -/
def codeBits : Nat → Nat → List Bool
  | _, 0 => []
  | b, n + 1 => b.testBit 7 :: codeBits (b * 2) n

theorem bitSeq_eq (zero one : List Nat) (b n : Nat) :
    bitSeq zero one b n = bitPulses zero one (codeBits b n) := by
  induction n generalizing b with
  | zero => simp [bitSeq, codeBits, bitPulses]
  | succ n ih =>
    simp only [bitSeq, codeBits, bitPulses, List.flatMap_cons]
    rw [ih]; rfl

theorem codeBits_shift (b k n : Nat) (h : k + n ≤ 8) :
    codeBits (b * 2 ^ k) n = (List.range n).map (fun j => b.testBit (7 - (k + j))) := by
  induction n generalizing k with
  | zero => simp [codeBits]
  | succ n ih =>
    rw [List.range_succ_eq_map]
    simp only [codeBits, List.map_cons, List.map_map]
    congr 1
    · rw [Nat.testBit_mul_two_pow]
      have : k ≤ 7 := by omega
      simp [this]
    · have := ih (k + 1) (by omega)
      rw [Nat.pow_succ, ← Nat.mul_assoc] at this
      rw [this]
      apply List.map_congr_left
      intro j _
      simp only [Function.comp]
      congr 2
      omega

theorem codeBits_eq_msb (b n : Nat) (h : n ≤ 8) : codeBits b n = msbBits b n := by
  have := codeBits_shift b 0 n (by omega)
  simpa [msbBits] using this

theorem bitPulses_nil (zero one : List Nat) : bitPulses zero one [] = [] := rfl
theorem bitPulses_cons (zero one : List Nat) (x : Bool) (xs : List Bool) :
    bitPulses zero one (x :: xs) = (if x then one else zero) ++ bitPulses zero one xs := rfl
theorem bitPulses_append (zero one : List Nat) (a b : List Bool) :
    bitPulses zero one (a ++ b) = bitPulses zero one a ++ bitPulses zero one b := by
  simp [bitPulses]

/-! ### The data sequences of the model in terms of the spec -/

theorem dataBits_snoc (ub : Nat) (data : List Nat) (h : data ≠ []) :
    dataBits ub data = data.dropLast.flatMap (fun b => msbBits b 8) ++ msbBits (data.getLastD 0) (min ub 8) := by
  induction data with
  | nil => exact absurd rfl h
  | cons a rest ih =>
    cases rest with
    | nil => simp [dataBits]
    | cons c rest' =>
      have := ih (by simp)
      simp only [dataBits, List.dropLast_cons_cons, List.flatMap_cons, List.append_assoc]
      rw [this]
      simp [List.getLastD]

theorem byteTimings_eq (zero one : List Nat) (v : Nat) :
    byteTimings zero one v = bitPulses zero one (msbBits v 8) := by
  rw [byteTimings, bitSeq_eq, codeBits_eq_msb _ _ (Nat.le_refl _)]

theorem flatMap_byteTimings (zero one : List Nat) (l : List Nat) :
    l.flatMap (byteTimings zero one) = bitPulses zero one (l.flatMap fun b => msbBits b 8) := by
  induction l with
  | nil => rfl
  | cons a rest ih => simp only [List.flatMap_cons, ih, byteTimings_eq, bitPulses_append]

/-- The table path sends exactly the block's bits (8 per byte, `min used_bits 8` of the last). -/
theorem fastSeq_eq_spec (zero one : List Nat) (ub : Nat) (data : List Nat) (hd : data ≠ []) :
    fastSeq zero one ub data = bitPulses zero one (dataBits ub data) := by
  rw [dataBits_snoc ub data hd, bitPulses_append, fastSeq, flatMap_byteTimings, bitSeq_eq,
    codeBits_eq_msb _ _ (Nat.min_le_right _ _)]

/-- The merge loop visits exactly the block's bits when `used_bits ≤ 8`. -/
theorem slowSeq_eq_spec (zero one : List Nat) (ub : Nat) (data : List Nat) (h : ub ≤ 8) :
    slowSeq zero one ub data = bitPulses zero one (dataBits ub data) := by
  induction data with
  | nil => rfl
  | cons a rest ih =>
    cases rest with
    | nil =>
      simp only [slowSeq, dataBits]
      rw [bitSeq_eq, codeBits_eq_msb _ _ h, Nat.min_eq_left h]
    | cons c rest' =>
      simp only [slowSeq, dataBits] at ih ⊢
      rw [bitPulses_append, ← ih, bitSeq_eq, codeBits_eq_msb _ _ (Nat.le_refl _)]

/-! ### Decoding -/

def toInts (l : List Nat) : List Int := l.map fun (d : Nat) => (d : Int)

theorem startsWith_append (p r : List Nat) : startsWith (toInts (p ++ r)) p = true := by
  induction p with
  | nil => cases r <;> simp [startsWith, toInts]
  | cons a p ih => simpa [startsWith, toInts] using ih

theorem startsWith_prefix {l p : List Nat} (h : startsWith (toInts l) p = true) : p <+: l := by
  induction p generalizing l with
  | nil => exact List.nil_prefix
  | cons a p ih =>
    cases l with
    | nil => simp [startsWith, toInts] at h
    | cons x xs =>
      simp only [toInts, List.map_cons, startsWith, Bool.and_eq_true, beq_iff_eq] at h
      have hx : x = a := by omega
      subst hx
      exact (List.cons_prefix_cons).2 ⟨rfl, ih h.2⟩

theorem drop_toInts_append (p r : List Nat) : (toInts (p ++ r)).drop p.length = toInts r := by
  simp [toInts]

theorem decodeFuel_bitPulses (zero one : List Nat) (hpf : PrefixFree zero one) (bits : List Bool)
    (fuel : Nat) (hf : bits.length ≤ fuel) :
    decodeFuel zero one fuel (toInts (bitPulses zero one bits)) = some bits := by
  induction bits generalizing fuel with
  | nil => cases fuel <;> simp [bitPulses, toInts, decodeFuel]
  | cons x xs ih =>
    cases fuel with
    | zero => simp at hf
    | succ fuel =>
      have hz : zero ≠ [] := fun h => hpf.1 (h ▸ List.nil_prefix)
      have ho : one ≠ [] := fun h => hpf.2 (h ▸ List.nil_prefix)
      have hne : toInts (bitPulses zero one (x :: xs)) ≠ [] := by
        rw [bitPulses_cons]
        cases x
        · cases zero with
          | nil => exact absurd rfl hz
          | cons a z => simp [toInts]
        · cases one with
          | nil => exact absurd rfl ho
          | cons a z => simp [toInts]
      have hstep : ∀ ds, ds ≠ [] → decodeFuel zero one (fuel + 1) ds =
          (if startsWith ds zero then (decodeFuel zero one fuel (ds.drop zero.length)).map (false :: ·)
           else if startsWith ds one then (decodeFuel zero one fuel (ds.drop one.length)).map (true :: ·)
           else none) := by
        intro ds hds
        cases ds with
        | nil => exact absurd rfl hds
        | cons a r => rfl
      rw [hstep _ hne, bitPulses_cons]
      have hxs := ih fuel (by simpa using hf)
      cases x
      · simp only [Bool.false_eq_true, ↓reduceIte]
        rw [startsWith_append, drop_toInts_append, hxs]; rfl
      · simp only [↓reduceIte]
        have hnz : startsWith (toInts (one ++ bitPulses zero one xs)) zero = false := by
          cases hsw : startsWith (toInts (one ++ bitPulses zero one xs)) zero with
          | false => rfl
          | true =>
            have h1 := startsWith_prefix hsw
            have h2 : one <+: one ++ bitPulses zero one xs := List.prefix_append _ _
            rcases List.prefix_or_prefix_of_prefix h1 h2 with h | h
            · exact absurd h hpf.1
            · exact absurd h hpf.2
        rw [hnz, startsWith_append, drop_toInts_append, hxs]; rfl

theorem bitPulses_length_ge (zero one : List Nat) (hpf : PrefixFree zero one) (bits : List Bool) :
    bits.length ≤ (bitPulses zero one bits).length := by
  have hz : 1 ≤ zero.length := by
    cases zero with
    | nil => exact absurd List.nil_prefix hpf.1
    | cons a z => simp
  have ho : 1 ≤ one.length := by
    cases one with
    | nil => exact absurd List.nil_prefix hpf.2
    | cons a z => simp
  induction bits with
  | nil => simp
  | cons x xs ih =>
    rw [bitPulses_cons, List.length_append]
    cases x <;> simp <;> omega

/-- Measuring the pulses and classifying them against `zero`/`one` recovers the bits. -/
theorem decodeBits_bitPulses (zero one : List Nat) (hpf : PrefixFree zero one) (bits : List Bool) :
    decodeBits zero one (toInts (bitPulses zero one bits)) = some bits := by
  unfold decodeBits
  apply decodeFuel_bitPulses zero one hpf
  simpa [toInts] using bitPulses_length_ge zero one hpf bits

theorem diffs_cumsum' (t : Int) (ds : List Nat) : diffs (t :: cumsum t ds) = toInts ds :=
  diffs_cumsum t ds

end Edges
