import SkoolVerif.Proofs.SnaCtlTerm
/-!
Termination of steps (2) and (3) of `_generate_ctls_with_code_map` by the measures `phi` and `psi`.
-/
namespace SnaCtl

/-! ### `phi`: sum of `end - k` over all directives -/

@[simp] theorem phi_nil (g : Nat) : phi g [] = 0 := rfl
@[simp] theorem phi_cons (g k : Nat) (v : Ctl) (r : Dict) : phi g ((k, v) :: r) = (g - k) + phi g r := by
  simp [phi]

theorem phi_dset_new (g : Nat) (d : Dict) (k : Nat) (v : Ctl) (h : k ∉ keys d) :
    phi g (dset d k v) = phi g d + (g - k) := by
  induction d with
  | nil => simp [dset]
  | cons x r ih =>
    obtain ⟨k0, v0⟩ := x
    simp at h
    unfold dset
    split
    · simp; omega
    · rw [if_neg (by omega)]
      simp [ih h.2]; omega

theorem phi_dset_old (g : Nat) (d : Dict) (k : Nat) (v : Ctl) (hs : Sorted d) (h : k ∈ keys d) :
    phi g (dset d k v) = phi g d := by
  induction d with
  | nil => simp at h
  | cons x r ih =>
    obtain ⟨k0, v0⟩ := x
    rw [sorted_cons] at hs
    simp at h
    unfold dset
    rcases h with rfl | h
    · simp
    · have := hs.1 k h
      rw [if_neg (by omega), if_neg (by omega)]
      simp [ih hs.2 h]

theorem phi_ddel_mem (g : Nat) (d : Dict) (k : Nat) (h : k ∈ keys d) :
    phi g (ddel d k) + (g - k) = phi g d := by
  induction d with
  | nil => simp at h
  | cons x r ih =>
    obtain ⟨k0, v0⟩ := x
    unfold ddel
    split
    · subst_vars; simp; omega
    · rename_i hne
      simp at h
      rcases h with rfl | h
      · exact absurd rfl hne
      · simp; have := ih h; omega

theorem phi_ddel_le (g : Nat) (d : Dict) (k : Nat) : phi g (ddel d k) ≤ phi g d := by
  induction d with
  | nil => simp [ddel]
  | cons x r ih =>
    obtain ⟨k0, v0⟩ := x
    unfold ddel
    split
    · simp
    · simp; exact ih

theorem delRange_phi (g : Nat) : ∀ (n a : Nat) (d : Dict) (nc : Ctl),
    phi g (delRange d nc a n).1 ≤ phi g d ∧
    (0 < n → a ∈ keys d → phi g (delRange d nc a n).1 + (g - a) ≤ phi g d) := by
  intro n
  induction n with
  | zero => intro a d nc; simp [delRange]
  | succ n ih =>
    intro a d nc
    unfold delRange
    split
    · rename_i v hv
      have h1 := (ih (a + 1) (ddel d a) v).1
      have hk : a ∈ keys d := (dget_isSome_iff d a).mp ⟨v, hv⟩
      have h2 := phi_ddel_mem g d a hk
      exact ⟨by omega, fun _ _ => by omega⟩
    · rename_i hv
      have hk : a ∉ keys d := (dget_eq_none_iff d a).mp hv
      exact ⟨(ih (a + 1) d nc).1, fun _ h => absurd h hk⟩

theorem delRange_sorted : ∀ (n a : Nat) (d : Dict) (nc : Ctl), Sorted d → Sorted (delRange d nc a n).1 := by
  intro n
  induction n with
  | zero => intro a d nc h; simpa [delRange] using h
  | succ n ih =>
    intro a d nc h
    unfold delRange
    split
    · exact ih _ _ _ (sorted_ddel h a)
    · exact ih _ _ _ h

theorem ftLoop_ge_end {dec : Dec} {end_ : Nat} {ctl : Option Ctl} (fuel : Nat) (d : Dict) (nc : Ctl)
    (address : Nat) (d' : Dict) (a' : Nat) (h : ¬ address < end_)
    (hr : ftLoop dec end_ ctl fuel d nc address = .ok (d', a')) : d' = d ∧ a' = address := by
  cases fuel with
  | zero => unfold ftLoop at hr; rw [if_neg h] at hr; simp at hr; exact ⟨hr.1.symm, hr.2.symm⟩
  | succ n => unfold ftLoop at hr; rw [if_neg h] at hr; simp at hr; exact ⟨hr.1.symm, hr.2.symm⟩

theorem ftLoop_none_sorted {dec : Dec} {end_ : Nat} :
    ∀ (fuel : Nat) (d : Dict) (nc : Ctl) (address : Nat) (d' : Dict) (a' : Nat), Sorted d →
      ftLoop dec end_ none fuel d nc address = .ok (d', a') → Sorted d' := by
  intro fuel
  induction fuel with
  | zero =>
    intro d nc address d' a' hsd hr
    unfold ftLoop at hr
    split at hr
    · simp at hr
    · simp at hr; rw [← hr.1]; exact hsd
  | succ n ih2 =>
    intro d nc address d' a' hsd hr
    unfold ftLoop at hr
    split at hr
    · split at hr
      · simp at hr; rw [← hr.1]; exact delRange_sorted _ _ _ _ hsd
      · simp only at hr
        have hsr := delRange_sorted (dec address).size address d nc hsd
        generalize delRange d nc address (dec address).size = r at hr hsr
        split at hr
        · simp at hr; rw [← hr.1]; exact hsr
        · split at hr
          · split at hr
            · simp at hr; rw [← hr.1]; exact sorted_dset hsr _ _
            · simp at hr; rw [← hr.1]; exact hsr
          · exact ih2 _ _ _ d' a' hsr hr
    · simp at hr; rw [← hr.1]; exact hsd

/-- Effect of the `ctl=None` walk on `phi`: it can only add the weight of the address it returns;
and if it starts on a directive before `end_`, either the very first instruction straddles `end_`
(nothing changes, `end_` is returned) or that directive's weight is gone. -/
theorem ftLoop_none_phi {dec : Dec} (hs : SizesPos dec) {g end_ : Nat} :
    ∀ (fuel : Nat) (d : Dict) (nc : Ctl) (address : Nat) (d' : Dict) (a' : Nat), Sorted d →
      ftLoop dec end_ none fuel d nc address = .ok (d', a') →
      phi g d' ≤ phi g d + (g - a') ∧
      (address ∈ keys d → address < end_ →
        (d' = d ∧ a' = end_) ∨ phi g d' + (g - address) ≤ phi g d + (g - a')) := by
  intro fuel
  induction fuel with
  | zero =>
    intro d nc address d' a' _ hr
    unfold ftLoop at hr
    split at hr
    · simp at hr
    · simp at hr; obtain ⟨rfl, rfl⟩ := hr; exact ⟨by omega, fun _ h => by omega⟩
  | succ n ih =>
    intro d nc address d' a' hsd hr
    unfold ftLoop at hr
    by_cases hlt : address < end_
    · rw [if_pos hlt] at hr
      by_cases hst : address + (dec address).size > end_
      · rw [if_pos hst] at hr; simp at hr; obtain ⟨rfl, rfl⟩ := hr
        have hdel := delRange_phi g (end_ - address) address d nc
        exact ⟨by omega, fun hk _ => Or.inr (by have := hdel.2 (by omega) hk; omega)⟩
      · rw [if_neg hst] at hr
        simp only at hr
        have hsz := hs address
        have hdel := delRange_phi g (dec address).size address d nc
        have hsr := delRange_sorted (dec address).size address d nc hsd
        generalize delRange d nc address (dec address).size = r at hr hdel hsr
        split at hr
        · simp at hr; obtain ⟨rfl, rfl⟩ := hr
          exact ⟨by omega, fun hk _ => Or.inr (by have := hdel.2 (by omega) hk; omega)⟩
        · split at hr
          · split at hr
            · rename_i hcond
              simp at hr; obtain ⟨rfl, rfl⟩ := hr
              have := phi_dset_new g r.1 (address + (dec address).size) r.2 ((dget_eq_none_iff _ _).mp hcond.2)
              exact ⟨by omega, fun hk _ => Or.inr (by have := hdel.2 (by omega) hk; omega)⟩
            · simp at hr; obtain ⟨rfl, rfl⟩ := hr
              exact ⟨by omega, fun hk _ => Or.inr (by have := hdel.2 (by omega) hk; omega)⟩
          · have := (ih r.1 r.2 _ d' a' hsr hr).1
            exact ⟨by omega, fun hk _ => Or.inr (by have := hdel.2 (by omega) hk; omega)⟩
    · rw [if_neg hlt] at hr; simp at hr; obtain ⟨rfl, rfl⟩ := hr
      exact ⟨by omega, fun _ h => absurd h hlt⟩

/-- block ends are present directives, in increasing order -/
def EndsAll (d : Dict) : List (Ctl × Nat × Nat) → Prop
  | e :: rest => (e.2.2 ∈ keys d ∧ ∀ x ∈ rest, e.2.2 < x.2.2) ∧ EndsAll d rest
  | [] => True

theorem getBlocks_endsAll : ∀ (d dfull : Dict), Sorted d → (∀ k ∈ keys d, k ∈ keys dfull) →
    EndsAll dfull (getBlocks d) := by
  intro d
  induction d with
  | nil => intro _ _ _; simp [getBlocks, EndsAll]
  | cons x r ih =>
    obtain ⟨k, v⟩ := x
    cases r with
    | nil => intro _ _ _; simp [getBlocks, EndsAll]
    | cons y r' =>
      obtain ⟨k', v'⟩ := y
      intro dfull hs hsub
      have hs' := hs
      rw [sorted_cons] at hs'
      have ih' := ih dfull hs'.2 (fun k hk => hsub k (by simp [keys] at hk ⊢; exact Or.inr hk))
      have hgt := getBlocks_ends_gt hs'.2 (k := k') (by
        intro k1 hk1
        have hs2 := hs'.2
        rw [sorted_cons] at hs2
        simp at hk1
        rcases hk1 with rfl | hk1
        · exact Nat.le_refl _
        · have := hs2.1 k1 (by simpa using hk1); omega)
      simp only [getBlocks, EndsAll]
      exact ⟨⟨hsub k' (by simp), hgt⟩, ih'⟩

theorem step2Pass_sorted {dec : Dec} {end_ : Nat} :
    ∀ (bl : List (Ctl × Nat × Nat)) (d d' : Dict) (done : Bool), Sorted d →
      step2Pass dec end_ bl d = .ok (d', done) → Sorted d' := by
  intro bl
  induction bl with
  | nil => intro d d' done h hr; simp [step2Pass] at hr; rw [← hr.1]; exact h
  | cons b rest ih =>
    obtain ⟨ctl, bs, be⟩ := b
    intro d d' done h hr
    unfold step2Pass at hr
    split at hr
    · split at hr
      · exact ih d d' done h hr
      · split at hr
        · simp at hr
        · rename_i d1 a1 hft
          have h1 : Sorted d1 := ftLoop_none_sorted _ d .U be d1 a1 h hft
          split at hr
          · simp at hr; rw [← hr.1]; exact h1
          · exact ih d1 d' done h1 hr
    · exact ih d d' done h hr

/-- after the first call of a pass (made from block end `m`): a pass that asks for a restart has
gained less than the weight of `m` -/
theorem step2Pass_phi_after {dec : Dec} (hs : SizesPos dec) {end_ m : Nat} :
    ∀ (bl : List (Ctl × Nat × Nat)) (d d' : Dict), Sorted d → (∀ b ∈ bl, m < b.2.2) →
      step2Pass dec end_ bl d = .ok (d', false) → phi end_ d' < phi end_ d + (end_ - m) := by
  intro bl
  induction bl with
  | nil => intro d d' _ _ hr; simp [step2Pass] at hr
  | cons b rest ih =>
    obtain ⟨ctl, bs, be⟩ := b
    intro d d' hsd hm hr
    have hrest : ∀ b ∈ rest, m < b.2.2 := fun b hb => hm b (by simp [hb])
    have hbe : m < be := hm (ctl, bs, be) (by simp)
    unfold step2Pass at hr
    split at hr
    · split at hr
      · exact ih d d' hsd hrest hr
      · split at hr
        · simp at hr
        · rename_i d1 a1 hft
          have hphi := (ftLoop_none_phi hs (g := end_) _ d .U be d1 a1 hsd hft).1
          have hs1 : Sorted d1 := ftLoop_none_sorted _ d .U be d1 a1 hsd hft
          have hprog : be ≤ a1 := by
            by_cases hb : be < end_
            · exact (ftLoop_progress hs _ d .U be d1 a1 (by omega) hft).2.2
            · exact Nat.le_of_eq (ftLoop_ge_end _ d .U be d1 a1 hb hft).2.symm
          split at hr
          · rename_i hlt
            simp at hr; obtain rfl := hr
            omega
          · rename_i hge
            have := ih d1 d' hs1 hrest hr
            omega
    · exact ih d d' hsd hrest hr

/-- a pass over a fresh block list that asks for a restart has strictly decreased `phi` -/
theorem step2Pass_phi {dec : Dec} (hs : SizesPos dec) {end_ : Nat} :
    ∀ (bl : List (Ctl × Nat × Nat)) (d d' : Dict), Sorted d → EndsAll d bl →
      step2Pass dec end_ bl d = .ok (d', false) → phi end_ d' < phi end_ d := by
  intro bl
  induction bl with
  | nil => intro d d' _ _ hr; simp [step2Pass] at hr
  | cons b rest ih =>
    obtain ⟨ctl, bs, be⟩ := b
    intro d d' hsd he hr
    simp only [EndsAll] at he
    unfold step2Pass at hr
    split at hr
    · split at hr
      · exact ih d d' hsd he.2 hr
      · split at hr
        · simp at hr
        · rename_i d1 a1 hft
          by_cases hb : be < end_
          · have hphi := ftLoop_none_phi hs (g := end_) _ d .U be d1 a1 hsd hft
            have hprog := ftLoop_progress hs _ d .U be d1 a1 (by omega) hft
            have hgt := hprog.1 hb
            rcases hphi.2 he.1.1 hb with ⟨rfl, rfl⟩ | hcred
            · -- first instruction straddles end_: nothing changed, end_ returned
              rw [if_neg (by omega)] at hr
              exact ih d1 d' hsd he.2 hr
            · split at hr
              · simp at hr; obtain rfl := hr
                omega
              · have hs1 : Sorted d1 := ftLoop_none_sorted _ d .U be d1 a1 hsd hft
                have h3 := step2Pass_phi_after hs (m := be) rest d1 d' hs1 he.1.2 hr
                omega
          · obtain ⟨rfl, rfl⟩ := ftLoop_ge_end _ d .U be d1 a1 hb hft
            rw [if_neg hb] at hr
            exact ih d1 d' hsd he.2 hr
    · exact ih d d' hsd he.2 hr

/-- Step (2) terminates: `phi + 1` iterations suffice, because every pass that asks for a restart
has strictly decreased `phi`. -/
theorem step2_total {dec : Dec} (hs : SizesPos dec) {end_ : Nat} :
    ∀ (fuel : Nat) (d : Dict), Sorted d → phi end_ d < fuel → ∃ d', step2 dec end_ fuel d = .ok d' := by
  intro fuel
  induction fuel with
  | zero => intro d _ h; omega
  | succ n ih =>
    intro d hsd h
    unfold step2
    have htot : ∀ (bl : List (Ctl × Nat × Nat)) (d0 : Dict), ∃ r, step2Pass dec end_ bl d0 = .ok r := by
      intro bl
      induction bl with
      | nil => intro d0; exact ⟨_, rfl⟩
      | cons b rest ihb =>
        obtain ⟨ctl, bs, be⟩ := b
        intro d0
        unfold step2Pass
        split
        · split
          · exact ihb d0
          · obtain ⟨⟨d1, a1⟩, hr⟩ := findTerminal_total hs end_ none d0 be
            rw [hr]
            simp only
            split
            · exact ⟨_, rfl⟩
            · exact ihb d1
        · exact ihb d0
    obtain ⟨⟨d1, done⟩, hp⟩ := htot (getBlocks d) d
    rw [hp]
    cases done with
    | true => exact ⟨_, rfl⟩
    | false =>
      simp only
      have hlt := step2Pass_phi hs (getBlocks d) d d1 hsd (getBlocks_endsAll d d hsd (fun _ h => h)) hp
      exact ih d1 (step2Pass_sorted _ d d1 false hsd hp) (by omega)

/-! ### `psi`: sum of `end - k` over the `U` directives (step (3)) -/

@[simp] theorem psi_nil (g : Nat) : psi g [] = 0 := rfl

theorem psi_cons (g k : Nat) (v : Ctl) (r : Dict) :
    psi g ((k, v) :: r) = (if v = .U then g - k else 0) + psi g r := by
  unfold psi
  by_cases h : v = .U <;> simp [List.filter_cons, h]

theorem psi_dset_new_U (g : Nat) (d : Dict) (k : Nat) (h : k ∉ keys d) :
    psi g (dset d k .U) = psi g d + (g - k) := by
  induction d with
  | nil => simp [dset, psi_cons]
  | cons x r ih =>
    obtain ⟨k0, v0⟩ := x
    simp at h
    unfold dset
    split
    · simp [psi_cons]; omega
    · rw [if_neg (by omega)]
      simp [psi_cons, ih h.2]; omega

theorem psi_dset_U_to_c (g : Nat) (d : Dict) (u : Nat) (hs : Sorted d) (h : dget d u = some .U) :
    psi g (dset d u .c) + (g - u) = psi g d := by
  induction d with
  | nil => simp [dget] at h
  | cons x r ih =>
    obtain ⟨k0, v0⟩ := x
    rw [sorted_cons] at hs
    unfold dget at h
    unfold dset
    split at h
    · subst_vars
      simp at h; subst h
      simp [psi_cons]; omega
    · rename_i hne
      have hk : u ∈ keys r := (dget_isSome_iff r u).mp ⟨_, h⟩
      have := hs.1 u hk
      rw [if_neg (by omega), if_neg hne]
      simp [psi_cons]
      have := ih hs.2 h
      omega

/-- with a directive letter the walk inserts at most one directive, at the address it returns -/
theorem ftLoop_some_shape {dec : Dec} {end_ : Nat} {c : Ctl} :
    ∀ (fuel : Nat) (d : Dict) (nc : Ctl) (address : Nat) (d' : Dict) (a' : Nat),
      ftLoop dec end_ (some c) fuel d nc address = .ok (d', a') →
      d' = d ∨ (d' = dset d a' c ∧ dget d a' = none) := by
  intro fuel
  induction fuel with
  | zero =>
    intro d nc address d' a' hr
    unfold ftLoop at hr
    split at hr
    · simp at hr
    · simp at hr; exact Or.inl hr.1.symm
  | succ n ih =>
    intro d nc address d' a' hr
    unfold ftLoop at hr
    split at hr
    · split at hr
      · simp at hr; exact Or.inl hr.1.symm
      · simp only at hr
        split at hr
        · rename_i hcc; simp at hcc
        · split at hr
          · split at hr
            · rename_i hcond
              simp at hr; obtain ⟨rfl, rfl⟩ := hr
              exact Or.inr ⟨rfl, hcond.2⟩
            · simp at hr; exact Or.inl hr.1.symm
          · exact ih _ _ _ d' a' hr
    · simp at hr; exact Or.inl hr.1.symm

/-- Step (3) terminates: every iteration turns a `U` directive into `c` and adds at most one `U`
at a larger address, so `psi` strictly decreases; `psi + 1` iterations suffice. -/
theorem step3_total {dec : Dec} {dis : Dis} (hs : SizesPos dec) {start end_ : Nat} :
    ∀ (fuel : Nat) (d : Dict), Inv start end_ d → psi end_ d < fuel → ∃ d', step3 dec dis fuel d = .ok d' := by
  intro fuel
  induction fuel with
  | zero => intro d _ h; omega
  | succ n ih =>
    intro d h hlt
    unfold step3
    split
    · exact ⟨_, rfl⟩
    · rename_i u eEnd hf
      obtain ⟨b, hb, rfl, rfl, hU⟩ := findEntryPoint_mem hf
      have hin := getBlocks_in h b hb
      have hmem := getBlocks_mem h.sorted b hb
      obtain ⟨⟨d1, a1⟩, hft⟩ := findTerminal_total hs b.2.2 (some .U) (dset d b.2.1 .c) b.2.1
      rw [hft]
      simp only
      have h0 : Inv start end_ (dset d b.2.1 .c) := inv_dset h hin.1 (by omega) (by simp)
      have h1 := (ftLoop_inv_some (c := .U) (by simp) hin.2.2 _ _ .U _ d1 a1 h0 hin.1 hft).1
      have hprog := ftLoop_progress hs _ _ .U b.2.1 d1 a1 (by omega) hft
      have hgt := hprog.1 hin.2.1
      have hpsi0 := psi_dset_U_to_c end_ d b.2.1 h.sorted (by rw [hmem.2.2.2, hU])
      apply ih d1 h1
      rcases ftLoop_some_shape _ _ .U _ d1 a1 hft with rfl | ⟨rfl, hnone⟩
      · omega
      · have := psi_dset_new_U end_ (dset d b.2.1 .c) a1 ((dget_eq_none_iff _ _).mp hnone)
        omega

/-- `_generate_ctls_with_code_map` terminates (the model never runs out of fuel) for every decode
stream with positive sizes, every second decoder, image, configuration and executed-address set. -/
theorem genMap_total {dec0 dec : Dec} {dis : Dis} (hs : SizesPos dec) (mem : Mem) (cfg : Cfg) {start end_ : Nat}
    (hse : start ≤ end_) (addrs : List Nat) (ha : ∀ a ∈ addrs, start ≤ a ∧ a < end_) :
    ∃ d, genMap dec0 dec dis mem cfg start end_ addrs = .ok d := by
  unfold genMap
  simp only [bind, Except.bind, pure, Except.pure]
  have h1 := initMap_inv hse _ (codeBlocks_in dec0 addrs ha)
  obtain ⟨d2, h2e⟩ := step2_total (end_ := end_) hs (phi end_ (initMap start end_ (codeBlocks dec0 addrs)) + 1) _ h1.sorted (by omega)
  rw [h2e]
  have h2 := step2_inv _ _ d2 h1 h2e
  obtain ⟨d3, h3e⟩ := step3_total (dis := dis) hs (psi end_ d2 + 1) d2 h2 (by omega)
  simp only
  rw [h3e]
  have h3 := step3_inv _ _ d3 h2 h3e
  obtain ⟨d4, h4e⟩ := step4_total hs (getBlocks d3) d3
  simp only
  rw [h4e]
  have h4 := step4_inv _ _ d4 (getBlocks_in h3) h3 h4e
  obtain ⟨d5, h5e⟩ := step5_total (dis := dis) (d4.length + 1) d4 h4.sorted (by omega)
  simp only
  rw [h5e]
  exact ⟨_, rfl⟩

end SnaCtl
