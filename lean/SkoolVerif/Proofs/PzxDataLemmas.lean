import SkoolVerif.Proofs.PulsLemmas
/-!
`dataBlock` (skoolkit's `DATA` decoder) inverts the specification encoder.
-/
namespace TapeFiles
open PzxSpec Edges

theorem word?_append_left (pre l : List Nat) (k : Nat) :
    word? (pre ++ l) (pre.length + k) = word? l k := by
  unfold word?
  have h1 : (pre ++ l)[pre.length + k]? = l[k]? := by
    rw [List.getElem?_append_right (by omega)]; congr 1; omega
  have h2 : (pre ++ l)[pre.length + k + 1]? = l[k + 1]? := by
    rw [List.getElem?_append_right (by omega)]; congr 1; omega
  rw [h1, h2]

theorem words?_flat (s rest : List Nat) (hs : ∀ x ∈ s, x < 65536) :
    words? (s.flatMap wordBytes ++ rest) 0 s.length = .ok s := by
  suffices h : ∀ (pre : List Nat), words? (pre ++ (s.flatMap wordBytes ++ rest)) pre.length s.length = .ok s by
    simpa using h []
  induction s with
  | nil => intro pre; rfl
  | cons w ws ih =>
    intro pre
    have hw : word? (pre ++ ((w :: ws).flatMap wordBytes ++ rest)) pre.length = .ok w := by
      have := word?_append_left pre ((w :: ws).flatMap wordBytes ++ rest) 0
      rw [Nat.add_zero] at this
      rw [this]
      simp only [List.flatMap_cons, wordBytes, List.cons_append, List.nil_append]
      exact word_cons w _
    have hrest := ih (fun x hx => hs x (List.mem_cons_of_mem _ hx)) (pre ++ wordBytes w)
    have happ : pre ++ wordBytes w ++ (ws.flatMap wordBytes ++ rest) =
        pre ++ ((w :: ws).flatMap wordBytes ++ rest) := by
      simp [List.flatMap_cons]
    have hlen : (pre ++ wordBytes w).length = pre.length + 2 := by simp [wordBytes]
    rw [happ, hlen] at hrest
    simp only [List.length_cons, words?, hw, hrest]

theorem words?_append_left (pre l : List Nat) (n : Nat) :
    words? (pre ++ l) pre.length n = words? l 0 n := by
  suffices h : ∀ k, words? (pre ++ l) (pre.length + k) n = words? l k n by simpa using h 0
  induction n with
  | zero => intro k; rfl
  | succ n ih =>
    intro k
    simp only [words?, word?_append_left]
    rw [show pre.length + k + 2 = pre.length + (k + 2) by omega, ih (k + 2)]

theorem dword_sum (n : Nat) (h : n < 2 ^ 32) :
    n % 256 + 256 * (n / 256 % 256) + 65536 * (n / 65536 % 256) + 16777216 * (n / 16777216 % 256) = n := by
  omega

/-- The decoded `DATA` block. -/
def specDataBlock (level nbits tail : Nat) (s0 s1 data : List Nat) (prev : Bool) : PzxBlock :=
  ⟨.data, some { zero := s0, one := s1, usedBits := if nbits % 8 ≠ 0 then nbits % 8 else 8, tail := tail,
                 polarity := some level },
   some data, prev && s0.length == 2 && s1.length == 2 && s0 == [855, 855] && s1 == [1710, 1710], none⟩

theorem dataBlock_encode (level nbits tail : Nat) (s0 s1 data R : List Nat) (prev : Bool)
    (hv : ValidData level nbits tail s0 s1 data) :
    dataBlock (encodeData level nbits tail s0 s1 data ++ R) prev =
      .ok (specDataBlock level nbits tail s0 s1 data prev) := by
  obtain ⟨hl, hn, ht, h0, h1, hs0, hs1, hd⟩ := hv
  have hc := dword_sum (level * 0x80000000 + nbits) (by omega)
  have htl : tail % 256 + 256 * (tail / 256) = tail := by omega
  unfold encodeData dwordBytes
  rw [show wordBytes tail = [tail % 256, tail / 256] from rfl]
  generalize (level * 0x80000000 + nbits) % 256 = c0 at hc
  generalize (level * 0x80000000 + nbits) / 256 % 256 = c1 at hc
  generalize (level * 0x80000000 + nbits) / 65536 % 256 = c2 at hc
  generalize (level * 0x80000000 + nbits) / 16777216 % 256 = c3 at hc
  generalize tail % 256 = t0 at htl
  generalize tail / 256 = t1 at htl
  -- the body as an explicit 8-byte prefix followed by the sequences and the bytes
  have hbody : [c0, c1, c2, c3] ++ [t0, t1] ++ [s0.length, s1.length] ++ s0.flatMap wordBytes ++
      s1.flatMap wordBytes ++ data ++ R =
      [c0, c1, c2, c3, t0, t1, s0.length, s1.length] ++
        (s0.flatMap wordBytes ++ (s1.flatMap wordBytes ++ (data ++ R))) := by simp
  rw [hbody]
  have hcount : dword? ([c0, c1, c2, c3, t0, t1, s0.length, s1.length] ++
      (s0.flatMap wordBytes ++ (s1.flatMap wordBytes ++ (data ++ R)))) 0 = .ok (level * 0x80000000 + nbits) := by
    rw [← hc]; rfl
  have htail : word? ([c0, c1, c2, c3, t0, t1, s0.length, s1.length] ++
      (s0.flatMap wordBytes ++ (s1.flatMap wordBytes ++ (data ++ R)))) 4 = .ok tail := by
    rw [← htl]; rfl
  have hp0 : ([c0, c1, c2, c3, t0, t1, s0.length, s1.length] ++
      (s0.flatMap wordBytes ++ (s1.flatMap wordBytes ++ (data ++ R))))[6]? = some s0.length := rfl
  have hp1 : ([c0, c1, c2, c3, t0, t1, s0.length, s1.length] ++
      (s0.flatMap wordBytes ++ (s1.flatMap wordBytes ++ (data ++ R))))[7]? = some s1.length := rfl
  have hw0 : words? ([c0, c1, c2, c3, t0, t1, s0.length, s1.length] ++
      (s0.flatMap wordBytes ++ (s1.flatMap wordBytes ++ (data ++ R)))) 8 s0.length = .ok s0 := by
    have := words?_append_left [c0, c1, c2, c3, t0, t1, s0.length, s1.length]
      (s0.flatMap wordBytes ++ (s1.flatMap wordBytes ++ (data ++ R))) s0.length
    rw [show ([c0, c1, c2, c3, t0, t1, s0.length, s1.length] : List Nat).length = 8 from rfl] at this
    rw [this]
    exact words?_flat s0 _ hs0
  have hflen : ∀ s : List Nat, (s.flatMap wordBytes).length = 2 * s.length := by
    intro s
    induction s with
    | nil => rfl
    | cons a r ih => simp [List.flatMap_cons, wordBytes, ih]; omega
  have hw1 : words? ([c0, c1, c2, c3, t0, t1, s0.length, s1.length] ++
      (s0.flatMap wordBytes ++ (s1.flatMap wordBytes ++ (data ++ R)))) (8 + 2 * s0.length) s1.length = .ok s1 := by
    have hre : [c0, c1, c2, c3, t0, t1, s0.length, s1.length] ++
        (s0.flatMap wordBytes ++ (s1.flatMap wordBytes ++ (data ++ R))) =
        ([c0, c1, c2, c3, t0, t1, s0.length, s1.length] ++ s0.flatMap wordBytes) ++
          (s1.flatMap wordBytes ++ (data ++ R)) := by simp
    have := words?_append_left ([c0, c1, c2, c3, t0, t1, s0.length, s1.length] ++ s0.flatMap wordBytes)
      (s1.flatMap wordBytes ++ (data ++ R)) s1.length
    rw [List.length_append, hflen,
      show ([c0, c1, c2, c3, t0, t1, s0.length, s1.length] : List Nat).length = 8 from rfl] at this
    rw [hre, this]
    exact words?_flat s1 _ hs1
  have hdrop : ([c0, c1, c2, c3, t0, t1, s0.length, s1.length] ++
      (s0.flatMap wordBytes ++ (s1.flatMap wordBytes ++ (data ++ R)))).drop (8 + 2 * s0.length + 2 * s1.length) =
      data ++ R := by
    have hre : [c0, c1, c2, c3, t0, t1, s0.length, s1.length] ++
        (s0.flatMap wordBytes ++ (s1.flatMap wordBytes ++ (data ++ R))) =
        ([c0, c1, c2, c3, t0, t1, s0.length, s1.length] ++ s0.flatMap wordBytes ++ s1.flatMap wordBytes) ++
          (data ++ R) := by simp
    rw [hre]
    apply List.drop_left'
    simp [hflen]
    omega
  have hbits : (level * 0x80000000 + nbits) % 0x80000000 = nbits := by omega
  have hpol : (level * 0x80000000 + nbits) / 0x80000000 = level := by omega
  unfold dataBlock
  rw [hcount]
  simp only [hbits, hpol, htail]
  rw [hp0, hp1]
  simp only [hw0, hw1, hdrop]
  have htake : (data ++ R).take (nbits / 8 + if (if nbits % 8 ≠ 0 then nbits % 8 else 8) < 8 then 1 else 0) = data := by
    have : nbits / 8 + (if (if nbits % 8 ≠ 0 then nbits % 8 else 8) < 8 then 1 else 0) = data.length := by
      rw [hd]
      by_cases h8 : nbits % 8 = 0
      · simp [h8]; omega
      · have : nbits % 8 < 8 := Nat.mod_lt _ (by decide)
        simp [h8, this]; omega
    rw [this]; simp
  rw [htake]
  rfl

end TapeFiles
