import SkoolVerif.Proofs.Dispatch.All
import SkoolVerif.Proofs.SimStep
import SkoolVerif.Proofs.CmioStep
/-! The contended and the plain simulator run the same closure for every opcode sequence, and a whole
`step` of one relates to a `step` of the other as the closures do. -/
namespace CmioVsSim
open Z80 DispatchEq
variable {μ : Type} [MemLike μ]

theorem getD_map {α β : Type} (f : α → β) (a : Array α) (i : Nat) (d : α) :
    (a.map f).getD i (f d) = f (a.getD i d) := by
  simp [Array.getD_eq_getD_getElem?, Array.getElem?_map]

theorem arr_map (t : Sim.OpTbl) : (tblMap t).arr = t.arr.map toCmio := by
  cases t
  · exact cmio_MAIN
  · exact cmio_CB
  · exact cmio_ED
  · exact cmio_DD
  · exact cmio_FD
  · exact cmio_DDCB
  · exact cmio_FDCB

theorem get_map (t : Sim.OpTbl) (i : Int) : Cmio.OpTbl.get (tblMap t) i = toCmio (Sim.OpTbl.get t i) := by
  unfold Cmio.OpTbl.get Sim.OpTbl.get
  rw [arr_map]
  exact getD_map toCmio _ _ (.prefix_ .MAIN)

theorem leafOf2_map (s : St μ) (i : Sim.Instr) : Cmio.leafOf2 s (toCmio i) = toCmio (Sim.leafOf2 s i) := by
  cases i <;> first | rfl | exact get_map _ _

theorem leafOf1_map (s : St μ) (i : Sim.Instr) : Cmio.leafOf1 s (toCmio i) = toCmio (Sim.leafOf1 s i) := by
  cases i <;> first | rfl | skip
  · rename_i tbl
    show Cmio.leafOf2 s (Cmio.OpTbl.get (tblMap tbl) (mget s.mem ((s.pc + 1) % 65536))) =
      toCmio (Sim.leafOf2 s (Sim.OpTbl.get tbl (mget s.mem ((s.pc + 1) % 65536))))
    rw [get_map]; exact leafOf2_map s _
  · exact leafOf2_map s (.prefix2_ _)

theorem leafOf_map (s : St μ) : Cmio.leafOf s = toCmio (Sim.leafOf s) := by
  unfold Cmio.leafOf Sim.leafOf
  have h0 := get_map .MAIN (mget s.mem s.pc)
  simp only [tblMap] at h0
  rw [h0]; exact leafOf1_map s _

/-- one whole `step` (opcode fetch through the prefix tables + closure), every closure but `BIT n,(HL)` -/
theorem same_step (cfg : Cfg) (s : St μ) (hb : isBitHl (Sim.leafOf s) = false) (hr : RegsOk s.reg)
    (hcfg : CfgOk cfg) : SameButClock (Sim.step cfg s) (Cmio.step cfg s) := by
  rw [Sim.step_eq, Cmio.step_eq, leafOf_map]
  exact same_execLeaf cfg _ hb s hr hcfg

/-- one whole `step`, every closure: the same but for T, MEMPTR and bits 5 and 3 of F -/
theorem sameModF53_step (cfg : Cfg) (s : St μ) (hr : RegsOk s.reg) (hcfg : CfgOk cfg) :
    SameModF53 (Sim.step cfg s) (Cmio.step cfg s) := by
  rw [Sim.step_eq, Cmio.step_eq, leafOf_map]
  exact sameModF53_execLeaf cfg _ s hr hcfg

end CmioVsSim
