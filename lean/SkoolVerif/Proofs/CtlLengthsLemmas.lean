import SkoolVerif.Model.CtlLengths
/-! Helper lemmas for the sublength-list round trips (C03). -/
namespace CtlLengths

set_option linter.unusedSectionVars false
variable {α : Type} [DecidableEq α]

theorem expand_append (a b : List (α × Nat)) : expand (a ++ b) = expand a ++ expand b := by
  induction a with
  | nil => simp [expand]
  | cons h t ih => obtain ⟨x, n⟩ := h; simp [expand, ih]

theorem expand_step (acc : List (α × Nat)) (x : α) :
    expand (glStep acc x).reverse = expand acc.reverse ++ [x] := by
  cases acc with
  | nil => simp [glStep, expand]
  | cons h r =>
    obtain ⟨y, n⟩ := h
    by_cases hxy : x = y
    · subst hxy
      simp [glStep, expand_append, expand, List.replicate_succ']
    · simp [glStep, hxy, expand_append, expand]

theorem expand_foldl (xs : List α) (acc : List (α × Nat)) :
    expand (xs.foldl glStep acc).reverse = expand acc.reverse ++ xs := by
  induction xs generalizing acc with
  | nil => simp
  | cons x t ih => simp [List.foldl_cons, ih, expand_step]

/-- Adjacent groups carry different values. -/
def NoAdj : List (α × Nat) → Prop
  | a :: b :: r => a.1 ≠ b.1 ∧ NoAdj (b :: r)
  | _ => True

/-- Normal form of an abbreviated list: every multiplier ≥ 1, adjacent values differ. -/
def Normal (gs : List (α × Nat)) : Prop := (∀ g ∈ gs, 1 ≤ g.2) ∧ NoAdj gs

theorem noAdj_cons_iff (a : α × Nat) (l : List (α × Nat)) :
    NoAdj (a :: l) ↔ (∀ b ∈ l.head?, a.1 ≠ b.1) ∧ NoAdj l := by
  cases l with
  | nil => simp [NoAdj]
  | cons b r => simp [NoAdj]

theorem noAdj_append_singleton (l : List (α × Nat)) (a : α × Nat) :
    NoAdj (l ++ [a]) ↔ NoAdj l ∧ (∀ b ∈ l.getLast?, b.1 ≠ a.1) := by
  induction l with
  | nil => simp [NoAdj]
  | cons h t ih =>
    cases t with
    | nil => simp [NoAdj]
    | cons h2 t2 =>
      have : NoAdj (h :: h2 :: t2 ++ [a]) ↔ h.1 ≠ h2.1 ∧ NoAdj (h2 :: t2 ++ [a]) := by
        simp [NoAdj]
      rw [this, ih]
      simp [NoAdj, List.getLast?_cons_cons, and_assoc]

theorem noAdj_reverse (l : List (α × Nat)) : NoAdj l.reverse ↔ NoAdj l := by
  induction l with
  | nil => simp
  | cons h t ih =>
    rw [List.reverse_cons, noAdj_append_singleton, ih, noAdj_cons_iff]
    simp only [List.getLast?_reverse]
    constructor
    · rintro ⟨h1, h2⟩; exact ⟨fun b hb => (h2 b hb).symm, h1⟩
    · rintro ⟨h1, h2⟩; exact ⟨h2, fun b hb => (h1 b hb).symm⟩

theorem normal_step (acc : List (α × Nat)) (x : α) (h : Normal acc) : Normal (glStep acc x) := by
  obtain ⟨h1, h2⟩ := h
  cases acc with
  | nil => simp [glStep, Normal, NoAdj]
  | cons g r =>
    obtain ⟨y, n⟩ := g
    by_cases hxy : x = y
    · subst hxy
      simp only [glStep, if_true]
      refine ⟨?_, ?_⟩
      · intro g hg
        simp only [List.mem_cons] at hg
        rcases hg with rfl | hg
        · simp
        · exact h1 g (List.mem_cons_of_mem _ hg)
      · rw [noAdj_cons_iff] at h2 ⊢; exact h2
    · simp only [glStep, hxy, if_false]
      refine ⟨?_, ?_⟩
      · intro g hg
        simp only [List.mem_cons] at hg
        rcases hg with rfl | hg
        · simp
        · exact h1 g (by simpa using hg)
      · exact ⟨hxy, h2⟩

theorem normal_foldl (xs : List α) (acc : List (α × Nat)) (h : Normal acc) :
    Normal (xs.foldl glStep acc) := by
  induction xs generalizing acc with
  | nil => simpa
  | cons x t ih => exact ih _ (normal_step acc x h)

theorem normal_reverse (l : List (α × Nat)) (h : Normal l) : Normal l.reverse :=
  ⟨fun g hg => h.1 g (by simpa using hg), (noAdj_reverse l).2 h.2⟩

/-- Folding `glStep` over `replicate n a` from an accumulator whose head is not `a`. -/
theorem foldl_replicate (a : α) (n : Nat) (acc : List (α × Nat)) (hacc : ∀ b ∈ acc.head?, b.1 ≠ a) :
    (List.replicate (n + 1) a).foldl glStep acc = (a, n + 1) :: acc := by
  induction n with
  | zero =>
    cases acc with
    | nil => simp [glStep]
    | cons g r =>
      obtain ⟨y, m⟩ := g
      have : a ≠ y := fun e => hacc (y, m) (by simp) e.symm
      simp [glStep, this]
  | succ n ih =>
    rw [List.replicate_succ', List.foldl_append, ih]
    simp [glStep]

theorem foldl_expand (gs : List (α × Nat)) (acc : List (α × Nat)) (h : Normal gs)
    (hacc : ∀ b ∈ acc.head?, ∀ g ∈ gs.head?, b.1 ≠ g.1) :
    (expand gs).foldl glStep acc = gs.reverse ++ acc := by
  induction gs generalizing acc with
  | nil => simp [expand]
  | cons g r ih =>
    obtain ⟨a, n⟩ := g
    have hn : 1 ≤ n := h.1 (a, n) (by simp)
    obtain ⟨m, rfl⟩ : ∃ m, n = m + 1 := ⟨n - 1, by omega⟩
    have hr : Normal r := ⟨fun g hg => h.1 g (List.mem_cons_of_mem _ hg), ((noAdj_cons_iff _ _).1 h.2).2⟩
    simp only [expand, List.foldl_append]
    rw [foldl_replicate a m acc (fun b hb => hacc b hb (a, m + 1) (by simp))]
    rw [ih _ hr]
    · simp
    · intro b hb g hg
      simp only [List.head?_cons, Option.mem_def, Option.some.injEq] at hb
      subst hb
      exact ((noAdj_cons_iff _ _).1 h.2).1 g hg

/-! ### trailing duplicates and the refill loop -/

theorem fill_exact (l : Nat) (s : α) (hl : 0 < l) (k fuel : Nat) (hf : k ≤ fuel) :
    fill l s fuel (k * l) = List.replicate k s := by
  induction k generalizing fuel with
  | zero => cases fuel <;> simp [fill]
  | succ k ih =>
    obtain ⟨f, rfl⟩ : ∃ f, fuel = f + 1 := ⟨fuel - 1, by omega⟩
    have hpos : (k + 1) * l ≠ 0 := Nat.mul_ne_zero (by omega) (by omega)
    simp only [fill, hpos, if_false]
    have : (k + 1) * l - l = k * l := by rw [Nat.succ_mul]; omega
    rw [this, ih f (by omega), List.replicate_succ]

theorem fillBlock_exact (l : Nat) (s : α) (hl : 0 < l) (k : Nat) :
    fillBlock l s (k * l) = List.replicate k s := by
  have : (if l = 0 then k * l else l) = l := by simp; omega
  rw [fillBlock, this]
  exact fill_exact l s hl k (k * l) (Nat.le_mul_of_pos_right k hl)

theorem fillBlock_one (l : Nat) (s : α) (hl : 0 < l) : fillBlock l s l = [s] := by
  simpa using fillBlock_exact l s hl 1

/-- `trimRev` only removes copies of the head. -/
theorem trimRev_spec (l : List α) (hl : l ≠ []) :
    ∃ a r k, trimRev l = a :: r ∧ l = List.replicate k a ++ a :: r ∧ (∀ b ∈ r.head?, a ≠ b) := by
  induction l with
  | nil => exact absurd rfl hl
  | cons a t ih =>
    cases t with
    | nil => exact ⟨a, [], 0, by simp [trimRev], by simp, by simp⟩
    | cons b r =>
      by_cases hab : a = b
      · subst hab
        obtain ⟨a', r', k, h1, h2, h3⟩ := ih (by simp)
        refine ⟨a', r', k + 1, by simpa [trimRev] using h1, ?_, h3⟩
        have : a = a' := by
          cases k with
          | zero => simpa using (List.cons.inj h2).1
          | succ k => simpa [List.replicate_succ] using (List.cons.inj h2).1
        subst this
        rw [h2, List.replicate_succ]; simp
      · exact ⟨a, b :: r, 0, by simp [trimRev, hab], by simp, by simpa using hab⟩

theorem total_append (len : α → Nat) (a b : List α) : total len (a ++ b) = total len a + total len b := by
  simp [total]

theorem total_replicate (len : α → Nat) (k : Nat) (a : α) : total len (List.replicate k a) = k * len a := by
  simp [total]

theorem layout_init (len : α → Nat) (hpos : ∀ s, 0 < len s) (p : List α) (a : α) (k : Nat) :
    layout len (total len p + (k + 1) * len a) (p ++ [a]) = p ++ List.replicate (k + 1) a := by
  induction p with
  | nil =>
    simp only [List.nil_append, total, List.map_nil, List.sum_nil, Nat.zero_add, layout]
    exact fillBlock_exact (len a) a (hpos a) (k + 1)
  | cons s t ih =>
    cases t with
    | nil =>
      simp only [List.cons_append, List.nil_append, layout]
      rw [fillBlock_one _ _ (hpos s)]
      have : total len [s] + (k + 1) * len a - len s = (k + 1) * len a := by simp [total]
      rw [this, fillBlock_exact (len a) a (hpos a) (k + 1)]; simp
    | cons t1 t2 =>
      have e : s :: t1 :: t2 ++ [a] = s :: t1 :: (t2 ++ [a]) := by simp
      rw [e, layout, fillBlock_one _ _ (hpos s)]
      have : total len (s :: t1 :: t2) + (k + 1) * len a - len s = total len (t1 :: t2) + (k + 1) * len a := by
        simp [total]; omega
      rw [this]
      have e2 : t1 :: (t2 ++ [a]) = (t1 :: t2) ++ [a] := by simp
      rw [e2, ih]; simp

theorem trimTail_spec (xs : List α) (hx : xs ≠ []) :
    ∃ p a k, trimTail xs = p ++ [a] ∧ xs = p ++ List.replicate (k + 1) a := by
  obtain ⟨a, r, k, h1, h2, _⟩ := trimRev_spec xs.reverse (by simpa using hx)
  refine ⟨r.reverse, a, k, by simp [trimTail, h1], ?_⟩
  have := congrArg List.reverse h2
  simp only [List.reverse_reverse, List.reverse_append, List.reverse_cons, List.reverse_replicate,
    List.append_assoc] at this
  rw [this, List.replicate_succ]; simp

theorem trim_refill_aux (len : α → Nat) (hpos : ∀ s, 0 < len s) (xs : List α) (hx : xs ≠ []) :
    layout len (total len xs) (trimTail xs) = xs := by
  obtain ⟨p, a, k, h1, h2⟩ := trimTail_spec xs hx
  rw [h1]
  conv => lhs; rw [h2, total_append, total_replicate]
  rw [layout_init len hpos p a k]
  exact h2.symm

/-! ### 'C' sub-blocks -/

theorem bytesOf_append (a b : List (α × Nat)) : bytesOf (a ++ b) = bytesOf a ++ bytesOf b := by
  induction a with
  | nil => simp [bytesOf]
  | cons h t ih => obtain ⟨x, n⟩ := h; simp [bytesOf, ih]

theorem bytesOf_cStep (acc : List (α × Nat)) (i : α × Nat) :
    bytesOf (cStep acc i).reverse = bytesOf acc.reverse ++ List.replicate i.2 i.1 := by
  obtain ⟨b, n⟩ := i
  by_cases hn : n > 0
  · cases acc with
    | nil => simp [cStep, hn, bytesOf]
    | cons g r =>
      obtain ⟨c, m⟩ := g
      by_cases hbc : b = c
      · subst hbc; simp [cStep, hn, bytesOf_append, bytesOf, ← List.replicate_append_replicate]
      · simp [cStep, hn, hbc, bytesOf_append, bytesOf]
  · have : n = 0 := by omega
    subst this; simp [cStep]

theorem bytesOf_foldl (instrs acc : List (α × Nat)) :
    bytesOf (instrs.foldl cStep acc).reverse = bytesOf acc.reverse ++ bytesOf instrs := by
  induction instrs generalizing acc with
  | nil => simp [bytesOf]
  | cons i t ih =>
    obtain ⟨b, n⟩ := i
    rw [List.foldl_cons, ih, bytesOf_cStep]; simp [bytesOf]

end CtlLengths
