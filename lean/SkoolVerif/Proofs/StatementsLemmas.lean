import SkoolVerif.Spec.Tiling
/-! Lemmas about statement splitting (`Model/Statements.lean`) for C01. -/
namespace Stmts
open CtlTiling C01Spec

/-! ### slices -/

theorem slice_length (mem : List Nat) (a b : Nat) :
    (slice mem a b).length = min (b - a) (mem.length - a) := by
  simp [slice, List.length_take, List.length_drop]

theorem slice_getElem? (mem : List Nat) (a b k : Nat) :
    (slice mem a b)[k]? = if k < b - a then mem[a + k]? else none := by
  simp only [slice, List.getElem?_take, List.getElem?_drop]

theorem slice_append (mem : List Nat) (a b c : Nat) (h1 : a ≤ b) (h2 : b ≤ c) :
    slice mem a b ++ slice mem b c = slice mem a c := by
  apply List.ext_getElem?
  intro k
  rw [List.getElem?_append]
  simp only [slice_getElem?, slice_length]
  by_cases hk : k < min (b - a) (mem.length - a)
  · simp only [hk, if_true]
    have : k < b - a := by omega
    have : k < c - a := by omega
    simp [*]
  · simp only [hk, if_false]
    by_cases h3 : k < c - a
    · simp only [h3, if_true]
      by_cases h4 : k < b - a
      · -- then a + k ≥ mem.length: both sides none
        have h5 : mem.length ≤ a + k := by omega
        have h6 : mem.length ≤ b + (k - min (b - a) (mem.length - a)) := by omega
        rw [List.getElem?_eq_none h5]
        split
        · exact List.getElem?_eq_none h6
        · rfl
      · have : min (b - a) (mem.length - a) = b - a ∨ mem.length ≤ a + k := by omega
        rcases this with h5 | h5
        · rw [h5]
          have : k - (b - a) < c - b := by omega
          simp only [this, if_true]
          congr 1; omega
        · rw [List.getElem?_eq_none h5]
          split
          · apply List.getElem?_eq_none; omega
          · rfl
    · simp only [h3, if_false]
      have : ¬ (k - min (b - a) (mem.length - a) < c - b) ∨ mem.length ≤ b + (k - min (b - a) (mem.length - a)) := by omega
      rcases this with h5 | h5
      · simp [h5]
      · split
        · exact List.getElem?_eq_none h5
        · rfl

theorem slice_eq_nil_iff (mem : List Nat) (a b : Nat) : slice mem a b = [] ↔ b ≤ a ∨ mem.length ≤ a := by
  rw [← List.length_eq_zero_iff, slice_length]; omega

theorem slice_self_full (l : List Nat) (n : Nat) (h : l.length ≤ n) : slice l 0 n = l := by
  simp [slice, List.take_of_length_le h]

/-! ### chains -/

theorem Chain_append {mem : List Nat} {l1 l2 : List Stmt} {a b c : Nat}
    (h1 : Chain mem l1 a b) (h2 : Chain mem l2 b c) : Chain mem (l1 ++ l2) a c := by
  induction l1 generalizing a with
  | nil => simp only [Chain] at h1; subst h1; simpa using h2
  | cons s r ih =>
    simp only [Chain] at h1
    simp only [List.cons_append, Chain]
    exact ⟨h1.1, h1.2.1, h1.2.2.1, ih h1.2.2.2⟩

theorem Chain_le {mem : List Nat} {l : List Stmt} {a b : Nat} (h : Chain mem l a b) : a ≤ b := by
  induction l generalizing a with
  | nil => simp only [Chain] at h; omega
  | cons s r ih => simp only [Chain] at h; have := ih h.2.2.2; omega

/-- a statement whose bytes are the slice `[a, b)` of the snapshot -/
theorem bytesOk_slice (mem : List Nat) (a b : Nat) (op : Op) (hb : b ≤ mem.length) (h64 : mem.length ≤ 65536) :
    BytesOk mem { addr := a, op := op, bytes := slice mem a b } := by
  intro k hk
  simp only [slice_length] at hk
  simp only [memAt, slice_getElem?]
  have : k < b - a := by omega
  simp only [this, if_true]
  congr 1
  omega

theorem bytesOk_of_slice (mem : List Nat) (a b : Nat) (op : Op) (bytes : List Nat) (h : bytes = slice mem a b)
    (hb : b ≤ mem.length) (h64 : mem.length ≤ 65536) : BytesOk mem { addr := a, op := op, bytes := bytes } := by
  subst h; exact bytesOk_slice mem a b op hb h64

theorem chain_single_slice (mem : List Nat) (a b : Nat) (op : Op) (hab : a < b) (hb : b ≤ mem.length)
    (h64 : mem.length ≤ 65536) : Chain mem [{ addr := a, op := op, bytes := slice mem a b }] a b := by
  simp only [Chain]
  refine ⟨trivial, ?_, bytesOk_slice mem a b op hb h64, ?_⟩
  · intro h; have := (slice_eq_nil_iff mem a b).1 h; omega
  · rw [slice_length]; omega

/-! ### `defb_items` -/

/-- total of the sublengths as `defb_items` uses them (`0` means "the whole of `data`") -/
def effSum (n : Nat) : Sublens → Nat
  | [] => 0
  | (size, _) :: rest => (if size = 0 then n else size) + effSum n rest

theorem defbItems_flatten (data : List Nat) (i : Nat) (subl : Sublens) :
    (defbItems data i subl).flatten = slice data i (i + effSum data.length subl) := by
  induction subl generalizing i with
  | nil => simp [defbItems, effSum, slice]
  | cons p r ih =>
    obtain ⟨size, base⟩ := p
    simp only [defbItems, effSum, List.flatten_cons, ih]
    rw [slice_append _ _ _ _ (by omega) (by omega)]
    congr 1
    omega

theorem effSum_ge (n : Nat) (subl : Sublens) : firstSize subl = 0 ∧ subl ≠ [] ∨ n ≤ (subl.map (·.1)).sum →
    n ≤ effSum n subl := by
  intro h
  rcases h with ⟨h1, h2⟩ | h
  · cases subl with
    | nil => exact absurd rfl h2
    | cons p r =>
      obtain ⟨size, base⟩ := p
      simp only [firstSize, List.head?_cons, Option.map_some, Option.getD_some] at h1
      simp only [effSum, h1, if_true]
      omega
  · have : (subl.map (·.1)).sum ≤ effSum n subl := by
      clear h
      induction subl with
      | nil => simp [effSum]
      | cons p r ih =>
        obtain ⟨size, base⟩ := p
        simp only [List.map_cons, List.sum_cons, effSum]
        split <;> omega
    omega

/-- a DEFB/DEFM statement re-assembles to its bytes when the sublengths reach the end of the data -/
theorem defbLine_asm (asm : Nat → List Nat) (defm : Bool) (addr : Nat) (data : List Nat) (subl : Sublens)
    (h : firstSize subl = 0 ∧ subl ≠ [] ∨ data.length ≤ (subl.map (·.1)).sum) :
    (defbLine defm addr data subl).op.assemble asm = (defbLine defm addr data subl).bytes := by
  simp only [defbLine, Op.assemble, defbItems_flatten]
  have := effSum_ge data.length subl h
  simp only [Nat.zero_add]
  exact slice_self_full data _ this

/-! ### `_defb_lines` -/

theorem slice_snoc (mem : List Nat) (a i : Nat) (hai : a ≤ i) (hi : i < mem.length) :
    slice mem a i ++ [mem.getD i 0] = slice mem a (i + 1) := by
  rw [← slice_append mem a i (i + 1) hai (by omega)]
  congr 1
  apply List.ext_getElem?
  intro k
  rw [slice_getElem?]
  cases k with
  | zero => simp [List.getD_eq_getElem?_getD, List.getElem?_eq_getElem hi]
  | succ k => simp

theorem defbLoop_chain (mem : List Nat) (defm : Bool) (subl : Sublens) (maxSize : Nat) (e : Nat)
    (hmem : e ≤ mem.length) (h64 : mem.length ≤ 65536) (n i : Nat) (data : List Nat)
    (he : i + n = e) (hdl : data.length ≤ i) (hd : data = slice mem (i - data.length) i) :
    Chain mem (defbLoop mem defm subl maxSize (e - 1) (List.range' i n) data) (i - data.length) e := by
  induction n generalizing i data with
  | zero =>
    simp only [List.range'_zero, defbLoop]
    split
    · rename_i h
      simp only [List.isEmpty_iff] at h
      subst h
      simp only [Chain, List.length_nil]; omega
    · rename_i h
      simp only [List.isEmpty_iff] at h
      simp only [Chain, defbLine]
      have hlen : 0 < data.length := List.length_pos_iff.2 h
      refine ⟨by omega, h, ?_, by omega⟩
      have : (e - 1 + 1 - data.length) = i - data.length := by omega
      rw [this]
      exact bytesOk_of_slice mem _ i _ data hd (by omega) h64
  | succ n ih =>
    simp only [List.range'_succ, defbLoop]
    have hi : i < mem.length := by omega
    have hd' : data ++ [mem.getD i 0] = slice mem (i - data.length) (i + 1) := by
      conv => lhs; rw [hd]
      exact slice_snoc mem _ i (by omega) hi
    split
    · rename_i hfl
      simp only [Chain, defbLine]
      have hl : (data ++ [mem.getD i 0]).length = data.length + 1 := by simp
      refine ⟨by rw [hl]; omega, by simp, ?_, ?_⟩
      · have : (i + 1 - (data ++ [mem.getD i 0]).length) = i - data.length := by rw [hl]; omega
        rw [this]
        exact bytesOk_of_slice mem _ (i + 1) _ _ hd' (by omega) h64
      · have := ih (i + 1) [] (by omega) (by simp) (by simp [slice])
        simp only [List.length_nil, Nat.sub_zero] at this
        rw [hl]
        have h2 : i - data.length + (data.length + 1) = i + 1 := by omega
        rw [h2]
        exact this
    · have hl : (data ++ [mem.getD i 0]).length = data.length + 1 := by simp
      have h2 : i + 1 - (data ++ [mem.getD i 0]).length = i - data.length := by rw [hl]; omega
      have := ih (i + 1) (data ++ [mem.getD i 0]) (by omega) (by rw [hl]; omega) (by rw [h2]; exact hd')
      rw [h2] at this
      exact this

/-- every statement of the chunk loop re-assembles to its bytes (the sublengths start with 0) -/
theorem defbLoop_asm (asm : Nat → List Nat) (mem : List Nat) (defm : Bool) (subl : Sublens) (maxSize lastI : Nat)
    (h0 : firstSize subl = 0 ∧ subl ≠ []) (idx : List Nat) (data : List Nat) :
    ∀ s ∈ defbLoop mem defm subl maxSize lastI idx data, s.op.assemble asm = s.bytes := by
  induction idx generalizing data with
  | nil =>
    simp only [defbLoop]
    split
    · simp
    · intro s hs
      simp only [List.mem_singleton] at hs
      subst hs
      exact defbLine_asm asm defm _ _ subl (Or.inl h0)
  | cons i r ih =>
    simp only [defbLoop]
    split
    · intro s hs
      rcases List.mem_cons.1 hs with h1 | h1
      · subst h1; exact defbLine_asm asm defm _ _ subl (Or.inl h0)
      · exact ih [] s h1
    · exact ih _

/-- `_defb_lines` (DEFB and DEFM): the statements cover `[start, end)` exactly, whatever the
sublengths and the maximum statement size -/
theorem defbLines_cover (mem : List Nat) (defm : Bool) (maxSize start end_ : Nat) (subl : Sublens)
    (hse : start < end_) (hmem : end_ ≤ mem.length) (h64 : mem.length ≤ 65536) :
    ∃ l, defbLines mem defm maxSize start end_ subl = .ok l ∧ Chain mem l start end_ := by
  unfold defbLines
  split
  · exact ⟨_, rfl, chain_single_slice mem start end_ _ hse hmem h64⟩
  · rw [if_neg (by omega)]
    refine ⟨_, rfl, ?_⟩
    have := defbLoop_chain mem defm subl maxSize end_ hmem h64 (end_ - start) start [] (by omega) (by simp)
      (by simp [slice])
    simpa using this

theorem defbLines_asm (asm : Nat → List Nat) (mem : List Nat) (defm : Bool) (maxSize start end_ : Nat) (subl : Sublens)
    (hne : subl ≠ []) (hsum : firstSize subl ≠ 0 → end_ - start ≤ (subl.map (·.1)).sum)
    (l : List Stmt) (hl : defbLines mem defm maxSize start end_ subl = .ok l) :
    ∀ s ∈ l, s.op.assemble asm = s.bytes := by
  unfold defbLines at hl
  split at hl
  · simp only [Except.ok.injEq] at hl
    subst hl
    intro s hs
    simp only [List.mem_singleton] at hs
    subst hs
    apply defbLine_asm
    by_cases h0 : firstSize subl = 0
    · exact Or.inl ⟨h0, hne⟩
    · right
      have := hsum h0
      rw [slice_length]; omega
  · rename_i hnot
    split at hl
    · simp at hl
    · simp only [Except.ok.injEq] at hl
      subst hl
      have h0 : firstSize subl = 0 := by
        by_cases h : firstSize subl = 0
        · exact h
        · exact absurd (Or.inl h) hnot
      exact defbLoop_asm asm mem defm subl maxSize _ ⟨h0, hne⟩ _ _

/-! ### `_defw_lines` -/

/-- the word values `D[t] + 256*D[t+1]` for `t = j, j+2, ...` (`m` of them) -/
def wordsFrom (D : List Nat) (j m : Nat) : List Nat :=
  (List.range' j m 2).map (fun t => D.getD t 0 + 256 * D.getD (t + 1) 0)

theorem wordsFrom_succ (D : List Nat) (j m : Nat) :
    wordsFrom D j (m + 1) = (D.getD j 0 + 256 * D.getD (j + 1) 0) :: wordsFrom D (j + 2) m := by
  simp [wordsFrom, List.range'_succ]

theorem wordsFrom_append (D : List Nat) (a b : Nat) :
    wordsFrom D 0 a ++ wordsFrom D (2 * a) b = wordsFrom D 0 (a + b) := by
  simp only [wordsFrom, ← List.map_append]
  congr 1
  have := @List.range'_append 0 a b 2
  simpa using this

theorem wordsFrom_append' (D : List Nat) (a b p : Nat) (h : p = 2 * a) :
    wordsFrom D 0 a ++ wordsFrom D p b = wordsFrom D 0 (a + b) := by
  subst h; exact wordsFrom_append D a b

/-- the DEFB statement made for an odd last byte -/
def tailStmt (start : Nat) (base : String) (D : List Nat) : Stmt :=
  defbLine false (start + (D.length - 1)) (D.drop (D.length - 1)) [(1, base)]

/-- the inner loop of `_defw_lines` on untruncated data -/
theorem dw_inner (start : Nat) (base : String) (D : List Nat) :
    ∀ (m j : Nat) (W : List Nat) (T : List Stmt), j + 2 * m ≤ D.length + 1 →
    (List.range' j m 2).foldl (dwStep start base) ⟨D, W, T⟩ =
      if 0 < m ∧ j + 2 * m = D.length + 1 then
        ⟨D.take (D.length - 1), W ++ wordsFrom D j (m - 1), T ++ [tailStmt start base D]⟩
      else ⟨D, W ++ wordsFrom D j m, T⟩ := by
  intro m
  induction m with
  | zero => intro j W T _; simp [wordsFrom]
  | succ m ih =>
    intro j W T hle
    simp only [List.range'_succ, List.foldl_cons, dwStep]
    by_cases hj : j + 1 = D.length
    · have hm : m = 0 := by omega
      subst hm
      have hj' : j = D.length - 1 := by omega
      simp only [hj, if_true, List.range'_zero, List.foldl_nil]
      rw [if_pos (by omega)]
      simp [wordsFrom, tailStmt, hj']
    · simp only [hj, if_false]
      rw [ih (j + 2) _ T (by omega)]
      by_cases hc : 0 < m ∧ j + 2 + 2 * m = D.length + 1
      · rw [if_pos hc, if_pos (by omega)]
        obtain ⟨m', rfl⟩ : ∃ m', m = m' + 1 := ⟨m - 1, by omega⟩
        simp [wordsFrom_succ]
      · rw [if_neg hc, if_neg (by omega)]
        simp [wordsFrom_succ]

/-- state of `_defw_lines` after the sublengths up to (even) offset `p` of data `D` have been processed -/
def DwInv (start : Nat) (D : List Nat) (p : Nat) (st : DwSt) : Prop :=
  st.words = wordsFrom D 0 (min p D.length / 2) ∧
  ((D.length % 2 = 1 ∧ D.length ≤ p) →
    st.data = D.take (D.length - 1) ∧ ∃ base, st.tails = [tailStmt start base D]) ∧
  (¬ (D.length % 2 = 1 ∧ D.length ≤ p) → st.data = D ∧ st.tails = [])

theorem dw_step (start : Nat) (base : String) (D : List Nat) (p length : Nat) (st : DwSt)
    (hp : p % 2 = 0) (hl : length % 2 = 0) (h : DwInv start D p st) :
    DwInv start D (p + length) ((jRange p length st.data.length).foldl (dwStep start base) st) := by
  obtain ⟨hw, ht, hn⟩ := h
  by_cases hc : D.length % 2 = 1 ∧ D.length ≤ p
  · -- already truncated: nothing happens
    obtain ⟨hd, b0, htl⟩ := ht hc
    have hlen : st.data.length = D.length - 1 := by rw [hd, List.length_take]; omega
    have : jRange p length st.data.length = [] := by
      simp only [jRange, hlen]
      have : (min (p + length) (D.length - 1) - p + 1) / 2 = 0 := by omega
      rw [this]; rfl
    rw [this, List.foldl_nil]
    refine ⟨?_, fun _ => ⟨hd, b0, htl⟩, fun h2 => absurd ⟨hc.1, by omega⟩ h2⟩
    have e : min (p + length) D.length = min p D.length := by omega
    rw [hw, e]
  · obtain ⟨hd, htl⟩ := hn hc
    have hst : st = ⟨D, st.words, []⟩ := by cases st; simp_all
    rw [hst]
    simp only [jRange]
    by_cases hpn : p < D.length
    · rw [dw_inner start base D _ p _ _ (by omega)]
      have h1 : p = 2 * (min p D.length / 2) := by omega
      by_cases hq : 0 < (min (p + length) D.length - p + 1) / 2 ∧
          p + 2 * ((min (p + length) D.length - p + 1) / 2) = D.length + 1
      · rw [if_pos hq]
        have hodd : D.length % 2 = 1 ∧ D.length ≤ p + length := by omega
        refine ⟨?_, fun _ => ⟨rfl, base, rfl⟩, fun h2 => absurd hodd h2⟩
        simp only
        rw [hw, wordsFrom_append' D _ _ p h1]
        have e : min p D.length / 2 + ((min (p + length) D.length - p + 1) / 2 - 1) = min (p + length) D.length / 2 := by omega
        rw [e]
      · rw [if_neg hq]
        have hnodd : ¬ (D.length % 2 = 1 ∧ D.length ≤ p + length) := by omega
        refine ⟨?_, fun h2 => absurd h2 hnodd, fun _ => ⟨rfl, rfl⟩⟩
        simp only
        rw [hw, wordsFrom_append' D _ _ p h1]
        have e : min p D.length / 2 + (min (p + length) D.length - p + 1) / 2 = min (p + length) D.length / 2 := by omega
        rw [e]
    · have : (min (p + length) D.length - p + 1) / 2 = 0 := by omega
      rw [this]
      simp only [List.range'_zero, List.foldl_nil]
      have hnodd : ¬ (D.length % 2 = 1 ∧ D.length ≤ p + length) := by omega
      refine ⟨?_, fun h2 => absurd h2 hnodd, fun _ => ⟨rfl, rfl⟩⟩
      have e : min (p + length) D.length = min p D.length := by omega
      simp only [e]
      exact hw

theorem dw_go (start : Nat) (D : List Nat) : ∀ (subl : Sublens) (p : Nat) (st : DwSt),
    (∀ q ∈ subl, q.1 % 2 = 0) → p % 2 = 0 → DwInv start D p st →
    DwInv start D (p + (subl.map (·.1)).sum) (defwGo start subl p st) := by
  intro subl
  induction subl with
  | nil => intro p st _ _ h; simpa [defwGo] using h
  | cons q r ih =>
    intro p st hev hp h
    obtain ⟨length, base⟩ := q
    simp only [defwGo, List.map_cons, List.sum_cons]
    have hl : length % 2 = 0 := hev (length, base) (by simp)
    have := ih (p + length) _ (fun x hx => hev x (List.mem_cons_of_mem _ hx)) (by omega)
      (dw_step start base D p length st hp hl h)
    rw [← Nat.add_assoc]
    exact this

theorem dwInv_init (start : Nat) (D : List Nat) : DwInv start D 0 ⟨D, [], []⟩ := by
  refine ⟨by simp [wordsFrom], ?_, fun _ => ⟨rfl, rfl⟩⟩
  rintro ⟨h1, h2⟩
  omega

/-- words assemble to the bytes they were made from -/
theorem wordsFrom_asm (D : List Nat) (hb : ∀ x ∈ D, x < 256) (k : Nat) (hk : 2 * k ≤ D.length) :
    (wordsFrom D 0 k).flatMap (fun w => [w % 256, w / 256]) = D.take (2 * k) := by
  induction k with
  | zero => simp [wordsFrom]
  | succ k ih =>
    have := wordsFrom_append D k 1
    rw [← this, List.flatMap_append, ih (by omega)]
    have h1 : 2 * k < D.length := by omega
    have h2 : 2 * k + 1 < D.length := by omega
    have e1 : D.getD (2 * k) 0 = D[2 * k] := by simp [List.getD_eq_getElem?_getD, List.getElem?_eq_getElem h1]
    have e2 : D.getD (2 * k + 1) 0 = D[2 * k + 1] := by simp [List.getD_eq_getElem?_getD, List.getElem?_eq_getElem h2]
    have b1 : D[2 * k] < 256 := hb _ (List.getElem_mem h1)
    simp only [wordsFrom, List.range'_one, List.map_cons, List.map_nil, List.flatMap_cons, List.flatMap_nil,
      List.append_nil, e1, e2]
    have e3 : (D[2 * k] + 256 * D[2 * k + 1]) % 256 = D[2 * k] := by omega
    have e4 : (D[2 * k] + 256 * D[2 * k + 1]) / 256 = D[2 * k + 1] := by omega
    rw [e3, e4]
    have : 2 * (k + 1) = 2 * k + 1 + 1 := by omega
    rw [this, List.take_add_one, List.take_add_one]
    simp only [List.getElem?_eq_getElem h1, List.getElem?_eq_getElem h2, Option.toList_some, List.append_assoc,
      List.singleton_append]

theorem slice_drop (mem : List Nat) (a b k : Nat) : (slice mem a b).drop k = slice mem (a + k) b := by
  apply List.ext_getElem?
  intro i
  simp only [List.getElem?_drop, slice_getElem?]
  by_cases h : k + i < b - a
  · have : i < b - (a + k) := by omega
    simp only [h, this, if_true]; congr 1; omega
  · have : ¬ i < b - (a + k) := by omega
    simp only [h, this, if_false]

theorem slice_take (mem : List Nat) (a b k : Nat) : (slice mem a b).take k = slice mem a (a + min k (b - a)) := by
  apply List.ext_getElem?
  intro i
  simp only [List.getElem?_take, slice_getElem?]
  by_cases h : i < k
  · simp only [h, if_true]
    by_cases h2 : i < b - a
    · have : i < a + min k (b - a) - a := by omega
      simp only [h2, this, if_true]
    · have : ¬ i < a + min k (b - a) - a := by omega
      simp only [h2, this, if_false]
  · have : ¬ i < a + min k (b - a) - a := by omega
    simp only [h, this, if_false]

theorem slice_clamp (mem : List Nat) (a b : Nat) : slice mem a b = slice mem a (min b (max a mem.length)) := by
  apply List.ext_getElem?
  intro i
  simp only [slice_getElem?]
  by_cases h : i < b - a
  · simp only [h, if_true]
    by_cases h2 : i < min b (max a mem.length) - a
    · simp only [h2, if_true]
    · simp only [h2, if_false]
      apply List.getElem?_eq_none; omega
  · have : ¬ i < min b (max a mem.length) - a := by omega
    simp only [h, this, if_false]

theorem wordsFrom_isEmpty (D : List Nat) (j k : Nat) : (wordsFrom D j k).isEmpty = decide (k = 0) := by
  cases k <;> simp [wordsFrom, List.range'_succ]

/-- `_defw_lines` with even sublengths that reach the end of the data: a DEFW statement for the
whole words followed by a one-byte DEFB statement when the number of bytes is odd -/
theorem defwLines_spec (mem : List Nat) (start end_ : Nat) (subl : Sublens) (D : List Nat)
    (hD : D = slice mem start end_)
    (hev : ∀ q ∈ subl, q.1 % 2 = 0) (hsum : D.length ≤ (subl.map (·.1)).sum) :
    ∃ base, defwLines mem start end_ subl =
      (if D.length / 2 = 0 then [] else
        [{ addr := start, op := .defw (wordsFrom D 0 (D.length / 2)), bytes := D.take (2 * (D.length / 2)) }]) ++
      (if D.length % 2 = 1 then [tailStmt start base D] else []) := by
  have hinv := dw_go start D subl 0 ⟨D, [], []⟩ hev rfl (dwInv_init start D)
  simp only [Nat.zero_add] at hinv
  obtain ⟨hw, ht, hn⟩ := hinv
  have hmin : min (subl.map (·.1)).sum D.length = D.length := by omega
  rw [hmin] at hw
  have hwe := wordsFrom_isEmpty D 0 (D.length / 2)
  by_cases hodd : D.length % 2 = 1
  · obtain ⟨hd, base, htl⟩ := ht ⟨hodd, hsum⟩
    refine ⟨base, ?_⟩
    simp only [defwLines, ← hD, hw, htl, hd, hwe, hodd, if_true]
    have : 2 * (D.length / 2) = D.length - 1 := by omega
    rw [this]
    by_cases h0 : D.length / 2 = 0 <;> simp [h0]
  · obtain ⟨hd, htl⟩ := hn (fun h => hodd h.1)
    refine ⟨"n", ?_⟩
    simp only [defwLines, ← hD, hw, htl, hd, hwe, hodd, if_false]
    have : 2 * (D.length / 2) = D.length := by omega
    rw [this, List.take_length]
    by_cases h0 : D.length / 2 = 0 <;> simp [h0]

theorem defwLines_cover (mem : List Nat) (start end_ : Nat) (subl : Sublens)
    (hev : ∀ q ∈ subl, q.1 % 2 = 0) (hsum : (slice mem start end_).length ≤ (subl.map (·.1)).sum)
    (hse : start < end_) (hsl : start < mem.length) (h64 : mem.length ≤ 65536) :
    Chain mem (defwLines mem start end_ subl) start (min end_ mem.length) := by
  obtain ⟨base, hspec⟩ := defwLines_spec mem start end_ subl _ rfl hev hsum
  rw [hspec]
  have hlen : (slice mem start end_).length = min end_ mem.length - start := by rw [slice_length]; omega
  generalize hn : (slice mem start end_).length = n at *
  have hn1 : 1 ≤ n := by omega
  have he : min end_ mem.length = start + n := by omega
  rw [he]
  have htake : (slice mem start end_).take (2 * (n / 2)) = slice mem start (start + 2 * (n / 2)) := by
    rw [slice_take]; congr 1; omega
  have hdrop : (slice mem start end_).drop (n - 1) = slice mem (start + (n - 1)) (start + n) := by
    rw [slice_drop, slice_clamp]; congr 1; omega
  by_cases h0 : n / 2 = 0
  · have : n = 1 := by omega
    subst this
    simp only [h0, if_true, List.nil_append]
    simp only [tailStmt, defbLine, hn, hdrop, Chain]
    refine ⟨by omega, ?_, bytesOk_slice mem _ _ _ (by omega) h64, ?_⟩
    · intro h; have := (slice_eq_nil_iff _ _ _).1 h; omega
    · rw [slice_length]; omega
  · simp only [h0, if_false, htake]
    apply Chain_append (b := start + 2 * (n / 2))
    · exact chain_single_slice mem _ _ _ (by omega) (by omega) h64
    · by_cases hodd : n % 2 = 1
      · simp only [hodd, if_true, tailStmt, defbLine, hn, hdrop, Chain]
        refine ⟨by omega, ?_, bytesOk_slice mem _ _ _ (by omega) h64, ?_⟩
        · intro h; have := (slice_eq_nil_iff _ _ _).1 h; omega
        · rw [slice_length]; omega
      · simp only [hodd, if_false, Chain]; omega

theorem defwLines_asm (asm : Nat → List Nat) (mem : List Nat) (start end_ : Nat) (subl : Sublens)
    (hev : ∀ q ∈ subl, q.1 % 2 = 0) (hsum : (slice mem start end_).length ≤ (subl.map (·.1)).sum)
    (hb : ∀ x ∈ mem, x < 256) :
    ∀ s ∈ defwLines mem start end_ subl, s.op.assemble asm = s.bytes := by
  obtain ⟨base, hspec⟩ := defwLines_spec mem start end_ subl _ rfl hev hsum
  rw [hspec]
  have hbD : ∀ x ∈ slice mem start end_, x < 256 := by
    intro x hx
    exact hb x (List.mem_of_mem_drop (List.mem_of_mem_take hx))
  intro s hs
  rcases List.mem_append.1 hs with h1 | h1
  · split at h1
    · simp at h1
    · simp only [List.mem_singleton] at h1
      subst h1
      simp only [Op.assemble]
      exact wordsFrom_asm _ hbD _ (by omega)
  · split at h1
    · simp only [List.mem_singleton] at h1
      subst h1
      apply defbLine_asm
      right
      simp only [List.length_drop, List.map_cons, List.map_nil, List.sum_cons, List.sum_nil]
      omega
    · simp at h1

/-! ### `defw_range` -/

/-- where the statements of `defw_range` without sublengths end: one byte beyond `end` when the
range has odd length and is not at the end of the snapshot (the last word is then read across `end`) -/
def defwEnd (mem : List Nat) (a end_ : Nat) : Nat :=
  if (end_ - a) % 2 = 1 ∧ end_ < mem.length then end_ + 1 else end_

/-- the body of the `for address in range(start, end, size)` loop of `defw_range` -/
def defwChunk (mem : List Nat) (size end_ : Nat) (base : String) (address : Nat) : List Stmt :=
  let size' := if address + size > end_ then
      (if (end_ - address) % 2 = 1 then end_ - address + 1 else end_ - address)
    else size
  defwLines mem address (address + size') [(size', base)]

theorem range_step (a end_ size : Nat) (hs : 0 < size) (ha : a < end_) :
    List.range' a ((end_ - a + size - 1) / size) size =
      a :: List.range' (a + size) ((end_ - (a + size) + size - 1) / size) size := by
  have : (end_ - a + size - 1) / size = (end_ - (a + size) + size - 1) / size + 1 := by
    by_cases h : a + size ≤ end_
    · have e : end_ - a + size - 1 = (end_ - (a + size) + size - 1) + size := by omega
      rw [e, Nat.add_div_right _ hs]
    · have e1 : (end_ - a + size - 1) / size = 1 :=
        Nat.div_eq_of_lt_le (by omega) (by rw [Nat.add_mul]; omega)
      have e2 : (end_ - (a + size) + size - 1) / size = 0 := Nat.div_eq_of_lt (by omega)
      rw [e1, e2]
  rw [this, List.range'_succ]

theorem defwChunks_cover (mem : List Nat) (size end_ : Nat) (base : String) (hs : 0 < size) (hev : size % 2 = 0)
    (hmem : end_ ≤ mem.length) (h64 : mem.length ≤ 65536) :
    ∀ n a, end_ - a = n → a < end_ →
      Chain mem ((List.range' a ((end_ - a + size - 1) / size) size).flatMap (defwChunk mem size end_ base))
        a (defwEnd mem a end_) := by
  intro n
  induction n using Nat.strongRecOn with
  | _ n ih =>
    intro a hn ha
    rw [range_step a end_ size hs ha, List.flatMap_cons]
    by_cases h : a + size ≤ end_
    · -- a full chunk
      have hc : Chain mem (defwChunk mem size end_ base a) a (a + size) := by
        simp only [defwChunk]
        rw [if_neg (by omega)]
        have := defwLines_cover mem a (a + size) [(size, base)] (by simp [hev])
          (by simp [slice_length]; omega) (by omega) (by omega) h64
        rwa [Nat.min_eq_left (by omega)] at this
      by_cases h2 : a + size < end_
      · have := ih (end_ - (a + size)) (by omega) (a + size) rfl h2
        have e : defwEnd mem (a + size) end_ = defwEnd mem a end_ := by
          simp only [defwEnd]
          have : (end_ - (a + size)) % 2 = (end_ - a) % 2 := by omega
          rw [this]
        rw [e] at this
        exact Chain_append hc this
      · have e0 : (end_ - (a + size) + size - 1) / size = 0 := Nat.div_eq_of_lt (by omega)
        rw [e0]
        simp only [List.range'_zero, List.flatMap_nil, List.append_nil]
        have : defwEnd mem a end_ = a + size := by
          simp only [defwEnd]
          have : (end_ - a) % 2 = 0 := by omega
          rw [if_neg (by omega)]; omega
        rw [this]; exact hc
    · -- the last, short chunk
      have e0 : (end_ - (a + size) + size - 1) / size = 0 := Nat.div_eq_of_lt (by omega)
      rw [e0]
      simp only [List.range'_zero, List.flatMap_nil, List.append_nil, defwChunk]
      rw [if_pos (by omega)]
      by_cases hodd : (end_ - a) % 2 = 1
      · rw [if_pos hodd]
        have := defwLines_cover mem a (a + (end_ - a + 1)) [(end_ - a + 1, base)]
          (by simp; omega) (by simp [slice_length]; omega) (by omega) (by omega) h64
        have e : min (a + (end_ - a + 1)) mem.length = defwEnd mem a end_ := by
          simp only [defwEnd]; split <;> omega
        rwa [e] at this
      · rw [if_neg hodd]
        have := defwLines_cover mem a (a + (end_ - a)) [(end_ - a, base)]
          (by simp; omega) (by simp [slice_length]; omega) (by omega) (by omega) h64
        have e : min (a + (end_ - a)) mem.length = defwEnd mem a end_ := by
          simp only [defwEnd]; rw [if_neg (by omega)]; omega
        rwa [e] at this

theorem defwChunk_asm (asm : Nat → List Nat) (mem : List Nat) (size end_ : Nat) (base : String) (hev : size % 2 = 0)
    (hb : ∀ x ∈ mem, x < 256) (a : Nat) :
    ∀ s ∈ defwChunk mem size end_ base a, s.op.assemble asm = s.bytes := by
  simp only [defwChunk]
  apply defwLines_asm asm mem _ _ _ _ _ hb
  · intro q hq
    simp only [List.mem_singleton] at hq
    subst hq
    simp only
    split
    · split <;> omega
    · exact hev
  · simp [slice_length]; omega

/-- `defw_range` without sublengths: consecutive DEFW statements from `start`; they end at `end`,
or one byte later when `end - start` is odd and `end` is not the end of the snapshot -/
theorem defwRange_default_cover (mem : List Nat) (dw start end_ : Nat) (subl : Sublens)
    (h0 : firstSize subl = 0) (hdw : 0 < dw) (hse : start < end_) (hmem : end_ ≤ mem.length) (h64 : mem.length ≤ 65536) :
    ∃ l, defwRange mem dw start end_ subl = .ok l ∧ Chain mem l start (defwEnd mem start end_) := by
  unfold defwRange
  rw [if_neg (by omega), if_neg (by omega)]
  refine ⟨_, rfl, ?_⟩
  exact defwChunks_cover mem (dw * 2) end_ (firstBase subl) (by omega) (by omega) hmem h64 _ start rfl hse

/-- `defw_range` with sublengths (all even): the statements cover `[start, end)` exactly, an odd
last byte becoming a DEFB statement -/
theorem defwRange_explicit_cover (mem : List Nat) (dw start end_ : Nat) (subl : Sublens)
    (h0 : firstSize subl ≠ 0) (hev : ∀ q ∈ subl, q.1 % 2 = 0) (hsum : end_ - start ≤ (subl.map (·.1)).sum)
    (hse : start < end_) (hmem : end_ ≤ mem.length) (h64 : mem.length ≤ 65536) :
    ∃ l, defwRange mem dw start end_ subl = .ok l ∧ Chain mem l start end_ := by
  unfold defwRange
  rw [if_pos h0]
  refine ⟨_, rfl, ?_⟩
  have := defwLines_cover mem start end_ subl hev (by rw [slice_length]; omega) hse (by omega) h64
  rwa [Nat.min_eq_left hmem] at this

theorem defwRange_asm (asm : Nat → List Nat) (mem : List Nat) (dw start end_ : Nat) (subl : Sublens)
    (hev : firstSize subl ≠ 0 → ∀ q ∈ subl, q.1 % 2 = 0)
    (hsum : firstSize subl ≠ 0 → end_ - start ≤ (subl.map (·.1)).sum)
    (hb : ∀ x ∈ mem, x < 256) (l : List Stmt) (hl : defwRange mem dw start end_ subl = .ok l) :
    ∀ s ∈ l, s.op.assemble asm = s.bytes := by
  unfold defwRange at hl
  split at hl
  · rename_i h0
    simp only [Except.ok.injEq] at hl
    subst hl
    exact defwLines_asm asm mem start end_ subl (hev h0) (by rw [slice_length]; have := hsum h0; omega) hb
  · dsimp only at hl
    split at hl
    · simp at hl
    · simp only [Except.ok.injEq] at hl
      subst hl
      intro s hs
      obtain ⟨a, _, hs'⟩ := List.mem_flatMap.1 hs
      exact defwChunk_asm asm mem (dw * 2) end_ (firstBase subl) (by omega) hb a s hs'

/-! ### `defs_range` -/

theorem replicate_of_all (v : Nat) (rest : List Nat) (h : rest.all (· == v) = true) :
    List.replicate (rest.length + 1) v = v :: rest := by
  induction rest with
  | nil => rfl
  | cons x r ih =>
    simp only [List.all_cons, Bool.and_eq_true, beq_iff_eq] at h
    rw [List.length_cons, List.replicate_succ, ih h.2, h.1]

theorem defsRange_cover (mem : List Nat) (db start end_ : Nat) (subl : Sublens)
    (hse : start < end_) (hmem : end_ ≤ mem.length) (h64 : mem.length ≤ 65536) :
    ∃ l, defsRange mem db start end_ subl = .ok l ∧ Chain mem l start end_ := by
  unfold defsRange
  split
  · rename_i h
    have := (slice_eq_nil_iff mem start end_).1 h
    omega
  · rename_i v rest h
    split
    · refine ⟨_, rfl, ?_⟩
      rw [← h]
      exact chain_single_slice mem start end_ _ hse hmem h64
    · exact defbLines_cover mem false db start end_ _ hse hmem h64

theorem defsRange_asm (asm : Nat → List Nat) (mem : List Nat) (db start end_ : Nat) (subl : Sublens)
    (hsz : firstSize subl = 0 ∨ firstSize subl = end_ - start) (hmem : end_ ≤ mem.length)
    (l : List Stmt) (hl : defsRange mem db start end_ subl = .ok l) :
    ∀ s ∈ l, s.op.assemble asm = s.bytes := by
  unfold defsRange at hl
  split at hl
  · simp at hl
  · rename_i v rest h
    split at hl
    · rename_i hall
      simp only [Except.ok.injEq] at hl
      subst hl
      intro s hs
      simp only [List.mem_singleton] at hs
      subst hs
      simp only [Op.assemble]
      have hlen : (v :: rest).length = end_ - start := by rw [← h, slice_length]; omega
      simp only [List.length_cons] at hlen
      have : (if firstSize subl ≠ 0 then firstSize subl else end_ - start) = rest.length + 1 := by
        split <;> omega
      rw [this]
      exact replicate_of_all v rest hall
    · exact defbLines_asm asm mem false db start end_ _ (by simp) (by simp [firstSize]) l hl

/-! ### the data sub-block loop of `_create_entries` -/

theorem dataLoop_done (mem : List Nat) (cfg : Config) (ctl : Char) (subl : Sublens) (length end_ fuel a : Nat)
    (h : end_ ≤ a) : dataLoop mem cfg ctl subl length end_ fuel a = .ok [] := by
  cases fuel with
  | zero => rfl
  | succ f => simp only [dataLoop]; rw [if_neg (by omega)]

/-- the loop with an invariant `P` on the addresses it visits -/
theorem dataLoop_cover (mem : List Nat) (cfg : Config) (ctl : Char) (subl : Sublens) (length end_ : Nat)
    (P : Nat → Prop) (hlen : 0 < length) (hP : ∀ a, P a → a + length < end_ → P (a + length))
    (hstep : ∀ a, P a → a < end_ → ∃ l, dataRange mem cfg ctl subl a (min (a + length) end_) = .ok l ∧
      Chain mem l a (min (a + length) end_)) :
    ∀ fuel a, P a → a < end_ → end_ - a ≤ fuel →
      ∃ l, dataLoop mem cfg ctl subl length end_ fuel a = .ok l ∧ Chain mem l a end_ := by
  intro fuel
  induction fuel with
  | zero => intro a _ h1 h2; omega
  | succ f ih =>
    intro a hpa h1 h2
    obtain ⟨l1, hl1, hc1⟩ := hstep a hpa h1
    simp only [dataLoop]
    rw [if_pos h1, hl1]
    by_cases h3 : a + length < end_
    · obtain ⟨l2, hl2, hc2⟩ := ih (a + length) (hP a hpa h3) h3 (by omega)
      rw [hl2]
      refine ⟨l1 ++ l2, rfl, ?_⟩
      rw [Nat.min_eq_left (by omega)] at hc1
      exact Chain_append hc1 hc2
    · rw [dataLoop_done _ _ _ _ _ _ _ _ (by omega)]
      refine ⟨l1 ++ [], rfl, ?_⟩
      rw [Nat.min_eq_right (by omega)] at hc1
      simpa using hc1

theorem dataLoop_asm (asm : Nat → List Nat) (mem : List Nat) (cfg : Config) (ctl : Char) (subl : Sublens) (length end_ : Nat)
    (P : Nat → Prop) (hP : ∀ a, P a → a < end_ → P (a + length))
    (hstep : ∀ a l, P a → a < end_ → dataRange mem cfg ctl subl a (min (a + length) end_) = .ok l →
      ∀ s ∈ l, s.op.assemble asm = s.bytes) :
    ∀ fuel a l, P a → dataLoop mem cfg ctl subl length end_ fuel a = .ok l → ∀ s ∈ l, s.op.assemble asm = s.bytes := by
  intro fuel
  induction fuel with
  | zero => intro a l _ hl; simp only [dataLoop, Except.ok.injEq] at hl; subst hl; simp
  | succ f ih =>
    intro a l hpa hl
    simp only [dataLoop] at hl
    split at hl
    · rename_i hlt
      cases h1 : dataRange mem cfg ctl subl a (min (a + length) end_) with
      | error e => rw [h1] at hl; simp [bind, Except.bind] at hl
      | ok l1 =>
        cases h2 : dataLoop mem cfg ctl subl length end_ f (a + length) with
        | error e => rw [h1, h2] at hl; simp [bind, Except.bind] at hl
        | ok l2 =>
          rw [h1, h2] at hl
          simp only [bind, Except.bind, pure, Except.pure, Except.ok.injEq] at hl
          subst hl
          intro s hs
          rcases List.mem_append.1 hs with h3 | h3
          · exact hstep a l1 hpa hlt h1 s h3
          · exact ih _ l2 (hP a hpa hlt) h2 s h3
    · simp only [Except.ok.injEq] at hl; subst hl; simp

/-! ### `disassemble`: the address walk -/

theorem codeLoop_done (mem : List Nat) (wrap : Bool) (dec : Dec) (end_ fuel a : Nat) (h : end_ ≤ a) :
    codeLoop mem wrap dec end_ fuel a = [] := by
  cases fuel with
  | zero => rfl
  | succ f => simp only [codeLoop]; rw [if_neg (by omega)]

theorem rstArgs_none (mem : List Nat) (dec : Dec) (a len : Nat) (h : dec.rst a = none) :
    rstArgs mem dec a len = ([], 0) := by
  simp [rstArgs, h]

/-- the instruction made in one step: its bytes are the snapshot's (wrapping at 64K) and it ends
at `a + len`, or at 65536 when it would wrap and wrapping is off (DEFB fallback) -/
theorem codeIns_spec (mem : List Nat) (wrap : Bool) (a len : Nat) (ha : a < 65536)
    (hlen : 1 ≤ len ∧ len ≤ 65536) (hmem : mem.length = 65536) :
    (codeIns mem wrap a len).addr = a ∧ (codeIns mem wrap a len).bytes ≠ [] ∧
    BytesOk mem (codeIns mem wrap a len) ∧
    (a + (codeIns mem wrap a len).bytes.length = a + len ∨
      (a + (codeIns mem wrap a len).bytes.length = 65536 ∧ 65536 < a + len)) := by
  unfold codeIns
  split
  · rename_i h
    refine ⟨rfl, ?_, bytesOk_slice mem a (a + len) _ (by omega) (by omega), ?_⟩
    · intro h2; have := (slice_eq_nil_iff mem a (a + len)).1 h2; omega
    · left; simp only [slice_length]; omega
  · rename_i h
    split
    · -- wrapped instruction
      have hr : (a + len) % 65536 = a + len - 65536 := by omega
      have hl1 : (slice mem a 65536).length = 65536 - a := by rw [slice_length]; omega
      have hl2 : (slice mem 0 ((a + len) % 65536)).length = a + len - 65536 := by rw [slice_length, hr]; omega
      refine ⟨rfl, ?_, ?_, ?_⟩
      · intro h2
        have := congrArg List.length h2
        simp only [List.length_append, hl1, hl2, List.length_nil] at this
        omega
      · intro k hk
        simp only [List.length_append, hl1, hl2] at hk
        simp only [memAt]
        rw [List.getElem?_append]
        split
        · rename_i h3
          rw [hl1] at h3
          rw [slice_getElem?, if_pos (by omega)]
          congr 1; omega
        · rename_i h3
          rw [hl1] at h3
          rw [slice_getElem?, hr, if_pos (by omega)]
          congr 1; omega
      · left; simp only [List.length_append, hl1, hl2]; omega
    · refine ⟨rfl, ?_, bytesOk_slice mem a 65536 _ (by omega) (by omega), ?_⟩
      · simp only [defbLine]
        intro h2; have := (slice_eq_nil_iff mem a 65536).1 h2; omega
      · right; simp only [defbLine, slice_length]; omega

/-- RST-argument handlers as `skoolkit.rst.RSTHandler` makes them: a non-empty sublength list,
all even for a `W` (word) argument -/
def RstWf (dec : Dec) : Prop :=
  ∀ a isW sl, dec.rst a = some (isW, sl) → 0 < (sl.map (·.1)).sum ∧ (isW = true → ∀ q ∈ sl, q.1 % 2 = 0)

theorem chain_single_of_eq (mem : List Nat) (s : Stmt) (a b : Nat) (h1 : s.addr = a) (h2 : s.bytes = slice mem a b)
    (hab : a < b) (hb : b ≤ mem.length) (h64 : mem.length ≤ 65536) : Chain mem [s] a b := by
  obtain ⟨addr, op, bytes⟩ := s
  simp only at h1 h2
  subst h1; subst h2
  exact chain_single_slice mem addr b op hab hb h64

/-- the statements made for the arguments of an RST instruction ending at `ra < 65536`: nothing, or
a chain from `ra` to `ra + ra_len` (cut at 65536) -/
theorem rstArgs_spec (mem : List Nat) (dec : Dec) (a len : Nat) (hwf : RstWf dec) (hmem : mem.length = 65536) :
    rstArgs mem dec a len = ([], 0) ∨
    (a + len < 65536 ∧ 0 < (rstArgs mem dec a len).2 ∧
      Chain mem (rstArgs mem dec a len).1 (a + len) (min (a + len + (rstArgs mem dec a len).2) 65536)) := by
  unfold rstArgs
  cases hr : dec.rst a with
  | none => left; rfl
  | some p =>
    obtain ⟨isW, sl⟩ := p
    simp only
    by_cases hg : a + len < 65536
    · right
      rw [if_pos hg]
      obtain ⟨hpos, hev⟩ := hwf a isW sl hr
      refine ⟨hg, hpos, ?_⟩
      simp only
      cases isW with
      | true =>
        simp only [if_true]
        have := defwLines_cover mem (a + len) (a + len + (sl.map (·.1)).sum) sl (hev rfl)
          (by rw [slice_length]; omega) (by omega) (by omega) (by omega)
        rwa [hmem] at this
      | false =>
        simp only [Bool.false_eq_true, if_false]
        have h2 : (defbLine false (a + len) (slice mem (a + len) (a + len + (sl.map (·.1)).sum)) sl).bytes =
            slice mem (a + len) (min (a + len + (sl.map (·.1)).sum) 65536) := by
          simp only [defbLine]
          rw [slice_clamp]
          congr 1
          omega
        exact chain_single_of_eq mem _ (a + len) _ rfl h2 (by omega) (by omega) (by omega)
    · left
      rw [if_neg hg]

/-- `disassemble(start, end, base)`: consecutive statements from `start` holding the snapshot's
bytes (instructions and, with an RST handler, their DEFB/DEFW arguments), up to the first statement
boundary at or after `end` -/
theorem codeLoop_cover (mem : List Nat) (wrap : Bool) (dec : Dec) (end_ : Nat)
    (hlen : ∀ a, 1 ≤ dec.len a ∧ dec.len a ≤ 65536) (hwf : RstWf dec)
    (hend : end_ ≤ 65536) (hmem : mem.length = 65536) :
    ∀ fuel a, a < end_ → end_ - a ≤ fuel →
      ∃ e', Chain mem (codeLoop mem wrap dec end_ fuel a) a e' ∧ end_ ≤ e' := by
  intro fuel
  induction fuel with
  | zero => intro a h1 h2; omega
  | succ f ih =>
    intro a h1 h2
    simp only [codeLoop]
    rw [if_pos h1]
    obtain ⟨hA, hB, hC, hD⟩ := codeIns_spec mem wrap a (dec.len a) (by omega) (hlen a) hmem
    have hl := hlen a
    rcases rstArgs_spec mem dec a (dec.len a) hwf hmem with hr | ⟨hg, hpos, hch⟩
    · -- no RST arguments
      simp only [hr, List.cons_append, List.nil_append, Nat.add_zero]
      by_cases h3 : a + dec.len a < end_
      · obtain ⟨e', hc, he⟩ := ih (a + dec.len a) h3 (by omega)
        refine ⟨e', ?_, he⟩
        simp only [Chain]
        refine ⟨hA, hB, hC, ?_⟩
        rcases hD with h4 | h4
        · rw [h4]; exact hc
        · omega
      · rw [codeLoop_done _ _ _ _ _ _ (by omega)]
        refine ⟨a + (codeIns mem wrap a (dec.len a)).bytes.length, ?_, ?_⟩
        · simp only [Chain]; exact ⟨hA, hB, hC, trivial⟩
        · rcases hD with h4 | h4 <;> omega
    · -- RST arguments follow the instruction, which ends at `a + len < 65536`
      have hD' : a + (codeIns mem wrap a (dec.len a)).bytes.length = a + dec.len a := by
        rcases hD with h4 | h4
        · exact h4
        · omega
      generalize hex : rstArgs mem dec a (dec.len a) = ex at hpos hch
      obtain ⟨extra, raLen⟩ := ex
      simp only at hpos hch ⊢
      simp only [List.cons_append]
      by_cases h3 : a + raLen + dec.len a < end_
      · obtain ⟨e', hc, he⟩ := ih (a + raLen + dec.len a) h3 (by omega)
        refine ⟨e', ?_, he⟩
        simp only [Chain]
        refine ⟨hA, hB, hC, ?_⟩
        rw [hD']
        have : min (a + dec.len a + raLen) 65536 = a + raLen + dec.len a := by omega
        rw [this] at hch
        exact Chain_append hch hc
      · rw [codeLoop_done _ _ _ _ _ _ (by omega), List.append_nil]
        refine ⟨min (a + dec.len a + raLen) 65536, ?_, by omega⟩
        simp only [Chain]
        refine ⟨hA, hB, hC, ?_⟩
        rw [hD']
        exact hch

theorem codeLoop_asm (asm : Nat → List Nat) (mem : List Nat) (wrap : Bool) (dec : Dec) (end_ : Nat)
    (hwf : RstWf dec) (hb : ∀ x ∈ mem, x < 256)
    (hasm : ∀ a, asm a = (codeIns mem wrap a (dec.len a)).bytes) :
    ∀ fuel a, ∀ s ∈ codeLoop mem wrap dec end_ fuel a, s.op.assemble asm = s.bytes := by
  intro fuel
  induction fuel with
  | zero => intro a s hs; simp [codeLoop] at hs
  | succ f ih =>
    intro a s hs
    simp only [codeLoop] at hs
    split at hs
    · simp only [List.cons_append, List.mem_cons, List.mem_append] at hs
      rcases hs with h1 | h1 | h1
      · subst h1
        have := hasm a
        unfold codeIns at this ⊢
        split
        · simp only [Op.assemble]; rw [this]; simp [*]
        · split
          · simp only [Op.assemble]; rw [this]; simp [*]
          · exact defbLine_asm asm false _ _ _ (Or.inl ⟨rfl, by simp⟩)
      · -- an RST argument statement
        unfold rstArgs at h1
        cases hr : dec.rst a with
        | none => rw [hr] at h1; simp at h1
        | some p =>
          obtain ⟨isW, sl⟩ := p
          rw [hr] at h1
          simp only at h1
          split at h1
          · obtain ⟨hpos, hev⟩ := hwf a isW sl hr
            cases isW with
            | true =>
              simp only [if_true] at h1
              exact defwLines_asm asm mem _ _ sl (hev rfl) (by rw [slice_length]; omega) hb s h1
            | false =>
              simp only [Bool.false_eq_true, if_false, List.mem_singleton] at h1
              subst h1
              apply defbLine_asm
              right
              rw [slice_length]; omega
          · simp at h1
      · exact ih _ s h1
    · simp at hs

end Stmts
