import SkoolVerif.Model.TapeFiles
/-!
Lemmas for the TAP framing round trip.
-/
namespace TapeFiles

/-- A list of blocks that `write_tap` accepts: bytes, fewer than 65536 per block. -/
def ValidTap (bs : List (List Nat)) : Prop := ∀ d ∈ bs, d.length < 65536 ∧ ∀ x ∈ d, x < 256

/-- The file content as a pure function. -/
def tapBytes : List (List Nat) → List Nat
  | [] => []
  | d :: rest => [d.length % 256, d.length / 256] ++ d ++ tapBytes rest

theorem writeTap_ok (bs : List (List Nat)) (h : ValidTap bs) : writeTap bs = .ok (tapBytes bs) := by
  induction bs with
  | nil => rfl
  | cons d rest ih =>
    have hd := h d (by simp)
    have hr := ih (fun x hx => h x (List.mem_cons_of_mem _ hx))
    have h1 : ¬ (d.length / 256 ≥ 256) := by omega
    have h2 : d.any (· ≥ 256) = false := by
      rw [List.any_eq_false]
      intro x hx
      have := hd.2 x hx
      simp; omega
    simp only [writeTap, h2, hr, tapBytes]
    simp [h1]

/-- Block numbering as done by the `block_num` counter. -/
def number : Nat → List (List Nat) → List (Nat × List Nat)
  | _, [] => []
  | bn, d :: rest => (bn, d) :: number (bn + 1) rest

/-- The blocks selected by `start`, `stop` and `skip`. -/
def sel (start stop : Int) (skip : List Nat) (nb : Nat × List Nat) : Bool :=
  decide ((nb.1 : Int) ≥ start) && !(skip.contains nb.1) && (decide (stop ≤ 0) || decide ((nb.1 : Int) < stop))

theorem number_ge {bn : Nat} {bs : List (List Nat)} {nb : Nat × List Nat} (h : nb ∈ number bn bs) :
    bn ≤ nb.1 := by
  induction bs generalizing bn with
  | nil => simp [number] at h
  | cons d rest ih =>
    simp only [number, List.mem_cons] at h
    rcases h with rfl | h
    · exact Nat.le_refl _
    · have := ih h; omega

theorem tapLoop_written (start stop : Int) (skip : List Nat) (bs : List (List Nat))
    (hv : ∀ d ∈ bs, d.length < 65536) (fuel bn : Nat) (acc : List (Nat × List Nat))
    (hf : bs.length ≤ fuel) (hbn : (bn : Int) ≤ stop ∨ stop ≤ 0) :
    ∃ bn' rem, tapLoop start stop skip fuel (tapBytes bs) bn acc =
        (acc ++ (number bn bs).filter (sel start stop skip), bn', rem, 0) ∧
      ((bn' : Int) = stop ∨ rem = 0) := by
  induction bs generalizing fuel bn acc with
  | nil =>
    refine ⟨bn, 0, ?_, Or.inr rfl⟩
    cases fuel <;> simp [tapLoop, tapBytes, number]
  | cons d rest ih =>
    cases fuel with
    | zero => simp at hf
    | succ fuel =>
      have hd := hv d (by simp)
      simp only [tapBytes, List.cons_append, List.nil_append, tapLoop]
      by_cases hbrk : (bn : Int) ≥ stop ∧ stop > 0
      · refine ⟨bn, (d.length % 256 :: d.length / 256 :: (d ++ tapBytes rest)).length, ?_, Or.inl (by omega)⟩
        simp only [hbrk, and_self, ↓reduceIte]
        have : (number bn (d :: rest)).filter (sel start stop skip) = [] := by
          rw [List.filter_eq_nil_iff]
          intro nb hnb
          have := number_ge hnb
          simp [sel]
          intro _ _
          omega
        rw [this, List.append_nil]
      · simp only [hbrk, ↓reduceIte]
        have hlen : d.length % 256 + 256 * (d.length / 256) = d.length := by omega
        rw [hlen]
        have htake : (d ++ tapBytes rest).take d.length = d := by simp
        have hdrop : (d ++ tapBytes rest).drop d.length = tapBytes rest := by simp
        have hle : d.length ≤ (d ++ tapBytes rest).length := by simp
        simp only [htake, hdrop, hle, ↓reduceIte]
        have hbn' : ((bn + 1 : Nat) : Int) ≤ stop ∨ stop ≤ 0 := by omega
        obtain ⟨bn', rem, heq, hor⟩ := ih (fun x hx => hv x (List.mem_cons_of_mem _ hx)) fuel (bn + 1)
          (if (bn : Int) ≥ start ∧ bn ∉ skip then acc ++ [(bn, d)] else acc) (by simpa using hf) hbn'
        refine ⟨bn', rem, ?_, hor⟩
        rw [heq]
        congr 1
        simp only [number, List.filter_cons]
        have hsel : sel start stop skip (bn, d) = (decide ((bn : Int) ≥ start) && !(skip.contains bn)) := by
          simp only [sel]
          have : (decide (stop ≤ 0) || decide ((bn : Int) < stop)) = true := by
            simp; omega
          rw [this, Bool.and_true]
        rw [hsel]
        by_cases h1 : (bn : Int) ≥ start <;> by_cases h2 : bn ∈ skip <;> simp [h1, h2]

end TapeFiles
