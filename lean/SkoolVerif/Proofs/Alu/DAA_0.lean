import SkoolVerif.Spec.AluCheck
open AluCheck
namespace AluProofs
theorem DAA_slice_0 : allLt 8 (fun x => allLt 256 (fun y => ckDAA (0 + x) y)) = true := by decide +kernel
theorem DAA_slice_1 : allLt 8 (fun x => allLt 256 (fun y => ckDAA (8 + x) y)) = true := by decide +kernel
theorem DAA_slice_2 : allLt 8 (fun x => allLt 256 (fun y => ckDAA (16 + x) y)) = true := by decide +kernel
theorem DAA_slice_3 : allLt 8 (fun x => allLt 256 (fun y => ckDAA (24 + x) y)) = true := by decide +kernel
theorem DAA_slice_4 : allLt 8 (fun x => allLt 256 (fun y => ckDAA (32 + x) y)) = true := by decide +kernel
theorem DAA_slice_5 : allLt 8 (fun x => allLt 256 (fun y => ckDAA (40 + x) y)) = true := by decide +kernel
theorem DAA_slice_6 : allLt 8 (fun x => allLt 256 (fun y => ckDAA (48 + x) y)) = true := by decide +kernel
theorem DAA_slice_7 : allLt 8 (fun x => allLt 256 (fun y => ckDAA (56 + x) y)) = true := by decide +kernel
end AluProofs
