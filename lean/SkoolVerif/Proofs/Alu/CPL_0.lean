import SkoolVerif.Spec.AluCheck
open AluCheck
namespace AluProofs
theorem CPL_slice_0 : allLt 8 (fun x => allLt 256 (fun y => ckCPL (0 + x) y)) = true := by decide +kernel
theorem CPL_slice_1 : allLt 8 (fun x => allLt 256 (fun y => ckCPL (8 + x) y)) = true := by decide +kernel
theorem CPL_slice_2 : allLt 8 (fun x => allLt 256 (fun y => ckCPL (16 + x) y)) = true := by decide +kernel
theorem CPL_slice_3 : allLt 8 (fun x => allLt 256 (fun y => ckCPL (24 + x) y)) = true := by decide +kernel
theorem CPL_slice_4 : allLt 8 (fun x => allLt 256 (fun y => ckCPL (32 + x) y)) = true := by decide +kernel
theorem CPL_slice_5 : allLt 8 (fun x => allLt 256 (fun y => ckCPL (40 + x) y)) = true := by decide +kernel
theorem CPL_slice_6 : allLt 8 (fun x => allLt 256 (fun y => ckCPL (48 + x) y)) = true := by decide +kernel
theorem CPL_slice_7 : allLt 8 (fun x => allLt 256 (fun y => ckCPL (56 + x) y)) = true := by decide +kernel
end AluProofs
