import SkoolVerif.Spec.AluCheck
open AluCheck
namespace AluProofs
theorem DAA_slice_8 : allLt 8 (fun x => allLt 256 (fun y => ckDAA (64 + x) y)) = true := by decide +kernel
theorem DAA_slice_9 : allLt 8 (fun x => allLt 256 (fun y => ckDAA (72 + x) y)) = true := by decide +kernel
theorem DAA_slice_10 : allLt 8 (fun x => allLt 256 (fun y => ckDAA (80 + x) y)) = true := by decide +kernel
theorem DAA_slice_11 : allLt 8 (fun x => allLt 256 (fun y => ckDAA (88 + x) y)) = true := by decide +kernel
theorem DAA_slice_12 : allLt 8 (fun x => allLt 256 (fun y => ckDAA (96 + x) y)) = true := by decide +kernel
theorem DAA_slice_13 : allLt 8 (fun x => allLt 256 (fun y => ckDAA (104 + x) y)) = true := by decide +kernel
theorem DAA_slice_14 : allLt 8 (fun x => allLt 256 (fun y => ckDAA (112 + x) y)) = true := by decide +kernel
theorem DAA_slice_15 : allLt 8 (fun x => allLt 256 (fun y => ckDAA (120 + x) y)) = true := by decide +kernel
end AluProofs
