import SkoolVerif.Spec.AluCheck
open AluCheck
namespace AluProofs
theorem RLCA_slice_8 : allLt 8 (fun x => allLt 256 (fun y => ckRLCA (64 + x) y)) = true := by decide +kernel
theorem RLCA_slice_9 : allLt 8 (fun x => allLt 256 (fun y => ckRLCA (72 + x) y)) = true := by decide +kernel
theorem RLCA_slice_10 : allLt 8 (fun x => allLt 256 (fun y => ckRLCA (80 + x) y)) = true := by decide +kernel
theorem RLCA_slice_11 : allLt 8 (fun x => allLt 256 (fun y => ckRLCA (88 + x) y)) = true := by decide +kernel
theorem RLCA_slice_12 : allLt 8 (fun x => allLt 256 (fun y => ckRLCA (96 + x) y)) = true := by decide +kernel
theorem RLCA_slice_13 : allLt 8 (fun x => allLt 256 (fun y => ckRLCA (104 + x) y)) = true := by decide +kernel
theorem RLCA_slice_14 : allLt 8 (fun x => allLt 256 (fun y => ckRLCA (112 + x) y)) = true := by decide +kernel
theorem RLCA_slice_15 : allLt 8 (fun x => allLt 256 (fun y => ckRLCA (120 + x) y)) = true := by decide +kernel
end AluProofs
