import SkoolVerif.Proofs.Alu.OR_0
import SkoolVerif.Proofs.Alu.OR_1
import SkoolVerif.Proofs.Alu.OR_2
import SkoolVerif.Proofs.Alu.OR_3
open AluCheck
namespace AluProofs
/-- every entry of `OR` equals the bit-level spec and is a byte (pair) -/
theorem OR_ok : ∀ x y : Nat, x < 256 → y < 256 → ckOR x y = true := by
  intro x y hx hy
  have hs : ∀ k, k < 32 → allLt 8 (fun a => (fun x => allLt 256 (fun y => ckOR x y)) (8 * k + a)) = true := fun k hk =>
    match k, hk with
    | 0, _ => by simpa using OR_slice_0
    | 1, _ => by simpa using OR_slice_1
    | 2, _ => by simpa using OR_slice_2
    | 3, _ => by simpa using OR_slice_3
    | 4, _ => by simpa using OR_slice_4
    | 5, _ => by simpa using OR_slice_5
    | 6, _ => by simpa using OR_slice_6
    | 7, _ => by simpa using OR_slice_7
    | 8, _ => by simpa using OR_slice_8
    | 9, _ => by simpa using OR_slice_9
    | 10, _ => by simpa using OR_slice_10
    | 11, _ => by simpa using OR_slice_11
    | 12, _ => by simpa using OR_slice_12
    | 13, _ => by simpa using OR_slice_13
    | 14, _ => by simpa using OR_slice_14
    | 15, _ => by simpa using OR_slice_15
    | 16, _ => by simpa using OR_slice_16
    | 17, _ => by simpa using OR_slice_17
    | 18, _ => by simpa using OR_slice_18
    | 19, _ => by simpa using OR_slice_19
    | 20, _ => by simpa using OR_slice_20
    | 21, _ => by simpa using OR_slice_21
    | 22, _ => by simpa using OR_slice_22
    | 23, _ => by simpa using OR_slice_23
    | 24, _ => by simpa using OR_slice_24
    | 25, _ => by simpa using OR_slice_25
    | 26, _ => by simpa using OR_slice_26
    | 27, _ => by simpa using OR_slice_27
    | 28, _ => by simpa using OR_slice_28
    | 29, _ => by simpa using OR_slice_29
    | 30, _ => by simpa using OR_slice_30
    | 31, _ => by simpa using OR_slice_31
    | n + 32, h => absurd h (by omega)
  have hp := sliced (p := fun x => allLt 256 (fun y => ckOR x y)) hs x (by omega)
  have hp := allLt_spec hp y hy
  exact hp
end AluProofs
