import SkoolVerif.Spec.AluCheck
open AluCheck
namespace AluProofs
theorem CPL_slice_8 : allLt 8 (fun x => allLt 256 (fun y => ckCPL (64 + x) y)) = true := by decide +kernel
theorem CPL_slice_9 : allLt 8 (fun x => allLt 256 (fun y => ckCPL (72 + x) y)) = true := by decide +kernel
theorem CPL_slice_10 : allLt 8 (fun x => allLt 256 (fun y => ckCPL (80 + x) y)) = true := by decide +kernel
theorem CPL_slice_11 : allLt 8 (fun x => allLt 256 (fun y => ckCPL (88 + x) y)) = true := by decide +kernel
theorem CPL_slice_12 : allLt 8 (fun x => allLt 256 (fun y => ckCPL (96 + x) y)) = true := by decide +kernel
theorem CPL_slice_13 : allLt 8 (fun x => allLt 256 (fun y => ckCPL (104 + x) y)) = true := by decide +kernel
theorem CPL_slice_14 : allLt 8 (fun x => allLt 256 (fun y => ckCPL (112 + x) y)) = true := by decide +kernel
theorem CPL_slice_15 : allLt 8 (fun x => allLt 256 (fun y => ckCPL (120 + x) y)) = true := by decide +kernel
end AluProofs
