import SkoolVerif.Spec.AluCheck
open AluCheck
namespace AluProofs
theorem CCF_slice_8 : allLt 8 (fun x => allLt 256 (fun y => ckCCF (64 + x) y)) = true := by decide +kernel
theorem CCF_slice_9 : allLt 8 (fun x => allLt 256 (fun y => ckCCF (72 + x) y)) = true := by decide +kernel
theorem CCF_slice_10 : allLt 8 (fun x => allLt 256 (fun y => ckCCF (80 + x) y)) = true := by decide +kernel
theorem CCF_slice_11 : allLt 8 (fun x => allLt 256 (fun y => ckCCF (88 + x) y)) = true := by decide +kernel
theorem CCF_slice_12 : allLt 8 (fun x => allLt 256 (fun y => ckCCF (96 + x) y)) = true := by decide +kernel
theorem CCF_slice_13 : allLt 8 (fun x => allLt 256 (fun y => ckCCF (104 + x) y)) = true := by decide +kernel
theorem CCF_slice_14 : allLt 8 (fun x => allLt 256 (fun y => ckCCF (112 + x) y)) = true := by decide +kernel
theorem CCF_slice_15 : allLt 8 (fun x => allLt 256 (fun y => ckCCF (120 + x) y)) = true := by decide +kernel
end AluProofs
