import SkoolVerif.Spec.AluCheck
open AluCheck
namespace AluProofs
theorem CCF_slice_0 : allLt 8 (fun x => allLt 256 (fun y => ckCCF (0 + x) y)) = true := by decide +kernel
theorem CCF_slice_1 : allLt 8 (fun x => allLt 256 (fun y => ckCCF (8 + x) y)) = true := by decide +kernel
theorem CCF_slice_2 : allLt 8 (fun x => allLt 256 (fun y => ckCCF (16 + x) y)) = true := by decide +kernel
theorem CCF_slice_3 : allLt 8 (fun x => allLt 256 (fun y => ckCCF (24 + x) y)) = true := by decide +kernel
theorem CCF_slice_4 : allLt 8 (fun x => allLt 256 (fun y => ckCCF (32 + x) y)) = true := by decide +kernel
theorem CCF_slice_5 : allLt 8 (fun x => allLt 256 (fun y => ckCCF (40 + x) y)) = true := by decide +kernel
theorem CCF_slice_6 : allLt 8 (fun x => allLt 256 (fun y => ckCCF (48 + x) y)) = true := by decide +kernel
theorem CCF_slice_7 : allLt 8 (fun x => allLt 256 (fun y => ckCCF (56 + x) y)) = true := by decide +kernel
end AluProofs
