import SkoolVerif.Spec.AluCheck
open AluCheck
namespace AluProofs
theorem ADC_slice_56 : allLt 4 (fun y => allLt 2 (fun x => allLt 256 (fun z => ckADC x (224 + y) z))) = true := by decide +kernel
theorem ADC_slice_57 : allLt 4 (fun y => allLt 2 (fun x => allLt 256 (fun z => ckADC x (228 + y) z))) = true := by decide +kernel
theorem ADC_slice_58 : allLt 4 (fun y => allLt 2 (fun x => allLt 256 (fun z => ckADC x (232 + y) z))) = true := by decide +kernel
theorem ADC_slice_59 : allLt 4 (fun y => allLt 2 (fun x => allLt 256 (fun z => ckADC x (236 + y) z))) = true := by decide +kernel
theorem ADC_slice_60 : allLt 4 (fun y => allLt 2 (fun x => allLt 256 (fun z => ckADC x (240 + y) z))) = true := by decide +kernel
theorem ADC_slice_61 : allLt 4 (fun y => allLt 2 (fun x => allLt 256 (fun z => ckADC x (244 + y) z))) = true := by decide +kernel
theorem ADC_slice_62 : allLt 4 (fun y => allLt 2 (fun x => allLt 256 (fun z => ckADC x (248 + y) z))) = true := by decide +kernel
theorem ADC_slice_63 : allLt 4 (fun y => allLt 2 (fun x => allLt 256 (fun z => ckADC x (252 + y) z))) = true := by decide +kernel
end AluProofs
