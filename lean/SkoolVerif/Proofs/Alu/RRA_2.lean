import SkoolVerif.Spec.AluCheck
open AluCheck
namespace AluProofs
theorem RRA_slice_16 : allLt 8 (fun x => allLt 256 (fun y => ckRRA (128 + x) y)) = true := by decide +kernel
theorem RRA_slice_17 : allLt 8 (fun x => allLt 256 (fun y => ckRRA (136 + x) y)) = true := by decide +kernel
theorem RRA_slice_18 : allLt 8 (fun x => allLt 256 (fun y => ckRRA (144 + x) y)) = true := by decide +kernel
theorem RRA_slice_19 : allLt 8 (fun x => allLt 256 (fun y => ckRRA (152 + x) y)) = true := by decide +kernel
theorem RRA_slice_20 : allLt 8 (fun x => allLt 256 (fun y => ckRRA (160 + x) y)) = true := by decide +kernel
theorem RRA_slice_21 : allLt 8 (fun x => allLt 256 (fun y => ckRRA (168 + x) y)) = true := by decide +kernel
theorem RRA_slice_22 : allLt 8 (fun x => allLt 256 (fun y => ckRRA (176 + x) y)) = true := by decide +kernel
theorem RRA_slice_23 : allLt 8 (fun x => allLt 256 (fun y => ckRRA (184 + x) y)) = true := by decide +kernel
end AluProofs
