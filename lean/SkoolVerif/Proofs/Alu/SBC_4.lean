import SkoolVerif.Spec.AluCheck
open AluCheck
namespace AluProofs
theorem SBC_slice_32 : allLt 4 (fun y => allLt 2 (fun x => allLt 256 (fun z => ckSBC x (128 + y) z))) = true := by decide +kernel
theorem SBC_slice_33 : allLt 4 (fun y => allLt 2 (fun x => allLt 256 (fun z => ckSBC x (132 + y) z))) = true := by decide +kernel
theorem SBC_slice_34 : allLt 4 (fun y => allLt 2 (fun x => allLt 256 (fun z => ckSBC x (136 + y) z))) = true := by decide +kernel
theorem SBC_slice_35 : allLt 4 (fun y => allLt 2 (fun x => allLt 256 (fun z => ckSBC x (140 + y) z))) = true := by decide +kernel
theorem SBC_slice_36 : allLt 4 (fun y => allLt 2 (fun x => allLt 256 (fun z => ckSBC x (144 + y) z))) = true := by decide +kernel
theorem SBC_slice_37 : allLt 4 (fun y => allLt 2 (fun x => allLt 256 (fun z => ckSBC x (148 + y) z))) = true := by decide +kernel
theorem SBC_slice_38 : allLt 4 (fun y => allLt 2 (fun x => allLt 256 (fun z => ckSBC x (152 + y) z))) = true := by decide +kernel
theorem SBC_slice_39 : allLt 4 (fun y => allLt 2 (fun x => allLt 256 (fun z => ckSBC x (156 + y) z))) = true := by decide +kernel
end AluProofs
