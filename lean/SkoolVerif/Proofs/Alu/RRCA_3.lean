import SkoolVerif.Spec.AluCheck
open AluCheck
namespace AluProofs
theorem RRCA_slice_24 : allLt 8 (fun x => allLt 256 (fun y => ckRRCA (192 + x) y)) = true := by decide +kernel
theorem RRCA_slice_25 : allLt 8 (fun x => allLt 256 (fun y => ckRRCA (200 + x) y)) = true := by decide +kernel
theorem RRCA_slice_26 : allLt 8 (fun x => allLt 256 (fun y => ckRRCA (208 + x) y)) = true := by decide +kernel
theorem RRCA_slice_27 : allLt 8 (fun x => allLt 256 (fun y => ckRRCA (216 + x) y)) = true := by decide +kernel
theorem RRCA_slice_28 : allLt 8 (fun x => allLt 256 (fun y => ckRRCA (224 + x) y)) = true := by decide +kernel
theorem RRCA_slice_29 : allLt 8 (fun x => allLt 256 (fun y => ckRRCA (232 + x) y)) = true := by decide +kernel
theorem RRCA_slice_30 : allLt 8 (fun x => allLt 256 (fun y => ckRRCA (240 + x) y)) = true := by decide +kernel
theorem RRCA_slice_31 : allLt 8 (fun x => allLt 256 (fun y => ckRRCA (248 + x) y)) = true := by decide +kernel
end AluProofs
