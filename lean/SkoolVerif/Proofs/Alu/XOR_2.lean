import SkoolVerif.Spec.AluCheck
open AluCheck
namespace AluProofs
theorem XOR_slice_16 : allLt 8 (fun x => allLt 256 (fun y => ckXOR (128 + x) y)) = true := by decide +kernel
theorem XOR_slice_17 : allLt 8 (fun x => allLt 256 (fun y => ckXOR (136 + x) y)) = true := by decide +kernel
theorem XOR_slice_18 : allLt 8 (fun x => allLt 256 (fun y => ckXOR (144 + x) y)) = true := by decide +kernel
theorem XOR_slice_19 : allLt 8 (fun x => allLt 256 (fun y => ckXOR (152 + x) y)) = true := by decide +kernel
theorem XOR_slice_20 : allLt 8 (fun x => allLt 256 (fun y => ckXOR (160 + x) y)) = true := by decide +kernel
theorem XOR_slice_21 : allLt 8 (fun x => allLt 256 (fun y => ckXOR (168 + x) y)) = true := by decide +kernel
theorem XOR_slice_22 : allLt 8 (fun x => allLt 256 (fun y => ckXOR (176 + x) y)) = true := by decide +kernel
theorem XOR_slice_23 : allLt 8 (fun x => allLt 256 (fun y => ckXOR (184 + x) y)) = true := by decide +kernel
end AluProofs
