import SkoolVerif.Spec.AluCheck
open AluCheck
namespace AluProofs
theorem SBC_slice_48 : allLt 4 (fun y => allLt 2 (fun x => allLt 256 (fun z => ckSBC x (192 + y) z))) = true := by decide +kernel
theorem SBC_slice_49 : allLt 4 (fun y => allLt 2 (fun x => allLt 256 (fun z => ckSBC x (196 + y) z))) = true := by decide +kernel
theorem SBC_slice_50 : allLt 4 (fun y => allLt 2 (fun x => allLt 256 (fun z => ckSBC x (200 + y) z))) = true := by decide +kernel
theorem SBC_slice_51 : allLt 4 (fun y => allLt 2 (fun x => allLt 256 (fun z => ckSBC x (204 + y) z))) = true := by decide +kernel
theorem SBC_slice_52 : allLt 4 (fun y => allLt 2 (fun x => allLt 256 (fun z => ckSBC x (208 + y) z))) = true := by decide +kernel
theorem SBC_slice_53 : allLt 4 (fun y => allLt 2 (fun x => allLt 256 (fun z => ckSBC x (212 + y) z))) = true := by decide +kernel
theorem SBC_slice_54 : allLt 4 (fun y => allLt 2 (fun x => allLt 256 (fun z => ckSBC x (216 + y) z))) = true := by decide +kernel
theorem SBC_slice_55 : allLt 4 (fun y => allLt 2 (fun x => allLt 256 (fun z => ckSBC x (220 + y) z))) = true := by decide +kernel
end AluProofs
