import SkoolVerif.Spec.AluCheck
open AluCheck
namespace AluProofs
theorem RRCA_slice_0 : allLt 8 (fun x => allLt 256 (fun y => ckRRCA (0 + x) y)) = true := by decide +kernel
theorem RRCA_slice_1 : allLt 8 (fun x => allLt 256 (fun y => ckRRCA (8 + x) y)) = true := by decide +kernel
theorem RRCA_slice_2 : allLt 8 (fun x => allLt 256 (fun y => ckRRCA (16 + x) y)) = true := by decide +kernel
theorem RRCA_slice_3 : allLt 8 (fun x => allLt 256 (fun y => ckRRCA (24 + x) y)) = true := by decide +kernel
theorem RRCA_slice_4 : allLt 8 (fun x => allLt 256 (fun y => ckRRCA (32 + x) y)) = true := by decide +kernel
theorem RRCA_slice_5 : allLt 8 (fun x => allLt 256 (fun y => ckRRCA (40 + x) y)) = true := by decide +kernel
theorem RRCA_slice_6 : allLt 8 (fun x => allLt 256 (fun y => ckRRCA (48 + x) y)) = true := by decide +kernel
theorem RRCA_slice_7 : allLt 8 (fun x => allLt 256 (fun y => ckRRCA (56 + x) y)) = true := by decide +kernel
end AluProofs
