import SkoolVerif.Spec.AluCheck
open AluCheck
namespace AluProofs
theorem RRA_slice_8 : allLt 8 (fun x => allLt 256 (fun y => ckRRA (64 + x) y)) = true := by decide +kernel
theorem RRA_slice_9 : allLt 8 (fun x => allLt 256 (fun y => ckRRA (72 + x) y)) = true := by decide +kernel
theorem RRA_slice_10 : allLt 8 (fun x => allLt 256 (fun y => ckRRA (80 + x) y)) = true := by decide +kernel
theorem RRA_slice_11 : allLt 8 (fun x => allLt 256 (fun y => ckRRA (88 + x) y)) = true := by decide +kernel
theorem RRA_slice_12 : allLt 8 (fun x => allLt 256 (fun y => ckRRA (96 + x) y)) = true := by decide +kernel
theorem RRA_slice_13 : allLt 8 (fun x => allLt 256 (fun y => ckRRA (104 + x) y)) = true := by decide +kernel
theorem RRA_slice_14 : allLt 8 (fun x => allLt 256 (fun y => ckRRA (112 + x) y)) = true := by decide +kernel
theorem RRA_slice_15 : allLt 8 (fun x => allLt 256 (fun y => ckRRA (120 + x) y)) = true := by decide +kernel
end AluProofs
