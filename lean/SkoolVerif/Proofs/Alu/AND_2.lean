import SkoolVerif.Spec.AluCheck
open AluCheck
namespace AluProofs
theorem AND_slice_16 : allLt 8 (fun x => allLt 256 (fun y => ckAND (128 + x) y)) = true := by decide +kernel
theorem AND_slice_17 : allLt 8 (fun x => allLt 256 (fun y => ckAND (136 + x) y)) = true := by decide +kernel
theorem AND_slice_18 : allLt 8 (fun x => allLt 256 (fun y => ckAND (144 + x) y)) = true := by decide +kernel
theorem AND_slice_19 : allLt 8 (fun x => allLt 256 (fun y => ckAND (152 + x) y)) = true := by decide +kernel
theorem AND_slice_20 : allLt 8 (fun x => allLt 256 (fun y => ckAND (160 + x) y)) = true := by decide +kernel
theorem AND_slice_21 : allLt 8 (fun x => allLt 256 (fun y => ckAND (168 + x) y)) = true := by decide +kernel
theorem AND_slice_22 : allLt 8 (fun x => allLt 256 (fun y => ckAND (176 + x) y)) = true := by decide +kernel
theorem AND_slice_23 : allLt 8 (fun x => allLt 256 (fun y => ckAND (184 + x) y)) = true := by decide +kernel
end AluProofs
