import SkoolVerif.Spec.AluCheck
open AluCheck
namespace AluProofs
theorem ADC_slice_0 : allLt 4 (fun y => allLt 2 (fun x => allLt 256 (fun z => ckADC x (0 + y) z))) = true := by decide +kernel
theorem ADC_slice_1 : allLt 4 (fun y => allLt 2 (fun x => allLt 256 (fun z => ckADC x (4 + y) z))) = true := by decide +kernel
theorem ADC_slice_2 : allLt 4 (fun y => allLt 2 (fun x => allLt 256 (fun z => ckADC x (8 + y) z))) = true := by decide +kernel
theorem ADC_slice_3 : allLt 4 (fun y => allLt 2 (fun x => allLt 256 (fun z => ckADC x (12 + y) z))) = true := by decide +kernel
theorem ADC_slice_4 : allLt 4 (fun y => allLt 2 (fun x => allLt 256 (fun z => ckADC x (16 + y) z))) = true := by decide +kernel
theorem ADC_slice_5 : allLt 4 (fun y => allLt 2 (fun x => allLt 256 (fun z => ckADC x (20 + y) z))) = true := by decide +kernel
theorem ADC_slice_6 : allLt 4 (fun y => allLt 2 (fun x => allLt 256 (fun z => ckADC x (24 + y) z))) = true := by decide +kernel
theorem ADC_slice_7 : allLt 4 (fun y => allLt 2 (fun x => allLt 256 (fun z => ckADC x (28 + y) z))) = true := by decide +kernel
end AluProofs
