import SkoolVerif.Spec.AluCheck
open AluCheck
namespace AluProofs
theorem XOR_slice_8 : allLt 8 (fun x => allLt 256 (fun y => ckXOR (64 + x) y)) = true := by decide +kernel
theorem XOR_slice_9 : allLt 8 (fun x => allLt 256 (fun y => ckXOR (72 + x) y)) = true := by decide +kernel
theorem XOR_slice_10 : allLt 8 (fun x => allLt 256 (fun y => ckXOR (80 + x) y)) = true := by decide +kernel
theorem XOR_slice_11 : allLt 8 (fun x => allLt 256 (fun y => ckXOR (88 + x) y)) = true := by decide +kernel
theorem XOR_slice_12 : allLt 8 (fun x => allLt 256 (fun y => ckXOR (96 + x) y)) = true := by decide +kernel
theorem XOR_slice_13 : allLt 8 (fun x => allLt 256 (fun y => ckXOR (104 + x) y)) = true := by decide +kernel
theorem XOR_slice_14 : allLt 8 (fun x => allLt 256 (fun y => ckXOR (112 + x) y)) = true := by decide +kernel
theorem XOR_slice_15 : allLt 8 (fun x => allLt 256 (fun y => ckXOR (120 + x) y)) = true := by decide +kernel
end AluProofs
