import SkoolVerif.Spec.AluCheck
open AluCheck
namespace AluProofs
theorem CPL_slice_24 : allLt 8 (fun x => allLt 256 (fun y => ckCPL (192 + x) y)) = true := by decide +kernel
theorem CPL_slice_25 : allLt 8 (fun x => allLt 256 (fun y => ckCPL (200 + x) y)) = true := by decide +kernel
theorem CPL_slice_26 : allLt 8 (fun x => allLt 256 (fun y => ckCPL (208 + x) y)) = true := by decide +kernel
theorem CPL_slice_27 : allLt 8 (fun x => allLt 256 (fun y => ckCPL (216 + x) y)) = true := by decide +kernel
theorem CPL_slice_28 : allLt 8 (fun x => allLt 256 (fun y => ckCPL (224 + x) y)) = true := by decide +kernel
theorem CPL_slice_29 : allLt 8 (fun x => allLt 256 (fun y => ckCPL (232 + x) y)) = true := by decide +kernel
theorem CPL_slice_30 : allLt 8 (fun x => allLt 256 (fun y => ckCPL (240 + x) y)) = true := by decide +kernel
theorem CPL_slice_31 : allLt 8 (fun x => allLt 256 (fun y => ckCPL (248 + x) y)) = true := by decide +kernel
end AluProofs
