import SkoolVerif.Spec.AluCheck
open AluCheck
namespace AluProofs
theorem RLCA_slice_16 : allLt 8 (fun x => allLt 256 (fun y => ckRLCA (128 + x) y)) = true := by decide +kernel
theorem RLCA_slice_17 : allLt 8 (fun x => allLt 256 (fun y => ckRLCA (136 + x) y)) = true := by decide +kernel
theorem RLCA_slice_18 : allLt 8 (fun x => allLt 256 (fun y => ckRLCA (144 + x) y)) = true := by decide +kernel
theorem RLCA_slice_19 : allLt 8 (fun x => allLt 256 (fun y => ckRLCA (152 + x) y)) = true := by decide +kernel
theorem RLCA_slice_20 : allLt 8 (fun x => allLt 256 (fun y => ckRLCA (160 + x) y)) = true := by decide +kernel
theorem RLCA_slice_21 : allLt 8 (fun x => allLt 256 (fun y => ckRLCA (168 + x) y)) = true := by decide +kernel
theorem RLCA_slice_22 : allLt 8 (fun x => allLt 256 (fun y => ckRLCA (176 + x) y)) = true := by decide +kernel
theorem RLCA_slice_23 : allLt 8 (fun x => allLt 256 (fun y => ckRLCA (184 + x) y)) = true := by decide +kernel
end AluProofs
