import SkoolVerif.Spec.AluCheck
open AluCheck
namespace AluProofs
theorem XOR_slice_0 : allLt 8 (fun x => allLt 256 (fun y => ckXOR (0 + x) y)) = true := by decide +kernel
theorem XOR_slice_1 : allLt 8 (fun x => allLt 256 (fun y => ckXOR (8 + x) y)) = true := by decide +kernel
theorem XOR_slice_2 : allLt 8 (fun x => allLt 256 (fun y => ckXOR (16 + x) y)) = true := by decide +kernel
theorem XOR_slice_3 : allLt 8 (fun x => allLt 256 (fun y => ckXOR (24 + x) y)) = true := by decide +kernel
theorem XOR_slice_4 : allLt 8 (fun x => allLt 256 (fun y => ckXOR (32 + x) y)) = true := by decide +kernel
theorem XOR_slice_5 : allLt 8 (fun x => allLt 256 (fun y => ckXOR (40 + x) y)) = true := by decide +kernel
theorem XOR_slice_6 : allLt 8 (fun x => allLt 256 (fun y => ckXOR (48 + x) y)) = true := by decide +kernel
theorem XOR_slice_7 : allLt 8 (fun x => allLt 256 (fun y => ckXOR (56 + x) y)) = true := by decide +kernel
end AluProofs
