import SkoolVerif.Spec.AluCheck
open AluCheck
namespace AluProofs
theorem RLA_slice_8 : allLt 8 (fun x => allLt 256 (fun y => ckRLA (64 + x) y)) = true := by decide +kernel
theorem RLA_slice_9 : allLt 8 (fun x => allLt 256 (fun y => ckRLA (72 + x) y)) = true := by decide +kernel
theorem RLA_slice_10 : allLt 8 (fun x => allLt 256 (fun y => ckRLA (80 + x) y)) = true := by decide +kernel
theorem RLA_slice_11 : allLt 8 (fun x => allLt 256 (fun y => ckRLA (88 + x) y)) = true := by decide +kernel
theorem RLA_slice_12 : allLt 8 (fun x => allLt 256 (fun y => ckRLA (96 + x) y)) = true := by decide +kernel
theorem RLA_slice_13 : allLt 8 (fun x => allLt 256 (fun y => ckRLA (104 + x) y)) = true := by decide +kernel
theorem RLA_slice_14 : allLt 8 (fun x => allLt 256 (fun y => ckRLA (112 + x) y)) = true := by decide +kernel
theorem RLA_slice_15 : allLt 8 (fun x => allLt 256 (fun y => ckRLA (120 + x) y)) = true := by decide +kernel
end AluProofs
