import SkoolVerif.Spec.AluCheck
open AluCheck
namespace AluProofs
theorem OR_slice_8 : allLt 8 (fun x => allLt 256 (fun y => ckOR (64 + x) y)) = true := by decide +kernel
theorem OR_slice_9 : allLt 8 (fun x => allLt 256 (fun y => ckOR (72 + x) y)) = true := by decide +kernel
theorem OR_slice_10 : allLt 8 (fun x => allLt 256 (fun y => ckOR (80 + x) y)) = true := by decide +kernel
theorem OR_slice_11 : allLt 8 (fun x => allLt 256 (fun y => ckOR (88 + x) y)) = true := by decide +kernel
theorem OR_slice_12 : allLt 8 (fun x => allLt 256 (fun y => ckOR (96 + x) y)) = true := by decide +kernel
theorem OR_slice_13 : allLt 8 (fun x => allLt 256 (fun y => ckOR (104 + x) y)) = true := by decide +kernel
theorem OR_slice_14 : allLt 8 (fun x => allLt 256 (fun y => ckOR (112 + x) y)) = true := by decide +kernel
theorem OR_slice_15 : allLt 8 (fun x => allLt 256 (fun y => ckOR (120 + x) y)) = true := by decide +kernel
end AluProofs
