import SkoolVerif.Spec.AluCheck
open AluCheck
namespace AluProofs
theorem OR_slice_16 : allLt 8 (fun x => allLt 256 (fun y => ckOR (128 + x) y)) = true := by decide +kernel
theorem OR_slice_17 : allLt 8 (fun x => allLt 256 (fun y => ckOR (136 + x) y)) = true := by decide +kernel
theorem OR_slice_18 : allLt 8 (fun x => allLt 256 (fun y => ckOR (144 + x) y)) = true := by decide +kernel
theorem OR_slice_19 : allLt 8 (fun x => allLt 256 (fun y => ckOR (152 + x) y)) = true := by decide +kernel
theorem OR_slice_20 : allLt 8 (fun x => allLt 256 (fun y => ckOR (160 + x) y)) = true := by decide +kernel
theorem OR_slice_21 : allLt 8 (fun x => allLt 256 (fun y => ckOR (168 + x) y)) = true := by decide +kernel
theorem OR_slice_22 : allLt 8 (fun x => allLt 256 (fun y => ckOR (176 + x) y)) = true := by decide +kernel
theorem OR_slice_23 : allLt 8 (fun x => allLt 256 (fun y => ckOR (184 + x) y)) = true := by decide +kernel
end AluProofs
