import SkoolVerif.Spec.AluCheck
open AluCheck
namespace AluProofs
theorem SBC_slice_0 : allLt 4 (fun y => allLt 2 (fun x => allLt 256 (fun z => ckSBC x (0 + y) z))) = true := by decide +kernel
theorem SBC_slice_1 : allLt 4 (fun y => allLt 2 (fun x => allLt 256 (fun z => ckSBC x (4 + y) z))) = true := by decide +kernel
theorem SBC_slice_2 : allLt 4 (fun y => allLt 2 (fun x => allLt 256 (fun z => ckSBC x (8 + y) z))) = true := by decide +kernel
theorem SBC_slice_3 : allLt 4 (fun y => allLt 2 (fun x => allLt 256 (fun z => ckSBC x (12 + y) z))) = true := by decide +kernel
theorem SBC_slice_4 : allLt 4 (fun y => allLt 2 (fun x => allLt 256 (fun z => ckSBC x (16 + y) z))) = true := by decide +kernel
theorem SBC_slice_5 : allLt 4 (fun y => allLt 2 (fun x => allLt 256 (fun z => ckSBC x (20 + y) z))) = true := by decide +kernel
theorem SBC_slice_6 : allLt 4 (fun y => allLt 2 (fun x => allLt 256 (fun z => ckSBC x (24 + y) z))) = true := by decide +kernel
theorem SBC_slice_7 : allLt 4 (fun y => allLt 2 (fun x => allLt 256 (fun z => ckSBC x (28 + y) z))) = true := by decide +kernel
end AluProofs
