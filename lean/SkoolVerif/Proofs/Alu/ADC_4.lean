import SkoolVerif.Spec.AluCheck
open AluCheck
namespace AluProofs
theorem ADC_slice_32 : allLt 4 (fun y => allLt 2 (fun x => allLt 256 (fun z => ckADC x (128 + y) z))) = true := by decide +kernel
theorem ADC_slice_33 : allLt 4 (fun y => allLt 2 (fun x => allLt 256 (fun z => ckADC x (132 + y) z))) = true := by decide +kernel
theorem ADC_slice_34 : allLt 4 (fun y => allLt 2 (fun x => allLt 256 (fun z => ckADC x (136 + y) z))) = true := by decide +kernel
theorem ADC_slice_35 : allLt 4 (fun y => allLt 2 (fun x => allLt 256 (fun z => ckADC x (140 + y) z))) = true := by decide +kernel
theorem ADC_slice_36 : allLt 4 (fun y => allLt 2 (fun x => allLt 256 (fun z => ckADC x (144 + y) z))) = true := by decide +kernel
theorem ADC_slice_37 : allLt 4 (fun y => allLt 2 (fun x => allLt 256 (fun z => ckADC x (148 + y) z))) = true := by decide +kernel
theorem ADC_slice_38 : allLt 4 (fun y => allLt 2 (fun x => allLt 256 (fun z => ckADC x (152 + y) z))) = true := by decide +kernel
theorem ADC_slice_39 : allLt 4 (fun y => allLt 2 (fun x => allLt 256 (fun z => ckADC x (156 + y) z))) = true := by decide +kernel
end AluProofs
