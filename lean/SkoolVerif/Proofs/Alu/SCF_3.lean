import SkoolVerif.Spec.AluCheck
open AluCheck
namespace AluProofs
theorem SCF_slice_24 : allLt 8 (fun x => allLt 256 (fun y => ckSCF (192 + x) y)) = true := by decide +kernel
theorem SCF_slice_25 : allLt 8 (fun x => allLt 256 (fun y => ckSCF (200 + x) y)) = true := by decide +kernel
theorem SCF_slice_26 : allLt 8 (fun x => allLt 256 (fun y => ckSCF (208 + x) y)) = true := by decide +kernel
theorem SCF_slice_27 : allLt 8 (fun x => allLt 256 (fun y => ckSCF (216 + x) y)) = true := by decide +kernel
theorem SCF_slice_28 : allLt 8 (fun x => allLt 256 (fun y => ckSCF (224 + x) y)) = true := by decide +kernel
theorem SCF_slice_29 : allLt 8 (fun x => allLt 256 (fun y => ckSCF (232 + x) y)) = true := by decide +kernel
theorem SCF_slice_30 : allLt 8 (fun x => allLt 256 (fun y => ckSCF (240 + x) y)) = true := by decide +kernel
theorem SCF_slice_31 : allLt 8 (fun x => allLt 256 (fun y => ckSCF (248 + x) y)) = true := by decide +kernel
end AluProofs
