import SkoolVerif.Spec.AluCheck
open AluCheck
namespace AluProofs
theorem ADC_slice_24 : allLt 4 (fun y => allLt 2 (fun x => allLt 256 (fun z => ckADC x (96 + y) z))) = true := by decide +kernel
theorem ADC_slice_25 : allLt 4 (fun y => allLt 2 (fun x => allLt 256 (fun z => ckADC x (100 + y) z))) = true := by decide +kernel
theorem ADC_slice_26 : allLt 4 (fun y => allLt 2 (fun x => allLt 256 (fun z => ckADC x (104 + y) z))) = true := by decide +kernel
theorem ADC_slice_27 : allLt 4 (fun y => allLt 2 (fun x => allLt 256 (fun z => ckADC x (108 + y) z))) = true := by decide +kernel
theorem ADC_slice_28 : allLt 4 (fun y => allLt 2 (fun x => allLt 256 (fun z => ckADC x (112 + y) z))) = true := by decide +kernel
theorem ADC_slice_29 : allLt 4 (fun y => allLt 2 (fun x => allLt 256 (fun z => ckADC x (116 + y) z))) = true := by decide +kernel
theorem ADC_slice_30 : allLt 4 (fun y => allLt 2 (fun x => allLt 256 (fun z => ckADC x (120 + y) z))) = true := by decide +kernel
theorem ADC_slice_31 : allLt 4 (fun y => allLt 2 (fun x => allLt 256 (fun z => ckADC x (124 + y) z))) = true := by decide +kernel
end AluProofs
