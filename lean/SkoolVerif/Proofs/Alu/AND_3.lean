import SkoolVerif.Spec.AluCheck
open AluCheck
namespace AluProofs
theorem AND_slice_24 : allLt 8 (fun x => allLt 256 (fun y => ckAND (192 + x) y)) = true := by decide +kernel
theorem AND_slice_25 : allLt 8 (fun x => allLt 256 (fun y => ckAND (200 + x) y)) = true := by decide +kernel
theorem AND_slice_26 : allLt 8 (fun x => allLt 256 (fun y => ckAND (208 + x) y)) = true := by decide +kernel
theorem AND_slice_27 : allLt 8 (fun x => allLt 256 (fun y => ckAND (216 + x) y)) = true := by decide +kernel
theorem AND_slice_28 : allLt 8 (fun x => allLt 256 (fun y => ckAND (224 + x) y)) = true := by decide +kernel
theorem AND_slice_29 : allLt 8 (fun x => allLt 256 (fun y => ckAND (232 + x) y)) = true := by decide +kernel
theorem AND_slice_30 : allLt 8 (fun x => allLt 256 (fun y => ckAND (240 + x) y)) = true := by decide +kernel
theorem AND_slice_31 : allLt 8 (fun x => allLt 256 (fun y => ckAND (248 + x) y)) = true := by decide +kernel
end AluProofs
