import SkoolVerif.Spec.AluCheck
open AluCheck
namespace AluProofs
theorem DAA_slice_16 : allLt 8 (fun x => allLt 256 (fun y => ckDAA (128 + x) y)) = true := by decide +kernel
theorem DAA_slice_17 : allLt 8 (fun x => allLt 256 (fun y => ckDAA (136 + x) y)) = true := by decide +kernel
theorem DAA_slice_18 : allLt 8 (fun x => allLt 256 (fun y => ckDAA (144 + x) y)) = true := by decide +kernel
theorem DAA_slice_19 : allLt 8 (fun x => allLt 256 (fun y => ckDAA (152 + x) y)) = true := by decide +kernel
theorem DAA_slice_20 : allLt 8 (fun x => allLt 256 (fun y => ckDAA (160 + x) y)) = true := by decide +kernel
theorem DAA_slice_21 : allLt 8 (fun x => allLt 256 (fun y => ckDAA (168 + x) y)) = true := by decide +kernel
theorem DAA_slice_22 : allLt 8 (fun x => allLt 256 (fun y => ckDAA (176 + x) y)) = true := by decide +kernel
theorem DAA_slice_23 : allLt 8 (fun x => allLt 256 (fun y => ckDAA (184 + x) y)) = true := by decide +kernel
end AluProofs
