import SkoolVerif.Spec.AluCheck
open AluCheck
namespace AluProofs
theorem RRCA_slice_16 : allLt 8 (fun x => allLt 256 (fun y => ckRRCA (128 + x) y)) = true := by decide +kernel
theorem RRCA_slice_17 : allLt 8 (fun x => allLt 256 (fun y => ckRRCA (136 + x) y)) = true := by decide +kernel
theorem RRCA_slice_18 : allLt 8 (fun x => allLt 256 (fun y => ckRRCA (144 + x) y)) = true := by decide +kernel
theorem RRCA_slice_19 : allLt 8 (fun x => allLt 256 (fun y => ckRRCA (152 + x) y)) = true := by decide +kernel
theorem RRCA_slice_20 : allLt 8 (fun x => allLt 256 (fun y => ckRRCA (160 + x) y)) = true := by decide +kernel
theorem RRCA_slice_21 : allLt 8 (fun x => allLt 256 (fun y => ckRRCA (168 + x) y)) = true := by decide +kernel
theorem RRCA_slice_22 : allLt 8 (fun x => allLt 256 (fun y => ckRRCA (176 + x) y)) = true := by decide +kernel
theorem RRCA_slice_23 : allLt 8 (fun x => allLt 256 (fun y => ckRRCA (184 + x) y)) = true := by decide +kernel
end AluProofs
