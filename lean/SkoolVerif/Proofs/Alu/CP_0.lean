import SkoolVerif.Spec.AluCheck
open AluCheck
namespace AluProofs
theorem CP_slice_0 : allLt 8 (fun x => allLt 256 (fun y => ckCP (0 + x) y)) = true := by decide +kernel
theorem CP_slice_1 : allLt 8 (fun x => allLt 256 (fun y => ckCP (8 + x) y)) = true := by decide +kernel
theorem CP_slice_2 : allLt 8 (fun x => allLt 256 (fun y => ckCP (16 + x) y)) = true := by decide +kernel
theorem CP_slice_3 : allLt 8 (fun x => allLt 256 (fun y => ckCP (24 + x) y)) = true := by decide +kernel
theorem CP_slice_4 : allLt 8 (fun x => allLt 256 (fun y => ckCP (32 + x) y)) = true := by decide +kernel
theorem CP_slice_5 : allLt 8 (fun x => allLt 256 (fun y => ckCP (40 + x) y)) = true := by decide +kernel
theorem CP_slice_6 : allLt 8 (fun x => allLt 256 (fun y => ckCP (48 + x) y)) = true := by decide +kernel
theorem CP_slice_7 : allLt 8 (fun x => allLt 256 (fun y => ckCP (56 + x) y)) = true := by decide +kernel
end AluProofs
