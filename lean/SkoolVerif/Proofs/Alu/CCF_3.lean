import SkoolVerif.Spec.AluCheck
open AluCheck
namespace AluProofs
theorem CCF_slice_24 : allLt 8 (fun x => allLt 256 (fun y => ckCCF (192 + x) y)) = true := by decide +kernel
theorem CCF_slice_25 : allLt 8 (fun x => allLt 256 (fun y => ckCCF (200 + x) y)) = true := by decide +kernel
theorem CCF_slice_26 : allLt 8 (fun x => allLt 256 (fun y => ckCCF (208 + x) y)) = true := by decide +kernel
theorem CCF_slice_27 : allLt 8 (fun x => allLt 256 (fun y => ckCCF (216 + x) y)) = true := by decide +kernel
theorem CCF_slice_28 : allLt 8 (fun x => allLt 256 (fun y => ckCCF (224 + x) y)) = true := by decide +kernel
theorem CCF_slice_29 : allLt 8 (fun x => allLt 256 (fun y => ckCCF (232 + x) y)) = true := by decide +kernel
theorem CCF_slice_30 : allLt 8 (fun x => allLt 256 (fun y => ckCCF (240 + x) y)) = true := by decide +kernel
theorem CCF_slice_31 : allLt 8 (fun x => allLt 256 (fun y => ckCCF (248 + x) y)) = true := by decide +kernel
end AluProofs
