import SkoolVerif.Spec.AluCheck
open AluCheck
namespace AluProofs
theorem OR_slice_0 : allLt 8 (fun x => allLt 256 (fun y => ckOR (0 + x) y)) = true := by decide +kernel
theorem OR_slice_1 : allLt 8 (fun x => allLt 256 (fun y => ckOR (8 + x) y)) = true := by decide +kernel
theorem OR_slice_2 : allLt 8 (fun x => allLt 256 (fun y => ckOR (16 + x) y)) = true := by decide +kernel
theorem OR_slice_3 : allLt 8 (fun x => allLt 256 (fun y => ckOR (24 + x) y)) = true := by decide +kernel
theorem OR_slice_4 : allLt 8 (fun x => allLt 256 (fun y => ckOR (32 + x) y)) = true := by decide +kernel
theorem OR_slice_5 : allLt 8 (fun x => allLt 256 (fun y => ckOR (40 + x) y)) = true := by decide +kernel
theorem OR_slice_6 : allLt 8 (fun x => allLt 256 (fun y => ckOR (48 + x) y)) = true := by decide +kernel
theorem OR_slice_7 : allLt 8 (fun x => allLt 256 (fun y => ckOR (56 + x) y)) = true := by decide +kernel
end AluProofs
