import SkoolVerif.Spec.AluCheck
open AluCheck
namespace AluProofs
theorem RLA_slice_0 : allLt 8 (fun x => allLt 256 (fun y => ckRLA (0 + x) y)) = true := by decide +kernel
theorem RLA_slice_1 : allLt 8 (fun x => allLt 256 (fun y => ckRLA (8 + x) y)) = true := by decide +kernel
theorem RLA_slice_2 : allLt 8 (fun x => allLt 256 (fun y => ckRLA (16 + x) y)) = true := by decide +kernel
theorem RLA_slice_3 : allLt 8 (fun x => allLt 256 (fun y => ckRLA (24 + x) y)) = true := by decide +kernel
theorem RLA_slice_4 : allLt 8 (fun x => allLt 256 (fun y => ckRLA (32 + x) y)) = true := by decide +kernel
theorem RLA_slice_5 : allLt 8 (fun x => allLt 256 (fun y => ckRLA (40 + x) y)) = true := by decide +kernel
theorem RLA_slice_6 : allLt 8 (fun x => allLt 256 (fun y => ckRLA (48 + x) y)) = true := by decide +kernel
theorem RLA_slice_7 : allLt 8 (fun x => allLt 256 (fun y => ckRLA (56 + x) y)) = true := by decide +kernel
end AluProofs
