import SkoolVerif.Spec.AluCheck
open AluCheck
namespace AluProofs
theorem SCF_slice_8 : allLt 8 (fun x => allLt 256 (fun y => ckSCF (64 + x) y)) = true := by decide +kernel
theorem SCF_slice_9 : allLt 8 (fun x => allLt 256 (fun y => ckSCF (72 + x) y)) = true := by decide +kernel
theorem SCF_slice_10 : allLt 8 (fun x => allLt 256 (fun y => ckSCF (80 + x) y)) = true := by decide +kernel
theorem SCF_slice_11 : allLt 8 (fun x => allLt 256 (fun y => ckSCF (88 + x) y)) = true := by decide +kernel
theorem SCF_slice_12 : allLt 8 (fun x => allLt 256 (fun y => ckSCF (96 + x) y)) = true := by decide +kernel
theorem SCF_slice_13 : allLt 8 (fun x => allLt 256 (fun y => ckSCF (104 + x) y)) = true := by decide +kernel
theorem SCF_slice_14 : allLt 8 (fun x => allLt 256 (fun y => ckSCF (112 + x) y)) = true := by decide +kernel
theorem SCF_slice_15 : allLt 8 (fun x => allLt 256 (fun y => ckSCF (120 + x) y)) = true := by decide +kernel
end AluProofs
