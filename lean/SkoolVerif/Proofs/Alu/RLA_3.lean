import SkoolVerif.Spec.AluCheck
open AluCheck
namespace AluProofs
theorem RLA_slice_24 : allLt 8 (fun x => allLt 256 (fun y => ckRLA (192 + x) y)) = true := by decide +kernel
theorem RLA_slice_25 : allLt 8 (fun x => allLt 256 (fun y => ckRLA (200 + x) y)) = true := by decide +kernel
theorem RLA_slice_26 : allLt 8 (fun x => allLt 256 (fun y => ckRLA (208 + x) y)) = true := by decide +kernel
theorem RLA_slice_27 : allLt 8 (fun x => allLt 256 (fun y => ckRLA (216 + x) y)) = true := by decide +kernel
theorem RLA_slice_28 : allLt 8 (fun x => allLt 256 (fun y => ckRLA (224 + x) y)) = true := by decide +kernel
theorem RLA_slice_29 : allLt 8 (fun x => allLt 256 (fun y => ckRLA (232 + x) y)) = true := by decide +kernel
theorem RLA_slice_30 : allLt 8 (fun x => allLt 256 (fun y => ckRLA (240 + x) y)) = true := by decide +kernel
theorem RLA_slice_31 : allLt 8 (fun x => allLt 256 (fun y => ckRLA (248 + x) y)) = true := by decide +kernel
end AluProofs
