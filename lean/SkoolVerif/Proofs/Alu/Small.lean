import SkoolVerif.Spec.AluCheck
open AluCheck
namespace AluProofs
theorem BIT_all : allLt 2 (fun x => allLt 8 (fun y => allLt 256 (fun z => ckBIT x y z))) = true := by decide +kernel
theorem BIT_ok : ∀ x y z : Nat, x < 2 → y < 8 → z < 256 → ckBIT x y z = true := by
  intro x y z hx hy hz
  have hp := BIT_all
  have hp := allLt_spec hp x hx
  have hp := allLt_spec hp y hy
  have hp := allLt_spec hp z hz
  exact hp
theorem ADC_A_A_all : allLt 2 (fun x => allLt 256 (fun y => ckADC_A_A x y)) = true := by decide +kernel
theorem ADC_A_A_ok : ∀ x y : Nat, x < 2 → y < 256 → ckADC_A_A x y = true := by
  intro x y hx hy
  have hp := ADC_A_A_all
  have hp := allLt_spec hp x hx
  have hp := allLt_spec hp y hy
  exact hp
theorem SBC_A_A_all : allLt 2 (fun x => allLt 256 (fun y => ckSBC_A_A x y)) = true := by decide +kernel
theorem SBC_A_A_ok : ∀ x y : Nat, x < 2 → y < 256 → ckSBC_A_A x y = true := by
  intro x y hx hy
  have hp := SBC_A_A_all
  have hp := allLt_spec hp x hx
  have hp := allLt_spec hp y hy
  exact hp
theorem INC_all : allLt 2 (fun x => allLt 256 (fun y => ckINC x y)) = true := by decide +kernel
theorem INC_ok : ∀ x y : Nat, x < 2 → y < 256 → ckINC x y = true := by
  intro x y hx hy
  have hp := INC_all
  have hp := allLt_spec hp x hx
  have hp := allLt_spec hp y hy
  exact hp
theorem DEC_all : allLt 2 (fun x => allLt 256 (fun y => ckDEC x y)) = true := by decide +kernel
theorem DEC_ok : ∀ x y : Nat, x < 2 → y < 256 → ckDEC x y = true := by
  intro x y hx hy
  have hp := DEC_all
  have hp := allLt_spec hp x hx
  have hp := allLt_spec hp y hy
  exact hp
theorem RL_all : allLt 2 (fun x => allLt 256 (fun y => ckRL x y)) = true := by decide +kernel
theorem RL_ok : ∀ x y : Nat, x < 2 → y < 256 → ckRL x y = true := by
  intro x y hx hy
  have hp := RL_all
  have hp := allLt_spec hp x hx
  have hp := allLt_spec hp y hy
  exact hp
theorem RR_all : allLt 2 (fun x => allLt 256 (fun y => ckRR x y)) = true := by decide +kernel
theorem RR_ok : ∀ x y : Nat, x < 2 → y < 256 → ckRR x y = true := by
  intro x y hx hy
  have hp := RR_all
  have hp := allLt_spec hp x hx
  have hp := allLt_spec hp y hy
  exact hp
theorem RLC_all : allLt 256 (fun x => ckRLC x) = true := by decide +kernel
theorem RLC_ok : ∀ x : Nat, x < 256 → ckRLC x = true := by
  intro x hx
  have hp := RLC_all
  have hp := allLt_spec hp x hx
  exact hp
theorem RRC_all : allLt 256 (fun x => ckRRC x) = true := by decide +kernel
theorem RRC_ok : ∀ x : Nat, x < 256 → ckRRC x = true := by
  intro x hx
  have hp := RRC_all
  have hp := allLt_spec hp x hx
  exact hp
theorem SLA_all : allLt 256 (fun x => ckSLA x) = true := by decide +kernel
theorem SLA_ok : ∀ x : Nat, x < 256 → ckSLA x = true := by
  intro x hx
  have hp := SLA_all
  have hp := allLt_spec hp x hx
  exact hp
theorem SLL_all : allLt 256 (fun x => ckSLL x) = true := by decide +kernel
theorem SLL_ok : ∀ x : Nat, x < 256 → ckSLL x = true := by
  intro x hx
  have hp := SLL_all
  have hp := allLt_spec hp x hx
  exact hp
theorem SRA_all : allLt 256 (fun x => ckSRA x) = true := by decide +kernel
theorem SRA_ok : ∀ x : Nat, x < 256 → ckSRA x = true := by
  intro x hx
  have hp := SRA_all
  have hp := allLt_spec hp x hx
  exact hp
theorem SRL_all : allLt 256 (fun x => ckSRL x) = true := by decide +kernel
theorem SRL_ok : ∀ x : Nat, x < 256 → ckSRL x = true := by
  intro x hx
  have hp := SRL_all
  have hp := allLt_spec hp x hx
  exact hp
theorem NEG_all : allLt 256 (fun x => ckNEG x) = true := by decide +kernel
theorem NEG_ok : ∀ x : Nat, x < 256 → ckNEG x = true := by
  intro x hx
  have hp := NEG_all
  have hp := allLt_spec hp x hx
  exact hp
theorem SZ53P_all : allLt 256 (fun x => ckSZ53P x) = true := by decide +kernel
theorem SZ53P_ok : ∀ x : Nat, x < 256 → ckSZ53P x = true := by
  intro x hx
  have hp := SZ53P_all
  have hp := allLt_spec hp x hx
  exact hp
theorem PARITY_all : allLt 256 (fun x => ckPARITY x) = true := by decide +kernel
theorem PARITY_ok : ∀ x : Nat, x < 256 → ckPARITY x = true := by
  intro x hx
  have hp := PARITY_all
  have hp := allLt_spec hp x hx
  exact hp
theorem R1_all : allLt 256 (fun x => ckR1 x) = true := by decide +kernel
theorem R1_ok : ∀ x : Nat, x < 256 → ckR1 x = true := by
  intro x hx
  have hp := R1_all
  have hp := allLt_spec hp x hx
  exact hp
theorem R2_all : allLt 256 (fun x => ckR2 x) = true := by decide +kernel
theorem R2_ok : ∀ x : Nat, x < 256 → ckR2 x = true := by
  intro x hx
  have hp := R2_all
  have hp := allLt_spec hp x hx
  exact hp
end AluProofs
