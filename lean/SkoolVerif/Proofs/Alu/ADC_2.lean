import SkoolVerif.Spec.AluCheck
open AluCheck
namespace AluProofs
theorem ADC_slice_16 : allLt 4 (fun y => allLt 2 (fun x => allLt 256 (fun z => ckADC x (64 + y) z))) = true := by decide +kernel
theorem ADC_slice_17 : allLt 4 (fun y => allLt 2 (fun x => allLt 256 (fun z => ckADC x (68 + y) z))) = true := by decide +kernel
theorem ADC_slice_18 : allLt 4 (fun y => allLt 2 (fun x => allLt 256 (fun z => ckADC x (72 + y) z))) = true := by decide +kernel
theorem ADC_slice_19 : allLt 4 (fun y => allLt 2 (fun x => allLt 256 (fun z => ckADC x (76 + y) z))) = true := by decide +kernel
theorem ADC_slice_20 : allLt 4 (fun y => allLt 2 (fun x => allLt 256 (fun z => ckADC x (80 + y) z))) = true := by decide +kernel
theorem ADC_slice_21 : allLt 4 (fun y => allLt 2 (fun x => allLt 256 (fun z => ckADC x (84 + y) z))) = true := by decide +kernel
theorem ADC_slice_22 : allLt 4 (fun y => allLt 2 (fun x => allLt 256 (fun z => ckADC x (88 + y) z))) = true := by decide +kernel
theorem ADC_slice_23 : allLt 4 (fun y => allLt 2 (fun x => allLt 256 (fun z => ckADC x (92 + y) z))) = true := by decide +kernel
end AluProofs
