import SkoolVerif.Spec.AluCheck
open AluCheck
namespace AluProofs
theorem AND_slice_8 : allLt 8 (fun x => allLt 256 (fun y => ckAND (64 + x) y)) = true := by decide +kernel
theorem AND_slice_9 : allLt 8 (fun x => allLt 256 (fun y => ckAND (72 + x) y)) = true := by decide +kernel
theorem AND_slice_10 : allLt 8 (fun x => allLt 256 (fun y => ckAND (80 + x) y)) = true := by decide +kernel
theorem AND_slice_11 : allLt 8 (fun x => allLt 256 (fun y => ckAND (88 + x) y)) = true := by decide +kernel
theorem AND_slice_12 : allLt 8 (fun x => allLt 256 (fun y => ckAND (96 + x) y)) = true := by decide +kernel
theorem AND_slice_13 : allLt 8 (fun x => allLt 256 (fun y => ckAND (104 + x) y)) = true := by decide +kernel
theorem AND_slice_14 : allLt 8 (fun x => allLt 256 (fun y => ckAND (112 + x) y)) = true := by decide +kernel
theorem AND_slice_15 : allLt 8 (fun x => allLt 256 (fun y => ckAND (120 + x) y)) = true := by decide +kernel
end AluProofs
