import SkoolVerif.Spec.AluCheck
open AluCheck
namespace AluProofs
theorem SBC_slice_16 : allLt 4 (fun y => allLt 2 (fun x => allLt 256 (fun z => ckSBC x (64 + y) z))) = true := by decide +kernel
theorem SBC_slice_17 : allLt 4 (fun y => allLt 2 (fun x => allLt 256 (fun z => ckSBC x (68 + y) z))) = true := by decide +kernel
theorem SBC_slice_18 : allLt 4 (fun y => allLt 2 (fun x => allLt 256 (fun z => ckSBC x (72 + y) z))) = true := by decide +kernel
theorem SBC_slice_19 : allLt 4 (fun y => allLt 2 (fun x => allLt 256 (fun z => ckSBC x (76 + y) z))) = true := by decide +kernel
theorem SBC_slice_20 : allLt 4 (fun y => allLt 2 (fun x => allLt 256 (fun z => ckSBC x (80 + y) z))) = true := by decide +kernel
theorem SBC_slice_21 : allLt 4 (fun y => allLt 2 (fun x => allLt 256 (fun z => ckSBC x (84 + y) z))) = true := by decide +kernel
theorem SBC_slice_22 : allLt 4 (fun y => allLt 2 (fun x => allLt 256 (fun z => ckSBC x (88 + y) z))) = true := by decide +kernel
theorem SBC_slice_23 : allLt 4 (fun y => allLt 2 (fun x => allLt 256 (fun z => ckSBC x (92 + y) z))) = true := by decide +kernel
end AluProofs
