import SkoolVerif.Spec.AluCheck
open AluCheck
namespace AluProofs
theorem AND_slice_0 : allLt 8 (fun x => allLt 256 (fun y => ckAND (0 + x) y)) = true := by decide +kernel
theorem AND_slice_1 : allLt 8 (fun x => allLt 256 (fun y => ckAND (8 + x) y)) = true := by decide +kernel
theorem AND_slice_2 : allLt 8 (fun x => allLt 256 (fun y => ckAND (16 + x) y)) = true := by decide +kernel
theorem AND_slice_3 : allLt 8 (fun x => allLt 256 (fun y => ckAND (24 + x) y)) = true := by decide +kernel
theorem AND_slice_4 : allLt 8 (fun x => allLt 256 (fun y => ckAND (32 + x) y)) = true := by decide +kernel
theorem AND_slice_5 : allLt 8 (fun x => allLt 256 (fun y => ckAND (40 + x) y)) = true := by decide +kernel
theorem AND_slice_6 : allLt 8 (fun x => allLt 256 (fun y => ckAND (48 + x) y)) = true := by decide +kernel
theorem AND_slice_7 : allLt 8 (fun x => allLt 256 (fun y => ckAND (56 + x) y)) = true := by decide +kernel
end AluProofs
