import SkoolVerif.Spec.AluCheck
open AluCheck
namespace AluProofs
theorem ADC_slice_48 : allLt 4 (fun y => allLt 2 (fun x => allLt 256 (fun z => ckADC x (192 + y) z))) = true := by decide +kernel
theorem ADC_slice_49 : allLt 4 (fun y => allLt 2 (fun x => allLt 256 (fun z => ckADC x (196 + y) z))) = true := by decide +kernel
theorem ADC_slice_50 : allLt 4 (fun y => allLt 2 (fun x => allLt 256 (fun z => ckADC x (200 + y) z))) = true := by decide +kernel
theorem ADC_slice_51 : allLt 4 (fun y => allLt 2 (fun x => allLt 256 (fun z => ckADC x (204 + y) z))) = true := by decide +kernel
theorem ADC_slice_52 : allLt 4 (fun y => allLt 2 (fun x => allLt 256 (fun z => ckADC x (208 + y) z))) = true := by decide +kernel
theorem ADC_slice_53 : allLt 4 (fun y => allLt 2 (fun x => allLt 256 (fun z => ckADC x (212 + y) z))) = true := by decide +kernel
theorem ADC_slice_54 : allLt 4 (fun y => allLt 2 (fun x => allLt 256 (fun z => ckADC x (216 + y) z))) = true := by decide +kernel
theorem ADC_slice_55 : allLt 4 (fun y => allLt 2 (fun x => allLt 256 (fun z => ckADC x (220 + y) z))) = true := by decide +kernel
end AluProofs
