import SkoolVerif.Spec.AluCheck
open AluCheck
namespace AluProofs
theorem RRCA_slice_8 : allLt 8 (fun x => allLt 256 (fun y => ckRRCA (64 + x) y)) = true := by decide +kernel
theorem RRCA_slice_9 : allLt 8 (fun x => allLt 256 (fun y => ckRRCA (72 + x) y)) = true := by decide +kernel
theorem RRCA_slice_10 : allLt 8 (fun x => allLt 256 (fun y => ckRRCA (80 + x) y)) = true := by decide +kernel
theorem RRCA_slice_11 : allLt 8 (fun x => allLt 256 (fun y => ckRRCA (88 + x) y)) = true := by decide +kernel
theorem RRCA_slice_12 : allLt 8 (fun x => allLt 256 (fun y => ckRRCA (96 + x) y)) = true := by decide +kernel
theorem RRCA_slice_13 : allLt 8 (fun x => allLt 256 (fun y => ckRRCA (104 + x) y)) = true := by decide +kernel
theorem RRCA_slice_14 : allLt 8 (fun x => allLt 256 (fun y => ckRRCA (112 + x) y)) = true := by decide +kernel
theorem RRCA_slice_15 : allLt 8 (fun x => allLt 256 (fun y => ckRRCA (120 + x) y)) = true := by decide +kernel
end AluProofs
