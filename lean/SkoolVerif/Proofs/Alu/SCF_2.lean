import SkoolVerif.Spec.AluCheck
open AluCheck
namespace AluProofs
theorem SCF_slice_16 : allLt 8 (fun x => allLt 256 (fun y => ckSCF (128 + x) y)) = true := by decide +kernel
theorem SCF_slice_17 : allLt 8 (fun x => allLt 256 (fun y => ckSCF (136 + x) y)) = true := by decide +kernel
theorem SCF_slice_18 : allLt 8 (fun x => allLt 256 (fun y => ckSCF (144 + x) y)) = true := by decide +kernel
theorem SCF_slice_19 : allLt 8 (fun x => allLt 256 (fun y => ckSCF (152 + x) y)) = true := by decide +kernel
theorem SCF_slice_20 : allLt 8 (fun x => allLt 256 (fun y => ckSCF (160 + x) y)) = true := by decide +kernel
theorem SCF_slice_21 : allLt 8 (fun x => allLt 256 (fun y => ckSCF (168 + x) y)) = true := by decide +kernel
theorem SCF_slice_22 : allLt 8 (fun x => allLt 256 (fun y => ckSCF (176 + x) y)) = true := by decide +kernel
theorem SCF_slice_23 : allLt 8 (fun x => allLt 256 (fun y => ckSCF (184 + x) y)) = true := by decide +kernel
end AluProofs
