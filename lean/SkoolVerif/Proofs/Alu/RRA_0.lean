import SkoolVerif.Spec.AluCheck
open AluCheck
namespace AluProofs
theorem RRA_slice_0 : allLt 8 (fun x => allLt 256 (fun y => ckRRA (0 + x) y)) = true := by decide +kernel
theorem RRA_slice_1 : allLt 8 (fun x => allLt 256 (fun y => ckRRA (8 + x) y)) = true := by decide +kernel
theorem RRA_slice_2 : allLt 8 (fun x => allLt 256 (fun y => ckRRA (16 + x) y)) = true := by decide +kernel
theorem RRA_slice_3 : allLt 8 (fun x => allLt 256 (fun y => ckRRA (24 + x) y)) = true := by decide +kernel
theorem RRA_slice_4 : allLt 8 (fun x => allLt 256 (fun y => ckRRA (32 + x) y)) = true := by decide +kernel
theorem RRA_slice_5 : allLt 8 (fun x => allLt 256 (fun y => ckRRA (40 + x) y)) = true := by decide +kernel
theorem RRA_slice_6 : allLt 8 (fun x => allLt 256 (fun y => ckRRA (48 + x) y)) = true := by decide +kernel
theorem RRA_slice_7 : allLt 8 (fun x => allLt 256 (fun y => ckRRA (56 + x) y)) = true := by decide +kernel
end AluProofs
