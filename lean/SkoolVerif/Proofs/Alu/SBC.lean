import SkoolVerif.Proofs.Alu.SBC_0
import SkoolVerif.Proofs.Alu.SBC_1
import SkoolVerif.Proofs.Alu.SBC_2
import SkoolVerif.Proofs.Alu.SBC_3
import SkoolVerif.Proofs.Alu.SBC_4
import SkoolVerif.Proofs.Alu.SBC_5
import SkoolVerif.Proofs.Alu.SBC_6
import SkoolVerif.Proofs.Alu.SBC_7
open AluCheck
namespace AluProofs
/-- every entry of `SBC` equals the bit-level spec and is a byte (pair) -/
theorem SBC_ok : ∀ x y z : Nat, x < 2 → y < 256 → z < 256 → ckSBC x y z = true := by
  intro x y z hx hy hz
  have hs : ∀ k, k < 64 → allLt 4 (fun a => (fun y => allLt 2 (fun x => allLt 256 (fun z => ckSBC x y z))) (4 * k + a)) = true := fun k hk =>
    match k, hk with
    | 0, _ => by simpa using SBC_slice_0
    | 1, _ => by simpa using SBC_slice_1
    | 2, _ => by simpa using SBC_slice_2
    | 3, _ => by simpa using SBC_slice_3
    | 4, _ => by simpa using SBC_slice_4
    | 5, _ => by simpa using SBC_slice_5
    | 6, _ => by simpa using SBC_slice_6
    | 7, _ => by simpa using SBC_slice_7
    | 8, _ => by simpa using SBC_slice_8
    | 9, _ => by simpa using SBC_slice_9
    | 10, _ => by simpa using SBC_slice_10
    | 11, _ => by simpa using SBC_slice_11
    | 12, _ => by simpa using SBC_slice_12
    | 13, _ => by simpa using SBC_slice_13
    | 14, _ => by simpa using SBC_slice_14
    | 15, _ => by simpa using SBC_slice_15
    | 16, _ => by simpa using SBC_slice_16
    | 17, _ => by simpa using SBC_slice_17
    | 18, _ => by simpa using SBC_slice_18
    | 19, _ => by simpa using SBC_slice_19
    | 20, _ => by simpa using SBC_slice_20
    | 21, _ => by simpa using SBC_slice_21
    | 22, _ => by simpa using SBC_slice_22
    | 23, _ => by simpa using SBC_slice_23
    | 24, _ => by simpa using SBC_slice_24
    | 25, _ => by simpa using SBC_slice_25
    | 26, _ => by simpa using SBC_slice_26
    | 27, _ => by simpa using SBC_slice_27
    | 28, _ => by simpa using SBC_slice_28
    | 29, _ => by simpa using SBC_slice_29
    | 30, _ => by simpa using SBC_slice_30
    | 31, _ => by simpa using SBC_slice_31
    | 32, _ => by simpa using SBC_slice_32
    | 33, _ => by simpa using SBC_slice_33
    | 34, _ => by simpa using SBC_slice_34
    | 35, _ => by simpa using SBC_slice_35
    | 36, _ => by simpa using SBC_slice_36
    | 37, _ => by simpa using SBC_slice_37
    | 38, _ => by simpa using SBC_slice_38
    | 39, _ => by simpa using SBC_slice_39
    | 40, _ => by simpa using SBC_slice_40
    | 41, _ => by simpa using SBC_slice_41
    | 42, _ => by simpa using SBC_slice_42
    | 43, _ => by simpa using SBC_slice_43
    | 44, _ => by simpa using SBC_slice_44
    | 45, _ => by simpa using SBC_slice_45
    | 46, _ => by simpa using SBC_slice_46
    | 47, _ => by simpa using SBC_slice_47
    | 48, _ => by simpa using SBC_slice_48
    | 49, _ => by simpa using SBC_slice_49
    | 50, _ => by simpa using SBC_slice_50
    | 51, _ => by simpa using SBC_slice_51
    | 52, _ => by simpa using SBC_slice_52
    | 53, _ => by simpa using SBC_slice_53
    | 54, _ => by simpa using SBC_slice_54
    | 55, _ => by simpa using SBC_slice_55
    | 56, _ => by simpa using SBC_slice_56
    | 57, _ => by simpa using SBC_slice_57
    | 58, _ => by simpa using SBC_slice_58
    | 59, _ => by simpa using SBC_slice_59
    | 60, _ => by simpa using SBC_slice_60
    | 61, _ => by simpa using SBC_slice_61
    | 62, _ => by simpa using SBC_slice_62
    | 63, _ => by simpa using SBC_slice_63
    | n + 64, h => absurd h (by omega)
  have hp := sliced (p := fun y => allLt 2 (fun x => allLt 256 (fun z => ckSBC x y z))) hs y (by omega)
  have hp := allLt_spec hp x hx
  have hp := allLt_spec hp z hz
  exact hp
end AluProofs
