import SkoolVerif.Spec.AluCheck
open AluCheck
namespace AluProofs
theorem SBC_slice_40 : allLt 4 (fun y => allLt 2 (fun x => allLt 256 (fun z => ckSBC x (160 + y) z))) = true := by decide +kernel
theorem SBC_slice_41 : allLt 4 (fun y => allLt 2 (fun x => allLt 256 (fun z => ckSBC x (164 + y) z))) = true := by decide +kernel
theorem SBC_slice_42 : allLt 4 (fun y => allLt 2 (fun x => allLt 256 (fun z => ckSBC x (168 + y) z))) = true := by decide +kernel
theorem SBC_slice_43 : allLt 4 (fun y => allLt 2 (fun x => allLt 256 (fun z => ckSBC x (172 + y) z))) = true := by decide +kernel
theorem SBC_slice_44 : allLt 4 (fun y => allLt 2 (fun x => allLt 256 (fun z => ckSBC x (176 + y) z))) = true := by decide +kernel
theorem SBC_slice_45 : allLt 4 (fun y => allLt 2 (fun x => allLt 256 (fun z => ckSBC x (180 + y) z))) = true := by decide +kernel
theorem SBC_slice_46 : allLt 4 (fun y => allLt 2 (fun x => allLt 256 (fun z => ckSBC x (184 + y) z))) = true := by decide +kernel
theorem SBC_slice_47 : allLt 4 (fun y => allLt 2 (fun x => allLt 256 (fun z => ckSBC x (188 + y) z))) = true := by decide +kernel
end AluProofs
