import SkoolVerif.Spec.AluCheck
open AluCheck
namespace AluProofs
theorem RLCA_slice_0 : allLt 8 (fun x => allLt 256 (fun y => ckRLCA (0 + x) y)) = true := by decide +kernel
theorem RLCA_slice_1 : allLt 8 (fun x => allLt 256 (fun y => ckRLCA (8 + x) y)) = true := by decide +kernel
theorem RLCA_slice_2 : allLt 8 (fun x => allLt 256 (fun y => ckRLCA (16 + x) y)) = true := by decide +kernel
theorem RLCA_slice_3 : allLt 8 (fun x => allLt 256 (fun y => ckRLCA (24 + x) y)) = true := by decide +kernel
theorem RLCA_slice_4 : allLt 8 (fun x => allLt 256 (fun y => ckRLCA (32 + x) y)) = true := by decide +kernel
theorem RLCA_slice_5 : allLt 8 (fun x => allLt 256 (fun y => ckRLCA (40 + x) y)) = true := by decide +kernel
theorem RLCA_slice_6 : allLt 8 (fun x => allLt 256 (fun y => ckRLCA (48 + x) y)) = true := by decide +kernel
theorem RLCA_slice_7 : allLt 8 (fun x => allLt 256 (fun y => ckRLCA (56 + x) y)) = true := by decide +kernel
end AluProofs
