import SkoolVerif.Spec.AluCheck
open AluCheck
namespace AluProofs
theorem CP_slice_24 : allLt 8 (fun x => allLt 256 (fun y => ckCP (192 + x) y)) = true := by decide +kernel
theorem CP_slice_25 : allLt 8 (fun x => allLt 256 (fun y => ckCP (200 + x) y)) = true := by decide +kernel
theorem CP_slice_26 : allLt 8 (fun x => allLt 256 (fun y => ckCP (208 + x) y)) = true := by decide +kernel
theorem CP_slice_27 : allLt 8 (fun x => allLt 256 (fun y => ckCP (216 + x) y)) = true := by decide +kernel
theorem CP_slice_28 : allLt 8 (fun x => allLt 256 (fun y => ckCP (224 + x) y)) = true := by decide +kernel
theorem CP_slice_29 : allLt 8 (fun x => allLt 256 (fun y => ckCP (232 + x) y)) = true := by decide +kernel
theorem CP_slice_30 : allLt 8 (fun x => allLt 256 (fun y => ckCP (240 + x) y)) = true := by decide +kernel
theorem CP_slice_31 : allLt 8 (fun x => allLt 256 (fun y => ckCP (248 + x) y)) = true := by decide +kernel
end AluProofs
