import SkoolVerif.Spec.AluCheck
open AluCheck
namespace AluProofs
theorem CPL_slice_16 : allLt 8 (fun x => allLt 256 (fun y => ckCPL (128 + x) y)) = true := by decide +kernel
theorem CPL_slice_17 : allLt 8 (fun x => allLt 256 (fun y => ckCPL (136 + x) y)) = true := by decide +kernel
theorem CPL_slice_18 : allLt 8 (fun x => allLt 256 (fun y => ckCPL (144 + x) y)) = true := by decide +kernel
theorem CPL_slice_19 : allLt 8 (fun x => allLt 256 (fun y => ckCPL (152 + x) y)) = true := by decide +kernel
theorem CPL_slice_20 : allLt 8 (fun x => allLt 256 (fun y => ckCPL (160 + x) y)) = true := by decide +kernel
theorem CPL_slice_21 : allLt 8 (fun x => allLt 256 (fun y => ckCPL (168 + x) y)) = true := by decide +kernel
theorem CPL_slice_22 : allLt 8 (fun x => allLt 256 (fun y => ckCPL (176 + x) y)) = true := by decide +kernel
theorem CPL_slice_23 : allLt 8 (fun x => allLt 256 (fun y => ckCPL (184 + x) y)) = true := by decide +kernel
end AluProofs
