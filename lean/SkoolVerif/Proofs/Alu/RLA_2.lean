import SkoolVerif.Spec.AluCheck
open AluCheck
namespace AluProofs
theorem RLA_slice_16 : allLt 8 (fun x => allLt 256 (fun y => ckRLA (128 + x) y)) = true := by decide +kernel
theorem RLA_slice_17 : allLt 8 (fun x => allLt 256 (fun y => ckRLA (136 + x) y)) = true := by decide +kernel
theorem RLA_slice_18 : allLt 8 (fun x => allLt 256 (fun y => ckRLA (144 + x) y)) = true := by decide +kernel
theorem RLA_slice_19 : allLt 8 (fun x => allLt 256 (fun y => ckRLA (152 + x) y)) = true := by decide +kernel
theorem RLA_slice_20 : allLt 8 (fun x => allLt 256 (fun y => ckRLA (160 + x) y)) = true := by decide +kernel
theorem RLA_slice_21 : allLt 8 (fun x => allLt 256 (fun y => ckRLA (168 + x) y)) = true := by decide +kernel
theorem RLA_slice_22 : allLt 8 (fun x => allLt 256 (fun y => ckRLA (176 + x) y)) = true := by decide +kernel
theorem RLA_slice_23 : allLt 8 (fun x => allLt 256 (fun y => ckRLA (184 + x) y)) = true := by decide +kernel
end AluProofs
