import SkoolVerif.Spec.AluCheck
open AluCheck
namespace AluProofs
theorem CP_slice_16 : allLt 8 (fun x => allLt 256 (fun y => ckCP (128 + x) y)) = true := by decide +kernel
theorem CP_slice_17 : allLt 8 (fun x => allLt 256 (fun y => ckCP (136 + x) y)) = true := by decide +kernel
theorem CP_slice_18 : allLt 8 (fun x => allLt 256 (fun y => ckCP (144 + x) y)) = true := by decide +kernel
theorem CP_slice_19 : allLt 8 (fun x => allLt 256 (fun y => ckCP (152 + x) y)) = true := by decide +kernel
theorem CP_slice_20 : allLt 8 (fun x => allLt 256 (fun y => ckCP (160 + x) y)) = true := by decide +kernel
theorem CP_slice_21 : allLt 8 (fun x => allLt 256 (fun y => ckCP (168 + x) y)) = true := by decide +kernel
theorem CP_slice_22 : allLt 8 (fun x => allLt 256 (fun y => ckCP (176 + x) y)) = true := by decide +kernel
theorem CP_slice_23 : allLt 8 (fun x => allLt 256 (fun y => ckCP (184 + x) y)) = true := by decide +kernel
end AluProofs
