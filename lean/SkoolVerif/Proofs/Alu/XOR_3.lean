import SkoolVerif.Spec.AluCheck
open AluCheck
namespace AluProofs
theorem XOR_slice_24 : allLt 8 (fun x => allLt 256 (fun y => ckXOR (192 + x) y)) = true := by decide +kernel
theorem XOR_slice_25 : allLt 8 (fun x => allLt 256 (fun y => ckXOR (200 + x) y)) = true := by decide +kernel
theorem XOR_slice_26 : allLt 8 (fun x => allLt 256 (fun y => ckXOR (208 + x) y)) = true := by decide +kernel
theorem XOR_slice_27 : allLt 8 (fun x => allLt 256 (fun y => ckXOR (216 + x) y)) = true := by decide +kernel
theorem XOR_slice_28 : allLt 8 (fun x => allLt 256 (fun y => ckXOR (224 + x) y)) = true := by decide +kernel
theorem XOR_slice_29 : allLt 8 (fun x => allLt 256 (fun y => ckXOR (232 + x) y)) = true := by decide +kernel
theorem XOR_slice_30 : allLt 8 (fun x => allLt 256 (fun y => ckXOR (240 + x) y)) = true := by decide +kernel
theorem XOR_slice_31 : allLt 8 (fun x => allLt 256 (fun y => ckXOR (248 + x) y)) = true := by decide +kernel
end AluProofs
