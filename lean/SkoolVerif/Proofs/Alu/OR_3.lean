import SkoolVerif.Spec.AluCheck
open AluCheck
namespace AluProofs
theorem OR_slice_24 : allLt 8 (fun x => allLt 256 (fun y => ckOR (192 + x) y)) = true := by decide +kernel
theorem OR_slice_25 : allLt 8 (fun x => allLt 256 (fun y => ckOR (200 + x) y)) = true := by decide +kernel
theorem OR_slice_26 : allLt 8 (fun x => allLt 256 (fun y => ckOR (208 + x) y)) = true := by decide +kernel
theorem OR_slice_27 : allLt 8 (fun x => allLt 256 (fun y => ckOR (216 + x) y)) = true := by decide +kernel
theorem OR_slice_28 : allLt 8 (fun x => allLt 256 (fun y => ckOR (224 + x) y)) = true := by decide +kernel
theorem OR_slice_29 : allLt 8 (fun x => allLt 256 (fun y => ckOR (232 + x) y)) = true := by decide +kernel
theorem OR_slice_30 : allLt 8 (fun x => allLt 256 (fun y => ckOR (240 + x) y)) = true := by decide +kernel
theorem OR_slice_31 : allLt 8 (fun x => allLt 256 (fun y => ckOR (248 + x) y)) = true := by decide +kernel
end AluProofs
