import SkoolVerif.Spec.AluCheck
open AluCheck
namespace AluProofs
theorem SBC_slice_8 : allLt 4 (fun y => allLt 2 (fun x => allLt 256 (fun z => ckSBC x (32 + y) z))) = true := by decide +kernel
theorem SBC_slice_9 : allLt 4 (fun y => allLt 2 (fun x => allLt 256 (fun z => ckSBC x (36 + y) z))) = true := by decide +kernel
theorem SBC_slice_10 : allLt 4 (fun y => allLt 2 (fun x => allLt 256 (fun z => ckSBC x (40 + y) z))) = true := by decide +kernel
theorem SBC_slice_11 : allLt 4 (fun y => allLt 2 (fun x => allLt 256 (fun z => ckSBC x (44 + y) z))) = true := by decide +kernel
theorem SBC_slice_12 : allLt 4 (fun y => allLt 2 (fun x => allLt 256 (fun z => ckSBC x (48 + y) z))) = true := by decide +kernel
theorem SBC_slice_13 : allLt 4 (fun y => allLt 2 (fun x => allLt 256 (fun z => ckSBC x (52 + y) z))) = true := by decide +kernel
theorem SBC_slice_14 : allLt 4 (fun y => allLt 2 (fun x => allLt 256 (fun z => ckSBC x (56 + y) z))) = true := by decide +kernel
theorem SBC_slice_15 : allLt 4 (fun y => allLt 2 (fun x => allLt 256 (fun z => ckSBC x (60 + y) z))) = true := by decide +kernel
end AluProofs
