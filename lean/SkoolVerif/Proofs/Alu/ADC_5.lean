import SkoolVerif.Spec.AluCheck
open AluCheck
namespace AluProofs
theorem ADC_slice_40 : allLt 4 (fun y => allLt 2 (fun x => allLt 256 (fun z => ckADC x (160 + y) z))) = true := by decide +kernel
theorem ADC_slice_41 : allLt 4 (fun y => allLt 2 (fun x => allLt 256 (fun z => ckADC x (164 + y) z))) = true := by decide +kernel
theorem ADC_slice_42 : allLt 4 (fun y => allLt 2 (fun x => allLt 256 (fun z => ckADC x (168 + y) z))) = true := by decide +kernel
theorem ADC_slice_43 : allLt 4 (fun y => allLt 2 (fun x => allLt 256 (fun z => ckADC x (172 + y) z))) = true := by decide +kernel
theorem ADC_slice_44 : allLt 4 (fun y => allLt 2 (fun x => allLt 256 (fun z => ckADC x (176 + y) z))) = true := by decide +kernel
theorem ADC_slice_45 : allLt 4 (fun y => allLt 2 (fun x => allLt 256 (fun z => ckADC x (180 + y) z))) = true := by decide +kernel
theorem ADC_slice_46 : allLt 4 (fun y => allLt 2 (fun x => allLt 256 (fun z => ckADC x (184 + y) z))) = true := by decide +kernel
theorem ADC_slice_47 : allLt 4 (fun y => allLt 2 (fun x => allLt 256 (fun z => ckADC x (188 + y) z))) = true := by decide +kernel
end AluProofs
