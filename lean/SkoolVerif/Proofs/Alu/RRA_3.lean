import SkoolVerif.Spec.AluCheck
open AluCheck
namespace AluProofs
theorem RRA_slice_24 : allLt 8 (fun x => allLt 256 (fun y => ckRRA (192 + x) y)) = true := by decide +kernel
theorem RRA_slice_25 : allLt 8 (fun x => allLt 256 (fun y => ckRRA (200 + x) y)) = true := by decide +kernel
theorem RRA_slice_26 : allLt 8 (fun x => allLt 256 (fun y => ckRRA (208 + x) y)) = true := by decide +kernel
theorem RRA_slice_27 : allLt 8 (fun x => allLt 256 (fun y => ckRRA (216 + x) y)) = true := by decide +kernel
theorem RRA_slice_28 : allLt 8 (fun x => allLt 256 (fun y => ckRRA (224 + x) y)) = true := by decide +kernel
theorem RRA_slice_29 : allLt 8 (fun x => allLt 256 (fun y => ckRRA (232 + x) y)) = true := by decide +kernel
theorem RRA_slice_30 : allLt 8 (fun x => allLt 256 (fun y => ckRRA (240 + x) y)) = true := by decide +kernel
theorem RRA_slice_31 : allLt 8 (fun x => allLt 256 (fun y => ckRRA (248 + x) y)) = true := by decide +kernel
end AluProofs
