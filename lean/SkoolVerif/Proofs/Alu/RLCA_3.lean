import SkoolVerif.Spec.AluCheck
open AluCheck
namespace AluProofs
theorem RLCA_slice_24 : allLt 8 (fun x => allLt 256 (fun y => ckRLCA (192 + x) y)) = true := by decide +kernel
theorem RLCA_slice_25 : allLt 8 (fun x => allLt 256 (fun y => ckRLCA (200 + x) y)) = true := by decide +kernel
theorem RLCA_slice_26 : allLt 8 (fun x => allLt 256 (fun y => ckRLCA (208 + x) y)) = true := by decide +kernel
theorem RLCA_slice_27 : allLt 8 (fun x => allLt 256 (fun y => ckRLCA (216 + x) y)) = true := by decide +kernel
theorem RLCA_slice_28 : allLt 8 (fun x => allLt 256 (fun y => ckRLCA (224 + x) y)) = true := by decide +kernel
theorem RLCA_slice_29 : allLt 8 (fun x => allLt 256 (fun y => ckRLCA (232 + x) y)) = true := by decide +kernel
theorem RLCA_slice_30 : allLt 8 (fun x => allLt 256 (fun y => ckRLCA (240 + x) y)) = true := by decide +kernel
theorem RLCA_slice_31 : allLt 8 (fun x => allLt 256 (fun y => ckRLCA (248 + x) y)) = true := by decide +kernel
end AluProofs
