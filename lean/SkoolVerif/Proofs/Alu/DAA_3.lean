import SkoolVerif.Spec.AluCheck
open AluCheck
namespace AluProofs
theorem DAA_slice_24 : allLt 8 (fun x => allLt 256 (fun y => ckDAA (192 + x) y)) = true := by decide +kernel
theorem DAA_slice_25 : allLt 8 (fun x => allLt 256 (fun y => ckDAA (200 + x) y)) = true := by decide +kernel
theorem DAA_slice_26 : allLt 8 (fun x => allLt 256 (fun y => ckDAA (208 + x) y)) = true := by decide +kernel
theorem DAA_slice_27 : allLt 8 (fun x => allLt 256 (fun y => ckDAA (216 + x) y)) = true := by decide +kernel
theorem DAA_slice_28 : allLt 8 (fun x => allLt 256 (fun y => ckDAA (224 + x) y)) = true := by decide +kernel
theorem DAA_slice_29 : allLt 8 (fun x => allLt 256 (fun y => ckDAA (232 + x) y)) = true := by decide +kernel
theorem DAA_slice_30 : allLt 8 (fun x => allLt 256 (fun y => ckDAA (240 + x) y)) = true := by decide +kernel
theorem DAA_slice_31 : allLt 8 (fun x => allLt 256 (fun y => ckDAA (248 + x) y)) = true := by decide +kernel
end AluProofs
