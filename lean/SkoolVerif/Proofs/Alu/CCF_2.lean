import SkoolVerif.Spec.AluCheck
open AluCheck
namespace AluProofs
theorem CCF_slice_16 : allLt 8 (fun x => allLt 256 (fun y => ckCCF (128 + x) y)) = true := by decide +kernel
theorem CCF_slice_17 : allLt 8 (fun x => allLt 256 (fun y => ckCCF (136 + x) y)) = true := by decide +kernel
theorem CCF_slice_18 : allLt 8 (fun x => allLt 256 (fun y => ckCCF (144 + x) y)) = true := by decide +kernel
theorem CCF_slice_19 : allLt 8 (fun x => allLt 256 (fun y => ckCCF (152 + x) y)) = true := by decide +kernel
theorem CCF_slice_20 : allLt 8 (fun x => allLt 256 (fun y => ckCCF (160 + x) y)) = true := by decide +kernel
theorem CCF_slice_21 : allLt 8 (fun x => allLt 256 (fun y => ckCCF (168 + x) y)) = true := by decide +kernel
theorem CCF_slice_22 : allLt 8 (fun x => allLt 256 (fun y => ckCCF (176 + x) y)) = true := by decide +kernel
theorem CCF_slice_23 : allLt 8 (fun x => allLt 256 (fun y => ckCCF (184 + x) y)) = true := by decide +kernel
end AluProofs
