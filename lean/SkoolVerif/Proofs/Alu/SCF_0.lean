import SkoolVerif.Spec.AluCheck
open AluCheck
namespace AluProofs
theorem SCF_slice_0 : allLt 8 (fun x => allLt 256 (fun y => ckSCF (0 + x) y)) = true := by decide +kernel
theorem SCF_slice_1 : allLt 8 (fun x => allLt 256 (fun y => ckSCF (8 + x) y)) = true := by decide +kernel
theorem SCF_slice_2 : allLt 8 (fun x => allLt 256 (fun y => ckSCF (16 + x) y)) = true := by decide +kernel
theorem SCF_slice_3 : allLt 8 (fun x => allLt 256 (fun y => ckSCF (24 + x) y)) = true := by decide +kernel
theorem SCF_slice_4 : allLt 8 (fun x => allLt 256 (fun y => ckSCF (32 + x) y)) = true := by decide +kernel
theorem SCF_slice_5 : allLt 8 (fun x => allLt 256 (fun y => ckSCF (40 + x) y)) = true := by decide +kernel
theorem SCF_slice_6 : allLt 8 (fun x => allLt 256 (fun y => ckSCF (48 + x) y)) = true := by decide +kernel
theorem SCF_slice_7 : allLt 8 (fun x => allLt 256 (fun y => ckSCF (56 + x) y)) = true := by decide +kernel
end AluProofs
