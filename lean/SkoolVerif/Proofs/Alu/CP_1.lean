import SkoolVerif.Spec.AluCheck
open AluCheck
namespace AluProofs
theorem CP_slice_8 : allLt 8 (fun x => allLt 256 (fun y => ckCP (64 + x) y)) = true := by decide +kernel
theorem CP_slice_9 : allLt 8 (fun x => allLt 256 (fun y => ckCP (72 + x) y)) = true := by decide +kernel
theorem CP_slice_10 : allLt 8 (fun x => allLt 256 (fun y => ckCP (80 + x) y)) = true := by decide +kernel
theorem CP_slice_11 : allLt 8 (fun x => allLt 256 (fun y => ckCP (88 + x) y)) = true := by decide +kernel
theorem CP_slice_12 : allLt 8 (fun x => allLt 256 (fun y => ckCP (96 + x) y)) = true := by decide +kernel
theorem CP_slice_13 : allLt 8 (fun x => allLt 256 (fun y => ckCP (104 + x) y)) = true := by decide +kernel
theorem CP_slice_14 : allLt 8 (fun x => allLt 256 (fun y => ckCP (112 + x) y)) = true := by decide +kernel
theorem CP_slice_15 : allLt 8 (fun x => allLt 256 (fun y => ckCP (120 + x) y)) = true := by decide +kernel
end AluProofs
