import SkoolVerif.Proofs.RzxFetch
import SkoolVerif.Proofs.RzxRecLemmas
import SkoolVerif.Prelude.SimProto
/-!
Instantiation of the generic playback lemmas with the *generated* plain simulator step
(`Sim.step`, translated from `simulator.py` on every run).
-/
namespace Rzx
open Z80 Sim
variable {μ : Type} [MemLike μ]

theorem leafOf_withIns (s : St μ) (l : List Int) : leafOf (s.withIns l) = leafOf s := by
  unfold leafOf leafOf1 leafOf2
  simp only [withIns_mem, withIns_pc]

/-- Port input of a whole `step` is local (every closure's is; the dispatch reads only memory and PC). -/
theorem inloc_step (cfg : Cfg) (s : St μ) : InLocal (step cfg) s := by
  have h := inloc_execLeaf cfg (leafOf s) s
  unfold InLocal at h ⊢
  simp only [step_eq, leafOf_withIns]
  exact h

theorem leafOf_snapEq (s s' : St μ) (h : SnapEq s s') : leafOf s' = leafOf s := by
  unfold leafOf leafOf1 leafOf2
  rw [h.2.1, h.2.2.1]

/-- With `int_active = 0` (`rzxplay`'s configuration) a `step` of the plain simulator transports
`SnapEq`: it reads neither HALT, MEMPTR, the clock nor the port logs. -/
theorem stepCong_sim (cfg : Cfg) (hia : cfg.int_active = 0) (hfd : 0 < cfg.frame_duration) :
    StepCong (step (μ := μ) cfg) := by
  intro s s' h
  rw [step_eq, step_eq, leafOf_snapEq s s' h]
  exact eqv_execLeaf cfg hia hfd (leafOf s) s s' h

/-- The states on which the fetch-count theorems apply: 24 register slots, R and the opcode bytes in
byte range (the range invariant of C08). -/
def Good (s : St μ) : Prop :=
  15 < s.reg.size ∧ IsByte (rget s.reg 15) ∧ IsByte (mget s.mem s.pc) ∧
    IsByte (mget s.mem ((s.pc + 1) % 65536)) ∧ IsByte (mget s.mem ((s.pc + 3) % 65536))

/-- the recorder's M1 count: the independent spec, from the opcode bytes at PC -/
def m1At (s : St μ) : Int := Spec.m1 (mget s.mem s.pc) (mget s.mem ((s.pc + 1) % 65536))

theorem decOf_eq_m1At (cfg : Cfg) (s : St μ) (h : Good s) : decOf (step cfg) s = m1At s :=
  fetchDec_eq_m1 cfg s h.1 h.2.1 h.2.2.1 h.2.2.2.1 h.2.2.2.2

theorem cIter_eq_pyIter (cfg : Cfg) (s : St μ) (h : Good s) : cIter (step cfg) s = pyIter (step cfg) s := by
  simp only [cIter, pyIter]
  rw [fetchDecC_eq cfg s h.1 h.2.1 h.2.2.1 h.2.2.2.1 h.2.2.2.2]

/-! ### `exec_frame` (C) and the Python loop are the same function of the frame -/

theorem runFrame_last_irrel (step : St μ → St μ) (fuel : Nat) (fc : Int) (s : St μ) (l l' : Int)
    (h : 0 < fc) (hf : 0 < fuel) : runFrame step fuel fc s l = runFrame step fuel fc s l' := by
  cases fuel with
  | zero => omega
  | succ n => simp [runFrame, h]

theorem pyIter_dec_pos (step : St μ → St μ) (s : St μ) (r : St μ × Int) (h : pyIter step s = .ok r) :
    1 ≤ r.2 ∧ r.1 = step s := by
  simp only [pyIter] at h
  split at h
  · cases h
  · cases h; exact ⟨fetchDec_pos _ _ _, rfl⟩

theorem cFrame_eq_runFrame (cfg : Cfg) (fuel : Nat) (fc : Int) (s : St μ)
    (hgood : ∀ i, Good (iter (step cfg) i s)) (hfc : 0 < fc) (hfuel : fc ≤ fuel) :
    cFrame (step cfg) fuel fc s = runFrame (step cfg) fuel fc s s.pc := by
  induction fuel generalizing fc s with
  | zero => omega
  | succ n ih =>
    simp only [cFrame, runFrame, hfc, if_true]
    rw [cIter_eq_pyIter cfg s (hgood 0)]
    cases hp : pyIter (step cfg) s with
    | error e => rfl
    | ok r =>
      obtain ⟨hd, hr⟩ := pyIter_dec_pos _ _ _ hp
      simp only [andThen_ok]
      by_cases hle : fc - r.2 ≤ 0
      · simp only [hle, if_true]
        have hng : ¬ (fc - r.2 > 0) := by omega
        cases n <;> simp only [runFrame, hng, if_false]
      · simp only [hle, if_false]
        have hg : ∀ i, Good (iter (step cfg) i r.1) := by
          intro i; rw [hr]; exact hgood (i + 1)
        rw [ih (fc - r.2) r.1 hg (by omega) (by omega)]
        have hn : 0 < n := by omega
        exact runFrame_last_irrel _ _ _ _ _ _ (by omega) hn

/-! ### In-range runs: C08's invariant provides `Good` along every run -/

theorem good_of_rinv [CellMem μ] (s : St μ) (h : RInv s) : Good s :=
  ⟨by have := h.regs.1; omega, h.regs.byte 15 (by omega) (by omega) (by omega), h.mem.byte _, h.mem.byte _, h.mem.byte _⟩

theorem rinv_iter [CellMem μ] (cfg : Cfg) (n : Nat) (s : St μ) (h : RInv s) : RInv (iter (step cfg) n s) := by
  induction n generalizing s with
  | zero => exact h
  | succ n ih => simp only [iter]; exact ih _ (rinv_step cfg s h)

theorem good_iter_of_rinv [CellMem μ] (cfg : Cfg) (s : St μ) (h : RInv s) (i : Nat) : Good (iter (step cfg) i s) :=
  good_of_rinv _ (rinv_iter cfg i s h)

theorem rinv_withIns [CellMem μ] (s : St μ) (src : List Int) (h : RInv s) (hsrc : ∀ v ∈ src, Byte v) :
    RInv (s.withIns src) :=
  ⟨h.regs, h.mem, h.pc, h.t, h.iff, h.im, h.halt, h.memptr, hsrc⟩

/-! ### A concrete machine for the non-vacuity examples of `Props/C20.lean` -/
namespace Ex
open SimProto

/-- 8000: IN A,(FE) ; EI ; HALT ; 0038 (IM 1 handler): RET ; 0000: DI (as in the Spectrum ROMs) -/
def mem0 : MemLog :=
  { base := [(0x8000, 0xDB), (0x8001, 0xFE), (0x8002, 0xFB), (0x8003, 0x76), (0x38, 0xC9), (0, 0xF3)],
    writes := [], o7ffd := 0, trOut7ffd := 0, is128 := false }

def s0 : St MemLog :=
  { reg := #[0, 0, 0, 0, 0, 0, 0, 0, 0, 0, 0, 0, 0xFF00, 0, 0x3F, 0, 0, 0, 0, 0, 0, 0, 0, 0], mem := mem0, pc := 0x8000, t := 0,
    iff := 0, im := 1, halt := 0, memptr := 0, ins := [], outs := [], inLog := [] }

/-- `rzxplay`'s simulator configuration: `int_active = 0`, RZXTracer has `read_port` and `write_port` -/
def cfg0 : Cfg := { int_active := 0, in_a_n_tracer := true, in_r_c_tracer := true, ini_tracer := true, out_tracer := true }

/-- frame 1: IN, EI, HALT (the port source offers 191, 7, 9, 1; one value is consumed), next frame announced with 1 fetch;
frame 2: the RET of the interrupt handler -/
def plan0 : List (Nat × List Int × Int) := [(3, [191, 7, 9, 1], 1), (1, [5, 5], -1)]

/-- under playback flag 2: frame 1 = IN, EI; the interrupt after EI is blocked and announced by a short frame 2 (HALT) -/
def plan2 : List (Nat × List Int × Int) := [(2, [191, 7, 9], 1), (1, [5, 5], -1)]

/-- what the examples look at: outcome tag, A, PC, IFF, SP, frame count, R, T -/
def obs (r : Except Err (Outcome MemLog)) : List Int :=
  match r with
  | .ok (.finished s c) => [0, rget s.reg 0, s.pc, s.iff, rget s.reg 12, c, rget s.reg 15, s.t]
  | .ok (.stopped s c _) => [1, rget s.reg 0, s.pc, s.iff, rget s.reg 12, c, rget s.reg 15, s.t]
  | .error .exhausted => [2]
  | .error .leftover => [3]

end Ex

end Rzx
