import SkoolVerif.Proofs.SnaCtlInv
/-!
Tiling of the range by a well-formed dict, and alignment of the no-code-map generator's block
boundaries with the linear decode stream (before the text pass).
-/
namespace SnaCtl

/-! ### tiling -/

theorem pairs_fst_ge {x : Nat} {r : List Nat} (hs : (x :: r).Pairwise (· < ·)) :
    ∀ p ∈ pairs (x :: r), x ≤ p.1 := by
  intro p hp
  have := pairs_mem hs (a := p.1) (b := p.2) hp
  rw [List.pairwise_cons] at hs
  simp at this
  rcases this.1 with h | h
  · omega
  · have := hs.1 p.1 h; omega

/-- every address of `[lo, hi)` lies in some block `[p.1, p.2)` -/
theorem tiles_exists : ∀ (ks : List Nat) (lo hi a : Nat), ks.Pairwise (· < ·) → ks.head? = some lo →
    ks.getLast? = some hi → lo ≤ a → a < hi → ∃ p ∈ pairs ks, p.1 ≤ a ∧ a < p.2 := by
  intro ks
  induction ks with
  | nil => intro lo hi a _ h; simp at h
  | cons x r ih =>
    intro lo hi a hs hh hl h1 h2
    simp at hh; subst hh
    cases r with
    | nil => simp at hl; omega
    | cons y r' =>
      by_cases hay : a < y
      · exact ⟨(x, y), by simp [pairs], h1, hay⟩
      · rw [List.pairwise_cons] at hs
        rw [List.getLast?_cons_cons] at hl
        obtain ⟨p, hp, hpa⟩ := ih y hi a hs.2 (by simp) hl (by omega) h2
        exact ⟨p, by simp [pairs, hp], hpa⟩

/-- … and in only one -/
theorem tiles_unique : ∀ (ks : List Nat), ks.Pairwise (· < ·) → ∀ (a : Nat) (p q : Nat × Nat),
    p ∈ pairs ks → q ∈ pairs ks → p.1 ≤ a → a < p.2 → q.1 ≤ a → a < q.2 → p = q := by
  intro ks
  induction ks with
  | nil => intro _ a p q hp; simp [pairs] at hp
  | cons x r ih =>
    intro hs a p q hp hq p1 p2 q1 q2
    cases r with
    | nil => simp [pairs] at hp
    | cons y r' =>
      have hs' := hs
      rw [List.pairwise_cons] at hs'
      simp only [pairs, List.mem_cons] at hp hq
      rcases hp with rfl | hp <;> rcases hq with rfl | hq
      · rfl
      · have := pairs_fst_ge hs'.2 q hq; simp at p2; omega
      · have := pairs_fst_ge hs'.2 p hp; simp at q2; omega
      · exact ih hs'.2 a p q hp hq p1 p2 q1 q2

theorem keys_getLast? (d : Dict) {k : Nat} {v : Ctl} (h : d.getLast? = some (k, v)) :
    (keys d).getLast? = some k := by
  simp [keys, List.getLast?_map, h]

/-- A well-formed dict tiles `[start, end_)`: every address lies in exactly one block. -/
theorem inv_tiles {start end_ : Nat} {d : Dict} (h : Inv start end_ d) (a : Nat) (h1 : start ≤ a) (h2 : a < end_) :
    ∃ p ∈ pairs (keys d), (p.1 ≤ a ∧ a < p.2) ∧ ∀ q ∈ pairs (keys d), q.1 ≤ a → a < q.2 → q = p := by
  obtain ⟨p, hp, hpa⟩ := tiles_exists (keys d) start end_ a h.sorted (inv_head h) (keys_getLast? d (inv_last h)) h1 h2
  exact ⟨p, hp, hpa, fun q hq q1 q2 => tiles_unique (keys d) h.sorted a q p hq hp q1 q2 hpa.1 hpa.2⟩

/-! ### the linear decode stream -/

/-- address reached after `n` instructions decoded linearly from `a` -/
def walk (dec : Dec) : Nat → Nat → Nat
  | a, 0 => a
  | a, n + 1 => walk dec (a + (dec a).size) n

/-- `b` is an instruction boundary of the stream decoded linearly from `a` -/
def Reach (dec : Dec) (a b : Nat) : Prop := ∃ n, walk dec a n = b

theorem walk_add (dec : Dec) : ∀ (m k a : Nat), walk dec a (m + k) = walk dec (walk dec a m) k := by
  intro m
  induction m with
  | zero => intro k a; simp [walk]
  | succ m ih => intro k a; rw [Nat.add_right_comm]; simp [walk, ih]

theorem walk_succ (dec : Dec) (a n : Nat) :
    walk dec a (n + 1) = walk dec a n + (dec (walk dec a n)).size := by
  rw [walk_add]; simp [walk]

theorem walk_lt {dec : Dec} (hs : SizesPos dec) (a : Nat) : ∀ (k m : Nat), walk dec a m < walk dec a (m + k + 1) := by
  intro k
  induction k with
  | zero => intro m; rw [walk_succ]; have := hs (walk dec a m); omega
  | succ k ih =>
    intro m
    have := ih m
    have e : m + (k + 1) + 1 = (m + k + 1) + 1 := by omega
    rw [e, walk_succ]
    omega

theorem walk_mono {dec : Dec} (hs : SizesPos dec) (a : Nat) {m n : Nat} (h : m < n) : walk dec a m < walk dec a n := by
  have := walk_lt hs a (n - m - 1) m
  have e : m + (n - m - 1) + 1 = n := by omega
  rwa [e] at this

theorem reach_refl (dec : Dec) (a : Nat) : Reach dec a a := ⟨0, rfl⟩

theorem reach_step {dec : Dec} {a b : Nat} (h : Reach dec a b) : Reach dec a (b + (dec b).size) := by
  obtain ⟨n, rfl⟩ := h
  exact ⟨n + 1, walk_succ dec a n⟩

theorem reach_trans {dec : Dec} {a b c : Nat} (h1 : Reach dec a b) (h2 : Reach dec b c) : Reach dec a c := by
  obtain ⟨m, rfl⟩ := h1
  obtain ⟨k, rfl⟩ := h2
  exact ⟨m + k, walk_add dec m k a⟩

/-- The stream is deterministic: two of its boundaries are boundaries of each other's tail. -/
theorem reach_between {dec : Dec} (hs : SizesPos dec) {a b c : Nat} (h1 : Reach dec a b) (h2 : Reach dec a c)
    (hbc : b ≤ c) : Reach dec b c := by
  obtain ⟨m, rfl⟩ := h1
  obtain ⟨n, rfl⟩ := h2
  have hmn : m ≤ n := by
    rcases Nat.lt_or_ge n m with h | h
    · have := walk_mono hs a h; omega
    · exact h
  exact ⟨n - m, by rw [← walk_add]; congr 1; omega⟩

/-- a run of zero bytes decodes as one-byte instructions (NOP) -/
theorem reach_zeros {dec : Dec} {mem : Mem} (hz : ∀ x, mem x = 0 → (dec x).size = 1) :
    ∀ (n a : Nat), (∀ y, a ≤ y → y < a + n → mem y = 0) → walk dec a n = a + n := by
  intro n
  induction n with
  | zero => intro a _; rfl
  | succ n ih =>
    intro a h
    rw [walk, hz a (h a (Nat.le_refl _) (by omega)), ih (a + 1) (fun y h1 h2 => h y (by omega) (by omega))]
    omega

/-! ### all block boundaries of the single pass are instruction boundaries -/

/-- every key except the terminator is a boundary of the stream decoded from `start` -/
def OnStream (dec : Dec) (start end_ : Nat) (d : List (Nat × Ctl)) : Prop :=
  ∀ k ∈ keys d, k ≠ end_ → Reach dec start k

structure GReach (dec : Dec) (start addr : Nat) (st : GState) : Prop where
  pos : Reach dec start addr
  ca : Reach dec start st.ctlAddr
  ks : ∀ k ∈ keys st.ctls, Reach dec start k

theorem catch_reach {dec : Dec} {start addr : Nat} {st : GState} (h : GReach dec start addr st) (b0 : Nat) :
    let r := catchData st.ctls st.ctlAddr st.count st.prevMax addr b0
    Reach dec start r.2 ∧ ∀ k ∈ keys r.1, Reach dec start k := by
  intro r
  rcases catchData_cases st.ctls st.ctlAddr st.count st.prevMax addr b0 with hc | ⟨_, ⟨hc, _⟩ | hc⟩ <;>
    simp only [r, hc]
  · exact ⟨h.ca, h.ks⟩
  · exact ⟨h.pos, h.ks⟩
  · refine ⟨h.pos, ?_⟩
    intro k hk
    simp at hk
    rcases hk with rfl | hk
    · exact h.ca
    · exact h.ks k hk

theorem gstep_reach {dec : Dec} {start addr : Nat} {st : GState} (mem : Mem)
    (h : GReach dec start addr st) :
    GReach dec start (addr + (dec addr).size) (gstep mem st addr (dec addr)) := by
  have hc := catch_reach h st.prevB0
  simp only at hc
  unfold gstep
  split
  · refine ⟨reach_step h.pos, reach_step h.pos, ?_⟩
    intro k hk
    simp at hk
    rcases hk with rfl | hk
    · exact hc.1
    · exact hc.2 k hk
  · split
    · exact ⟨reach_step h.pos, h.ca, h.ks⟩
    · split
      · exact ⟨reach_step h.pos, hc.1, hc.2⟩
      · exact ⟨reach_step h.pos, h.ca, h.ks⟩

theorem gloop_reach {dec : Dec} (mem : Mem) {start end_ : Nat} (fuel : Nat) :
    ∀ (addr : Nat) (st : GState), GReach dec start addr st →
      ∃ addr', GReach dec start addr' (gloop dec mem end_ fuel addr st) := by
  induction fuel with
  | zero => intro addr st h; exact ⟨addr, h⟩
  | succ n ih =>
    intro addr st h
    unfold gloop
    split
    · exact ih _ _ (gstep_reach mem h)
    · exact ⟨addr, h⟩

theorem genRaw_onStream (dec : Dec) (mem : Mem) (start end_ : Nat) :
    OnStream dec start end_ (genRaw dec mem start end_) := by
  obtain ⟨addr', hr⟩ := gloop_reach (dec := dec) mem (end_ := end_) (end_ - start) start (GState.init start)
    ⟨reach_refl _ _, reach_refl _ _, by simp [GState.init]⟩
  unfold genRaw
  generalize gloop dec mem end_ (end_ - start) start (GState.init start) = st at hr
  intro k hk hne
  simp only [keys_reverse, List.mem_reverse, keys_cons, List.mem_cons] at hk
  rcases hk with rfl | hk
  · exact absurd rfl hne
  · split at hk
    · simp at hk
      rcases hk with rfl | hk
      · exact hr.ca
      · exact hr.ks k hk
    · exact hr.ks k hk

theorem onStream_dset {dec : Dec} {start end_ : Nat} {d : Dict} (h : OnStream dec start end_ d)
    {k : Nat} (v : Ctl) (hk : Reach dec start k) : OnStream dec start end_ (dset d k v) := by
  intro k' hk' hne
  rw [mem_keys_dset] at hk'
  rcases hk' with rfl | hk'
  · exact hk
  · exact h k' hk' hne

theorem onStream_ddel {dec : Dec} {start end_ : Nat} {d : Dict} (hs : Sorted d)
    (h : OnStream dec start end_ d) (k : Nat) : OnStream dec start end_ (ddel d k) := by
  intro k' hk' hne
  rw [mem_keys_ddel hs] at hk'
  exact h k' hk'.2 hne

theorem foldl_pres {α β : Type} (Q : α → Prop) (f : α → β → α) (P : β → Prop)
    (hf : ∀ d x, Q d → P x → Q (f d x)) :
    ∀ (l : List β) (d : α), Q d → (∀ x ∈ l, P x) → Q (l.foldl f d) := by
  intro l
  induction l with
  | nil => intro d h _; exact h
  | cons x r ih =>
    intro d h hp
    exact ih _ (hf d x h (hp x (by simp))) (fun y hy => hp y (by simp [hy]))

/-- `Inv` together with `OnStream` -/
def InvS (dec : Dec) (start end_ : Nat) (d : Dict) : Prop := Inv start end_ d ∧ OnStream dec start end_ d

theorem markZeroBlock_invS {dec : Dec} {start end_ : Nat} (hs : SizesPos dec) (mem : Mem)
    (hz : ∀ x, mem x = 0 → (dec x).size = 1) (d : Dict) (se : Nat × Nat)
    (h : InvS dec start end_ d) (hp : se.1 ∈ keys d ∧ start ≤ se.1 ∧ se.1 < se.2 ∧ se.2 ≤ end_) :
    InvS dec start end_ (markZeroBlock mem d se) := by
  refine ⟨markZeroBlock_inv mem d se h.1 hp.2, ?_⟩
  have hr1 : Reach dec start se.1 := h.2 se.1 hp.1 (by omega)
  unfold markZeroBlock
  split
  · split
    · rename_i a ha
      have hsp := firstNonzero_spec mem _ _ _ ha
      have hw := reach_zeros hz (a - se.1) se.1 (fun y h1 h2 => hsp.2.2.2 y h1 (by omega))
      have : Reach dec se.1 a := ⟨a - se.1, by rw [hw]; omega⟩
      exact onStream_dset (onStream_dset h.2 _ hr1) _ (reach_trans hr1 this)
    · exact onStream_dset h.2 _ hr1
  · split
    · exact onStream_dset h.2 _ hr1
    · exact h.2

theorem markZero_invS {dec : Dec} {start end_ : Nat} (hs : SizesPos dec) (mem : Mem)
    (hz : ∀ x, mem x = 0 → (dec x).size = 1) {d : Dict} (h : InvS dec start end_ d) :
    InvS dec start end_ (markZero mem d) := by
  unfold markZero
  have hkeys : ∀ (l : List (Nat × Nat)) (d' : Dict), InvS dec start end_ d' →
      (∀ se ∈ l, se.1 ∈ keys d' ∧ start ≤ se.1 ∧ se.1 < se.2 ∧ se.2 ≤ end_) →
      InvS dec start end_ (l.foldl (markZeroBlock mem) d') := by
    intro l
    induction l with
    | nil => intro d' h' _; exact h'
    | cons x r ih =>
      intro d' h' hp
      simp only [List.foldl_cons]
      apply ih _ (markZeroBlock_invS hs mem hz d' x h' (hp x (by simp)))
      intro se hse
      have := hp se (by simp [hse])
      refine ⟨?_, this.2⟩
      -- keys only grow under markZeroBlock
      unfold markZeroBlock
      split
      · split
        · rw [mem_keys_dset, mem_keys_dset]; exact Or.inr (Or.inr this.1)
        · rw [mem_keys_dset]; exact Or.inr this.1
      · split
        · rw [mem_keys_dset]; exact Or.inr this.1
        · exact this.1
  apply hkeys _ d h
  intro se hse
  have h1 := pairs_mem h.1.sorted (a := se.1) (b := se.2) hse
  have h2 := inv_pairs h.1 (a := se.1) (b := se.2) hse
  exact ⟨h1.1, h2⟩

theorem joinFold_invS {dec : Dec} {start end_ : Nat} {d0 : Dict} (h0 : Inv start end_ d0) :
    ∀ (r : List (Nat × Ctl)) (st : Dict × Nat × Ctl),
      InvS dec start end_ st.1 → (st.2.1, st.2.2) ∈ d0 → st.2.1 ∈ keys st.1 →
      (∀ kv ∈ r, kv ∈ d0 ∧ start < kv.1 ∧ st.2.1 < kv.1) → (keys r).Pairwise (· < ·) →
      (∀ kv ∈ r, kv.1 ∈ keys st.1) →
      InvS dec start end_ (r.foldl joinStep st).1 := by
  intro r
  induction r with
  | nil => intro st h _ _ _ _ _; exact h
  | cons kv r ih =>
    intro st h hm hk hr hsr hkr
    simp only [List.foldl_cons]
    have hkv := hr kv (by simp)
    rw [keys_cons, List.pairwise_cons] at hsr
    have hstep1 : InvS dec start end_ (joinStep st kv).1 := by
      unfold joinStep
      split
      · rename_i hc
        have hp := inv_lt_end h0 (dget_of_mem h0.sorted hm) (isBS_ne_i hc.2)
        have hq := inv_lt_end h0 (dget_of_mem h0.sorted hkv.1) (isBS_ne_i hc.1)
        refine ⟨inv_ddel (inv_dset h.1 hp.1 hp.2 (by simp)) (by omega) (by omega), ?_⟩
        exact onStream_ddel (sorted_dset h.1.sorted _ _) (onStream_dset h.2 _ (h.2 _ hk (by omega))) _
      · exact h
    apply ih _ hstep1
    · unfold joinStep
      split
      · exact hm
      · exact hkv.1
    · unfold joinStep
      split
      · simp only
        rw [mem_keys_ddel (sorted_dset h.1.sorted _ _), mem_keys_dset]
        exact ⟨by omega, Or.inl rfl⟩
      · simp only; exact hkr kv (by simp)
    · intro kv' hkv'
      have h1 := hr kv' (by simp [hkv'])
      have h2 := hsr.1 kv'.1 (mem_keys_of_mem (v := kv'.2) hkv')
      refine ⟨h1.1, h1.2.1, ?_⟩
      unfold joinStep
      split
      · exact h1.2.2
      · exact h2
    · exact hsr.2
    · intro kv' hkv'
      have h1 := hkr kv' (by simp [hkv'])
      have h2 := hsr.1 kv'.1 (mem_keys_of_mem (v := kv'.2) hkv')
      unfold joinStep
      split
      · simp only
        rw [mem_keys_ddel (sorted_dset h.1.sorted _ _), mem_keys_dset]
        exact ⟨by omega, Or.inr h1⟩
      · exact h1

theorem joinBS_invS {dec : Dec} {start end_ : Nat} {d : Dict} (h : InvS dec start end_ d) :
    InvS dec start end_ (joinBS d) := by
  unfold joinBS
  cases hd : d with
  | nil => rw [hd] at h; exact h
  | cons x r =>
    obtain ⟨k0, c0⟩ := x
    simp only
    rw [← hd]
    have hs := h.1.sorted
    rw [hd, sorted_cons] at hs
    apply joinFold_invS h.1 r (d, k0, c0) h (by rw [hd]; simp) (by rw [hd]; simp)
    · intro kv hkv
      have h1 := hs.1 kv.1 (mem_keys_of_mem (v := kv.2) hkv)
      have h2 := (h.1.bounds k0 (by rw [hd]; simp)).1
      exact ⟨by rw [hd]; simp [hkv], by omega, h1⟩
    · exact hs.2
    · intro kv hkv
      rw [hd]; simp; right; exact mem_keys_of_mem (v := kv.2) hkv

/-- Block boundaries of the no-code-map generator **before the text pass**: well formed, and
every boundary (but the terminator) is an instruction boundary of the original stream. -/
theorem preText_invS {dec : Dec} (hs : SizesPos dec) (mem : Mem)
    (hz : ∀ x, mem x = 0 → (dec x).size = 1) {start end_ : Nat} (hse : start ≤ end_) :
    InvS dec start end_ (joinBS (markZero mem (dictOf (genRaw dec mem start end_)))) := by
  apply joinBS_invS
  apply markZero_invS hs mem hz
  have hr := genRaw_ok hs mem hse
  refine ⟨rawOK_inv hse hr, ?_⟩
  rw [dictOf_sorted _ hr.sorted]
  exact genRaw_onStream dec mem start end_

/-- consecutive boundaries that are both on the stream are on each other's stream -/
theorem invS_pairs_reach {dec : Dec} (hs : SizesPos dec) {start end_ : Nat} {d : Dict}
    (h : InvS dec start end_ d) {a b : Nat} (hp : (a, b) ∈ pairs (keys d)) (hb : b ≠ end_) : Reach dec a b := by
  have hm := pairs_mem h.1.sorted hp
  have hb' := (h.1.bounds b hm.2.1).2
  exact reach_between hs (h.2 a hm.1 (by omega)) (h.2 b hm.2.1 hb) (by omega)

end SnaCtl
