import SkoolVerif.Proofs.AsmInstrChk.All
/-!
What every configuration of the disassembler agrees on: the instruction object decoded at `a` exists, is
flagged VARIANT or not by its slot entry, and — when the instruction fits below 65536 — holds the bytes
`mem[a .. a + L)` where `L` depends on the opcode bytes only (not on the additional-opcode set, the case,
the number format or the bases).
-/
namespace AsmInstrL
open OpText AsmEval AsmInstr InstrDec C02L DisText

theorem finishText_variant (cfg : Cfg) (wrap : Bool) (b1 b2 : Base) (mem : Mem) (a : Nat) (so : SOut) :
    (finishText cfg wrap b1 b2 mem a so).variant = so.flags % 2 := by
  unfold finishText
  simp only []
  repeat' split
  all_goals rfl

theorem len_eq_nominal (cfg : Cfg) (b1 b2 : Base) (mem : Mem) (a : Nat) (so : SOut)
    (hwf : wfOp so = true) (ha : a < 65536) (hfit : a + so.nominal ≤ 65536) :
    opLength so (opText cfg b1 b2 mem a so.op).2 = so.nominal := by
  obtain ⟨op, add, fixed, flags⟩ := so
  cases op with
  | tmpl ps len => cases fixed <;> simp [SOut.nominal, opText, opLength]
  | defb off n =>
    simp only [wfOp, Bool.and_eq_true, beq_iff_eq, Option.isNone_iff_eq_none] at hwf
    obtain ⟨⟨rfl, rfl⟩, rfl⟩ := hwf
    simp only [SOut.nominal, Nat.add_zero] at hfit
    simp only [SOut.nominal, opText, defbText, slice_length, Nat.add_zero, opLength]
    omega
  | jr pre post hole off =>
    simp only [wfOp, Bool.and_eq_true, beq_iff_eq, Option.isNone_iff_eq_none] at hwf
    obtain ⟨⟨rfl, rfl⟩, rfl⟩ := hwf
    simp only [SOut.nominal, Nat.add_zero] at hfit
    simp only [SOut.nominal, opText, Nat.add_zero, opLength]
    split
    · rfl
    · simp only [defbText, slice_length]; omega

/-- an instruction that fits below 65536 has the bytes `mem[a .. a + nominal)`, whatever the configuration -/
theorem finishText_bytes_fit (cfg : Cfg) (wrap : Bool) (b1 b2 : Base) (mem : Mem) (a : Nat) (so : SOut)
    (hwf : wfOp so = true) (ha : a < 65536) (hfit : a + so.nominal ≤ 65536) :
    (finishText cfg wrap b1 b2 mem a so).bytes = bytesAt mem a so.nominal := by
  unfold finishText
  simp only []
  rw [len_eq_nominal cfg b1 b2 mem a so hwf ha hfit, if_pos hfit]
  exact slice_eq_bytesAt mem a _ hfit

/-- the slot the opcode bytes at `a` select -/
def slotAt (mem : Mem) (a : Nat) : Slot := slotOf (mem a) (mem ((a + 1) % 65536)) (mem ((a + 3) % 65536))

/-- **The disassembler model is total**, and the length of the instruction it decodes depends on the opcode
bytes only. -/
theorem disText_total (c : DCfg) (hex : Bool) (b1 b2 : Base) (mem : Mem) (hmem : ∀ i, mem i < 256) (a : Nat) :
    ∃ so, disSym C02Gen.tables c (mem a) (mem ((a + 1) % 65536)) (mem ((a + 3) % 65536)) = .ok so ∧
      disText C02Gen.tables c hex b1 b2 mem a = .ok (finishText ⟨hex, c.lower⟩ c.wrap b1 b2 mem a so) ∧
      wfOp so = true ∧ so.nominal = C02Chk.L (slotAt mem a) ∧ so.nominal ≤ 4 := by
  obtain ⟨so, h1, h2, h3, h4⟩ := disSym_ok C02Chk.shape_ok C02Chk.len_ok c mem hmem a
  exact ⟨so, h1, by simp [disText, h1], h2, h3, h4⟩

end AsmInstrL
