import SkoolVerif.Proofs.SemFlagLemmas
/-!
16-bit ADD / ADC / SBC: the flag expressions of `add_rr`, `adc_hl`, `sbc_hl` (xor / mask idioms on
the high bytes, sign tests by xor) against the arithmetic definitions of `Spec/Z80Alu16.lean`
(carry out of bit 11 / 15, signed overflow) — for **all** 16-bit operands, by general bit lemmas
(`Nat.testBit_xor`, …) and `omega`, no enumeration.
-/
namespace C05
open Z80 Sim Spec Z80Isa Z80Spec TableRanges AluCheck

theorem bit_hi (r k : Nat) : bit (r / 256) k = bit r (8 + k) := by
  unfold bit
  have : r / 256 = r >>> 8 := by simp [Nat.shiftRight_eq_div_pow]
  rw [this, Nat.testBit_shiftRight]

theorem bit_hi5 (r : Nat) : bit (r / 256) 5 = bit r 13 := bit_hi r 5
theorem bit_hi3 (r : Nat) : bit (r / 256) 3 = bit r 11 := bit_hi r 3
theorem bit_hi7 (r : Nat) : bit (r / 256) 7 = bit r 15 := bit_hi r 7

theorem hi53 (h : Int) (hh : Byte h) : PyInt.land h 40 = ((fl (bit h.toNat 5) 32 + fl (bit h.toNat 3) 8 : Nat) : Int) := by
  have h2 := allLt_spec hi53_all h.toNat (by unfold Byte at hh; omega)
  have e : ((h.toNat : Nat) : Int) = h := by unfold Byte at hh; omega
  simpa only [beq_iff_eq, e] using h2

theorem fl_decide_cast (P : Prop) [Decidable P] (m : Nat) :
    ((fl (decide P) m : Nat) : Int) = if P then (m : Int) else 0 := by
  by_cases h : P <;> simp [fl, h]

theorem fl_or_cast (A B : Prop) [Decidable A] [Decidable B] (m : Nat) :
    ((fl (decide A || decide B) m : Nat) : Int) = if A ∨ B then (m : Int) else 0 := by
  by_cases hA : A <;> by_cases hB : B <;> simp [fl, hA, hB]

theorem add16_spec (f hl rr : Int) (hf : Byte f) (hhl : Word hl) (hrr : Word rr) :
    ((add16 f.toNat hl.toNat rr.toNat).1 : Int) = (hl + rr) % 65536 ∧
    ((add16 f.toNat hl.toNat rr.toNat).2 : Int) =
      PyInt.land f 196 + (if hl + rr > 65535 then 1 else 0) + (if hl % 4096 + rr % 4096 > 4095 then 16 else 0)
        + PyInt.land ((hl + rr) % 65536 / 256) 40 := by
  unfold Word at hhl hrr
  have hb : Byte ((hl + rr) % 65536 / 256) := by unfold Byte; omega
  have e : ((hl + rr) % 65536 / 256).toNat = (hl.toNat + rr.toNat) % 65536 / 256 := by omega
  rw [hi53 _ hb, (byte_masks f hf).2.2.2.1, e]
  simp only [add16, mkF_sum, fl_false, bit_hi5, bit_hi3]
  constructor
  · omega
  · simp only [Int.natCast_add, fl_decide_cast]
    omega
theorem nat_and_pow (x k : Nat) : x &&& 2 ^ k = if x.testBit k then 2 ^ k else 0 := by
  apply Nat.eq_of_testBit_eq
  intro i
  rw [Nat.testBit_and, Nat.testBit_two_pow]
  by_cases h : k = i
  · subst h; cases hx : x.testBit k <;> simp [Nat.testBit_two_pow]
  · cases hx : x.testBit k <;> simp [h, Nat.testBit_two_pow]

theorem xor_ofNat (a b : Nat) : PyInt.xor (a : Int) (b : Int) = ((a ^^^ b : Nat) : Int) := rfl
theorem land_ofNat (a b : Nat) : PyInt.land (a : Int) (b : Int) = ((a &&& b : Nat) : Int) := rfl

/-- bit 4 of `a ^ b ^ c` (the half-carry trick) -/
theorem land16_xor3 (a b c : Nat) :
    PyInt.land (PyInt.xor (PyInt.xor (a : Int) (b : Int)) (c : Int)) 16 =
      if (a / 16 + b / 16 + c / 16) % 2 = 1 then 16 else 0 := by
  rw [xor_ofNat, xor_ofNat]
  have : (16 : Int) = ((2 ^ 4 : Nat) : Int) := rfl
  rw [this, land_ofNat, nat_and_pow, Nat.testBit_xor, Nat.testBit_xor]
  simp only [Nat.testBit_eq_decide_div_mod_eq]
  have e : (2:Nat)^4 = 16 := rfl
  simp only [e]
  by_cases ha : a / 16 % 2 = 1 <;> by_cases hb : b / 16 % 2 = 1 <;> by_cases hc : c / 16 % 2 = 1 <;>
    simp [ha, hb, hc] <;> omega

/-- bit 15 of `x ^ y` for 16-bit words: set iff the signs differ -/
theorem xor_sign (x y : Nat) (hx : x < 65536) (hy : y < 65536) :
    (PyInt.xor (x : Int) (y : Int) < 32768) ↔ ((x < 32768) ↔ (y < 32768)) := by
  rw [xor_ofNat]
  have hlt : x ^^^ y < 2 ^ 16 := Nat.xor_lt_two_pow (by omega) (by omega)
  have hb : (x ^^^ y).testBit 15 = (x.testBit 15 != y.testBit 15) := Nat.testBit_xor x y 15
  simp only [Nat.testBit_eq_decide_div_mod_eq] at hb
  have e : (2:Nat)^15 = 32768 := rfl
  simp only [e] at hb
  have e2 : (2:Nat)^16 = 65536 := rfl
  rw [e2] at hlt
  by_cases h1 : (x ^^^ y) / 32768 % 2 = 1 <;> by_cases h2 : x / 32768 % 2 = 1 <;> by_cases h3 : y / 32768 % 2 = 1 <;>
    simp [h1, h2, h3] at hb <;> omega

theorem natCast_div256 (x : Nat) : ((x : Int)) / 256 = ((x / 256 : Nat) : Int) := by omega

theorem xor_sign_int (x y : Int) (hx : Word x) (hy : Word y) :
    (PyInt.xor x y < 32768) ↔ ((x < 32768) ↔ (y < 32768)) := by
  unfold Word at hx hy
  have ex : x = ((x.toNat : Nat) : Int) := by omega
  have ey : y = ((y.toNat : Nat) : Int) := by omega
  rw [ex, ey, xor_sign _ _ (by omega) (by omega)]
  omega

theorem land16_xor3_int (a b c : Int) (ha : 0 ≤ a) (hb : 0 ≤ b) (hc : 0 ≤ c) :
    PyInt.land (PyInt.xor (PyInt.xor a b) c) 16 = if (a / 16 + b / 16 + c / 16) % 2 = 1 then 16 else 0 := by
  have ea : a = ((a.toNat : Nat) : Int) := by omega
  have eb : b = ((b.toNat : Nat) : Int) := by omega
  have ec : c = ((c.toNat : Nat) : Int) := by omega
  rw [ea, eb, ec, land16_xor3]
  by_cases h : (a.toNat / 16 + b.toNat / 16 + c.toNat / 16) % 2 = 1
  · rw [if_pos h, if_pos (by omega)]
  · rw [if_neg h, if_neg (by omega)]

theorem half_adc (x y c : Int) (hx : 0 ≤ x ∧ x < 65536) (hy : 0 ≤ y ∧ y < 65536) (hc : 0 ≤ c ∧ c < 2) :
    (x % 4096 + y % 4096 + c > 4095) ↔ ((x / 256 / 16 + y / 256 / 16 + (x + y + c) % 65536 / 256 / 16) % 2 = 1) := by
  omega
theorem half_sbc (x y c : Int) (hx : 0 ≤ x ∧ x < 65536) (hy : 0 ≤ y ∧ y < 65536) (hc : 0 ≤ c ∧ c < 2) :
    (x % 4096 < y % 4096 + c) ↔ ((x / 256 / 16 + y / 256 / 16 + (x - (y + c)) % 65536 / 256 / 16) % 2 = 1) := by
  omega
def sgI (v : Int) : Int := if v < 32768 then v else v - 65536
theorem ov_adc (x y c : Int) (hx : 0 ≤ x ∧ x < 65536) (hy : 0 ≤ y ∧ y < 65536) (hc : 0 ≤ c ∧ c < 2) :
    (sgI x + sgI y + c < -32768 ∨ sgI x + sgI y + c > 32767) ↔
      ((x < 32768 ↔ y < 32768) ∧ ¬ (x < 32768 ↔ (x + y + c) % 65536 < 32768)) := by
  unfold sgI
  by_cases s1 : x < 32768 <;> by_cases s2 : y < 32768 <;> by_cases s3 : (x + y + c) % 65536 < 32768 <;>
    simp only [s1, s2, s3, if_true, if_false, iff_self, iff_true, iff_false, true_iff, false_iff, not_true_eq_false,
      not_false_eq_true, and_true, and_false, true_and, false_and] <;> omega
theorem ov_sbc (x y c : Int) (hx : 0 ≤ x ∧ x < 65536) (hy : 0 ≤ y ∧ y < 65536) (hc : 0 ≤ c ∧ c < 2) :
    (sgI x - sgI y - c < -32768 ∨ sgI x - sgI y - c > 32767) ↔
      (¬ (x < 32768 ↔ y < 32768) ∧ ¬ (x < 32768 ↔ (x - (y + c)) % 65536 < 32768)) := by
  unfold sgI
  by_cases s1 : x < 32768 <;> by_cases s2 : y < 32768 <;> by_cases s3 : (x - (y + c)) % 65536 < 32768 <;>
    simp only [s1, s2, s3, if_true, if_false, iff_self, iff_true, iff_false, true_iff, false_iff, not_true_eq_false,
      not_false_eq_true, and_true, and_false, true_and, false_and] <;> omega

theorem sgn16_toNat (x : Int) (hx : 0 ≤ x) : sgn16 x.toNat = sgI x := by
  unfold sgn16 sgI
  have t : (x.toNat < 32768) = (x < 32768) := propext (by omega)
  simp only [t]
  split <;> omega

theorem adc_tH (c h l rr : Int) (hc : 0 ≤ c ∧ c < 2) (hh : 0 ≤ h ∧ h < 256) (hl : 0 ≤ l ∧ l < 256) (hrr : 0 ≤ rr ∧ rr < 65536) :
    ((l + 256 * h).toNat % 4096 + rr.toNat % 4096 + c.toNat > 4095) =
      ((h / 16 + rr / 256 / 16 + (l + 256 * h + rr + c) % 65536 / 256 / 16) % 2 = 1) := by
  apply propext
  have hhalf := half_adc (l + 256 * h) rr c (by omega) hrr hc
  have e1 : (l + 256 * h) / 256 / 16 = h / 16 := by omega
  have e0 : ((l + 256 * h).toNat % 4096 + rr.toNat % 4096 + c.toNat > 4095) ↔
      ((l + 256 * h) % 4096 + rr % 4096 + c > 4095) := by omega
  exact e0.trans (hhalf.trans (by rw [e1]))

theorem sbc_tH (c h l rr : Int) (hc : 0 ≤ c ∧ c < 2) (hh : 0 ≤ h ∧ h < 256) (hl : 0 ≤ l ∧ l < 256) (hrr : 0 ≤ rr ∧ rr < 65536) :
    ((l + 256 * h).toNat % 4096 < rr.toNat % 4096 + c.toNat) =
      ((h / 16 + rr / 256 / 16 + (l + 256 * h - (rr + c)) % 65536 / 256 / 16) % 2 = 1) := by
  apply propext
  have hhalf := half_sbc (l + 256 * h) rr c (by omega) hrr hc
  have e1 : (l + 256 * h) / 256 / 16 = h / 16 := by omega
  have e0 : ((l + 256 * h).toNat % 4096 < rr.toNat % 4096 + c.toNat) ↔
      ((l + 256 * h) % 4096 < rr % 4096 + c) := by omega
  exact e0.trans (hhalf.trans (by rw [e1]))

theorem adc_tV (c x rr : Int) (hc : 0 ≤ c ∧ c < 2) (hx : 0 ≤ x ∧ x < 65536) (hrr : 0 ≤ rr ∧ rr < 65536) :
    (sgn16 x.toNat + sgn16 rr.toNat + (c.toNat : Int) < -32768 ∨ sgn16 x.toNat + sgn16 rr.toNat + (c.toNat : Int) > 32767) =
      ((x < 32768 ↔ rr < 32768) ∧ ¬ (x < 32768 ↔ (x + rr + c) % 65536 < 32768)) := by
  apply propext
  rw [sgn16_toNat _ hx.1, sgn16_toNat _ hrr.1, ← ov_adc x rr c hx hrr hc]
  have : (c.toNat : Int) = c := by omega
  rw [this]

theorem sbc_tV (c x rr : Int) (hc : 0 ≤ c ∧ c < 2) (hx : 0 ≤ x ∧ x < 65536) (hrr : 0 ≤ rr ∧ rr < 65536) :
    (sgn16 x.toNat - sgn16 rr.toNat - (c.toNat : Int) < -32768 ∨ sgn16 x.toNat - sgn16 rr.toNat - (c.toNat : Int) > 32767) =
      (¬ (x < 32768 ↔ rr < 32768) ∧ ¬ (x < 32768 ↔ (x - (rr + c)) % 65536 < 32768)) := by
  apply propext
  rw [sgn16_toNat _ hx.1, sgn16_toNat _ hrr.1, ← ov_sbc x rr c hx hrr hc]
  have : (c.toNat : Int) = c := by omega
  rw [this]

theorem adc_tC (c x rr : Int) (hc : 0 ≤ c ∧ c < 2) (hx : 0 ≤ x ∧ x < 65536) (hrr : 0 ≤ rr ∧ rr < 65536) :
    (x.toNat + rr.toNat + c.toNat > 65535) = (x + rr + c > 65535) := propext (by omega)

theorem sbc_tC (c x rr : Int) (hc : 0 ≤ c ∧ c < 2) (hx : 0 ≤ x ∧ x < 65536) (hrr : 0 ≤ rr ∧ rr < 65536) :
    (x.toNat < rr.toNat + c.toNat) = (x < rr + c) := propext (by omega)

theorem adc_hz (c x rr : Int) (hc : 0 ≤ c ∧ c < 2) (hx : 0 ≤ x ∧ x < 65536) (hrr : 0 ≤ rr ∧ rr < 65536) :
    ((fl ((x.toNat + rr.toNat + c.toNat) % 65536 == 0) 64 : Nat) : Int) = if (x + rr + c) % 65536 = 0 then 64 else 0 := by
  by_cases h0 : (x + rr + c) % 65536 = 0
  · have : (x.toNat + rr.toNat + c.toNat) % 65536 = 0 := by omega
    simp [fl, h0, this]
  · have : (x.toNat + rr.toNat + c.toNat) % 65536 ≠ 0 := by omega
    simp [fl, h0, this]

theorem sbc_hz (c x rr : Int) (hc : 0 ≤ c ∧ c < 2) (hx : 0 ≤ x ∧ x < 65536) (hrr : 0 ≤ rr ∧ rr < 65536) :
    ((fl ((x.toNat + 131072 - rr.toNat - c.toNat) % 65536 == 0) 64 : Nat) : Int) =
      if (x - (rr + c)) % 65536 = 0 then 64 else 0 := by
  by_cases h0 : (x - (rr + c)) % 65536 = 0
  · have : (x.toNat + 131072 - rr.toNat - c.toNat) % 65536 = 0 := by omega
    simp [fl, h0, this]
  · have : (x.toNat + 131072 - rr.toNat - c.toNat) % 65536 ≠ 0 := by omega
    simp [fl, h0, this]

/-- ADC HL,rr exactly as `adc_hl` computes it -/
theorem adc16_spec (c h l rr : Int) (hc : 0 ≤ c ∧ c < 2) (hh : Byte h) (hl : Byte l) (hrr : Word rr) :
    ((adc16 c.toNat (l + 256 * h).toNat rr.toNat).1 : Int) = (l + 256 * h + rr + c) % 65536 ∧
    ((adc16 c.toNat (l + 256 * h).toNat rr.toNat).2 : Int) =
      (if l + 256 * h + rr + c > 65535 then 1 else 0) + (if (l + 256 * h + rr + c) % 65536 = 0 then 64 else 0)
      + PyInt.land (PyInt.xor (PyInt.xor h (rr / 256)) ((l + 256 * h + rr + c) % 65536 / 256)) 16
      + (if PyInt.xor (l + 256 * h) rr < 32768 ∧ PyInt.xor (l + 256 * h) ((l + 256 * h + rr + c) % 65536) > 32767 then 4 else 0)
      + PyInt.land ((l + 256 * h + rr + c) % 65536 / 256) 168 := by
  unfold Byte at hh hl; unfold Word at hrr
  have hb : Byte ((l + 256 * h + rr + c) % 65536 / 256) := by unfold Byte; omega
  have hw1 : Word (l + 256 * h) := by unfold Word; omega
  have hw2 : Word ((l + 256 * h + rr + c) % 65536) := by unfold Word; omega
  have e : ((l + 256 * h + rr + c) % 65536 / 256).toNat = ((l + 256 * h).toNat + rr.toNat + c.toNat) % 65536 / 256 := by omega
  have hs1 := xor_sign_int _ _ hw1 (show Word rr from hrr)
  have hs2 := xor_sign_int _ _ hw1 hw2
  rw [(byte_masks _ hb).1, e, land16_xor3_int _ _ _ (by omega) (by omega) (by omega)]
  simp only [adc16, mkF_sum, fl_false, bit_hi5, bit_hi3, bit_hi7]
  constructor
  · omega
  · have hgt : PyInt.xor (l + 256 * h) ((l + 256 * h + rr + c) % 65536) > 32767 ↔
        ¬ (PyInt.xor (l + 256 * h) ((l + 256 * h + rr + c) % 65536) < 32768) := by omega
    have k1 : (PyInt.xor (l + 256 * h) rr < 32768) = ((l + 256 * h < 32768) ↔ (rr < 32768)) := propext hs1
    have k2 : (PyInt.xor (l + 256 * h) ((l + 256 * h + rr + c) % 65536) > 32767) =
        ¬ ((l + 256 * h < 32768) ↔ ((l + 256 * h + rr + c) % 65536 < 32768)) := propext (hgt.trans (not_congr hs2))
    simp only [k1, k2]
    have hz := adc_hz c (l + 256 * h) rr hc hw1 hrr
    have tC := adc_tC c (l + 256 * h) rr hc hw1 hrr
    have tH := adc_tH c h l rr hc hh hl hrr
    have tV := adc_tV c (l + 256 * h) rr hc hw1 hrr
    simp only [Int.natCast_add, fl_or_cast, fl_decide_cast, hz, tC, tH, tV]
    clear hz tC tH tV k1 k2 hgt hs1 hs2 e
    omega

/-- SBC HL,rr exactly as `sbc_hl` computes it -/
theorem sbc16_spec (c h l rr : Int) (hc : 0 ≤ c ∧ c < 2) (hh : Byte h) (hl : Byte l) (hrr : Word rr) :
    ((sbc16 c.toNat (l + 256 * h).toNat rr.toNat).1 : Int) = (l + 256 * h - (rr + c)) % 65536 ∧
    ((sbc16 c.toNat (l + 256 * h).toNat rr.toNat).2 : Int) =
      (if l + 256 * h < rr + c then 3 else 2) + (if (l + 256 * h - (rr + c)) % 65536 = 0 then 64 else 0)
      + PyInt.land (PyInt.xor (PyInt.xor h (rr / 256)) ((l + 256 * h - (rr + c)) % 65536 / 256)) 16
      + (if PyInt.xor (l + 256 * h) rr > 32767 ∧ PyInt.xor (l + 256 * h) ((l + 256 * h - (rr + c)) % 65536) > 32767 then 4 else 0)
      + PyInt.land ((l + 256 * h - (rr + c)) % 65536 / 256) 168 := by
  unfold Byte at hh hl; unfold Word at hrr
  have hb : Byte ((l + 256 * h - (rr + c)) % 65536 / 256) := by unfold Byte; omega
  have hw1 : Word (l + 256 * h) := by unfold Word; omega
  have hw2 : Word ((l + 256 * h - (rr + c)) % 65536) := by unfold Word; omega
  have e : ((l + 256 * h - (rr + c)) % 65536 / 256).toNat =
      ((l + 256 * h).toNat + 131072 - rr.toNat - c.toNat) % 65536 / 256 := by omega
  have hs1 := xor_sign_int _ _ hw1 (show Word rr from hrr)
  have hs2 := xor_sign_int _ _ hw1 hw2
  rw [(byte_masks _ hb).1, e, land16_xor3_int _ _ _ (by omega) (by omega) (by omega)]
  simp only [sbc16, mkF_sum, fl_true, bit_hi5, bit_hi3, bit_hi7]
  constructor
  · omega
  · have hgt1 : PyInt.xor (l + 256 * h) rr > 32767 ↔ ¬ (PyInt.xor (l + 256 * h) rr < 32768) := by omega
    have hgt : PyInt.xor (l + 256 * h) ((l + 256 * h - (rr + c)) % 65536) > 32767 ↔
        ¬ (PyInt.xor (l + 256 * h) ((l + 256 * h - (rr + c)) % 65536) < 32768) := by omega
    have k1 : (PyInt.xor (l + 256 * h) rr > 32767) = ¬ ((l + 256 * h < 32768) ↔ (rr < 32768)) :=
      propext (hgt1.trans (not_congr hs1))
    have k2 : (PyInt.xor (l + 256 * h) ((l + 256 * h - (rr + c)) % 65536) > 32767) =
        ¬ ((l + 256 * h < 32768) ↔ ((l + 256 * h - (rr + c)) % 65536 < 32768)) := propext (hgt.trans (not_congr hs2))
    simp only [k1, k2]
    have hz := sbc_hz c (l + 256 * h) rr hc hw1 hrr
    have tC := sbc_tC c (l + 256 * h) rr hc hw1 hrr
    have tH := sbc_tH c h l rr hc hh hl hrr
    have tV := sbc_tV c (l + 256 * h) rr hc hw1 hrr
    simp only [Int.natCast_add, fl_or_cast, fl_decide_cast, hz, tC, tH, tV]
    clear hz tC tH tV k1 k2 hgt hgt1 hs1 hs2 e
    omega

end C05
